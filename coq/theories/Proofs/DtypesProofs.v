(* Proofs about Impl/Dtypes.v (property C17). *)
From Coq Require Import NArith List Bool String Ascii Lia.
From Pq Require Import Base.Bytes Proofs.BytesProofs.
From Pq Require Import Impl.Dtypes.
Import ListNotations.

(* ------------------------------------------------------------------------------------------ *)
(* generic                                                                                     *)
(* ------------------------------------------------------------------------------------------ *)
Lemma assoc_In {K V} (eqb : K -> K -> bool) k (l : list (K * V)) v :
  assoc eqb k l = Some v -> In v (map snd l).
Proof.
  induction l as [|[k' v'] r IH]; cbn; [discriminate|].
  destruct (eqb k k'); intros H; [inversion H; now left|right; auto].
Qed.

Lemma assoc_bytes_In k (l : list (bytes * dt)) v : assoc bytes_eqb k l = Some v -> In (k, v) l.
Proof.
  induction l as [|[k' v'] r IH]; cbn; [discriminate|].
  destruct (bytes_eqb_spec k k') as [E|E]; intros H; [inversion H; subst; now left|right; auto].
Qed.

Lemma tunit_eqb_eq a b : tunit_eqb a b = true -> a = b.
Proof. destruct a, b; cbn; congruence. Qed.

Lemma dt_eqb_eq a b : dt_eqb a b = true -> a = b.
Proof.
  destruct a, b; cbn; try discriminate; try reflexivity; rewrite ?andb_true_iff;
    repeat match goal with
           | |- _ /\ _ -> _ => intros [? ?]
           | |- _ = true -> _ => intros ?
           end;
    repeat match goal with
           | H : Bool.eqb _ _ = true |- _ => apply eqb_prop in H
           | H : N.eqb _ _ = true |- _ => apply N.eqb_eq in H
           | H : tunit_eqb _ _ = true |- _ => apply tunit_eqb_eq in H
           end; subst; reflexivity.
Qed.

Lemma lookup_name_In l k d : lookup_name l k = ROk d -> In (k, d) l.
Proof.
  unfold lookup_name. destruct (assoc bytes_eqb k l) eqn:E; [|discriminate].
  intros H; inversion H; subst. now apply assoc_bytes_In.
Qed.

(* ------------------------------------------------------------------------------------------ *)
(* what typemap can answer on the pinned tables                                                *)
(* ------------------------------------------------------------------------------------------ *)
Definition typemap_codomain : list dt :=
  map snd (t_simple pinned) ++ map snd (t_complex pinned) ++ map snd (t_pandas_nullable pinned) ++
  map snd (t_npnames pinned) ++ [DObj; DM8 Us false; DM8 Ums false; DM8 Uus false; DM8 Uns false].

Lemma in_snd {K V} (k : K) (v : V) l : In (k, v) l -> In v (map snd l).
Proof. intros H. change v with (snd (k, v)). now apply in_map. Qed.

Lemma simple_total t : (t < 8)%N -> assoc N.eqb t (t_simple pinned) <> None.
Proof.
  intros H.
  assert (E : (t = 0 \/ t = 1 \/ t = 2 \/ t = 3 \/ t = 4 \/ t = 5 \/ t = 6 \/ t = 7)%N) by lia.
  repeat (destruct E as [E|E]; [subst; cbn; discriminate|]). subst; cbn; discriminate.
Qed.

Lemma typemap_codomain_ok se md d :
  (se_type se < 8)%N -> typemap pinned se md = ROk d -> In d typemap_codomain.
Proof.
  intros Ht. unfold typemap, typemap_codomain. cbv zeta.
  assert (Rest : forall r, r = ROk d ->
    r = match se_ts se with
        | Some u => ROk (DM8 u false)
        | None =>
          match se_conv se with
          | None => match assoc N.eqb (se_type se) (t_simple pinned) with
                    | Some d => ROk d | None => ROk (DS (se_len se)) end
          | Some c =>
            match md with
            | Some m => if contains (b_ "time") (md_numpy m) then lookup_name (t_npnames pinned) (md_numpy m)
                        else match assoc N.eqb c (t_complex pinned) with Some d => ROk d | None => ROk DObj end
            | None => match assoc N.eqb c (t_complex pinned) with Some d => ROk d | None => ROk DObj end
            end
          end
        end ->
    In d (map snd (t_simple pinned) ++ map snd (t_complex pinned) ++ map snd (t_pandas_nullable pinned) ++
          map snd (t_npnames pinned) ++ [DObj; DM8 Us false; DM8 Ums false; DM8 Uus false; DM8 Uns false])).
  { intros r Hr E. rewrite Hr in E. clear Hr r.
    assert (Cx : forall c, ROk d = match assoc N.eqb c (t_complex pinned) with Some d => ROk d | None => ROk DObj end ->
                 In d (map snd (t_simple pinned) ++ map snd (t_complex pinned) ++ map snd (t_pandas_nullable pinned) ++
                       map snd (t_npnames pinned) ++ [DObj; DM8 Us false; DM8 Ums false; DM8 Uus false; DM8 Uns false])).
    { intros c Hc. destruct (assoc N.eqb c (t_complex pinned)) eqn:Ec; inversion Hc; subst.
      - apply assoc_In in Ec. rewrite !in_app_iff. tauto.
      - rewrite !in_app_iff. cbn. tauto. }
    destruct (se_ts se) as [u|].
    - inversion E; subst. rewrite !in_app_iff. destruct u; cbn; tauto.
    - destruct (se_conv se) as [c|].
      + destruct md as [m|]; [|now apply (Cx c)].
        destruct (contains (b_ "time") (md_numpy m)); [|now apply (Cx c)].
        symmetry in E. apply lookup_name_In, in_snd in E. rewrite !in_app_iff. tauto.
      + destruct (assoc N.eqb (se_type se) (t_simple pinned)) eqn:Es.
        * inversion E; subst. apply assoc_In in Es. rewrite !in_app_iff. tauto.
        * exfalso. now apply (simple_total _ Ht). }
  destruct md as [m|].
  - destruct (contains (b_ "Int") (md_numpy m) || bytes_eqb (md_numpy m) (b_ "boolean")).
    + intros E. apply lookup_name_In, in_snd in E. rewrite !in_app_iff. tauto.
    + destruct (contains (b_ "Int") (md_pandas m) || bytes_eqb (md_pandas m) (b_ "boolean")).
      * intros E. apply lookup_name_In, in_snd in E. rewrite !in_app_iff. tauto.
      * intros E. eapply Rest; [exact E|reflexivity].
  - intros E. eapply Rest; [exact E|reflexivity].
Qed.

(* ------------------------------------------------------------------------------------------ *)
(* adjust, checked on every combination of the finitely many facts it looks at                *)
(* ------------------------------------------------------------------------------------------ *)
Definition all_bool := [true; false].
Definition np_results : list (option res) :=
  None :: Some RErr :: map (fun p => Some (ROk (snd p))) (t_npnames pinned).
Definition ev_cases : list (option bool) := [None; Some true; Some false].

Lemma all_bool_In b : In b all_bool.
Proof. destruct b; cbn; tauto. Qed.
Lemma ev_cases_In e : In e ev_cases.
Proof. destruct e as [[|]|]; cbn; tauto. Qed.
Lemma np_results_In (md : option mdent) :
  In (option_map (fun m => lookup_name (t_npnames pinned) (md_numpy m)) md) np_results.
Proof.
  destruct md as [m|]; cbn [option_map]; [|now left].
  destruct (lookup_name (t_npnames pinned) (md_numpy m)) as [d|] eqn:E; [|right; now left].
  right; right. apply lookup_name_In in E.
  change (Some (ROk d)) with ((fun p : bytes * dt => Some (ROk (snd p))) (md_numpy m, d)). now apply in_map.
Qed.

(* forall over the finite arguments of adjust *)
Definition forall_adjust (P : bool -> bool -> bool -> dt -> option res -> bool -> bool -> bool -> option bool -> bool) : bool :=
  forallb (fun i96 => forallb (fun has_md => forallb (fun pn => forallb (fun d => forallb (fun np =>
  forallb (fun tz => forallb (fun claims => forallb (fun cs => forallb (fun ev => P i96 has_md pn d np tz claims cs ev)
  ev_cases) all_bool) all_bool) all_bool) np_results) typemap_codomain) all_bool) all_bool) all_bool.

Lemma forall_adjust_spec P : forall_adjust P = true ->
  forall i96 has_md pn d md tz claims cs ev, In d typemap_codomain ->
    P i96 has_md pn d (option_map (fun m => lookup_name (t_npnames pinned) (md_numpy m)) md) tz claims cs ev = true.
Proof.
  unfold forall_adjust. intros H i96 has_md pn d md tz claims cs ev Hd.
  rewrite forallb_forall in H. specialize (H i96 (all_bool_In _)).
  rewrite forallb_forall in H. specialize (H has_md (all_bool_In _)).
  rewrite forallb_forall in H. specialize (H pn (all_bool_In _)).
  rewrite forallb_forall in H. specialize (H d Hd).
  rewrite forallb_forall in H. specialize (H _ (np_results_In md)).
  rewrite forallb_forall in H. specialize (H tz (all_bool_In _)).
  rewrite forallb_forall in H. specialize (H claims (all_bool_In _)).
  rewrite forallb_forall in H. specialize (H cs (all_bool_In _)).
  rewrite forallb_forall in H. exact (H ev (ev_cases_In _)).
Qed.

(* ---- C17_realise_fixpoint ------------------------------------------------------------------- *)
Definition fix_ok (tz : bool) (r : res) : bool :=
  match r with ROk d => dt_eqb (realise tz d) d | RErr => true end.

Lemma adjust_fix_check :
  forall_adjust (fun i96 has_md pn d np tz claims cs ev =>
                   if i96 then fix_ok tz (adjust pinned true has_md pn d np tz claims cs ev) else true) = true.
Proof. vm_compute. reflexivity. Qed.

(* For EVERY schema element with a valid physical type, every pandas-metadata entry (any text), every list of
   row groups, both settings of pandas_nulls, with or without a `categories` request: if the prediction is a
   dtype d, a column allocated for d has dtype d. *)
Theorem realise_fixpoint : forall has_md pn se md loc rgs as_cat d,
  (se_type se < 8)%N ->
  predict pinned has_md pn se md loc rgs as_cat = ROk d -> realise (md_tzflag md) d = d.
Proof.
  intros has_md pn se md loc rgs as_cat d Ht. unfold predict, base_dtype, base_dtype_gen. cbn [r_int96_tz r_absent_counts r_cat_md r_by_name repaired].
  destruct (se_group se).
  - destruct as_cat; intros H; inversion H; reflexivity.
  - destruct (typemap pinned se md) as [d0|] eqn:Etm; [|discriminate].
    pose proof (typemap_codomain_ok _ _ _ Ht Etm) as Hin.
    pose proof (forall_adjust_spec _ adjust_fix_check true has_md pn d0 md (md_tzflag md)
                                   (md_claims_gen true md) (md_cat_skip true md) (null_evidence_gen true loc rgs) Hin) as Hc.
    cbv beta iota in Hc.
    destruct (adjust pinned true has_md pn d0 _ (md_tzflag md) (md_claims_gen true md) (md_cat_skip true md) (null_evidence_gen true loc rgs)) as [d1|];
      [|discriminate].
    cbn [fix_ok] in Hc. apply dt_eqb_eq in Hc.
    destruct as_cat; intros H; inversion H; subst; [reflexivity|exact Hc].
Qed.

(* the pinned tree's INT96 rule is refuted: a zoned INT96 field is predicted 'M8[ns]' and allocated tz-aware *)
Lemma int96_tz_old_refuted :
  exists has_md pn se md i rgs d,
    (se_type se < 8)%N /\
    base_dtype_old pinned has_md pn se md i rgs = ROk d /\ realise (md_tzflag md) d <> d.
Proof.
  exists true, true, (mk_se 3 None None 0 false),
         (Some (mk_md (b_ "datetime64[ns]") (b_ "datetimetz") true)), (Some 0%nat), [], (DM8 Uns false).
  split; [reflexivity|]. split; [vm_compute; reflexivity|]. cbn. discriminate.
Qed.

(* the pinned tree allocated an index column of a masked dtype as int64 (repaired by a fix: commit) *)
Lemma masked_index_old_refuted :
  exists has_md pn se md i rgs d,
    (se_type se < 8)%N /\
    predict pinned has_md pn se md i rgs false = ROk d /\ realise_index_old (md_tzflag md) d <> d.
Proof.
  exists true, true, (mk_se 1 None None 0 false),
         (Some (mk_md (b_ "Int32") (b_ "Int32") false)), (Some 0%nat), [], (DNInt true 32).
  split; [reflexivity|]. split; [vm_compute; reflexivity|]. cbn. discriminate.
Qed.

(* repaired tree: an index column allocated for the predicted dtype has the predicted dtype, masked dtypes included *)
Theorem realise_index_fixpoint : forall has_md pn se md loc rgs as_cat d,
  (se_type se < 8)%N ->
  predict pinned has_md pn se md loc rgs as_cat = ROk d ->
  realise_index (md_tzflag md) d = d.
Proof.
  intros has_md pn se md loc rgs as_cat d Ht H.
  pose proof (realise_fixpoint _ _ _ _ _ _ _ _ Ht H) as R.
  destruct d; try exact R; reflexivity.
Qed.

(* ---- C17_null_evidence ------------------------------------------------------------------------ *)
Definition np_int_or_bool (d : dt) : bool := match d with DInt _ _ | DBool => true | _ => false end.

(* "this row group gives no reason to expect a NULL in the chunk at `loc`": it is empty, or the chunk exists and its
   statistics report null_count = 0 - or, on the pinned tree only (absent = false), carry no null_count at all *)
Definition no_evidence_rg (absent : bool) (loc : option nat) (rg : rgroup) : Prop :=
  rg_rows rg = 0%N \/
  exists i nc, loc = Some i /\ nth_error (rg_chunks rg) i = Some (Some nc) /\ (nc = Some 0%N \/ (absent = false /\ nc = None)).

Lemma null_evidence_false absent loc rgs :
  null_evidence_gen absent loc rgs = Some false <-> Forall (no_evidence_rg absent loc) rgs.
Proof.
  induction rgs as [|rg r IH]; cbn [null_evidence_gen].
  - split; [constructor|reflexivity].
  - destruct (N.eqb_spec (rg_rows rg) 0) as [E|E].
    + rewrite IH. split; intros H.
      * constructor; [now left|exact H].
      * now inversion H.
    + destruct loc as [i|].
      2:{ split; [discriminate|]. intros H. inversion H as [|? ? H1 H2]; subst.
          destruct H1 as [H1|(i & nc & H1 & _)]; [contradiction|discriminate]. }
      destruct (nth_error (rg_chunks rg) i) as [[[n|]|]|] eqn:En.
      * destruct (N.eqb_spec n 0) as [E0|E0].
        -- rewrite IH. split; intros H.
           ++ constructor; [right; exists i, (Some n); split; [reflexivity|split; [exact En|left; now subst]]|exact H].
           ++ now inversion H.
        -- split; [discriminate|]. intros H. inversion H as [|? ? H1 H2]; subst.
           destruct H1 as [H1|(i' & nc & Hi & H1 & H3)]; [contradiction|]. inversion Hi; subst i'.
           rewrite En in H1. inversion H1; subst. destruct H3 as [H3|[_ H3]]; [|discriminate]. inversion H3. contradiction.
      * destruct absent.
        -- split; [discriminate|]. intros H. inversion H as [|? ? H1 H2]; subst.
           destruct H1 as [H1|(i' & nc & Hi & H1 & H3)]; [contradiction|]. inversion Hi; subst i'.
           rewrite En in H1. inversion H1; subst. destruct H3 as [H3|[H3 _]]; discriminate.
        -- rewrite IH. split; intros H.
           ++ constructor; [right; exists i, None; split; [reflexivity|split; [exact En|right; now split]]|exact H].
           ++ now inversion H.
      * split; [discriminate|]. intros H. inversion H as [|? ? H1 H2]; subst.
        destruct H1 as [H1|(i' & nc & Hi & H1 & _)]; [contradiction|]. inversion Hi; subst i'. rewrite En in H1. discriminate.
      * split; [discriminate|]. intros H. inversion H as [|? ? H1 H2]; subst.
        destruct H1 as [H1|(i' & nc & Hi & H1 & _)]; [contradiction|]. inversion Hi; subst i'. rewrite En in H1. discriminate.
Qed.

(* ---- which chunk is looked at ------------------------------------------------------------------- *)
Lemma index_of_nth x l j : index_of x l = Some j -> nth_error l j = Some x.
Proof.
  revert j; induction l as [|y r IH]; intros j; cbn [index_of]; [discriminate|].
  destruct (bytes_eqb_spec x y) as [E|E].
  - intros H; inversion H; subst. reflexivity.
  - destruct (index_of x r) as [k|]; cbn [option_map]; [|discriminate].
    intros H; inversion H; subst. cbn. now apply IH.
Qed.

(* repaired tree: the chunk whose statistics are consulted for a field IS the chunk with the field's own path *)
Theorem field_chunk_own : forall paths name i j,
  field_chunk true paths name i = Some j -> nth_error paths j = Some name.
Proof. intros paths name i j H. now apply index_of_nth. Qed.

(* the pinned tree consulted the chunk at the field's POSITION: after a two-leaf MAP field this is another column's *)
Lemma field_chunk_old_refuted :
  exists paths name i j,
    field_chunk false paths name i = Some j /\ nth_error paths j <> Some name /\
    field_chunk true paths name i = Some 3%nat.
Proof.
  exists [b_ "m.key_value.key"; b_ "m.key_value.value"; b_ "a"; b_ "b"], (b_ "b"), 2%nat, 2%nat.
  split; [reflexivity|]. split; [vm_compute; discriminate|vm_compute; reflexivity].
Qed.

(* a numpy_type text that np.dtype reads as an int/bool dtype contains "int"/"bool" *)
Lemma npnames_link_check :
  forallb (fun p => implb (np_int_or_bool (snd p))
                          (negb (match fst p with [] => true | _ => false end) &&
                           (contains (b_ "int") (fst p) || contains (b_ "bool") (fst p))))
          (t_npnames pinned) = true.
Proof. vm_compute. reflexivity. Qed.

(* where the looked-up numpy_type is USED (not a skipped categorical entry), an int/bool reading of it comes with the claim *)
Definition link_ok (np : option res) (claims cat_skip : bool) : bool :=
  cat_skip || match np with Some (ROk d1) => implb (np_int_or_bool d1) claims | _ => true end.

Lemma link_holds cat_md md :
  link_ok (option_map (fun m => lookup_name (t_npnames pinned) (md_numpy m)) md) (md_claims_gen cat_md md) (md_cat_skip cat_md md) = true.
Proof.
  destruct md as [m|]; [|reflexivity]. unfold link_ok, md_cat_skip, md_claims_gen. cbn [option_map].
  destruct (cat_md && bytes_eqb (md_pandas m) (b_ "categorical")) eqn:Ec; [reflexivity|]. cbn [orb negb].
  destruct (lookup_name (t_npnames pinned) (md_numpy m)) as [d1|] eqn:E; [|reflexivity].
  apply lookup_name_In in E. pose proof npnames_link_check as H. rewrite forallb_forall in H.
  specialize (H _ E). cbn [fst snd] in H. rewrite andb_true_r. exact H.
Qed.

Lemma adjust_evidence_check :
  forall_adjust (fun i96 has_md pn d np tz claims cs ev =>
     match adjust pinned i96 has_md pn d np tz claims cs ev with
     | ROk d' => implb (np_int_or_bool d' && negb (has_md && claims) && link_ok np claims cs)
                       (match ev with Some false => true | _ => false end)
     | RErr => true
     end) = true.
Proof. vm_compute. reflexivity. Qed.

(* If the prediction for a field is a plain numpy int/bool dtype - one that cannot hold a NULL - and it was not
   taken on trust from the pandas metadata, then in EVERY non-empty row group the chunk at the field's position
   carries statistics with null_count = 0 (repaired tree; on the pinned tree: 0 or absent).  Any number of row groups. *)
Theorem null_evidence_sound : forall R has_md pn se md loc rgs d,
  (se_type se < 8)%N ->
  base_dtype_gen R pinned has_md pn se md loc rgs = ROk d ->
  np_int_or_bool d = true -> has_md && md_claims_gen (r_cat_md R) md = false ->
  Forall (no_evidence_rg (r_absent_counts R) loc) rgs.
Proof.
  intros R has_md pn se md loc rgs d Ht. unfold base_dtype_gen.
  destruct (se_group se); [intros H; inversion H; subst; discriminate|].
  destruct (typemap pinned se md) as [d0|] eqn:Etm; [|discriminate].
  pose proof (typemap_codomain_ok _ _ _ Ht Etm) as Hin.
  pose proof (forall_adjust_spec _ adjust_evidence_check (r_int96_tz R) has_md pn d0 md (md_tzflag md)
                                 (md_claims_gen (r_cat_md R) md) (md_cat_skip (r_cat_md R) md)
                                 (null_evidence_gen (r_absent_counts R) loc rgs) Hin) as Hc.
  cbv beta in Hc. rewrite link_holds in Hc.
  intros H Hk Hcl. rewrite H in Hc. rewrite Hk, Hcl in Hc. cbn in Hc.
  apply null_evidence_false. destruct (null_evidence_gen (r_absent_counts R) loc rgs) as [[|]|]; try discriminate. reflexivity.
Qed.

(* ... and then, if the null counts that ARE written are exact (C04), no NULL cell exists in the column *)
Theorem no_null_reaches_plain_dtype : forall loc rgs (actual : list N),
  Forall (no_evidence_rg true loc) rgs ->
  Forall2 (fun rg a => (rg_rows rg = 0%N -> a = 0%N) /\
                       forall i n, loc = Some i -> nth_error (rg_chunks rg) i = Some (Some (Some n)) -> n = a) rgs actual ->
  Forall (fun a => a = 0%N) actual.
Proof.
  intros loc rgs actual H. revert actual. induction H as [|rg r Hrg Hr IH]; intros actual H2; inversion H2; subst; constructor.
  - destruct H1 as [Hz Hnc]. destruct Hrg as [E|(i & nc & Hi & En & Ez)]; [auto|].
    destruct Ez as [Ez|[Ez _]]; [|discriminate]. subst. symmetry. now apply (Hnc i).
  - now apply IH.
Qed.

(* the pinned tree took statistics WITHOUT a null_count for "no nulls": a plain int64 is predicted although a
   non-empty row group says nothing about nulls (repaired by a fix: commit) *)
Lemma absent_null_count_old_refuted :
  exists se rgs rg,
    base_dtype_gen pinned_rules pinned false true se None (Some 0%nat) rgs = ROk (DInt true 64) /\
    In rg rgs /\ rg_rows rg <> 0%N /\ nth_error (rg_chunks rg) 0 = Some (Some None) /\
    base_dtype_gen repaired pinned false true se None (Some 0%nat) rgs = ROk (DNInt true 64).
Proof.
  exists (mk_se 2 None None 0 false), [mk_rg 5 [Some None]], (mk_rg 5 [Some None]).
  split; [vm_compute; reflexivity|]. split; [now left|]. split; [discriminate|]. split; reflexivity.
Qed.

(* the pinned tree trusted the numpy_type of a CATEGORICAL entry (the dtype of the codes): a categorical column of
   integers read as plain values is predicted int64 although its statistics report nulls (repaired by a fix: commit) *)
Lemma categorical_md_old_refuted :
  exists se md rgs,
    base_dtype_gen pinned_rules pinned true true se (Some md) (Some 0%nat) rgs = ROk (DInt true 64) /\
    null_evidence_gen false (Some 0%nat) rgs = Some true /\
    base_dtype_gen repaired pinned true true se (Some md) (Some 0%nat) rgs = ROk (DNInt true 64).
Proof.
  exists (mk_se 2 None None 0 false), (mk_md (b_ "int8") (b_ "categorical") false), [mk_rg 5 [Some (Some 2%N)]].
  repeat split; vm_compute; reflexivity.
Qed.

(* ---- C17_counts --------------------------------------------------------------------------------- *)
Lemma count_acc rows acc : fold_left N.add rows acc = (acc + fold_left N.add rows 0)%N.
Proof.
  revert acc. induction rows as [|x r IH]; intros acc; cbn; [lia|].
  rewrite IH. rewrite (IH x). lia.
Qed.

(* count() and the number of allocated rows = the length of the concatenation of the row groups' rows,
   for every list of row groups *)
Theorem count_is_length : forall (A : Type) (rgs : list rgroup) (frames : list (list A)),
  Forall2 (fun rg f => rg_rows rg = N.of_nat (List.length f)) rgs frames ->
  count (map rg_rows rgs) = N.of_nat (List.length (List.concat frames)).
Proof.
  intros A rgs frames H. unfold count. induction H as [|rg f r fs E H IH]; cbn; [reflexivity|].
  rewrite count_acc, IH, app_length, E. lia.
Qed.

(* ---- check_categories ---------------------------------------------------------------------------- *)
Lemma memb_In x l : memb x l = true <-> In x l.
Proof.
  unfold memb. rewrite existsb_exists. split.
  - intros (y & Hy & E). destruct (bytes_eqb_spec x y); [subst; exact Hy|discriminate].
  - intros H. exists x. split; [exact H|]. destruct (bytes_eqb_spec x x); [reflexivity|contradiction].
Qed.

(* with pandas metadata: no request = the stored categoricals; a request (list or dict) that is accepted =
   exactly the requested fields, whatever the metadata lists; without pandas metadata = the request *)
Theorem check_categories_spec : forall has_md categ nrg arg l,
  check_categories has_md categ nrg arg = Some l ->
  match arg with
  | None => l = if has_md then categ else []
  | Some cs => forall c, In c l <-> In c cs
  end.
Proof.
  intros has_md categ nrg arg l. unfold check_categories. destruct has_md; cbn [negb].
  - destruct arg as [cs|]; [|intros H; now inversion H].
    destruct (existsb (fun c => negb (memb c categ)) cs && (1 <? nrg)%N); [discriminate|].
    intros H; inversion H; subst; clear H. intros c. rewrite in_app_iff, !filter_In.
    rewrite memb_In. split.
    + intros [[_ H]|[H _]]; exact H.
    + intros H. destruct (memb c categ) eqn:E.
      * left. split; [now apply memb_In|exact H].
      * right. split; [exact H|reflexivity].
  - destruct arg as [cs|]; intros H; inversion H; subst; [tauto|reflexivity].
Qed.

(* a request for a field that is not a stored categorical is refused on a multi-row-group file *)
Theorem check_categories_refuses : forall categ nrg cs c,
  In c cs -> ~ In c categ -> (1 < nrg)%N -> check_categories true categ nrg (Some cs) = None.
Proof.
  intros categ nrg cs c Hc Hn Hr. unfold check_categories. cbn [negb].
  assert (E : existsb (fun c => negb (memb c categ)) cs = true).
  { apply existsb_exists. exists c. split; [exact Hc|]. apply negb_true_iff.
    destruct (memb c categ) eqn:E; [apply memb_In in E; contradiction|reflexivity]. }
  rewrite E. apply N.ltb_lt in Hr. rewrite Hr. reflexivity.
Qed.

(* ---- the writer's and the decoder's tables agree with the reader's prediction (finite) ---------- *)
Lemma written_roundtrip_pinned : written_roundtrip_ok pinned pinned_w_typemap = true.
Proof. vm_compute. reflexivity. Qed.

Lemma decode_consistent_pinned :
  decode_consistent pinned pinned_decode_typemap = true /\ decode_consistent pinned pinned_w_revmap = true.
Proof. split; vm_compute; reflexivity. Qed.

(* ---- columns and index of the frame ------------------------------------------------------------- *)
Lemma memb_false x l : memb x l = false <-> ~ In x l.
Proof.
  split.
  - intros H Hin. apply memb_In in Hin. congruence.
  - intros H. destruct (memb x l) eqn:E; [apply memb_In in E; contradiction|reflexivity].
Qed.

(* the frame's columns are exactly the wanted columns that are not index levels, in the wanted order;
   no index level stays behind as a column; every wanted column is a column or an index level *)
Theorem frame_columns_spec : forall cols cats request idx,
  let want := match request with Some l => l | None => cols ++ cats end in
  frame_columns cols cats request idx = filter (fun c => negb (memb c idx)) want /\
  (forall c, In c (frame_columns cols cats request idx) <-> In c want /\ ~ In c idx) /\
  (forall c, In c want -> In c (frame_columns cols cats request idx) \/ In c idx).
Proof.
  intros cols cats request idx want. unfold frame_columns. fold want.
  assert (E : filter (fun c => negb (memb c idx)) (want ++ filter (fun i => negb (memb i want)) idx)
              = filter (fun c => negb (memb c idx)) want).
  { rewrite filter_app. rewrite <- app_nil_r. f_equal.
    induction idx as [|i r IH] in want |- *; [reflexivity|].
    assert (G : forall l, (forall x, In x l -> In x (i :: r)) -> filter (fun c => negb (memb c (i :: r))) l = []).
    { intros l Hl. induction l as [|x l IHl]; [reflexivity|]. cbn [filter].
      assert (Hx : memb x (i :: r) = true) by (apply memb_In; apply Hl; now left).
      rewrite Hx. cbn. apply IHl. intros y Hy. apply Hl. now right. }
    apply G. intros x Hx. apply filter_In in Hx. apply Hx. }
  split; [exact E|]. rewrite E. split.
  - intros c. rewrite filter_In, negb_true_iff, memb_false. tauto.
  - intros c Hc. destruct (memb c idx) eqn:Em.
    + right. now apply memb_In.
    + left. apply filter_In. split; [exact Hc|]. now rewrite Em.
Qed.

(* the default index: exactly the stored non-range entries, in order *)
Theorem get_index_default : forall stored n,
  In n (get_index stored INone) <-> In (n, false) stored.
Proof.
  intros stored n. unfold get_index. rewrite in_map_iff. split.
  - intros ([n' r] & E & H). cbn in E. subst. apply filter_In in H. destruct H as [H Hr]. cbn in Hr.
    destruct r; [discriminate|exact H].
  - intros H. exists (n, false). split; [reflexivity|]. apply filter_In. split; [exact H|reflexivity].
Qed.
