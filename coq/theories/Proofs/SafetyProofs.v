(* C12: memory-safety corollaries of the C11 correctness theorems (inside the limits no impl model
   returns OOB/UB, and the decoders write at most the capacity), and computed witnesses of what
   happens outside the limits. *)
From Coq Require Import NArith ZArith Arith List Lia Bool.
From Pq Require Import Base.Bytes Base.Bits Base.Err Base.ListX
  Proofs.BytesProofs Proofs.CodecProofs Proofs.CBitpackProofs Proofs.CRleProofs Proofs.CVarintProofs Proofs.CDeltaProofs
  Codec.Varint Codec.Hybrid Impl.CVarint Impl.CBitpack Impl.CRle Impl.CDelta Impl.PyPack.
Import ListNotations.
Open Scope N_scope.

Lemma written_le_cap isz n cap : isz <> 0 -> isz * N.min n (cap / isz) <= cap.
Proof.
  intros H. eapply N.le_trans; [apply N.mul_le_mono_l, N.le_min_r|]. now apply N.mul_div_le.
Qed.

Theorem read_bitpacked_safe w g isz cap input :
  0 < w <= 24 -> isz = 1 \/ isz = 4 -> ~ (w = 1 /\ isz = 1) ->
  0 < g < 2 ^ 28 -> bytes_ok input -> g * w <= N.of_nat (length input) ->
  exists d, c_read_bitpacked input (Z.of_N (2 * g + 1)) w cap isz = Ok d /\
            d_written d <= cap /\ d_used d <= N.of_nat (length input).
Proof.
  intros Hw Hisz Hn Hg Hok Hlen. eexists. split; [apply read_bitpacked_correct; assumption|].
  cbn [d_written d_used]. split; [|exact Hlen]. apply written_le_cap. destruct Hisz; lia.
Qed.

Theorem read_rle_safe w count isz cap input :
  w <= 32 -> isz = 1 \/ isz = 4 -> count < 2 ^ 31 ->
  bytes_ok input -> vbytes w <= N.of_nat (length input) ->
  exists d, c_read_rle input (Z.of_N (2 * count)) w cap isz = Ok d /\
            d_written d <= cap /\ d_used d <= N.of_nat (length input).
Proof.
  intros Hw Hisz Hc Hok Hlen. eexists. split; [apply read_rle_correct; assumption|].
  cbn [d_written d_used]. split; [|exact Hlen]. apply written_le_cap. destruct Hisz; lia.
Qed.

Theorem varint_safe n rest : n < 2 ^ 64 -> bytes_ok rest ->
  exists k, c_varint (uleb_enc n ++ rest) = Ok (n, k) /\ k <= N.of_nat (length (uleb_enc n ++ rest)).
Proof.
  intros Hn Hr. eexists. split; [apply varint_reads_spec_encoding; assumption|].
  rewrite app_length. lia.
Qed.

Theorem delta_read_bitpacked_safe w g input :
  0 < w <= 28 -> g < 2 ^ 28 -> bytes_ok input -> g * w <= N.of_nat (length input) ->
  exists vals rest k, c_delta_read_bitpacked input w (8 * g) = Ok (vals, rest, k) /\
                      k <= N.of_nat (length input) /\ length vals = N.to_nat (8 * g).
Proof.
  intros Hw Hg Hok Hlen. do 3 eexists. split; [apply delta_read_bitpacked_correct; assumption|].
  split; [exact Hlen|apply bp_dec_length].
Qed.

(* ---- outside the limits: computed witnesses ---- *)
(* an empty bit-packed run at the very end of a buffer: one byte is read behind the input *)
Lemma read_bitpacked_empty_input_oob : c_read_bitpacked [] 1 3 32 4 = OOB.
Proof. reflexivity. Qed.

(* a delta miniblock of width 57 whose 228 bytes are all present: undefined shift (on the machine: the
   reader runs on past the end of the input) *)
Lemma delta_w57_unsafe : exists input, bytes_ok input /\ N.of_nat (length input) = 32 * 57 / 8 /\
  c_delta_read_bitpacked input 57 32 = UB.
Proof.
  exists (repeat 255 228). split; [|split].
  - apply Forall_forall. intros x Hx. apply repeat_spec in Hx. subst. reflexivity.
  - vm_compute. reflexivity.
  - vm_compute. reflexivity.
Qed.

Lemma delta_w29_unsafe : exists input, bytes_ok input /\ N.of_nat (length input) = 32 * 29 / 8 /\
  c_delta_read_bitpacked input 29 32 = UB.
Proof.
  exists (repeat 255 116). split; [|split].
  - apply Forall_forall. intros x Hx. apply repeat_spec in Hx. subst. reflexivity.
  - vm_compute. reflexivity.
  - vm_compute. reflexivity.
Qed.

(* header: block 128, 4 miniblocks, count 3, first value 1; block: min delta 0, widths 1 0 0 0, 4 bytes of deltas.
   With an EMPTY output buffer the cursor arithmetic `o.loc -= 4` wraps and the next store lands outside. *)
Definition delta_small : bytes := [128; 1; 4; 3; 2;  0; 1; 0; 0; 0;  3; 0; 0; 0].
Lemma delta_empty_output_oob : c_delta_binary_unpack delta_small [] 0 false = OOB.
Proof. vm_compute. reflexivity. Qed.
Lemma delta_small_fine :
  c_delta_binary_unpack delta_small [0; 0; 0] 12 false = Ok ([1; 2; 3], 14, 12).
Proof. vm_compute. reflexivity. Qed.

(* a one-value stream (no block at all, by the specification): the loop reads a block header behind it *)
Lemma delta_count1_overread : c_delta_binary_unpack [128; 1; 4; 1; 2] [0] 4 false = OOB.
Proof. vm_compute. reflexivity. Qed.

(* unpack_byte_array on a buffer cut inside the last item *)
Lemma unpack_byte_array_truncated_oob : c_unpack_byte_array [3; 0; 0; 0; 97; 98] 1 = UOOB.
Proof. vm_compute. reflexivity. Qed.

(* a well-formed DELTA_BINARY_PACKED page as other writers produce it: the width byte of the unneeded trailing
   miniblock is stale (5, not 0).  Block of 16 values, 2 miniblocks of 8; 9 values 1..9 (first value 1, min delta 1, the
   8 deltas fill miniblock 0 with width 0); miniblock 1 carries no value and has no body.  The spec decoder ignores the
   stale byte; the model of the compiled decoder reaches that miniblock with exactly one value left (`count > 1` is
   false), does not unpack it and ends with the input cursor AT the end of the page. *)
From Pq Require Codec.Delta.
Definition delta_stale_page : bytes := [16; 2; 9; 2; 2; 0; 5].
Lemma delta_stale_width_spec : Pq.Codec.Delta.delta_dec 32 delta_stale_page = Some ([1; 2; 3; 4; 5; 6; 7; 8; 9]%Z, []).
Proof. vm_compute. reflexivity. Qed.
Lemma delta_stale_width_ok :
  c_delta_binary_unpack delta_stale_page (repN 2863311530 9 []) 36 false = Ok ([1; 2; 3; 4; 5; 6; 7; 8; 9], 7, 36).
Proof. vm_compute. reflexivity. Qed.

(* ---- the class behind that example, for EVERY stale width and every miniblock reader ----------------------------
   delta_binary_unpack arriving at a miniblock with exactly one value left (count = 1: all deltas are consumed) and a
   non-zero width byte - a stale byte of an unneeded miniblock; 'readers must accept arbitrary values' there - stores the
   last value and returns WITHOUT consuming any input: the miniblock reader is not entered, whatever the width byte says
   (1..255) and whatever reader is plugged in.  (Dropping the `count > 1` guard of the compiled code makes this false:
   the reader would pull values_per_miniblock * width / 8 bytes from behind the page.) *)
Lemma w32_small z : (0 <= z < 2 ^ 32)%Z -> w32 z = Z.to_N z.
Proof. intros H. unfold w32. rewrite Z.mod_small by exact H. reflexivity. Qed.

Lemma stale_miniblock_reads_nothing isz vpm mpb reader s ws i md w v :
  u_ph s = PMini ws i md -> i < mpb -> get_nth ws i = Some w -> w <> 0 ->
  u_count s = 1%Z -> 0 < vpm -> 0 < isz ->
  o_loc (u_o s) + isz <= o_nbytes (u_o s) -> o_nbytes (u_o s) < 2 ^ 32 ->
  o_loc (u_o s) mod isz = 0 ->
  get_nth (o_items (u_o s)) (o_loc (u_o s) / isz) = Some v ->
  exists s1 s2, u_step isz vpm mpb reader s = Ok s1 /\ u_step isz vpm mpb reader s1 = Ok s2 /\
                u_ph s2 = PDone /\ u_inp s2 = u_inp s /\ u_used s2 = u_used s.
Proof.
  intros Hph Hi Hw Hw0 Hc Hvpm Hisz Hroom Hnb Hal Hget.
  set (o := u_o s) in *.
  assert (Hr : o_room o isz = true).
  { unfold o_room. rewrite w32_small by lia. apply negb_true_iff, N.ltb_ge. lia. }
  assert (Hcond : (o_loc o + isz <=? o_nbytes o) && (o_loc o mod isz =? 0) = true).
  { apply andb_true_intro. split; [apply N.leb_le; exact Hroom | apply N.eqb_eq; exact Hal]. }
  eexists. eexists. split; [|split].
  - unfold u_step. rewrite Hph.
    replace (mpb <=? i) with false by (symmetry; apply N.leb_gt; exact Hi).
    rewrite Hw. replace (w =? 0) with false by (symmetry; apply N.eqb_neq; exact Hw0).
    rewrite Hc. cbn [Z.ltb Z.compare Pos.compare Pos.compare_cont]. reflexivity.
  - unfold u_step, with_ph. cbn [u_ph u_o u_inp u_used u_value u_count].
    replace (vpm <=? 0) with false by (symmetry; apply N.leb_gt; exact Hvpm).
    fold o. unfold o_read. rewrite Hr, Hcond, Hget.
    cbn [o_seek o_loc o_items o_nbytes].
    rewrite (w32_small (Z.of_N (o_loc o + isz))) by lia.
    rewrite N2Z.id.
    replace (w32 (Z.of_N (o_loc o + isz) - Z.of_N isz)) with (o_loc o)
      by (rewrite w32_small by lia; lia).
    unfold o_write, o_room. cbn [o_seek o_loc o_items o_nbytes].
    rewrite (w32_small (Z.of_N (o_nbytes o) - Z.of_N (o_loc o))) by lia.
    replace (Z.to_N (Z.of_N (o_nbytes o) - Z.of_N (o_loc o)) <? isz) with false
      by (symmetry; apply N.ltb_ge; lia).
    cbn [negb]. rewrite Hcond. reflexivity.
  - unfold after_value. cbn [u_ph u_inp u_used u_count]. rewrite Hc. cbn. repeat split; reflexivity.
Qed.

(* ---- the OUTPUT side of delta_binary_unpack's scratch use: checked writes never leave the buffer ---------------------- *)
Lemma set_nth_length l i v : length (set_nth l i v) = length l.
Proof. revert i. induction l as [|x l IH]; intros i; cbn [set_nth]; [reflexivity|]. destruct (i =? 0); cbn [length]; [reflexivity|]. now rewrite IH. Qed.

(* a checked NumpyIO write (write_int / write_long) with an aligned cursor inside a buffer of whole items: never outside,
   the cursor stays aligned and inside, the buffer keeps its size - it either stores the item or drops it *)
Lemma o_write_inside isz o v :
  0 < isz -> o_loc o mod isz = 0 -> o_nbytes o mod isz = 0 -> o_loc o <= o_nbytes o -> o_nbytes o < 2 ^ 32 ->
  exists o', o_write isz o v = Ok o' /\ o_nbytes o' = o_nbytes o /\ o_loc o' mod isz = 0 /\ o_loc o' <= o_nbytes o' /\
             length (o_items o') = length (o_items o).
Proof.
  intros Hisz Hal Hnb Hle Hlt. unfold o_write, o_room.
  rewrite w32_small by lia.
  destruct (Z.to_N (Z.of_N (o_nbytes o) - Z.of_N (o_loc o)) <? isz) eqn:E; cbn [negb].
  - exists o. repeat split; try assumption; reflexivity.
  - apply N.ltb_ge in E.
    assert (H1 : o_loc o + isz <= o_nbytes o) by lia.
    replace (o_loc o + isz <=? o_nbytes o) with true by (symmetry; apply N.leb_le; exact H1).
    replace (o_loc o mod isz =? 0) with true by (symmetry; apply N.eqb_eq; exact Hal).
    cbn [andb]. eexists. split; [reflexivity|]. cbn [o_nbytes o_loc o_items].
    rewrite w32_small by lia. rewrite N2Z.id.
    repeat split; try assumption.
    + rewrite N.add_mod by lia. rewrite Hal, N.mod_same by lia. cbn [N.add]. apply N.mod_0_l. lia.
    + apply set_nth_length.
Qed.

Lemma o_write_all_inside isz vs : forall o,
  0 < isz -> o_loc o mod isz = 0 -> o_nbytes o mod isz = 0 -> o_loc o <= o_nbytes o -> o_nbytes o < 2 ^ 32 ->
  exists o', o_write_all isz o vs = Ok o' /\ o_nbytes o' = o_nbytes o /\ o_loc o' mod isz = 0 /\ o_loc o' <= o_nbytes o' /\
             length (o_items o') = length (o_items o).
Proof.
  induction vs as [|v vs IH]; intros o Hisz Hal Hnb Hle Hlt; cbn [o_write_all].
  - exists o. repeat split; try assumption; reflexivity.
  - destruct (o_write_inside isz o v Hisz Hal Hnb Hle Hlt) as [o1 [E [N1 [A1 [L1 I1]]]]]. rewrite E.
    destruct (IH o1 Hisz A1 ltac:(rewrite N1; exact Hnb) L1 ltac:(rewrite N1; exact Hlt)) as [o2 [E2 [N2 [A2 [L2 I2]]]]].
    exists o2. repeat split; try assumption; congruence.
Qed.
