(* Round trip of the SPEC DELTA_BINARY_PACKED codec: for every block shape (block size = miniblocks x
   values per miniblock, values per miniblock a multiple of 8), every width the deltas need, every length:
   delta_dec (delta_enc vs ++ rest) = Some (vs, rest) for values in the range of the type. *)
From Coq Require Import NArith ZArith Arith List Lia Bool.
From Pq Require Import Base.Bytes Base.Bits Base.ListX Proofs.BytesProofs Proofs.ListXProofs Proofs.CodecProofs
  Proofs.HybridProofs Codec.Varint Codec.Zigzag Codec.Bitpack Codec.Delta.
Import ListNotations.

(* ---------------- two's complement arithmetic ---------------- *)
Section Wrap.
  Open Scope Z_scope.
  Variable bits : N.
  Hypothesis Hbits : (1 <= bits)%N.
  Let M := 2 ^ Z.of_N bits.
  Let H := 2 ^ (Z.of_N bits - 1).

  Lemma MH : M = 2 * H /\ 0 < H.
  Proof.
    unfold M, H. split.
    - replace (Z.of_N bits) with (1 + (Z.of_N bits - 1)) at 1 by lia.
      rewrite Z.pow_add_r by lia. reflexivity.
    - apply Z.pow_pos_nonneg; lia.
  Qed.

  Definition in_range (z : Z) : Prop := - H <= z < H.

  Lemma of_signed_spec z : Z.of_N (of_signed bits z) = z mod M.
  Proof. unfold of_signed. fold M. destruct MH. rewrite Z2N.id; [reflexivity|]. apply Z.mod_pos_bound. lia. Qed.

  Lemma of_signed_lt z : (of_signed bits z < 2 ^ bits)%N.
  Proof.
    destruct MH. apply N2Z.inj_lt. rewrite of_signed_spec, N2Z.inj_pow. fold M.
    change (Z.of_N 2) with 2. apply Z.mod_pos_bound. lia.
  Qed.

  Lemma wrap_spec z : in_range (wrap bits z) /\ (wrap bits z) mod M = z mod M.
  Proof.
    destruct MH as [E Hp]. unfold wrap, to_signed, in_range. rewrite of_signed_spec. fold M H.
    pose proof (Z.mod_pos_bound z M ltac:(lia)) as B.
    destruct (Z.ltb_spec (z mod M) H) as [L|L].
    - split; [lia|]. apply Z.mod_mod. lia.
    - split; [lia|]. rewrite Zminus_mod, Z.mod_same, Z.sub_0_r, !Z.mod_mod by lia. reflexivity.
  Qed.

  Lemma range_unique a b : in_range a -> in_range b -> a mod M = b mod M -> a = b.
  Proof.
    destruct MH as [E Hp]. unfold in_range. intros Ha Hb Hm.
    assert (Hd : (a - b) mod M = 0) by (rewrite Zminus_mod, Hm, Z.sub_diag; apply Z.mod_0_l; lia).
    apply Z.mod_divide in Hd; [|lia]. destruct Hd as [k Hk].
    assert (k = 0) by nia. subst k. lia.
  Qed.

  Lemma wrap_id z : in_range z -> wrap bits z = z.
  Proof. intros Hz. destruct (wrap_spec z) as [R E]. now apply range_unique. Qed.

  (* the decoder's step undoes the encoder's step *)
  Lemma step_inverse prev md v : in_range v ->
    wrap bits (prev + md + Z.of_N (of_signed bits (wrap bits (v - prev) - md))) = v.
  Proof.
    intros Hv. destruct MH as [E Hp].
    destruct (wrap_spec (prev + md + Z.of_N (of_signed bits (wrap bits (v - prev) - md)))) as [R Em].
    apply range_unique; [exact R|exact Hv|]. rewrite Em, of_signed_spec.
    destruct (wrap_spec (v - prev)) as [_ Ew].
    rewrite Zplus_mod, Z.mod_mod by lia. rewrite <- Zplus_mod.
    replace (prev + md + (wrap bits (v - prev) - md)) with (prev + wrap bits (v - prev)) by lia.
    rewrite Zplus_mod, Ew, <- Zplus_mod. f_equal. lia.
  Qed.
End Wrap.

(* ---------------- list structure ---------------- *)
Open Scope N_scope.

Lemma zpad_length n l : length (zpad n l) = n.
Proof. revert l; induction n as [|n IH]; intros l; [reflexivity|]. destruct l; cbn [zpad length]; now rewrite IH. Qed.

Lemma zpad_firstn : forall n l, (length l <= n)%nat -> firstn (length l) (zpad n l) = l.
Proof.
  induction n as [|n IH]; intros l H.
  - destruct l; [reflexivity|cbn [length] in H; lia].
  - destruct l as [|x l]; [reflexivity|]. cbn [zpad length firstn]. f_equal. apply IH. cbn [length] in H. lia.
Qed.

Lemma zpad_ok w : forall n l, Forall (fun v => v < 2 ^ w) l -> Forall (fun v => v < 2 ^ w) (zpad n l).
Proof.
  induction n as [|n IH]; intros l H; [constructor|].
  destruct l as [|x l]; cbn [zpad]; constructor.
  - apply pow2_pos.
  - apply IH. constructor.
  - exact (Forall_inv H).
  - apply IH. exact (Forall_inv_tail H).
Qed.

Lemma zpad_app_zeros : forall n l, (length l <= n)%nat -> zpad n l = l ++ zpad (n - length l) [].
Proof.
  induction n as [|n IH]; intros l H.
  - destruct l; [reflexivity|cbn [length] in H; lia].
  - destruct l as [|x l]; [reflexivity|]. cbn [zpad length app Nat.sub]. f_equal. apply IH. cbn [length] in H. lia.
Qed.

Lemma lmax_acc l : forall a x, In x l \/ x <= a -> x <= fold_left N.max l a.
Proof.
  induction l as [|y l IH]; intros a x [Hin|Hle]; cbn [fold_left].
  - destruct Hin.
  - exact Hle.
  - destruct Hin as [E|Hin]; [subst; apply IH; right; lia|apply IH; left; exact Hin].
  - apply IH. right. lia.
Qed.

Lemma lmax_width m : Forall (fun v => v < 2 ^ N.size (lmax m)) m.
Proof.
  apply Forall_forall. intros x Hx. eapply N.le_lt_trans; [|apply N.size_gt].
  unfold lmax. apply lmax_acc. now left.
Qed.

Lemma deltas_length bits : forall vs prev, length (deltas bits prev vs) = length vs.
Proof. induction vs as [|v r IH]; intros prev; cbn [deltas length]; auto. Qed.

Lemma deltas_firstn bits : forall n vs prev, firstn n (deltas bits prev vs) = deltas bits prev (firstn n vs).
Proof.
  induction n as [|n IH]; intros vs prev; [reflexivity|].
  destruct vs as [|v r]; [reflexivity|]. cbn [deltas firstn]. f_equal. apply IH.
Qed.

Lemma last_cons_default {A} : forall (l : list A) v d, last (v :: l) d = last l v.
Proof.
  induction l as [|x l IH]; intros v d; [reflexivity|].
  change (last (v :: x :: l) d) with (last (x :: l) d). rewrite IH. symmetry. apply IH.
Qed.

Lemma deltas_skipn bits : forall n vs prev,
  skipn n (deltas bits prev vs) = deltas bits (last (firstn n vs) prev) (skipn n vs).
Proof.
  induction n as [|n IH]; intros vs prev; [reflexivity|].
  destruct vs as [|v r]; [reflexivity|]. cbn [deltas skipn firstn]. rewrite IH.
  f_equal. symmetry. apply last_cons_default.
Qed.

Lemma chunks_nil {A} fuel n : @chunks A fuel n [] = [].
Proof. destruct fuel; reflexivity. Qed.

Lemma chunks_cons {A} fuel n (l : list A) : l <> [] ->
  chunks (S fuel) n l = firstn n l :: chunks fuel n (skipn n l).
Proof. intros H. destruct l; [contradiction|reflexivity]. Qed.

Lemma last_app_default {A} : forall (a b : list A) d, last (a ++ b) d = last b (last a d).
Proof.
  induction a as [|x a IH]; intros b d; [reflexivity|].
  change ((x :: a) ++ b) with (x :: (a ++ b)). rewrite !last_cons_default. apply IH.
Qed.

Section Blocks.
  Variable bits : N.
  Hypothesis Hbits : 1 <= bits.
  Variables (v q : nat).              (* values per miniblock = 8 q *)
  Hypothesis Hv : v = (8 * q)%nat.
  Hypothesis Hq : (1 <= q)%nat.
  Variable md : Z.
  Let f := fun d : Z => of_signed bits (d - md).

  Lemma accum_ok : forall vs prev acc, Forall (in_range bits) vs ->
    delta_accum bits md (map f (deltas bits prev vs)) (prev, acc) = (last vs prev, rev vs ++ acc).
  Proof.
    induction vs as [|x r IH]; intros prev acc H; [reflexivity|].
    pose proof (Forall_inv H) as Hx. pose proof (Forall_inv_tail H) as Hr.
    cbn [deltas map].
    assert (Estep : delta_accum bits md (f (wrap bits (x - prev)) :: map f (deltas bits x r)) (prev, acc)
                    = delta_accum bits md (map f (deltas bits x r)) (x, x :: acc)).
    { unfold delta_accum. cbn [fold_left fst snd]. unfold f. rewrite step_inverse by assumption. reflexivity. }
    rewrite Estep.
    rewrite IH by exact Hr. rewrite last_cons_default. cbn [rev]. now rewrite <- app_assoc.
  Qed.

  Ltac Zify.zify_post_hook ::= Z.to_euclidean_division_equations.
  Lemma body_bytes w : N.of_nat v * w / 8 = N.of_nat q * w /\ bp_nbytes w (N.of_nat v) = N.of_nat q * w.
  Proof. unfold bp_nbytes. rewrite Hv. split; lia. Qed.
  Ltac Zify.zify_post_hook ::= idtac.

  Lemma mini_body_ok (m : list N) rest : (1 <= length m <= v)%nat ->
    let w := N.size (lmax m) in
    N.of_nat (length (bp_enc w (zpad v m))) = N.of_nat v * w / 8 /\
    bp_dec w (N.of_nat (length m)) (bp_enc w (zpad v m) ++ rest) = m.
  Proof.
    intros Hm w. destruct (body_bytes w) as [B1 B2]. split.
    - rewrite bp_enc_length, zpad_length. lia.
    - rewrite bp_dec_prefix.
      + rewrite Nat2N.id. apply zpad_firstn. lia.
      + apply zpad_ok. apply lmax_width.
      + rewrite zpad_length. lia.
  Qed.

  Lemma minis_ok : forall fuel vs prev acc rem ws_rest rest,
    (length vs <= fuel)%nat -> Forall (in_range bits) vs -> N.of_nat (length vs) <= rem ->
    ((length vs mod v <> 0)%nat -> rem = N.of_nat (length vs)) ->
    let minis := map (enc_mini (N.of_nat v)) (chunks fuel v (map f (deltas bits prev vs))) in
    delta_minis bits (N.of_nat v) md (map fst minis ++ ws_rest) rem (concat (map snd minis) ++ rest) (prev, acc)
    = delta_minis bits (N.of_nat v) md ws_rest (rem - N.of_nat (length vs)) rest (last vs prev, rev vs ++ acc).
  Proof.
    induction fuel as [|fuel IH]; intros vs prev acc rem ws_rest rest Hf Hr Hrem Hpart minis; subst minis.
    - destruct vs; [|cbn [length] in Hf; lia]. cbn. now rewrite N.sub_0_r.
    - destruct vs as [|x0 vs0].
      { cbn. now rewrite N.sub_0_r. }
      remember (x0 :: vs0) as vs eqn:Evs. assert (Hne : vs <> []) by (rewrite Evs; discriminate).
      assert (Hlen1 : (1 <= length vs)%nat) by (rewrite Evs; cbn; lia).
      set (vs1 := firstn v vs). set (vs2 := skipn v vs).
      assert (Hsplit : vs = vs1 ++ vs2) by (symmetry; apply firstn_skipn).
      assert (Hl1 : length vs1 = Nat.min v (length vs)) by apply firstn_length.
      assert (Hl2 : length vs2 = (length vs - v)%nat) by apply skipn_length.
      assert (Hv1 : (1 <= v)%nat) by lia.
      rewrite chunks_cons.
      2:{ intros E. apply (f_equal (@length N)) in E. rewrite map_length, deltas_length in E. cbn [length] in E. lia. }
      rewrite firstn_map, skipn_map. cbn [map concat].
      rewrite deltas_firstn, deltas_skipn. fold vs1 vs2.
      set (m1 := map f (deltas bits prev vs1)).
      assert (Hm1 : length m1 = length vs1) by (unfold m1; now rewrite map_length, deltas_length).
      set (w1 := N.size (lmax m1)).
      assert (Ef : fst (enc_mini (N.of_nat v) m1) = w1) by reflexivity.
      assert (Es : snd (enc_mini (N.of_nat v) m1) = bp_enc w1 (zpad v m1)) by (unfold enc_mini; cbn [snd]; now rewrite Nat2N.id).
      rewrite Ef, Es.
      destruct (mini_body_ok m1 [] ltac:(lia)) as [Hb1 Hb2]. fold w1 in Hb1, Hb2. rewrite app_nil_r in Hb2.
      cbn [app delta_minis]. rewrite <- app_assoc.
      destruct (N.eqb_spec rem 0) as [E0|_]; [lia|].
      rewrite lenN_ok, app_length, Nat2N.inj_add, Hb1.
      destruct (N.ltb_spec (N.of_nat v * w1 / 8 + N.of_nat (length (concat (map snd (map (enc_mini (N.of_nat v))
                   (chunks fuel v (map f (deltas bits (last vs1 prev) vs2))))) ++ rest))) (N.of_nat v * w1 / 8)) as [Hbad|_]; [lia|].
      rewrite <- Hb1, takeN_app_exact, dropN_app_exact.
      assert (Hk : N.min (N.of_nat v) rem = N.of_nat (length m1)).
      { rewrite Hm1, Hl1. destruct (Nat.le_gt_cases v (length vs)) as [Hge|Hlt].
        - rewrite Nat.min_l by lia. lia.
        - rewrite Nat.min_r by lia. rewrite Hpart; [lia|]. rewrite Nat.mod_small by lia. lia. }
      rewrite Hk, Hb2. unfold m1. rewrite accum_ok.
      2:{ rewrite Hsplit in Hr. apply Forall_app in Hr. tauto. }
      rewrite IH.
      + fold m1. rewrite Hm1.
        rewrite <- last_app_default, app_assoc, <- rev_app_distr, <- Hsplit.
        replace (rem - N.of_nat (length vs1) - N.of_nat (length vs2)) with (rem - N.of_nat (length vs)); [reflexivity|].
        rewrite Hsplit at 1. rewrite app_length. lia.
      + lia.
      + rewrite Hsplit in Hr. apply Forall_app in Hr. tauto.
      + fold m1. rewrite Hm1. lia.
      + intros Hmod. fold m1. rewrite Hm1, Hl1, Hl2.
        destruct (Nat.le_gt_cases v (length vs)) as [Hge|Hlt].
        * rewrite Nat.min_l by lia. rewrite Hpart; [lia|].
          intros E. apply Hmod. rewrite Hl2.
          replace (length vs) with ((length vs - v) + 1 * v)%nat in E by lia. rewrite Nat.mod_add in E by lia. exact E.
        * exfalso. apply Hmod. rewrite Hl2. replace (length vs - v)%nat with 0%nat by lia. apply Nat.mod_0_l. lia.
  Qed.
End Blocks.

Lemma chunks_count {A} n : (1 <= n)%nat -> forall k fuel (l : list A),
  (length l <= fuel)%nat -> (length l <= n * k)%nat -> (length (chunks fuel n l) <= k)%nat.
Proof.
  intros Hn. induction k as [|k IH]; intros fuel l Hf Hk.
  - destruct l; [rewrite chunks_nil; cbn; lia|cbn [length] in Hk; lia].
  - destruct l as [|x l']; [rewrite chunks_nil; cbn; lia|].
    destruct fuel as [|fuel]; [cbn [length] in Hf; lia|].
    rewrite chunks_cons by discriminate. cbn [length]. apply le_n_S. apply IH.
    + rewrite skipn_length. cbn [length] in *. lia.
    + rewrite skipn_length. cbn [length] in *. lia.
Qed.

Lemma chunks_count_full {A} n : (1 <= n)%nat -> forall k fuel (l : list A),
  (length l <= fuel)%nat -> length l = (n * k)%nat -> length (chunks fuel n l) = k.
Proof.
  intros Hn. induction k as [|k IH]; intros fuel l Hf Hk.
  - destruct l; [now rewrite chunks_nil|cbn [length] in Hk; lia].
  - destruct l as [|x l']; [cbn [length] in Hk; lia|].
    destruct fuel as [|fuel]; [cbn [length] in Hf; lia|].
    rewrite chunks_cons by discriminate. cbn [length]. f_equal. apply IH.
    + rewrite skipn_length. cbn [length] in *. lia.
    + rewrite skipn_length. cbn [length] in *. lia.
Qed.

Section Stream.
  Variable bits : N.
  Hypothesis Hbits : 1 <= bits.
  Variables (v q mp : nat).            (* values per miniblock = 8 q, miniblocks per block = mp *)
  Hypothesis Hv : v = (8 * q)%nat.
  Hypothesis Hq : (1 <= q)%nat.
  Hypothesis Hmp : (1 <= mp)%nat.
  Let bs := (v * mp)%nat.

  Lemma minis_tail md rem' rest st n :
    (rem' <> 0 -> n = 0%nat) ->
    delta_minis bits (N.of_nat v) md (zpad n []) rem' rest st = Some (rem', rest, st).
  Proof.
    intros H. destruct n as [|n]; [reflexivity|].
    cbn [zpad delta_minis]. destruct (N.eqb_spec rem' 0) as [E|E]; [reflexivity|]. specialize (H E). discriminate.
  Qed.

  (* one block: vsb = the values of the block (1..bs of them) *)
  Lemma block_ok vsb prev acc rem rest :
    (1 <= length vsb <= bs)%nat -> Forall (in_range bits) vsb ->
    N.of_nat (length vsb) <= rem -> ((length vsb < bs)%nat -> rem = N.of_nat (length vsb)) ->
    exists md body,
      enc_block bits (N.of_nat v) (N.of_nat mp) (deltas bits prev vsb) = uleb_enc (zz_enc md) ++ body /\
      N.of_nat mp <= lenN (body ++ rest) /\
      delta_minis bits (N.of_nat v) md (takeN (N.of_nat mp) (body ++ rest)) rem (dropN (N.of_nat mp) (body ++ rest)) (prev, acc)
      = Some (rem - N.of_nat (length vsb), rest, (last vsb prev, rev vsb ++ acc)).
  Proof.
    intros Hl Hr Hrem Hlast.
    destruct vsb as [|x0 vs0]; [cbn [length] in Hl; lia|].
    remember (x0 :: vs0) as vsb eqn:Evsb.
    assert (Eblk : exists d0 dr, deltas bits prev vsb = d0 :: dr).
    { rewrite Evsb. cbn [deltas]. eauto. }
    destruct Eblk as (d0 & dr & Eblk).
    unfold enc_block. rewrite Eblk. rewrite <- Eblk.
    set (md := zmin (deltas bits prev vsb) d0).
    set (adj := map (fun d => of_signed bits (d - md)) (deltas bits prev vsb)).
    rewrite !Nat2N.id.
    set (minis := map (enc_mini (N.of_nat v)) (chunks (length adj) v adj)).
    exists md, (zpad mp (map fst minis) ++ concat (map snd minis)). split; [reflexivity|].
    assert (Hadj : length adj = length vsb) by (unfold adj; now rewrite map_length, deltas_length).
    assert (Hcount : (length (map fst minis) <= mp)%nat).
    { unfold minis. rewrite !map_length. apply chunks_count; [lia| |]; rewrite Hadj; unfold bs in Hl; lia. }
    assert (Hzl : length (zpad mp (map fst minis)) = mp) by apply zpad_length.
    split.
    { rewrite lenN_ok, <- app_assoc, app_length, Hzl. lia. }
    rewrite <- app_assoc.
    replace (N.of_nat mp) with (N.of_nat (length (zpad mp (map fst minis)))) by (rewrite Hzl; reflexivity).
    rewrite takeN_app_exact, dropN_app_exact.
    rewrite zpad_app_zeros by exact Hcount.
    unfold minis. rewrite Hadj. unfold adj.
    rewrite (minis_ok bits Hbits v q Hv Hq md (length vsb) vsb prev acc rem); try assumption; try lia.
    - apply minis_tail. intros Hne.
      assert (Hfull : length vsb = bs).
      { destruct (Nat.eq_dec (length vsb) bs) as [E|E]; [exact E|]. rewrite Hlast in Hne by lia. lia. }
      rewrite !map_length. rewrite (chunks_count_full v ltac:(lia) mp); [lia| |].
      + rewrite map_length, deltas_length. lia.
      + rewrite map_length, deltas_length. unfold bs in Hfull. lia.
    - intros Hmod. apply Hlast. destruct (Nat.eq_dec (length vsb) bs) as [E|E]; [|lia].
      exfalso. apply Hmod. rewrite E. unfold bs. rewrite Nat.mul_comm. apply Nat.mod_mul. lia.
  Qed.

  Lemma blocks_ok : forall fuel vs prev acc clock rest,
    (length vs <= fuel)%nat -> Forall (in_range bits) vs ->
    (length (concat (map (enc_block bits (N.of_nat v) (N.of_nat mp)) (chunks fuel bs (deltas bits prev vs)))) <= length clock)%nat ->
    delta_blocks clock bits (N.of_nat v) (N.of_nat mp) (N.of_nat (length vs))
      (concat (map (enc_block bits (N.of_nat v) (N.of_nat mp)) (chunks fuel bs (deltas bits prev vs))) ++ rest) (prev, acc)
    = Some (rest, (last vs prev, rev vs ++ acc)).
  Proof.
    induction fuel as [|fuel IH]; intros vs prev acc clock rest Hf Hr Hclk.
    - destruct vs; [|cbn [length] in Hf; lia]. destruct clock; reflexivity.
    - destruct vs as [|x0 vs0]; [destruct clock; reflexivity|].
      remember (x0 :: vs0) as vs eqn:Evs.
      assert (Hlen1 : (1 <= length vs)%nat) by (rewrite Evs; cbn; lia).
      assert (Hbs : (1 <= bs)%nat) by (unfold bs; nia).
      set (vsb := firstn bs vs). set (vs' := skipn bs vs).
      assert (Hsplit : vs = vsb ++ vs') by (symmetry; apply firstn_skipn).
      assert (Hl1 : length vsb = Nat.min bs (length vs)) by apply firstn_length.
      assert (Hl2 : length vs' = (length vs - bs)%nat) by apply skipn_length.
      rewrite chunks_cons in *.
      2,3:(intros E; apply (f_equal (@length Z)) in E; rewrite deltas_length in E; cbn [length] in E; lia).
      rewrite deltas_firstn, deltas_skipn in *. fold vsb vs' in Hclk |- *.
      cbn [map concat] in *.
      destruct (block_ok vsb prev acc (N.of_nat (length vs))
                  (concat (map (enc_block bits (N.of_nat v) (N.of_nat mp)) (chunks fuel bs (deltas bits (last vsb prev) vs'))) ++ rest))
        as (md & body & Henc & Hmp' & Hminis).
      { fold bs. lia. }
      { rewrite Hsplit in Hr. apply Forall_app in Hr. tauto. }
      { lia. }
      { fold bs. intros Hlt. rewrite Hl1 in *. lia. }
      rewrite Henc in *. rewrite <- !app_assoc.
      rewrite !app_length in Hclk. pose proof (uleb_len_pos (zz_enc md)) as Hup.
      destruct clock as [|c0 clock]; [cbn [length] in Hclk; lia|]. cbn [length] in Hclk.
      cbn [delta_blocks]. destruct (N.eqb_spec (N.of_nat (length vs)) 0) as [E|_]; [lia|].
      rewrite uleb_roundtrip.
      destruct (N.ltb_spec (lenN (body ++ concat (map (enc_block bits (N.of_nat v) (N.of_nat mp))
                   (chunks fuel bs (deltas bits (last vsb prev) vs'))) ++ rest)) (N.of_nat mp)) as [Hbad|_]; [lia|].
      rewrite zz_dec_enc, Hminis.
      replace (N.of_nat (length vs) - N.of_nat (length vsb)) with (N.of_nat (length vs')) by lia.
      rewrite IH.
      + rewrite <- last_app_default, app_assoc, <- rev_app_distr, <- Hsplit. reflexivity.
      + lia.
      + rewrite Hsplit in Hr. apply Forall_app in Hr. tauto.
      + lia.
  Qed.
End Stream.

(* MAIN THEOREM.  Any bit width of the type (bits >= 1), any block shape with values-per-miniblock a
   multiple of 8, any list of in-range values, anything following the stream. *)
Theorem delta_roundtrip bits q mp vs rest :
  1 <= bits -> (1 <= q)%nat -> (1 <= mp)%nat -> Forall (in_range bits) vs ->
  delta_dec bits (delta_enc bits (N.of_nat (8 * q * mp)) (N.of_nat mp) vs ++ rest) = Some (vs, rest).
Proof.
  intros Hbits Hq Hmp Hr. set (v := (8 * q)%nat).
  assert (Hdiv : N.of_nat (v * mp) / N.of_nat mp = N.of_nat v).
  { rewrite Nat2N.inj_mul. apply N.div_mul. lia. }
  unfold delta_enc, delta_dec. fold v.
  rewrite <- !app_assoc. rewrite !uleb_roundtrip. rewrite !Hdiv, !Nat2N.id.
  destruct (N.eqb_spec (N.of_nat mp) 0) as [E|_]; [lia|].
  destruct (N.eqb_spec (N.of_nat v) 0) as [E|_]; [unfold v in E; lia|]. cbn [orb].
  destruct vs as [|x r].
  - cbn [length N.of_nat N.eqb chunks map concat app]. reflexivity.
  - pose proof (Forall_inv Hr) as Hx. pose proof (Forall_inv_tail Hr) as Hrr.
    destruct (N.eqb_spec (N.of_nat (length (x :: r))) 0) as [E|_]; [cbn [length] in E; lia|].
    rewrite zz_dec_enc, wrap_id by assumption.
    replace (N.of_nat (length (x :: r)) - 1) with (N.of_nat (length r)) by (cbn [length]; lia).
    rewrite deltas_length.
    rewrite (blocks_ok bits Hbits v q mp eq_refl Hq Hmp (length r) r x [x]); try assumption; try lia.
    + rewrite rev_append_rev, app_nil_r, rev_app_distr, rev_involutive. reflexivity.
    + cbn [length]. rewrite app_length. lia.
Qed.

(* the two instances the format uses *)
Corollary delta_roundtrip_int32 q mp vs rest :
  (1 <= q)%nat -> (1 <= mp)%nat -> Forall (fun z => (- 2 ^ 31 <= z < 2 ^ 31)%Z) vs ->
  delta_dec 32 (delta_enc 32 (N.of_nat (8 * q * mp)) (N.of_nat mp) vs ++ rest) = Some (vs, rest).
Proof. intros. apply delta_roundtrip; try assumption; try lia. Qed.

Corollary delta_roundtrip_int64 q mp vs rest :
  (1 <= q)%nat -> (1 <= mp)%nat -> Forall (fun z => (- 2 ^ 63 <= z < 2 ^ 63)%Z) vs ->
  delta_dec 64 (delta_enc 64 (N.of_nat (8 * q * mp)) (N.of_nat mp) vs ++ rest) = Some (vs, rest).
Proof. intros. apply delta_roundtrip; try assumption; try lia. Qed.
