(* write-side convert (Impl/WConvert.v) followed by the read-side convert (Impl/RConvert.v) gives back the cell:
   the same instant / duration / integer, and NaT as a missing cell.  (C01) *)
From Coq Require Import NArith ZArith List Bool Lia.
From Pq Require Import Base.Bytes Base.ListX Format.Phys Format.Page Impl.RConvert Impl.WConvert.
Import ListNotations.
Local Open Scope Z_scope.
Ltac Zify.zify_post_hook ::= Z.to_euclidean_division_equations.

Definition in64 (z : Z) : Prop := - 2 ^ 63 <= z < 2 ^ 63.

Lemma sint_wrap64 z : in64 z -> sint 64 (wrap 64 z) = z.
Proof.
  unfold in64, sint, wrap. intro H. change (2 ^ (64 - 1)) with (2 ^ 63). change (2 ^ 63) with 9223372036854775808 in *.
  change (2 ^ 64) with 18446744073709551616.
  rewrite Z2N.id by (apply Z.mod_pos_bound; lia).
  destruct (Z.ltb_spec (z mod 18446744073709551616) 9223372036854775808) as [L|L]; lia.
Qed.

Lemma wrap64_nat : wrap 64 NATZ = NAT64.
Proof. reflexivity. Qed.

Lemma wrap64_eq_nat z : in64 z -> N.eqb (wrap 64 z) NAT64 = (z =? NATZ).
Proof.
  intro H. destruct (Z.eqb_spec z NATZ) as [->|Ne]; [reflexivity|].
  apply N.eqb_neq. intro E. apply Ne.
  rewrite <- (sint_wrap64 z H), E. reflexivity.
Qed.

(* ---- datetime64[u], times='int64' ---- *)
(* a cell that is not NaT, whose scaled value fits int64 (always for ms/us/ns; |t| < 2^63/1000 for seconds): the reader
   returns the same instant in the stored unit *)
Lemma read_ts_view conv lunit u n :
  ((lunit = Some u /\ conv = None) \/ (lunit = None /\ (conv = Some 9 /\ u = TMs \/ conv = Some 10 /\ u = TUs))) ->
  read_back INT64 conv lunit (VNum n) = Some (if N.eqb n NAT64 then None else Some (LTimestamp u (sint 64 n))).
Proof.
  intros [[-> ->]|[-> [[-> ->]|[-> ->]]]]; reflexivity.
Qed.

Theorem datetime_roundtrip u v : in64 v -> v <> NATZ -> in64 (v * dt_factor u) ->
  read_back INT64 (dt_conv u) (dt_lunit u) (w_datetime u v) = Some (Some (LTimestamp (dt_stored_unit u) (v * dt_factor u))).
Proof.
  intros Hv Hn Hs. unfold w_datetime.
  assert (Nn : (v =? NATZ) = false) by (apply Z.eqb_neq; exact Hn).
  assert (Nn' : (v * dt_factor u =? NATZ) = false).
  { apply Z.eqb_neq. destruct u; cbn [dt_factor]; unfold NATZ, in64 in *; change (2 ^ 63) with 9223372036854775808 in *; lia. }
  assert (E : (if dt_factor u =? 1 then w64 v else if v =? NATZ then w64 NATZ else w64 (v * dt_factor u)) = w64 (v * dt_factor u)).
  { destruct u; cbn [dt_factor Z.eqb Pos.eqb]; rewrite ?Nn, ?Z.mul_1_r; reflexivity. }
  rewrite E. unfold w64.
  rewrite (read_ts_view (dt_conv u) (dt_lunit u) (dt_stored_unit u)).
  - rewrite wrap64_eq_nat by exact Hs. rewrite Nn'. rewrite sint_wrap64 by exact Hs. reflexivity.
  - destruct u; cbn [dt_conv dt_lunit dt_stored_unit]; auto.
Qed.

(* NaT is written as NaT and read as a missing cell, every unit *)
Theorem datetime_nat_roundtrip u :
  read_back INT64 (dt_conv u) (dt_lunit u) (w_datetime u NATZ) = Some None.
Proof. destruct u; reflexivity. Qed.

(* same instant: the stored value in its unit is the written value in its unit *)
Theorem datetime_same_instant u v :
  (v * dt_factor u) * tunit_ns (dt_stored_unit u) = v * ns_per u.
Proof. destruct u; cbn [dt_factor dt_stored_unit tunit_ns ns_per]; lia. Qed.

(* seconds near the end of the int64 range: the multiplication wraps (the instant is lost) - why the guard is there *)
Theorem datetime_seconds_overflow_refuted :
  exists v, in64 v /\ v <> NATZ /\
    read_back INT64 (dt_conv WS) (dt_lunit WS) (w_datetime WS v) <> Some (Some (LTimestamp TMs (v * 1000))).
Proof. exists (2 ^ 62). split; [unfold in64; lia|]. split; [discriminate|]. vm_compute. discriminate. Qed.

(* ---- timedelta64[u] -> TIME_MICROS ---- *)
Definition td_us (u : wunit) (v : Z) : Z :=
  match u with WUs => v | WNs => v / 1000 | WMs => v * 1000 | WS => v * 1000000 end.

Theorem timedelta_roundtrip u v : in64 v -> v <> NATZ -> in64 (td_us u v) -> td_us u v <> NATZ ->
  read_back INT64 (Some 8) None (w_timedelta u v) = Some (Some (LTime TUs (td_us u v))).
Proof.
  intros Hv Hn Hs Hs'. unfold read_back, w_timedelta.
  assert (Nn : (v =? NATZ) = false) by (apply Z.eqb_neq; exact Hn).
  destruct u; cbn [td_us] in *; rewrite ?Nn; cbn [convert_model view64 column_of denote]; unfold w64;
    rewrite wrap64_eq_nat by assumption;
    match goal with |- context [?x =? NATZ] => destruct (Z.eqb_spec x NATZ) as [E|_]; [exfalso; auto|] end;
    rewrite sint_wrap64 by assumption; reflexivity.
Qed.

Theorem timedelta_nat_roundtrip u : read_back INT64 (Some 8) None (w_timedelta u NATZ) = Some None.
Proof. destruct u; reflexivity. Qed.

(* a timedelta64[ns] that is a whole number of microseconds keeps its duration *)
Theorem timedelta_ns_exact v : v mod 1000 = 0 -> td_us WNs v * 1000 = v.
Proof. cbn [td_us]. lia. Qed.

(* ---- integers ---- *)
Definition int_range (signed : bool) (w z : Z) : Prop :=
  if signed then - 2 ^ (w - 1) <= z < 2 ^ (w - 1) else 0 <= z < 2 ^ w.

Lemma int_roundtrip_w signed w z : In w [8; 16; 32; 64] -> int_range signed w z ->
  read_back (int_phys w) (int_conv signed w) None (w_int w z) = Some (Some (LInt z)).
Proof.
  intros Hw Hr. cbn [In] in Hw.
  destruct Hw as [<-|[<-|[<-|[<-|[]]]]]; destruct signed; unfold int_range in Hr;
    cbn [int_phys int_conv w_int Z.leb Z.compare Pos.compare Pos.compare_cont read_back convert_model astype phys_width column_of denote];
    unfold sint, wrap; f_equal; f_equal; f_equal;
    repeat match goal with |- context [2 ^ ?k] => let v := eval vm_compute in (2 ^ k) in change (2 ^ k) with v end;
    repeat match goal with H : context [2 ^ ?k] |- _ => let v := eval vm_compute in (2 ^ k) in change (2 ^ k) with v in H end;
    cbn [Z.sub Z.add Z.opp Z.pos_sub Pos.pred_double Z.succ_double Z.pred_double Z.double] in *;
    repeat (rewrite Z2N.id by (apply Z.mod_pos_bound; lia));
    repeat match goal with |- context [?a <? ?b] => destruct (Z.ltb_spec a b) end; lia.
Qed.
