(* C15: WHICH columns are refused.  core._nested_levels raises NotImplementedError exactly for the columns with more than one
   REPEATED element on their path: nested lists / maps of any depth (LIST<LIST<..>>, MAP<k, LIST<..>>, LIST<MAP<..>>), collections
   below a repeated group - and for no column of the one-level shapes, at whatever depth of (non-repeated) struct nesting. *)
From Coq Require Import NArith List Bool Arith Lia.
From Pq Require Import Format.Nested Impl.CAssemble Impl.CShapes.
Import ListNotations.

Definition is_rep (t : reptype) : bool := match t with REPEATED => true | _ => false end.
Definition n_rep (p : list reptype) : nat := length (filter is_rep p).

Lemma sch_max_rep_acc p : forall a,
  fold_left (fun m t => match t with REPEATED => (m + 1)%N | _ => m end) p a = (a + N.of_nat (n_rep p))%N.
Proof.
  induction p as [|t p IH]; intros a; cbn [fold_left]; [unfold n_rep; cbn; lia|].
  rewrite IH. unfold n_rep. destruct t; cbn [filter is_rep length]; lia.
Qed.

Lemma sch_max_rep_count p : sch_max_rep p = N.of_nat (n_rep p).
Proof. unfold sch_max_rep. rewrite sch_max_rep_acc. lia. Qed.

Theorem refuses_iff p : refuses p = true <-> (2 <= n_rep p)%nat.
Proof.
  unfold refuses. rewrite sch_max_rep_count. split; intros H.
  - apply N.ltb_lt in H. lia.
  - apply N.ltb_lt. lia.
Qed.

(* any stack of structs above a one-level LIST / MAP leaf: never refused *)
Theorem one_level_not_refused (outer : list bool) (sh : shape) :
  refuses (map (fun o : bool => if o then OPTIONAL else REQUIRED) outer ++ shape_path sh) = false.
Proof.
  apply not_true_iff_false. rewrite refuses_iff. unfold n_rep. rewrite filter_app, app_length.
  assert (E : filter is_rep (map (fun o : bool => if o then OPTIONAL else REQUIRED) outer) = []).
  { induction outer as [|o outer IH]; [reflexivity|]. cbn. destruct o; cbn; exact IH. }
  rewrite E. unfold shape_path. destruct (row_opt sh), (elem_opt sh); cbn; lia.
Qed.

(* a list of lists, a map of lists, a list below a repeated group ...: refused, whatever else is on the path *)
Theorem nested_collection_refused (a b c : list reptype) :
  refuses (a ++ REPEATED :: b ++ REPEATED :: c) = true.
Proof.
  apply refuses_iff. unfold n_rep. rewrite filter_app, app_length. cbn [filter is_rep length].
  rewrite filter_app, app_length. cbn [filter is_rep length]. lia.
Qed.
