From Coq Require Import NArith Arith List Lia.
From Pq Require Import Base.ListX.
Import ListNotations.
Open Scope N_scope.

Lemma lenN_acc {A} (l : list A) a : fold_left (fun a _ => N.succ a) l a = a + N.of_nat (length l).
Proof.
  revert a; induction l as [|x l IH]; intros a; cbn [fold_left length].
  - cbn. lia.
  - rewrite IH. lia.
Qed.

Lemma lenN_ok {A} (l : list A) : lenN l = N.of_nat (length l).
Proof. unfold lenN. rewrite lenN_acc. lia. Qed.

Lemma take_rev_ok {A} (l : list A) n acc : take_rev l n acc = rev (firstn (N.to_nat n) l) ++ acc.
Proof.
  revert n acc; induction l as [|x l IH]; intros n acc; cbn [take_rev].
  - now rewrite firstn_nil.
  - destruct (N.eqb_spec n 0) as [E|E].
    + subst. reflexivity.
    + rewrite IH. replace (N.to_nat n) with (S (N.to_nat (N.pred n))) by lia.
      cbn [firstn rev]. now rewrite <- app_assoc.
Qed.

Lemma takeN_ok {A} n (l : list A) : takeN n l = firstn (N.to_nat n) l.
Proof. unfold takeN. rewrite rev_append_rev, take_rev_ok, !app_nil_r. apply rev_involutive. Qed.

Lemma dropN_ok {A} n (l : list A) : dropN n l = skipn (N.to_nat n) l.
Proof.
  revert n; induction l as [|x l IH]; intros n; cbn [dropN].
  - now rewrite skipn_nil.
  - destruct (N.eqb_spec n 0) as [E|E].
    + subst. reflexivity.
    + rewrite IH. replace (N.to_nat n) with (S (N.to_nat (N.pred n))) by lia. reflexivity.
Qed.

Lemma app_tr_ok {A} (a b : list A) : app_tr a b = a ++ b.
Proof. unfold app_tr. rewrite !rev_append_rev, app_nil_r. now rewrite rev_involutive. Qed.

Lemma concat_tr_acc {A} (ls : list (list A)) acc :
  fold_left (fun acc l => rev_append l acc) ls acc = rev (concat ls) ++ acc.
Proof.
  revert acc; induction ls as [|l ls IH]; intros acc; cbn [fold_left concat]; [reflexivity|].
  rewrite IH, rev_append_rev, rev_app_distr. now rewrite <- app_assoc.
Qed.

Lemma concat_tr_ok {A} (ls : list (list A)) : concat_tr ls = concat ls.
Proof. unfold concat_tr. rewrite rev_append_rev, concat_tr_acc, !app_nil_r. apply rev_involutive. Qed.

Lemma repN_ok {A} (v : A) k acc : repN v k acc = repeat v (N.to_nat k) ++ acc.
Proof.
  unfold repN. induction k as [|k IH] using N.peano_ind.
  - reflexivity.
  - rewrite N.iter_succ, IH. rewrite N2Nat.inj_succ. reflexivity.
Qed.
