(* Facts about the codec layer that the format-level round trip needs and that are not (yet) in
   Proofs/CodecProofs.v: the tail-recursive encoders used by the extracted code are the
   specification encoders, and the PLAIN round trip of Format/Phys.v for every physical type. *)
From Coq Require Import NArith ZArith Arith List Lia Bool.
From Pq Require Import Base.Bytes Base.Bits Base.ListX Proofs.BytesProofs Proofs.ListXProofs Proofs.CodecProofs
  Proofs.CompactProofs Codec.Varint Codec.Bitpack Codec.Hybrid Thrift.Compact Format.Phys.
Import ListNotations.
Open Scope N_scope.

(* ---- tail-recursive = specification ---------------------------------------------------------- *)
Lemma bp_num_tr_ok w vs : bp_num_tr w vs = bp_num w vs.
Proof.
  unfold bp_num_tr. rewrite rev_append_rev, app_nil_r, <- fold_left_rev_right, rev_involutive.
  induction vs as [|v vs IH]; cbn [fold_right bp_num]; [reflexivity|].
  rewrite IH, shiftl_mul. lia.
Qed.

Lemma le_enc_tr_iter k n acc :
  N.iter k (fun st : N * list N => (N.shiftr (fst st) 8, N.land (fst st) 255 :: snd st)) (n, acc)
  = (n / 256 ^ k, rev (le_enc (N.to_nat k) n) ++ acc).
Proof.
  revert n acc. induction k as [|k IH] using N.peano_ind; intros n acc.
  - cbn. now rewrite N.div_1_r.
  - rewrite N.iter_succ_r. cbn [fst snd].
    rewrite IH. rewrite N2Nat.inj_succ. cbn [le_enc rev].
    rewrite shiftr_div. change (2 ^ 8) with 256. f_equal.
    + rewrite N.pow_succ_r', N.div_div by (try lia; apply N.pow_nonzero; lia). reflexivity.
    + change 255 with (N.ones 8). rewrite land_ones_mod. change (2 ^ 8) with 256.
      rewrite <- app_assoc. reflexivity.
Qed.

Lemma le_enc_tr_ok k n : le_enc_tr k n = le_enc (N.to_nat k) n.
Proof.
  unfold le_enc_tr. rewrite le_enc_tr_iter. cbn [snd].
  rewrite rev_append_rev, !app_nil_r. apply rev_involutive.
Qed.

Lemma len_tr_ok {A} (l : list A) : len_tr l = N.of_nat (length l).
Proof. apply lenN_ok. Qed.

Lemma bp_enc_x_ok w vs : bp_enc_x w vs = bp_enc w vs.
Proof. unfold bp_enc_x, bp_enc. now rewrite le_enc_tr_ok, bp_num_tr_ok, len_tr_ok. Qed.

Lemma pad8_x_ok vs : pad8_x vs = pad8 vs.
Proof.
  unfold pad8_x, pad8. rewrite app_tr_ok, lenN_ok. f_equal. f_equal.
  replace (N.to_nat (N.of_nat (length vs) mod 8)) with (length vs mod 8)%nat.
  - rewrite Nat.mod_mod by lia. reflexivity.
  - change 8 with (N.of_nat 8). rewrite <- Nat2N.inj_mod. now rewrite Nat2N.id.
Qed.

Lemma run_enc_x_ok w r : run_enc_x w r = run_enc w r.
Proof. destruct r; cbn [run_enc_x run_enc]; [reflexivity|]. now rewrite pad8_x_ok, lenN_ok, bp_enc_x_ok. Qed.

Lemma hyb_enc_x_ok w rs : hyb_enc_x w rs = hyb_enc w rs.
Proof.
  unfold hyb_enc_x, hyb_enc. rewrite concat_tr_ok. f_equal. apply map_ext. intros; apply run_enc_x_ok.
Qed.

Lemma hyb_enc_len_x_ok w rs : hyb_enc_len_x w rs = hyb_enc_len w rs.
Proof. unfold hyb_enc_len_x, hyb_enc_len. now rewrite hyb_enc_x_ok, lenN_ok. Qed.

(* ---- PLAIN round trip -------------------------------------------------------------------------- *)
Lemma len_le_enc k n : len (le_enc (N.to_nat k) n) = k.
Proof. unfold len. rewrite le_enc_length. apply N2Nat.id. Qed.

Lemma nums_dec_ok k : forall vs rest acc,
  Forall (fun v => exists n, v = VNum n /\ n < 256 ^ k) vs ->
  nums_dec k (length vs) (concat (map (fun v => le_enc (N.to_nat k) (num_of v)) vs) ++ rest) acc
  = Some (rev acc ++ vs, rest).
Proof.
  induction vs as [|v vs IH]; intros rest acc H; cbn [length nums_dec map concat app].
  - now rewrite rev_append_rev, !app_nil_r.
  - inversion H as [|? ? Hv Hvs]; subst. destruct Hv as (n & -> & Hn). cbn [num_of].
    rewrite <- app_assoc. rewrite <- (len_le_enc k n) at 1. rewrite take_app.
    rewrite le2n_tr_ok, le2n_le_enc, N2Nat.id, N.mod_small by exact Hn.
    rewrite IH by exact Hvs. cbn [rev]. now rewrite <- app_assoc.
Qed.

Lemma flba_dec_ok k : forall vs rest acc,
  Forall (fun v => exists b, v = VBin b /\ len b = k) vs ->
  flba_dec k (length vs) (concat (map (plain_enc1 FLBA) vs) ++ rest) acc = Some (rev acc ++ vs, rest).
Proof.
  induction vs as [|v vs IH]; intros rest acc H; cbn [length flba_dec map concat app].
  - now rewrite rev_append_rev, !app_nil_r.
  - inversion H as [|? ? Hv Hvs]; subst. destruct Hv as (b & -> & Hb). cbn [plain_enc1].
    rewrite <- app_assoc. rewrite <- Hb at 1. rewrite take_app.
    rewrite IH by exact Hvs. cbn [rev]. now rewrite <- app_assoc.
Qed.

Lemma bas_dec_ok : forall vs rest acc,
  Forall (fun v => exists b, v = VBin b /\ len b < 2 ^ 31) vs ->
  bas_dec (length vs) (concat (map (plain_enc1 BYTE_ARRAY) vs) ++ rest) acc = Some (rev acc ++ vs, rest).
Proof.
  induction vs as [|v vs IH]; intros rest acc H; cbn [length bas_dec map concat app].
  - now rewrite rev_append_rev, !app_nil_r.
  - inversion H as [|? ? Hv Hvs]; subst. destruct Hv as (b & -> & Hb). cbn [plain_enc1].
    rewrite <- !app_assoc. change 4 with (len (le_enc 4 (len b))) at 1.
    rewrite take_app. rewrite le2n_tr_ok, le2n_le_enc.
    rewrite N.mod_small by (eapply N.lt_trans; [exact Hb|reflexivity]).
    rewrite take_app. rewrite IH by exact Hvs. cbn [rev]. now rewrite <- app_assoc.
Qed.

Lemma value_ok_num t tlen v k : num_width t = Some k -> value_ok t tlen v = true ->
  exists n, v = VNum n /\ n < 256 ^ k.
Proof.
  intros Hk H.
  destruct t; cbn [num_width] in Hk; try discriminate Hk; injection Hk as <-;
    (destruct v as [n|b]; cbn [value_ok num_width] in H; [|discriminate H]);
    exists n; (split; [reflexivity|apply N.ltb_lt; exact H]).
Qed.

Lemma plain_rt_num t tlen k vs rest : num_width t = Some k ->
  Forall (fun v => value_ok t tlen v = true) vs ->
  nums_dec k (length vs) (concat (map (plain_enc1 t) vs) ++ rest) [] = Some (vs, rest).
Proof.
  intros Hk H.
  assert (E : map (plain_enc1 t) vs = map (fun v => le_enc (N.to_nat k) (num_of v)) vs).
  { apply map_ext_in. intros v Hv. rewrite Forall_forall in H.
    destruct (value_ok_num t tlen v k Hk (H v Hv)) as (n & -> & _). cbn [plain_enc1 num_of]. now rewrite Hk. }
  rewrite E. rewrite nums_dec_ok; [reflexivity|].
  eapply Forall_impl; [|exact H]. intros v Hv. exact (value_ok_num t tlen v k Hk Hv).
Qed.

Lemma plain_rt_bool tlen vs rest :
  Forall (fun v => value_ok BOOLEAN tlen v = true) vs ->
  plain_dec BOOLEAN tlen (N.of_nat (length vs)) (plain_enc BOOLEAN vs ++ rest) = Some (vs, rest).
Proof.
  intros H. unfold plain_dec, plain_enc. rewrite bp_enc_x_ok.
  assert (B : Forall (fun v => exists n, v = VNum n /\ n < 2) vs).
  { eapply Forall_impl; [|exact H]. intros v Hv. destruct v as [n|b]; cbn [value_ok] in Hv; [|discriminate].
    exists n. split; [reflexivity|]. apply N.ltb_lt in Hv. exact Hv. }
  assert (L : len (bp_enc 1 (map num_of vs)) = (N.of_nat (length vs) + 7) / 8).
  { unfold len. rewrite bp_enc_length, map_length. unfold bp_nbytes. now rewrite N.mul_1_r. }
  rewrite <- L. rewrite take_app. f_equal. f_equal.
  assert (R := bp_roundtrip 1 (map num_of vs) []). rewrite app_nil_r, map_length in R. rewrite R.
  - rewrite map_map. rewrite <- (map_id vs) at 2. apply map_ext_in. intros v Hv.
    rewrite Forall_forall in B. destruct (B v Hv) as (n & -> & _). reflexivity.
  - rewrite Forall_forall in B |- *. intros x Hx. apply in_map_iff in Hx. destruct Hx as (v & <- & Hv).
    destruct (B v Hv) as (n & -> & Hn). cbn [num_of]. rewrite N.pow_1_r. exact Hn.
Qed.

Theorem plain_roundtrip t tlen vs rest :
  Forall (fun v => value_ok t tlen v = true) vs ->
  plain_dec t tlen (N.of_nat (length vs)) (plain_enc t vs ++ rest) = Some (vs, rest).
Proof.
  intros H. destruct t.
  - apply plain_rt_bool. exact H.
  - unfold plain_dec, plain_enc. cbn [num_width]. rewrite Nat2N.id, concat_tr_ok. eapply plain_rt_num; [reflexivity|exact H].
  - unfold plain_dec, plain_enc. cbn [num_width]. rewrite Nat2N.id, concat_tr_ok. eapply plain_rt_num; [reflexivity|exact H].
  - unfold plain_dec, plain_enc. cbn [num_width]. rewrite Nat2N.id, concat_tr_ok. eapply plain_rt_num; [reflexivity|exact H].
  - unfold plain_dec, plain_enc. cbn [num_width]. rewrite Nat2N.id, concat_tr_ok. eapply plain_rt_num; [reflexivity|exact H].
  - unfold plain_dec, plain_enc. cbn [num_width]. rewrite Nat2N.id, concat_tr_ok. eapply plain_rt_num; [reflexivity|exact H].
  - unfold plain_dec, plain_enc. rewrite Nat2N.id, concat_tr_ok. rewrite bas_dec_ok; [reflexivity|].
    eapply Forall_impl; [|exact H]. intros v Hv. destruct v as [n|b]; cbn [value_ok] in Hv; [discriminate|].
    exists b. split; [reflexivity|]. apply N.ltb_lt in Hv. exact Hv.
  - unfold plain_dec, plain_enc. rewrite Nat2N.id, concat_tr_ok. rewrite flba_dec_ok; [reflexivity|].
    eapply Forall_impl; [|exact H]. intros v Hv. destruct v as [n|b]; cbn [value_ok] in Hv; [discriminate|].
    exists b. split; [reflexivity|]. apply N.eqb_eq in Hv. exact Hv.
Qed.
