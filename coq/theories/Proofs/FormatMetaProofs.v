(* Typed view of the footer (Format/Meta.v): reading back the generic value the encoder writes gives
   the records back. *)
From Coq Require Import NArith ZArith Arith List Lia Bool.
From Pq Require Import Base.Bytes Thrift.Compact Format.Meta.
Import ListNotations.

Lemma map_opt_map {A} (f : tv -> option A) (g : A -> tv) (l : list A) :
  (forall x, f (g x) = Some x) -> map_opt f (map g l) = Some l.
Proof. intros H. induction l as [|x l IH]; [reflexivity|]. cbn [map map_opt]. now rewrite H, IH. Qed.

Lemma as_list_of_map {A} (f : tv -> option A) (g : A -> tv) ety (l : list A) :
  (forall x, f (g x) = Some x) -> as_list_of f (TList ety (map g l)) = Some l.
Proof. intros H. cbn [as_list_of]. now apply map_opt_map. Qed.

Ltac destr_opts :=
  repeat match goal with
         | o : option Z |- _ => destruct o
         | o : option bool |- _ => destruct o as [[|]|]
         | o : option bytes |- _ => destruct o
         | o : option tv |- _ => destruct o
         end.

Lemma selem_of_to s : selem_of_tv (selem_to_tv s) = Some s.
Proof. destruct s. destr_opts; reflexivity. Qed.

Lemma cmd_of_to c : cmd_of_tv (cmd_to_tv c) = Some c.
Proof.
  destruct c as [ty en pa co nv tu tc dp ip di nc].
  unfold cmd_to_tv, cmd_of_tv. cbn [as_struct cm_type cm_encodings cm_path cm_codec cm_nvals cm_tus cm_tcs cm_data_off
    cm_index_off cm_dict_off cm_null_count].
  assert (E : forall fs, req (as_list_of as_int) 2 ((1%N, TI32 ty) :: (2%N, TList 5 (map TI32 en)) :: fs) = Some en).
  { intros. unfold req. cbn [fld N.eqb Pos.eqb]. apply as_list_of_map. reflexivity. }
  assert (P : forall fs, req (as_list_of as_bin) 3 ((1%N, TI32 ty) :: (2%N, TList 5 (map TI32 en)) :: (3%N, TList 8 (map TBin pa)) :: fs) = Some pa).
  { intros. unfold req. cbn [fld N.eqb Pos.eqb]. apply as_list_of_map. reflexivity. }
  cbn [app]. rewrite E, P.
  destruct ip, di, nc; reflexivity.
Qed.

Lemma cchunk_of_to c : cchunk_of_tv (cchunk_to_tv c) = Some c.
Proof.
  destruct c as [pa off md]. unfold cchunk_to_tv, cchunk_of_tv. cbn [as_struct cc_path cc_off cc_meta].
  destruct pa, md as [m|]; cbn [optf app opt req fld N.eqb Pos.eqb as_bin as_int]; rewrite ?cmd_of_to; reflexivity.
Qed.

Lemma rgroup_of_to r : rgroup_of_tv (rgroup_to_tv r) = Some r.
Proof.
  destruct r as [cs tb nr]. unfold rgroup_to_tv, rgroup_of_tv. cbn [as_struct rg_cols rg_tbs rg_nrows].
  unfold req at 1. cbn [fld N.eqb Pos.eqb]. rewrite (as_list_of_map cchunk_of_tv cchunk_to_tv 12 cs cchunk_of_to).
  reflexivity.
Qed.

Theorem fmd_of_to m : fmd_of_tv (fmd_to_tv m) = Some m.
Proof.
  destruct m as [ve sc nr rgs cb]. unfold fmd_to_tv, fmd_of_tv. cbn [as_struct fm_version fm_schema fm_nrows fm_rgs fm_created_by].
  cbn [app]. unfold req at 1 2. cbn [fld N.eqb Pos.eqb as_int].
  rewrite (as_list_of_map selem_of_tv selem_to_tv 12 sc selem_of_to).
  unfold req at 1 2. cbn [fld N.eqb Pos.eqb as_int].
  rewrite (as_list_of_map rgroup_of_tv rgroup_to_tv 12 rgs rgroup_of_to).
  destruct cb; reflexivity.
Qed.
