(* Part 3: the round trip of the impl model.  For every object in `dom` (ids <= 13, no floats, sizes
   below 2^31, homogeneous lists) whose serialisation fits the buffer, read_thrift (to_bytes x) is
   an object that ThriftObject.__eq__ / dict_eq considers equal to x - any nesting, any number of
   elements, any string lengths.                                                                   *)
From Coq Require Import NArith ZArith List Bool Lia.
From Pq Require Import Base.Bytes Thrift.Varint Thrift.Compact Proofs.CompactProofs Impl.CThrift Impl.CThriftSpec
  Proofs.CThriftProofs Proofs.CThriftRead.
Import ListNotations.
Open Scope N_scope.

Section Ids.
Variable fids : list Z.
Hypothesis Hasc : asc 0 fids.
Local Notation w_thrift := (CThrift.w_thrift fids).
Local Notation t_thrift := (CThriftSpec.t_thrift fids).
Local Notation w_top := (CThrift.w_top fids).
Local Notation t_top := (CThriftSpec.t_top fids).
Local Notation ser := (CThrift.ser fids).
Local Notation to_bytes := (CThrift.to_bytes fids).
Local Notation dom := (CThriftSpec.dom fids).

(* ---- (i) the denoted tree of an object in dom is readable -------------------------------------- *)
Definition good (j : nat) (t : tv) : Prop := rwf t = true /\ rdable t = true /\ (depth t <= S j)%nat.

Lemma in_cint_range64 z : in_cint z = true -> in_range 64 z = true.
Proof.
  unfold in_cint, in_range. change (2 ^ (64 - 1))%Z with 9223372036854775808%Z. change (2 ^ 31)%Z with 2147483648%Z.
  intros H. apply andb_true_iff in H. destruct H as [H1 H2]. apply Z.leb_le in H1. apply Z.ltb_lt in H2.
  apply andb_true_iff. split; [apply Z.leb_le|apply Z.ltb_lt]; lia.
Qed.

Lemma in_i64_range64 z : in_i64 z = in_range 64 z.
Proof. reflexivity. Qed.

Lemma items_good f ety m (P : pv -> Prop) :
  (forall x t, P x -> f x = Some t -> elem_ok ety t = true /\ rwf t = true /\ rdable t = true /\ (depth t <= m)%nat) ->
  forall l l', Forall P l -> t_items f l = Some l' ->
    rwf_elems ety l' = true /\ rdable_elems l' = true /\ (depth_elems l' <= m)%nat.
Proof.
  intros H. induction l as [|x l IH]; intros l' HP E; cbn [t_items] in E.
  - injection E as <-. cbn. repeat split; lia.
  - destruct (f x) as [a|] eqn:Ea; [|discriminate]. destruct (t_items f l) as [b|] eqn:Eb; [|discriminate].
    injection E as <-. inversion HP as [|x' l'' Hx Hl]; subst.
    destruct (H x a Hx Ea) as (H1 & H2 & H3 & H4). destruct (IH b Hl eq_refl) as (I1 & I2 & I3).
    cbn [rwf_elems rdable_elems depth_elems]. fold (rwf_elems ety). fold rdable_elems. fold depth_elems.
    rewrite H1, H2, H3, I1, I2. repeat split. lia.
Qed.

Lemma forallb_Forall {A} (p : A -> bool) l : forallb p l = true -> Forall (fun x => p x = true) l.
Proof. intros H. apply Forall_forall. intros x Hx. exact (proj1 (forallb_forall p l) H x Hx). Qed.

Definition td_good (td : pv -> option tv) : Prop :=
  forall j x t, dom j x = true -> td x = Some t -> good j t /\ nib t = 12.

Lemma list_good td j l t : td_good td ->
  dom (S j) (PList l) = true -> t_list_with td l = Some t -> good (S j) t.
Proof.
  intros Htd Hdom E. cbn [CThriftSpec.dom] in Hdom. apply andb_true_iff in Hdom. destruct Hdom as [Hsm Hel].
  unfold small in Hsm.
  destruct l as [|first r]; cbn [t_list_with] in E.
  - injection E as <-. repeat split; cbn; lia.
  - assert (HL : forall ety f l', t_items f (first :: r) = Some l' ->
        rwf_elems ety l' = true /\ rdable_elems l' = true /\ (depth_elems l' <= S j)%nat ->
        ((ety =? 5) || (ety =? 8) || (ety =? 12)) = true -> good (S j) (TList ety l')).
    { intros ety f l' El (R1 & R2 & R3) He. unfold good. rewrite rwf_list, rdable_list, depth_list.
      unfold len. rewrite (t_items_len f _ l' El). fold (len (first :: r)). rewrite Hsm, R1, R2.
      assert (ety <? 16 = true) as ->.
      { apply N.ltb_lt. destruct (N.eqb_spec ety 5); [lia|]. destruct (N.eqb_spec ety 8); [lia|].
        destruct (N.eqb_spec ety 12); [lia|discriminate]. }
      assert (((ety =? 5) || (ety =? 6) || (ety =? 8) || (ety =? 12) || match l' with [] => true | _ => false end) = true) as ->.
      { destruct (N.eqb_spec ety 5); [reflexivity|]. destruct (N.eqb_spec ety 8); [rewrite !orb_true_r; reflexivity|].
        destruct (N.eqb_spec ety 12); [rewrite !orb_true_r; reflexivity|discriminate]. }
      repeat split. lia. }
    destruct first as [|b0|z0|f0|b0|s0|l0|a0 b0 c0]; try discriminate Hel.
    + destruct (t_items t_int_elem (PBool b0 :: r)) as [l'|] eqn:El; [|discriminate]. injection E as <-.
      apply (HL 5 t_int_elem l' El); [|reflexivity].
      apply (items_good t_int_elem 5 (S j) (fun x => match x with PInt z => in_cint z | PBool _ => true | _ => false end = true)) with (l := PBool b0 :: r);
        [|apply forallb_Forall; exact Hel|exact El].
      intros x t Hx Ex. destruct x; try discriminate Hx; cbn [t_int_elem] in Ex.
      * injection Ex as <-. destruct b; repeat split; cbn; lia.
      * rewrite Hx in Ex. injection Ex as <-. repeat split; [apply in_cint_range64; exact Hx|cbn; lia].
    + destruct (t_items t_int_elem (PInt z0 :: r)) as [l'|] eqn:El; [|discriminate]. injection E as <-.
      apply (HL 5 t_int_elem l' El); [|reflexivity].
      apply (items_good t_int_elem 5 (S j) (fun x => match x with PInt z => in_cint z | PBool _ => true | _ => false end = true)) with (l := PInt z0 :: r);
        [|apply forallb_Forall; exact Hel|exact El].
      intros x t Hx Ex. destruct x; try discriminate Hx; cbn [t_int_elem] in Ex.
      * injection Ex as <-. destruct b; repeat split; cbn; lia.
      * rewrite Hx in Ex. injection Ex as <-. repeat split; [apply in_cint_range64; exact Hx|cbn; lia].
    + destruct (t_items t_str_elem (PStr s0 :: r)) as [l'|] eqn:El; [|discriminate]. injection E as <-.
      apply (HL 8 t_str_elem l' El); [|reflexivity].
      apply (items_good t_str_elem 8 (S j) (fun x => match x with PStr s => small (len s) | _ => false end = true)) with (l := PStr s0 :: r);
        [|apply forallb_Forall; exact Hel|exact El].
      intros x t Hx Ex. destruct x; try discriminate Hx; cbn [t_str_elem] in Ex.
      injection Ex as <-. repeat split; [exact Hx|cbn; lia].
    + destruct (t_items td (PDict a0 b0 c0 :: r)) as [l'|] eqn:El; [|discriminate]. injection E as <-.
      apply (HL 12 td l' El); [|reflexivity].
      apply (items_good td 12 (S j) (fun x => match x with PDict _ _ _ => dom j x | _ => false end = true)) with (l := PDict a0 b0 c0 :: r);
        [|apply forallb_Forall; exact Hel|exact El].
      intros x t Hx Ex. destruct x; try discriminate Hx.
      destruct (Htd j _ t Hx Ex) as ((G1 & G2 & G3) & Hn).
      repeat split; try assumption.
      destruct t as [[]| | | | | | | |]; cbn [nib] in Hn; try discriminate Hn. reflexivity.
Qed.

Lemma field_good td i32 i32l i j v t : td_good td ->
  dom j v = true -> t_field td i32 i32l i v = Some t -> good j t.
Proof.
  intros Htd Hdom E. destruct j as [|j]; [discriminate Hdom|].
  destruct v as [|b|z|f|l|l|l|a b c]; cbn [t_field] in E.
  - discriminate.
  - injection E as <-. repeat split; cbn; lia.
  - cbn [CThriftSpec.dom] in Hdom. rewrite Hdom in E. injection E as <-.
    destruct (int_nib i32 i32l i =? 5); repeat split; try (cbn [rwf]; rewrite <- in_i64_range64; exact Hdom); cbn; lia.
  - discriminate Hdom.
  - injection E as <-. cbn [CThriftSpec.dom] in Hdom. repeat split; [exact Hdom|cbn; lia].
  - injection E as <-. cbn [CThriftSpec.dom] in Hdom. repeat split; [exact Hdom|cbn; lia].
  - apply (list_good td j l t Htd Hdom E).
  - destruct (Htd (S j) _ t Hdom E) as (G & _). exact G.
Qed.

Lemma lookup_in i fs v : lookup i fs = Some v -> In (i, v) fs.
Proof.
  induction fs as [|[k x] fs IH]; cbn [lookup]; [discriminate|].
  destruct (Z.eqb_spec k i) as [->|N]; intros H.
  - injection H as <-. left. reflexivity.
  - right. apply IH. exact H.
Qed.

Lemma fields_good tf m fs :
  (forall i v t, lookup i fs = Some v -> v <> PNone -> tf i v = Some t ->
     rwf t = true /\ rdable t = true /\ (depth t <= m)%nat) ->
  forall ids prev l, (0 <= prev)%Z -> asc prev ids -> t_fields tf ids fs = Some l ->
    rwf_fields l = true /\ rdable_fields (Z.to_N prev) l = true /\ (depth_fields l <= m)%nat.
Proof.
  intros H. induction ids as [|i r IH]; intros prev l Hp Ha E; cbn [t_fields] in E.
  - injection E as <-. cbn. repeat split; lia.
  - cbn [asc] in Ha. destruct Ha as [Hi Ha].
    assert (Ha' : asc prev r) by (apply (asc_weaken r prev i); [lia|exact Ha]).
    destruct (lookup i fs) as [v|] eqn:El; [|apply (IH prev l Hp Ha' E)].
    assert (Hv : v <> PNone -> match tf i v, t_fields tf r fs with Some a, Some b => Some ((Z.to_N i, a) :: b) | _, _ => None end = Some l ->
       rwf_fields l = true /\ rdable_fields (Z.to_N prev) l = true /\ (depth_fields l <= m)%nat).
    { intros Hn E'. destruct (tf i v) as [a|] eqn:Ea; [|discriminate]. destruct (t_fields tf r fs) as [b|] eqn:Eb; [|discriminate].
      injection E' as <-. destruct (H i v a El Hn Ea) as (H1 & H2 & H3).
      destruct (IH i b ltac:(lia) Ha eq_refl) as (I1 & I2 & I3).
      cbn [rwf_fields rdable_fields depth_fields]. fold rwf_fields. fold rdable_fields. fold depth_fields.
      rewrite H1, H2, I1, I2.
      assert ((Z.to_N prev <? Z.to_N i) = true) as -> by (apply N.ltb_lt; lia).
      assert ((Z.to_N i - Z.to_N prev <? 16) = true) as -> by (apply N.ltb_lt; lia).
      assert ((Z.to_N i <=? 127) = true) as -> by (apply N.leb_le; lia).
      repeat split. lia. }
    destruct v; try (apply Hv; [discriminate|exact E]). apply (IH prev l Hp Ha' E).
Qed.

Lemma dom_fields j i32 i32l fs i v : dom (S j) (PDict i32 i32l fs) = true -> lookup i fs = Some v -> v <> PNone ->
  dom j v = true /\ existsb (Z.eqb i) fids = true.
Proof.
  cbn [CThriftSpec.dom]. intros H El Hn. apply lookup_in in El.
  pose proof (proj1 (forallb_forall _ fs) H (i, v) El) as Hx. cbn [snd fst] in Hx.
  destruct v; try congruence; apply andb_true_iff in Hx; tauto.
Qed.

Definition t_dict (d : nat) : pv -> option tv :=
  fun v : pv => match v with PDict a b c => t_thrift d a b c | _ => None end.
Lemma t_thrift_S d i32 i32l fs :
  t_thrift (S d) i32 i32l fs = option_map TStruct (t_fields (t_field (t_dict d) i32 i32l) fids fs).
Proof. reflexivity. Qed.

Theorem t_good : forall d j i32 i32l fs t,
  dom j (PDict i32 i32l fs) = true -> t_thrift d i32 i32l fs = Some t -> good j t /\ nib t = 12.
Proof.
  induction d as [|d IH]; intros j i32 i32l fs t Hdom E; [discriminate|].
  destruct j as [|j]; [discriminate Hdom|].
  rewrite t_thrift_S in E. set (td := t_dict d) in E.
  assert (Htd : td_good td).
  { intros j' x t' Hd' Ex. destruct x as [| | | | | | |a b c]; try discriminate Ex. apply (IH j' a b c t' Hd' Ex). }
  destruct (t_fields (t_field td i32 i32l) fids fs) as [l|] eqn:El; [|discriminate]. injection E as <-.
  destruct (fields_good (t_field td i32 i32l) (S j) fs) with (ids := fids) (prev := 0%Z) (l := l) as (R1 & R2 & R3);
    [|lia|exact Hasc|exact El|].
  - intros i v t Hl Hn Et. destruct (dom_fields j i32 i32l fs i v Hdom Hl Hn) as [Hdv _].
    apply (field_good td i32 i32l i j v t Htd Hdv Et).
  - split; [|reflexivity]. unfold good. rewrite rwf_struct, rdable_struct, depth_struct. repeat split; try assumption. lia.
Qed.

(* ---- (ii) dict_eq between an object and what read_thrift builds from its denoted tree ----------- *)
Lemma bytes_eqb_refl l : bytes_eqb l l = true.
Proof. induction l as [|b l IH]; [reflexivity|]. cbn. rewrite N.eqb_refl. exact IH. Qed.

Lemma asc_notin r : forall i, asc i r -> existsb (Z.eqb i) r = false.
Proof.
  induction r as [|x r IH]; intros i Ha; [reflexivity|]. cbn [asc] in Ha. destruct Ha as [Hx Ha].
  cbn [existsb]. destruct (Z.eqb_spec i x); [lia|]. apply IH. apply (asc_weaken r i x); [lia|exact Ha].
Qed.

Lemma pv_of_fields_cons id x r : pv_of_fields ((id, x) :: r) = (Z.of_N id, pv_of x) :: pv_of_fields r.
Proof. reflexivity. Qed.

Lemma lookup_fields tf fs : forall ids prev l, (0 <= prev)%Z -> asc prev ids -> t_fields tf ids fs = Some l ->
  forall k, lookup k (pv_of_fields l) =
    if existsb (Z.eqb k) ids then
      match lookup k fs with
      | Some PNone => None
      | Some v => option_map pv_of (tf k v)
      | None => None
      end
    else None.
Proof.
  induction ids as [|i r IH]; intros prev l Hp Ha E k; cbn [t_fields] in E.
  - injection E as <-. reflexivity.
  - cbn [asc] in Ha. destruct Ha as [Hi Ha].
    assert (Ha' : asc prev r) by (apply (asc_weaken r prev i); [lia|exact Ha]).
    cbn [existsb].
    assert (Hskip : t_fields tf r fs = Some l -> (lookup i fs = None \/ lookup i fs = Some PNone) ->
       lookup k (pv_of_fields l) = if (k =? i)%Z || existsb (Z.eqb k) r then
         match lookup k fs with Some PNone => None | Some v => option_map pv_of (tf k v) | None => None end else None).
    { intros E' Hn. rewrite (IH prev l Hp Ha' E' k). destruct (Z.eqb_spec k i) as [->|Nk]; [|reflexivity].
      rewrite (asc_notin r i Ha). cbn [orb]. destruct Hn as [-> | ->]; reflexivity. }
    destruct (lookup i fs) as [v|] eqn:El; [|apply Hskip; [exact E|left; reflexivity]].
    assert (Hv : v <> PNone -> match tf i v, t_fields tf r fs with Some a, Some b => Some ((Z.to_N i, a) :: b) | _, _ => None end = Some l ->
       lookup k (pv_of_fields l) = if (k =? i)%Z || existsb (Z.eqb k) r then
         match lookup k fs with Some PNone => None | Some v => option_map pv_of (tf k v) | None => None end else None).
    { intros Hn E'. destruct (tf i v) as [a|] eqn:Ea; [|discriminate]. destruct (t_fields tf r fs) as [b|] eqn:Eb; [|discriminate].
      injection E' as <-. rewrite pv_of_fields_cons. cbn [lookup]. rewrite Z2N.id by lia.
      rewrite (Z.eqb_sym i k). destruct (Z.eqb_spec k i) as [->|Nk]; cbn [orb].
      - rewrite El, Ea. destruct v; try reflexivity. congruence.
      - apply (IH i b ltac:(lia) Ha eq_refl k). }
    destruct v; try (apply Hv; [discriminate|exact E]). apply Hskip; [exact E|right; reflexivity].
Qed.

Lemma pv_of_not_none t : pv_of t <> PNone.
Proof. destruct t; discriminate. Qed.

Definition deq_ok (td : pv -> option tv) (deq : list (Z * pv) -> list (Z * pv) -> bool) (de : nat) : Prop :=
  forall j a b c t, (j <= de)%nat -> dom j (PDict a b c) = true -> td (PDict a b c) = Some t ->
    exists a' b' l, pv_of t = PDict a' b' l /\ deq c l = true.

Lemma items_eq f deq (P : pv -> Prop) :
  (forall x t, P x -> f x = Some t -> elem_eq deq x (pv_of_elem t) = true) ->
  forall l l', Forall P l -> t_items f l = Some l' -> all2 (elem_eq deq) l (pv_of_elems l') = true.
Proof.
  intros H. induction l as [|x l IH]; intros l' HP E; cbn [t_items] in E.
  - injection E as <-. reflexivity.
  - destruct (f x) as [a|] eqn:Ea; [|discriminate]. destruct (t_items f l) as [b|] eqn:Eb; [|discriminate].
    injection E as <-. inversion HP as [|x' l'' Hx Hl]; subst.
    cbn [pv_of_elems all2]. fold pv_of_elems. rewrite (H x a Hx Ea), (IH b Hl eq_refl). reflexivity.
Qed.

Lemma val_eq_ok td deq de i32 i32l k j v t : deq_ok td deq de -> (j <= de)%nat ->
  dom j v = true -> v <> PNone -> t_field td i32 i32l k v = Some t ->
  val_eq deq (Some v) (Some (pv_of t)) = true.
Proof.
  intros Hdeq Hj Hdom Hn E. destruct j as [|j]; [discriminate Hdom|].
  unfold val_eq. cbn [is_none].
  destruct v as [|b|z|f|l|l|l|a b c]; cbn [t_field] in E.
  - congruence.
  - injection E as <-. cbn [pv_of is_none py_eq]. apply Bool.eqb_reflx.
  - cbn [CThriftSpec.dom] in Hdom. rewrite Hdom in E. injection E as <-.
    destruct (int_nib i32 i32l k =? 5); cbn [pv_of is_none py_eq]; apply Z.eqb_refl.
  - discriminate Hdom.
  - injection E as <-. cbn [pv_of is_none py_eq]. apply bytes_eqb_refl.
  - injection E as <-. cbn [pv_of is_none]. apply bytes_eqb_refl.
  - cbn [CThriftSpec.dom] in Hdom. apply andb_true_iff in Hdom. destruct Hdom as [_ Hel].
    destruct l as [|first r]; cbn [t_list_with] in E.
    + injection E as <-. reflexivity.
    + destruct first as [|b0|z0|f0|b0|s0|l0|a0 b0 c0]; try discriminate Hel.
      * destruct (t_items t_int_elem (PBool b0 :: r)) as [l'|] eqn:El; [|discriminate]. injection E as <-.
        rewrite pv_of_list. cbn [is_none].
        apply (items_eq t_int_elem deq (fun x => match x with PInt z => in_cint z | PBool _ => true | _ => false end = true)) with (l := PBool b0 :: r);
          [|apply forallb_Forall; exact Hel|exact El].
        intros x t Hx Ex. destruct x; try discriminate Hx; cbn [t_int_elem] in Ex.
        -- injection Ex as <-. cbn. apply Z.eqb_refl.
        -- rewrite Hx in Ex. injection Ex as <-. cbn. apply Z.eqb_refl.
      * destruct (t_items t_int_elem (PInt z0 :: r)) as [l'|] eqn:El; [|discriminate]. injection E as <-.
        rewrite pv_of_list. cbn [is_none].
        apply (items_eq t_int_elem deq (fun x => match x with PInt z => in_cint z | PBool _ => true | _ => false end = true)) with (l := PInt z0 :: r);
          [|apply forallb_Forall; exact Hel|exact El].
        intros x t Hx Ex. destruct x; try discriminate Hx; cbn [t_int_elem] in Ex.
        -- injection Ex as <-. cbn. apply Z.eqb_refl.
        -- rewrite Hx in Ex. injection Ex as <-. cbn. apply Z.eqb_refl.
      * destruct (t_items t_str_elem (PStr s0 :: r)) as [l'|] eqn:El; [|discriminate]. injection E as <-.
        rewrite pv_of_list. cbn [is_none].
        apply (items_eq t_str_elem deq (fun x => match x with PStr s => small (len s) | _ => false end = true)) with (l := PStr s0 :: r);
          [|apply forallb_Forall; exact Hel|exact El].
        intros x t Hx Ex. destruct x; try discriminate Hx; cbn [t_str_elem] in Ex.
        injection Ex as <-. cbn. apply bytes_eqb_refl.
      * destruct (t_items td (PDict a0 b0 c0 :: r)) as [l'|] eqn:El; [|discriminate]. injection E as <-.
        rewrite pv_of_list. cbn [is_none].
        apply (items_eq td deq (fun x => match x with PDict _ _ _ => dom j x | _ => false end = true)) with (l := PDict a0 b0 c0 :: r);
          [|apply forallb_Forall; exact Hel|exact El].
        intros x t Hx Ex. destruct x as [| | | | | | |a b c]; try discriminate Hx.
        destruct (Hdeq j a b c t ltac:(lia) Hx Ex) as (a' & b' & l2 & Hp & Hq).
        assert (pv_of_elem t = pv_of t) as -> by (destruct t; try reflexivity; discriminate Hp).
        rewrite Hp. cbn [elem_eq]. exact Hq.
  - destruct (Hdeq (S j) a b c t Hj Hdom E) as (a' & b' & l2 & Hp & Hq). rewrite Hp. cbn [is_none]. exact Hq.
Qed.

(* t_fields succeeded, so every present field denotes a tree *)
Lemma t_fields_some tf fs k v : lookup k fs = Some v -> v <> PNone -> tf k v = None ->
  forall ids l, existsb (Z.eqb k) ids = true -> t_fields tf ids fs = Some l -> False.
Proof.
  intros Ek Hn Et. induction ids as [|i r IH]; intros l Ein El; [discriminate Ein|].
  cbn [t_fields] in El. cbn [existsb] in Ein.
  destruct (Z.eqb_spec k i) as [<-|Nk].
  - rewrite Ek in El. destruct v; try congruence; rewrite Et in El; discriminate El.
  - cbn [orb] in Ein. destruct (lookup i fs) as [vi|]; [|apply (IH l Ein El)].
    assert (Hgen : forall vi', match tf i vi', t_fields tf r fs with Some a, Some b => Some ((Z.to_N i, a) :: b) | _, _ => None end = Some l -> False).
    { intros vi' E'. destruct (tf i vi'); [|discriminate E'].
      destruct (t_fields tf r fs) as [bb|] eqn:Er; [|discriminate E']. apply (IH bb Ein eq_refl). }
    destruct vi; try (apply (Hgen _ El)). apply (IH l Ein El).
Qed.

Theorem t_eq : forall d de j i32 i32l fs t, (j <= de)%nat ->
  dom j (PDict i32 i32l fs) = true -> t_thrift d i32 i32l fs = Some t ->
  exists a b l, pv_of t = PDict a b l /\ dict_eq de fs l = true.
Proof.
  induction d as [|d IH]; intros de j i32 i32l fs t Hj Hdom E; [discriminate|].
  destruct j as [|j]; [discriminate Hdom|]. destruct de as [|de]; [lia|].
  rewrite t_thrift_S in E. set (td := t_dict d) in E.
  assert (Hdeq : deq_ok td (dict_eq de) de).
  { intros j' a b c t' Hj' Hd' Ex. apply (IH de j' a b c t' Hj' Hd' Ex). }
  destruct (t_fields (t_field td i32 i32l) fids fs) as [l|] eqn:El; [|discriminate]. injection E as <-.
  rewrite pv_of_struct. eexists. eexists. eexists. split; [reflexivity|].
  cbn [dict_eq]. apply forallb_forall. intros k _.
  rewrite (lookup_fields (t_field td i32 i32l) fs fids 0%Z l ltac:(lia) Hasc El k).
  destruct (lookup k fs) as [v|] eqn:Ek.
  - destruct (existsb (Z.eqb k) fids) eqn:Ein.
    + assert (Hv : v <> PNone -> val_eq (dict_eq de) (Some v)
          match v with PNone => None | _ => option_map pv_of (t_field td i32 i32l k v) end = true).
      { intros Hn. destruct (dom_fields j i32 i32l fs k v Hdom Ek Hn) as [Hdv _].
        destruct (t_field td i32 i32l k v) as [t|] eqn:Et.
        - replace (match v with PNone => None | _ => option_map pv_of (Some t) end) with (Some (pv_of t)) by (destruct v; try reflexivity; congruence).
          apply (val_eq_ok td (dict_eq de) de i32 i32l k j v t Hdeq ltac:(lia) Hdv Hn Et).
        - exfalso. exact (t_fields_some (t_field td i32 i32l) fs k v Ek Hn Et fids l Ein El). }
      destruct v; try (apply Hv; discriminate). reflexivity.
    + (* a key outside 1..13 carrying a value is excluded by dom *)
      destruct v; try (destruct (dom_fields j i32 i32l fs k _ Hdom Ek ltac:(discriminate)) as [_ Hin]; congruence).
      reflexivity.
  - destruct (existsb (Z.eqb k) fids); reflexivity.
Qed.

(* ---- the buffer: a serialisation that fits is written completely -------------------------------- *)
Lemma run_fits cap : forall ops s, loc s = len (out s) -> loc s + len (flat ops) <= cap ->
  exists s', run_ops cap ops s = Some s' /\ loc s' = len (out s') /\ out s' = rev (flat ops) ++ out s.
Proof.
  induction ops as [|o ops IH]; intros s Hl Hc.
  - exists s. repeat split; assumption.
  - destruct o as [b|l]; cbn [run_ops flat] in *.
    + assert (Hlen : len (b :: flat ops) = 1 + len (flat ops)) by (unfold len; cbn [length]; lia).
      destruct (N.leb_spec cap (loc s)) as [Hf|Hf]; [lia|].
      destruct (IH (mkSt (loc s + 1) (b :: out s))) as (s' & E & H1 & H2).
      * cbn [loc out]. unfold len in *. cbn [length]. lia.
      * cbn [loc]. lia.
      * exists s'. repeat split; try assumption. rewrite H2. cbn [out rev]. rewrite <- app_assoc. reflexivity.
    + assert (Hlen : len (l ++ flat ops) = len l + len (flat ops)) by (unfold len; rewrite app_length; lia).
      destruct (N.leb_spec (loc s + len l) cap) as [Hf|Hf]; [|lia].
      destruct (IH (mkSt (loc s + len l) (rev_append l (out s)))) as (s' & E & H1 & H2).
      * cbn [loc out]. rewrite rev_append_rev. unfold len in *. rewrite app_length, rev_length. lia.
      * cbn [loc]. lia.
      * exists s'. repeat split; try assumption. rewrite H2. cbn [out]. rewrite rev_append_rev, rev_app_distr, <- app_assoc. reflexivity.
Qed.

Theorem to_bytes_fits cap v bs : ser v = Some bs -> len bs <= cap -> to_bytes cap v = OBytes bs.
Proof.
  unfold CThrift.ser, CThrift.to_bytes. intros E Hc. destruct (w_top v) as [ops|]; [|discriminate]. cbn [option_map] in E. injection E as <-.
  destruct (run_fits cap ops (mkSt 0 []) eq_refl) as (s' & Er & _ & H2); [cbn [loc]; lia|].
  rewrite Er. f_equal. rewrite H2, app_nil_r, rev_append_rev, app_nil_r, rev_involutive. reflexivity.
Qed.
End Ids.
