(* Proofs about Conc/Footprint.v (C20). *)
From Coq Require Import NArith Arith List Bool String Lia.
From Pq Require Import Conc.Interleave Conc.Footprint Proofs.InterleaveProofs.
Import ListNotations.

(* ------------------------------------------------------------------------------------------ *)
(* the decidable footprint condition is sound                                                  *)
(* ------------------------------------------------------------------------------------------ *)
Lemma ev_table_sound : forall evs tbl t, ev_table tbl evs = Some t ->
  (forall k v, lookup k tbl = Some v -> lookup k t = Some v) /\
  (forall e, In e evs -> exists v, e_new e = Some v /\ lookup (e_key e) t = Some v).
Proof.
  induction evs as [|e evs IH]; intros tbl t H; cbn in H.
  - inversion H; subst. split; [auto|]. intros e [].
  - destruct (e_new e) as [v|] eqn:En; [|discriminate].
    destruct (lookup (e_key e) tbl) as [v'|] eqn:Lk.
    + destruct (N.eqb_spec v' v) as [E|E]; [|discriminate]. subst v'.
      destruct (IH _ _ H) as [A B]. split; [exact A|].
      intros e0 [X|X]; [subst e0; exists v; split; [exact En|apply A, Lk]|apply B, X].
    + destruct (IH _ _ H) as [A B]. split.
      * intros k0 v0 L. apply A. cbn. destruct (N.eqb_spec (e_key e) k0) as [X|X]; [subst; congruence|exact L].
      * intros e0 [X|X]; [|apply B, X]. subst e0. exists v. split; [exact En|].
        apply A. cbn. rewrite N.eqb_refl. reflexivity.
Qed.

(* acceptance of the observed events = one table exists under which every event is a memo write (absent -> the
   table value, or the table value again), and no event was attributed to a refuted pattern *)
Theorem footprint_ok_sound : forall evs, footprint_ok evs = true ->
  exists memo : N -> option N, forall e, In e evs -> ev_legal memo e /\ pat_refuted (e_pat e) = false.
Proof.
  intros evs H. unfold footprint_ok in H. apply andb_true_iff in H. destruct H as [H1 H2].
  destruct (ev_table [] evs) as [t|] eqn:T; [|discriminate].
  exists (fun k => lookup k t). intros e He.
  destruct (ev_table_sound _ _ _ T) as [_ B]. destruct (B e He) as [v [En Lt]].
  rewrite forallb_forall in H1. specialize (H1 e He). unfold ev_ok in H1.
  apply andb_true_iff in H1. destruct H1 as [Hv Hp]. split.
  - exists v. split; [exact Lt|]. split; [exact En|].
    rewrite En in Hv. destruct (e_old e) as [a|]; [|left; reflexivity].
    right. apply N.eqb_eq in Hv. subst. reflexivity.
  - destruct (pat_refuted (e_pat e)); [discriminate|reflexivity].
Qed.

(* ... and it is a necessary condition: an event that is a memo write of some table passes the per-event test *)
Lemma legal_ev_ok : forall memo e, ev_legal memo e -> pat_refuted (e_pat e) = false -> ev_ok e = true.
Proof.
  intros memo e [v [M [En Eo]]] Hp. unfold ev_ok. rewrite En, Hp.
  destruct Eo as [E|E]; rewrite E; [reflexivity|]. rewrite N.eqb_refl. reflexivity.
Qed.

Lemma first_bad_ev_none : forall evs tbl n, first_bad_ev n tbl evs = None ->
  forallb ev_ok evs = true /\ exists t, ev_table tbl evs = Some t.
Proof.
  induction evs as [|e evs IH]; intros tbl n H; cbn in *.
  - split; [reflexivity|eexists; reflexivity].
  - destruct (ev_ok e); cbn in H; [|discriminate].
    destruct (e_new e) as [v|]; [|discriminate].
    destruct (lookup (e_key e) tbl) as [v'|].
    + destruct (N.eqb v' v); [|discriminate]. apply IH in H. exact H.
    + apply IH in H. exact H.
Qed.

(* ------------------------------------------------------------------------------------------ *)
(* the general discipline: Frozen / Idem / Priv                                                *)
(* ------------------------------------------------------------------------------------------ *)
Section DiscP.
Variable V R : Type.
Variable cls : N -> lclass V.
Variable base : store V.
Notation memo := (memo_of cls).
Notation okp := (okp cls base).
Notation consistentc := (consistentc cls base).
Notation agree_priv := (agree_priv cls).
Notation knows := (knows memo).

Lemma memo_idem : forall k v, cls k = Idem v -> memo k = Some v.
Proof. intros k v H. unfold memo_of. rewrite H. reflexivity. Qed.

Lemma memo_some : forall k v, memo k = Some v -> cls k = Idem v.
Proof. intros k v H. unfold memo_of in H. destruct (cls k); try discriminate. inversion H; reflexivity. Qed.

Lemma consistentc_upd_idem : forall s k v, consistentc s -> cls k = Idem v -> consistentc (upd s k v).
Proof.
  intros s k v C M k'. destruct (N.eq_dec k' k) as [E|E].
  - subst k'. rewrite M, upd_same. right. reflexivity.
  - rewrite upd_other by assumption. apply C.
Qed.

Lemma consistentc_upd_priv : forall s k v j, consistentc s -> cls k = Priv j -> consistentc (upd s k v).
Proof.
  intros s k v j C M k'. destruct (N.eq_dec k' k) as [E|E].
  - subst k'. rewrite M. exact I.
  - rewrite upd_other by assumption. apply C.
Qed.

Lemma knows_upd_priv : forall kn s k v j, knows kn s -> cls k = Priv j -> knows kn (upd s k v).
Proof.
  intros kn s k v j K M k' H. destruct (K k' H) as [v' [M' S']]. exists v'. split; [exact M'|].
  rewrite upd_other; [exact S'|]. intro; subst k'. apply memo_some in M'. congruence.
Qed.

Lemma consistentc_upd_multi : forall s k v P, consistentc s -> cls k = Multi P -> P v -> consistentc (upd s k v).
Proof.
  intros s k v P C M Pv k'. destruct (N.eq_dec k' k) as [E|E].
  - subst k'. rewrite M, upd_same. right. exists v. split; [exact Pv|reflexivity].
  - rewrite upd_other by assumption. apply C.
Qed.

Lemma knows_upd_multi : forall kn s k v P, knows kn s -> cls k = Multi P -> knows kn (upd s k v).
Proof.
  intros kn s k v P K M k' H. destruct (K k' H) as [v' [M' S']]. exists v'. split; [exact M'|].
  rewrite upd_other; [exact S'|]. intro; subst k'. apply memo_some in M'. congruence.
Qed.

Lemma agree_upd_same : forall i s pv k v, agree_priv i s pv -> agree_priv i (upd s k v) (upd pv k v).
Proof.
  intros i s pv k v A k' H. destruct (N.eq_dec k' k) as [E|E].
  - subst k'. rewrite !upd_same. reflexivity.
  - rewrite !upd_other by assumption. apply A, H.
Qed.

Lemma agree_upd_other : forall i s pv k v, agree_priv i s pv -> cls k <> Priv i -> agree_priv i (upd s k v) pv.
Proof.
  intros i s pv k v A N k' H. rewrite upd_other; [apply A, H|]. intro; subst k'. contradiction.
Qed.

(* a step of the thread itself *)
Lemma step1_okp : forall i pv kn (p : prog V R) r pf s, okp i pv kn p r pf -> consistentc s -> knows kn s -> agree_priv i s pv ->
  consistentc (snd (step1 p s)) /\
  exists pv' kn', okp i pv' kn' (fst (step1 p s)) r pf /\ knows kn' (snd (step1 p s)) /\ agree_priv i (snd (step1 p s)) pv'.
Proof.
  intros i pv kn p r pf s H C K A.
  destruct H as [pv kn r|pv kn k f r pf M H|pv kn k f r pf M H|pv kn k v p r pf M H|pv kn k v f r pf M Hk H
                |pv kn k v f r pf M H1 H2|pv kn k v p r pf M H|pv kn k P f r pf M H1 H2|pv kn k P v p r pf M Pv H]; cbn.
  - split; [exact C|]. exists pv, kn. repeat split; try assumption. constructor.
  - split; [exact C|]. exists pv, kn. repeat split; try assumption.
    pose proof (C k) as Ck. rewrite M in Ck. rewrite Ck. exact H.
  - split; [exact C|]. exists pv, kn. repeat split; try assumption. rewrite (A k M). exact H.
  - split; [eapply consistentc_upd_priv; eauto|]. exists (upd pv k v), kn. repeat split.
    + exact H.
    + eapply knows_upd_priv; eauto.
    + apply agree_upd_same, A.
  - split; [exact C|]. exists pv, kn. repeat split; try assumption.
    destruct (K k Hk) as [v' [M' S']]. rewrite S'. apply memo_idem in M. assert (v' = v) by congruence. subst v'. exact H.
  - split; [exact C|]. pose proof (C k) as Ck. rewrite M in Ck. destruct Ck as [E|E]; rewrite E.
    + exists pv, kn. repeat split; assumption.
    + exists pv, (addk k kn). repeat split; try assumption.
      eapply knows_add_present; eauto. apply memo_idem, M.
  - split; [apply consistentc_upd_idem; assumption|]. exists pv, (addk k kn). repeat split.
    + exact H.
    + apply knows_upd; [exact K|apply memo_idem, M].
    + apply agree_upd_other; [exact A|]. rewrite M. discriminate.
  - split; [exact C|]. exists pv, kn. repeat split; try assumption.
    pose proof (C k) as Ck. rewrite M in Ck. destruct Ck as [E|[v [Pv E]]]; rewrite E; [exact H1|apply H2, Pv].
  - split; [eapply consistentc_upd_multi; eauto|]. exists pv, kn. repeat split.
    + exact H.
    + eapply knows_upd_multi; eauto.
    + apply agree_upd_other; [exact A|]. rewrite M. discriminate.
Qed.

(* a step of another disciplined thread keeps what this thread knows and owns *)
Lemma step1_other : forall i j pvj knj (q : prog V R) rj pfj kn pv s, okp j pvj knj q rj pfj -> j <> i ->
  knows kn s -> agree_priv i s pv ->
  knows kn (snd (step1 q s)) /\ agree_priv i (snd (step1 q s)) pv.
Proof.
  intros i j pvj knj q rj pfj kn pv s H Hji K A.
  destruct H as [pv0 kn0 r|pv0 kn0 k f r pf M H|pv0 kn0 k f r pf M H|pv0 kn0 k v p r pf M H|pv0 kn0 k v f r pf M Hk H
                |pv0 kn0 k v f r pf M H1 H2|pv0 kn0 k v p r pf M H|pv0 kn0 k P f r pf M H1 H2|pv0 kn0 k P v p r pf M Pv H];
    cbn; try (split; assumption).
  - split; [eapply knows_upd_priv; eauto|]. apply agree_upd_other; [exact A|]. rewrite M. intro X. inversion X. contradiction.
  - split; [apply knows_upd_other; [exact K|apply memo_idem, M]|]. apply agree_upd_other; [exact A|]. rewrite M. discriminate.
  - split; [eapply knows_upd_multi; eauto|]. apply agree_upd_other; [exact A|]. rewrite M. discriminate.
Qed.

(* what the thread computes and leaves alone, from any store it is consistent with *)
Lemma solo_okp : forall i pv kn (p : prog V R) r pf, okp i pv kn p r pf ->
  forall s, consistentc s -> knows kn s -> agree_priv i s pv ->
  fst (solo p s) = r /\ forall k, cls k = Priv i -> snd (solo p s) k = pf k.
Proof.
  intros i pv kn p r pf H.
  induction H as [pv kn r|pv kn k f r pf M H IH|pv kn k f r pf M H IH|pv kn k v p r pf M H IH|pv kn k v f r pf M Hk H IH
                 |pv kn k v f r pf M H1 IH1 H2 IH2|pv kn k v p r pf M H IH|pv kn k P f r pf M H1 IH1 H2 IH2
                 |pv kn k P v p r pf M Pv H IH]; intros s C K A; cbn.
  - split; [reflexivity|]. intros k Hk. apply A, Hk.
  - pose proof (C k) as Ck. rewrite M in Ck. rewrite Ck. apply IH; assumption.
  - rewrite (A k M). apply IH; assumption.
  - apply IH; [eapply consistentc_upd_priv; eauto|eapply knows_upd_priv; eauto|apply agree_upd_same, A].
  - destruct (K k Hk) as [v' [M' S']]. rewrite S'. apply memo_idem in M. assert (v' = v) by congruence. subst v'.
    apply IH; assumption.
  - pose proof (C k) as Ck. rewrite M in Ck. destruct Ck as [E|E]; rewrite E.
    + apply IH1; assumption.
    + apply IH2; try assumption. eapply knows_add_present; eauto. apply memo_idem, M.
  - apply IH; [apply consistentc_upd_idem; assumption|apply knows_upd; [exact K|apply memo_idem, M]|].
    apply agree_upd_other; [exact A|]. rewrite M. discriminate.
  - pose proof (C k) as Ck. rewrite M in Ck. destruct Ck as [E|[v [Pv E]]]; rewrite E.
    + apply IH1; assumption.
    + apply (IH2 v Pv); assumption.
  - apply IH; [eapply consistentc_upd_multi; eauto|eapply knows_upd_multi; eauto|].
    apply agree_upd_other; [exact A|]. rewrite M. discriminate.
Qed.

(* the log entry of a step is legal *)
Lemma step_log_legal : forall i pv kn (p : prog V R) r pf k, okp i pv kn p r pf -> wrote p = Some k -> log_legal cls (i, k).
Proof.
  intros i pv kn p r pf k0 H W. unfold log_legal. cbn.
  destruct H; cbn in W; try discriminate; inversion W; subst.
  - rewrite H. reflexivity.
  - rewrite H. exact I.
  - rewrite H. exact I.
Qed.

Section Run.
Variable ps : pool V R.
Variable rs : nat -> R.
Variable pfs : nat -> store V.
Variable s0 : store V.
Hypothesis Hok : forall i, okp i s0 nothing (ps i) (rs i) (pfs i).
Hypothesis Hs0 : consistentc s0.

Definition finv (c : config V R) : Prop :=
  (forall i, exists pv kn, okp i pv kn (c_pool c i) (rs i) (pfs i) /\ knows kn (c_store c) /\ agree_priv i (c_store c) pv) /\
  consistentc (c_store c) /\
  Forall (log_legal cls) (c_log c).

Lemma finv_init : finv (init ps s0).
Proof.
  split; [|split; [exact Hs0|constructor]].
  intro i. exists s0, nothing. split; [apply Hok|]. split; [intros k H; discriminate|intros k H; reflexivity].
Qed.

Lemma finv_step : forall j c, finv c -> finv (step j c).
Proof.
  intros j c [Hp [Hc Hl]]. destruct (Hp j) as [pvj [knj [Hj [Kj Aj]]]].
  pose proof (step1_okp _ _ _ _ _ _ _ Hj Hc Kj Aj) as [C2 [pv' [kn' [H1 [K1 A1]]]]].
  split; [|split].
  - intro i. rewrite step_store. destruct (Nat.eq_dec i j) as [E|E].
    + subst i. rewrite step_pool_same. exists pv', kn'. repeat split; assumption.
    + rewrite step_pool_other by assumption. destruct (Hp i) as [pvi [kni [Hi [Ki Ai]]]].
      exists pvi, kni. split; [exact Hi|].
      eapply step1_other; eauto.
  - rewrite step_store. exact C2.
  - unfold step. cbn [c_log]. destruct (wrote (c_pool c j)) as [k|] eqn:W; [|exact Hl].
    constructor; [|exact Hl]. eapply step_log_legal; [exact Hj|exact W].
Qed.

Lemma finv_run : forall sched c, finv c -> finv (exec sched c).
Proof. induction sched as [|i sched IH]; intros c H; [exact H|]. rewrite run_cons. apply IH, finv_step, H. Qed.

(* THE THEOREM (any classification of the locations): for every schedule, every finished thread holds its solo
   result and has left in its own locations what it leaves there alone; frozen locations never change; Idem
   locations hold nothing or their one value; every write logged is an Idem write or a write of the owner. *)
Theorem footprint_confluence : forall sched,
  let c := exec sched (init ps s0) in
  (forall i r, result c i = Some r ->
     r = fst (solo (ps i) s0) /\ forall k, cls k = Priv i -> c_store c k = snd (solo (ps i) s0) k) /\
  (forall k, cls k = Frozen -> c_store c k = s0 k) /\
  consistentc (c_store c) /\
  Forall (log_legal cls) (c_log c).
Proof.
  intros sched c. pose proof (finv_run sched _ finv_init) as [Hp [Hc Hl]]. fold c in Hp, Hc, Hl.
  split; [|split; [|split]].
  - intros i r H. unfold result in H. destruct (Hp i) as [pv [kn [Hi [Ki Ai]]]].
    destruct (c_pool c i) eqn:E; try discriminate. inversion H; subst r0.
    inversion Hi; subst.
    assert (knows nothing s0) as K0 by (intros k Hk; discriminate).
    assert (agree_priv i s0 s0) as A0 by (intros k Hk; reflexivity).
    destruct (solo_okp _ _ _ _ _ _ (Hok i) s0 Hs0 K0 A0) as [S1 S2].
    split; [symmetry; exact S1|]. intros k Hk. rewrite (S2 k Hk). apply Ai, Hk.
  - intros k Hk. pose proof (Hc k) as A. pose proof (Hs0 k) as B. rewrite Hk in A, B. congruence.
  - exact Hc.
  - exact Hl.
Qed.

End Run.

(* the memo discipline of Interleave.v is the special case without Priv locations *)
Lemma ok_okp : forall i pv kn (p : prog V R) r,
  (forall k, memo k = None -> cls k = Frozen) ->
  ok memo base kn p r -> okp i pv kn p r pv.
Proof.
  intros i pv kn p r Hf H. induction H as [kn r|kn k f r M H IH|kn k v f r M Hk H IH|kn k v f r M H1 IH1 H2 IH2|kn k v p r M H IH].
  - constructor.
  - apply p_get_frozen; [apply Hf, M|exact IH].
  - eapply p_get_known; [apply memo_some, M|exact Hk|exact IH].
  - eapply p_get_idem; [apply memo_some, M|exact IH1|exact IH2].
  - eapply p_put_idem; [apply memo_some, M|exact IH].
Qed.

End DiscP.

(* ------------------------------------------------------------------------------------------ *)
(* confluent patterns                                                                          *)
(* ------------------------------------------------------------------------------------------ *)
Section PatOk.
Variable V R : Type.
Variable memo : N -> option V.
Variable base : store V.
Variable f : N -> list (option V) -> V.
Variable err : R.
Notation ok := (ok memo base).
Notation table_ok := (table_ok V memo base f).

Definition frozen (ks : list N) : Prop := forall x, In x ks -> memo x = None.

Lemma ok_cta_noreadback : forall k ks g (cont : V -> prog V R) kn r,
  memo k = Some (g (map base ks)) -> frozen ks ->
  (forall kn', ok kn' (cont (g (map base ks))) r) -> ok kn (cta_noreadback k ks g cont) r.
Proof.
  intros k ks g cont kn r M Hm Hc. unfold cta_noreadback.
  eapply ok_get_memo; [exact M| |apply Hc].
  apply ok_read_all; [exact Hm|]. cbn [rev app].
  eapply ok_put; [exact M|apply Hc].
Qed.

Lemma ok_idem_store : forall k ks g (cont : V -> prog V R) kn r,
  memo k = Some (g (map base ks)) -> frozen ks ->
  (forall kn', ok kn' (cont (g (map base ks))) r) -> ok kn (idem_store k ks g cont) r.
Proof.
  intros k ks g cont kn r M Hm Hc. unfold idem_store.
  apply ok_read_all; [exact Hm|]. cbn [rev app]. eapply ok_put; [exact M|apply Hc].
Qed.

Lemma ok_peek : forall k ks g (cont : V -> prog V R) kn r,
  memo k = Some (g (map base ks)) -> frozen ks ->
  (forall kn', ok kn' (cont (g (map base ks))) r) -> ok kn (peek k ks g cont) r.
Proof.
  intros k ks g cont kn r M Hm Hc. unfold peek.
  eapply ok_get_memo; [exact M| |apply Hc].
  apply ok_read_all; [exact Hm|]. cbn [rev app]. apply Hc.
Qed.

Lemma ok_frozen_reads : forall ks (cont : list (option V) -> prog V R) kn r,
  frozen ks -> ok kn (cont (map base ks)) r -> ok kn (read_all ks [] cont) r.
Proof. intros ks cont kn r Hm H. apply ok_read_all; [exact Hm|exact H]. Qed.

Lemma ok_memo_fold : forall l acc (cont : list V -> prog V R) kn r,
  table_ok l -> (forall kn', ok kn' (cont (rev acc ++ pure_vals f base l)) r) -> ok kn (memo_fold f err l acc cont) r.
Proof.
  induction l as [|[k ks] l IH]; intros acc cont kn r T Hc; cbn [memo_fold].
  - specialize (Hc kn). cbn in Hc. rewrite app_nil_r in Hc. exact Hc.
  - destruct (T k ks (or_introl eq_refl)) as [M Hm].
    apply ok_memo_compute; [exact M|exact Hm|].
    intro kn'. apply IH; [intros k' ks' Hin; apply T; right; exact Hin|].
    intro kn''. specialize (Hc kn''). cbn [rev]. rewrite <- app_assoc. exact Hc.
Qed.

Lemma ok_peek_fold : forall l acc (cont : list V -> prog V R) kn r,
  table_ok l -> (forall kn', ok kn' (cont (rev acc ++ pure_vals f base l)) r) -> ok kn (peek_fold f l acc cont) r.
Proof.
  induction l as [|[k ks] l IH]; intros acc cont kn r T Hc; cbn [peek_fold].
  - specialize (Hc kn). cbn in Hc. rewrite app_nil_r in Hc. exact Hc.
  - destruct (T k ks (or_introl eq_refl)) as [M Hm].
    apply ok_peek; [exact M|exact Hm|].
    intro kn'. apply IH; [intros k' ks' Hin; apply T; right; exact Hin|].
    intro kn''. specialize (Hc kn''). cbn [rev]. rewrite <- app_assoc. exact Hc.
Qed.

(* ---------------------------------------------------------------------------------------- *)
(* the operations of the property text are disciplined, with a pure function as result        *)
(* ---------------------------------------------------------------------------------------- *)
Inductive opdesc :=
| OStatistics (kS : N) (ks : list N) (out : V -> R)
| OCount (bounds : list (N * list N)) (nrows : list N) (out : list V -> list (option V) -> R)
| ORead (bounds : list (N * list N)) (chunks : list V -> list N) (out : list V -> list (option V) -> R)
| ODerivedRead (attrs : list N) (bounds : list (N * list N)) (chunks : list V -> list N)
               (out : list (option V) -> list V -> list (option V) -> R)
| OIter (rgs : list (list N * list (N * list N) * list N))
        (out : list (list (option V) * list V * list (option V)) -> R)
| OPickle (attrs : list N) (memos : list (N * list N)) (out : list (option V) -> list V -> R).

Definition prog_of (o : opdesc) : prog V R :=
  match o with
  | OStatistics kS ks out => op_statistics f err kS ks out
  | OCount b n out => op_count f err b n out
  | ORead b c out => op_read f err b c out
  | ODerivedRead a b c out => op_head f err a b c out
  | OIter rgs out => op_iter f err rgs [] out
  | OPickle a m out => op_pickle f a m out
  end.

Definition iter_pure (rgs : list (list N * list (N * list N) * list N)) : list (list (option V) * list V * list (option V)) :=
  map (fun t => (map base (fst (fst t)), pure_vals f base (snd (fst t)), map base (snd t))) rgs.

Definition pure_of (o : opdesc) : R :=
  match o with
  | OStatistics kS ks out => out (f kS (map base ks))
  | OCount b n out => out (pure_vals f base b) (map base n)
  | ORead b c out => out (pure_vals f base b) (map base (c (pure_vals f base b)))
  | ODerivedRead a b c out => out (map base a) (pure_vals f base b) (map base (c (pure_vals f base b)))
  | OIter rgs out => out (iter_pure rgs)
  | OPickle a m out => out (map base a) (pure_vals f base m)
  end.

Definition op_wf (o : opdesc) : Prop :=
  match o with
  | OStatistics kS ks _ => memo kS = Some (f kS (map base ks)) /\ frozen ks
  | OCount b n _ => table_ok b /\ frozen n
  | ORead b c _ => table_ok b /\ frozen (c (pure_vals f base b))
  | ODerivedRead a b c _ => frozen a /\ table_ok b /\ frozen (c (pure_vals f base b))
  | OIter rgs _ => forall t, In t rgs -> frozen (fst (fst t)) /\ table_ok (snd (fst t)) /\ frozen (snd t)
  | OPickle a m _ => frozen a /\ table_ok m
  end.

Lemma ok_op_iter : forall rgs acc out kn,
  (forall t, In t rgs -> frozen (fst (fst t)) /\ table_ok (snd (fst t)) /\ frozen (snd t)) ->
  ok kn (op_iter f err rgs acc out) (out (rev acc ++ iter_pure rgs)).
Proof.
  induction rgs as [|[[a b] c] rgs IH]; intros acc out kn W; cbn [op_iter].
  - cbn. rewrite app_nil_r. constructor.
  - destruct (W _ (or_introl eq_refl)) as [Fa [Tb Fc]]. cbn in Fa, Tb, Fc.
    apply ok_frozen_reads; [exact Fa|].
    apply ok_memo_fold; [exact Tb|]. intro kn'. cbn [rev app].
    apply ok_frozen_reads; [exact Fc|].
    replace (rev acc ++ iter_pure ((a, b, c) :: rgs))
      with (rev ((map base a, pure_vals f base b, map base c) :: acc) ++ iter_pure rgs)
      by (cbn [rev iter_pure map fst snd]; rewrite <- app_assoc; reflexivity).
    apply IH. intros t Ht. apply W. right. exact Ht.
Qed.

Theorem ok_prog_of : forall o kn, op_wf o -> ok kn (prog_of o) (pure_of o).
Proof.
  intros [kS ks out|b n out|b c out|a b c out|rgs out|a m out] kn W; cbn [prog_of pure_of op_wf] in *.
  - destruct W as [M Fz]. unfold op_statistics. apply ok_memo_compute; [exact M|exact Fz|]. intro kn'. constructor.
  - destruct W as [T Fz]. unfold op_count. apply ok_memo_fold; [exact T|]. intro kn'. cbn [rev app].
    apply ok_frozen_reads; [exact Fz|constructor].
  - destruct W as [T Fz]. unfold op_read. apply ok_memo_fold; [exact T|]. intro kn'. cbn [rev app].
    apply ok_frozen_reads; [exact Fz|constructor].
  - destruct W as [Fa [T Fz]]. unfold op_head, op_derive. apply ok_frozen_reads; [exact Fa|].
    unfold op_read. apply ok_memo_fold; [exact T|]. intro kn'. cbn [rev app].
    apply ok_frozen_reads; [exact Fz|constructor].
  - apply (ok_op_iter rgs [] out kn W).
  - destruct W as [Fa T]. unfold op_pickle. apply ok_frozen_reads; [exact Fa|].
    apply ok_peek_fold; [exact T|]. intro kn'. cbn [rev app]. constructor.
Qed.

(* any number of threads, each issuing any of these operations on the shared handle, under EVERY schedule: every
   finished thread holds the pure function of the immutable data its operation denotes *)
Theorem api_ops_confluent : forall (ops : nat -> opdesc) (s0 : store V),
  (forall i, op_wf (ops i)) -> consistent memo base s0 ->
  forall sched i r,
    result (exec sched (init (fun j => prog_of (ops j)) s0)) i = Some r -> r = pure_of (ops i).
Proof.
  intros ops s0 W C sched i r H.
  pose (ps := fun j => prog_of (ops j)). pose (rs := fun j => pure_of (ops j)).
  assert (Hok : forall j, ok nothing (ps j) (rs j)) by (intro j; apply ok_prog_of, W).
  destruct (memo_confluence V R memo base ps rs s0 Hok C (fun _ _ => true) (fun _ => eq_refl) sched) as [H1 _].
  rewrite (H1 i r H).
  apply (solo_ok V R memo base (ps i) nothing (rs i) s0 (Hok i) C).
  intros k Hk. discriminate.
Qed.

End PatOk.

(* ------------------------------------------------------------------------------------------ *)
(* refuted patterns (each with the interleaving as witness)                                    *)
(* ------------------------------------------------------------------------------------------ *)

(* read-modify-write `x = g(x)` (augmented assignment): whenever g is not idempotent at the initial value, the thread
   that runs second - even with NO preemption inside - reads back something else than it reads back alone *)
Theorem rmw_refuted : forall (V : Type) (g : option V -> V) (s0 : store V) (k : N),
  g (Some (g (s0 k))) <> g (s0 k) ->
  let p : prog V (option V) := rmw k g (fun o => Ret o) in
  exists sched r, result (exec sched (init (fun _ => p) s0)) 1 = Some r /\ r <> fst (solo p s0).
Proof.
  intros V g s0 k Hg p. exists [0; 0; 0; 1; 1; 1]. eexists. split.
  - unfold p, rmw, exec, init, result. cbn. unfold upd. rewrite !N.eqb_refl. reflexivity.
  - unfold p, rmw. cbn. unfold upd. rewrite !N.eqb_refl. intro X. inversion X. contradiction.
Qed.

Definition bump (o : option N) : N := match o with Some x => N.succ x | None => 1%N end.
Definition two {R} (p q : prog N R) : pool N R := fun i => match i with 0 => p | _ => q end.
Definition empty : store N := fun _ => None.

(* ... and with a preemption between load and store an update is lost: `x += 1` from two threads leaves 1, not 2 *)
Lemma rmw_lost_update :
  let p : prog N (option N) := rmw 5%N bump (fun o => Ret o) in
  c_store (exec [0; 1; 0; 1; 0; 1] (init (two p p) empty)) 5%N = Some 1%N /\
  c_store (exec [0; 0; 0; 1; 1; 1] (init (two p p) empty)) 5%N = Some 2%N /\
  (* interleaved, both stores are `absent -> 1` / `1 again`: the loss is invisible to a per-write classification;
     run one after the other the second store is a destructive one - the pattern is non-idempotent either way *)
  kinds N.eqb [0; 1; 0; 1] (init (two p p) empty) = [KRead; KRead; KMemoWrite; KMemoWrite] /\
  In KDestructiveWrite (kinds N.eqb [0; 0; 0; 1; 1] (init (two p p) empty)).
Proof. vm_compute. repeat split; try reflexivity. do 4 right. left; reflexivity. Qed.

(* set-and-restore (old = x; x = tmp; ...; x = old): a reader sees the temporary value, and two crossing
   set-restore sections leave a foreign value behind *)
Definition rd (k : N) : prog N (option N) := Get k (fun o => Ret o).
Lemma set_restore_refuted :
  let s0 : store N := upd empty 5%N 10%N in
  let a : prog N (option N) := set_restore 5%N 99%N 0%N (fun cur => Ret cur) in
  let b : prog N (option N) := set_restore 5%N 77%N 0%N (fun cur => Ret cur) in
  result (exec [0; 0; 1] (init (two a (rd 5%N)) s0)) 1 = Some (Some 99%N) /\
  fst (solo (rd 5%N) s0) = Some 10%N /\
  In KDestructiveWrite (kinds N.eqb [0; 0] (init (two a (rd 5%N)) s0)) /\
  (* crossing sections: a saves 10, b saves a's temporary, a restores, b restores a's temporary *)
  c_store (exec [0; 0; 1; 1; 0; 0; 1; 1] (init (two a b) s0)) 5%N = Some 99%N /\
  result (exec [0; 0; 1; 1; 0; 0; 1; 1] (init (two a b) s0)) 0 = Some (Some 77%N) /\
  fst (solo a s0) = Some 99%N.
Proof. vm_compute. repeat split; try reflexivity. right; left; reflexivity. Qed.

(* publish-then-update (x = raw; x = conv(raw) under one absence test): a second thread that finds the key present
   uses the raw value *)
Lemma publish_update_refuted :
  let p : prog N N := publish_update 7%N 1000%N 42%N (fun v => Ret v) in
  result (exec [0; 0; 1] (init (two p p) empty)) 1 = Some 1000%N /\
  fst (solo p empty) = 42%N /\
  In KDestructiveWrite (kinds N.eqb [0; 0; 0] (init (two p p) empty)).
Proof. vm_compute. repeat split; try reflexivity. right; right; left; reflexivity. Qed.

(* a scratch slot shared by two threads that put different content into it *)
Lemma scratch_refuted :
  let a : prog N (option N) := scratch 3%N 11%N (fun o => Ret o) in
  let b : prog N (option N) := scratch 3%N 22%N (fun o => Ret o) in
  result (exec [0; 1; 0] (init (two a b) empty)) 0 = Some (Some 22%N) /\
  fst (solo a empty) = Some 11%N /\
  In KDestructiveWrite (kinds N.eqb [0; 1] (init (two a b) empty)).
Proof. vm_compute. repeat split; try reflexivity. right; left; reflexivity. Qed.

(* the static site condition, spelled out *)
Lemma site_static_ok_spec : forall s, site_static_ok s = true ->
  s_import s = true \/ base_static_shared (s_base s) = false \/ pat_refuted (s_pat s) = false.
Proof.
  intros s H. unfold site_static_ok in H.
  destruct (s_import s); [left; reflexivity|].
  destruct (base_static_shared (s_base s)); [|right; left; reflexivity].
  right; right. cbn in H. destruct (pat_refuted (s_pat s)); [discriminate|reflexivity].
Qed.

Lemma confluent_not_refuted : forall p, pat_confluent p = true -> pat_refuted p = false.
Proof. intros []; cbn; intro H; try discriminate; reflexivity. Qed.

(* ------------------------------------------------------------------------------------------ *)
(* deletion                                                                                    *)
(* ------------------------------------------------------------------------------------------ *)
Section DelP.
Variable W R : Type.
Variable cls : N -> lclass (option W).
Variable base : store (option W).
Notation okp := (okp cls base).

Lemma okp_read_frozen : forall i ks acc (cont : list (option (option W)) -> prog (option W) R) pv kn r pf,
  (forall x, In x ks -> cls x = Frozen) ->
  okp i pv kn (cont (rev acc ++ map base ks)) r pf -> okp i pv kn (read_all ks acc cont) r pf.
Proof.
  intros i. induction ks as [|k ks IH]; intros acc cont pv kn r pf Hm H; cbn [read_all].
  - cbn in H. rewrite app_nil_r in H. exact H.
  - apply p_get_frozen; [apply Hm; left; reflexivity|].
    apply IH; [intros x Hx; apply Hm; right; exact Hx|].
    cbn [rev]. rewrite <- app_assoc. exact H.
Qed.

(* invalidation of a cache location is a legal action of ANY thread ... *)
Lemma okp_del_cache : forall i k w (p : prog (option W) R) pv kn r pf,
  cls k = Multi (cacheP w) -> okp i pv kn p r pf -> okp i pv kn (Del k p) r pf.
Proof. intros. unfold Del. eapply p_put_multi; [eassumption|left; reflexivity|assumption]. Qed.

(* ... and the no-read-back use of the cache copes with it: whatever it finds, it continues with the one value *)
Lemma okp_use_cache : forall i k ks g (cont : W -> prog (option W) R) pv kn r pf,
  cls k = Multi (cacheP (g (map base ks))) -> (forall x, In x ks -> cls x = Frozen) ->
  (forall kn', okp i pv kn' (cont (g (map base ks))) r pf) ->
  okp i pv kn (use_cache k ks g cont) r pf.
Proof.
  intros i k ks g cont pv kn r pf M Fz Hc. unfold use_cache, GetV.
  assert (Hcomp : okp i pv kn (read_all ks [] (fun vals => SetV k (g vals) (cont (g vals)))) r pf).
  { apply okp_read_frozen; [exact Fz|]. cbn [rev app]. unfold SetV.
    eapply p_put_multi; [exact M|right; reflexivity|apply Hc]. }
  eapply p_get_multi; [exact M| |].
  - cbn. exact Hcomp.
  - intros v [E|E]; subst v; cbn; [exact Hcomp|apply Hc].
Qed.

(* deleting a location that is only ever deleted (pop of a key nobody sets): the tombstone is its one value *)
Lemma okp_del_only : forall i k (p : prog (option W) R) pv kn r pf,
  cls k = Idem None -> okp i pv (addk k kn) p r pf -> okp i pv kn (Del k p) r pf.
Proof. intros. unfold Del. eapply p_put_idem; eassumption. Qed.

Lemma okp_get_del_only : forall i k (f : option W -> prog (option W) R) pv kn r pf,
  cls k = Idem None -> (forall kn', okp i pv kn' (f None) r pf) -> okp i pv kn (GetV k f) r pf.
Proof. intros i k f pv kn r pf M H. unfold GetV. eapply p_get_idem; [exact M| |]; cbn; apply H. Qed.

(* invalidators and no-read-back users of one cache, any number of each, EVERY schedule: every finished user holds
   out (the one value), every finished invalidator its constant *)
Theorem del_invalidate_confluent : forall (k : N) (ks : list N) (g : list (option (option W)) -> W) (out : W -> R) (r0 : R)
  (is_user : nat -> bool) (s0 : store (option W)),
  cls k = Multi (cacheP (g (map base ks))) -> (forall x, In x ks -> cls x = Frozen) ->
  consistentc cls base s0 ->
  let ps : pool (option W) R := fun i => if is_user i then use_cache k ks g (fun w => Ret (out w)) else Del k (Ret r0) in
  forall sched i r, result (exec sched (init ps s0)) i = Some r ->
    r = (if is_user i then out (g (map base ks)) else r0).
Proof.
  intros k ks g out r0 is_user s0 M Fz C ps sched i r H.
  pose (rs := fun j => if is_user j then out (g (map base ks)) else r0).
  assert (Hok : forall j, okp j s0 nothing (ps j) (rs j) s0).
  { intro j. unfold ps, rs. destruct (is_user j).
    - apply okp_use_cache; [exact M|exact Fz|]. intro kn'. constructor.
    - eapply okp_del_cache; [exact M|constructor]. }
  destruct (footprint_confluence (option W) R cls base ps rs (fun _ => s0) s0 Hok C sched) as [H1 _].
  destruct (H1 i r H) as [E _]. rewrite E.
  assert (K0 : knows (memo_of cls) nothing s0) by (intros x Hx; discriminate).
  assert (A0 : agree_priv cls i s0 s0) by (intros x Hx; reflexivity).
  destruct (solo_okp (option W) R cls base i s0 nothing (ps i) (rs i) s0 (Hok i) s0 C K0 A0) as [S1 _].
  exact S1.
Qed.

End DelP.

(* refuted: the read-back use (hasattr, then getitem) against an invalidator - the C20-6 shape: KeyError *)
Lemma del_readback_refuted :
  let s0 : store (option N) := upd (fun _ => None) 7%N (Some 42%N) in
  let reader : prog (option N) N := use_cache_readback 7%N [] (fun _ => 42%N) 999%N (fun w => Ret w) in
  let deleter : prog (option N) N := Del 7%N (Ret 0%N) in
  result (exec [0; 1; 0] (init (fun i => match i with 0 => reader | _ => deleter end) s0)) 0 = Some 999%N /\
  fst (solo reader s0) = 42%N /\
  (* the no-read-back use under the same schedule is fine *)
  result (exec [0; 1; 0] (init (fun i => match i with 0 => use_cache 7%N [] (fun _ => 42%N) (fun w => Ret w) | _ => deleter end) s0)) 0
    = Some 42%N /\
  (* and the deletion is a destructive write in the sense of classify *)
  In KDestructiveWrite (kinds (fun a b : option N => match a, b with Some x, Some y => N.eqb x y | None, None => true | _, _ => false end)
                              [0; 1] (init (fun i => match i with 0 => reader | _ => deleter end) s0)).
Proof. vm_compute. repeat split; try reflexivity. right; left; reflexivity. Qed.

(* an observed removal is never accepted for a non-volatile location, and is classified ERemove *)
Lemma removal_rejected : forall e, e_new e = None -> ev_ok e = false.
Proof. intros e H. unfold ev_ok. rewrite H. destruct (e_old e); reflexivity. Qed.

Lemma removal_kind : forall e a, e_old e = Some a -> e_new e = None -> ev_kind e = ERemove.
Proof. intros e a H1 H2. unfold ev_kind. rewrite H1, H2. reflexivity. Qed.

Theorem footprint_ok_vol_sound : forall vol evs, footprint_ok_vol vol evs = true ->
  exists memo : N -> option N, forall e, In e evs -> vol (e_key e) = false -> ev_legal memo e /\ pat_refuted (e_pat e) = false.
Proof.
  intros vol evs H. unfold footprint_ok_vol in H. destruct (footprint_ok_sound _ H) as [memo Hm].
  exists memo. intros e He Hv. apply Hm. apply filter_In. split; [exact He|]. rewrite Hv. reflexivity.
Qed.

(* a check-then-act store whose value is NOT a function of the key (it also depends on an input x the key does not name):
   the thread that comes second uses the first one's value *)
Lemma key_not_determining_refuted :
  let user (x : N) : prog N N := cta_noreadback 7%N [] (fun _ => (100 + x)%N) (fun v => Ret v) in
  result (exec [1; 1; 0] (init (two (user 1%N) (user 2%N)) empty)) 0 = Some 102%N /\
  fst (solo (user 1%N) empty) = 101%N /\
  (* per-write classification sees nothing: both stores are publications of an absent key or never happen *)
  kinds N.eqb [1; 1; 0] (init (two (user 1%N) (user 2%N)) empty) = [KRead; KMemoWrite; KRead].
Proof. vm_compute. repeat split; reflexivity. Qed.

(* ------------------------------------------------------------------------------------------ *)
(* iteration over the key set of a shared container                                            *)
(* ------------------------------------------------------------------------------------------ *)
Lemma bools_eqb_refl : forall l, bools_eqb l l = true.
Proof. induction l as [|x l IH]; cbn; [reflexivity|]. rewrite IH. destruct x; reflexivity. Qed.

Section IterP.
Variable V R : Type.
Variable memo : N -> option V.
Variable base : store V.

(* an iteration over locations that nobody publishes into (no key of the container is a memo key - all its keys pre-exist,
   whatever is stored again into them) is disciplined: it always goes through *)
Lemma ok_iterate_frozen : forall ks (okv errv : R) kn,
  (forall x, In x ks -> memo x = None) -> ok memo base kn (iterate ks okv errv) okv.
Proof.
  intros ks okv errv kn Fz. unfold iterate, iter_keys.
  apply ok_read_all; [exact Fz|]. cbn [rev app].
  apply ok_read_all; [exact Fz|]. cbn [rev app].
  rewrite bools_eqb_refl. constructor.
Qed.
End IterP.

(* refuted: an iterator of the container {7, 8} (key 8 pre-exists) against the idempotent publication of the NEW key 7
   (a memo: confluent for every reader of the key - C20_check_then_act_confluent).  Schedule: the iterator takes its first
   look, the publisher stores, the iterator goes on: RuntimeError, although alone it goes through; every single store is a
   memo write.  With key 7 pre-existing (stored again with the same value) the same schedule is fine. *)
Lemma iter_vs_new_key_refuted :
  let s0 : store N := upd empty 8%N 5%N in
  let it : prog N N := iterate [7; 8]%N 0%N 1%N in
  let pub : prog N N := cta_noreadback 7%N [] (fun _ => 42%N) (fun v => Ret v) in
  result (exec [0; 0; 1; 1; 0; 0] (init (two it pub) s0)) 0 = Some 1%N /\
  fst (solo it s0) = 0%N /\
  result (exec [0; 0; 1; 1; 0; 0] (init (two it pub) s0)) 1 = Some 42%N /\
  ~ In KDestructiveWrite (kinds N.eqb [0; 0; 1; 1; 0; 0] (init (two it pub) s0)) /\
  (* the key already there: publication into a pre-existing key leaves the key set alone *)
  result (exec [0; 0; 1; 1; 0; 0] (init (two it (Put 7%N 42%N (Ret 42%N))) (upd s0 7%N 42%N))) 0 = Some 0%N.
Proof.
  vm_compute. repeat split; try reflexivity.
  intro H. repeat (destruct H as [H|H]; [discriminate|]). exact H.
Qed.
