(* Round trip of the SPEC RLE / bit-packing hybrid: for every width, every mixture of runs and every
   number n of wanted values, decoding the encoded stream returns the first n values. *)
From Coq Require Import NArith ZArith Arith List Lia Bool.
From Pq Require Import Base.Bytes Base.Bits Base.ListX Proofs.BytesProofs Proofs.ListXProofs Proofs.CodecProofs
  Codec.Varint Codec.Bitpack Codec.Hybrid.
Import ListNotations.
Open Scope N_scope.

Definition run_wf (w : N) (r : hrun) : Prop :=
  match r with RLE c v => v < 2 ^ w | BP vs => Forall (fun v => v < 2 ^ w) vs end.
Definition allvals (rs : list hrun) : list N := concat (map run_vals rs).

(* ---- small facts ---- *)
Lemma zeros_length n : length (zeros n) = n.
Proof. induction n; cbn; auto. Qed.

Lemma zeros_ok w n : Forall (fun v => v < 2 ^ w) (zeros n).
Proof. induction n; cbn; constructor; auto. apply pow2_pos. Qed.

Ltac Zify.zify_post_hook ::= Z.to_euclidean_division_equations.
Lemma pad8_length vs : exists g : nat, length (pad8 vs) = (8 * g)%nat.
Proof.
  unfold pad8. rewrite app_length, zeros_length.
  pose proof (Nat.div_mod (length vs) 8 ltac:(lia)) as E.
  pose proof (Nat.mod_upper_bound (length vs) 8 ltac:(lia)) as B.
  set (q := (length vs / 8)%nat) in *. set (r := (length vs mod 8)%nat) in *.
  exists (q + (if Nat.eqb r 0 then 0 else 1))%nat. rewrite E.
  do 8 (destruct r as [|r]; [cbn; lia|]). lia.
Qed.

Lemma vbytes_bound w : w <= 8 * vbytes w.
Proof. unfold vbytes. lia. Qed.

Lemma nbytes_groups g w : bp_nbytes w (8 * g) = g * w.
Proof. unfold bp_nbytes. lia. Qed.

Lemma div8 g : (8 * g) / 8 = g.
Proof. lia. Qed.

Lemma odd_header g : (2 * g + 1) mod 2 = 1 /\ (2 * g + 1) / 2 = g.
Proof. lia. Qed.
Lemma even_header c : (2 * c) mod 2 = 0 /\ (2 * c) / 2 = c.
Proof. lia. Qed.
Ltac Zify.zify_post_hook ::= idtac.

Lemma pad8_ok w vs : Forall (fun v => v < 2 ^ w) vs -> Forall (fun v => v < 2 ^ w) (pad8 vs).
Proof. intros H. unfold pad8. apply Forall_app. split; [exact H|apply zeros_ok]. Qed.

Lemma rle_value_fits w v : v < 2 ^ w -> v < 256 ^ N.of_nat (N.to_nat (vbytes w)).
Proof.
  intros H. rewrite N2Nat.id, pow256. eapply N.lt_le_trans; [exact H|].
  apply N.pow_le_mono_r; [lia|apply vbytes_bound].
Qed.

Lemma firstn_seq' k n : (k <= n)%nat -> firstn k (seq 0 n) = seq 0 k.
Proof.
  intros H. replace n with (k + (n - k))%nat by lia. rewrite seq_app, firstn_app, seq_length.
  rewrite Nat.sub_diag. cbn [firstn]. rewrite app_nil_r.
  rewrite firstn_all2 by (rewrite seq_length; lia). reflexivity.
Qed.

Lemma bp_dec_firstn w k n b : k <= n -> bp_dec w k b = firstn (N.to_nat k) (bp_dec w n b).
Proof.
  intros H. unfold bp_dec. rewrite !bp_unpack_ref. unfold bp_dec_ref.
  rewrite firstn_map, firstn_seq' by lia. reflexivity.
Qed.

Lemma bp_dec_prefix w p k rest :
  Forall (fun v => v < 2 ^ w) p -> k <= N.of_nat (length p) ->
  bp_dec w k (bp_enc w p ++ rest) = firstn (N.to_nat k) p.
Proof.
  intros Hp Hk. rewrite (bp_dec_firstn w k (N.of_nat (length p))) by exact Hk.
  now rewrite bp_roundtrip.
Qed.

Lemma takeN_app_exact {A} (a b : list A) : takeN (N.of_nat (length a)) (a ++ b) = a.
Proof. rewrite takeN_ok, Nat2N.id, firstn_app, Nat.sub_diag, firstn_all. cbn. apply app_nil_r. Qed.

Lemma dropN_app_exact {A} (a b : list A) : dropN (N.of_nat (length a)) (a ++ b) = b.
Proof. rewrite dropN_ok, Nat2N.id, skipn_app, Nat.sub_diag, skipn_all. reflexivity. Qed.

Lemma rev_repeat {A} (v : A) k : rev (repeat v k) = repeat v k.
Proof.
  induction k as [|k IH]; [reflexivity|]. cbn [repeat rev]. rewrite IH.
  clear IH. induction k as [|k IH]; [reflexivity|]. cbn [repeat app]. now rewrite IH.
Qed.

Lemma firstn_repeat {A} (v : A) k c : (k <= c)%nat -> firstn k (repeat v c) = repeat v k.
Proof.
  revert c; induction k as [|k IH]; intros c H; [reflexivity|].
  destruct c as [|c]; [lia|]. cbn [repeat firstn]. f_equal. apply IH. lia.
Qed.

Lemma run_enc_nonempty w r : (1 <= length (run_enc w r))%nat.
Proof.
  destruct r as [c v|vs]; cbn [run_enc]; rewrite app_length;
    match goal with |- context [uleb_enc ?x] => pose proof (uleb_len_pos x) end; lia.
Qed.

Lemma hyb_enc_length_ge w rs : (length rs <= length (hyb_enc w rs))%nat.
Proof.
  unfold hyb_enc. induction rs as [|r rs IH]; [cbn; lia|].
  cbn [map concat length]. rewrite app_length. pose proof (run_enc_nonempty w r). lia.
Qed.

Lemma allvals_cons r rs : allvals (r :: rs) = run_vals r ++ allvals rs.
Proof. reflexivity. Qed.

(* ---- the decoder loop on an encoded stream ---- *)
Lemma hyb_dec_f_enc strict w : forall rs clock n acc rest,
  Forall (run_wf w) rs -> (length rs <= length clock)%nat ->
  (N.to_nat n <= length (allvals rs))%nat ->
  exists r, hyb_dec_f clock strict w n (hyb_enc w rs ++ rest) acc
            = Some (rev acc ++ firstn (N.to_nat n) (allvals rs), r).
Proof.
  induction rs as [|r1 rs IH]; intros clock n acc rest Hwf Hclk Hn.
  - cbn [allvals map concat length] in Hn. assert (n = 0) by lia. subst n.
    destruct clock; cbn [hyb_dec_f N.eqb]; eexists; rewrite rev_append_rev; reflexivity.
  - destruct (N.eqb_spec n 0) as [E0|E0].
    { subst n. exists (hyb_enc w (r1 :: rs) ++ rest).
      destruct clock; cbn [hyb_dec_f N.eqb]; rewrite rev_append_rev; reflexivity. }
    destruct clock as [|c0 clock]; [cbn [length] in Hclk; lia|].
    cbn [length] in Hclk.
    pose proof (Forall_inv Hwf) as Hw1. pose proof (Forall_inv_tail Hwf) as Hwr.
    rewrite allvals_cons in Hn |- *. rewrite app_length in Hn.
    unfold hyb_enc. cbn [map concat]. fold (hyb_enc w rs).
    cbn [hyb_dec_f]. destruct (N.eqb_spec n 0) as [|_]; [contradiction|].
    destruct r1 as [c v|vs]; cbn [run_enc run_vals run_wf] in *.
    + (* RLE run *)
      rewrite <- !app_assoc. rewrite uleb_roundtrip.
      destruct (even_header c) as [Hm Hd]. rewrite Hm, Hd. cbn [N.eqb].
      rewrite le_dec_enc by (apply rle_value_fits; exact Hw1).
      rewrite repeat_length in Hn.
      destruct (IH clock (n - N.min c n) (repN v (N.min c n) acc) rest Hwr ltac:(lia) ltac:(lia)) as [r Hr].
      exists r. rewrite Hr. f_equal. f_equal.
      rewrite repN_ok, rev_app_distr, rev_repeat, <- app_assoc. f_equal.
      rewrite firstn_app, repeat_length.
      destruct (N.le_gt_cases n c) as [Hle|Hgt].
      * replace (N.min c n) with n by lia. replace (N.to_nat (n - n)) with 0%nat by lia.
        replace (N.to_nat n - N.to_nat c)%nat with 0%nat by lia. cbn [firstn].
        rewrite firstn_repeat by lia. reflexivity.
      * replace (N.min c n) with c by lia.
        rewrite (firstn_all2 (n:=N.to_nat n) (repeat v (N.to_nat c))) by (rewrite repeat_length; lia).
        replace (N.to_nat (n - c)) with (N.to_nat n - N.to_nat c)%nat by lia. reflexivity.
    + (* bit-packed run *)
      destruct (pad8_length vs) as [g Hg]. set (p := pad8 vs) in *.
      assert (Hp : Forall (fun v => v < 2 ^ w) p) by (apply pad8_ok; exact Hw1).
      rewrite <- !app_assoc. rewrite uleb_roundtrip.
      rewrite Hg. replace (N.of_nat (8 * g)) with (8 * N.of_nat g) by lia. rewrite div8.
      destruct (odd_header (N.of_nat g)) as [Hm Hd]. rewrite Hm, Hd. cbn [N.eqb].
      assert (Hlen : N.of_nat (length (bp_enc w p)) = N.of_nat g * w).
      { rewrite bp_enc_length, Hg. replace (N.of_nat (8 * g)) with (8 * N.of_nat g) by lia. apply nbytes_groups. }
      set (k := N.min (8 * N.of_nat g) n).
      assert (Hhave : (if strict then lenN (bp_enc w p ++ hyb_enc w rs ++ rest) <? N.of_nat g * w
                       else lenN (bp_enc w p ++ hyb_enc w rs ++ rest) <? bp_nbytes w k) = false).
      { rewrite lenN_ok, app_length, Nat2N.inj_add, Hlen.
        destruct strict; apply N.ltb_ge; [lia|].
        eapply N.le_trans; [|apply N.le_add_r].
        rewrite <- (nbytes_groups (N.of_nat g) w). unfold bp_nbytes.
        apply N.div_le_mono; [lia|]. apply N.add_le_mono_r. apply N.mul_le_mono_r. unfold k. lia. }
      rewrite Hhave. rewrite <- Hlen. rewrite takeN_app_exact, dropN_app_exact.
      rewrite <- (app_nil_r (bp_enc w p)). rewrite bp_dec_prefix by (try exact Hp; unfold k; rewrite Hg; lia).
      destruct (IH clock (n - k) (rev_append (firstn (N.to_nat k) p) acc) rest Hwr ltac:(lia)
                  ltac:(unfold k; rewrite Hg in Hn; lia)) as [r Hr].
      exists r. rewrite Hr. f_equal. f_equal.
      rewrite rev_append_rev, rev_app_distr, rev_involutive, <- app_assoc. f_equal.
      rewrite firstn_app. f_equal.
      * unfold k. destruct (N.le_gt_cases n (8 * N.of_nat g)) as [Hle|Hgt].
        -- replace (N.min (8 * N.of_nat g) n) with n by lia. reflexivity.
        -- replace (N.min (8 * N.of_nat g) n) with (8 * N.of_nat g) by lia.
           rewrite !firstn_all2 by (rewrite Hg; lia). reflexivity.
      * f_equal. unfold k. rewrite Hg. lia.
Qed.

(* MAIN THEOREM: for every width w, every list of well-formed runs, every n up to the number of values
   in the stream, strict or lenient, with anything following: the first n values come back. *)
Theorem hyb_roundtrip strict w rs n rest :
  Forall (run_wf w) rs -> (N.to_nat n <= length (allvals rs))%nat ->
  exists r, hyb_dec strict w n (hyb_enc w rs ++ rest) = Some (firstn (N.to_nat n) (allvals rs), r).
Proof.
  intros Hwf Hn. unfold hyb_dec.
  destruct (hyb_dec_f_enc strict w rs (0 :: hyb_enc w rs ++ rest) n [] rest Hwf) as [r Hr]; [|exact Hn|].
  - cbn [length]. rewrite app_length. pose proof (hyb_enc_length_ge w rs). lia.
  - exists r. exact Hr.
Qed.

(* ... and with the 4-byte length prefix of data-page-v1 levels: the rest is exactly what follows the block *)
Theorem hyb_len_roundtrip strict w rs n rest :
  Forall (run_wf w) rs -> (N.to_nat n <= length (allvals rs))%nat ->
  N.of_nat (length (hyb_enc w rs)) < 2 ^ 32 ->
  hyb_dec_len strict w n (hyb_enc_len w rs ++ rest) = Some (firstn (N.to_nat n) (allvals rs), rest).
Proof.
  intros Hwf Hn Hlen. unfold hyb_dec_len, hyb_enc_len. rewrite <- app_assoc.
  rewrite le_dec_enc by (change (256 ^ N.of_nat 4) with (2 ^ 32); exact Hlen).
  rewrite lenN_ok, app_length.
  destruct (N.ltb_spec (N.of_nat (length (hyb_enc w rs) + length rest)) (N.of_nat (length (hyb_enc w rs)))) as [H|H]; [lia|].
  rewrite takeN_app_exact, dropN_app_exact.
  destruct (hyb_roundtrip strict w rs n [] Hwf Hn) as [r Hr]. rewrite app_nil_r in Hr. rewrite Hr. reflexivity.
Qed.

(* the tail-recursive encoders used by the extracted pqref commands are the specified ones *)
Lemma pad8_x_ok vs : pad8_x vs = pad8 vs.
Proof.
  unfold pad8_x, pad8. rewrite app_tr_ok, lenN_ok. f_equal. f_equal. f_equal. f_equal.
  change 8 with (N.of_nat 8). rewrite <- Nat2N.inj_mod, Nat2N.id. apply Nat.mod_mod. lia.
Qed.

Lemma bp_num_tr_ok w vs : bp_num_tr w vs = bp_num w vs.
Proof.
  unfold bp_num_tr. rewrite rev_append_rev, app_nil_r. rewrite <- fold_left_rev_right, rev_involutive.
  induction vs as [|v r IH]; cbn [fold_right bp_num]; [reflexivity|].
  rewrite IH, shiftl_mul. lia.
Qed.

Lemma le_enc_tr_iter k n acc :
  N.iter k (fun st : N * list N => (N.shiftr (fst st) 8, N.land (fst st) 255 :: snd st)) (n, acc)
  = (n / 256 ^ k, rev (le_enc (N.to_nat k) n) ++ acc).
Proof.
  revert n acc; induction k as [|k IH] using N.peano_ind; intros n acc.
  - cbn. now rewrite N.div_1_r.
  - rewrite N.iter_succ_r, N2Nat.inj_succ. cbn [fst snd le_enc rev].
    rewrite IH. rewrite shiftr_div. change (2 ^ 8) with 256. f_equal.
    + rewrite N.div_div by lia. rewrite <- N.pow_succ_r'. reflexivity.
    + change 255 with (N.ones 8). rewrite N.land_ones. change (2 ^ 8) with 256. now rewrite <- app_assoc.
Qed.

Lemma le_enc_tr_ok k n : le_enc_tr k n = le_enc (N.to_nat k) n.
Proof. unfold le_enc_tr. rewrite le_enc_tr_iter. cbn [snd]. rewrite rev_append_rev, !app_nil_r. apply rev_involutive. Qed.

Lemma bp_enc_x_ok w vs : bp_enc_x w vs = bp_enc w vs.
Proof.
  unfold bp_enc_x, bp_enc, len_tr. fold (lenN vs). now rewrite lenN_ok, le_enc_tr_ok, bp_num_tr_ok.
Qed.

Theorem hyb_enc_x_ok w rs : hyb_enc_x w rs = hyb_enc w rs.
Proof.
  unfold hyb_enc_x, hyb_enc. rewrite concat_tr_ok. f_equal. apply map_ext. intros [c v|vs]; [reflexivity|].
  cbn [run_enc_x run_enc]. now rewrite pad8_x_ok, lenN_ok, bp_enc_x_ok.
Qed.

Theorem hyb_enc_len_x_ok w rs : hyb_enc_len_x w rs = hyb_enc_len w rs.
Proof. unfold hyb_enc_len_x, hyb_enc_len. now rewrite hyb_enc_x_ok, lenN_ok. Qed.

(* the same theorem in the shape used by the page-level proofs (Format files): non-empty runs, n as an N bound *)
Definition run_ok (w : N) (r : hrun) : Prop :=
  match r with
  | RLE c v => 0 < c /\ v < 2 ^ w
  | BP vs => vs <> [] /\ Forall (fun v => v < 2 ^ w) vs
  end.

Lemma run_ok_wf w r : run_ok w r -> run_wf w r.
Proof. destruct r; cbn; tauto. Qed.

Theorem hyb_roundtrip_ok : forall strict w n rs rest,
  Forall (run_ok w) rs -> n <= N.of_nat (length (concat (map run_vals rs))) ->
  exists r, hyb_dec strict w n (hyb_enc w rs ++ rest)
            = Some (firstn (N.to_nat n) (concat (map run_vals rs)), r).
Proof.
  intros strict w n rs rest H Hn. apply hyb_roundtrip.
  - eapply Forall_impl; [|exact H]. apply run_ok_wf.
  - unfold allvals. lia.
Qed.
