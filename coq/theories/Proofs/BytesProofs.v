From Coq Require Import NArith Arith List Lia Bool.
From Pq Require Import Base.Bytes.
Import ListNotations.
Open Scope N_scope.

Lemma le_enc_length k n : length (le_enc k n) = k.
Proof. revert n; induction k as [|k IH]; intros n; cbn; [reflexivity|]. now rewrite IH. Qed.

Lemma le_enc_ok k n : bytes_ok (le_enc k n).
Proof.
  revert n; induction k as [|k IH]; intros n; cbn; constructor.
  - apply N.mod_upper_bound. lia.
  - apply IH.
Qed.

Lemma le2n_le_enc k n : le2n (le_enc k n) = n mod 256 ^ N.of_nat k.
Proof.
  revert n; induction k as [|k IH]; intros n.
  - cbn. now rewrite N.mod_1_r.
  - cbn [le_enc le2n]. rewrite IH.
    replace (N.of_nat (S k)) with (1 + N.of_nat k) by lia.
    rewrite N.pow_add_r, N.pow_1_r.
    rewrite (N.mod_mul_r n 256 (256 ^ N.of_nat k)) by (try apply N.pow_nonzero; lia).
    reflexivity.
Qed.

Lemma le_dec_enc k n rest : n < 256 ^ N.of_nat k ->
  le_dec k (le_enc k n ++ rest) = Some (n, rest).
Proof.
  intros H. unfold le_dec.
  rewrite app_length, le_enc_length.
  replace (Nat.leb k (k + length rest)) with true by (symmetry; apply Nat.leb_le; lia).
  rewrite firstn_app, skipn_app, le_enc_length, Nat.sub_diag.
  rewrite firstn_all2 by (rewrite le_enc_length; lia).
  rewrite skipn_all2 by (rewrite le_enc_length; lia).
  cbn [firstn skipn app]. rewrite app_nil_r.
  rewrite le2n_le_enc, N.mod_small by exact H. reflexivity.
Qed.

Lemma list_eqb_spec {A} (eqb : A -> A -> bool) :
  (forall x y, reflect (x = y) (eqb x y)) -> forall a b, reflect (a = b) (list_eqb eqb a b).
Proof.
  intros He a; induction a as [|x a IH]; intros [|y b]; cbn; try (constructor; congruence).
  destruct (He x y); cbn; [|constructor; congruence].
  destruct (IH b); constructor; congruence.
Qed.

Lemma bytes_eqb_spec a b : reflect (a = b) (bytes_eqb a b).
Proof. apply list_eqb_spec, N.eqb_spec. Qed.
