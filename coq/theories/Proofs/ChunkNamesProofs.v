(* Proofs/ChunkNamesProofs.v — reading by name does not see the order of the chunks inside a row group (C14, wave 4). *)
From Coq Require Import NArith Bool Arith List Permutation Lia.
From Pq Require Import Base.Bytes Proofs.BytesProofs Dataset.ChunkNames.
Import ListNotations.
Local Open Scope nat_scope.

Section P.
  Variable V : Type.
  Notation chunk := (chunk V).
  Notation rowgroup := (rowgroup V).
  Notation named := (named V).
  Notation read_col := (read_col V).
  Notation read_column := (read_column V).
  Notation read_table := (read_table V).

  Lemma perm_filter {A} (f : A -> bool) l l' : Permutation l l' -> Permutation (filter f l) (filter f l').
  Proof.
    induction 1 as [|x l l' H IH|x y l|l l' l'' H1 IH1 H2 IH2]; cbn.
    - constructor.
    - destruct (f x); [constructor|]; exact IH.
    - destruct (f x), (f y); try reflexivity. constructor.
    - etransitivity; eassumption.
  Qed.

  Lemma nodup_map_inj {A B} (f : A -> B) l : NoDup (map f l) -> forall a b, In a l -> In b l -> f a = f b -> a = b.
  Proof.
    induction l as [|x l IH]; intros H a b Ha Hb E; [destruct Ha|]. cbn in H. inversion H as [|y m Hx Hl]; subst.
    destruct Ha as [->|Ha], Hb as [->|Hb]; try reflexivity.
    - exfalso. apply Hx. rewrite E. apply in_map, Hb.
    - exfalso. apply Hx. rewrite <- E. apply in_map, Ha.
    - apply IH; assumption.
  Qed.

  Lemma cname_eqb_spec a b : reflect (a = b) (cname_eqb a b).
  Proof. apply list_eqb_spec, N.eqb_spec. Qed.

  (* in a row group whose chunk names are distinct at most one chunk carries a given name *)
  Lemma named_le1 c (rg : rowgroup) : NoDup (map fst rg) -> length (named c rg) <= 1.
  Proof.
    intros H. assert (Hnd : NoDup (named c rg)) by (apply NoDup_filter, (NoDup_map_inv _ _ H)).
    destruct (named c rg) as [|a [|b r]] eqn:E; cbn; try lia. exfalso.
    assert (Ha : In a (named c rg)) by (rewrite E; left; reflexivity).
    assert (Hb : In b (named c rg)) by (rewrite E; right; left; reflexivity).
    unfold ChunkNames.named in Ha, Hb. apply filter_In in Ha, Hb. destruct Ha as [Ha Ea], Hb as [Hb Eb].
    destruct (cname_eqb_spec (fst a) c) as [Ea'|]; [|discriminate]. destruct (cname_eqb_spec (fst b) c) as [Eb'|]; [|discriminate].
    assert (a = b) by (apply (nodup_map_inj fst rg H); [assumption|assumption|congruence]). subst b.
    inversion Hnd as [|x l Hx _]; subst. apply Hx. left. reflexivity.
  Qed.

  Lemma le1_perm_eq {A} (n1 n2 : list A) : length n1 <= 1 -> length n2 <= 1 -> Permutation n1 n2 -> n1 = n2.
  Proof.
    intros H1 H2 Hf. destruct n1 as [|a [|? ?]], n2 as [|b [|? ?]]; cbn in H1, H2; try lia.
    - reflexivity.
    - apply Permutation_length in Hf. discriminate.
    - apply Permutation_length in Hf. discriminate.
    - apply Permutation_length_1 in Hf. subst. reflexivity.
  Qed.

  (* the order of the chunks inside a row group does not matter *)
  Theorem read_col_perm c (rg rg' : rowgroup) : NoDup (map fst rg) -> Permutation rg rg' -> read_col c rg = read_col c rg'.
  Proof.
    intros Hnd Hp. unfold ChunkNames.read_col.
    assert (Hnd' : NoDup (map fst rg')) by (eapply Permutation_NoDup; [apply Permutation_map, Hp|exact Hnd]).
    assert (E : named c rg = named c rg').
    { apply le1_perm_eq; [apply named_le1, Hnd|apply named_le1, Hnd'|apply perm_filter, Hp]. }
    rewrite E. reflexivity.
  Qed.

  Lemma read_col_found c d (rg : rowgroup) : NoDup (map fst rg) -> In (c, d) rg -> read_col c rg = Some d.
  Proof.
    intros Hnd Hin. unfold ChunkNames.read_col. pose proof (named_le1 c rg Hnd) as H1.
    assert (Hn : In (c, d) (named c rg)).
    { apply filter_In. split; [exact Hin|]. cbn [fst]. destruct (cname_eqb_spec c c); [reflexivity|congruence]. }
    destruct (named c rg) as [|a [|? ?]]; cbn in H1; try lia; [destruct Hn|]. destruct Hn as [->|[]]. reflexivity.
  Qed.

  Lemma read_column_ext c (rgs rgs' : list rowgroup) : Forall2 (fun rg rg' => read_col c rg = read_col c rg') rgs rgs' ->
    read_column c rgs = read_column c rgs'.
  Proof.
    intros H. unfold ChunkNames.read_column. f_equal. f_equal. induction H as [|x y l l' E _ IH]; [reflexivity|]. cbn [map]. rewrite E, IH. reflexivity.
  Qed.

  (* the merged table does not depend on how each file ordered its chunks: reading any columns by name from row groups that are
     chunk-wise permutations of each other gives the same table *)
  Theorem read_table_chunk_order cols (rgs rgs' : list rowgroup) :
    Forall2 (fun rg rg' => NoDup (map fst rg) /\ Permutation rg rg') rgs rgs' -> read_table cols rgs = read_table cols rgs'.
  Proof.
    intros H. unfold ChunkNames.read_table. f_equal. apply map_ext. intros c. f_equal. apply read_column_ext.
    induction H as [|x y l l' [Hnd Hp] _ IH]; constructor; [apply read_col_perm; assumption|exact IH].
  Qed.

  (* ... and it is the concatenation: the column c of the merged row groups is the column c of each row group, in the order of the
     row groups (= the order of the files, C14_concat) *)
  Theorem read_column_concat c (rgs : list rowgroup) datas :
    Forall2 (fun rg d => NoDup (map fst rg) /\ In (c, d) rg) rgs datas -> read_column c rgs = Some (concat datas).
  Proof.
    intros H. unfold ChunkNames.read_column.
    assert (E : all_some_l (map (read_col c) rgs) = Some datas).
    { induction H as [|rg d l l' [Hnd Hin] _ IH]; [reflexivity|]. cbn [map all_some_l]. rewrite (read_col_found c d rg Hnd Hin), IH. reflexivity. }
    rewrite E. reflexivity.
  Qed.
End P.

(* matching chunks to columns by POSITION (a layout remembered from another row group) is not that: two row groups with the same two
   chunks in opposite order, layout of the first - the second row group yields the other column's data (computed witness) *)
Theorem by_position_refuted :
  exists (layout : list cname) (c : cname) (rg rg' : rowgroup nat),
    NoDup (map fst rg) /\ Permutation rg rg' /\
    read_col_by_position nat layout c rg = read_col nat c rg /\ read_col_by_position nat layout c rg' <> read_col nat c rg'.
Proof.
  exists [[1%N]; [2%N]], [1%N], [([1%N], [10]); ([2%N], [20])], [([2%N], [20]); ([1%N], [10])].
  split; [repeat constructor; cbn; intuition discriminate|]. split; [apply perm_swap|]. split; vm_compute; [reflexivity|discriminate].
Qed.
