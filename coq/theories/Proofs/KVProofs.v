From Coq Require Import NArith Arith List Bool Lia.
From Pq Require Import Base.Bytes Proofs.BytesProofs Impl.KV.
Import ListNotations.

Section KVP.
  Variables K V : Type.
  Variable keqb : K -> K -> bool.
  Hypothesis keqb_spec : forall a b, reflect (a = b) (keqb a b).

  Notation kv := (list (K * V)).
  Notation index_of := (index_of keqb).
  Notation update1 := (update1 keqb).
  Notation update_kv := (update_kv keqb).
  Notation lookup := (lookup keqb).
  Notation lookup_u := (lookup_u keqb).

  Definition keys (l : kv) := map fst l.

  Lemma index_of_none k (l : kv) : index_of k l = None <-> ~ In k (keys l).
  Proof.
    induction l as [|[k' v] l IH]; cbn; [tauto|].
    destruct (keqb_spec k k') as [E|?]; [subst k|].
    - split; [discriminate|]. intros H; exfalso; apply H; now left.
    - destruct (index_of k l); cbn.
      + split; [discriminate|]. intros H. exfalso. apply H. right. apply Decidable.not_not.
        * destruct IH as [_ IH]. unfold Decidable.decidable.
          destruct (in_dec (fun a b => match keqb_spec a b with ReflectT _ e => left e | ReflectF _ n => right n end) k (keys l)); tauto.
        * intros Hn. apply IH in Hn. discriminate.
      + split; [|reflexivity]. intros _ [H|H]; [congruence|]. now apply IH.
  Qed.

  Lemma lookup_none k (l : kv) : ~ In k (keys l) -> lookup k l = None.
  Proof.
    induction l as [|[k' v] l IH]; cbn; [reflexivity|]. intros H.
    destruct (keqb_spec k k') as [E|?]; [subst k|]; [exfalso; apply H; now left|]. apply IH. tauto.
  Qed.

  Lemma lookup_app k (a b : kv) :
    lookup k (a ++ b) = match lookup k a with Some v => Some v | None => lookup k b end.
  Proof.
    induction a as [|[k' v] a IH]; cbn; [reflexivity|]. destruct (keqb k k'); [reflexivity|apply IH].
  Qed.

  (* one update step: what a lookup sees afterwards *)
  Lemma update1_lookup (l : kv) k' ov k : NoDup (keys l) ->
    lookup k (update1 l (k', ov)) = if keqb k k' then ov else lookup k l.
  Proof.
    intros Hnd. unfold update1.
    destruct (index_of k' l) as [i|] eqn:Hi.
    - (* present *)
      revert i Hi Hnd. induction l as [|[k0 v0] l IH]; intros i Hi Hnd; [discriminate|].
      cbn in Hi. inversion Hnd as [|? ? Hnotin Hnd']; subst.
      destruct (keqb_spec k' k0) as [E|?]; [subst k'|].
      + inversion Hi; subst i. destruct ov as [v|]; cbn.
        * destruct (keqb_spec k k0); reflexivity.
        * destruct (keqb_spec k k0) as [E|?]; [subst k|]; [|reflexivity]. now apply lookup_none.
      + destruct (index_of k' l) as [j|] eqn:Hj; [|discriminate]. cbn in Hi. inversion Hi; subst i.
        specialize (IH j eq_refl Hnd').
        destruct ov as [v|]; cbn in *.
        * destruct (keqb_spec k k0) as [E|?]; [subst k|].
          -- destruct (keqb_spec k0 k') as [E|?]; [subst k0|]; [congruence|reflexivity].
          -- exact IH.
        * destruct (keqb_spec k k0) as [E|?]; [subst k|].
          -- destruct (keqb_spec k0 k') as [E|?]; [subst k0|]; [congruence|reflexivity].
          -- exact IH.
    - apply index_of_none in Hi.
      destruct ov as [v|].
      + rewrite lookup_app. cbn. destruct (keqb_spec k k') as [E|?]; [subst k|].
        * now rewrite lookup_none.
        * now destruct (lookup k l).
      + destruct (keqb_spec k k') as [E|?]; [subst k|]; [now apply lookup_none|reflexivity].
  Qed.

  Lemma keys_remove_at i (l : kv) : keys (remove_at i l) = remove_at i (keys l).
  Proof. revert i; induction l as [|x l IH]; intros [|i]; cbn; try reflexivity. now rewrite IH. Qed.

  Lemma in_remove_at {A} i (l : list A) x : In x (remove_at i l) -> In x l.
  Proof. revert i; induction l as [|y l IH]; intros [|i]; cbn; try tauto. intros [H|H]; [now left|right; eauto]. Qed.

  Lemma nodup_remove_at {A} i (l : list A) : NoDup l -> NoDup (remove_at i l).
  Proof.
    revert i; induction l as [|y l IH]; intros [|i] H; cbn; try assumption; inversion H; subst; [assumption|].
    constructor; [|now apply IH]. intros Hin. apply in_remove_at in Hin. contradiction.
  Qed.

  Lemma keys_replace_at i k v (l : kv) : index_of k l = Some i -> keys (replace_at i (k, v) l) = keys l.
  Proof.
    revert i; induction l as [|[k0 v0] l IH]; intros i Hi; [discriminate|]. cbn in Hi.
    destruct (keqb_spec k k0) as [E|?]; [subst k|].
    - inversion Hi; subst. reflexivity.
    - destruct (index_of k l) as [j|]; [|discriminate]. inversion Hi; subst. cbn. f_equal. now apply IH.
  Qed.

  Lemma update1_nodup (l : kv) u : NoDup (keys l) -> NoDup (keys (update1 l u)).
  Proof.
    destruct u as [k' ov]. intros H. unfold update1.
    destruct (index_of k' l) as [i|] eqn:Hi; destruct ov as [v|]; try assumption.
    - now rewrite (keys_replace_at _ _ _ _ Hi).
    - rewrite keys_remove_at. now apply nodup_remove_at.
    - unfold keys. rewrite map_app. cbn. apply index_of_none in Hi.
      rewrite <- (rev_involutive (map fst l ++ [k'])). apply NoDup_rev. rewrite rev_app_distr. cbn.
      constructor; [rewrite <- in_rev; exact Hi | apply NoDup_rev; exact H].
  Qed.

  Lemma lookup_u_app k (a b : list (K * option V)) :
    lookup_u k (a ++ b) = match lookup_u k a with Some v => Some v | None => lookup_u k b end.
  Proof.
    induction a as [|[k' v] a IH]; cbn; [reflexivity|]. destruct (keqb k k'); [reflexivity|apply IH].
  Qed.

  (* C16, key merge rules, any sequence of (key, value-or-None) pairs; a later pair for the same
     key wins (for a Python dict the keys are distinct, see update_kv_lookup_dict). *)
  Theorem update_kv_lookup (old : kv) u k : NoDup (keys old) ->
    lookup k (update_kv old u) =
      match lookup_u k (rev u) with Some ov => ov | None => lookup k old end.
  Proof.
    revert old. induction u as [|[k' ov] u IH]; intros old Hnd; [reflexivity|].
    cbn [update_kv fold_left]. change (fold_left update1 u ?x) with (update_kv x u).
    rewrite IH by now apply update1_nodup.
    cbn [rev]. rewrite lookup_u_app. destruct (lookup_u k (rev u)); [reflexivity|].
    cbn [KV.lookup_u]. rewrite update1_lookup by assumption. now destruct (keqb k k').
  Qed.

  Lemma lookup_u_none k (u : list (K * option V)) : ~ In k (map fst u) -> lookup_u k u = None.
  Proof.
    induction u as [|[k' v] u IH]; cbn; [reflexivity|]. intros H.
    destruct (keqb_spec k k') as [E|?]; [subst k|]; [exfalso; apply H; now left|]. apply IH; tauto.
  Qed.

  Lemma lookup_u_rev_nodup k (u : list (K * option V)) : NoDup (map fst u) -> lookup_u k (rev u) = lookup_u k u.
  Proof.
    induction u as [|[k' v] u IH]; intros H; [reflexivity|]. inversion H; subst.
    cbn [rev]. rewrite lookup_u_app, IH by assumption. cbn.
    destruct (keqb_spec k k') as [E|?]; [subst k|].
    - rewrite lookup_u_none by assumption. reflexivity.
    - now destruct (lookup_u k u).
  Qed.

  Theorem update_kv_lookup_dict (old : kv) u k : NoDup (keys old) -> NoDup (map fst u) ->
    lookup k (update_kv old u) =
      match lookup_u k u with Some ov => ov | None => lookup k old end.
  Proof. intros H1 H2. rewrite update_kv_lookup by assumption. now rewrite lookup_u_rev_nodup. Qed.

  (* entries whose key is not named by the update keep their relative order and values *)
  Lemma filter_remove_at (p : K * V -> bool) i (l : kv) k :
    index_of k l = Some i -> (forall v, p (k, v) = false) -> filter p (remove_at i l) = filter p l.
  Proof.
    revert i; induction l as [|[k0 v0] l IH]; intros i Hi Hp; [discriminate|]. cbn in Hi.
    destruct (keqb_spec k k0) as [E|?]; [subst k|].
    - inversion Hi; subst. cbn. now rewrite Hp.
    - destruct (index_of k l) as [j|]; [|discriminate]. inversion Hi; subst. cbn.
      rewrite (IH j eq_refl Hp). reflexivity.
  Qed.

  Lemma filter_replace_at (p : K * V -> bool) i (l : kv) k v :
    index_of k l = Some i -> (forall v, p (k, v) = false) -> filter p (replace_at i (k, v) l) = filter p l.
  Proof.
    revert i; induction l as [|[k0 v0] l IH]; intros i Hi Hp; [discriminate|]. cbn in Hi.
    destruct (keqb_spec k k0) as [E|?]; [subst k|].
    - inversion Hi; subst. cbn. now rewrite !Hp.
    - destruct (index_of k l) as [j|]; [|discriminate]. inversion Hi; subst. cbn.
      rewrite (IH j eq_refl Hp). reflexivity.
  Qed.

  Definition untouched (u : list (K * option V)) (e : K * V) : bool :=
    negb (existsb (fun x => keqb (fst e) (fst x)) u).

  Theorem update_kv_others_kept (old : kv) u :
    filter (untouched u) (update_kv old u) = filter (untouched u) old.
  Proof.
    assert (G : forall (p : K * V -> bool) u0 old0,
               (forall k ov v, In (k, ov) u0 -> p (k, v) = false) ->
               filter p (update_kv old0 u0) = filter p old0).
    { intros p u0. induction u0 as [|[k' ov] u0 IH]; intros old0 Hp; [reflexivity|].
      cbn [update_kv fold_left]. change (fold_left update1 u0 ?x) with (update_kv x u0).
      rewrite IH by (intros; eapply Hp; right; eassumption).
      assert (Hk : forall v, p (k', v) = false) by (intros; eapply Hp; left; reflexivity).
      unfold update1. destruct (index_of k' old0) as [i|] eqn:Hi; destruct ov as [v|]; try reflexivity.
      - now apply filter_replace_at.
      - now apply (filter_remove_at p i old0 k').
      - rewrite filter_app. cbn. rewrite Hk. now rewrite app_nil_r. }
    apply G. intros k ov v Hin. unfold untouched. cbn [fst].
    apply negb_false_iff. apply existsb_exists. exists (k, ov). split; [assumption|].
    cbn. now destruct (keqb_spec k k).
  Qed.
End KVP.

(* ------------------------------------------------------------------------------------------ *)
Open Scope N_scope.

Lemma framed_length data footer :
  length (framed data footer) = (length data + length footer + 8)%nat.
Proof. unfold framed, magic. rewrite !app_length, le_enc_length. cbn. lia. Qed.

Lemma skipn_app_exact {A} (a b : list A) : skipn (length a) (a ++ b) = b.
Proof. rewrite skipn_app, skipn_all, Nat.sub_diag. reflexivity. Qed.

Lemma firstn_app_exact {A} (a b : list A) : firstn (length a) (a ++ b) = a.
Proof. rewrite firstn_app, firstn_all, Nat.sub_diag. cbn. apply app_nil_r. Qed.

(* the reader finds the footer where the framing put it *)
Theorem footer_loc_framed data footer : N.of_nat (length footer) < 2 ^ 32 ->
  footer_loc false (framed data footer) = Some (length data).
Proof.
  intros Hsz. unfold footer_loc. rewrite framed_length.
  replace (Nat.ltb (length data + length footer + 8) 8) with false by (symmetry; apply Nat.ltb_ge; lia).
  replace (length data + length footer + 8 - 8)%nat with (length (data ++ footer)) by (rewrite app_length; lia).
  unfold framed. rewrite app_assoc. rewrite skipn_app_exact.
  rewrite le_dec_enc by exact Hsz.
  rewrite app_length.
  replace (N.of_nat (length footer) <=? N.of_nat (length data + length footer)) with true
    by (symmetry; apply N.leb_le; lia).
  f_equal. lia.
Qed.

(* C16: the repaired rewrite re-establishes the framing for every old and new footer size *)
Theorem rewrite_framed data footer footer' :
  rewrite_footer true (framed data footer) (length data) footer' = framed data footer'.
Proof.
  unfold rewrite_footer, os_truncate, os_write.
  set (tail := footer' ++ le_enc 4 (N.of_nat (length footer')) ++ magic).
  unfold framed at 1. rewrite firstn_app_exact.
  rewrite app_assoc. rewrite <- app_length. rewrite firstn_app_exact.
  rewrite app_nil_r || idtac. reflexivity.
Qed.

Theorem rewrite_prefix_untouched t file loc footer' : (loc <= length file)%nat ->
  firstn loc (rewrite_footer t file loc footer') = firstn loc file.
Proof.
  intros H. unfold rewrite_footer, os_truncate, os_write.
  set (tail := footer' ++ _).
  assert (E : firstn loc (firstn loc file ++ tail ++ skipn (loc + length tail) file) = firstn loc file).
  { rewrite firstn_app. rewrite firstn_length, Nat.min_l by exact H.
    rewrite Nat.sub_diag. cbn. rewrite app_nil_r. apply firstn_firstn_min || idtac.
    rewrite firstn_firstn. now rewrite Nat.min_id. }
  destruct t; [|exact E].
  rewrite firstn_firstn. rewrite Nat.min_l by lia. exact E.
Qed.

Lemma last_cons {A} (fs : list A) f d : last (f :: fs) d = last fs f.
Proof.
  revert f d. induction fs as [|b fs IH]; intros f d; [reflexivity|].
  change (last (f :: b :: fs) d) with (last (b :: fs) d). now rewrite !IH.
Qed.

(* any sequence of rewrites *)
Theorem rewrites_framed data footer (fs : list bytes) :
  fold_left (fun f ft => rewrite_footer true f (length data) ft) fs (framed data footer)
  = framed data (last fs footer).
Proof.
  revert footer. induction fs as [|f fs IH]; intros footer; [reflexivity|].
  cbn [fold_left]. rewrite rewrite_framed. rewrite IH. now rewrite last_cons.
Qed.

(* without truncate the rewrite is only right when the footer does not shrink *)
Theorem rewrite_notrunc_grow data footer footer' : (length footer <= length footer')%nat ->
  rewrite_footer false (framed data footer) (length data) footer' = framed data footer'.
Proof.
  intros H. unfold rewrite_footer, os_write.
  set (tail := footer' ++ le_enc 4 (N.of_nat (length footer')) ++ magic).
  rewrite skipn_all2.
  2:{ rewrite framed_length. unfold tail, magic. rewrite !app_length, le_enc_length. cbn. lia. }
  unfold framed at 1. rewrite firstn_app_exact. rewrite app_nil_r. reflexivity.
Qed.

Theorem rewrite_notrunc_shrink_length data footer footer' : (length footer' < length footer)%nat ->
  length (rewrite_footer false (framed data footer) (length data) footer') = length (framed data footer).
Proof.
  intros H. unfold rewrite_footer, os_write.
  rewrite !app_length, firstn_length, skipn_length, framed_length.
  unfold magic. rewrite ?app_length, !le_enc_length. cbn [length]. lia.
Qed.

(* hence, without truncate, a shrinking footer leaves a file that is NOT the framing of the new footer *)
Theorem rewrite_notrunc_shrink_refuted data footer footer' : (length footer' < length footer)%nat ->
  rewrite_footer false (framed data footer) (length data) footer' <> framed data footer'.
Proof.
  intros H E. apply (f_equal (@length _)) in E.
  rewrite rewrite_notrunc_shrink_length in E by exact H. rewrite !framed_length in E. lia.
Qed.
