(* C10 parse side: the reader hands exactly the footer to the thrift parser - every data prefix, every footer
   length below 2^32 (no read-ahead window, no size class), data files and _metadata files, and after any
   sequence of in-place footer rewrites (C16). *)
From Coq Require Import NArith Arith List Bool Lia.
From Pq Require Import Base.Bytes Proofs.BytesProofs Impl.KV Proofs.KVProofs Impl.ParseHeader.
Import ListNotations.

Lemma bytes_eqb_refl' b : bytes_eqb b b = true.
Proof. destruct (bytes_eqb_spec b b); congruence. Qed.

Lemma skipn_skipn' {A} (a b : nat) (l : list A) : skipn a (skipn b l) = skipn (b + a) l.
Proof. revert l; induction b as [|b IH]; intros l; [reflexivity|]. destruct l; [now destruct a|]. cbn. apply IH. Qed.

Lemma framed_split data footer :
  framed data footer = (data ++ footer) ++ le_enc 4 (N.of_nat (length footer)) ++ magic.
Proof. unfold framed. now rewrite app_assoc. Qed.

Theorem parse_header_framed data footer verify :
  (N.of_nat (length footer) < 2 ^ 32)%N ->
  (verify = true -> firstn 4 (data ++ footer) = magic) ->
  parse_header false verify (framed data footer) = Some (footer, N.of_nat (length footer)).
Proof.
  intros Hsz Hmag. unfold parse_header. rewrite framed_length.
  replace (Nat.ltb (length data + length footer + 8) 8) with false by (symmetry; apply Nat.ltb_ge; lia).
  assert (Hf4 : verify = true -> firstn 4 (framed data footer) = magic).
  { intros Hv. specialize (Hmag Hv). rewrite framed_split.
    assert (4 <= length (data ++ footer))%nat.
    { unfold magic in Hmag.
      destruct (data ++ footer) as [|a [|b [|c [|d l]]]]; cbn in Hmag; try discriminate. cbn. lia. }
    rewrite firstn_app. replace (4 - length (data ++ footer))%nat with 0%nat by lia.
    cbn [firstn]. now rewrite app_nil_r. }
  replace (verify && negb (bytes_eqb (firstn 4 (framed data footer)) magic)) with false.
  2:{ destruct verify; [|reflexivity]. rewrite Hf4 by reflexivity. now rewrite bytes_eqb_refl'. }
  replace (length data + length footer + 8 - 8)%nat with (length (data ++ footer)) by (rewrite app_length; lia).
  assert (Esk : skipn (length (data ++ footer)) (framed data footer) = le_enc 4 (N.of_nat (length footer)) ++ magic)
    by (rewrite framed_split; apply skipn_app_exact).
  rewrite Esk.
  assert (E4 : firstn 4 (le_enc 4 (N.of_nat (length footer)) ++ magic) = le_enc 4 (N.of_nat (length footer))).
  { pose proof (firstn_app_exact (le_enc 4 (N.of_nat (length footer))) magic) as E. now rewrite le_enc_length in E. }
  rewrite E4.
  rewrite le2n_le_enc. change (256 ^ N.of_nat 4)%N with (2 ^ 32)%N. rewrite N.mod_small by exact Hsz.
  rewrite Nat2N.id.
  replace (verify && negb (bytes_eqb (skipn (length data + length footer + 8 - 4) (framed data footer)) magic)) with false.
  2:{ destruct verify; [|reflexivity]. cbn [andb]. symmetry. apply negb_false_iff.
      replace (length data + length footer + 8 - 4)%nat with (length ((data ++ footer) ++ le_enc 4 (N.of_nat (length footer))))
        by (rewrite !app_length, le_enc_length; lia).
      unfold framed. rewrite !app_assoc. rewrite skipn_app_exact. apply bytes_eqb_refl'. }
  replace (Nat.ltb (length data + length footer + 8) (length footer + 8)) with false by (symmetry; apply Nat.ltb_ge; lia).
  replace (length data + length footer + 8 - (length footer + 8))%nat with (length data) by lia.
  unfold framed. rewrite skipn_app_exact. rewrite firstn_app_exact. reflexivity.
Qed.

(* a _metadata file (PAR1 footer len PAR1), whatever its name says about verify *)
Theorem parse_header_md footer verify :
  parse_header true verify (framed_md footer) = Some (footer, N.of_nat (length footer)).
Proof.
  unfold parse_header, framed_md. rewrite framed_length. unfold framed.
  change (length magic) with 4%nat.
  replace (4 + length footer + 8 - 8 - 4)%nat with (length footer) by lia.
  change (skipn 4 (magic ++ ?x)) with x. rewrite firstn_app_exact. reflexivity.
Qed.

(* C16 o C10: after ANY sequence of in-place footer rewrites the reader hands the LAST footer to the parser *)
Theorem parse_header_after_rewrites data footer (fs : list bytes) verify :
  (N.of_nat (length (last fs footer)) < 2 ^ 32)%N ->
  (verify = true -> firstn 4 (data ++ last fs footer) = magic) ->
  parse_header false verify
    (fold_left (fun f ft => rewrite_footer true f (length data) ft) fs (framed data footer))
  = Some (last fs footer, N.of_nat (length (last fs footer))).
Proof. intros H1 H2. rewrite rewrites_framed. now apply parse_header_framed. Qed.

(* a file that is too short for its own length field is refused, never read from a wrong place *)
Theorem parse_header_short_refused file verify :
  (length file < 8)%nat -> parse_header false verify file = None.
Proof. intros H. unfold parse_header. now replace (Nat.ltb (length file) 8) with true by (symmetry; apply Nat.ltb_lt; lia). Qed.

Theorem parse_header_result_is_window file verify d hs :
  parse_header false verify file = Some (d, hs) ->
  exists pre, file = pre ++ d ++ skipn (length file - 8) file /\ N.of_nat (length d) = hs.
Proof.
  unfold parse_header. destruct (Nat.ltb (length file) 8) eqn:E8; [discriminate|].
  destruct (verify && negb (bytes_eqb (firstn 4 file) magic)); [discriminate|].
  set (h := N.to_nat (le2n (firstn 4 (skipn (length file - 8) file)))).
  destruct (verify && negb (bytes_eqb (skipn (length file - 4) file) magic)); [discriminate|].
  destruct (Nat.ltb (length file) (h + 8)) eqn:Eh; [discriminate|].
  intros H. inversion H; subst d hs. clear H.
  apply Nat.ltb_ge in E8. apply Nat.ltb_ge in Eh.
  exists (firstn (length file - (h + 8)) file). split.
  - rewrite <- (firstn_skipn (length file - (h + 8)) file) at 1. f_equal.
    rewrite <- (firstn_skipn h (skipn (length file - (h + 8)) file)) at 1. f_equal.
    rewrite skipn_skipn'. f_equal. lia.
  - rewrite firstn_length, skipn_length. f_equal. lia.
Qed.
