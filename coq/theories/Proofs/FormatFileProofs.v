(* Chunk and file level of the specification round trip: the metadata the spec encoder writes for a
   chunk satisfies the bookkeeping checker on the page summaries the decoder's scan produces; a chunk
   placed in a file is found and read back by `scan_chunk`; `valid_chunk` accepts it. *)
From Coq Require Import String.
From Coq Require Import NArith ZArith Arith List Lia Bool.
From Pq Require Import Base.Bytes Base.Bits Base.ListX Proofs.BytesProofs Proofs.ListXProofs Proofs.CodecProofs
  Proofs.CompactProofs Codec.Varint Codec.Bitpack Codec.Hybrid Thrift.Compact Thrift.Idl Thrift.IdlPinned
  Format.Phys Format.Meta Format.Page Format.ChunkLayout Format.File Format.Enc.
From Pq Require Import Proofs.HybridProofs Proofs.FormatCodecProofs Proofs.FormatPageProofs Proofs.FormatChunkProofs
  Proofs.ChunkLayoutProofs Proofs.FormatMetaProofs Proofs.FormatIdlProofs.
Import ListNotations.
Open Scope N_scope.
Open Scope list_scope.

Section WithCodecs4.
Variable compress : Z -> bytes -> bytes.
Variable decompress : Z -> N -> bytes -> option bytes.
Hypothesis codec_rt : forall codec b, decompress codec (lenN b) (compress codec b) = Some b.

Notation enc_it := (enc_item compress).

(* ---- facts about one encoded page ---------------------------------------------------------------- *)
Lemma csize_eq cd codec it : ph_csize (fst (enc_it cd codec it)) = Z.of_N (lenN (snd (enc_it cd codec it))).
Proof.
  destruct it as [e vs|p]; cbn [enc_item].
  - reflexivity.
  - unfold enc_data_page. destruct (lp_v2 p); cbn zeta; cbn [fst snd ph_csize]; unfold zlen; [|reflexivity].
    rewrite app_tr_ok, lenN_app. lia.
Qed.

Lemma usize_nonneg cd codec it : (0 <= ph_usize (fst (enc_it cd codec it)))%Z.
Proof.
  destruct it as [e vs|p]; cbn [enc_item]; [unfold enc_dict_page; cbn; unfold zlen; lia|].
  unfold enc_data_page. destruct (lp_v2 p); cbn zeta; cbn [fst snd ph_usize]; unfold zlen; lia.
Qed.

Lemma item_bytes_len cd codec it :
  Z.of_N (lenN (item_bytes compress cd codec it)) = disk_size (summary_of (enc_it cd codec it)).
Proof.
  unfold item_bytes, page_bytes, disk_size, summary_of. cbn [p_hdr p_comp].
  rewrite app_tr_ok, lenN_app, csize_eq. lia.
Qed.

Lemma kind_of_item cd codec it :
  p_kind (summary_of (enc_it cd codec it)) = match it with LDict _ _ => PDict | LData p => if lp_v2 p then PData2 else PData1 end.
Proof.
  destruct it as [e vs|p]; cbn [enc_item]; [reflexivity|].
  unfold enc_data_page. destruct (lp_v2 p); reflexivity.
Qed.

Lemma is_data_item cd codec it :
  is_data (summary_of (enc_it cd codec it)) = match it with LDict _ _ => false | LData _ => true end.
Proof. unfold is_data. rewrite kind_of_item. destruct it as [|p]; [reflexivity|]. destruct (lp_v2 p); reflexivity. Qed.

Lemma nvals_of_item cd codec it :
  is_data (summary_of (enc_it cd codec it)) = true ->
  p_nvals (summary_of (enc_it cd codec it)) = Z.of_N (item_nvals it).
Proof.
  rewrite is_data_item. destruct it as [e vs|p]; [discriminate|]. intros _. cbn [enc_item item_nvals].
  unfold enc_data_page. destruct (lp_v2 p); reflexivity.
Qed.

Lemma enc_of_item cd codec it : p_enc (summary_of (enc_it cd codec it)) = item_enc it.
Proof.
  destruct it as [e vs|p]; cbn [enc_item item_enc]; [reflexivity|].
  unfold enc_data_page. destruct (lp_v2 p); reflexivity.
Qed.

Lemma sane_item cd codec it : sane (summary_of (enc_it cd codec it)) = true.
Proof.
  unfold sane, summary_of. cbn [p_hdr p_comp p_uncomp p_nvals].
  destruct (enc_phdr_nonempty (fst (enc_it cd codec it))) as (x & l & E).
  rewrite csize_eq. pose proof (usize_nonneg cd codec it) as U.
  assert (H1 : (0 <? Z.of_N (lenN (enc_phdr (fst (enc_it cd codec it)))))%Z = true).
  { rewrite E, lenN_ok. cbn [length]. apply Z.ltb_lt. lia. }
  assert (H4 : (0 <=? pnvals_of (ph_body (fst (enc_it cd codec it))))%Z = true).
  { destruct it as [e vs|p]; cbn [enc_item]; [cbn; apply Z.leb_le; lia|].
    unfold enc_data_page. destruct (lp_v2 p); cbn; apply Z.leb_le; lia. }
  rewrite H1, H4. cbn [andb]. rewrite andb_true_r. apply andb_true_iff. split; apply Z.leb_le; lia.
Qed.

(* ---- sums over the pages of a chunk ------------------------------------------------------------- *)
Definition summaries cd codec (its : list litem) : list page := map (fun it => summary_of (enc_it cd codec it)) its.

Lemma sum_disk cd codec its :
  sumZ (map disk_size (summaries cd codec its)) = Z.of_N (lenN (concat (map (item_bytes compress cd codec) its))).
Proof.
  induction its as [|it r IH]; [reflexivity|].
  cbn [summaries map sumZ concat]. fold (summaries cd codec r). rewrite IH, lenN_app, <- item_bytes_len. lia.
Qed.

Lemma fold_tus cd codec its a :
  fold_left (fun a hp => a + lenN (enc_phdr (fst hp)) + Z.to_N (ph_usize (fst hp))) (map (enc_it cd codec) its) a
  = a + Z.to_N (sumZ (map plain_size (summaries cd codec its))).
Proof.
  revert a. induction its as [|it r IH]; intros a; [cbn; lia|].
  cbn [map fold_left summaries sumZ]. fold (summaries cd codec r). rewrite IH.
  unfold plain_size at 2. unfold summary_of at 1 2. cbn [p_hdr p_uncomp].
  pose proof (usize_nonneg cd codec it) as U.
  assert (P : (0 <= sumZ (map plain_size (summaries cd codec r)))%Z).
  { clear. induction r as [|x r IH]; cbn [summaries map sumZ]; [lia|]. fold (summaries cd codec r).
    unfold plain_size at 1. unfold summary_of. cbn [p_hdr p_uncomp]. pose proof (usize_nonneg cd codec x). lia. }
  lia.
Qed.

Lemma sum_plain_nonneg cd codec its : (0 <= sumZ (map plain_size (summaries cd codec its)))%Z.
Proof.
  induction its as [|x r IH]; cbn [summaries map sumZ]; [lia|]. fold (summaries cd codec r).
  unfold plain_size at 1. unfold summary_of. cbn [p_hdr p_uncomp]. pose proof (usize_nonneg cd codec x). lia.
Qed.

Lemma sumN_acc l a : fold_left N.add l a = a + sumN l.
Proof. unfold sumN. revert a. induction l as [|x l IH]; intros a; cbn [fold_left]; [lia|]. rewrite IH, (IH (0 + x)). lia. Qed.
Lemma sumN_cons x l : sumN (x :: l) = x + sumN l.
Proof. unfold sumN at 1. cbn [fold_left]. rewrite sumN_acc. lia. Qed.

Lemma sum_nvals cd codec its :
  sumZ (map p_nvals (filter is_data (summaries cd codec its))) = Z.of_N (sumN (map item_nvals its)).
Proof.
  induction its as [|it r IH]; [reflexivity|].
  cbn [summaries map filter]. fold (summaries cd codec r). rewrite sumN_cons.
  destruct (is_data (summary_of (enc_it cd codec it))) eqn:D.
  - cbn [map sumZ]. rewrite IH, nvals_of_item by exact D. lia.
  - rewrite IH. rewrite is_data_item in D. destruct it; [cbn [item_nvals]; lia|discriminate].
Qed.

Lemma dedup_in x l : In x l -> existsb (Z.eqb x) (dedup l) = true.
Proof.
  induction l as [|y l IH]; [intros []|]. intros [->|H]; cbn [dedup].
  - destruct (existsb (Z.eqb x) l) eqn:E.
    + apply existsb_exists in E. destruct E as (z & Hz & Ez). apply Z.eqb_eq in Ez. subst z. now apply IH.
    + cbn [existsb]. now rewrite Z.eqb_refl.
  - destruct (existsb (Z.eqb y) l); [now apply IH|]. cbn [existsb]. rewrite (IH H). apply orb_true_r.
Qed.

Lemma encs_listed cd codec its extra :
  forallb (fun p => existsb (Z.eqb (p_enc p)) (dedup (extra :: map item_enc its))) (summaries cd codec its) = true.
Proof.
  apply forallb_forall. intros p Hp. unfold summaries in Hp. apply in_map_iff in Hp. destruct Hp as (it & <- & Hit).
  rewrite enc_of_item. apply dedup_in. right. now apply in_map.
Qed.

Lemma sane_all cd codec its : forallb sane (summaries cd codec its) = true.
Proof. apply forallb_forall. intros p Hp. apply in_map_iff in Hp. destruct Hp as (it & <- & _). apply sane_item. Qed.


(* ---- the encoder's chunk metadata passes the bookkeeping checker -------------------------------- *)
Definition is_ldata (it : litem) : bool := match it with LData _ => true | LDict _ _ => false end.

(* a chunk in the shape the format prescribes: at most one dictionary page, and it comes first *)
Definition its_shape (its : list litem) : Prop :=
  match its with
  | LDict _ _ :: r => r <> [] /\ forallb is_ldata r = true
  | _ => its <> [] /\ forallb is_ldata its = true
  end.

Lemma is_data_all cd codec r : forallb is_ldata r = true -> forallb is_data (summaries cd codec r) = true.
Proof.
  intros H. apply forallb_forall. intros p Hp. apply in_map_iff in Hp. destruct Hp as (it & <- & Hit).
  rewrite is_data_item. rewrite forallb_forall in H. specialize (H it Hit). destruct it; [discriminate|reflexivity].
Qed.

Definition chunk_meta (l : lleaf) (start : N) (c : lchunk) : cmd :=
  match cc_meta (snd (enc_chunk compress l start c)) with
  | Some m => m
  | None => {| cm_type := 0; cm_encodings := []; cm_path := []; cm_codec := 0; cm_nvals := 0; cm_tus := 0; cm_tcs := 0;
               cm_data_off := 0; cm_index_off := None; cm_dict_off := None; cm_null_count := None |}
  end.

Theorem enc_chunk_check l start c :
  its_shape (lc_items c) ->
  check_chunk (cmeta_of (chunk_meta l start c)) (summaries (desc_of l) (lc_codec c) (lc_items c)) = true.
Proof.
  intros SH. unfold chunk_meta, enc_chunk. cbn zeta. cbn [snd cc_meta]. unfold cmeta_of.
  cbn [cm_nvals cm_data_off cm_dict_off cm_tcs cm_tus cm_encodings].
  set (cd := desc_of l). set (codec := lc_codec c). set (its := lc_items c) in *.
  unfold check_chunk.
  cbn [c_total_comp c_total_uncomp c_num_values c_encodings c_dict_page_offset c_data_page_offset].
  rewrite !map_map. fold (summaries cd codec its).
  assert (PB : map (fun x => page_bytes (enc_it cd codec x)) its = map (item_bytes compress cd codec) its) by reflexivity.
  rewrite PB, concat_tr_ok.
  (* sizes and counts *)
  rewrite sum_disk, Z.eqb_refl.
  rewrite <- (map_map (enc_it cd codec) (fun hp => hp)), map_id.
  rewrite fold_tus, N.add_0_l, Z2N.id by apply sum_plain_nonneg. rewrite Z.eqb_refl.
  rewrite sum_nvals, Z.eqb_refl.
  rewrite encs_listed, sane_all. cbn [andb]. rewrite !andb_true_r.
  (* structure *)
  unfold chunk_start. cbn [c_dict_page_offset c_data_page_offset].
  destruct its as [|it0 r] eqn:ITS; [destruct SH as [SH _]; now contradiction SH|].
  cbn [summaries map]. fold (summaries cd codec r).
  destruct it0 as [e vs|p0].
  - destruct SH as [NE FA]. rewrite (is_data_all cd codec r FA). cbn [andb].
    rewrite kind_of_item.
    assert (FL : lenN (item_bytes compress cd codec (LDict e vs)) = lenN (page_bytes (enc_it cd codec (LDict e vs)))) by reflexivity.
    cbn [map].
    pose proof (item_bytes_len cd codec (LDict e vs)) as IB.
    rewrite Z.min_l by lia. rewrite Z.eqb_refl. cbn [andb].
    rewrite N2Z.inj_add, IB, Z.eqb_refl. cbn [andb].
    destruct r; [now contradiction NE|reflexivity].
  - destruct SH as [NE FA]. cbn [forallb is_ldata andb] in FA. rewrite (is_data_all cd codec r FA). cbn [andb].
    rewrite kind_of_item. destruct (lp_v2 p0); apply Z.eqb_refl.
Qed.

(* ---- a chunk placed in a file is found and read back ------------------------------------------------ *)
Definition placed (file : bytes) (start : N) (b : bytes) : Prop :=
  exists pre post, file = pre ++ b ++ post /\ lenN pre = start.

Lemma placed_slice file start b : placed file start b -> takeN (lenN b) (dropN start file) = b.
Proof. intros (pre & post & -> & <-). now rewrite dropN_app_exact, takeN_app_exact. Qed.

Lemma bytes_eqb_refl b : bytes_eqb b b = true.
Proof. destruct (bytes_eqb_spec b b); [reflexivity|congruence]. Qed.

Definition chunk_bytes (l : lleaf) (start : N) (c : lchunk) : bytes := fst (enc_chunk compress l start c).

Lemma chunk_bytes_eq l start c :
  chunk_bytes l start c = concat (map (item_bytes compress (desc_of l) (lc_codec c)) (lc_items c)).
Proof. unfold chunk_bytes, enc_chunk. cbn zeta. cbn [fst]. rewrite map_map, concat_tr_ok. reflexivity. Qed.

Definition chunk_wf (l : lleaf) (c : lchunk) : Prop :=
  Forall (item_wf (desc_of l)) (lc_items c) /\
  Forall (fun it => phdr_wf (fst (enc_it (desc_of l) (lc_codec c) it)) = true) (lc_items c).

Theorem scan_chunk_roundtrip strict file fstart l start c contents :
  chunk_wf l c -> items_contents (desc_of l) None (lc_items c) = Some contents ->
  4 <= start -> start + lenN (chunk_bytes l start c) <= fstart ->
  placed file start (chunk_bytes l start c) ->
  scan_chunk decompress strict file fstart (leaf_of_l l) (snd (enc_chunk compress l start c))
  = ROk (CHere {| co_meta := chunk_meta l start c;
                  co_pages := summaries (desc_of l) (lc_codec c) (lc_items c);
                  co_cells := concat (map content_cells contents);
                  co_nulls := fold_right N.add 0 (map content_nulls contents) |}).
Proof.
  intros [W HW] IC S4 SF PL.
  pose proof (placed_slice _ _ _ PL) as SL. pose proof (chunk_bytes_eq l start c) as CB.
  unfold chunk_meta. unfold chunk_bytes in *. unfold enc_chunk in *. cbn zeta in *. cbn [fst snd cc_meta cc_path] in *.
  unfold scan_chunk. cbn [cc_path cc_meta cm_path cm_type cm_data_off cm_dict_off cm_tcs cm_codec lf_name lf_desc leaf_of_l].
  rewrite bytes_eqb_refl. cbn [guard rbind]. rewrite Z.eqb_refl. cbn [guard rbind].
  set (b := concat_tr (map page_bytes (map (enc_it (desc_of l) (lc_codec c)) (lc_items c)))) in *.
  rewrite z2n_of_N. cbn [rbind].
  destruct (match lc_items c with LDict _ _ :: _ => true | _ => false end) eqn:HD;
    [rewrite z2n_of_N|]; cbn [rbind];
    [match goal with |- context [N.min (start + ?x) start] => replace (N.min (start + x) start) with start by lia end
    |rewrite N.min_id];
    rewrite z2n_of_N; cbn [rbind];
    (destruct (N.leb_spec 4 start) as [_|L]; [|lia]);
    (destruct (N.leb_spec (start + lenN b) fstart) as [_|L]; [|lia]); cbn [andb guard rbind];
    rewrite SL; rewrite CB;
    rewrite (scan_pages_roundtrip compress decompress codec_rt strict (desc_of l) (lc_codec c) (lc_items c) _ None [] [] 0 contents W HW IC)
      by (rewrite <- CB; lia);
    cbn [rbind rev app]; rewrite N.add_0_l; reflexivity.
Qed.

(* the validator accepts the chunk *)
Theorem valid_chunk_enc l start c contents rg :
  its_shape (lc_items c) -> items_contents (desc_of l) None (lc_items c) = Some contents ->
  rg_nrows rg = Z.of_N (sumN (map item_nvals (lc_items c))) ->
  sumN (map (item_nulls (desc_of l)) (lc_items c)) = fold_right N.add 0 (map content_nulls contents) ->
  valid_chunk rg (CHere {| co_meta := chunk_meta l start c;
                           co_pages := summaries (desc_of l) (lc_codec c) (lc_items c);
                           co_cells := concat (map content_cells contents);
                           co_nulls := fold_right N.add 0 (map content_nulls contents) |}) = ROk tt.
Proof.
  intros SH IC NR NU. unfold valid_chunk. cbn [co_meta co_pages co_nulls].
  rewrite enc_chunk_check by exact SH. cbn [guard rbind].
  unfold chunk_meta, enc_chunk. cbn zeta. cbn [snd cc_meta cm_nvals cm_null_count cm_index_off].
  rewrite NR, Z.eqb_refl. cbn [guard rbind].
  destruct (lc_stats c); [rewrite NU, Z.eqb_refl|]; reflexivity.
Qed.

(* ---- the chunks of a row group ------------------------------------------------------------------------ *)
Definition contents_of (l : lleaf) (c : lchunk) : list pcontent :=
  match items_contents (desc_of l) None (lc_items c) with Some cs => cs | None => [] end.

Definition chunk_out (l : lleaf) (start : N) (c : lchunk) : chunk_res :=
  CHere {| co_meta := chunk_meta l start c;
           co_pages := summaries (desc_of l) (lc_codec c) (lc_items c);
           co_cells := concat (map content_cells (contents_of l c));
           co_nulls := fold_right N.add 0 (map content_nulls (contents_of l c)) |}.

Fixpoint cols_out (ls : list lleaf) (cs : list lchunk) (pos : N) : list chunk_res :=
  match ls, cs with
  | l :: ls', c :: cs' => chunk_out l pos c :: cols_out ls' cs' (pos + lenN (chunk_bytes l pos c))
  | _, _ => []
  end.

Definition chunk_ok (l : lleaf) (c : lchunk) : Prop :=
  chunk_wf l c /\ exists contents, items_contents (desc_of l) None (lc_items c) = Some contents.

Lemma enc_cols_pos : forall ls cs pos,
  snd (enc_cols compress ls cs pos) = pos + lenN (concat (fst (fst (enc_cols compress ls cs pos)))).
Proof.
  induction ls as [|l ls IH]; intros cs pos; [cbn; lia|].
  destruct cs as [|c cs]; [cbn; lia|]. cbn [enc_cols].
  destruct (enc_chunk compress l pos c) as [b cc] eqn:EC.
  specialize (IH cs (pos + lenN b)).
  destruct (enc_cols compress ls cs (pos + lenN b)) as [[bs ccs] pos'] eqn:ER. cbn [fst snd] in *.
  cbn [concat]. rewrite lenN_app. lia.
Qed.

Theorem scan_cols_roundtrip strict fstart : forall ls cs pos file pre post,
  length ls = length cs -> Forall2 chunk_ok ls cs ->
  file = pre ++ concat (fst (fst (enc_cols compress ls cs pos))) ++ post -> lenN pre = pos -> 4 <= pos ->
  snd (enc_cols compress ls cs pos) <= fstart ->
  scan_cols decompress strict file fstart (map leaf_of_l ls) (snd (fst (enc_cols compress ls cs pos)))
  = ROk (cols_out ls cs pos).
Proof.
  induction ls as [|l ls IH]; intros cs pos file pre post LEN OK FILE PRE P4 PF.
  - destruct cs; [reflexivity|discriminate].
  - destruct cs as [|c cs]; [discriminate|].
    assert (OK1 : chunk_ok l c) by (inversion OK; assumption).
    assert (OKr : Forall2 chunk_ok ls cs) by (inversion OK; assumption).
    destruct OK1 as [CW [contents IC]]. subst pos.
    pose proof (enc_cols_pos (l :: ls) (c :: cs) (lenN pre)) as POS.
    cbn [enc_cols] in *.
    destruct (enc_chunk compress l (lenN pre) c) as [b cc] eqn:EC.
    pose proof (enc_cols_pos ls cs (lenN pre + lenN b)) as POS2.
    destruct (enc_cols compress ls cs (lenN pre + lenN b)) as [[bs ccs] pos'] eqn:ER. cbn [fst snd] in *.
    cbn [map scan_cols concat] in *.
    assert (Eb : b = chunk_bytes l (lenN pre) c) by (unfold chunk_bytes; now rewrite EC).
    assert (Ecc : cc = snd (enc_chunk compress l (lenN pre) c)) by now rewrite EC.
    rewrite Ecc.
    rewrite (scan_chunk_roundtrip strict file fstart l (lenN pre) c contents CW IC P4).
    + cbn [rbind].
      pose proof (IH cs (lenN pre + lenN b) file (pre ++ b) post) as IH'.
      rewrite ER in IH'. cbn [fst snd] in IH'. rewrite IH'.
      * cbn [rbind cols_out]. unfold chunk_out, contents_of. rewrite IC. rewrite <- Eb. reflexivity.
      * cbn [length] in LEN. lia.
      * exact OKr.
      * rewrite FILE, <- !app_assoc. reflexivity.
      * apply lenN_app.
      * lia.
      * exact PF.
    + rewrite <- Eb. rewrite lenN_app in POS. lia.
    + rewrite <- Eb. exists pre, (concat bs ++ post). split; [|reflexivity]. rewrite FILE, <- !app_assoc. reflexivity.
Qed.

(* ---- the row groups of a file --------------------------------------------------------------------------- *)
Fixpoint rgs_out (ls : list lleaf) (rgs : list (list lchunk)) (pos : N) : list (rgroup * list chunk_res) :=
  match rgs with
  | [] => []
  | cs :: r =>
    (hd {| rg_cols := []; rg_tbs := 0; rg_nrows := 0 |} (snd (fst (enc_rgs compress ls (cs :: r) pos))), cols_out ls cs pos)
    :: rgs_out ls r (snd (enc_cols compress ls cs pos))
  end.

Lemma enc_rgs_pos ls : forall rgs pos,
  snd (enc_rgs compress ls rgs pos) = pos + lenN (concat (fst (fst (enc_rgs compress ls rgs pos)))).
Proof.
  induction rgs as [|cs r IH]; intros pos; [cbn; lia|]. cbn [enc_rgs].
  pose proof (enc_cols_pos ls cs pos) as P1.
  destruct (enc_cols compress ls cs pos) as [[bs ccs] pos1] eqn:EC.
  specialize (IH pos1). destruct (enc_rgs compress ls r pos1) as [[bs2 rs] pos2] eqn:ER. cbn [fst snd] in *.
  rewrite app_tr_ok, concat_app, lenN_app. lia.
Qed.

Definition rg_ok (ls : list lleaf) (cs : list lchunk) : Prop := length ls = length cs /\ Forall2 chunk_ok ls cs.

Theorem scan_rgs_roundtrip strict fstart ls : forall rgs pos file pre post,
  Forall (rg_ok ls) rgs ->
  file = pre ++ concat (fst (fst (enc_rgs compress ls rgs pos))) ++ post -> lenN pre = pos -> 4 <= pos ->
  snd (enc_rgs compress ls rgs pos) <= fstart ->
  map_rs (fun rg => let! cs := scan_cols decompress strict file fstart (map leaf_of_l ls) (rg_cols rg) in ROk (rg, cs))
         (snd (fst (enc_rgs compress ls rgs pos)))
  = ROk (rgs_out ls rgs pos).
Proof.
  induction rgs as [|cs r IH]; intros pos file pre post OK FILE PRE P4 PF; [reflexivity|].
  assert (OK1 : rg_ok ls cs) by (inversion OK; assumption).
  assert (OKr : Forall (rg_ok ls) r) by (inversion OK; assumption).
  destruct OK1 as [LEN F2].
  cbn [rgs_out]. cbn [enc_rgs] in *.
  pose proof (enc_cols_pos ls cs pos) as P1.
  pose proof (scan_cols_roundtrip strict fstart ls cs pos file pre) as SC.
  destruct (enc_cols compress ls cs pos) as [[bs ccs] pos1] eqn:EC.
  pose proof (enc_rgs_pos ls r pos1) as P2.
  pose proof (IH pos1 file (pre ++ concat bs) post OKr) as IH'.
  destruct (enc_rgs compress ls r pos1) as [[bs2 rs] pos2] eqn:ER. cbn [fst snd] in *.
  rewrite app_tr_ok, concat_app in FILE.
  cbn [map_rs rg_cols hd].
  rewrite (SC (concat bs2 ++ post)); try assumption.
  - cbn [rbind]. rewrite IH'.
    + reflexivity.
    + rewrite FILE, <- !app_assoc. reflexivity.
    + rewrite lenN_app. lia.
    + lia.
    + exact PF.
  - rewrite FILE, <- !app_assoc. reflexivity.
  - lia.
Qed.

(* ---- footer and file ----------------------------------------------------------------------------------- *)
Definition file_meta (f : lfile) : fmd :=
  let rgs := snd (fst (enc_rgs compress (l_leaves f) (l_rgs f) 4)) in
  {| fm_version := 1; fm_schema := root_selem (lenN (l_leaves f)) :: map selem_of_l (l_leaves f);
     fm_nrows := sumZ (map rg_nrows rgs); fm_rgs := rgs; fm_created_by := l_created_by f |}.

Definition file_data (f : lfile) : bytes := concat (fst (fst (enc_rgs compress (l_leaves f) (l_rgs f) 4))).
Definition file_footer (f : lfile) : bytes := wr (fmd_to_tv (file_meta f)).

Lemma enc_file_eq f :
  enc_file compress f = magic ++ file_data f ++ file_footer f ++ le_enc 4 (lenN (file_footer f)) ++ magic.
Proof.
  unfold enc_file, file_data, file_footer, file_meta.
  destruct (enc_rgs compress (l_leaves f) (l_rgs f) 4) as [[bs rgs] pos]. cbn [fst snd].
  now rewrite !app_tr_ok, concat_tr_ok.
Qed.

(* the footer is representable in the compact protocol: integers within their declared widths, strings
   shorter than 2^31, nesting <= 64, the footer itself shorter than 4 GiB; and the logical types the
   layout attaches to its leaves (carried as generic values) conform to the IDL's LogicalType.
   Conformance of the whole footer to the IDL then is a theorem (Proofs/FormatIdlProofs.v conf_fmd). *)
Definition leaf_logical_ok (l : lleaf) : Prop :=
  match ll_logical l with Some v => conforms pinned idl_opts (FStruct "LogicalType") v = true | None => True end.

Definition footer_ok (f : lfile) : Prop :=
  wfb (fmd_to_tv (file_meta f)) = true /\ (depth (fmd_to_tv (file_meta f)) <= max_depth)%nat /\
  Forall leaf_logical_ok (l_leaves f) /\
  lenN (file_footer f) < 2 ^ 32.

Lemma footer_conforms f : Forall leaf_logical_ok (l_leaves f) ->
  conforms pinned idl_opts (FStruct "FileMetaData") (fmd_to_tv (file_meta f)) = true.
Proof.
  intros H. apply conf_fmd. unfold file_meta. cbn [fm_schema]. constructor; [exact I|].
  apply Forall_forall. intros s Hs. apply in_map_iff in Hs. destruct Hs as (l & <- & Hl).
  rewrite Forall_forall in H. exact (H l Hl).
Qed.

Lemma magic_len : lenN magic = 4. Proof. reflexivity. Qed.

Lemma dropN_at {A} (pre x : list A) n : n = lenN pre -> dropN n (pre ++ x) = x.
Proof. intros ->. apply dropN_app_exact. Qed.
Lemma takeN_at {A} (a b : list A) n : n = lenN a -> takeN n (a ++ b) = a.
Proof. intros ->. apply takeN_app_exact. Qed.

Theorem parse_footer_roundtrip f : footer_ok f ->
  parse_footer (enc_file compress f) = ROk (file_meta f, 4 + lenN (file_data f), lenN (file_footer f)).
Proof.
  intros (WF & DP & LG & FL). pose proof (footer_conforms f LG) as CF. rewrite enc_file_eq. unfold parse_footer.
  set (D := file_data f). set (F := file_footer f). set (L := le_enc 4 (lenN F)).
  assert (LL : lenN L = 4) by (unfold L; now rewrite lenN_ok, le_enc_length).
  assert (TOT : lenN (magic ++ D ++ F ++ L ++ magic) = lenN D + lenN F + 12) by (rewrite !lenN_app, LL, magic_len; lia).
  rewrite TOT.
  destruct (N.leb_spec 12 (lenN D + lenN F + 12)) as [_|X]; [|lia]. cbn [guard rbind].
  rewrite (takeN_at magic) by reflexivity. rewrite bytes_eqb_refl. cbn [guard rbind].
  replace (magic ++ D ++ F ++ L ++ magic) with ((magic ++ D ++ F) ++ L ++ magic) by (now rewrite <- !app_assoc).
  rewrite (dropN_at (magic ++ D ++ F)) by (rewrite !lenN_app, magic_len; lia).
  rewrite (dropN_at L) by (now rewrite LL). rewrite bytes_eqb_refl. cbn [guard rbind].
  rewrite (takeN_at L) by (now rewrite LL).
  assert (LE : le2n_tr L = lenN F).
  { unfold L. rewrite le2n_tr_ok, le2n_le_enc. change (256 ^ N.of_nat 4) with (2 ^ 32). now rewrite N.mod_small. }
  rewrite !LE.
  destruct (N.leb_spec (lenN F + 12) (lenN D + lenN F + 12)) as [_|X]; [|lia]. cbn [guard rbind].
  replace ((magic ++ D ++ F) ++ L ++ magic) with ((magic ++ D) ++ F ++ L ++ magic) by (now rewrite <- !app_assoc).
  rewrite (dropN_at (magic ++ D)) by (rewrite lenN_app, magic_len; lia).
  rewrite (takeN_at F) by reflexivity.
  unfold F at 1, file_footer. unfold thrift_dec, thrift_dec_ty.
  pose proof (rd_wr true max_depth (fmd_to_tv (file_meta f)) [] DP WF) as R. rewrite app_nil_r in R.
  change (nib (fmd_to_tv (file_meta f))) with 12 in R. rewrite R. cbn [guard rbind].
  rewrite CF. cbn [guard rbind]. rewrite fmd_of_to.
  do 3 f_equal. lia.
Qed.

(* ---- schema ---------------------------------------------------------------------------------------------- *)
Definition leaf_wf (l : lleaf) : Prop :=
  match ll_type l with FLBA => 0 < ll_tlen l | _ => ll_tlen l = 0 end.

Lemma ptype_of_to t : ptype_of_id (ptype_id t) = Some t.
Proof. destruct t; reflexivity. Qed.

Lemma leaf_of_selem l : leaf_wf l -> leaf_of (selem_of_l l) = ROk (leaf_of_l l).
Proof.
  intros W. unfold leaf_of, selem_of_l, leaf_of_l, desc_of, leaf_wf in *.
  cbn [se_nchildren se_type se_tlen se_rep se_name se_conv se_logical se_scale se_prec]. rewrite ptype_of_to.
  destruct l as [nm t tl op cv lg sc pr]. cbn [ll_type ll_tlen ll_optional ll_name ll_conv ll_logical ll_scale ll_prec] in *.
  destruct t; cbn [rbind]; try (subst tl; destruct op; reflexivity).
  destruct (Z.leb_spec (Z.of_N tl) 0) as [X|X]; [lia|]. cbn [rbind]. rewrite N2Z.id. destruct op; reflexivity.
Qed.

Lemma map_rs_ok {A B} (f : A -> rs B) (g : A -> B) l : (forall x, In x l -> f x = ROk (g x)) -> map_rs f l = ROk (map g l).
Proof.
  induction l as [|x l IH]; intros H; [reflexivity|]. cbn [map_rs map].
  rewrite (H x) by (now left). cbn [rbind]. rewrite IH by (intros y Hy; apply H; now right). reflexivity.
Qed.

Lemma leaves_of_schema ls : Forall leaf_wf ls ->
  leaves_of (root_selem (lenN ls) :: map selem_of_l ls) = ROk (map leaf_of_l ls).
Proof.
  intros W. unfold leaves_of, root_selem. cbn [se_nchildren].
  rewrite !lenN_ok, map_length, Z.eqb_refl.
  induction W as [|l ls Wl Wls IH]; [reflexivity|].
  cbn [map map_rs]. rewrite leaf_of_selem by exact Wl. cbn [rbind]. rewrite IH. reflexivity.
Qed.

(* ---- whole file: scan, decode ------------------------------------------------------------------------------ *)
Definition lfile_wf (f : lfile) : Prop :=
  Forall leaf_wf (l_leaves f) /\ Forall (rg_ok (l_leaves f)) (l_rgs f) /\ footer_ok f.

Definition file_out_of (f : lfile) : file_out :=
  {| fo_len := lenN (enc_file compress f); fo_fstart := 4 + lenN (file_data f); fo_flen := lenN (file_footer f);
     fo_meta := file_meta f; fo_leaves := map leaf_of_l (l_leaves f); fo_rgs := rgs_out (l_leaves f) (l_rgs f) 4 |}.

Theorem scan_file_roundtrip strict f : lfile_wf f ->
  scan_file decompress strict (enc_file compress f) = ROk (file_out_of f).
Proof.
  intros (LW & RW & FW). unfold scan_file. rewrite parse_footer_roundtrip by exact FW. cbn [rbind].
  unfold file_meta at 1. cbn [fm_schema]. rewrite leaves_of_schema by exact LW. cbn [rbind].
  unfold file_meta at 1. cbn [fm_rgs].
  pose proof (enc_rgs_pos (l_leaves f) (l_rgs f) 4) as P.
  rewrite (scan_rgs_roundtrip strict (4 + lenN (file_data f)) (l_leaves f) (l_rgs f) 4 (enc_file compress f) magic
             (file_footer f ++ le_enc 4 (lenN (file_footer f)) ++ magic) RW).
  - reflexivity.
  - rewrite enc_file_eq. reflexivity.
  - reflexivity.
  - lia.
  - unfold file_data. lia.
Qed.

Definition chunk_cells (l : lleaf) (c : lchunk) : list (option value) := concat (map content_cells (contents_of l c)).

Lemma cols_out_cells : forall ls cs pos,
  map_rs cells_here (cols_out ls cs pos) = ROk (map (fun lc => chunk_cells (fst lc) (snd lc)) (combine ls cs)).
Proof.
  induction ls as [|l ls IH]; intros cs pos; [reflexivity|]. destruct cs as [|c cs]; [reflexivity|].
  cbn [cols_out map_rs combine map chunk_out cells_here co_cells rbind fst snd]. rewrite IH. reflexivity.
Qed.

Definition file_cells (f : lfile) : list (list (list (option value))) :=
  map (fun cs => map (fun lc => chunk_cells (fst lc) (snd lc)) (combine (l_leaves f) cs)) (l_rgs f).

Lemma rgs_out_cells ls : forall rgs pos,
  map_rs (fun rc : rgroup * list chunk_res => map_rs cells_here (snd rc)) (rgs_out ls rgs pos)
  = ROk (map (fun cs => map (fun lc => chunk_cells (fst lc) (snd lc)) (combine ls cs)) rgs).
Proof.
  induction rgs as [|cs r IH]; intros pos; [reflexivity|].
  cbn [rgs_out map_rs map snd]. rewrite cols_out_cells. cbn [rbind]. rewrite IH. reflexivity.
Qed.

Theorem dec_file_roundtrip strict f : lfile_wf f ->
  dec_file decompress strict (enc_file compress f) = ROk (map leaf_of_l (l_leaves f), file_cells f).
Proof.
  intros W. unfold dec_file. rewrite scan_file_roundtrip by exact W. cbn [rbind file_out_of fo_rgs fo_leaves].
  rewrite rgs_out_cells. reflexivity.
Qed.

(* the decoded cells are the denotation table_of *)
Lemma items_cells_contents cd : forall its dict contents,
  items_contents cd dict its = Some contents -> items_cells cd dict its = Some (concat (map content_cells contents)).
Proof.
  induction its as [|it r IH]; intros dict contents H; cbn [items_contents] in H.
  - injection H as <-. reflexivity.
  - destruct (item_content cd dict it) as [c|] eqn:IC; [|discriminate].
    destruct (items_contents cd (next_dict dict c) r) as [cr|] eqn:ICr; [|discriminate].
    cbn [option_map] in H. injection H as <-.
    destruct it as [e vs|p]; cbn [item_content] in IC.
    + injection IC as <-. cbn [items_cells next_dict] in *. rewrite (IH _ _ ICr). reflexivity.
    + destruct (page_cells cd dict p) as [cs|] eqn:PC; [|discriminate]. injection IC as <-.
      cbn [items_cells next_dict] in *. rewrite PC, (IH _ _ ICr), app_tr_ok. reflexivity.
Qed.

Lemma map2_opt_cells : forall ls cs, Forall2 chunk_ok ls cs ->
  map2_opt (fun l c => items_cells (desc_of l) None (lc_items c)) ls cs
  = Some (map (fun lc => chunk_cells (fst lc) (snd lc)) (combine ls cs)).
Proof.
  induction 1 as [|l c ls cs [_ [contents IC]] _ IH]; [reflexivity|].
  cbn [map2_opt combine map fst snd]. rewrite (items_cells_contents _ _ _ _ IC), IH.
  unfold chunk_cells, contents_of. now rewrite IC.
Qed.

Theorem table_of_cells f : lfile_wf f -> table_of f = Some (map leaf_of_l (l_leaves f), file_cells f).
Proof.
  intros (_ & RW & _). unfold table_of, file_cells.
  assert (E : map_opt (fun rg => map2_opt (fun l c => items_cells (desc_of l) None (lc_items c)) (l_leaves f) rg) (l_rgs f)
              = Some (map (fun cs => map (fun lc => chunk_cells (fst lc) (snd lc)) (combine (l_leaves f) cs)) (l_rgs f))).
  { induction RW as [|cs r [_ F2] _ IH]; [reflexivity|]. cbn [map_opt map]. now rewrite (map2_opt_cells _ _ F2), IH. }
  now rewrite E.
Qed.

(* spec_roundtrip, decoding half: for every well-formed laid-out file the specification decoder
   returns the table the layout denotes *)
Theorem spec_roundtrip_dec strict f t : lfile_wf f -> table_of f = Some t ->
  dec_file decompress strict (enc_file compress f) = ROk t.
Proof. intros W T. rewrite table_of_cells in T by exact W. injection T as <-. now apply dec_file_roundtrip. Qed.

(* ---- whole file: validity ------------------------------------------------------------------------------------ *)
Lemma nulls_agree cd : forall its dict contents,
  items_contents cd dict its = Some contents ->
  sumN (map (item_nulls cd) its) = fold_right N.add 0 (map content_nulls contents).
Proof.
  induction its as [|it r IH]; intros dict contents H; cbn [items_contents] in H.
  - injection H as <-. reflexivity.
  - destruct (item_content cd dict it) as [c|] eqn:IC; [|discriminate].
    destruct (items_contents cd (next_dict dict c) r) as [cr|] eqn:ICr; [|discriminate].
    cbn [option_map] in H. injection H as <-. cbn [map fold_right]. rewrite sumN_cons, (IH _ _ ICr). f_equal.
    destruct it as [e vs|p]; cbn [item_content] in IC.
    + injection IC as <-. reflexivity.
    + destruct (page_cells cd dict p); [|discriminate]. injection IC as <-. reflexivity.
Qed.

(* strict layouts: dictionary page (if any) first and alone; every chunk of a row group has the rows of the first *)
Definition rg_strict (cs : list lchunk) : Prop :=
  Forall (fun c => its_shape (lc_items c) /\ sumN (map item_nvals (lc_items c)) = rg_rows cs) cs.

Definition tus_of (c : chunk_res) : Z := match c with CHere o => cm_tus (co_meta o) | _ => 0%Z end.

Lemma cols_out_tus : forall ls cs pos,
  length ls = length cs ->
  map (fun c => match cc_meta c with Some m => cm_tus m | None => 0%Z end) (snd (fst (enc_cols compress ls cs pos)))
  = map tus_of (cols_out ls cs pos).
Proof.
  induction ls as [|l ls IH]; intros cs pos LEN; destruct cs as [|c cs]; try discriminate; [reflexivity|].
  cbn [enc_cols cols_out].
  destruct (enc_chunk compress l pos c) as [b cc] eqn:EC.
  specialize (IH cs (pos + lenN b)).
  destruct (enc_cols compress ls cs (pos + lenN b)) as [[bs ccs] pos'] eqn:ER. cbn [fst snd map] in *.
  assert (Eb : lenN (chunk_bytes l pos c) = lenN b) by (unfold chunk_bytes; now rewrite EC).
  rewrite Eb, <- IH by (cbn [length] in LEN; lia). f_equal.
  unfold chunk_out, tus_of, chunk_meta. cbn [co_meta]. rewrite EC. cbn [snd].
  unfold enc_chunk in EC. cbn zeta in EC. injection EC as _ <-. reflexivity.
Qed.

Lemma all_here_cols : forall ls cs pos, all_here (cols_out ls cs pos) = true.
Proof. induction ls as [|l ls IH]; intros cs pos; [reflexivity|]. destruct cs; [reflexivity|]. cbn [cols_out all_here forallb chunk_out]. apply IH. Qed.

Lemma valid_cols rg : forall ls cs pos,
  Forall2 chunk_ok ls cs ->
  Forall (fun c => its_shape (lc_items c) /\ rg_nrows rg = Z.of_N (sumN (map item_nvals (lc_items c)))) cs ->
  map_rs (valid_chunk rg) (cols_out ls cs pos) = ROk (map (fun _ => tt) (cols_out ls cs pos)).
Proof.
  induction ls as [|l ls IH]; intros cs pos OK ST; [reflexivity|]. destruct cs as [|c cs]; [reflexivity|].
  assert (OK1 : chunk_ok l c) by (inversion OK; assumption).
  assert (OKr : Forall2 chunk_ok ls cs) by (inversion OK; assumption).
  assert (ST1 : its_shape (lc_items c) /\ rg_nrows rg = Z.of_N (sumN (map item_nvals (lc_items c)))) by (inversion ST; assumption).
  assert (STr : Forall (fun c => its_shape (lc_items c) /\ rg_nrows rg = Z.of_N (sumN (map item_nvals (lc_items c)))) cs) by (inversion ST; assumption).
  destruct OK1 as [_ [contents IC]]. destruct ST1 as [SH NR].
  cbn [cols_out map_rs map]. unfold chunk_out at 1, contents_of. rewrite IC.
  rewrite (valid_chunk_enc l pos c contents rg SH IC NR (nulls_agree _ _ _ _ IC)). cbn [rbind].
  rewrite (IH cs _ OKr STr). reflexivity.
Qed.

Lemma enc_rgs_cons ls cs r pos :
  snd (fst (enc_rgs compress ls (cs :: r) pos))
  = {| rg_cols := snd (fst (enc_cols compress ls cs pos));
       rg_tbs := sumZ (map (fun c => match cc_meta c with Some m => cm_tus m | None => 0%Z end) (snd (fst (enc_cols compress ls cs pos))));
       rg_nrows := Z.of_N (rg_rows cs) |} :: snd (fst (enc_rgs compress ls r (snd (enc_cols compress ls cs pos)))).
Proof.
  cbn [enc_rgs]. destruct (enc_cols compress ls cs pos) as [[bs ccs] pos1]. cbn [fst snd].
  destruct (enc_rgs compress ls r pos1) as [[bs2 rs] pos2]. reflexivity.
Qed.

Lemma rgs_out_fst ls : forall rgs pos, map fst (rgs_out ls rgs pos) = snd (fst (enc_rgs compress ls rgs pos)).
Proof.
  induction rgs as [|cs r IH]; intros pos; [reflexivity|].
  cbn [rgs_out map fst]. rewrite IH, enc_rgs_cons. reflexivity.
Qed.

Theorem valid_rgs ls : forall rgs pos,
  Forall (rg_ok ls) rgs -> Forall rg_strict rgs ->
  map_rs valid_rg (rgs_out ls rgs pos) = ROk (map (fun _ => tt) (rgs_out ls rgs pos)).
Proof.
  induction rgs as [|cs r IH]; intros pos OK ST; [reflexivity|].
  assert (OK1 : rg_ok ls cs) by (inversion OK; assumption).
  assert (OKr : Forall (rg_ok ls) r) by (inversion OK; assumption).
  assert (ST1 : rg_strict cs) by (inversion ST; assumption).
  assert (STr : Forall rg_strict r) by (inversion ST; assumption).
  destruct OK1 as [LEN F2].
  cbn [rgs_out map_rs map]. rewrite enc_rgs_cons. cbn [hd].
  unfold valid_rg at 1.
  rewrite (valid_cols _ ls cs pos F2).
  - cbn [rbind rg_tbs rg_nrows]. rewrite all_here_cols. cbn [negb orb].
    rewrite cols_out_tus by exact LEN.
    assert (E : map (fun c => match c with CHere o => cm_tus (co_meta o) | CExternal _ => 0%Z end) (cols_out ls cs pos)
                = map tus_of (cols_out ls cs pos)) by reflexivity.
    rewrite E, Z.eqb_refl. cbn [guard rbind].
    destruct (Z.leb_spec 0 (Z.of_N (rg_rows cs))) as [_|X]; [|lia]. cbn [guard rbind].
    rewrite (IH _ OKr STr). reflexivity.
  - cbn [rg_nrows]. unfold rg_strict in ST1. eapply Forall_impl; [|exact ST1].
    intros c [SH NR]. split; [exact SH|now rewrite NR].
Qed.

Theorem valid_file_roundtrip strict f : lfile_wf f -> Forall rg_strict (l_rgs f) ->
  valid_file decompress strict (enc_file compress f) = ROk tt.
Proof.
  intros W ST. unfold valid_file. rewrite scan_file_roundtrip by exact W. cbn [rbind].
  destruct W as (LW & RW & FW).
  unfold valid_out, file_out_of. cbn [fo_rgs fo_meta].
  rewrite (valid_rgs _ _ 4 RW ST). cbn [rbind].
  unfold file_meta. cbn [fm_nrows].
  destruct (rgs_out (l_leaves f) (l_rgs f) 4) as [|x xs] eqn:E; [reflexivity|].
  rewrite <- E. rewrite <- (map_map fst rg_nrows), rgs_out_fst, Z.eqb_refl. reflexivity.
Qed.

(* spec_roundtrip: the two halves together *)
Theorem spec_roundtrip strict f t : lfile_wf f -> Forall rg_strict (l_rgs f) -> table_of f = Some t ->
  dec_file decompress strict (enc_file compress f) = ROk t /\
  valid_file decompress strict (enc_file compress f) = ROk tt.
Proof. intros W S T. split; [now apply spec_roundtrip_dec|now apply valid_file_roundtrip]. Qed.

End WithCodecs4.

(* ---- the writer's bookkeeping against the validator ---------------------------------------------------
   C02_fp_write_valid at the level the writer model has: whatever page payloads write_column emits, if the
   ColumnMetaData it records are those of its running-position/diff bookkeeping (ChunkLayout.wr_bookkeeping),
   num_values is the row count and null_count the number of NULL levels, then the validator's chunk check
   accepts the scanned chunk. *)
Theorem fp_write_chunk_valid : forall start encs (ps : list page) (m : cmd) cells nulls rg,
  ps <> [] ->
  forallb is_data (tl ps) = true ->
  (is_data (hd {| p_kind := PData1; p_hdr := 1; p_comp := 0; p_uncomp := 0; p_nvals := 0; p_enc := 0 |} ps) = false -> tl ps <> []) ->
  forallb sane ps = true ->
  forallb (fun p => existsb (Z.eqb (p_enc p)) encs) ps = true ->
  cmeta_of m = wr_bookkeeping start (sumZ (map p_nvals (filter is_data ps))) encs ps ->
  cm_nvals m = rg_nrows rg ->
  (cm_null_count m = None \/ cm_null_count m = Some (Z.of_N nulls)) ->
  valid_chunk rg (CHere {| co_meta := m; co_pages := ps; co_cells := cells; co_nulls := nulls |}) = ROk tt.
Proof.
  intros start encs ps m cells nulls rg H1 H2 H3 H4 H5 HM HN HU.
  unfold valid_chunk. cbn [co_meta co_pages co_nulls].
  rewrite HM, (wr_bookkeeping_ok start encs ps H1 H2 H3 H4 H5). cbn [guard rbind].
  rewrite HN, Z.eqb_refl. cbn [guard rbind].
  destruct HU as [-> | ->]; [|rewrite Z.eqb_refl]; cbn [guard rbind]; destruct (cm_index_off m); reflexivity.
Qed.
