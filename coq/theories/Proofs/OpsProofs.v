From Coq Require Import NArith Arith List Bool Lia Decimal DecimalN DecimalPos.
From Pq Require Import Base.Bytes Proofs.BytesProofs Dataset.FS Dataset.FsPaths Dataset.Crash Dataset.Ops Proofs.CrashProofs.
Import ListNotations.
Open Scope N_scope.

(* ================= part names: PART_ID.match(join(dir, 'part.%i.parquet' % n))['i'] = n ================= *)
Lemma uint_bytes_digits u : Forall (fun b => is_digit b = true) (uint_bytes u).
Proof. induction u; cbn; constructor; auto. Qed.

Lemma uint_bytes_not10 u : existsb (N.eqb 10) (uint_bytes u) = false.
Proof. induction u; cbn; auto. Qed.

Lemma bytes_uint_bytes u : bytes_uint (uint_bytes u) = Some u.
Proof. induction u; cbn; try reflexivity; rewrite IHu; reflexivity. Qed.

Lemma undec_dec n : undec (dec n) = Some n.
Proof. unfold undec, dec. rewrite bytes_uint_bytes. cbn. f_equal. apply DecimalN.Unsigned.of_to. Qed.

Lemma dec_nonnil n : dec n <> [].
Proof.
  unfold dec. destruct n as [|p]; cbn; [discriminate|].
  pose proof (Unsigned.to_uint_nonnil p) as H. destruct (Pos.to_uint p); cbn; try discriminate. congruence.
Qed.

Lemma strip_prefix_app a b : strip_prefix a (a ++ b) = Some b.
Proof. induction a as [|x a IH]; cbn; [reflexivity|]. now rewrite N.eqb_refl. Qed.

Lemma is_prefix_app a b : is_prefix a (a ++ b) = true.
Proof. apply is_prefix_spec. now exists b. Qed.

Lemma span_digits_app ds x rest : Forall (fun b => is_digit b = true) ds -> is_digit x = false ->
  span_digits (ds ++ x :: rest) = (ds, x :: rest).
Proof.
  intros H Hx. induction H as [|d ds Hd _ IH]; cbn; [now rewrite Hx|]. now rewrite Hd, IH.
Qed.

Lemma existsb_rev {A} (f : A -> bool) l : existsb f (List.rev l) = existsb f l.
Proof.
  induction l as [|x l IH]; cbn; [reflexivity|]. rewrite existsb_app, IH. cbn. rewrite orb_false_r. apply orb_comm.
Qed.

(* pre = "" or dir ++ "/" *)
Lemma part_id_named pre n : existsb (N.eqb 10) pre = false ->
  part_id (pre ++ part_name n) = Some n.
Proof.
  intros Hpre. unfold part_id, part_name.
  replace (List.rev (pre ++ s_part ++ [dot] ++ dec n ++ [dot] ++ s_parquet))
    with (List.rev s_parquet ++ dot :: (List.rev (dec n) ++ dot :: (List.rev s_part ++ List.rev pre))).
  2:{ rewrite !rev_app_distr. cbn [List.rev app]. rewrite <- !app_assoc. reflexivity. }
  change (List.rev s_parquet ++ dot :: (List.rev (dec n) ++ dot :: (List.rev s_part ++ List.rev pre)))
    with (116 :: (tl (List.rev s_parquet) ++ dot :: (List.rev (dec n) ++ dot :: (List.rev s_part ++ List.rev pre)))).
  cbv iota beta zeta.
  change (116 :: (tl (List.rev s_parquet) ++ dot :: (List.rev (dec n) ++ dot :: (List.rev s_part ++ List.rev pre))))
    with (List.rev s_parquet ++ dot :: (List.rev (dec n) ++ dot :: (List.rev s_part ++ List.rev pre))).
  replace (existsb (N.eqb 10) (List.rev s_parquet ++ dot :: (List.rev (dec n) ++ dot :: (List.rev s_part ++ List.rev pre)))) with false.
  2:{ symmetry. rewrite existsb_app. cbn [existsb]. rewrite existsb_app. cbn [existsb]. rewrite existsb_app.
      rewrite !existsb_rev, Hpre. unfold dec. rewrite uint_bytes_not10. reflexivity. }
  rewrite strip_prefix_app.
  rewrite span_digits_app; [| apply Forall_rev, uint_bytes_digits | reflexivity].
  replace (is_prefix (List.rev s_part) (dot :: List.rev s_part ++ List.rev pre)) with false by reflexivity.
  cbn [andb]. rewrite is_prefix_app. rewrite rev_involutive, undec_dec.
  destruct (List.rev (dec n)) eqn:E; [|reflexivity].
  exfalso. apply (dec_nonnil n). apply (f_equal (@List.rev N)) in E. now rewrite rev_involutive in E.
Qed.

Lemma part_id_join d n : good_dir d = true -> part_id (join d (part_name n)) = Some n.
Proof.
  unfold good_dir, join. intros H. apply negb_true_iff in H. destruct d as [|x d].
  - apply (part_id_named [] n). reflexivity.
  - replace ((x :: d) ++ [slash] ++ part_name n) with (((x :: d) ++ [slash]) ++ part_name n) by now rewrite <- app_assoc.
    apply part_id_named. rewrite existsb_app, H. reflexivity.
Qed.

Lemma part_id_md : part_id md_name = None /\ part_id cmd_name = None.
Proof. split; vm_compute; reflexivity. Qed.

(* ================= find_max_part ================= *)
Lemma fold_max_ge l : forall a, a <= fold_left N.max l a /\ Forall (fun x => x <= fold_left N.max l a) l.
Proof.
  induction l as [|x l IH]; intros a; cbn; [split; [lia | constructor]|].
  destruct (IH (N.max a x)) as [H1 H2]. split; [lia|]. constructor; [lia | exact H2].
Qed.

Lemma part_ids_in refs l : part_ids refs = Some l -> forall q, In q refs -> exists m, part_id q = Some m /\ In m l.
Proof.
  revert l. induction refs as [|p r IH]; intros l H q Hq; [destruct Hq|]. cbn in H.
  destruct (part_id p) as [n|] eqn:Ep; [|discriminate]. destruct (part_ids r) as [l'|]; [|discriminate].
  inversion H; subst l. destruct Hq as [Hq|Hq].
  - subst q. exists n. split; [exact Ep | now left].
  - destruct (IH l' eq_refl q Hq) as [m [Hm Hin]]. exists m. split; [exact Hm | now right].
Qed.

Lemma find_max_part_bound refs off : find_max_part refs = Some off ->
  forall q, In q refs -> exists m, part_id q = Some m /\ m < off.
Proof.
  unfold find_max_part. destruct (part_ids refs) as [l|] eqn:E; [|discriminate].
  intros H q Hq. destruct (part_ids_in refs l E q Hq) as [m [Hm Hin]]. exists m. split; [exact Hm|].
  destruct l as [|n l]; [destruct Hin|]. inversion H; subst off.
  destruct (fold_max_ge l n) as [H1 H2]. destruct Hin as [Hin|Hin]; [subst; lia|].
  rewrite Forall_forall in H2. specialize (H2 m Hin). lia.
Qed.

(* ================= the new files ================= *)
Lemma new_files_names rgs : forall off d f cs, In (d, f, cs) (new_files off rgs) ->
  exists n, off <= n /\ f = join d (part_name n) /\ exists rg, In rg rgs /\ In (d, cs) rg.
Proof.
  induction rgs as [|rg r IH]; intros off d f cs H; [destruct H|]. cbn in H. apply in_app_or in H. destruct H as [H|H].
  - apply in_map_iff in H. destruct H as [[d' cs'] [E Hin]]. inversion E; subst. exists off. split; [lia|].
    split; [reflexivity|]. exists rg. split; [now left | exact Hin].
  - destruct (IH _ _ _ _ H) as [n [Hn [Hf [rg' [Hr Hp]]]]]. exists n. split; [lia|]. split; [exact Hf|].
    exists rg'. split; [now right | exact Hp].
Qed.

Lemma good_dirs_in rgs rg d cs : good_dirs rgs = true -> In rg rgs -> In (d, cs) rg -> good_dir d = true.
Proof.
  unfold good_dirs. rewrite forallb_forall. intros H Hr Hp. specialize (H rg Hr).
  rewrite forallb_forall in H. exact (H (d, cs) Hp).
Qed.

(* a new file is none of the referenced files and none of the summary files *)
Lemma new_file_fresh refs off rgs d f cs : find_max_part refs = Some off -> good_dirs rgs = true ->
  In (d, f, cs) (new_files off rgs) ->
  forall q, In q (md_name :: cmd_name :: refs) -> bytes_eqb f q = false.
Proof.
  intros Hoff Hg Hin q Hq. destruct (new_files_names rgs off d f cs Hin) as [n [Hn [Hf [rg [Hr Hp]]]]].
  pose proof (part_id_join d n (good_dirs_in rgs rg d cs Hg Hr Hp)) as Pid. rewrite <- Hf in Pid.
  apply bytes_eqb_false. intros E. subst q. destruct part_id_md as [M1 M2].
  destruct Hq as [Hq|[Hq|Hq]].
  - rewrite <- Hq in Pid. congruence.
  - rewrite <- Hq in Pid. congruence.
  - destruct (find_max_part_bound refs off Hoff f Hq) as [m [Hm Hlt]]. rewrite Pid in Hm. inversion Hm. lia.
Qed.

Lemma summary_not_ref refs off : find_max_part refs = Some off -> ~ In md_name refs /\ ~ In cmd_name refs.
Proof.
  intros Hoff. destruct part_id_md as [M1 M2]. split; intros H;
    destruct (find_max_part_bound refs off Hoff _ H) as [m [Hm _]]; congruence.
Qed.

(* ================= the model trace is in the validated relation ================= *)
Lemma write_file_untouched p cs qs : (forall q, In q qs -> bytes_eqb p q = false) ->
  forallb (fun c => untouched c qs) (write_file p cs) = true.
Proof.
  intros H. assert (U : forall c, (c = OpenW p true \/ (exists d, c = Write p d) \/ c = Close p) -> untouched c qs = true).
  { intros c Hc. apply untouched_spec. intros q Hq. destruct Hc as [Hc|[[d Hc]|Hc]]; subst c; cbn; auto. }
  unfold write_file. cbn [forallb]. rewrite U by now left. rewrite forallb_app. cbn.
  rewrite (U (Close p)) by (right; now right). rewrite andb_true_r. cbn.
  apply forallb_forall. intros c Hc. apply in_map_iff in Hc. destruct Hc as [d [Hd _]]. apply U. right; left. now exists d.
Qed.

Lemma write_file_no_md p cs : bytes_eqb p md_name = false -> existsb is_md_open (write_file p cs) = false.
Proof.
  intros H. unfold write_file. cbn. rewrite H. cbn. rewrite existsb_app. cbn. rewrite orb_false_r.
  induction cs; cbn; auto.
Qed.

Lemma handles_write_file p cs h : fold_left handles_step (write_file p cs) h = filter (fun q => negb (bytes_eqb p q)) (p :: h).
Proof.
  unfold write_file. cbn [fold_left handles_step]. rewrite fold_left_app. cbn [fold_left handles_step].
  f_equal. induction cs as [|c cs IH]; cbn [map fold_left handles_step]; [reflexivity | exact IH].
Qed.

Lemma handles_write_file_nil p cs : fold_left handles_step (write_file p cs) [] = [].
Proof. rewrite handles_write_file. cbn. now rewrite bytes_eqb_refl. Qed.

Lemma untouched_mkdir d qs : untouched (Mkdir d) qs = true.
Proof. apply untouched_spec. reflexivity. Qed.

Lemma block_props refs off rgs partitioned b : find_max_part refs = Some off -> good_dirs rgs = true ->
  In b (new_files off rgs) ->
  forallb (fun c => untouched c (md_name :: cmd_name :: refs)) (block_calls partitioned b) = true
  /\ existsb is_md_open (block_calls partitioned b) = false
  /\ fold_left handles_step (block_calls partitioned b) [] = [].
Proof.
  intros Hoff Hg Hin. destruct b as [[d f] cs]. pose proof (new_file_fresh refs off rgs d f cs Hoff Hg Hin) as F.
  unfold block_calls. split; [|split].
  - rewrite forallb_app. rewrite (write_file_untouched f cs _ F). destruct partitioned; [cbn [forallb]; now rewrite untouched_mkdir | reflexivity].
  - rewrite existsb_app. rewrite write_file_no_md by (apply F; now left). destruct partitioned; reflexivity.
  - rewrite fold_left_app. destruct partitioned; cbn [fold_left handles_step]; apply handles_write_file_nil.
Qed.

Lemma blocks_props refs off rgs partitioned : find_max_part refs = Some off -> good_dirs rgs = true ->
  forall bs, (forall b, In b bs -> In b (new_files off rgs)) ->
  forallb (fun c => untouched c (md_name :: cmd_name :: refs)) (concat (map (block_calls partitioned) bs)) = true
  /\ existsb is_md_open (concat (map (block_calls partitioned) bs)) = false
  /\ fold_left handles_step (concat (map (block_calls partitioned) bs)) [] = [].
Proof.
  intros Hoff Hg. induction bs as [|b bs IH]; intros Hsub; [repeat split|]. cbn [map concat].
  destruct (block_props refs off rgs partitioned b Hoff Hg (Hsub b (or_introl eq_refl))) as [B1 [B2 B3]].
  destruct (IH (fun x Hx => Hsub x (or_intror Hx))) as [I1 [I2 I3]].
  rewrite forallb_app, existsb_app, fold_left_app, B1, B2, B3, I1, I2, I3. repeat split.
Qed.

Theorem append_is_safe refs partitioned rgs md cmd tr :
  append_trace refs partitioned rgs md cmd = Some tr -> good_dirs rgs = true -> safe_trace refs tr.
Proof.
  unfold append_trace. destruct (find_max_part refs) as [off|] eqn:Hoff; [|discriminate].
  intros E Hg. inversion E; subst tr. clear E. apply check_safe_trace_sound.
  destruct (blocks_props refs off rgs partitioned Hoff Hg (new_files off rgs) (fun b H => H)) as [B1 [B2 B3]].
  destruct (summary_not_ref refs off Hoff) as [N1 N2].
  unfold check_safe_trace. rewrite (split_md_nomd _ _ B2).
  assert (S : split_md (summary_calls md cmd) = ([], summary_calls md cmd)) by reflexivity.
  rewrite S. cbn [fst snd]. rewrite app_nil_r, B1. unfold open_handles. rewrite B3. cbn [is_nil orb andb].
  rewrite orb_true_r. cbn [andb].
  assert (P : forall p cs, (p = md_name \/ p = cmd_name) ->
            forallb (fun c => untouched c refs && post_ok c) (write_file p cs) = true).
  { intros p cs Hp. assert (Hnr : forall q, In q refs -> bytes_eqb p q = false).
    { intros q Hq. apply bytes_eqb_false. intros Eq. subst q. destruct Hp; subst p; auto. }
    assert (Hok : bytes_eqb p md_name || bytes_eqb p cmd_name = true).
    { destruct Hp; subst p; [now rewrite bytes_eqb_refl | rewrite (bytes_eqb_refl cmd_name); apply orb_true_r]. }
    apply forallb_forall. intros c Hc.
    pose proof (write_file_untouched p cs refs Hnr) as U. rewrite forallb_forall in U. rewrite (U c Hc). cbn [andb].
    unfold write_file in Hc. destruct Hc as [Hc|Hc]; [subst c; exact Hok|].
    apply in_app_or in Hc. destruct Hc as [Hc|[Hc|[]]].
    - apply in_map_iff in Hc. destruct Hc as [d [Hd _]]. subst c. exact Hok.
    - subst c. reflexivity. }
  unfold summary_calls. rewrite forallb_app, !P; auto.
Qed.

(* ================= running the whole trace ================= *)
Lemma run_writes p cs : forall s acc, FS.lookup p s = Some acc ->
  FS.lookup p (run_trace (map (Write p) cs) s) = Some (acc ++ concat cs)
  /\ forall q, bytes_eqb p q = false -> FS.lookup q (run_trace (map (Write p) cs) s) = FS.lookup q s.
Proof.
  induction cs as [|c cs IH]; intros s acc H; cbn [map concat].
  - rewrite app_nil_r. split; [exact H | reflexivity].
  - change (run_trace (Write p c :: map (Write p) cs) s) with (run_trace (map (Write p) cs) (step s (Write p c))).
    assert (H' : FS.lookup p (step s (Write p c)) = Some (acc ++ c)) by (cbn; rewrite H; apply lookup_set_same).
    destruct (IH _ _ H') as [I1 I2]. split; [rewrite I1; now rewrite <- app_assoc|].
    intros q Hq. rewrite (I2 q Hq). cbn. rewrite H. now apply lookup_set_other.
Qed.

Lemma run_write_file p cs s :
  FS.lookup p (run_trace (write_file p cs) s) = Some (concat cs)
  /\ forall q, bytes_eqb p q = false -> FS.lookup q (run_trace (write_file p cs) s) = FS.lookup q s.
Proof.
  unfold write_file. change (run_trace (OpenW p true :: map (Write p) cs ++ [Close p]) s)
    with (run_trace (map (Write p) cs ++ [Close p]) (set_file p [] s)).
  rewrite run_app. cbn [run_trace fold_left step].
  destruct (run_writes p cs (set_file p [] s) [] (lookup_set_same p [] s)) as [W1 W2]. split; [exact W1|].
  intros q Hq. change (fold_left step (map (Write p) cs) (set_file p [] s)) with (run_trace (map (Write p) cs) (set_file p [] s)).
  rewrite (W2 q Hq). now apply lookup_set_other.
Qed.

Lemma run_block partitioned d f cs s :
  FS.lookup f (run_trace (block_calls partitioned (d, f, cs)) s) = Some (concat cs)
  /\ forall q, bytes_eqb f q = false -> FS.lookup q (run_trace (block_calls partitioned (d, f, cs)) s) = FS.lookup q s.
Proof.
  unfold block_calls. rewrite run_app. destruct partitioned; apply run_write_file.
Qed.

(* every new file holds exactly what was written into it - when the new paths are pairwise distinct *)
Lemma run_blocks partitioned bs : forall s, NoDup (map (fun b => snd (fst b)) bs) ->
  let s' := run_trace (concat (map (block_calls partitioned) bs)) s in
  map (fun b => FS.lookup (snd (fst b)) s') bs = map (fun b => Some (concat (snd b))) bs
  /\ forall q, (forall b, In b bs -> bytes_eqb (snd (fst b)) q = false) -> FS.lookup q s' = FS.lookup q s.
Proof.
  induction bs as [|[[d f] cs] bs IH]; intros s ND; [split; reflexivity|].
  cbn [map concat fst snd] in *. rewrite run_app. inversion ND as [|x l Hnin ND']; subst.
  destruct (run_block partitioned d f cs s) as [B1 B2].
  destruct (IH (run_trace (block_calls partitioned (d, f, cs)) s) ND') as [I1 I2]. cbn zeta in I1, I2. split.
  - cbn zeta. f_equal; [|exact I1]. rewrite I2; [exact B1|].
    intros b Hb. apply bytes_eqb_false. intros E. apply Hnin. apply in_map_iff. exists b. split; [exact E | exact Hb].
  - intros q Hq. cbn zeta. rewrite I2 by (intros b Hb; apply Hq; now right). apply B2. apply (Hq (d, f, cs)). now left.
Qed.

Theorem append_complete refs partitioned rgs md cmd tr off s :
  find_max_part refs = Some off ->
  append_trace refs partitioned rgs md cmd = Some tr -> good_dirs rgs = true ->
  NoDup (new_paths off rgs) ->
  let s' := run_trace tr s in
  FS.lookup md_name s' = Some (concat md) /\ FS.lookup cmd_name s' = Some (concat cmd)
  /\ (forall q, In q refs -> FS.lookup q s' = FS.lookup q s)
  /\ map (fun p => FS.lookup p s') (new_paths off rgs) = map Some (new_contents off rgs).
Proof.
  intros Hoff E Hg ND. pose proof (append_is_safe refs partitioned rgs md cmd tr E Hg) as Safe.
  unfold append_trace in E. rewrite Hoff in E. inversion E; subst tr. clear E. cbn zeta.
  set (pre := concat (map (block_calls partitioned) (new_files off rgs))).
  rewrite run_app. unfold summary_calls. rewrite run_app.
  set (s1 := run_trace pre s). set (s2 := run_trace (write_file md_name md) s1).
  destruct (run_write_file md_name md s1) as [M1 M2]. destruct (run_write_file cmd_name cmd s2) as [C1 C2].
  assert (Hmc : bytes_eqb cmd_name md_name = false) by reflexivity.
  assert (Hcm : bytes_eqb md_name cmd_name = false) by reflexivity.
  split; [|split; [|split]].
  - rewrite (C2 md_name Hmc). exact M1.
  - exact C1.
  - intros q Hq. unfold s2, s1. rewrite <- run_app, <- run_app.
    apply (safe_run_refs_intact refs _ s Safe q Hq).
  - unfold new_paths, new_contents in *. rewrite !map_map.
    destruct (run_blocks partitioned (new_files off rgs) s ND) as [R1 _]. cbn zeta in R1. fold pre in R1. fold s1 in R1.
    etransitivity; [|exact R1]. apply map_ext_in. intros [[d f] cs] Hb. cbn [fst snd].
    pose proof (new_file_fresh refs off rgs d f cs Hoff Hg Hb) as F.
    rewrite (C2 f) by (rewrite bytes_eqb_sym; apply F; right; now left).
    unfold s2. apply M2. rewrite bytes_eqb_sym. apply F. now left.
Qed.

(* a fresh open after the complete append: the summary now lists old ++ new references, every old
   file is as before, every new file holds its row group *)
Section ReadC.
  Variable R : Type.
  Variable parse_md : bytes -> option (list path).
  Variable decode : bytes -> list (option bytes) -> R.

  Theorem append_complete_read refs partitioned rgs md cmd tr off s :
    find_max_part refs = Some off ->
    append_trace refs partitioned rgs md cmd = Some tr -> good_dirs rgs = true ->
    NoDup (new_paths off rgs) ->
    parse_md (concat md) = Some (refs ++ new_paths off rgs) ->
    read_dataset R parse_md decode (run_trace tr s)
    = Some (decode (concat md) (map (fun p => FS.lookup p s) refs ++ map Some (new_contents off rgs))).
  Proof.
    intros Hoff E Hg ND Hp. destruct (append_complete refs partitioned rgs md cmd tr off s Hoff E Hg ND) as [A1 [_ [A3 A4]]].
    cbn zeta in *. unfold read_dataset. rewrite A1, Hp. f_equal. f_equal. rewrite map_app. f_equal; [|exact A4].
    apply map_ext_in. exact A3.
  Qed.
End ReadC.

(* ---------- C07: fresh names; rows after a multi-file append ---------- *)
Theorem new_paths_fresh refs off rgs : find_max_part refs = Some off -> good_dirs rgs = true ->
  forall p, In p (new_paths off rgs) -> ~ In p refs /\ p <> md_name /\ p <> cmd_name.
Proof.
  intros Hoff Hg p Hp. unfold new_paths in Hp. apply in_map_iff in Hp. destruct Hp as [[[d f] cs] [E Hb]].
  cbn in E. subst f. pose proof (new_file_fresh refs off rgs d p cs Hoff Hg Hb) as F.
  assert (G : forall q, In q (md_name :: cmd_name :: refs) -> p <> q).
  { intros q Hq Eq. specialize (F q Hq). subst q. now rewrite bytes_eqb_refl in F. }
  split; [|split].
  - intros Hin. apply (G p); [right; right; exact Hin | reflexivity].
  - apply G. now left.
  - apply G. right; now left.
Qed.

Section RowsM.
  Variable row : Type.
  Variable parse_md : bytes -> option (list path).
  Variable dec_file : bytes -> list row.

  (* rows of a dataset: the rows of the referenced files, in reference order *)
  Definition rows_decode (_ : bytes) (files : list (option bytes)) : list row :=
    concat (map (fun o => match o with Some b => dec_file b | None => [] end) files).

  Theorem append_rows_multi refs partitioned rgs md cmd tr off s old_rows :
    refs_of parse_md s = Some refs ->
    read_dataset (list row) parse_md rows_decode s = Some old_rows ->
    find_max_part refs = Some off ->
    append_trace refs partitioned rgs md cmd = Some tr -> good_dirs rgs = true ->
    NoDup (new_paths off rgs) ->
    parse_md (concat md) = Some (refs ++ new_paths off rgs) ->
    read_dataset (list row) parse_md rows_decode (run_trace tr s)
      = Some (old_rows ++ concat (map dec_file (new_contents off rgs)))
    /\ refs_of parse_md (run_trace tr s) = Some (refs ++ new_paths off rgs).
  Proof.
    intros Hr Hold Hoff E Hg ND Hp. split.
    - rewrite (append_complete_read (list row) parse_md rows_decode refs partitioned rgs md cmd tr off s Hoff E Hg ND Hp).
      f_equal. unfold rows_decode. rewrite map_app, concat_app. f_equal.
      + unfold refs_of in Hr. unfold read_dataset in Hold. destruct (FS.lookup md_name s) as [b|]; [|discriminate].
        rewrite Hr in Hold. inversion Hold. reflexivity.
      + rewrite map_map. reflexivity.
    - destruct (append_complete refs partitioned rgs md cmd tr off s Hoff E Hg ND) as [A1 _]. cbn zeta in A1.
      unfold refs_of. now rewrite A1.
  Qed.
End RowsM.

(* ================= any sequence of multi-file appends ================= *)
Section Seq.
  Variable row : Type.
  Variable parse_md : bytes -> option (list path).
  Variable dec_file : bytes -> list row.

  (* what each step has to satisfy: directories without newline, pairwise distinct new paths, and the
     summary it writes lists the old references followed by the new files *)
  Fixpoint steps_ok (steps : list step_in) (refs : list path) : Prop :=
    match steps with
    | [] => True
    | (pt, rgs, md, cmd) :: r =>
      exists off, find_max_part refs = Some off /\ good_dirs rgs = true /\ NoDup (new_paths off rgs)
        /\ parse_md (concat md) = Some (refs ++ new_paths off rgs)
        /\ steps_ok r (refs ++ new_paths off rgs)
    end.

  Theorem appends_rows_multi steps : forall refs s old_rows,
    steps_ok steps refs -> refs_of parse_md s = Some refs ->
    read_dataset (list row) parse_md (rows_decode row dec_file) s = Some old_rows ->
    exists refs' s', run_appends steps refs s = Some (refs', s')
      /\ read_dataset (list row) parse_md (rows_decode row dec_file) s'
         = Some (old_rows ++ concat (map dec_file (all_new_contents steps refs)))
      /\ refs_of parse_md s' = Some refs'
      /\ (forall q, In q refs -> FS.lookup q s' = FS.lookup q s).
  Proof.
    induction steps as [|[[[pt rgs] md] cmd] r IH]; intros refs s old_rows Hok Hr Hold.
    - exists refs, s. cbn. rewrite app_nil_r. auto.
    - cbn [steps_ok] in Hok. destruct Hok as [off [Hoff [Hg [ND [Hp Hrest]]]]].
      cbn [run_appends all_new_contents]. rewrite Hoff.
      destruct (append_trace refs pt rgs md cmd) as [tr|] eqn:E.
      2:{ unfold append_trace in E. rewrite Hoff in E. discriminate. }
      destruct (append_rows_multi row parse_md dec_file refs pt rgs md cmd tr off s old_rows Hr Hold Hoff E Hg ND Hp) as [R1 R2].
      destruct (IH _ _ _ Hrest R2 R1) as [refs' [s' [A [B [C D]]]]].
      exists refs', s'. split; [exact A|]. split; [|split; [exact C|]].
      + rewrite B. now rewrite map_app, concat_app, app_assoc.
      + intros q Hq. rewrite D by (apply in_or_app; now left).
        apply (safe_run_refs_intact refs tr s (append_is_safe refs pt rgs md cmd tr E Hg) q Hq).
  Qed.
End Seq.

(* ================= a failure while _common_metadata is written: the new content is already visible ================= *)
Lemma write_file_only_affects p cs c q : In c (write_file p cs) -> bytes_eqb p q = false -> affects c q = false.
Proof.
  unfold write_file. intros [H|H] Hq; [subst c; exact Hq|].
  apply in_app_or in H. destruct H as [H|[H|[]]].
  - apply in_map_iff in H. destruct H as [d [Hd _]]. subst c. exact Hq.
  - subst c. reflexivity.
Qed.

Section AfterMd.
  Variable R : Type.
  Variable parse_md : bytes -> option (list path).
  Variable decode : bytes -> list (option bytes) -> R.

  Lemma read_dataset_ext s1 s2 : (forall q, q <> cmd_name -> FS.lookup q s1 = FS.lookup q s2) ->
    (forall b refs, FS.lookup md_name s2 = Some b -> parse_md b = Some refs -> ~ In cmd_name refs) ->
    read_dataset R parse_md decode s1 = read_dataset R parse_md decode s2.
  Proof.
    intros H Hn. unfold read_dataset. rewrite (H md_name) by discriminate.
    destruct (FS.lookup md_name s2) as [b|] eqn:Eb; [|reflexivity].
    destruct (parse_md b) as [refs|] eqn:Ep; [|reflexivity]. f_equal. f_equal.
    apply map_ext_in. intros p Hp. apply H. intros E. subst p. exact (Hn b refs eq_refl Ep Hp).
  Qed.

  (* the append was interrupted in a call on _common_metadata (after _metadata was written and closed):
     a fresh open reads exactly what it reads after the complete append *)
  Theorem crash_in_common_metadata refs partitioned rgs md cmd off tr1 c tr2 s s' :
    find_max_part refs = Some off -> good_dirs rgs = true ->
    write_file cmd_name cmd = tr1 ++ c :: tr2 ->
    let done := concat (map (block_calls partitioned) (new_files off rgs)) ++ write_file md_name md in
    crash_at (done ++ tr1) c s s' ->
    parse_md (concat md) = Some (refs ++ new_paths off rgs) ->
    read_dataset R parse_md decode s'
    = read_dataset R parse_md decode (run_trace (done ++ write_file cmd_name cmd) s).
  Proof.
    intros Hoff Hg E done P Hp.
    assert (Hc : forall x, In x (write_file cmd_name cmd) -> forall q, q <> cmd_name -> affects x q = false).
    { intros x Hx q Hq. apply (write_file_only_affects cmd_name cmd x q Hx). apply bytes_eqb_false. congruence. }
    assert (F1 : forall q, q <> cmd_name -> FS.lookup q s' = FS.lookup q (run_trace done s)).
    { intros q Hq. unfold crash_at in P. rewrite run_app in P.
      rewrite (partial_frame c q _ _ P) by (apply Hc; [rewrite E; apply in_or_app; right; now left | exact Hq]).
      apply run_frame. intros x Hx. apply Hc; [rewrite E; apply in_or_app; now left | exact Hq]. }
    assert (F2 : forall q, q <> cmd_name -> FS.lookup q (run_trace (done ++ write_file cmd_name cmd) s) = FS.lookup q (run_trace done s)).
    { intros q Hq. rewrite run_app. apply run_frame. intros x Hx. now apply Hc. }
    apply read_dataset_ext.
    - intros q Hq. now rewrite F1, F2.
    - intros b rf Hb Hpb. rewrite F2 in Hb by discriminate. unfold done in Hb. rewrite run_app in Hb.
      destruct (run_write_file md_name md (run_trace (concat (map (block_calls partitioned) (new_files off rgs))) s)) as [M1 _].
      rewrite M1 in Hb. inversion Hb; subst b. rewrite Hp in Hpb. inversion Hpb; subst rf.
      intros Hin. apply in_app_or in Hin. destruct Hin as [Hin|Hin].
      + now destruct (summary_not_ref refs off Hoff) as [_ N2].
      + destruct (new_paths_fresh refs off rgs Hoff Hg _ Hin) as [_ [_ N]]. now apply N.
  Qed.
End AfterMd.

(* ---------- the model trace is in the relaxed relation, too ---------- *)
Lemma wf_write_file p cs rest : forall opened, wf_writes opened (write_file p cs ++ rest) = wf_writes (p :: opened) rest.
Proof.
  intros opened. unfold write_file. cbn [List.app wf_writes]. rewrite <- app_assoc. cbn [List.app].
  induction cs as [|c cs IH]; cbn [map List.app wf_writes]; [reflexivity|].
  cbn [existsb]. rewrite bytes_eqb_refl. cbn [orb andb]. exact IH.
Qed.

Lemma wf_blocks partitioned bs rest : forall opened, exists opened',
  wf_writes opened (concat (map (block_calls partitioned) bs) ++ rest) = wf_writes opened' rest.
Proof.
  induction bs as [|[[d f] cs] bs IH]; intros opened; [now exists opened|].
  cbn [map concat]. unfold block_calls at 1. rewrite <- !app_assoc.
  destruct (IH (f :: opened)) as [o' Ho']. exists o'. rewrite <- Ho'.
  destruct partitioned; cbn [List.app wf_writes]; apply wf_write_file.
Qed.

Lemma wf_append_trace refs partitioned rgs md cmd tr : append_trace refs partitioned rgs md cmd = Some tr -> wf_writes [] tr = true.
Proof.
  unfold append_trace. destruct (find_max_part refs) as [off|]; [|discriminate]. intros E. inversion E; subst tr.
  destruct (wf_blocks partitioned (new_files off rgs) (summary_calls md cmd) []) as [o' Ho']. rewrite Ho'.
  unfold summary_calls. rewrite wf_write_file. rewrite <- (app_nil_r (write_file cmd_name cmd)). rewrite wf_write_file. reflexivity.
Qed.

Theorem append_is_safe_sym refs partitioned rgs md cmd tr :
  append_trace refs partitioned rgs md cmd = Some tr -> good_dirs rgs = true -> safe_trace_sym refs tr.
Proof.
  intros E Hg. apply strict_is_sym.
  - apply check_safe_trace_complete. now apply (append_is_safe refs partitioned rgs md cmd tr).
  - now apply (wf_append_trace refs partitioned rgs md cmd).
Qed.

(* ================= find_max_part that ignores foreign-named references (repo fix 59b66a8) ================= *)
Lemma part_ids_skip_in refs q m : In q refs -> part_id q = Some m -> In m (part_ids_skip refs).
Proof.
  induction refs as [|p r IH]; intros Hin Hm; [destruct Hin|]. cbn [part_ids_skip].
  destruct Hin as [E|Hin].
  - subst p. rewrite Hm. now left.
  - destruct (part_id p); [right|]; now apply IH.
Qed.

Lemma find_max_part_skip_bound refs q m : In q refs -> part_id q = Some m -> m < find_max_part_skip refs.
Proof.
  intros Hin Hm. pose proof (part_ids_skip_in refs q m Hin Hm) as H. unfold find_max_part_skip.
  destruct (part_ids_skip refs) as [|n l]; [destruct H|].
  destruct (fold_max_ge l n) as [H1 H2]. destruct H as [H|H]; [subst; lia|].
  rewrite Forall_forall in H2. specialize (H2 m H). lia.
Qed.

(* FRESH NAMES for ANY list of referenced paths (named part.<i>.parquet or not): the file of row group i of an append, in any
   newline-free directory, is none of them *)
Theorem fresh_names_skip refs d i : good_dir d = true -> ~ In (join d (part_name (find_max_part_skip refs + i))) refs.
Proof.
  intros Hd Hin. pose proof (find_max_part_skip_bound refs _ _ Hin (part_id_join d _ Hd)). lia.
Qed.

Lemma part_ids_skip_all refs l : part_ids refs = Some l -> part_ids_skip refs = l.
Proof.
  revert l. induction refs as [|p r IH]; intros l H; cbn in *; [now inversion H|].
  destruct (part_id p); [|discriminate]. destruct (part_ids r) as [l'|]; [|discriminate]. inversion H. now rewrite (IH l' eq_refl).
Qed.

Theorem skip_agrees refs off : find_max_part refs = Some off -> find_max_part_skip refs = off.
Proof.
  unfold find_max_part, find_max_part_skip. destruct (part_ids refs) as [l|] eqn:E; [|discriminate].
  rewrite (part_ids_skip_all refs l E). destruct l; intros H; now inversion H.
Qed.
