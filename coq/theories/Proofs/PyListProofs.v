(* Facts about the Python-list prelude (Impl/PyList.v) used by the proofs over regenerated text (genproofs/GenKVProofs.v). *)
From Coq Require Import NArith Arith List Bool Lia.
From Pq Require Import Base.Bytes Impl.KV Impl.PyList.
Import ListNotations.

Lemma py_in_index {A} (eqb : A -> A -> bool) (x : A) (l : list A) :
  py_in eqb x l = match py_index eqb x l with Some _ => true | None => false end.
Proof.
  induction l as [|y l IH]; cbn; [reflexivity|]. destruct (eqb x y); cbn; [reflexivity|].
  unfold py_in in IH. rewrite IH. now destruct (py_index eqb x l).
Qed.

Lemma py_index_keys {K V} (keqb : K -> K -> bool) (k : K) (l : list (K * V)) :
  py_index keqb k (map fst l) = index_of keqb k l.
Proof. induction l as [|[k' v] l IH]; cbn; [reflexivity|]. destruct (keqb k k'); [reflexivity|now rewrite IH]. Qed.

Lemma py_index_lt {A} (eqb : A -> A -> bool) (x : A) (l : list A) i : py_index eqb x l = Some i -> (i < length l)%nat.
Proof.
  revert i; induction l as [|y l IH]; intros i; cbn; [discriminate|]. destruct (eqb x y).
  - intros H; inversion H; lia.
  - destruct (py_index eqb x l) as [j|]; [|discriminate]. intros H; inversion H. specialize (IH j eq_refl). lia.
Qed.

(* while the spare key list IS the key list (no append has happened yet), the faithful step is the model's step *)
Lemma update1_keys_exact {K V} (keqb : K -> K -> bool) (l : list (K * V)) (u : K * option V) :
  option_map fst (update1_keys keqb (l, map fst l) u) = Some (update1 keqb l u).
Proof.
  destruct u as [k ov]. unfold update1_keys, update1. rewrite py_index_keys.
  destruct (index_of keqb k l) as [i|] eqn:Hi; destruct ov as [v|]; try reflexivity.
  - unfold py_setitem. rewrite <- py_index_keys in Hi. apply py_index_lt in Hi. rewrite map_length in Hi.
    apply Nat.ltb_lt in Hi. now rewrite Hi.
  - unfold py_del. rewrite <- py_index_keys in Hi. apply py_index_lt in Hi. pose proof Hi as Hi2. rewrite map_length in Hi2.
    apply Nat.ltb_lt in Hi. apply Nat.ltb_lt in Hi2. now rewrite Hi, Hi2.
Qed.
