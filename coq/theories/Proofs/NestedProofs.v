(* Proofs about the SPEC model Format/Nested.v: record assembly inverts shredding. *)
From Coq Require Import NArith List Bool Lia.
From Pq Require Import Format.Nested.
Import ListNotations.
Open Scope N_scope.

Section P.
Variable V : Type.
Variable sh : shape.

Lemma max_def_gt : d_empty sh < max_def sh.
Proof. unfold max_def. destruct (elem_opt sh); lia. Qed.

Lemma elem_def_cont : forall e : elem V,
  (elem_opt sh || is_some e) = true ->
  (elem_def sh e =? max_def sh) = is_some e /\
  (is_some e = false -> (d_empty sh <? elem_def sh e) && (elem_def sh e <? max_def sh) = true).
Proof.
  intros e H. destruct e as [v|]; cbn [elem_def is_some] in *.
  - split. + apply N.eqb_refl. + discriminate.
  - rewrite orb_false_r in H. unfold d_nullel, max_def. rewrite H. split.
    + apply N.eqb_neq. lia.
    + intros _. apply andb_true_intro. split; apply N.ltb_lt; lia.
Qed.

(* continuation entries of a non-empty list in progress *)
Lemma asm_cont : forall (els : list (elem V)) e0 l t vs,
  forallb (fun e => elem_opt sh || is_some e) els = true ->
  asm sh (Some (e0 :: l)) (map (fun x => (1, elem_def sh x)) els ++ t) (elem_values els ++ vs)
  = asm sh (Some ((e0 :: l) ++ els)) t vs.
Proof.
  induction els as [|e els IH]; intros e0 l t vs H.
  - cbn [map app elem_values]. rewrite app_nil_r. reflexivity.
  - cbn [forallb] in H. apply andb_prop in H. destruct H as [He Hels].
    destruct (elem_def_cont e He) as [E1 E2].
    cbn [map app asm]. change (1 =? 0) with false. change (1 =? 1) with true. cbv iota.
    unfold cont_row. rewrite E1.
    destruct e as [v|]; cbn [is_some elem_values app] in *.
    + change ((e0 :: l) ++ [Some v]) with (e0 :: (l ++ [Some v])).
      rewrite IH by assumption. rewrite <- app_assoc. reflexivity.
    + rewrite (E2 eq_refl).
      change ((e0 :: l) ++ [None]) with (e0 :: (l ++ [None])).
      rewrite IH by assumption. rewrite <- app_assoc. reflexivity.
Qed.

Lemma wf_row_elems : forall es : list (elem V),
  wf_row sh (Some es) = true -> forallb (fun e => elem_opt sh || is_some e) es = true.
Proof.
  intros es H. cbn [wf_row] in H. apply forallb_forall. intros e Hin.
  destruct (elem_opt sh); [reflexivity|]. cbn [orb] in *.
  rewrite forallb_forall in H. auto.
Qed.

(* the first entry of a row opens exactly that row's first state *)
Lemma open_first : forall (r : row V) vs, wf_row sh r = true ->
  exists d conts c,
    row_entries sh r = (0, d) :: conts /\
    match r with
    | None => conts = [] /\ c = None /\ open_row sh d (row_values r ++ vs) = Some (c, vs)
    | Some [] => conts = [] /\ c = Some [] /\ open_row sh d (row_values r ++ vs) = Some (c, vs)
    | Some (e :: es) => conts = map (fun x => (1, elem_def sh x)) es /\ c = Some [e] /\
                        open_row sh d (row_values r ++ vs) = Some (c, elem_values es ++ vs)
    end.
Proof.
  intros r vs W. pose proof max_def_gt as G. destruct r as [[|e es]|].
  - exists (d_empty sh), [], (Some []). split; [reflexivity|]. repeat split.
    unfold open_row. rewrite N.ltb_irrefl, N.eqb_refl. reflexivity.
  - exists (elem_def sh e), (map (fun x => (1, elem_def sh x)) es), (Some [e]).
    split; [reflexivity|]. repeat split.
    pose proof (wf_row_elems _ W) as W'. cbn [forallb] in W'. apply andb_prop in W'. destruct W' as [He _].
    destruct (elem_def_cont e He) as [E1 E2].
    unfold open_row. destruct e as [v|]; cbn [is_some elem_def row_values elem_values app] in *.
    + assert (max_def sh <? d_empty sh = false) as -> by (apply N.ltb_ge; lia).
      assert (max_def sh =? d_empty sh = false) as -> by (apply N.eqb_neq; lia).
      rewrite N.eqb_refl. reflexivity.
    + specialize (E2 eq_refl). apply andb_prop in E2. destruct E2 as [E2 E3].
      apply N.ltb_lt in E2.
      assert (d_nullel sh <? d_empty sh = false) as -> by (apply N.ltb_ge; lia).
      assert (d_nullel sh =? d_empty sh = false) as -> by (apply N.eqb_neq; lia).
      rewrite E1, E3. reflexivity.
  - exists 0, [], None. split; [reflexivity|]. repeat split.
    cbn [wf_row] in W. unfold open_row, d_empty. rewrite W. reflexivity.
Qed.

Lemma asm_row : forall (r cur : row V) t vs, wf_row sh r = true ->
  asm sh cur (row_entries sh r ++ t) (row_values r ++ vs) = option_map (cons cur) (asm sh r t vs).
Proof.
  intros r cur t vs W. destruct (open_first r vs W) as (d & conts & c & E & H).
  rewrite E. cbn [app asm]. change (0 =? 0) with true. cbv iota.
  destruct r as [[|e es]|].
  - destruct H as (-> & -> & ->). reflexivity.
  - destruct H as (-> & -> & ->). f_equal.
    pose proof (wf_row_elems _ W) as W'. cbn [forallb] in W'. apply andb_prop in W'. destruct W' as [_ Hes].
    exact (asm_cont es e [] t vs Hes).
  - destruct H as (-> & -> & ->). reflexivity.
Qed.

Lemma asm_rows : forall (rows : list (row V)) cur, wf_rows sh rows = true ->
  asm sh cur (shred_entries sh rows) (shred_values rows) = Some (cur :: rows).
Proof.
  induction rows as [|r rows IH]; intros cur W.
  - reflexivity.
  - cbn [wf_rows forallb] in W. apply andb_prop in W. destruct W as [Wr Wrs].
    unfold shred_entries, shred_values. cbn [flat_map].
    rewrite asm_row by assumption.
    fold (shred_entries sh rows). fold (shred_values rows). rewrite IH by assumption. reflexivity.
Qed.

(* assemble_spec (shred rows) = rows : null rows -> None, empty -> [], null elements -> None, order kept *)
Theorem assemble_shred : forall rows : list (row V), wf_rows sh rows = true ->
  assemble_spec sh (fst (shred sh rows)) (snd (shred sh rows)) = Some rows.
Proof.
  intros rows W. unfold shred. cbn [fst snd]. destruct rows as [|r rows].
  - reflexivity.
  - cbn [wf_rows forallb] in W. apply andb_prop in W. destruct W as [Wr Wrs].
    unfold shred_entries, shred_values. cbn [flat_map].
    destruct (open_first r (flat_map (@row_values V) rows) Wr) as (d & conts & c & E & H).
    rewrite E. cbn [app assemble_spec]. change (0 =? 0) with true. cbv iota.
    fold (shred_entries sh rows). fold (shred_values rows).
    destruct r as [[|e es]|].
    + destruct H as (-> & -> & H). unfold shred_values. rewrite H. cbn [app]. apply asm_rows; assumption.
    + destruct H as (-> & -> & H). unfold shred_values. rewrite H.
      pose proof (wf_row_elems _ Wr) as W'. cbn [forallb] in W'. apply andb_prop in W'. destruct W' as [_ Hes].
      etransitivity; [exact (asm_cont es e [] _ _ Hes)|]. apply asm_rows; assumption.
    + destruct H as (-> & -> & H). unfold shred_values. rewrite H. cbn [app]. apply asm_rows; assumption.
Qed.

End P.
