(* Part 4: the round trip of the impl model, assembled from Parts 1-3. *)
From Coq Require Import NArith ZArith List Bool Lia.
From Pq Require Import Base.Bytes Thrift.Varint Thrift.Compact Proofs.CompactProofs Impl.CThrift Impl.CThriftSpec
  Proofs.CThriftProofs Proofs.CThriftRead Proofs.CThriftRoundtrip.
Import ListNotations.
Open Scope N_scope.

Section Ids.
Variable fids : list Z.
Hypothesis Hasc : asc 0 fids.
Local Notation w_thrift := (CThrift.w_thrift fids).
Local Notation t_thrift := (CThriftSpec.t_thrift fids).
Local Notation w_top := (CThrift.w_top fids).
Local Notation t_top := (CThriftSpec.t_top fids).
Local Notation ser := (CThrift.ser fids).
Local Notation to_bytes := (CThrift.to_bytes fids).
Local Notation dom := (CThriftSpec.dom fids).
Local Notation w_thrift_spec := (CThriftProofs.w_thrift_spec fids Hasc).
Local Notation ser_spec := (CThriftProofs.ser_spec fids Hasc).
Local Notation t_good := (CThriftRoundtrip.t_good fids Hasc).
Local Notation t_eq := (CThriftRoundtrip.t_eq fids Hasc).
Local Notation to_bytes_fits := (CThriftRoundtrip.to_bytes_fits fids).
Local Notation t_thrift_S := (CThriftRoundtrip.t_thrift_S fids).
Local Notation dom_fields := (CThriftRoundtrip.dom_fields fids).
Local Notation t_dict := (CThriftRoundtrip.t_dict fids).

(* ---- the round trip ------------------------------------------------------------------------------ *)
Lemma roundtrip_dict a b c t : dom 63 (PDict a b c) = true -> t_thrift w_depth a b c = Some t ->
  exists v', from_buffer (wr t) = Some (v', []) /\ obj_eq (PDict a b c) v' = true.
Proof.
  intros Hdom Et.
  destruct (t_good w_depth 63 a b c t Hdom Et) as ((G1 & G2 & G3) & Hn).
  destruct (t_eq w_depth w_depth 63 a b c t ltac:(unfold w_depth; lia) Hdom Et) as (a' & b' & l & Hp & Hq).
  destruct t as [[]| | | | | | | |fs]; cbn [nib] in Hn; try discriminate Hn.
  exists (pv_of (TStruct fs)). split.
  - rewrite <- (app_nil_r (wr (TStruct fs))). apply from_buffer_spec; assumption.
  - rewrite Hp. exact Hq.
Qed.

Lemma ser_dict a b c : ser (PDict a b c) = option_map wr (t_thrift w_depth a b c).
Proof. exact (w_thrift_spec w_depth a b c). Qed.

Theorem roundtrip v bs : dom 63 v = true -> ser v = Some bs ->
  exists v', from_buffer bs = Some (v', []) /\ obj_eq v v' = true.
Proof.
  intros Hdom E.
  destruct v as [| | | | | | |a b c];
    [discriminate E|discriminate E|discriminate E|discriminate E|discriminate E|discriminate E|discriminate E|].
  rewrite ser_dict in E. destruct (t_thrift w_depth a b c) as [t|] eqn:Et; [|discriminate]. injection E as <-.
  apply (roundtrip_dict a b c t Hdom Et).
Qed.
End Ids.
