From Coq Require Import NArith ZArith Arith List Lia Bool.
From Pq Require Import Base.Bytes Base.ListX Proofs.ListXProofs Codec.Hybrid Format.Phys Format.Page Format.File Format.Enc
  Proofs.HybridProofs Proofs.FormatPageProofs Proofs.RPagesProofs Proofs.FormatFileProofs Proofs.FormatLayoutProofs.
Import ListNotations.
Open Scope N_scope.

Lemma count_levels cells : count_def 1 (map level_of cells) = N.of_nat (length (values_of cells)).
Proof.
  induction cells as [|c r IH]; [reflexivity|]. cbn [map]. rewrite count_def_cons.
  destruct c; cbn [level_of N.eqb Pos.eqb values_of length]; rewrite IH; lia.
Qed.

Lemma values_of_required cells : Forall (fun c => c <> None) cells -> length (values_of cells) = length cells.
Proof. induction 1 as [|c r Hc _ IH]; [reflexivity|]. destruct c; [|now contradiction Hc]. cbn. now rewrite IH. Qed.

Lemma pad8_length_ge (l : list N) : (length l <= length (pad8 l))%nat.
Proof. unfold pad8. rewrite app_length. lia. Qed.

(* the canonical page is well-formed as soon as its values are representable and its level block is < 4 GiB *)
Theorem plain_page_wf optional t tlen cells :
  cells_fit optional cells ->
  Forall (fun v => value_ok t tlen v = true) (values_of cells) ->
  lenN (hyb_enc 1 [BP (map level_of cells)]) < 2 ^ 32 ->
  page_wf {| cd_type := t; cd_tlen := tlen; cd_maxdef := if optional then 1 else 0 |} (plain_page optional cells).
Proof.
  intros FIT VOK BND. split.
  - unfold levels_wf, plain_page. cbn [cd_maxdef lp_def lp_nvals]. destruct optional; [right|left; reflexivity].
    split; [reflexivity|]. destruct cells as [|c r] eqn:E.
    + split; [constructor|]. split; [cbn; lia|vm_compute; reflexivity].
    + rewrite <- E in *. repeat split.
      * constructor; [|constructor]. cbn [run_ok]. split; [rewrite E; discriminate|].
        apply Forall_forall. intros x Hx. apply in_map_iff in Hx. destruct Hx as (c0 & <- & _).
        destruct c0; cbn; lia.
      * unfold runs_total. cbn [map List.concat run_vals]. rewrite app_nil_r, lenN_ok.
        pose proof (pad8_length_ge (map level_of cells)) as P. rewrite map_length in P. lia.
      * exact BND.
  - unfold plain_page, page_levels. cbn [cd_maxdef lp_def lp_nvals lp_store store_wf cd_type cd_tlen].
    split; [exact VOK|]. destruct optional; cbn [N.eqb Pos.eqb].
    + destruct cells as [|c r] eqn:E; [reflexivity|]. rewrite <- E.
      rewrite takeN_ok, runs_vals_ok. unfold runs_total. cbn [map List.concat run_vals]. rewrite app_nil_r.
      rewrite lenN_ok, Nat2N.id. rewrite <- (map_length level_of cells) at 1. rewrite firstn_pad8. symmetry. apply count_levels.
    + rewrite repN_ok, app_nil_r, lenN_ok, Nat2N.id, count_def_repeat.
      rewrite values_of_required by (now apply FIT). reflexivity.
Qed.

Section Final.
Variable compress : Z -> bytes -> bytes.
Variable decompress : Z -> N -> bytes -> option bytes.
Hypothesis codec_rt : forall codec b, decompress codec (lenN b) (compress codec b) = Some b.

(* "for every table": a table that fits its leaves and whose canonical layout is representable
   (lfile_wf: value_ok values, sizes within the format's integer widths) is what the specification
   decoder returns for the bytes the specification encoder writes for that layout *)
Theorem every_table_roundtrips strict leaves rgs cb :
  table_fits leaves rgs -> lfile_wf compress (layout_of leaves rgs cb) ->
  dec_file decompress strict (enc_file compress (layout_of leaves rgs cb)) = ROk (map leaf_of_l leaves, rgs).
Proof.
  intros F W. apply (spec_roundtrip_dec compress decompress codec_rt strict _ _ W).
  now apply every_table_has_a_layout.
Qed.
End Final.
