(* The typed footer view the specification decoder works from does not depend on key_value_metadata. (C03) *)
From Coq Require Import NArith ZArith List.
From Pq Require Import Base.Bytes Base.ListX Thrift.Compact Format.Meta Format.Enc Format.EncKV Proofs.ListXProofs Proofs.FormatMetaProofs.
Import ListNotations.

Theorem fmd_of_to_kv kvs m : fmd_of_tv (fmd_to_tv_kv kvs m) = Some m.
Proof.
  destruct m as [ve sc nr rgs cb]. unfold fmd_to_tv_kv, fmd_of_tv. cbn [as_struct fm_version fm_schema fm_nrows fm_rgs fm_created_by].
  cbn [app]. unfold req at 1 2. cbn [fld N.eqb Pos.eqb as_int].
  rewrite (as_list_of_map selem_of_tv selem_to_tv 12 sc selem_of_to).
  unfold req at 1 2. cbn [fld N.eqb Pos.eqb as_int].
  rewrite (as_list_of_map rgroup_of_tv rgroup_to_tv 12 rgs rgroup_of_to).
  destruct cb; reflexivity.
Qed.

Corollary fmd_view_ignores_kv kvs m : fmd_of_tv (fmd_to_tv_kv kvs m) = fmd_of_tv (fmd_to_tv m).
Proof. rewrite fmd_of_to_kv, fmd_of_to. reflexivity. Qed.

(* same data region and same typed footer as the plain encoder: only the footer bytes differ *)
Definition meta_of compress (f : lfile) : fmd :=
  let rgs := snd (fst (enc_rgs compress (l_leaves f) (l_rgs f) 4)) in
  {| fm_version := 1; fm_schema := root_selem (lenN (l_leaves f)) :: map selem_of_l (l_leaves f);
     fm_nrows := ChunkLayout.sumZ (map rg_nrows rgs); fm_rgs := rgs; fm_created_by := l_created_by f |}.
Definition data_of compress (f : lfile) : bytes := concat (fst (fst (enc_rgs compress (l_leaves f) (l_rgs f) 4))).

Theorem enc_file_kv_shape compress kvs f :
  let foot := wr (fmd_to_tv_kv kvs (meta_of compress f)) in
  let foot0 := wr (fmd_to_tv (meta_of compress f)) in
  enc_file_kv compress kvs f = magic ++ data_of compress f ++ foot ++ le_enc 4 (lenN foot) ++ magic /\
  enc_file compress f = magic ++ data_of compress f ++ foot0 ++ le_enc 4 (lenN foot0) ++ magic /\
  fmd_of_tv (fmd_to_tv_kv kvs (meta_of compress f)) = Some (meta_of compress f).
Proof.
  unfold enc_file_kv, enc_file, meta_of, data_of.
  destruct (enc_rgs compress (l_leaves f) (l_rgs f) 4) as [[bs rgs] pos]. cbn [fst snd].
  cbv zeta. split; [now rewrite !app_tr_ok, concat_tr_ok|]. split; [now rewrite !app_tr_ok, concat_tr_ok|]. apply fmd_of_to_kv.
Qed.
