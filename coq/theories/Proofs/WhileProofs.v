(* Facts about while_fuel, and the loop "one more byte per factor of 128" against the varint encoder. *)
From Coq Require Import NArith Arith List Lia Bool.
From Pq Require Import Base.Bytes Codec.Varint Impl.While.
Import ListNotations.
Open Scope N_scope.

Lemma while_ext {S} (cond cond' : S -> bool) (body body' : S -> S) fuel s :
  (forall x, cond x = cond' x) -> (forall x, body x = body' x) ->
  while_fuel fuel cond body s = while_fuel fuel cond' body' s.
Proof.
  intros Hc Hb. revert s. induction fuel as [|f IH]; intros s; cbn [while_fuel]; rewrite Hc.
  - reflexivity.
  - destruct (cond' s); [rewrite Hb; apply IH | reflexivity].
Qed.

(* canonical form of the loop of skip_definition_bytes: state (cursor, n) *)
Definition vcond (s : N * N) : bool := negb (snd s =? 0).
Definition vbody (step d : N) (s : N * N) : N * N := (fst s + step, snd s / d).

(* the loop started on m/128 adds one byte for every varint byte of m after the first *)
Lemma loop_uleb f : forall m c fuel, m < 2 ^ N.of_nat f -> (f <= fuel)%nat ->
  while_fuel fuel vcond (vbody 1 128) (c, m / 128)
  = Some (c + N.of_nat (length (uleb_enc_f f m)) - 1, 0).
Proof.
  induction f as [|f IH]; intros m c fuel Hm Hf.
  - change (N.of_nat 0) with 0 in Hm. rewrite N.pow_0_r in Hm. assert (m = 0) by lia. subst m.
    change (0 / 128) with 0. destruct fuel; cbn; f_equal; f_equal; lia.
  - cbn [uleb_enc_f]. destruct (N.ltb_spec m 128) as [L|L].
    + rewrite N.div_small by exact L. destruct fuel; cbn; f_equal; f_equal; lia.
    + destruct fuel as [|fuel]; [lia|].
      cbn [while_fuel]. unfold vcond at 1. cbn [snd].
      assert (Q : m / 128 <> 0).
      { intros E. apply N.div_small_iff in E; lia. }
      destruct (N.eqb_spec (m / 128) 0) as [E|_]; [contradiction|]. cbn [negb].
      change (vbody 1 128 (c, m / 128)) with (c + 1, m / 128 / 128).
      rewrite IH.
      * cbn [length]. f_equal. f_equal. lia.
      * replace (N.of_nat (S f)) with (1 + N.of_nat f) in Hm by lia.
        rewrite N.pow_add_r, N.pow_1_r in Hm. apply N.div_lt_upper_bound; lia.
      * lia.
Qed.

Lemma loop_uleb_enc m c fuel : (N.to_nat (N.size m) <= fuel)%nat ->
  while_fuel fuel vcond (vbody 1 128) (c, m / 128) = Some (c + N.of_nat (length (uleb_enc m)) - 1, 0).
Proof.
  intros H. unfold uleb_enc. apply loop_uleb; [|exact H]. rewrite N2Nat.id. apply N.size_gt.
Qed.

Lemma size_double_le n : (N.to_nat (N.size (2 * n)) <= S (N.to_nat (N.size n)))%nat.
Proof. destruct n as [|p]; cbn; lia. Qed.
