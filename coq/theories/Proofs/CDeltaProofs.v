(* cencoding.delta_read_bitpacked (impl model: uint64 accumulator, load before shift-out) = bit-packing
   spec for every miniblock width 0 < w <= 28 and every length; witnesses beyond. *)
From Coq Require Import NArith ZArith Arith List Lia Bool.
From Pq Require Import Base.Bytes Base.Bits Base.Err Base.ListX
  Proofs.BytesProofs Proofs.ListXProofs Proofs.ErrProofs Proofs.CodecProofs Proofs.CBitpackProofs Proofs.CVarintProofs
  Codec.Bitpack Impl.CVarint Impl.CDelta.
Import ListNotations.
Open Scope N_scope.

Lemma mask_ok w : 0 < w <= 64 -> N.shiftr m64 (64 - w) = N.ones w.
Proof.
  intros H. assert (Hb : w < 256) by lia.
  apply (byte_cases (fun w => implb ((0 <? w) && (w <=? 64)) (N.shiftr m64 (64 - w) =? N.ones w))) in Hb;
    [|vm_compute; reflexivity].
  destruct (N.ltb_spec 0 w); [|lia]. destruct (N.leb_spec w 64); [|lia].
  cbn [andb implb] in Hb. now apply N.eqb_eq.
Qed.

Lemma load_ok64 S base l b rest :
  l <= 56 -> b < 256 ->
  b + 256 * rest = S / 2 ^ (8 * base + l) ->
  N.lor ((S / 2 ^ (8 * base)) mod 2 ^ l) (N.land (N.shiftl b l) m64)
  = (S / 2 ^ (8 * base)) mod 2 ^ (l + 8).
Proof.
  intros Hl Hb Hs. unfold m64.
  rewrite shiftl_mul, land_ones_mod.
  assert (Hsmall : b * 2 ^ l < 2 ^ 64).
  { replace 64 with (8 + 56) by lia. rewrite N.pow_add_r.
    assert (2 ^ l <= 2 ^ 56) by (apply N.pow_le_mono_r; lia). change (2 ^ 8) with 256.
    pose proof (pow2_pos l). clear Hs. nia. }
  rewrite (N.mod_small (b * 2 ^ l)) by exact Hsmall.
  rewrite lor_disjoint_add, mod_pow_split.
  rewrite div_div_pow, <- Hs. change (2 ^ 8) with 256.
  replace ((b + 256 * rest) mod 256) with b; [lia|].
  rewrite N.mul_comm, N.mod_add by lia. now rewrite N.mod_small.
Qed.

Lemma skipn_next {A} (l : list A) : forall n b r, skipn n l = b :: r -> skipn (Datatypes.S n) l = r.
Proof.
  induction l as [|x l IH]; intros n b r H.
  - destruct n; discriminate H.
  - destruct n as [|n]; cbn [skipn] in *; [now inversion H|]. eapply IH; eauto.
Qed.

Definition dspec (w S n : N) : list N := map (fun k => bp_get w S (N.of_nat k)) (seq 0 (N.to_nat n)).

Lemma dspec_succ w S n : dspec w S (N.succ n) = dspec w S n ++ [bp_get w S n].
Proof. unfold dspec. rewrite N2Nat.inj_succ, seq_S, map_app. cbn [map Nat.add]. now rewrite N2Nat.id. Qed.

Section DInv.
  Variables (w S L total : N) (input : bytes).
  Hypothesis Hw0 : 0 < w.
  Hypothesis Hw : w <= 28.
  Hypothesis Hneed : total * w <= 8 * L.

  Definition dinv (s : dst) : Prop :=
    exists base k lq,
      ddata s = (S / 2 ^ (8 * base)) mod 2 ^ dleft s /\
      le2n (dinp s) = S / 2 ^ (8 * base + dleft s) /\
      8 * base + dright s = k * w /\
      k + dcnt s = total /\
      dleft s = 8 * lq /\ dright s <= dleft s /\ dleft s <= 64 /\ dright s <= 8 + w /\
      bytes_ok (dinp s) /\
      dused s = base + lq /\
      dused s + N.of_nat (length (dinp s)) = L /\
      8 * dused s < total * w + 8 /\
      dinp s = skipn (N.to_nat (dused s)) input /\
      dout s = rev (dspec w S k).

  Definition dmeas (s : dst) : nat := N.to_nat (100 * dcnt s + 2 * dright s + (64 - dleft s)).

  Lemma dstep_load s b r : dinv s -> dcnt s <> 0 -> dleft s < dright s + w -> dinp s = b :: r ->
    dleft s < 64 /\
    dinv {| ddata := N.lor (ddata s) (N.land (N.shiftl b (dleft s)) m64);
            dleft := dleft s + 8; dright := dright s;
            dinp := r; dused := dused s + 1; dcnt := dcnt s; dout := dout s |}.
  Proof.
    intros (base & k & lq & Hd & Hi & Hk & Ht & Hm & Hrl & Hl & Hr8 & Hb & Hu & HL & Hlt & Hsk & Ho) Hc Hlw Ei.
    assert (Hl56 : dleft s <= 56) by lia.
    split; [lia|].
    exists base, k, (lq + 1). cbn [ddata dleft dright dinp dused dcnt dout].
    rewrite Ei in Hb, Hi, HL. pose proof (Forall_inv Hb) as Hb1. pose proof (Forall_inv_tail Hb) as Hb2. cbv beta in Hb1.
    rewrite le2n_cons in Hi. cbn [length] in HL.
    assert (Hk1 : (k + 1) * w <= total * w) by (apply N.mul_le_mono_r; lia).
    repeat split; try lia; try assumption.
    - rewrite Hd. eapply load_ok64; eauto.
    - replace (8 * base + (dleft s + 8)) with ((8 * base + dleft s) + 8) by lia.
      rewrite <- div_div_pow. rewrite <- Hi. change (2 ^ 8) with 256.
      rewrite N.mul_comm, N.div_add by lia. rewrite N.div_small by assumption. reflexivity.
    - replace (N.to_nat (dused s + 1)) with (Datatypes.S (N.to_nat (dused s))) by lia.
      symmetry. eapply skipn_next. rewrite <- Hsk. exact Ei.
  Qed.

  Lemma dload_has_input s : dinv s -> dcnt s <> 0 -> dleft s < dright s + w -> dinp s <> [].
  Proof.
    intros (base & k & lq & Hd & Hi & Hk & Ht & Hm & Hrl & Hl & Hr8 & Hb & Hu & HL & Hlt & Hsk & Ho) Hc Hlw E.
    rewrite E in HL. cbn [length] in HL.
    assert (Hk1 : (k + 1) * w <= total * w) by (apply N.mul_le_mono_r; lia).
    lia.
  Qed.

  Lemma dstep_shift s : dinv s -> dcnt s <> 0 -> dright s + w <= dleft s -> 8 < dright s ->
    dinv {| ddata := N.shiftr (ddata s) 8; dleft := dleft s - 8; dright := dright s - 8;
            dinp := dinp s; dused := dused s; dcnt := dcnt s; dout := dout s |}.
  Proof.
    intros (base & k & lq & Hd & Hi & Hk & Ht & Hm & Hrl & Hl & Hr8 & Hb & Hu & HL & Hlt & Hsk & Ho) Hc Hlw Hr.
    exists (base + 1), k, (lq - 1). cbn [ddata dleft dright dinp dused dcnt dout].
    repeat split; try lia; try assumption.
    - rewrite shiftr_div, Hd. rewrite mod_pow_div by lia.
      rewrite div_div_pow. f_equal. f_equal. f_equal. lia.
    - rewrite Hi. f_equal. f_equal. lia.
  Qed.

  Lemma dstep_emit s : dinv s -> dcnt s <> 0 -> dright s + w <= dleft s -> dright s <= 8 ->
    dinv {| ddata := ddata s; dleft := dleft s; dright := dright s + w;
            dinp := dinp s; dused := dused s; dcnt := dcnt s - 1;
            dout := N.land (N.shiftr (ddata s) (dright s)) (N.ones w) :: dout s |}.
  Proof.
    intros (base & k & lq & Hd & Hi & Hk & Ht & Hm & Hrl & Hl & Hr8 & Hb & Hu & HL & Hlt & Hsk & Ho) Hc Hlw Hr.
    exists base, (k + 1), lq. cbn [ddata dleft dright dinp dused dcnt dout].
    repeat split; try lia; try assumption.
    replace (k + 1) with (N.succ k) by lia.
    rewrite dspec_succ, rev_app_distr. cbn [rev app]. rewrite <- Ho. f_equal.
    rewrite shiftr_div, land_ones_mod, Hd.
    unfold bp_get. rewrite mod_pow_div by lia. rewrite mod_mod_pow by lia.
    rewrite div_div_pow. now rewrite Hk.
  Qed.

  Lemma dinv_bounds s : dinv s -> dright s <= dleft s /\ dleft s <= 64.
  Proof. intros (base & k & lq & H). lia. Qed.

  Lemma dstep_inv s : dinv s -> drb_done s = false ->
    exists s', drb_step w (N.ones w) s = Ok s' /\ dinv s' /\ (dmeas s' < dmeas s)%nat.
  Proof.
    intros Hinv Hc. unfold drb_done in Hc. apply N.eqb_neq in Hc.
    destruct (dinv_bounds s Hinv) as [Hrl Hl64].
    unfold drb_step.
    destruct (Z.ltb_spec (Z.of_N (dleft s) - Z.of_N (dright s)) (Z.of_N w)) as [Hlw|Hlw].
    - destruct (dinp s) as [|b r] eqn:Ei.
      + exfalso. apply (dload_has_input s Hinv Hc); [lia|exact Ei].
      + destruct (dstep_load s b r Hinv Hc ltac:(lia) Ei) as [Hlt Hinv'].
        destruct (N.leb_spec 64 (dleft s)) as [Hub|_]; [lia|].
        eexists; split; [reflexivity|]. split; [exact Hinv'|].
        unfold dmeas. cbn [dleft dright dcnt]. lia.
    - destruct (N.ltb_spec 8 (dright s)) as [Hr|Hr].
      + eexists; split; [reflexivity|]. split.
        * apply dstep_shift; try assumption; lia.
        * unfold dmeas. cbn [dleft dright dcnt]. lia.
      + eexists; split; [reflexivity|]. split.
        * apply dstep_emit; try assumption; lia.
        * unfold dmeas. cbn [dleft dright dcnt]. lia.
  Qed.
End DInv.

Lemma dspec_dec w n b : dspec w (le2n b) n = bp_dec w n b.
Proof. unfold dspec, bp_dec. rewrite bp_unpack_ref, le2n_tr_ok. reflexivity. Qed.

(* MAIN THEOREM.  A miniblock of 8g values of width 0 < w <= 28 whose g*w bytes are present: no read
   outside the input, no shift >= 64; the values handed to the output are the spec values, in order;
   exactly the g*w bytes of the miniblock are consumed. *)
Theorem delta_read_bitpacked_correct w g input :
  0 < w <= 28 -> g < 2 ^ 28 -> bytes_ok input -> g * w <= N.of_nat (length input) ->
  c_delta_read_bitpacked input w (8 * g) =
  Ok (bp_dec w (8 * g) input, skipn (N.to_nat (g * w)) input, g * w).
Proof.
  intros [Hw0 Hw] Hg Hok Hlen. unfold c_delta_read_bitpacked.
  destruct (N.eqb_spec w 0) as [E|_]; [lia|]. destruct (N.ltb_spec 64 w) as [E|_]; [lia|]. cbn [orb].
  rewrite mask_ok by lia.
  set (S := le2n input). set (L := N.of_nat (length input)).
  set (s0 := {| ddata := 0; dleft := 0; dright := 0; dinp := input; dused := 0; dcnt := 8 * g; dout := [] |}).
  assert (Hneed : 8 * g * w <= 8 * L) by (unfold L; lia).
  assert (Hinv0 : dinv w S L (8 * g) input s0).
  { exists 0, 0, 0. unfold s0. cbn [ddata dleft dright dinp dused dcnt dout].
    repeat split; try lia; try assumption.
    - rewrite N.pow_0_r. now rewrite N.mod_1_r.
    - rewrite N.mul_0_r, N.add_0_l, N.pow_0_r, N.div_1_r. reflexivity. }
  destruct (run_loop_inv dst drb_done (drb_step w (N.ones w)) (dinv w S L (8 * g) input)
              (fun s => dmeas s) big_fuel
              (dstep_inv w S L (8 * g) input Hw0 Hw Hneed) s0 Hinv0) as (s' & Hrun & Hinv' & Hdone).
  { unfold dmeas, s0. cbn [dcnt dright dleft]. apply fuel_le.
    change (2 ^ 28) with 268435456 in Hg. change (2 ^ 62) with 4611686018427387904. lia. }
  rewrite Hrun.
  destruct Hinv' as (base & k & lq & Hd & Hi & Hk & Ht & Hm & Hrl & Hl & Hr8 & Hb & Hu & HL & Hlt & Hsk & Ho).
  unfold drb_done in Hdone. apply N.eqb_eq in Hdone.
  assert (k = 8 * g) by lia. subst k.
  assert (Eu : dused s' = g * w) by lia.
  f_equal. f_equal; [f_equal|].
  - rewrite rev_append_rev, app_nil_r, Ho, rev_involutive. unfold S. apply dspec_dec.
  - rewrite Hsk, Eu. reflexivity.
  - exact Eu.
Qed.

(* the same statement with the width bound of the format (w <= 64) instead of 28 is false *)
Lemma delta_read_bitpacked_w29_ub : exists w g input,
  0 < w <= 64 /\ g < 2 ^ 28 /\ bytes_ok input /\ g * w <= N.of_nat (length input) /\
  c_delta_read_bitpacked input w (8 * g) = UB.
Proof.
  exists 29, 4, (repeat 255 116).
  repeat split; try (vm_compute; congruence).
  apply Forall_forall. intros x Hx. apply repeat_spec in Hx. subst. reflexivity.
Qed.
