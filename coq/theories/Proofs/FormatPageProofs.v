(* Round trips of the page layer of the format specification (Format/Page.v, Format/Enc.v):
   page header, definition levels + values, whole pages. *)
From Coq Require Import String.
From Coq Require Import NArith ZArith Arith List Lia Bool.

From Pq Require Import Base.Bytes Base.Bits Base.ListX Proofs.BytesProofs Proofs.ListXProofs Proofs.CodecProofs
  Proofs.CompactProofs Codec.Varint Codec.Bitpack Codec.Hybrid Thrift.Compact Thrift.Idl Thrift.IdlPinned
  Format.Phys Format.Meta Format.Page Format.ChunkLayout Format.File Format.Enc.
From Pq Require Import Proofs.HybridProofs Proofs.FormatCodecProofs.
From Pq Require Proofs.DeltaProofs.
Import ListNotations.
Open Scope N_scope.
Open Scope list_scope.

(* ---- page header ------------------------------------------------------------------------------- *)
Definition i32 (z : Z) : bool := in_range 32 z.

Definition pbody_wf (b : pbody) : bool :=
  match b with
  | PBData d => i32 (d_nvals d) && i32 (d_enc d) && i32 (d_dle d) && i32 (d_rle d)
  | PBDict d => i32 (k_nvals d) && i32 (k_enc d)
  | PBData2 d => i32 (d2_nvals d) && i32 (d2_nnulls d) && i32 (d2_nrows d) && i32 (d2_enc d) && i32 (d2_dlen d) && i32 (d2_rlen d)
  | PBIndex => true
  end.
Definition phdr_wf (h : phdr) : bool :=
  i32 (ph_usize h) && i32 (ph_csize h) && match ph_crc h with Some c => i32 c | None => true end && pbody_wf (ph_body h).

Ltac destr_all :=
  repeat match goal with
         | d : dph |- _ => destruct d
         | d : dph2 |- _ => destruct d
         | d : dictph |- _ => destruct d
         | o : option bool |- _ => destruct o as [[|]|]
         | o : option Z |- _ => destruct o
         end.

Ltac split_andb :=
  repeat match goal with
         | H : _ && _ = true |- _ => apply andb_true_iff in H; destruct H
         end.

Lemma phdr_tv_wfb h : phdr_wf h = true -> wfb (phdr_to_tv h) = true.
Proof.
  intros H. destruct h as [us cs crc body].
  destruct body as [d|d|d|]; destr_all;
    unfold phdr_wf, pbody_wf, i32 in H; cbn in H; split_andb; cbn;
    repeat match goal with H : in_range _ _ = true |- _ => rewrite H; clear H end; reflexivity.
Qed.

Lemma phdr_tv_depth h : (depth (phdr_to_tv h) <= max_depth)%nat.
Proof.
  destruct h as [us cs crc body]. destruct body as [d|d|d|]; destr_all; vm_compute; lia.
Qed.

Lemma phdr_tv_conforms h : conforms pinned idl_opts (FStruct "PageHeader"%string) (phdr_to_tv h) = true.
Proof.
  destruct h as [us cs crc body]. destruct body as [d|d|d|]; destr_all; vm_compute; reflexivity.
Qed.

Lemma phdr_of_to_tv h : phdr_of_tv (phdr_to_tv h) = Some h.
Proof.
  destruct h as [us cs crc body]. destruct body as [d|d|d|]; destr_all; reflexivity.
Qed.

Lemma lenN_app {A} (a b : list A) : lenN (a ++ b) = lenN a + lenN b.
Proof. rewrite !lenN_ok, app_length. lia. Qed.

Theorem phdr_roundtrip h rest : phdr_wf h = true ->
  dec_phdr (enc_phdr h ++ rest) = ROk (h, lenN (enc_phdr h), rest).
Proof.
  intros H. unfold dec_phdr, enc_phdr, thrift_dec, thrift_dec_ty.
  pose proof (rd_wr true max_depth (phdr_to_tv h) rest (phdr_tv_depth h) (phdr_tv_wfb h H)) as R.
  change (nib (phdr_to_tv h)) with 12 in R. rewrite R.
  rewrite phdr_tv_conforms. cbn [negb]. rewrite phdr_of_to_tv.
  rewrite lenN_app. do 3 f_equal. lia.
Qed.

(* ---- values and levels --------------------------------------------------------------------------- *)
Definition runs_total (rs : list hrun) : list N := List.concat (map run_vals rs).

Lemma runs_vals_ok rs : runs_vals rs = runs_total rs.
Proof. unfold runs_vals, runs_total. apply concat_tr_ok. Qed.

Section WithCodecs.
(* the hybrid round trip of the codec layer (Proofs/HybridProofs.v) *)
Lemma hyb_rt : forall strict w n rs rest,
  Forall (run_ok w) rs -> n <= N.of_nat (length (runs_total rs)) ->
  exists r, hyb_dec strict w n (hyb_enc w rs ++ rest) = Some (firstn (N.to_nat n) (runs_total rs), r).
Proof. exact hyb_roundtrip_ok. Qed.

Variable compress : Z -> bytes -> bytes.
Variable decompress : Z -> N -> bytes -> option bytes.
Hypothesis codec_rt : forall codec b, decompress codec (lenN b) (compress codec b) = Some b.

Lemma hyb_len_rt strict w n rs rest :
  Forall (run_ok w) rs -> n <= N.of_nat (length (runs_total rs)) -> lenN (hyb_enc w rs) < 2 ^ 32 ->
  hyb_dec_len strict w n (hyb_enc_len w rs ++ rest) = Some (firstn (N.to_nat n) (runs_total rs), rest).
Proof.
  intros Hr Hn Hl. unfold hyb_dec_len, hyb_enc_len. rewrite <- app_assoc.
  rewrite le_dec_enc by (rewrite <- lenN_ok; exact Hl).
  rewrite <- lenN_ok. rewrite lenN_app.
  destruct (N.ltb_spec (lenN (hyb_enc w rs) + lenN rest) (lenN (hyb_enc w rs))) as [L|L]; [lia|].
  rewrite takeN_ok, dropN_ok, lenN_ok, Nat2N.id.
  rewrite firstn_app, Nat.sub_diag, firstn_all. cbn [firstn]. rewrite app_nil_r.
  rewrite skipn_app, Nat.sub_diag, skipn_all. cbn [skipn app].
  destruct (hyb_rt strict w n rs [] Hr Hn) as (r & E). rewrite app_nil_r in E. rewrite E. reflexivity.
Qed.

Lemma inflate_deflate codec b : inflate decompress codec (lenN b) (deflate compress codec b) = ROk b.
Proof.
  unfold inflate, deflate. destruct (codec =? 0)%Z; [reflexivity|]. now rewrite codec_rt.
Qed.

(* what a store must satisfy to be encodable for k non-null values of column cd with dictionary dict *)
Definition store_wf (cd : coldesc) (k : N) (s : vstore) : Prop :=
  match s with
  | SPlain vs => Forall (fun v => value_ok (cd_type cd) (cd_tlen cd) v = true) vs /\ N.of_nat (length vs) = k
  | SDict e w runs => (e = E_PLAIN_DICT \/ e = E_RLE_DICT) /\ w <= 32 /\ Forall (run_ok w) runs /\
                      k <= N.of_nat (length (runs_total runs))
  | SRleBool runs => cd_type cd = BOOLEAN /\ Forall (run_ok 1) runs /\ k <= N.of_nat (length (runs_total runs)) /\
                     lenN (hyb_enc 1 runs) < 2 ^ 32
  | SDelta bs mpb zs =>              (* any block shape with a multiple of 8 values per miniblock *)
    exists bits q mp, int_bits (cd_type cd) = Some bits /\ bs = N.of_nat (8 * q * mp) /\ mpb = N.of_nat mp /\
                      (1 <= q)%nat /\ (1 <= mp)%nat /\ Forall (DeltaProofs.in_range bits) zs /\ N.of_nat (length zs) = k
  | SRaw _ _ => False
  end.

Lemma dec_values_ok strict cd dict k s vs rest :
  store_wf cd k s -> store_values cd dict k s = Some vs ->
  dec_values strict cd dict (store_enc s) k (store_bytes cd s ++ rest) = ROk vs.
Proof.
  intros W V. destruct s as [pv|e w runs|runs|bs mpb zs|e b]; cbn [store_wf] in W; try contradiction.
  - (* PLAIN *)
    destruct W as [Hv Hk]. cbn [store_values] in V. injection V as <-.
    cbn [store_enc store_bytes]. unfold dec_values. cbn [Z.eqb E_PLAIN].
    rewrite <- Hk. now rewrite plain_roundtrip.
  - (* dictionary *)
    destruct W as (He & Hw & Hr & Hk). cbn [store_values] in V. cbn [store_enc store_bytes].
    destruct dict as [d|]; [|discriminate].
    rewrite hyb_enc_x_ok. rewrite takeN_ok, runs_vals_ok in V.
    destruct (hyb_rt strict w k runs rest Hr Hk) as (r & E).
    unfold dec_values.
    assert (E1 : ((e =? E_PLAIN) = false)%Z) by (destruct He; subst; reflexivity).
    assert (E2 : ((e =? E_PLAIN_DICT) || (e =? E_RLE_DICT) = true)%Z) by (destruct He; subst; reflexivity).
    rewrite E1, E2. cbn [app].
    destruct (N.ltb_spec 32 w) as [L|L]; [lia|].
    rewrite E. unfold of_opt. now rewrite V.
  - (* RLE booleans *)
    destruct W as (Ht & Hr & Hk & Hl). cbn [store_values] in V. injection V as <-.
    cbn [store_enc store_bytes]. unfold dec_values. cbn [Z.eqb E_PLAIN E_RLE E_PLAIN_DICT E_RLE_DICT orb].
    rewrite Ht. rewrite hyb_enc_len_x_ok, hyb_len_rt by assumption.
    now rewrite takeN_ok, runs_vals_ok.
  - (* DELTA_BINARY_PACKED *)
    destruct W as (bits & q & mp & Hb & -> & -> & Hq & Hmp & Hr & Hk).
    cbn [store_values] in V. rewrite Hb in V. injection V as <-.
    cbn [store_enc store_bytes]. unfold dec_values. cbn [Z.eqb E_PLAIN E_RLE E_PLAIN_DICT E_RLE_DICT E_DELTA orb].
    rewrite Hb.
    assert (B1 : 1 <= bits) by (destruct (cd_type cd); cbn in Hb; try discriminate; injection Hb as <-; lia).
    rewrite (DeltaProofs.delta_roundtrip bits q mp zs rest B1 Hq Hmp Hr).
    rewrite lenN_ok, Hk, N.eqb_refl. reflexivity.
Qed.

End WithCodecs.

(* ---- data pages ------------------------------------------------------------------------------------ *)
Lemma z2n_of_N why x : z2n why (Z.of_N x) = ROk x.
Proof. unfold z2n. destruct (Z.ltb_spec (Z.of_N x) 0) as [L|L]; [lia|]. now rewrite N2Z.id. Qed.

Lemma run_vals_lt w r : run_ok w r -> Forall (fun v => v < 2 ^ w) (run_vals r).
Proof.
  destruct r as [c v|vs]; cbn [run_ok run_vals]; intros [H1 H2].
  - apply Forall_forall. intros x Hx. apply repeat_spec in Hx. now subst.
  - unfold pad8. apply Forall_app. split; [exact H2|].
    apply Forall_forall. intros x Hx.
    assert (Z0 : forall n, Forall (fun y => y = 0) (zeros n)) by (induction n; cbn; constructor; auto).
    specialize (Z0 (Nat.modulo (8 - Nat.modulo (length vs) 8) 8)). rewrite Forall_forall in Z0.
    rewrite (Z0 x Hx). apply pow2_pos.
Qed.

Lemma runs_total_lt w rs : Forall (run_ok w) rs -> Forall (fun v => v < 2 ^ w) (runs_total rs).
Proof.
  unfold runs_total. induction 1 as [|r rs Hr Hrs IH]; cbn [map List.concat]; [constructor|].
  apply Forall_app. split; [now apply run_vals_lt|exact IH].
Qed.

Lemma forallb_le1 l : Forall (fun v => v < 2 ^ 1) l -> forallb (fun l => l <=? 1) l = true.
Proof.
  intros H. apply forallb_forall. intros x Hx. rewrite Forall_forall in H. specialize (H x Hx).
  change (2 ^ 1) with 2 in H. apply N.leb_le. lia.
Qed.

Lemma Forall_firstn {A} (P : A -> Prop) n l : Forall P l -> Forall P (firstn n l).
Proof. intros H. apply Forall_forall. intros x Hx. rewrite Forall_forall in H. apply H. rewrite <- (firstn_skipn n l). apply in_or_app. now left. Qed.

Lemma forallb_repeat0 n : forallb (fun l => l <=? 0) (repeat 0 n) = true.
Proof. induction n; cbn; auto. Qed.

(* a laid-out data page that the encoder can write for column cd *)
Definition levels_wf (cd : coldesc) (p : lpage) : Prop :=
  cd_maxdef cd = 0 \/
  (cd_maxdef cd = 1 /\ Forall (run_ok 1) (lp_def p) /\ lp_nvals p <= N.of_nat (length (runs_total (lp_def p))) /\
   lenN (hyb_enc 1 (lp_def p)) < 2 ^ 32).

Definition page_wf (cd : coldesc) (p : lpage) : Prop :=
  levels_wf cd p /\ store_wf cd (count_def (cd_maxdef cd) (page_levels cd p)) (lp_store p).

Section WithCodecs2.
Variable compress : Z -> bytes -> bytes.
Variable decompress : Z -> N -> bytes -> option bytes.
Hypothesis codec_rt : forall codec b, decompress codec (lenN b) (compress codec b) = Some b.

Lemma page_levels_forallb cd p : levels_wf cd p ->
  forallb (fun l => l <=? cd_maxdef cd) (page_levels cd p) = true.
Proof.
  intros [H0|(H1 & Hr & Hn & Hl)]; unfold page_levels; rewrite ?H0, ?H1; cbn [N.eqb Pos.eqb].
  - rewrite repN_ok, app_nil_r. apply forallb_repeat0.
  - rewrite takeN_ok, runs_vals_ok. apply forallb_le1. apply Forall_firstn. now apply runs_total_lt.
Qed.

Theorem data_page_v1_roundtrip strict cd codec dict p cs :
  lp_v2 p = false -> page_wf cd p -> page_cells cd dict p = Some cs ->
  let hp := enc_data_page compress cd codec p in
  dec_page decompress strict cd codec dict (fst hp) (snd hp)
  = ROk (CData (lp_nvals p) (lp_nvals p - count_def (cd_maxdef cd) (page_levels cd p)) cs).
Proof.
  intros V2 [LW SW] PC. unfold enc_data_page. rewrite V2. cbn zeta. cbn [fst snd].
  unfold dec_page. cbn [ph_usize ph_body]. unfold zlen. rewrite z2n_of_N. cbn [rbind].
  unfold dec_data_v1. cbn [d_nvals d_enc d_dle].
  rewrite inflate_deflate by exact codec_rt. cbn [rbind].
  rewrite N.eqb_refl. cbn [guard rbind]. rewrite z2n_of_N. cbn [rbind].
  unfold page_cells in PC.
  destruct (store_values cd dict (count_def (cd_maxdef cd) (page_levels cd p)) (lp_store p)) as [vs|] eqn:SV; [|discriminate].
  pose proof (page_levels_forallb cd p LW) as FB.
  pose proof (dec_values_ok strict cd dict _ _ vs (lp_trail p) SW SV) as DV.
  unfold page_levels in *. destruct LW as [H0|(H1 & Hr & Hn & Hl)].
  - rewrite H0 in *. cbn [N.eqb] in *. rewrite !app_tr_ok. cbn [app rbind fst snd].
    rewrite FB. cbn [guard rbind]. rewrite DV. cbn [rbind]. rewrite PC. reflexivity.
  - rewrite H1 in *. cbn [N.eqb Pos.eqb negb Z.eqb E_RLE] in *. rewrite !app_tr_ok, hyb_enc_len_x_ok.
    change (level_width 1) with 1.
    rewrite hyb_len_rt by assumption. cbn [of_opt rbind fst snd].
    rewrite takeN_ok, runs_vals_ok in *.
    rewrite FB. cbn [guard rbind]. rewrite DV. cbn [rbind]. rewrite PC. reflexivity.
Qed.


Lemma z2n_add why a b : z2n why (Z.of_N a + Z.of_N b) = ROk (a + b).
Proof. rewrite <- N2Z.inj_add. apply z2n_of_N. Qed.

Lemma takeN_app_exact {A} (a b : list A) : takeN (lenN a) (a ++ b) = a.
Proof. rewrite takeN_ok, lenN_ok, Nat2N.id, firstn_app, Nat.sub_diag, firstn_all. cbn. apply app_nil_r. Qed.
Lemma dropN_app_exact {A} (a b : list A) : dropN (lenN a) (a ++ b) = b.
Proof. rewrite dropN_ok, lenN_ok, Nat2N.id, skipn_app, Nat.sub_diag, skipn_all. reflexivity. Qed.

Theorem data_page_v2_roundtrip strict cd codec dict p cs :
  lp_v2 p = true -> page_wf cd p -> page_cells cd dict p = Some cs ->
  let hp := enc_data_page compress cd codec p in
  dec_page decompress strict cd codec dict (fst hp) (snd hp)
  = ROk (CData (lp_nvals p) (lp_nvals p - count_def (cd_maxdef cd) (page_levels cd p)) cs).
Proof.
  intros V2 [LW SW] PC. unfold enc_data_page. rewrite V2. cbn zeta. cbn [fst snd].
  unfold dec_page. cbn [ph_usize ph_body]. unfold zlen. rewrite z2n_add. cbn [rbind].
  unfold dec_data_v2. cbn [d2_nvals d2_nnulls d2_nrows d2_enc d2_dlen d2_rlen d2_iscomp].
  rewrite !z2n_of_N. cbn [rbind]. change (z2n _ 0%Z) with (@ROk N 0). cbn [rbind N.eqb guard].
  rewrite N.eqb_refl. cbn [guard rbind]. rewrite app_tr_ok.
  set (lb := if cd_maxdef cd =? 0 then [] else hyb_enc_x (level_width (cd_maxdef cd)) (lp_def p)).
  set (vb := store_bytes cd (lp_store p)).
  set (body := if match lp_iscomp p with Some false => false | _ => true end then deflate compress codec vb else vb).
  rewrite lenN_app.
  destruct (N.leb_spec (lenN lb) (lenN lb + lenN body)) as [_|L]; [|lia]. cbn [guard rbind].
  destruct (N.leb_spec (lenN lb) (lenN lb + lenN vb)) as [_|L]; [|lia]. cbn [guard rbind].
  rewrite takeN_app_exact, dropN_app_exact.
  replace (lenN lb + lenN vb - lenN lb) with (lenN vb) by lia.
  assert (RAW : forall K : bytes -> rs pcontent,
            rbind (if match lp_iscomp p with Some false => false | _ => true end
                   then inflate decompress codec (lenN vb) body else ROk body) K = K vb).
  { intros K. unfold body. destruct (lp_iscomp p) as [[|]|]; try reflexivity;
      rewrite inflate_deflate by exact codec_rt; reflexivity. }
  rewrite RAW.
  rewrite (N.add_comm (lenN vb)), N.eqb_refl. cbn [guard rbind].
  unfold page_cells in PC.
  destruct (store_values cd dict (count_def (cd_maxdef cd) (page_levels cd p)) (lp_store p)) as [vs|] eqn:SV; [|discriminate].
  pose proof (page_levels_forallb cd p LW) as FB.
  pose proof (dec_values_ok strict cd dict _ _ vs [] SW SV) as DV. rewrite app_nil_r in DV. fold vb in DV.
  unfold page_levels in *. destruct LW as [H0|(H1 & Hr & Hn & Hl)].
  - unfold lb. rewrite H0 in *. cbn [N.eqb lenN fold_left guard rbind] in *.
    rewrite FB. cbn [guard rbind]. rewrite N.eqb_refl. cbn [guard rbind].
    rewrite DV. cbn [rbind]. rewrite PC. reflexivity.
  - unfold lb. rewrite H1 in *. cbn [N.eqb Pos.eqb] in *. change (level_width 1) with 1.
    rewrite hyb_enc_x_ok.
    destruct (hyb_rt strict 1 (lp_nvals p) (lp_def p) [] Hr Hn) as (r & E). rewrite app_nil_r in E. rewrite E.
    cbn [rbind]. rewrite takeN_ok, runs_vals_ok in *.
    rewrite FB. cbn [guard rbind]. rewrite N.eqb_refl. cbn [guard rbind].
    rewrite DV. cbn [rbind]. rewrite PC. reflexivity.
Qed.


(* ---- dictionary page, any page ------------------------------------------------------------------- *)
Definition item_wf (cd : coldesc) (it : litem) : Prop :=
  match it with
  | LDict e vs => (e = E_PLAIN \/ e = E_PLAIN_DICT) /\ Forall (fun v => value_ok (cd_type cd) (cd_tlen cd) v = true) vs
  | LData p => page_wf cd p
  end.

(* what a page contributes to the scan *)
Definition item_content (cd : coldesc) (dict : option (list value)) (it : litem) : option pcontent :=
  match it with
  | LDict _ vs => Some (CDict vs)
  | LData p => match page_cells cd dict p with
               | Some cs => Some (CData (lp_nvals p) (lp_nvals p - count_def (cd_maxdef cd) (page_levels cd p)) cs)
               | None => None
               end
  end.

Theorem item_roundtrip strict cd codec dict it c :
  item_wf cd it -> item_content cd dict it = Some c ->
  let hp := enc_item compress cd codec it in
  dec_page decompress strict cd codec dict (fst hp) (snd hp) = ROk c.
Proof.
  intros W C. destruct it as [e vs|p]; cbn [enc_item item_wf item_content] in *.
  - injection C as <-. destruct W as [He Hv]. unfold enc_dict_page. cbn zeta. cbn [fst snd].
    unfold dec_page. cbn [ph_usize ph_body]. unfold zlen. rewrite z2n_of_N. cbn [rbind].
    unfold dec_dict_page. cbn [k_nvals k_enc].
    rewrite inflate_deflate by exact codec_rt. cbn [rbind]. rewrite N.eqb_refl. cbn [guard rbind].
    rewrite z2n_of_N. cbn [rbind].
    assert (E : negb ((e =? E_PLAIN) || (e =? E_PLAIN_DICT))%Z = false) by (destruct He; subst; reflexivity).
    rewrite E. rewrite lenN_ok.
    pose proof (plain_roundtrip (cd_type cd) (cd_tlen cd) vs [] Hv) as R. rewrite app_nil_r in R. now rewrite R.
  - destruct (page_cells cd dict p) as [cs|] eqn:PC; [|discriminate]. injection C as <-.
    destruct (lp_v2 p) eqn:V2.
    + now apply data_page_v2_roundtrip.
    + now apply data_page_v1_roundtrip.
Qed.

Lemma enc_item_csize why cd codec it :
  z2n why (ph_csize (fst (enc_item compress cd codec it))) = ROk (lenN (snd (enc_item compress cd codec it))).
Proof.
  destruct it as [e vs|p]; cbn [enc_item].
  - unfold enc_dict_page. cbn zeta. cbn [fst snd ph_csize]. apply z2n_of_N.
  - unfold enc_data_page. destruct (lp_v2 p); cbn zeta; cbn [fst snd ph_csize]; unfold zlen.
    + rewrite z2n_add, app_tr_ok, lenN_app. reflexivity.
    + apply z2n_of_N.
Qed.

End WithCodecs2.
