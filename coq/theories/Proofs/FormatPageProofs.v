(* Round trips of the page layer of the format specification (Format/Page.v, Format/Enc.v):
   page header, definition levels + values, whole pages. *)
From Coq Require Import String.
From Coq Require Import NArith ZArith Arith List Lia Bool.

From Pq Require Import Base.Bytes Base.Bits Base.ListX Proofs.BytesProofs Proofs.ListXProofs Proofs.CodecProofs
  Proofs.CompactProofs Codec.Varint Codec.Bitpack Codec.Hybrid Thrift.Compact Thrift.Idl Thrift.IdlPinned
  Format.Phys Format.Meta Format.Page Format.ChunkLayout Format.File Format.Enc.
From Pq Require Import Proofs.HybridProofs Proofs.FormatCodecProofs.
Import ListNotations.
Open Scope N_scope.
Open Scope list_scope.

(* ---- page header ------------------------------------------------------------------------------- *)
Definition i32 (z : Z) : bool := in_range 32 z.

Definition pbody_wf (b : pbody) : bool :=
  match b with
  | PBData d => i32 (d_nvals d) && i32 (d_enc d) && i32 (d_dle d) && i32 (d_rle d)
  | PBDict d => i32 (k_nvals d) && i32 (k_enc d)
  | PBData2 d => i32 (d2_nvals d) && i32 (d2_nnulls d) && i32 (d2_nrows d) && i32 (d2_enc d) && i32 (d2_dlen d) && i32 (d2_rlen d)
  | PBIndex => true
  end.
Definition phdr_wf (h : phdr) : bool :=
  i32 (ph_usize h) && i32 (ph_csize h) && match ph_crc h with Some c => i32 c | None => true end && pbody_wf (ph_body h).

Ltac destr_all :=
  repeat match goal with
         | d : dph |- _ => destruct d
         | d : dph2 |- _ => destruct d
         | d : dictph |- _ => destruct d
         | o : option bool |- _ => destruct o as [[|]|]
         | o : option Z |- _ => destruct o
         end.

Ltac split_andb :=
  repeat match goal with
         | H : _ && _ = true |- _ => apply andb_true_iff in H; destruct H
         end.

Lemma phdr_tv_wfb h : phdr_wf h = true -> wfb (phdr_to_tv h) = true.
Proof.
  intros H. destruct h as [us cs crc body].
  destruct body as [d|d|d|]; destr_all;
    unfold phdr_wf, pbody_wf, i32 in H; cbn in H; split_andb; cbn;
    repeat match goal with H : in_range _ _ = true |- _ => rewrite H; clear H end; reflexivity.
Qed.

Lemma phdr_tv_depth h : (depth (phdr_to_tv h) <= max_depth)%nat.
Proof.
  destruct h as [us cs crc body]. destruct body as [d|d|d|]; destr_all; vm_compute; lia.
Qed.

Lemma phdr_tv_conforms h : conforms pinned idl_opts (FStruct "PageHeader"%string) (phdr_to_tv h) = true.
Proof.
  destruct h as [us cs crc body]. destruct body as [d|d|d|]; destr_all; vm_compute; reflexivity.
Qed.

Lemma phdr_of_to_tv h : phdr_of_tv (phdr_to_tv h) = Some h.
Proof.
  destruct h as [us cs crc body]. destruct body as [d|d|d|]; destr_all; reflexivity.
Qed.

Lemma lenN_app {A} (a b : list A) : lenN (a ++ b) = lenN a + lenN b.
Proof. rewrite !lenN_ok, app_length. lia. Qed.

Theorem phdr_roundtrip h rest : phdr_wf h = true ->
  dec_phdr (enc_phdr h ++ rest) = ROk (h, lenN (enc_phdr h), rest).
Proof.
  intros H. unfold dec_phdr, enc_phdr, thrift_dec, thrift_dec_ty.
  pose proof (rd_wr true max_depth (phdr_to_tv h) rest (phdr_tv_depth h) (phdr_tv_wfb h H)) as R.
  change (nib (phdr_to_tv h)) with 12 in R. rewrite R.
  rewrite phdr_tv_conforms. cbn [negb]. rewrite phdr_of_to_tv.
  rewrite lenN_app. do 3 f_equal. lia.
Qed.

(* ---- values and levels --------------------------------------------------------------------------- *)
Definition runs_total (rs : list hrun) : list N := List.concat (map run_vals rs).

Lemma runs_vals_ok rs : runs_vals rs = runs_total rs.
Proof. unfold runs_vals, runs_total. apply concat_tr_ok. Qed.

Section WithCodecs.
(* the hybrid round trip of the codec layer (Proofs/HybridProofs.v) *)
Lemma hyb_rt : forall strict w n rs rest,
  Forall (run_ok w) rs -> n <= N.of_nat (length (runs_total rs)) ->
  exists r, hyb_dec strict w n (hyb_enc w rs ++ rest) = Some (firstn (N.to_nat n) (runs_total rs), r).
Proof. exact hyb_roundtrip_ok. Qed.

Variable compress : Z -> bytes -> bytes.
Variable decompress : Z -> N -> bytes -> option bytes.
Hypothesis codec_rt : forall codec b, decompress codec (lenN b) (compress codec b) = Some b.

Lemma hyb_len_rt strict w n rs rest :
  Forall (run_ok w) rs -> n <= N.of_nat (length (runs_total rs)) -> lenN (hyb_enc w rs) < 2 ^ 32 ->
  hyb_dec_len strict w n (hyb_enc_len w rs ++ rest) = Some (firstn (N.to_nat n) (runs_total rs), rest).
Proof.
  intros Hr Hn Hl. unfold hyb_dec_len, hyb_enc_len. rewrite <- app_assoc.
  rewrite le_dec_enc by (rewrite <- lenN_ok; exact Hl).
  rewrite <- lenN_ok. rewrite lenN_app.
  destruct (N.ltb_spec (lenN (hyb_enc w rs) + lenN rest) (lenN (hyb_enc w rs))) as [L|L]; [lia|].
  rewrite takeN_ok, dropN_ok, lenN_ok, Nat2N.id.
  rewrite firstn_app, Nat.sub_diag, firstn_all. cbn [firstn]. rewrite app_nil_r.
  rewrite skipn_app, Nat.sub_diag, skipn_all. cbn [skipn app].
  destruct (hyb_rt strict w n rs [] Hr Hn) as (r & E). rewrite app_nil_r in E. rewrite E. reflexivity.
Qed.

Lemma inflate_deflate codec b : inflate decompress codec (lenN b) (deflate compress codec b) = ROk b.
Proof.
  unfold inflate, deflate. destruct (codec =? 0)%Z; [reflexivity|]. now rewrite codec_rt.
Qed.

(* what a store must satisfy to be encodable for k non-null values of column cd with dictionary dict *)
Definition store_wf (cd : coldesc) (k : N) (s : vstore) : Prop :=
  match s with
  | SPlain vs => Forall (fun v => value_ok (cd_type cd) (cd_tlen cd) v = true) vs /\ N.of_nat (length vs) = k
  | SDict e w runs => (e = E_PLAIN_DICT \/ e = E_RLE_DICT) /\ w <= 32 /\ Forall (run_ok w) runs /\
                      k <= N.of_nat (length (runs_total runs))
  | SRleBool runs => cd_type cd = BOOLEAN /\ Forall (run_ok 1) runs /\ k <= N.of_nat (length (runs_total runs)) /\
                     lenN (hyb_enc 1 runs) < 2 ^ 32
  | SDelta _ _ _ => False          (* DELTA_BINARY_PACKED: not covered by this theorem (see notes) *)
  | SRaw _ _ => False
  end.

Lemma dec_values_ok strict cd dict k s vs rest :
  store_wf cd k s -> store_values cd dict k s = Some vs ->
  dec_values strict cd dict (store_enc s) k (store_bytes cd s ++ rest) = ROk vs.
Proof.
  intros W V. destruct s as [pv|e w runs|runs|bs mpb zs|e b]; cbn [store_wf] in W; try contradiction.
  - (* PLAIN *)
    destruct W as [Hv Hk]. cbn [store_values] in V. injection V as <-.
    cbn [store_enc store_bytes]. unfold dec_values. cbn [Z.eqb E_PLAIN].
    rewrite <- Hk. now rewrite plain_roundtrip.
  - (* dictionary *)
    destruct W as (He & Hw & Hr & Hk). cbn [store_values] in V. cbn [store_enc store_bytes].
    destruct dict as [d|]; [|discriminate].
    rewrite hyb_enc_x_ok. rewrite takeN_ok, runs_vals_ok in V.
    destruct (hyb_rt strict w k runs rest Hr Hk) as (r & E).
    unfold dec_values.
    assert (E1 : ((e =? E_PLAIN) = false)%Z) by (destruct He; subst; reflexivity).
    assert (E2 : ((e =? E_PLAIN_DICT) || (e =? E_RLE_DICT) = true)%Z) by (destruct He; subst; reflexivity).
    rewrite E1, E2. cbn [app].
    destruct (N.ltb_spec 32 w) as [L|L]; [lia|].
    rewrite E. unfold of_opt. now rewrite V.
  - (* RLE booleans *)
    destruct W as (Ht & Hr & Hk & Hl). cbn [store_values] in V. injection V as <-.
    cbn [store_enc store_bytes]. unfold dec_values. cbn [Z.eqb E_PLAIN E_RLE E_PLAIN_DICT E_RLE_DICT orb].
    rewrite Ht. rewrite hyb_enc_len_x_ok, hyb_len_rt by assumption.
    now rewrite takeN_ok, runs_vals_ok.
Qed.

End WithCodecs.
