(* The faithful loop of util.update_custom_metadata (fold of update1_keys: position looked up in the SPARE key list, which
   is kept in step on removal but not extended on append) computes update_kv for EVERY update list whose encoded keys are
   distinct (a Python dict), from any state where the spare list is a prefix of the key list and the keys beyond it are
   not named again.  With GenKVProofs.gen_kv_function_is_fold this carries the regenerated text to the model of the
   C16 theorems for the whole function, not only its first iteration. *)
From Coq Require Import NArith Arith List Bool Lia.
From Pq Require Import Base.Bytes Impl.KV Impl.PyList Proofs.PyListProofs.
Import ListNotations.

Section Fold.
  Variables K V : Type.
  Variable keqb : K -> K -> bool.
  Hypothesis keqb_spec : forall a b, reflect (a = b) (keqb a b).

  Definition kstep (acc : option (list (K * V) * list K)) (u : K * option V) :=
    match acc with None => None | Some st => update1_keys keqb st u end.

  Lemma py_index_none k (l : list K) : ~ In k l -> py_index keqb k l = None.
  Proof.
    induction l as [|y l IH]; cbn; [reflexivity|]. intros H.
    destruct (keqb_spec k y) as [E|N]; [exfalso; apply H; now left|]. rewrite IH; [reflexivity|tauto].
  Qed.

  Lemma py_index_app_l k (a b : list K) i : py_index keqb k a = Some i -> py_index keqb k (a ++ b) = Some i.
  Proof.
    revert i; induction a as [|y a IH]; intros i; cbn; [discriminate|]. destruct (keqb k y); [auto|].
    destruct (py_index keqb k a) as [j|]; [|discriminate]. intros H. now rewrite (IH j eq_refl).
  Qed.

  Lemma py_index_app_none k (a b : list K) : py_index keqb k a = None -> py_index keqb k b = None ->
    py_index keqb k (a ++ b) = None.
  Proof.
    induction a as [|y a IH]; cbn; [auto|]. destruct (keqb k y); [discriminate|].
    destruct (py_index keqb k a); [discriminate|]. intros _ Hb. now rewrite IH.
  Qed.

  Lemma index_prefix k (kvm : list (K * V)) keys extra :
    map fst kvm = keys ++ extra -> ~ In k extra -> index_of keqb k kvm = py_index keqb k keys.
  Proof.
    intros E Hn. rewrite <- py_index_keys, E.
    destruct (py_index keqb k keys) as [i|] eqn:Hi.
    - now apply py_index_app_l.
    - apply py_index_app_none; [exact Hi|now apply py_index_none].
  Qed.

  Lemma map_fst_remove_at i (l : list (K * V)) : map fst (remove_at i l) = remove_at i (map fst l).
  Proof. revert i; induction l as [|x l IH]; intros [|i]; cbn; try reflexivity. now rewrite IH. Qed.

  Lemma remove_at_app_l {A} i (a b : list A) : (i < length a)%nat -> remove_at i (a ++ b) = remove_at i a ++ b.
  Proof.
    revert i; induction a as [|x a IH]; intros i H; cbn in *; [lia|]. destruct i; [reflexivity|].
    cbn. rewrite IH; [reflexivity|lia].
  Qed.

  Lemma map_fst_replace_at i k v (l : list (K * V)) :
    index_of keqb k l = Some i -> map fst (replace_at i (k, v) l) = map fst l.
  Proof.
    revert i; induction l as [|[k0 v0] l IH]; intros i; cbn; [discriminate|].
    destruct (keqb_spec k k0) as [E|N].
    - intros H; inversion H; subst. reflexivity.
    - destruct (index_of keqb k l) as [j|]; [|discriminate]. intros H; inversion H; subst. cbn. now rewrite (IH j eq_refl).
  Qed.

  Theorem fold_update1_keys : forall (u : list (K * option V)) (kvm : list (K * V)) keys extra,
    map fst kvm = keys ++ extra ->
    NoDup (map fst u) ->
    (forall k, In k extra -> ~ In k (map fst u)) ->
    option_map fst (fold_left kstep u (Some (kvm, keys))) = Some (update_kv keqb kvm u).
  Proof.
    induction u as [|[k ov] u IH]; intros kvm keys extra E Hnd Hex; [reflexivity|].
    cbn [fold_left kstep]. unfold update_kv. cbn [fold_left]. fold (update_kv keqb (update1 keqb kvm (k, ov)) u).
    inversion Hnd as [|? ? Hk Hnd']; subst.
    assert (Hke : ~ In k extra) by (intros Hi; apply (Hex k Hi); now left).
    assert (Hlen : (length keys <= length kvm)%nat).
    { rewrite <- (map_length fst kvm), E, app_length. lia. }
    unfold update1_keys, update1. rewrite (index_prefix k kvm keys extra E Hke).
    destruct (py_index keqb k keys) as [i|] eqn:Hi; destruct ov as [v|].
    - (* replace *)
      pose proof (py_index_lt _ _ _ _ Hi) as Hlt.
      unfold py_setitem. replace (Nat.ltb i (length kvm)) with true by (symmetry; apply Nat.ltb_lt; lia).
      cbn [option_map]. apply (IH _ keys extra); [|exact Hnd'|].
      + rewrite map_fst_replace_at; [exact E|]. now rewrite (index_prefix k kvm keys extra E Hke).
      + intros k' Hk' Hin. apply (Hex k' Hk'). now right.
    - (* remove *)
      pose proof (py_index_lt _ _ _ _ Hi) as Hlt.
      unfold py_del. replace (Nat.ltb i (length kvm)) with true by (symmetry; apply Nat.ltb_lt; lia).
      replace (Nat.ltb i (length keys)) with true by (symmetry; apply Nat.ltb_lt; lia).
      apply (IH _ (remove_at i keys) extra); [|exact Hnd'|].
      + rewrite map_fst_remove_at, E. now apply remove_at_app_l.
      + intros k' Hk' Hin. apply (Hex k' Hk'). now right.
    - (* append: the spare list lags behind by the appended key, which is not named again *)
      unfold py_append. apply (IH _ keys (extra ++ [k])); [|exact Hnd'|].
      + rewrite map_app, E. cbn. now rewrite app_assoc.
      + intros k' Hk' Hin. apply in_app_or in Hk'. destruct Hk' as [Hk'|[Hk'|[]]].
        * apply (Hex k' Hk'). now right.
        * subst k'. now apply Hk.
    - (* absent key, None *)
      apply (IH _ keys extra); [exact E|exact Hnd'|].
      intros k' Hk' Hin. apply (Hex k' Hk'). now right.
  Qed.

  (* from the state the function starts in *)
  Corollary fold_update1_keys_start (u : list (K * option V)) (kvm : list (K * V)) :
    NoDup (map fst u) ->
    option_map fst (fold_left kstep u (Some (kvm, map fst kvm))) = Some (update_kv keqb kvm u).
  Proof.
    intros H. apply (fold_update1_keys u kvm (map fst kvm) []); [now rewrite app_nil_r|exact H|intros k []].
  Qed.
End Fold.
