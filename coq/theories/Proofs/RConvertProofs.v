(* the reader's per-type conversion (Impl/RConvert.convert_model + the column cast) gives every value of every
   annotated type of the table its specified meaning - wherever the numpy representation can hold it *)
From Coq Require Import String.
From Coq Require Import NArith ZArith List Bool Lia.
From Pq Require Import Base.Bytes Base.ListX Format.Phys Format.Page Impl.RConvert.
Import ListNotations.
Open Scope Z_scope.

Lemma pow_half w : 0 < w -> 2 ^ w = 2 * 2 ^ (w - 1).
Proof. intros H. replace w with (Z.succ (w - 1)) at 1 by lia. rewrite Z.pow_succ_r by lia. reflexivity. Qed.

Lemma sint_range w n : 0 < w -> Z.of_N n < 2 ^ w -> - 2 ^ (w - 1) <= sint w n < 2 ^ (w - 1).
Proof.
  intros W H. unfold sint. pose proof (pow_half w W) as P. pose proof (N2Z.is_nonneg n).
  assert (0 < 2 ^ (w - 1)) by (apply Z.pow_pos_nonneg; lia).
  destruct (Z.ltb_spec (Z.of_N n) (2 ^ (w - 1))); lia.
Qed.

Lemma sint_wrap w z : 0 < w -> - 2 ^ (w - 1) <= z < 2 ^ (w - 1) -> sint w (wrap w z) = z.
Proof.
  intros W H. unfold sint, wrap. pose proof (pow_half w W) as P.
  assert (0 < 2 ^ (w - 1)) by (apply Z.pow_pos_nonneg; lia).
  destruct (Z_lt_le_dec z 0) as [NEG|POS].
  - assert (M : z mod 2 ^ w = z + 2 ^ w).
    { symmetry. apply (Z.mod_unique z (2 ^ w) (-1) (z + 2 ^ w)); lia. }
    rewrite M, Z2N.id by lia. destruct (Z.ltb_spec (z + 2 ^ w) (2 ^ (w - 1))); lia.
  - rewrite Z.mod_small, Z2N.id by lia. destruct (Z.ltb_spec z (2 ^ (w - 1))); lia.
Qed.

Lemma wrap_sint w n : 0 < w -> Z.of_N n < 2 ^ w -> wrap w (sint w n) = n.
Proof.
  intros W H. unfold sint, wrap. pose proof (pow_half w W) as P. pose proof (N2Z.is_nonneg n).
  assert (0 < 2 ^ (w - 1)) by (apply Z.pow_pos_nonneg; lia).
  destruct (Z.ltb_spec (Z.of_N n) (2 ^ (w - 1))).
  - rewrite Z.mod_small by lia. apply N2Z.id.
  - assert (M : (Z.of_N n - 2 ^ w) mod 2 ^ w = Z.of_N n).
    { symmetry. apply (Z.mod_unique (Z.of_N n - 2 ^ w) (2 ^ w) (-1) (Z.of_N n)); lia. }
    rewrite M. apply N2Z.id.
Qed.

Lemma wrap_small w z : 0 <= z < 2 ^ w -> Z.of_N (wrap w z) = z.
Proof. intros H. unfold wrap. rewrite Z.mod_small, Z2N.id by lia. reflexivity. Qed.

Lemma wrap_not_nat z : - 2 ^ 63 < z < 2 ^ 63 -> N.eqb (wrap 64 z) NAT64 = false.
Proof.
  intros H. apply N.eqb_neq. intros E.
  assert (S : sint 64 (wrap 64 z) = z) by (apply sint_wrap; lia).
  rewrite E in S. unfold sint, NAT64 in S. cbn in S. lia.
Qed.

Lemma ok32 n : (n <? 256 ^ 4)%N = true -> Z.of_N n < 2 ^ 32.
Proof. intros H. apply N.ltb_lt in H. change (256 ^ 4)%N with 4294967296%N in H. change (2 ^ 32) with 4294967296. lia. Qed.
Lemma ok64 n : (n <? 256 ^ 8)%N = true -> Z.of_N n < 2 ^ 64.
Proof. intros H. apply N.ltb_lt in H. change (256 ^ 8)%N with 18446744073709551616%N in H. change (2 ^ 64) with 18446744073709551616. lia. Qed.

Theorem convert_table_ok : forall t conv, In (t, conv) conv_table ->
  forall tlen scale v l, value_ok t tlen v = true -> representable t conv None v = true ->
  logical_of t conv None scale v = Some l ->
  exists c, convert_model t conv None scale v = ROk c /\ denote (column_of conv c) = Some (pandas_of l).
Proof.
  intros t conv HIn tlen scale v l VOK REP LOG.
  cbn [conv_table In] in HIn.
  repeat (destruct HIn as [E|HIn]; [injection E as <- <-|]); try contradiction;
    destruct v as [n|b]; cbn [value_ok num_width] in VOK; try discriminate VOK;
    cbn [logical_of] in LOG; try discriminate LOG.
  - (* UTF8 *) injection LOG as <-. eexists; split; reflexivity.
  - (* DECIMAL INT32 *) injection LOG as <-. eexists; split; reflexivity.
  - (* DECIMAL INT64 *) injection LOG as <-. eexists; split; reflexivity.
  - (* DECIMAL FLBA *) injection LOG as <-. eexists; split; reflexivity.
  - (* DECIMAL BYTE_ARRAY *) injection LOG as <-. eexists; split; reflexivity.
  - (* DATE *)
    injection LOG as <-. cbn [representable] in REP. apply andb_true_iff in REP. destruct REP as [R1 R2].
    apply Z.leb_le in R1, R2. eexists; split; [reflexivity|]. cbn [column_of denote pandas_of].
    assert (B : - 2 ^ 63 < sint 32 n * DAY_NS < 2 ^ 63) by (unfold DAY_NS; change (2 ^ 63) with 9223372036854775808; lia).
    rewrite wrap_not_nat by exact B. rewrite sint_wrap by (change (64 - 1) with 63; lia). reflexivity.
  - (* TIME_MILLIS *)
    injection LOG as <-. pose proof (sint_range 32 n ltac:(lia) (ok32 n VOK)) as R. change (2 ^ (32 - 1)) with 2147483648 in R.
    eexists; split; [reflexivity|]. cbn [column_of].
    assert (B : - 2 ^ 63 < sint 32 n * 1000000 < 2 ^ 63) by (change (2 ^ 63) with 9223372036854775808; lia).
    rewrite wrap_not_nat by exact B. rewrite sint_wrap by (change (64 - 1) with 63; lia).
    rewrite Z.div_mul by lia. cbn [denote pandas_of].
    assert (B2 : - 2 ^ 63 < sint 32 n < 2 ^ 63) by (change (2 ^ 63) with 9223372036854775808; lia).
    rewrite wrap_not_nat by exact B2. rewrite sint_wrap by (change (64 - 1) with 63; lia). reflexivity.
  - (* TIME_MICROS *) injection LOG as <-. cbn [representable] in REP. eexists; split; [reflexivity|].
    cbn [column_of denote pandas_of]. apply negb_true_iff in REP. now rewrite REP.
  - (* TIMESTAMP_MILLIS *) injection LOG as <-. cbn [representable] in REP. eexists; split; [reflexivity|].
    cbn [column_of denote pandas_of]. apply negb_true_iff in REP. now rewrite REP.
  - (* TIMESTAMP_MICROS *) injection LOG as <-. cbn [representable] in REP. eexists; split; [reflexivity|].
    cbn [column_of denote pandas_of]. apply negb_true_iff in REP. now rewrite REP.
  - (* UINT_8 *)
    destruct (Z.ltb_spec (Z.of_N n) (2 ^ 8)) as [S|S]; [|discriminate LOG]. injection LOG as <-.
    eexists; split; [reflexivity|]. cbn [column_of denote pandas_of]. f_equal. f_equal.
    assert (E : sint 32 n = Z.of_N n) by (unfold sint; change (2 ^ (32 - 1)) with 2147483648; change (2 ^ 8) with 256 in S;
      destruct (Z.ltb_spec (Z.of_N n) 2147483648); lia).
    rewrite E. apply wrap_small. pose proof (N2Z.is_nonneg n). lia.
  - (* UINT_16 *)
    destruct (Z.ltb_spec (Z.of_N n) (2 ^ 16)) as [S|S]; [|discriminate LOG]. injection LOG as <-.
    eexists; split; [reflexivity|]. cbn [column_of denote pandas_of]. f_equal. f_equal.
    assert (E : sint 32 n = Z.of_N n) by (unfold sint; change (2 ^ (32 - 1)) with 2147483648; change (2 ^ 16) with 65536 in S;
      destruct (Z.ltb_spec (Z.of_N n) 2147483648); lia).
    rewrite E. apply wrap_small. pose proof (N2Z.is_nonneg n). lia.
  - (* UINT_32 *) injection LOG as <-. eexists; split; [reflexivity|]. cbn [column_of denote pandas_of].
    rewrite wrap_sint by (try lia; now apply ok32). reflexivity.
  - (* UINT_64 *) injection LOG as <-. eexists; split; [reflexivity|]. cbn [column_of denote pandas_of].
    rewrite wrap_sint by (try lia; now apply ok64). reflexivity.
  - (* INT_8 *)
    destruct (fits_signed 8 (sint 32 n)) eqn:F; [|discriminate LOG]. injection LOG as <-.
    unfold fits_signed in F. apply andb_true_iff in F. destruct F as [F1 F2]. apply Z.leb_le in F1. apply Z.ltb_lt in F2.
    eexists; split; [reflexivity|]. cbn [column_of denote pandas_of]. rewrite sint_wrap by lia. reflexivity.
  - (* INT_16 *)
    destruct (fits_signed 16 (sint 32 n)) eqn:F; [|discriminate LOG]. injection LOG as <-.
    unfold fits_signed in F. apply andb_true_iff in F. destruct F as [F1 F2]. apply Z.leb_le in F1. apply Z.ltb_lt in F2.
    eexists; split; [reflexivity|]. cbn [column_of denote pandas_of]. rewrite sint_wrap by lia. reflexivity.
  - (* INT_32 *) injection LOG as <-. eexists; split; [reflexivity|]. cbn [column_of denote pandas_of].
    rewrite sint_wrap; [reflexivity|lia|apply sint_range; [lia|now apply ok32]].
  - (* INT_64 *) injection LOG as <-. eexists; split; [reflexivity|]. cbn [column_of denote pandas_of].
    rewrite sint_wrap; [reflexivity|lia|apply sint_range; [lia|now apply ok64]].
  - injection LOG as <-. eexists; split; reflexivity.
  - injection LOG as <-. eexists; split; reflexivity.
  - injection LOG as <-. eexists; split; reflexivity.
  - injection LOG as <-. eexists; split; reflexivity.
  - injection LOG as <-. eexists; split; reflexivity.
  - injection LOG as <-. eexists; split; reflexivity.
  - injection LOG as <-. eexists; split; reflexivity.
Qed.

(* logicalType TIMESTAMP(unit) on INT64 (how nanosecond timestamps are written) *)
Theorem convert_logical_timestamp_ok u conv scale n :
  (n <? 256 ^ 8)%N = true -> n <> NAT64 ->
  exists c, convert_model INT64 conv (Some u) scale (VNum n) = ROk c /\
            denote (column_of None c) = logical_of INT64 conv (Some u) scale (VNum n).
Proof.
  intros _ NN. eexists; split; [reflexivity|]. cbn [column_of denote logical_of].
  apply N.eqb_neq in NN. now rewrite NN.
Qed.

(* the two holes of the representation, as theorems *)
Theorem date_beyond_ns_wraps :
  logical_of INT32 (Some 6) None 0 (VNum 2932896) = Some (LDate 2932896)                          (* 9999-12-31 *)
  /\ option_map (fun c => denote (column_of (Some 6) c))
       (match convert_model INT32 (Some 6) None 0 (VNum 2932896) with ROk c => Some c | _ => None end)
     = Some (Some (LTimestamp TNs (-4852202631933722624)))                                       (* 1816-03-29 05:56:08.066277376 *)
  /\ pandas_of (LDate 2932896) = LTimestamp TNs 253402214400000000000.
Proof. repeat split; vm_compute; reflexivity. Qed.

Theorem timestamp_min_reads_as_missing :
  logical_of INT64 (Some 9) None 0 (VNum NAT64) = Some (LTimestamp TMs (- 2 ^ 63))
  /\ (exists c, convert_model INT64 (Some 9) None 0 (VNum NAT64) = ROk c /\ denote (column_of (Some 9) c) = None).
Proof. split; [vm_compute; reflexivity|]. eexists; split; reflexivity. Qed.
