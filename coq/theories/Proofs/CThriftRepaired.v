(* The REPAIRED serialiser: a proved target for a future Cython rebuild of cencoding.pyx.
   Two changes against the pinned code (Impl/CThrift.v): the field loop runs over `range(1, 15)` (ids14: every
   id the Parquet IDL declares) and the buffer is bounds-checked and grows (run_grow) instead of dropping
   write_byte calls / copying past the end.  Everything proved for the pinned writer is proved for ANY
   ascending id list (sections `Ids` of the CThrift* proof files); here it is instantiated at ids14 and
   the capacity hypothesis disappears: the round trip holds for every buffer size, and field 14 survives. *)
From Coq Require Import NArith ZArith List Bool Lia.
From Pq Require Import Base.Bytes Thrift.Varint Thrift.Compact Proofs.CompactProofs Impl.CThrift Impl.CThriftSpec
  Proofs.CThriftProofs Proofs.CThriftRead Proofs.CThriftRoundtrip Proofs.CThriftMain Proofs.CThriftTotal Proofs.CThriftReser.
Import ListNotations.
Open Scope N_scope.

Lemma run_grow_all : forall ops s, rev (gout (run_grow ops s)) = rev (gout s) ++ flat ops.
Proof.
  induction ops as [|o ops IH]; intros s.
  - cbn [run_grow flat]. rewrite app_nil_r. reflexivity.
  - destruct o as [b|l]; cbn [run_grow flat]; rewrite IH; cbn [gout ensure].
    + cbn [rev]. rewrite <- app_assoc. reflexivity.
    + rewrite rev_append_rev, rev_app_distr, rev_involutive, <- app_assoc. reflexivity.
Qed.

(* the growing buffer never loses a byte: whatever the initial capacity, to_bytes returns the whole serialisation *)
Theorem to_bytes_grow_complete ids cap0 v bs : ser ids v = Some bs -> to_bytes_grow ids cap0 v = OBytes bs.
Proof.
  unfold ser, to_bytes_grow. intros E. destruct (w_top ids v) as [ops|]; [|discriminate].
  cbn [option_map] in E. injection E as <-. f_equal.
  rewrite rev_append_rev, app_nil_r, run_grow_all. reflexivity.
Qed.

(* every write is inside the buffer: `ensure` makes room first, so the bounds check never fails *)
Lemma grow_ge : forall f cap need, need <= grow f cap need.
Proof.
  induction f as [|f IH]; intros cap need; cbn [grow]; [lia|].
  destruct (N.leb_spec need cap); [assumption|apply IH].
Qed.

Lemma run_grow_in_bounds : forall ops s, gloc s <= gcap s -> gloc (run_grow ops s) <= gcap (run_grow ops s).
Proof.
  induction ops as [|o ops IH]; intros s H; [exact H|].
  destruct o as [b|l]; cbn [run_grow]; apply IH; cbn [gloc gcap ensure]; apply grow_ge.
Qed.

(* ---- the unguarded round trip of the repaired serialiser ---------------------------------------- *)
Theorem roundtrip_repaired a b c : dom ids14 63 (PDict a b c) = true ->
  exists bs, (forall cap0, to_bytes_grow ids14 cap0 (PDict a b c) = OBytes bs) /\
    exists v', from_buffer bs = Some (v', []) /\ obj_eq (PDict a b c) v' = true.
Proof.
  intros Hdom. destruct (roundtrip_total ids14 ids14_asc a b c Hdom) as (bs & Es & _ & Hrt).
  exists bs. split; [|exact Hrt]. intros cap0. apply to_bytes_grow_complete. exact Es.
Qed.

(* its bytes are the specification's encoding of the denoted tree *)
Theorem ser_spec_repaired v : ser ids14 v = option_map wr (t_top ids14 v).
Proof. exact (ser_spec ids14 ids14_asc v). Qed.

(* metadata of another writer, now including field id 14 (ColumnMetaData.bloom_filter_offset, LogicalType.UUID) *)
Theorem reserialise_repaired fs : (depth (TStruct fs) <= w_depth)%nat -> reser_ok 14 (TStruct fs) = true ->
  ser ids14 (pv_of (TStruct fs)) = Some (wr (TStruct fs)).
Proof. exact (reserialise ids14 ids14_asc 14 in_ids14 fs). Qed.

(* the witness of C10_field14_refuted survives under the repaired loop, at any buffer size *)
Lemma field14_kept : dom ids14 63 w14 = true /\
  exists b d', (forall cap0, to_bytes_grow ids14 cap0 w14 = OBytes b) /\ from_buffer b = Some (d', []) /\ obj_eq w14 d' = true.
Proof.
  split; [vm_compute; reflexivity|].
  destruct (roundtrip_repaired false None [(1, PInt 1); (14, PInt 7)]%Z) as (bs & H1 & v' & H2 & H3); [vm_compute; reflexivity|].
  exists bs, v'. repeat split; assumption.
Qed.
