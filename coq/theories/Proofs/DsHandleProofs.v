(* Proofs about Dataset/DsHandle.v: histories through one long-lived handle refine the disk-level history model (every
   operation list); the two faulty handle rules are refuted by computed witnesses.                                      *)
From Coq Require Import NArith ZArith List Bool Arith.
From Pq Require Import Base.Bytes Dataset.FS Dataset.FsPaths Dataset.Edit Dataset.DsHandle.
Import ListNotations.
Local Open Scope N_scope.

Lemma view_open s : view s (open_h s) = s.
Proof. destruct s; reflexivity. Qed.

Lemma step_h_coherent sortp sh o sh' : coherent sh -> step_h sortp sh o = Some sh' ->
  step sortp (fst sh) o = Some (fst sh') /\ coherent sh'.
Proof.
  destruct sh as [s h]. unfold coherent, step_h. cbn [fst snd]. intros -> H. rewrite view_open in H.
  destruct (step sortp s o) as [s'|]; [|discriminate]. inversion H; subst sh'. split; reflexivity.
Qed.

Lemma step_h_refused sortp sh o : coherent sh -> step_h sortp sh o = None -> step sortp (fst sh) o = None.
Proof.
  destruct sh as [s h]. unfold coherent, step_h. cbn [fst snd]. intros -> H. rewrite view_open in H.
  destruct (step sortp s o); [discriminate | reflexivity].
Qed.

(* ANY list of operations through one handle opened on s = the same list through a fresh handle per operation, and the
   handle ends up equal to a fresh open of the final dataset *)
Lemma step_h'_coherent sortp s o :
  step_h' (step_h sortp) (s, open_h s) o = (step' sortp s o, open_h (step' sortp s o)).
Proof.
  unfold step_h', step_h, step'. cbn [fst snd]. rewrite view_open. destruct (step sortp s o); reflexivity.
Qed.

Theorem handle_refines sortp : forall ops s,
  run_h (step_h sortp) ops (s, open_h s) = (run sortp ops s, open_h (run sortp ops s)).
Proof.
  induction ops as [|o ops IH]; intros s; [reflexivity|].
  unfold run_h, run in *. cbn [fold_left]. rewrite step_h'_coherent. apply IH.
Qed.

(* a failed operation whose handle is put back (fix 8453df6) leaves the summary, the handle and every referenced file's
   row-group list as they were; only unreferenced part files appear *)
Theorem fail_restored_coherent s done :
  let sh' := fail_write false (s, open_h s) done in
  coherent sh' /\ st_sum (fst sh') = st_sum s /\ st_num (fst sh') = st_num s.
Proof.
  cbn zeta. unfold fail_write. cbn [h_sum open_h].
  destruct (find_max_part (map fst (st_sum s))); unfold coherent; cbn [fst snd]; repeat split; reflexivity.
Qed.

(* ---- refutations (computed witnesses) ---- *)
Definition w_dir : path := [107; 61; 48].                        (* "k=0" *)
Definition w_ops : list op :=
  [OWriteRgs [[(w_dir, [10; 11])]] SKNone false; OWriteRgs [[(w_dir, [20])]] SKNone false].
Definition w_s0 : state := run sort_pnames_fixed [OWrite 1 [[(w_dir, [0; 1; 2])]]] empty.

(* stale handle: the second append through the same handle drops the first from the summary and re-uses its file name *)
Theorem stale_handle_refuted :
  abs (fst (run_h (step_h_stale sort_pnames_fixed) w_ops (w_s0, open_h w_s0))) <> abs (run sort_pnames_fixed w_ops w_s0)
  /\ check_inv (fst (run_h (step_h_stale sort_pnames_fixed) w_ops (w_s0, open_h w_s0))) = true
  /\ map snd (abs (fst (run_h (step_h_stale sort_pnames_fixed) w_ops (w_s0, open_h w_s0)))) = [[0; 1; 2]; [20]].
Proof. vm_compute. repeat split; try reflexivity. discriminate. Qed.

(* failed operation kept in the handle: the next successful append publishes its rows *)
Theorem failed_op_kept_refuted :
  let sh1 := fail_write true (w_s0, open_h w_s0) [[(w_dir, [10; 11])]] in
  let sh2 := run_h (step_h sort_pnames_fixed) [OWriteRgs [[(w_dir, [20])]] SKNone false] sh1 in
  abs (fst sh1) = abs w_s0                                             (* after the failure the dataset reads as before *)
  /\ map snd (abs (fst sh2)) = [[0; 1; 2]; [10; 11]; [20]]             (* ... and then the failed rows are published *)
  /\ map snd (abs (run sort_pnames_fixed [OWriteRgs [[(w_dir, [20])]] SKNone false] w_s0)) = [[0; 1; 2]; [20]].
Proof. vm_compute. repeat split; reflexivity. Qed.

Theorem failed_op_restored_ok :
  let sh1 := fail_write false (w_s0, open_h w_s0) [[(w_dir, [10; 11])]] in
  let sh2 := run_h (step_h sort_pnames_fixed) [OWriteRgs [[(w_dir, [20])]] SKNone false] sh1 in
  map snd (abs (fst sh2)) = [[0; 1; 2]; [20]].
Proof. vm_compute. reflexivity. Qed.
