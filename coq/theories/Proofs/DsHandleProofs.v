(* Proofs about Dataset/DsHandle.v: histories through one long-lived handle refine the disk-level history model (every
   operation list); the two faulty handle rules are refuted by computed witnesses.                                      *)
From Coq Require Import NArith ZArith List Bool Arith.
From Pq Require Import Base.Bytes Dataset.FS Dataset.FsPaths Dataset.Edit Dataset.DsHandle.
Import ListNotations.
Local Open Scope N_scope.

Lemma view_open s : view s (open_h s) = s.
Proof. destruct s; reflexivity. Qed.

Lemma step_h_coherent sortp sh o sh' : coherent sh -> step_h sortp sh o = Some sh' ->
  step sortp (fst sh) o = Some (fst sh') /\ coherent sh'.
Proof.
  destruct sh as [s h]. unfold coherent, step_h. cbn [fst snd]. intros -> H. rewrite view_open in H.
  destruct (step sortp s o) as [s'|]; [|discriminate]. inversion H; subst sh'. split; reflexivity.
Qed.

Lemma step_h_refused sortp sh o : coherent sh -> step_h sortp sh o = None -> step sortp (fst sh) o = None.
Proof.
  destruct sh as [s h]. unfold coherent, step_h. cbn [fst snd]. intros -> H. rewrite view_open in H.
  destruct (step sortp s o); [discriminate | reflexivity].
Qed.

(* ANY list of operations through one handle opened on s = the same list through a fresh handle per operation, and the
   handle ends up equal to a fresh open of the final dataset *)
Lemma step_h'_coherent sortp s o :
  step_h' (step_h sortp) (s, open_h s) o = (step' sortp s o, open_h (step' sortp s o)).
Proof.
  unfold step_h', step_h, step'. cbn [fst snd]. rewrite view_open. destruct (step sortp s o); reflexivity.
Qed.

Theorem handle_refines sortp : forall ops s,
  run_h (step_h sortp) ops (s, open_h s) = (run sortp ops s, open_h (run sortp ops s)).
Proof.
  induction ops as [|o ops IH]; intros s; [reflexivity|].
  unfold run_h, run in *. cbn [fold_left]. rewrite step_h'_coherent. apply IH.
Qed.

(* a failed operation whose handle is put back (fix 8453df6) leaves the summary, the handle and every referenced file's
   row-group list as they were; only unreferenced part files appear *)
Theorem fail_restored_coherent s done :
  let sh' := fail_write false (s, open_h s) done in
  coherent sh' /\ st_sum (fst sh') = st_sum s /\ st_num (fst sh') = st_num s.
Proof.
  cbn zeta. unfold fail_write. cbn [h_sum open_h].
  destruct (find_max_part (map fst (st_sum s))); unfold coherent; cbn [fst snd]; repeat split; reflexivity.
Qed.

(* ---- refutations (computed witnesses) ---- *)
Definition w_dir : path := [107; 61; 48].                        (* "k=0" *)
Definition w_ops : list op :=
  [OWriteRgs [[(w_dir, [10; 11])]] SKNone false; OWriteRgs [[(w_dir, [20])]] SKNone false].
Definition w_s0 : state := run sort_pnames_fixed [OWrite 1 [[(w_dir, [0; 1; 2])]]] empty.

(* stale handle: the second append through the same handle drops the first from the summary and re-uses its file name *)
Theorem stale_handle_refuted :
  abs (fst (run_h (step_h_stale sort_pnames_fixed) w_ops (w_s0, open_h w_s0))) <> abs (run sort_pnames_fixed w_ops w_s0)
  /\ check_inv (fst (run_h (step_h_stale sort_pnames_fixed) w_ops (w_s0, open_h w_s0))) = true
  /\ map snd (abs (fst (run_h (step_h_stale sort_pnames_fixed) w_ops (w_s0, open_h w_s0)))) = [[0; 1; 2]; [20]].
Proof. vm_compute. repeat split; try reflexivity. discriminate. Qed.

(* failed operation kept in the handle: the next successful append publishes its rows *)
Theorem failed_op_kept_refuted :
  let sh1 := fail_write true (w_s0, open_h w_s0) [[(w_dir, [10; 11])]] in
  let sh2 := run_h (step_h sort_pnames_fixed) [OWriteRgs [[(w_dir, [20])]] SKNone false] sh1 in
  abs (fst sh1) = abs w_s0                                             (* after the failure the dataset reads as before *)
  /\ map snd (abs (fst sh2)) = [[0; 1; 2]; [10; 11]; [20]]             (* ... and then the failed rows are published *)
  /\ map snd (abs (run sort_pnames_fixed [OWriteRgs [[(w_dir, [20])]] SKNone false] w_s0)) = [[0; 1; 2]; [20]].
Proof. vm_compute. repeat split; reflexivity. Qed.

Theorem failed_op_restored_ok :
  let sh1 := fail_write false (w_s0, open_h w_s0) [[(w_dir, [10; 11])]] in
  let sh2 := run_h (step_h sort_pnames_fixed) [OWriteRgs [[(w_dir, [20])]] SKNone false] sh1 in
  map snd (abs (fst sh2)) = [[0; 1; 2]; [20]].
Proof. vm_compute. reflexivity. Qed.

(* ---- wave 4: a failed operation, any kind that writes data, any failure position ---- *)
From Pq Require Import Proofs.EditProofs.

Lemma written_prefix_paths es j torn : forall p, In p (map fst (written_prefix es j torn)) -> In p (map fst es).
Proof.
  intros p H. assert (F : forall q, In q (map fst (firstn j es)) -> In q (map fst es)).
  { intros q Hq. apply in_map_iff in Hq. destruct Hq as [e [E He]]. apply in_map_iff. exists e. split; [exact E|].
    rewrite <- (firstn_skipn j es). apply in_or_app. now left. }
  unfold written_prefix in H. destruct torn as [t|]; [|now apply F].
  destruct (rev (firstn j es)) as [|last before] eqn:R; [now apply F|].
  apply F. apply in_map_iff in H. destruct H as [e [E He]]. apply in_rev in He.
  assert (In p (map fst (rev (firstn j es)))).
  { rewrite R. cbn [map]. destruct He as [He|He]; [subst e; cbn in E; now left | right; apply in_map_iff; exists e; tauto]. }
  rewrite map_rev in H. now apply in_rev in H.
Qed.

(* the handle is EXACTLY as before, it is coherent with the disk, the summary and num_rows on disk are as before, and - when
   the operation's new data is well formed - every referenced file is untouched: a fresh open reads what it read before *)
Theorem failed_op_state_unchanged s o j torn :
  let sh' := fail_op (s, open_h s) o j torn in
  snd sh' = open_h s /\ coherent sh' /\ st_sum (fst sh') = st_sum s /\ st_num (fst sh') = st_num s /\ abs (fst sh') = abs s
  /\ (wf_op o -> forall e, In e (st_sum s) -> lookup (fst e) (st_dir (fst sh')) = lookup (fst e) (st_dir s)).
Proof.
  cbn zeta. unfold fail_op. cbn [h_sum open_h].
  destruct (op_rgs o) as [rgs|] eqn:Ho; [|unfold coherent; cbn [fst snd]; repeat split; reflexivity].
  destruct (find_max_part (map fst (st_sum s))) as [off|] eqn:Hoff; [|unfold coherent; cbn [fst snd]; repeat split; reflexivity].
  unfold coherent, abs. cbn [fst snd st_sum st_num st_dir]. repeat split.
  intros W e He. apply put_files_other. intros Hin. apply written_prefix_paths in Hin.
  apply in_map_iff in Hin. destruct Hin as [e' [E' He']].
  assert (Wr : wf_rgs rgs) by (destruct o; cbn in Ho; inversion Ho; subst; exact W).
  apply (new_entries_fresh (map fst (st_sum s)) off rgs e' Wr Hoff He'). rewrite E'. apply in_map_iff. exists e. tauto.
Qed.

(* ... so a history continued through the same handle starts from a coherent handle: C09_handle_refines applies to it *)
Corollary continue_after_failed_op sortp s o j torn ops :
  let s1 := fst (fail_op (s, open_h s) o j torn) in
  run_h (step_h sortp) ops (fail_op (s, open_h s) o j torn) = (run sortp ops s1, open_h (run sortp ops s1)).
Proof.
  cbn zeta. destruct (failed_op_state_unchanged s o j torn) as [H1 [H2 _]]. cbn zeta in H1, H2.
  destruct (fail_op (s, open_h s) o j torn) as [s1 h1] eqn:E. cbn [fst snd] in *. unfold coherent in H2. cbn [fst snd] in H2.
  rewrite H2. apply handle_refines.
Qed.
