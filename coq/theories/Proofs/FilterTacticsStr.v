(* The automation of FilterTactics.v for str cells: same symbolic execution, the comparisons are
   those of the lexicographic order (split by their BoolSpec), the stdlib `order` tactic closes the
   goals instead of lia. *)
From Coq Require Import ZArith List String Bool Lia.
From Pq Require Import Base.PyVal Impl.Filter Proofs.PyValProofs Proofs.PyValStrProofs Proofs.FilterTactics.
Import ListNotations.
Open Scope Z_scope.

Ltac spycbv H :=
  cbv -[Z.ltb Z.leb Z.gtb Z.geb Z.eqb Z.of_nat List.length last strs smem ssort scount
        str_ltb str_leb str_gtb str_geb String.eqb
        py_len py_in py_not_in py_sorted py_index py_searchsorted_left py_searchsorted_right] in H.
Ltac spycbv_goal :=
  cbv -[Z.ltb Z.leb Z.gtb Z.geb Z.eqb Z.of_nat List.length last strs smem ssort scount
        str_ltb str_leb str_gtb str_geb String.eqb
        py_len py_in py_not_in py_sorted py_index py_searchsorted_left py_searchsorted_right].

(* String.eqb on two literals (operator names): compute it *)
Ltac eval_streq H :=
  match type of H with
  | context [String.eqb ?a ?b] =>
    let r := eval vm_compute in (String.eqb a b) in
    lazymatch r with true => idtac | false => idtac end;
    change (String.eqb a b) with r in H
  end.
Ltac eval_streq_goal :=
  repeat match goal with
  | |- context [String.eqb ?a ?b] =>
    let r := eval vm_compute in (String.eqb a b) in
    lazymatch r with true => idtac | false => idtac end;
    change (String.eqb a b) with r
  end.

Ltac seval_lit H :=
  match type of H with
  | context [py_in ?a (PList ?l)] => let t := constr:(py_in a (PList l)) in
      let r := eval cbv -[String.eqb str_ltb str_leb str_gtb str_geb] in t in change t with r in H
  | context [py_not_in ?a (PList ?l)] => let t := constr:(py_not_in a (PList l)) in
      let r := eval cbv -[String.eqb str_ltb str_leb str_gtb str_geb] in t in change t with r in H
  end.

Ltac slist_rw H :=
  match type of H with
  | context [py_len (strs ?l)] => rewrite (py_len_strs l) in H
  | context [py_in (PStr ?x) (strs ?l)] => rewrite (py_in_strs x l) in H
  | context [py_not_in (PStr ?x) (strs ?l)] => rewrite (py_not_in_strs x l) in H
  | context [py_sorted (strs ?l)] => rewrite (py_sorted_strs l) in H
  | context [py_searchsorted_left (strs ?l) (PStr ?v)] => rewrite (py_ss_left_strs l v) in H
  | context [py_searchsorted_right (strs ?l) (PStr ?v)] => rewrite (py_ss_right_strs l v) in H
  | context [py_index (strs ?l) (PInt 0)] => rewrite (py_index0_strs l) in H
  | context [py_index (strs ?l) (PInt (-1))] => rewrite (py_index_m1_strs l) in H
  | context [py_index (PArr [?m]) (PInt 0)] => rewrite (py_index_arr1 m) in H
  end.

Ltac ssplit_test H :=
  match type of H with
  | context [if str_gtb ?a ?b then _ else _] => destruct (str_gtb_spec a b)
  | context [if str_geb ?a ?b then _ else _] => destruct (str_geb_spec a b)
  | context [if str_ltb ?a ?b then _ else _] => destruct (str_ltb_spec a b)
  | context [if str_leb ?a ?b then _ else _] => destruct (str_leb_spec a b)
  | context [if String.eqb ?a ?b then _ else _] => destruct (str_eqb_spec a b)
  | context [if Z.eqb ?a ?b then _ else _] => destruct (Z.eqb_spec a b)
  | context [if smem ?a ?l then _ else _] => let M := fresh "Hm" in destruct (smem a l) eqn:M
  | context [match ssort ?l with _ => _ end] => let E := fresh "Esort" in destruct (ssort l) eqn:E
  end.

Ltac ssplit_ret H :=
  match type of H with
  | context [str_gtb ?a ?b] => destruct (str_gtb_spec a b)
  | context [str_geb ?a ?b] => destruct (str_geb_spec a b)
  | context [str_ltb ?a ?b] => destruct (str_ltb_spec a b)
  | context [str_leb ?a ?b] => destruct (str_leb_spec a b)
  | context [String.eqb ?a ?b] => destruct (str_eqb_spec a b)
  | context [Z.eqb ?a ?b] => destruct (Z.eqb_spec a b)
  end.

Ltac spy_eval H :=
  spycbv H; repeat eval_streq H; spycbv H; try discriminate H;
  repeat (first [ seval_lit H | slist_rw H | ssplit_test H ]; spycbv H; repeat eval_streq H; spycbv H; try discriminate H);
  repeat (ssplit_ret H; try discriminate H).

Ltac scases :=
  repeat match goal with
  | |- context [str_gtb ?a ?b] => destruct (str_gtb_spec a b)
  | |- context [str_geb ?a ?b] => destruct (str_geb_spec a b)
  | |- context [str_ltb ?a ?b] => destruct (str_ltb_spec a b)
  | |- context [str_leb ?a ?b] => destruct (str_leb_spec a b)
  | |- context [String.eqb ?a ?b] => destruct (str_eqb_spec a b)
  end.

Ltac slist_facts :=
  repeat match goal with
  | Es : ssort ?vs = ?h :: ?r, E : context [scount _ (?h :: ?r)] |- _ => rewrite <- Es in E
  end;
  repeat match goal with
  | H : smem ?a ?l = true |- _ => apply smem_In in H
  | H : smem ?a ?l = false |- _ =>
    let N := fresh "Hnotin" in
    assert (~ In a l) as N by (intros N; apply smem_In in N; congruence); clear H
  end;
  repeat match goal with
  | Hin : In ?z ?vs, E : ssort ?vs = [] |- _ =>
    exfalso; apply (ssort_in z vs) in Hin; rewrite E in Hin; exact Hin
  | Hin : In ?z ?vs, E : ssort ?vs = ?h :: ?r |- _ =>
    lazymatch goal with
    | _ : ~ slt z h |- _ => fail
    | _ => let F := fresh "Fhd" in let G := fresh "Flast" in
           assert (~ slt z h) as F by
             (apply (ssorted_hd h r z); [rewrite <- E; apply ssort_sorted | rewrite <- E; apply ssort_in; exact Hin]);
           assert (~ slt (last (h :: r) EmptyString) z) as G by
             (apply ssorted_last; [rewrite <- E; apply ssort_sorted | rewrite <- E; apply ssort_in; exact Hin])
    end
  | Hin : In ?z ?vs, E : scount (fun y1 => str_ltb y1 ?a) (ssort ?vs) = scount (fun y2 => str_leb y2 ?b) (ssort ?vs) |- _ =>
    lazymatch goal with
    | _ : (~ slt z a -> ~ slt b z -> False) |- _ => fail
    | _ => let F := fresh "Fgap" in
           assert (~ slt z a -> ~ slt b z -> False) as F by
             (apply (scount_gap (ssort vs) a b z); [apply ssort_sorted | exact E | apply ssort_in; exact Hin])
    end
  | Hin : In ?z ?vs, E : Z.of_nat (List.length ?vs) = 0 |- _ =>
    exfalso; destruct vs; [exact Hin | cbn [List.length] in E; lia]
  end.

Ltac sfinish :=
  try congruence; try sord;
  try (exfalso; match goal with F : (~ slt ?z ?a -> ~ slt ?b ?z -> False) |- _ => apply F; sord end);
  try (exfalso; match goal with
       | Hn : ~ In ?b ?vs, Hi : In ?z ?vs |- _ => apply Hn; assert (b = z) as -> by sord; exact Hi
       end).

Definition slo_core (vmin : pv) (x : string) : Prop := vmin = PNone \/ exists m, vmin = PStr m /\ str_leb m x = true.
Definition shi_core (vmax : pv) (x : string) : Prop := vmax = PNone \/ exists m, vmax = PStr m /\ str_leb x m = true.

(* bounds as order facts *)
Ltac bound_facts :=
  repeat match goal with
  | H : str_leb ?a ?b = true |- _ =>
    let F := fresh "Lb" in destruct (str_leb_spec a b) as [F|F]; [clear H|discriminate H]
  end.

Ltac score_shapes Hlo Hhi :=
  let a := fresh "a" in let b := fresh "b" in let La := fresh "La" in let Lb := fresh "Lb" in
  destruct Hlo as [->|[a [-> La]]]; destruct Hhi as [->|[b [-> Lb]]]; bound_facts.

Ltac sleaf_scalar H :=
  spy_eval H; spycbv_goal; eval_streq_goal; spycbv_goal; scases; try reflexivity; sfinish.

Ltac sleaf_list H :=
  spy_eval H; spycbv_goal; eval_streq_goal; spycbv_goal; rewrite ?py_in_strs, ?py_not_in_strs; spycbv_goal;
  match goal with
  | |- context [smem ?z ?vs] => let M := fresh "Hmem" in destruct (smem z vs) eqn:M
  end; try reflexivity; exfalso; scases; try discriminate; slist_facts; sfinish.

Ltac slift_core core Hlo Hhi H :=
  let a := fresh "a" in let b := fresh "b" in let La := fresh "La" in let Lb := fresh "Lb" in
  destruct Hlo as [->|[a [[->| ->] La]]]; destruct Hhi as [->|[b [[->| ->] Lb]]];
  unwrap_arrays H;
  (eapply core; [| |exact H]; first [left; reflexivity | right; eexists; split; [reflexivity|eassumption]]).

Ltac stotal_case H :=
  spy_eval H; try discriminate H;
  try (exfalso; match goal with E : ssort ?vs = [] |- _ =>
         apply ssort_nil in E; subst; cbn [List.length Z.of_nat] in *; congruence end).
Ltac ssplit_res :=
  match goal with |- exists b, ?t = Ok b =>
    let r := fresh "r" in let e := fresh "e" in let H := fresh "H" in
    destruct t as [r|e] eqn:H; [exists r; reflexivity|exfalso; stotal_case H] end.
