(* Nested page streams embed into the page payload framing of Encodings.md / parquet.thrift with the
   proved hybrid codec (Codec/Hybrid.v, Proofs/HybridProofs.v):

     data page v1 payload = le32 |R| ++ R ++ le32 |D| ++ D ++ values      R, D = hybrid runs of the
     data page v2 payload = R ++ D ++ values (byte lengths in the header)  repetition / definition levels

   For any runs that spell the levels of a page's entries, decoding the payload with the spec decoder
   gives back exactly the (rep, def) entries of the page - the input of assemble_spec / the impl
   models - and leaves the value bytes untouched.  Format/Enc.v's file-level spec (flat columns: only
   definition levels) is not extended; this is the part of its chunk framing that nesting adds. *)
From Coq Require Import NArith List Bool Lia.
From Pq Require Import Base.Bytes Base.ListX Codec.Hybrid Proofs.HybridProofs Format.Nested.
Import ListNotations.
Open Scope N_scope.

Definition level_w (maxlevel : N) : N := N.size maxlevel.

Definition nested_v1_payload (rw dw : N) (rruns druns : list hrun) (vbytes : bytes) : bytes :=
  hyb_enc_len rw rruns ++ hyb_enc_len dw druns ++ vbytes.

Definition dec_nested_v1 (rw dw n : N) (payload : bytes) : option (list entry * bytes) :=
  match hyb_dec_len true rw n payload with
  | Some (rep, r1) =>
    match hyb_dec_len true dw n r1 with
    | Some (de, r2) => Some (combine rep de, r2)
    | None => None
    end
  | None => None
  end.

Theorem nested_v1_roundtrip : forall rw dw rruns druns vbytes (es : list entry),
  Forall (run_wf rw) rruns -> Forall (run_wf dw) druns ->
  allvals rruns = map fst es -> allvals druns = map snd es ->
  N.of_nat (length (hyb_enc rw rruns)) < 2 ^ 32 -> N.of_nat (length (hyb_enc dw druns)) < 2 ^ 32 ->
  dec_nested_v1 rw dw (N.of_nat (length es)) (nested_v1_payload rw dw rruns druns vbytes) = Some (es, vbytes).
Proof.
  intros rw dw rruns druns vbytes es Wr Wd Er Ed Lr Ld.
  unfold dec_nested_v1, nested_v1_payload.
  assert (Nr : (N.to_nat (N.of_nat (length es)) <= length (allvals rruns))%nat)
    by (rewrite Nnat.Nat2N.id, Er, map_length; apply le_n).
  assert (Nd : (N.to_nat (N.of_nat (length es)) <= length (allvals druns))%nat)
    by (rewrite Nnat.Nat2N.id, Ed, map_length; apply le_n).
  rewrite (hyb_len_roundtrip true rw rruns (N.of_nat (length es)) _ Wr Nr Lr).
  rewrite (hyb_len_roundtrip true dw druns (N.of_nat (length es)) _ Wd Nd Ld).
  rewrite Er, Ed, Nnat.Nat2N.id.
  rewrite <- (map_length fst es) at 1. rewrite firstn_all.
  rewrite <- (map_length snd es) at 1. rewrite firstn_all.
  f_equal. f_equal. clear. induction es as [|[r d] t IH]; [reflexivity|]. cbn. rewrite IH. reflexivity.
Qed.

Definition nested_v2_payload (rw dw : N) (rruns druns : list hrun) (vbytes : bytes) : bytes :=
  hyb_enc rw rruns ++ hyb_enc dw druns ++ vbytes.

(* rl, dl = DataPageHeaderV2.repetition_levels_byte_length / definition_levels_byte_length *)
Definition dec_nested_v2 (rw dw n rl dl : N) (payload : bytes) : option (list entry * bytes) :=
  match hyb_dec true rw n (takeN rl payload) with
  | Some (rep, _) =>
    match hyb_dec true dw n (takeN dl (dropN rl payload)) with
    | Some (de, _) => Some (combine rep de, dropN dl (dropN rl payload))
    | None => None
    end
  | None => None
  end.

Theorem nested_v2_roundtrip : forall rw dw rruns druns vbytes (es : list entry),
  Forall (run_wf rw) rruns -> Forall (run_wf dw) druns ->
  allvals rruns = map fst es -> allvals druns = map snd es ->
  dec_nested_v2 rw dw (N.of_nat (length es)) (N.of_nat (length (hyb_enc rw rruns))) (N.of_nat (length (hyb_enc dw druns)))
                (nested_v2_payload rw dw rruns druns vbytes) = Some (es, vbytes).
Proof.
  intros rw dw rruns druns vbytes es Wr Wd Er Ed.
  unfold dec_nested_v2, nested_v2_payload.
  assert (Nr : (N.to_nat (N.of_nat (length es)) <= length (allvals rruns))%nat)
    by (rewrite Nnat.Nat2N.id, Er, map_length; apply le_n).
  assert (Nd : (N.to_nat (N.of_nat (length es)) <= length (allvals druns))%nat)
    by (rewrite Nnat.Nat2N.id, Ed, map_length; apply le_n).
  rewrite takeN_app_exact, dropN_app_exact, takeN_app_exact, dropN_app_exact.
  destruct (hyb_roundtrip true rw rruns (N.of_nat (length es)) [] Wr Nr) as [r1 H1].
  rewrite app_nil_r in H1. rewrite H1.
  destruct (hyb_roundtrip true dw druns (N.of_nat (length es)) [] Wd Nd) as [r2 H2].
  rewrite app_nil_r in H2. rewrite H2.
  rewrite Er, Ed, Nnat.Nat2N.id.
  rewrite <- (map_length fst es) at 1. rewrite firstn_all.
  rewrite <- (map_length snd es) at 1. rewrite firstn_all.
  f_equal. f_equal. clear. induction es as [|[r d] t IH]; [reflexivity|]. cbn. rewrite IH. reflexivity.
Qed.
