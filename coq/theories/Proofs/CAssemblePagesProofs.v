(* Proofs about the IMPL model Impl/CAssemble.v (part 2: the page-split theorem).

   For every stream the SPEC decoder accepts (assemble_spec sh es vs = Some rows), cut into
   pages in any way that satisfies `good_split` (every page non-empty; a page either starts a row,
   or the continued part of the row holds a non-null element before the next row starts, or the
   page is the last one and holds only the continuation), the fold of _assemble_objects over the
   pages with read_col's carried row index writes exactly `rows` into a fresh object array.

   The proof is a simulation of the spec FSM (open_row / cont_row / asm) by the loop state
   (i, part, started, have_null, vali), entry by entry and across page boundaries. *)
From Coq Require Import NArith Arith List Bool Lia.
From Pq Require Import Format.Nested Impl.CAssemble Proofs.NestedProofs Proofs.CAssembleProofs.
Import ListNotations.
Open Scope N_scope.

(* ---------- schema.py's parameters for the call are the spec's levels ---------- *)
Lemma call_null_shape : forall sh, call_null (shape_path sh) = row_opt sh.
Proof. intros [[|] [|]]; reflexivity. Qed.
Lemma sch_max_def_shape : forall sh, sch_max_def (shape_path sh) = max_def sh.
Proof. intros [[|] [|]]; reflexivity. Qed.
Lemma sch_max_rep_shape : forall sh, sch_max_rep (shape_path sh) = 1.
Proof. intros [[|] [|]]; reflexivity. Qed.

(* ---------- list helpers ---------- *)
Lemma set_nth_app : forall {A} (pre : list A) x post c,
  set_nth (pre ++ x :: post) (length pre) c = Some (pre ++ c :: post).
Proof.
  induction pre as [|h pre IH]; intros x post c.
  - reflexivity.
  - cbn [app length set_nth]. rewrite IH. reflexivity.
Qed.

Lemma nth_error_app_len : forall {A} (pre : list A) x post,
  nth_error (pre ++ x :: post) (length pre) = Some x.
Proof. induction pre as [|h pre IH]; intros; [reflexivity|]. cbn [app length nth_error]. apply IH. Qed.

Lemma app_cons_assoc : forall {A} (pre : list A) x l, pre ++ x :: l = (pre ++ [x]) ++ l.
Proof. intros. rewrite <- app_assoc. reflexivity. Qed.

Section Sim.
Variable V : Type.
Variable sh : shape.

Notation null := (row_opt sh).
Notation md := (max_def sh).
Notation nulln := (if row_opt sh then 1 else 0).

Lemma nulln_d_empty : nulln = d_empty sh.
Proof. reflexivity. Qed.

Lemma write_row_app : forall (pre : arr V) x post c,
  write_row (pre ++ x :: post) (length pre) c = AOk (pre ++ c :: post).
Proof. intros. unfold write_row. rewrite set_nth_app. reflexivity. Qed.

Lemma extend_prev_app : forall (pre : arr V) l post part,
  extend_prev (pre ++ Some l :: post) (S (length pre)) part = AOk (pre ++ Some (l ++ rev part) :: post).
Proof.
  intros. unfold extend_prev. rewrite nth_error_app_len. apply write_row_app.
Qed.

(* ---------- one level against the spec's open_row (first entry of a row, part = []) ---------- *)
Lemma add_level_open : forall d lv w c vs' i st hn vali (a : arr V),
  open_row sh d (lv ++ w) = Some (c, vs') ->
  ((d =? md) = true -> lv <> []) ->
  exists part' hn' vali' lv',
    add_level null md (mkSt i [] st hn vali lv a) d = AOk (mkSt i part' st hn' vali' lv' a) /\
    cell hn' part' = c /\ vs' = lv' ++ w /\
    length lv = (length lv' + (if (d =? md)%N then 1 else 0))%nat.
Proof.
  intros d lv w c vs' i st hn vali a H Hv.
  pose proof (max_def_gt sh) as G.
  unfold open_row in H. unfold add_level. cbn [s_vals s_i s_part s_started s_vali s_arr].
  destruct (d <? d_empty sh) eqn:E1.
  - (* null row *)
    apply N.ltb_lt in E1. injection H as <- <-.
    assert (Ro : row_opt sh = true) by (unfold d_empty in E1; destruct (row_opt sh); [reflexivity|lia]).
    assert (D0 : d = 0) by (unfold d_empty in E1; rewrite Ro in E1; lia). subst d.
    assert ((0 =? md) = false) as -> by (apply N.eqb_neq; lia).
    rewrite Ro. change (1 <? 0) with false. cbv iota.
    exists [], true, vali, lv. cbn. repeat split; try reflexivity. lia.
  - apply N.ltb_ge in E1. destruct (d =? d_empty sh) eqn:E2.
    + (* empty list *)
      apply N.eqb_eq in E2. injection H as <- <-. subst d.
      assert ((d_empty sh =? md) = false) as -> by (apply N.eqb_neq; lia).
      assert ((nulln <? d_empty sh) = false) as -> by (apply N.ltb_ge; unfold d_empty; lia).
      exists [], ((d_empty sh =? 0) && null), vali, lv. repeat split; try lia.
      unfold cell, d_empty. destruct (row_opt sh); reflexivity.
    + apply N.eqb_neq in E2. destruct (d =? md) eqn:E3.
      * (* value *)
        destruct lv as [|v lv]; [exfalso; apply (Hv eq_refl); reflexivity|].
        cbn [app] in H. injection H as <- <-.
        apply N.eqb_eq in E3.
        exists [Some v], ((d =? 0) && null), (vali + 1), lv. repeat split; try (cbn; lia).
        assert ((d =? 0) = false) as -> by (apply N.eqb_neq; lia). reflexivity.
      * destruct (d <? md) eqn:E4; [|discriminate]. injection H as <- <-.
        assert ((nulln <? d) = true) as -> by (apply N.ltb_lt; unfold d_empty in *; lia).
        exists [None], ((d =? 0) && null), vali, lv. repeat split; try (cbn; lia).
        assert ((d =? 0) = false) as -> by (apply N.eqb_neq; unfold d_empty in *; lia). reflexivity.
Qed.

(* ---------- one level against the spec's cont_row (continuation entry) ---------- *)
Lemma add_level_cont : forall d L lv w c vs' i part st hn vali (a : arr V),
  cont_row sh (Some L) d (lv ++ w) = Some (c, vs') ->
  ((d =? md) = true -> lv <> []) ->
  exists x lv',
    add_level null md (mkSt i part st hn vali lv a) d
      = AOk (mkSt i (x :: part) st false (if d =? md then vali + 1 else vali) lv' a) /\
    c = Some (L ++ [x]) /\ L <> [] /\ vs' = lv' ++ w /\
    length lv = (length lv' + (if (d =? md)%N then 1 else 0))%nat.
Proof.
  intros d L lv w c vs' i part st hn vali a H Hv.
  pose proof (max_def_gt sh) as G.
  unfold cont_row in H. destruct L as [|e es]; [discriminate|].
  unfold add_level. cbn [s_vals s_i s_part s_started s_vali s_arr].
  destruct (d =? md) eqn:E3.
  - destruct lv as [|v lv]; [exfalso; apply (Hv eq_refl); reflexivity|].
    cbn [app] in H. injection H as <- <-. apply N.eqb_eq in E3.
    assert ((d =? 0) = false) as -> by (apply N.eqb_neq; lia).
    exists (Some v), lv. repeat split; try (cbn; lia). discriminate.
  - destruct ((d_empty sh <? d) && (d <? md)) eqn:E4; [|discriminate].
    injection H as <- <-. apply andb_prop in E4. destruct E4 as [E4 E5].
    apply N.ltb_lt in E4.
    assert ((nulln <? d) = true) as -> by (apply N.ltb_lt; unfold d_empty in *; lia).
    assert ((d =? 0) = false) as -> by (apply N.eqb_neq; lia).
    exists None, lv. repeat split; try (cbn; lia). discriminate.
Qed.

(* ---------- the rest of the chunk read, from inside a page ---------- *)
(* finish the current page from loop state s, then read the later pages *)
Definition finish_page (s : st V) : ares (arr V * nat) :=
  if s_started s then
    match write_row (s_arr s) (s_i s) (cell (s_have_null s) (s_part s)) with
    | AOk a' => AOk (a', s_i s)
    | AErr x => AErr x
    end
  else
    match extend_prev (s_arr s) (s_i s) (s_part s) with
    | AOk a' => AOk (a', s_i s)
    | AErr x => AErr x
    end.

Definition run_from (s : st V) (es : list entry) (later : list (page V)) : ares (arr V) :=
  match run_steps null md s es with
  | AErr x => AErr x
  | AOk s' =>
    match finish_page s' with
    | AOk (a', i) => read_col_v1 null md a' (S i) later
    | AErr x => AErr x
    end
  end.

Lemma read_col_v1_cons : forall a idx p t,
  read_col_v1 null md a idx (p :: t) = run_from (mkSt idx [] false false 0 (snd p) a) (fst p) t.
Proof.
  intros. cbn [read_col_v1]. unfold assemble_page, run_from, finish_page.
  destruct (run_steps null md _ (fst p)) as [s'|x]; [|reflexivity].
  destruct (s_started s').
  - destruct (write_row _ _ _); reflexivity.
  - destruct (extend_prev _ _ _); reflexivity.
Qed.

Lemma run_from_cons : forall s e es later,
  run_from s (e :: es) later =
  match step null md s e with AOk s' => run_from s' es later | AErr x => AErr x end.
Proof.
  intros. unfold run_from. cbn [run_steps]. destruct (step null md s e); reflexivity.
Qed.

Definition later_entries (later : list (page V)) : list entry := concat (map fst later).
Definition later_vals (later : list (page V)) : list V := concat (map snd later).

Lemma asm_length : forall es cur vs out, asm (V:=V) sh cur es vs = Some out -> (1 <= length out)%nat.
Proof.
  induction es as [|[r d] t IH]; intros cur vs out H; cbn [asm] in H.
  - destruct vs; [|discriminate]. injection H as <-. cbn. lia.
  - destruct (r =? 0).
    + destruct (open_row sh d vs) as [[c vs']|]; [|discriminate].
      destruct (asm sh c t vs') as [o|] eqn:E; [|discriminate]. injection H as <-. cbn. lia.
    + destruct (r =? 1); [|discriminate].
      destruct (cont_row sh cur d vs) as [[c vs']|]; [|discriminate]. eauto.
Qed.

(* ---------- inside a page after its first row has begun (started = True), for ANY continuation K
   of the read after the page (K a' i: what happens with the array and the returned i) and any
   claim Q.  Used with K = the rest of read_col's loop (below) and with the repaired loop
   (Proofs/CAssembleFixedProofs.v). ---------- *)
Section GenK.
Variable Q : ares (arr V) -> arr V -> Prop.
Variable K : arr V -> nat -> ares (arr V).

Definition run_fromK (s : st V) (es : list entry) : ares (arr V) :=
  match run_steps null md s es with
  | AErr x => AErr x
  | AOk s' =>
    match finish_page s' with
    | AOk (a', i) => K a' i
    | AErr x => AErr x
    end
  end.

Lemma run_fromK_cons : forall s e es,
  run_fromK s (e :: es) =
  match step null md s e with AOk s' => run_fromK s' es | AErr x => AErr x end.
Proof.
  intros. unfold run_fromK. cbn [run_steps]. destruct (step null md s e); reflexivity.
Qed.

Lemma in_page_startedK : forall later,
  (forall (pre : arr V) cur out,
     asm sh cur (later_entries later) (later_vals later) = Some out ->
     Q (K (pre ++ cur :: repeat None (length out - 1)) (length pre)) (pre ++ out)) ->
  forall es i part hn vali lv (pre : arr V) cur out,
    i = length pre -> cell hn part = cur ->
    length lv = count_md md es ->
    asm sh cur (es ++ later_entries later) (lv ++ later_vals later) = Some out ->
    Q (run_fromK (mkSt i part true hn vali lv (pre ++ repeat None (length out))) es) (pre ++ out).
Proof.
  intros later PS. induction es as [|[r d] es IH]; intros i part hn vali lv pre cur out Hi Hc Hl Ha.
  - (* end of the page: write the row in progress, go on with the next page *)
    destruct lv; [|discriminate]. cbn [app] in Ha.
    pose proof (asm_length _ _ _ _ Ha) as Lo.
    unfold run_fromK. cbn [run_steps]. unfold finish_page. cbn [s_started s_arr s_i s_have_null s_part].
    destruct (length out) as [|n] eqn:En; [lia|]. cbn [repeat].
    subst i. rewrite write_row_app. rewrite Hc.
    specialize (PS pre cur out Ha). rewrite En in PS. cbn [Nat.sub] in PS.
    rewrite Nat.sub_0_r in PS. exact PS.
  - rewrite run_fromK_cons. cbn [app asm] in Ha. unfold step.
    destruct (r =? 0) eqn:R0.
    + (* a new row: the row in progress is written to slot i *)
      destruct (open_row sh d (lv ++ later_vals later)) as [[c vs']|] eqn:Eo; [|discriminate].
      destruct (asm sh c (es ++ later_entries later) vs') as [out'|] eqn:Ea; [|discriminate].
      injection Ha as <-.
      unfold new_row. cbn [s_started s_arr s_i s_have_null s_part s_vali s_vals].
      cbn [length repeat]. subst i. rewrite write_row_app. rewrite Hc.
      assert (Hv : (d =? md) = true -> lv <> []).
      { intros E. cbn [count_md] in Hl. rewrite E in Hl. destruct lv; [discriminate|discriminate]. }
      destruct (add_level_open d lv _ c vs' (S (length pre)) true hn vali (pre ++ cur :: repeat None (length out')) Eo Hv)
        as (part' & hn' & vali' & lv' & E1 & E2 & E3 & E4).
      rewrite E1. subst vs'.
      rewrite (app_cons_assoc pre _ (repeat None (length out'))). rewrite (app_cons_assoc pre _ out').
      apply (IH (S (length pre)) part' hn' vali' lv' (pre ++ [cur]) c out').
      * rewrite app_length. cbn. lia.
      * exact E2.
      * cbn [count_md] in Hl. destruct (d =? md); lia.
      * exact Ea.
    + (* continuation of the row in progress *)
      destruct (r =? 1); [|discriminate].
      destruct (cont_row sh cur d (lv ++ later_vals later)) as [[c vs']|] eqn:Ec; [|discriminate].
      assert (Hv : (d =? md) = true -> lv <> []).
      { intros E. cbn [count_md] in Hl. rewrite E in Hl. destruct lv; [discriminate|discriminate]. }
      destruct cur as [L|]; [|discriminate].
      destruct (add_level_cont d L lv _ c vs' i part true hn vali (pre ++ repeat None (length out)) Ec Hv)
        as (x & lv' & E1 & E2 & E3 & E4 & E5).
      rewrite E1. subst vs'.
      apply (IH i (x :: part) false _ lv' pre c out); try assumption.
      * subst c. unfold cell in Hc. destruct hn; [discriminate|]. injection Hc as <-.
        unfold cell. cbn [rev]. reflexivity.
      * cbn [count_md] in Hl. destruct (d =? md); lia.
Qed.

End GenK.

Lemma run_from_K : forall s es later,
  run_from s es later = run_fromK (fun a' i => read_col_v1 null md a' (S i) later) s es.
Proof. reflexivity. Qed.

(* ---------- walking through the pages that satisfy good_page, for any claim Q about the final
   result: Q res expected.  Instantiated with  res = AOk expected  (the theorem) and with
   res <> AOk expected  (tightness of the guard: a later bad page spoils the result). ---------- *)
Section Gen.
Variable Q : ares (arr V) -> arr V -> Prop.
Variable Hyp : list (page V) -> Prop.

(* what is claimed for the read of the later pages when the spec FSM is in state `cur`, the row
   `cur` (so far) sits in the last written slot and the remaining slots are still empty *)
Definition PstartG (later : list (page V)) : Prop :=
  forall (pre : arr V) cur out,
    asm sh cur (later_entries later) (later_vals later) = Some out ->
    pages_aligned sh later = true -> Hyp later ->
    Q (read_col_v1 null md (pre ++ cur :: repeat None (length out - 1)) (S (length pre)) later)
      (pre ++ out).

(* inside a page, after the first row of the page has begun (started = True) *)
Lemma in_page_started : forall later, PstartG later ->
  forall es i part hn vali lv (pre : arr V) cur out,
    i = length pre -> cell hn part = cur ->
    length lv = count_md md es ->
    asm sh cur (es ++ later_entries later) (lv ++ later_vals later) = Some out ->
    pages_aligned sh later = true -> Hyp later ->
    Q (run_from (mkSt i part true hn vali lv (pre ++ repeat None (length out))) es later) (pre ++ out).
Proof.
  intros later PS es i part hn vali lv pre cur out Hi Hc Hl Ha Al Gd.
  rewrite run_from_K.
  apply (in_page_startedK Q (fun a' i => read_col_v1 null md a' (S i) later) later) with (cur := cur); try assumption.
  intros pre0 cur0 out0 Ha0. exact (PS pre0 cur0 out0 Ha0 Al Gd).
Qed.

(* at the start of a page that continues a row (started = False): the pending part *)
Lemma in_page_cont : forall later, PstartG later ->
  forall es part hn vali lv (pre : arr V) l0 out,
    length lv = count_md md es ->
    asm sh (Some (l0 ++ rev part)) (es ++ later_entries later) (lv ++ later_vals later) = Some out ->
    good_cont md vali es (match later with [] => true | _ => false end) = true ->
    pages_aligned sh later = true -> Hyp later ->
    Q (run_from (mkSt (S (length pre)) part false hn vali lv (pre ++ Some l0 :: repeat None (length out - 1))) es later)
      (pre ++ out).
Proof.
  intros later PS. induction es as [|[r d] es IH]; intros part hn vali lv pre l0 out Hl Ha Gc Al Gd.
  - (* the page held only the continuation: it must be the last one *)
    cbn [good_cont] in Gc. destruct later; [|discriminate].
    destruct lv; [|discriminate]. cbn [app] in Ha.
    specialize (PS pre (Some (l0 ++ rev part)) out Ha Al Gd).
    cbn [later_entries later_vals map concat asm] in Ha. injection Ha as <-.
    unfold run_from. cbn [run_steps]. unfold finish_page. cbn [s_started s_arr s_i s_part length Nat.sub repeat].
    rewrite extend_prev_app. cbn [read_col_v1].
    cbn [read_col_v1 length Nat.sub repeat] in PS. exact PS.
  - rewrite run_from_cons. cbn [app asm] in Ha. cbn [good_cont] in Gc. unfold step.
    destruct (r =? 0) eqn:R0.
    + (* first new row of the page: vali > 0, the pending part goes to the previous row *)
      destruct (open_row sh d (lv ++ later_vals later)) as [[c vs']|] eqn:Eo; [|discriminate].
      destruct (asm sh c (es ++ later_entries later) vs') as [out'|] eqn:Ea; [|discriminate].
      injection Ha as <-.
      unfold new_row. cbn [s_started s_arr s_i s_have_null s_part s_vali s_vals]. rewrite Gc.
      cbn [length Nat.sub]. rewrite Nat.sub_0_r. rewrite extend_prev_app.
      assert (Hv : (d =? md) = true -> lv <> []).
      { intros E. cbn [count_md] in Hl. rewrite E in Hl. destruct lv; [discriminate|discriminate]. }
      destruct (add_level_open d lv _ c vs' (S (length pre)) true hn vali
                 (pre ++ Some (l0 ++ rev part) :: repeat None (length out')) Eo Hv)
        as (part' & hn' & vali' & lv' & E1 & E2 & E3 & E4).
      rewrite E1. subst vs'.
      rewrite (app_cons_assoc pre _ (repeat None (length out'))). rewrite (app_cons_assoc pre _ out').
      apply (in_page_started later PS es (S (length pre)) part' hn' vali' lv' (pre ++ [Some (l0 ++ rev part)]) c out').
      * rewrite app_length. cbn. lia.
      * exact E2.
      * cbn [count_md] in Hl. destruct (d =? md); lia.
      * exact Ea.
      * exact Al.
      * exact Gd.
    + destruct (r =? 1); [|discriminate].
      destruct (cont_row sh (Some (l0 ++ rev part)) d (lv ++ later_vals later)) as [[c vs']|] eqn:Ec; [|discriminate].
      assert (Hv : (d =? md) = true -> lv <> []).
      { intros E. cbn [count_md] in Hl. rewrite E in Hl. destruct lv; [discriminate|discriminate]. }
      destruct (add_level_cont d _ lv _ c vs' (S (length pre)) part false hn vali
                 (pre ++ Some l0 :: repeat None (length out - 1)) Ec Hv)
        as (x & lv' & E1 & E2 & E3 & E4 & E5).
      rewrite E1. subst vs' c.
      apply (IH (x :: part) false _ lv' pre l0 out); try assumption.
      * cbn [count_md] in Hl. destruct (d =? md); lia.
      * cbn [rev]. rewrite app_assoc. exact Ha.
Qed.

(* one page that satisfies good_page, then the claim for the pages after it *)
Lemma through_good_page : forall p t, PstartG t ->
  forall (pre : arr V) cur out,
    asm sh cur (later_entries (p :: t)) (later_vals (p :: t)) = Some out ->
    page_aligned sh p = true -> pages_aligned sh t = true ->
    good_page sh (match t with [] => true | _ => false end) p = true -> Hyp t ->
    Q (read_col_v1 null md (pre ++ cur :: repeat None (length out - 1)) (S (length pre)) (p :: t))
      (pre ++ out).
Proof.
  intros p t IH pre cur out Ha Ap Al Gp Gd.
  rewrite read_col_v1_cons.
  unfold later_entries, later_vals in Ha. cbn [map concat] in Ha.
  fold (later_entries t) in Ha. fold (later_vals t) in Ha.
  unfold page_aligned in Ap. apply Nat.eqb_eq in Ap.
  unfold good_page in Gp. destruct p as [es lv]. cbn [fst snd] in *.
  destruct es as [|[r d] es]; [discriminate|].
  destruct (r =? 0) eqn:R0.
  - (* the page starts a row *)
    rewrite run_from_cons. unfold step. rewrite R0. unfold new_row.
    cbn [s_started s_vali s_i s_part s_have_null s_vals s_arr]. change (0 <? 0) with false. cbv iota.
    cbn [app asm] in Ha. rewrite R0 in Ha.
    destruct (open_row sh d (lv ++ later_vals t)) as [[c vs']|] eqn:Eo; [|discriminate].
    destruct (asm sh c (es ++ later_entries t) vs') as [out'|] eqn:Ea; [|discriminate].
    injection Ha as <-. cbn [length Nat.sub]. rewrite Nat.sub_0_r.
    assert (Hv : (d =? md) = true -> lv <> []).
    { intros E. cbn [count_md] in Ap. rewrite E in Ap. destruct lv; [discriminate|discriminate]. }
    destruct (add_level_open d lv _ c vs' (S (length pre)) true false 0
               (pre ++ cur :: repeat None (length out')) Eo Hv)
      as (part' & hn' & vali' & lv' & E1 & E2 & E3 & E4).
    rewrite E1. subst vs'.
    replace (pre ++ cur :: repeat None (length out')) with ((pre ++ [cur]) ++ repeat None (length out'))
      by (rewrite <- app_assoc; reflexivity).
    replace (pre ++ cur :: out') with ((pre ++ [cur]) ++ out') by (rewrite <- app_assoc; reflexivity).
    apply (in_page_started t IH es (S (length pre)) part' hn' vali' lv' (pre ++ [cur]) c out').
    + rewrite app_length. cbn. lia.
    + exact E2.
    + cbn [count_md] in Ap. destruct (d =? md); lia.
    + exact Ea.
    + exact Al.
    + exact Gd.
  - (* the page continues the row in the last written slot *)
    cbn [orb] in Gp.
    assert (exists l0, cur = Some l0) as [l0 ->].
    { cbn [app asm] in Ha. rewrite R0 in Ha. destruct (r =? 1); [|discriminate].
      destruct cur as [l0|]; [eauto|discriminate]. }
    apply (in_page_cont t IH ((r, d) :: es) [] false 0 lv pre l0 out); try assumption.
    cbn [rev]. rewrite app_nil_r. exact Ha.
Qed.

End Gen.

(* ---------- positive instance: every later page is read correctly ---------- *)
Definition Qeq (res : ares (arr V)) (exp : arr V) : Prop := res = AOk exp.
Definition Hgood (later : list (page V)) : Prop := good_split sh later = true.

Lemma start_all : forall later, PstartG Qeq Hgood later.
Proof.
  induction later as [|p t IH]; unfold PstartG; intros pre cur out Ha Al Gd.
  - cbn [later_entries later_vals map concat asm] in Ha. injection Ha as <-.
    unfold Qeq. cbn [read_col_v1 length Nat.sub repeat]. reflexivity.
  - cbn [pages_aligned forallb] in Al. apply andb_prop in Al. destruct Al as [Ap Al].
    unfold Hgood in Gd. cbn [good_split] in Gd. apply andb_prop in Gd. destruct Gd as [Gp Gd].
    apply (through_good_page Qeq Hgood p t IH); assumption.
Qed.

(* ---------- the page-split theorem ---------- *)
Definition pstream (pages : list (page V)) : list entry * list V := pages_stream pages.

Theorem pages_v1_spec : forall (es : list entry) (vs : list V) rows (pages : list (page V)),
  assemble_spec sh es vs = Some rows ->
  pages_stream pages = (es, vs) ->
  pages_aligned sh pages = true -> good_split sh pages = true ->
  run_v1 sh (length rows) pages = AOk rows.
Proof.
  intros es vs rows pages Ha Hs Al Gd.
  unfold run_v1. rewrite call_null_shape, sch_max_def_shape.
  unfold pages_stream in Hs. injection Hs as <- <-.
  destruct pages as [|p t].
  - cbn in Ha. injection Ha as <-. reflexivity.
  - rewrite read_col_v1_cons.
    cbn [pages_aligned forallb] in Al. apply andb_prop in Al. destruct Al as [Ap Al].
    cbn [good_split] in Gd. apply andb_prop in Gd. destruct Gd as [Gp Gd].
    unfold page_aligned in Ap. apply Nat.eqb_eq in Ap.
    unfold good_page in Gp. destruct p as [pes lv]. cbn [fst snd map concat] in *.
    destruct pes as [|[r d] pes]; [discriminate|].
    cbn [app assemble_spec] in Ha.
    destruct (r =? 0) eqn:R0; [|discriminate].
    fold (later_entries t) in Ha. fold (later_vals t) in Ha.
    destruct (open_row sh d (lv ++ later_vals t)) as [[c vs']|] eqn:Eo; [|discriminate].
    rewrite run_from_cons. unfold step. rewrite R0. unfold new_row.
    cbn [s_started s_vali s_i s_part s_have_null s_vals s_arr]. change (0 <? 0) with false. cbv iota.
    assert (Hv : (d =? md) = true -> lv <> []).
    { intros E. cbn [count_md] in Ap. rewrite E in Ap. destruct lv; [discriminate|discriminate]. }
    destruct (add_level_open d lv _ c vs' 0%nat true false 0 (empty_arr (length rows)) Eo Hv)
      as (part' & hn' & vali' & lv' & E1 & E2 & E3 & E4).
    rewrite E1. subst vs'. unfold empty_arr.
    change (repeat None (length rows)) with ([] ++ repeat (@None (list (elem V))) (length rows)).
    apply (in_page_started Qeq Hgood t (start_all t) pes 0%nat part' hn' vali' lv' [] c rows); try assumption.
    + reflexivity.
    + cbn [count_md] in Ap. destruct (d =? md); lia.
Qed.

End Sim.

(* the same in terms of the rows a writer shredded *)
Corollary pages_v1_shred : forall (V : Type) (sh : shape) (rows : list (row V)) (pages : list (page V)),
  wf_rows sh rows = true -> pages_stream pages = shred sh rows ->
  pages_aligned sh pages = true -> good_split sh pages = true ->
  run_v1 sh (length rows) pages = AOk rows.
Proof.
  intros V sh rows pages W Hs Al Gd.
  apply (pages_v1_spec V sh (fst (shred sh rows)) (snd (shred sh rows))); try assumption.
  apply assemble_shred. exact W.
Qed.

(* ---------- v2 data pages: read_data_page_v2's call shape (slice of num_rows slots, prev_i = 0) ----------
   A v2 page starts at a row boundary and announces its number of rows (parquet.thrift
   DataPageHeaderV2.num_rows), so every page is an accepted stream of its own. *)
Section V2.
Variable V : Type.
Variable sh : shape.

Lemma asm_count : forall es cur (vs : list V) out,
  asm sh cur es vs = Some out -> length vs = count_md (max_def sh) es.
Proof.
  pose proof (max_def_gt sh) as G.
  induction es as [|[r d] t IH]; intros cur vs out H; cbn [asm] in H.
  - destruct vs; [reflexivity|discriminate].
  - cbn [count_md]. destruct (r =? 0).
    + destruct (open_row sh d vs) as [[c vs']|] eqn:Eo; [|discriminate].
      destruct (asm sh c t vs') as [o|] eqn:E; [|discriminate].
      apply IH in E. unfold open_row in Eo.
      destruct (d <? d_empty sh) eqn:E1.
      { apply N.ltb_lt in E1. assert ((d =? max_def sh) = false) as -> by (apply N.eqb_neq; lia).
        injection Eo as <- <-. exact E. }
      destruct (d =? d_empty sh) eqn:E2.
      { apply N.eqb_eq in E2. assert ((d =? max_def sh) = false) as -> by (apply N.eqb_neq; lia).
        injection Eo as <- <-. exact E. }
      destruct (d =? max_def sh).
      { destruct vs as [|v vs0]; [discriminate|]. injection Eo as <- <-. cbn [length]. rewrite E. reflexivity. }
      destruct (d <? max_def sh); [|discriminate]. injection Eo as <- <-. exact E.
    + destruct (r =? 1); [|discriminate].
      destruct (cont_row sh cur d vs) as [[c vs']|] eqn:Ec; [|discriminate].
      apply IH in H. unfold cont_row in Ec. destruct cur as [[|e l]|]; try discriminate.
      destruct (d =? max_def sh).
      { destruct vs as [|v vs0]; [discriminate|]. injection Ec as <- <-. cbn [length]. rewrite H. reflexivity. }
      destruct ((d_empty sh <? d) && (d <? max_def sh)); [|discriminate]. injection Ec as <- <-. exact H.
Qed.

Lemma spec_count : forall es (vs : list V) rows,
  assemble_spec sh es vs = Some rows -> length vs = count_md (max_def sh) es.
Proof.
  pose proof (max_def_gt sh) as G.
  intros es vs rows H. destruct es as [|[r d] t]; cbn [assemble_spec] in H.
  - destruct vs; [reflexivity|discriminate].
  - cbn [count_md]. destruct (r =? 0); [|discriminate].
    destruct (open_row sh d vs) as [[c vs']|] eqn:Eo; [|discriminate].
    apply asm_count in H. unfold open_row in Eo.
    destruct (d <? d_empty sh) eqn:E1.
    { apply N.ltb_lt in E1. assert ((d =? max_def sh) = false) as -> by (apply N.eqb_neq; lia).
      injection Eo as <- <-. exact H. }
    destruct (d =? d_empty sh) eqn:E2.
    { apply N.eqb_eq in E2. assert ((d =? max_def sh) = false) as -> by (apply N.eqb_neq; lia).
      injection Eo as <- <-. exact H. }
    destruct (d =? max_def sh).
    { destruct vs as [|v vs0]; [discriminate|]. injection Eo as <- <-. cbn [length]. rewrite H. reflexivity. }
    destruct (d <? max_def sh); [|discriminate]. injection Eo as <- <-. exact H.
Qed.

(* one page that is an accepted stream, assembled into a fresh slice *)
Lemma single_page : forall es (vs : list V) rows, es <> [] ->
  assemble_spec sh es vs = Some rows ->
  exists i, assemble_page (row_opt sh) (max_def sh) (empty_arr (length rows)) 0 (es, vs) = AOk (rows, i).
Proof.
  intros es vs rows Ne H.
  assert (R : run_v1 sh (length rows) [(es, vs)] = AOk rows).
  { apply (pages_v1_spec V sh es vs rows [(es, vs)] H).
    - unfold pages_stream. cbn. rewrite !app_nil_r. reflexivity.
    - cbn [pages_aligned forallb]. unfold page_aligned. cbn [fst snd].
      rewrite (spec_count _ _ _ H). rewrite Nat.eqb_refl. reflexivity.
    - cbn [good_split]. unfold good_page. cbn [fst]. destruct es as [|[r d] t]; [contradiction|].
      cbn [assemble_spec] in H. destruct (r =? 0); [reflexivity|discriminate]. }
  unfold run_v1 in R. rewrite call_null_shape, sch_max_def_shape in R. cbn [read_col_v1] in R.
  destruct (assemble_page _ _ _ _ _) as [[a' i]|x]; [|discriminate].
  injection R as ->. eauto.
Qed.

Lemma skipn_len_app : forall {A} (l r : list A) n, skipn (length l + n) (l ++ r) = skipn n r.
Proof. induction l as [|h l IH]; intros; [reflexivity|]. cbn. apply IH. Qed.
Lemma firstn_len_app : forall {A} (l r : list A), firstn (length l) (l ++ r) = l.
Proof. induction l as [|h l IH]; intros; [reflexivity|]. cbn. rewrite IH. reflexivity. Qed.
Lemma firstn_repeat_add : forall {A} (x : A) n k, firstn n (repeat x (n + k)) = repeat x n.
Proof. induction n as [|n IH]; intros; [reflexivity|]. cbn. rewrite IH. reflexivity. Qed.
Lemma skipn_repeat_add : forall {A} (x : A) n k, skipn n (repeat x (n + k)) = repeat x k.
Proof. induction n as [|n IH]; intros; [reflexivity|]. cbn. apply IH. Qed.

Definition v2_page_ok (pg : page V * nat) (rs : list (row V)) : Prop :=
  fst (fst pg) <> [] /\ assemble_spec sh (fst (fst pg)) (snd (fst pg)) = Some rs /\ snd pg = length rs.

Lemma read_col_v2_inv : forall pages rowss, Forall2 v2_page_ok pages rowss ->
  forall done : arr V,
  read_col_v2 (row_opt sh) (max_def sh) (done ++ repeat None (length (concat rowss))) (length done) pages
  = AOk (done ++ concat rowss).
Proof.
  induction 1 as [|pg rs pages rowss Hp HF IH]; intros done.
  - cbn. reflexivity.
  - destruct pg as [[es vs] nr]. destruct Hp as (Ne & Ha & Hn). cbn [fst snd] in *. subst nr.
    cbn [read_col_v2 concat fst]. destruct es as [|[r0 d0] es']; [contradiction|].
    assert (R0 : (r0 =? 0) = true).
    { cbn [assemble_spec] in Ha. destruct (r0 =? 0); [reflexivity|discriminate]. }
    rewrite R0. rewrite app_length.
    pose proof (skipn_len_app done (repeat None (length rs + length (concat rowss))) 0) as S0.
    rewrite Nat.add_0_r in S0. cbn [skipn] in S0. rewrite S0.
    rewrite firstn_repeat_add.
    destruct (single_page ((r0, d0) :: es') vs rs Ne Ha) as [i E]. unfold empty_arr in E.
    match goal with |- context [assemble_page ?a ?b ?c ?d ?e] =>
      replace (assemble_page a b c d e) with (AOk (A:=arr V * nat) (rs, i)) by (symmetry; exact E) end.
    rewrite firstn_len_app, skipn_len_app, skipn_repeat_add.
    rewrite (app_assoc done rs). rewrite <- (app_length done rs).
    rewrite IH. rewrite <- app_assoc. reflexivity.
Qed.

Theorem pages_v2_spec : forall (pages : list (page V * nat)) (rowss : list (list (row V))),
  Forall2 v2_page_ok pages rowss ->
  run_v2 false sh (length (concat rowss)) pages = AOk (concat rowss).
Proof.
  intros pages rowss H. unfold run_v2. rewrite call_null_shape, sch_max_def_shape.
  exact (read_col_v2_inv pages rowss H []).
Qed.

End V2.
