(* C14 x C08: a list of single files laid out below a given root as key=value directories.
   util.analyse_paths (root given) yields exactly the relative paths  k1=v1/.../name, and reading
   the list through these paths (api.paths_to_cats + core.read_row_group, Impl/Partition.v) gives
   every file's rows, in the given order, with the partition columns its directories spell.   *)
From Coq Require Import NArith ZArith Bool Ascii String Arith Lia Permutation List.
From Pq Require Import Base.Bytes Proofs.BytesProofs Impl.Partition Proofs.PartitionStr Proofs.PartitionProofs
                       Proofs.PartitionE2E Impl.Paths Proofs.PathsProofs.
Import ListNotations.
Local Open Scope nat_scope.

Lemma list_eqb_refl {A} (eqb : A -> A -> bool) (l : list A) : (forall a, eqb a a = true) -> list_eqb eqb l l = true.
Proof. intros H. induction l as [|a l IH]; cbn; [reflexivity|]. now rewrite H, IH. Qed.

Section MP.
  Variables F T D : Type.
  Variable feqb : F -> F -> bool.
  Variable teqb : T -> T -> bool.
  Variable deqb : D -> D -> bool.
  Variable f_eq_Z : F -> Z -> bool.
  Variable show_float : F -> str.
  Variable parse_float : bool -> str -> option F.
  Variable show_time_iso show_time_str : T -> str.
  Variable parse_time_np : bool -> str -> option T.
  Variable parse_time_fmt parse_time_pd : str -> option T.
  Variable parse_delta : str -> option D.
  Hypothesis feqb_spec : forall a b, reflect (a = b) (feqb a b).
  Hypothesis teqb_spec : forall a b, reflect (a = b) (teqb a b).
  Hypothesis deqb_spec : forall a b, reflect (a = b) (deqb a b).
  Variable P : Type.

  Variable pm : list (str * kind).
  Variable names : list str.
  Hypothesis names_nodup : NoDup names.
  Hypothesis names_nonnil : names <> [].
  Hypothesis names_legal : Forall legal names.
  Variable ord : list str -> list str.
  Hypothesis Hord : forall l x, In x (ord l) <-> In x l.
  Variable pname : nat -> str.
  Hypothesis Hpn : forall i, clean (pname i) /\ pname i <> [].
  Variable root : str.

  Notation value := (value F T D).
  Notation row := (row F T D P).
  Notation Pv := (Pv_hive F T D show_float parse_float show_time_iso show_time_str parse_time_np parse_time_fmt pm).
  Notation kok := (key_ok F T D names Pv).
  Notation dsegs := (dir_segments F T D show_float show_time_iso show_time_str true names).
  Notation relp := (rel_path F T D show_float show_time_iso show_time_str true names).
  Notation key_of := (key_of F T D P).

  (* file fn holds the key `fst sp` and is the `snd sp`-th file name: root/k1=v1/.../name *)
  Definition laid_out (fn : str) (sp : list value * nat) : Prop :=
    kok (fst sp) /\ parts_of fn = parts_of root ++ dsegs (fst sp) ++ [pname (snd sp)].

  Lemma relp_join key i : kok key -> relp key (pname i) = join_with c_slash (dsegs key ++ [pname i]).
  Proof.
    intros Hk.
    destruct (hive_paths F T D show_float parse_float show_time_iso show_time_str parse_time_np parse_time_fmt
                parse_time_pd parse_delta pm names names_nodup names_nonnil names_legal pname Hpn key i Hk)
      as [_ [_ [_ [H4 _]]]].
    destruct (hive_nx F T D show_float parse_float show_time_iso show_time_str parse_time_np parse_time_fmt pm names
                names_legal key Hk) as [_ Es].
    rewrite <- (join_split c_slash (relp key (pname i))). rewrite H4, Es. reflexivity.
  Qed.

  Theorem analyse_layout (file_list : list str) (specs : list (list value * nat)) :
    Forall2 laid_out file_list specs ->
    analyse_paths file_list (Some root)
    = AOk (join_with c_slash (parts_of root)) (map (fun sp => relp (fst sp) (pname (snd sp))) specs).
  Proof.
    intros H. unfold analyse_paths.
    assert (G : forallb (fun p => list_eqb str_eqb (firstn (length (parts_of root)) p) (parts_of root)) (map parts_of file_list) = true /\
                map (rel_of (parts_of root)) (map parts_of file_list) = map (fun sp => relp (fst sp) (pname (snd sp))) specs).
    { induction H as [|fn sp fl specs [Hk Hp] Hr [IH1 IH2]]; [split; reflexivity|]. cbn [map forallb].
      rewrite Hp. rewrite firstn_app, Nat.sub_diag, firstn_all. cbn [firstn]. rewrite app_nil_r.
      rewrite (list_eqb_refl str_eqb _ str_eqb_refl). rewrite IH1, IH2. split; [reflexivity|]. f_equal.
      unfold rel_of. rewrite skipn_app, skipn_all, Nat.sub_diag. cbn [app skipn].
      symmetry. now apply relp_join. }
    destruct G as [G1 G2]. rewrite G1, G2. reflexivity.
  Qed.

  (* C14: partition columns of a list of files = those spelled by the directories below the root (C08) *)
  Theorem list_partition_columns (file_list : list str) (specs : list (list value * nat)) (rowsets : list (list row)) :
    specs <> [] -> Forall2 laid_out file_list specs ->
    Forall2 (fun sp rs => forall r, In r rs -> key_of r = fst sp) specs rowsets ->
    exists bp rel,
      analyse_paths file_list (Some root) = AOk bp rel /\
      read_model F T D feqb teqb deqb f_eq_Z parse_float parse_time_np parse_time_fmt parse_time_pd parse_delta P pm ord
                 (combine rel rowsets)
      = Some (Hive, map (fun r => (combine names (map (unwrap F T D) (key_of r)), snd r)) (concat rowsets)).
  Proof.
    intros Hne Hl Hrows. eexists _, _. split; [apply (analyse_layout _ _ Hl)|].
    set (rel := map (fun sp => relp (fst sp) (pname (snd sp))) specs).
    assert (Hsnd : map snd (combine rel rowsets) = rowsets).
    { unfold rel. clear Hl Hne. induction Hrows as [|sp rs specs' rowsets' _ _ IH]; [reflexivity|]. cbn [map combine snd]. now rewrite IH. }
    rewrite <- Hsnd at 2.
    apply (hive_read_layout F T D feqb teqb deqb f_eq_Z show_float parse_float show_time_iso show_time_str
             parse_time_np parse_time_fmt parse_time_pd parse_delta feqb_spec teqb_spec deqb_spec P pm names
             names_nodup names_nonnil names_legal ord Hord pname Hpn).
    - unfold rel. destruct specs as [|sp specs']; [congruence|]. inversion Hrows; subst. discriminate.
    - unfold rel. clear Hne Hsnd. revert file_list Hl. induction Hrows as [|sp rs specs' rowsets' Hsp _ IH]; intros fl Hl; [constructor|].
      inversion Hl as [|fn ? fl' ? [Hk _] Hl']; subst. cbn [map combine]. constructor; [|now apply (IH fl')].
      exists (fst sp), (snd sp). cbn [fst snd]. split; [exact Hk|]. split; [reflexivity|exact Hsp].
  Qed.
End MP.
