(* Proofs about Impl/KVRead.v: the read side of C16 and value-less entries. *)
From Coq Require Import NArith Arith List Bool Lia.
From Pq Require Import Base.Bytes Proofs.BytesProofs Impl.KV Impl.KVRead Proofs.KVProofs.
Import ListNotations.

Lemma pstr_eqb_spec a b : reflect (a = b) (pstr_eqb a b).
Proof.
  destruct a as [x|x], b as [y|y]; cbn; try (constructor; congruence);
    destruct (bytes_eqb_spec x y); constructor; congruence.
Qed.

Lemma ensure_bytes_ie b : ensure_bytes (ensure_str_ie b) = b.
Proof. unfold ensure_str_ie. now destruct (utf8_valid b). Qed.

Lemma ensure_str_ie_inj a b : ensure_str_ie a = ensure_str_ie b -> a = b.
Proof. intros H. rewrite <- (ensure_bytes_ie a), <- (ensure_bytes_ie b). now rewrite H. Qed.

(* what comes back for ONE text value given at write/update time: a str comes back as that str; bytes come back
   as the same bytes, handed out as str exactly when they are well-formed UTF-8 *)
Theorem read_value_verbatim x : pstr_wf x = true ->
  ensure_str_ie (ensure_bytes x) =
    match x with PStr s => PStr s | PBytes b => if utf8_valid b then PStr b else PBytes b end.
Proof. destruct x as [s|b]; cbn; intros H; unfold ensure_str_ie; [now rewrite H | reflexivity]. Qed.

(* ... and never anything else than the bytes given *)
Theorem read_value_bytes x : ensure_bytes (ensure_str_ie (ensure_bytes x)) = ensure_bytes x.
Proof. apply ensure_bytes_ie. Qed.

(* key and value of one entry are decoded independently: every (str | bytes) key x (str | bytes | absent) value *)
Theorem read_entry_independent k ov :
  read_entry (ensure_bytes k, option_map ensure_bytes ov) = (canon k, option_map canon ov).
Proof. unfold read_entry, canon. cbn. now destruct ov. Qed.

Section Dict.
  Variables K V : Type.
  Variable keqb : K -> K -> bool.
  Hypothesis keqb_spec : forall a b, reflect (a = b) (keqb a b).

  Lemma dict_set_absent k (v : V) d : ~ In k (map fst d) -> dict_set keqb k v d = d ++ [(k, v)].
  Proof.
    induction d as [|[k' v'] d IH]; cbn; intros H; [reflexivity|].
    destruct (keqb_spec k k') as [E|N]; [exfalso; apply H; left; now rewrite E|].
    rewrite IH; [reflexivity|tauto].
  Qed.

  Lemma fold_dict_set_nodup (l : list (K * V)) : forall acc,
    NoDup (map fst (acc ++ l)) ->
    fold_left (fun d e => dict_set keqb (fst e) (snd e) d) l acc = acc ++ l.
  Proof.
    induction l as [|[k v] l IH]; intros acc H; cbn [fold_left]; [now rewrite app_nil_r|].
    cbn [fst snd]. rewrite dict_set_absent.
    - rewrite IH; rewrite <- app_assoc; cbn; [reflexivity|exact H].
    - rewrite map_app in H. cbn in H. apply NoDup_remove_2 in H. intros Hin. apply H.
      apply in_or_app. now left.
  Qed.
End Dict.

Lemma map_inj_nodup {A B} (f : A -> B) (l : list A) :
  (forall a b, f a = f b -> a = b) -> NoDup l -> NoDup (map f l).
Proof.
  intros Hf H. induction H as [|x l Hx H IH]; cbn; constructor; [|exact IH].
  intros Hin. apply in_map_iff in Hin. destruct Hin as [y [E Hy]]. apply Hf in E. now subst.
Qed.

Lemma read_kvm_fold l :
  read_kvm l = fold_left (fun d e => dict_set pstr_eqb (fst e) (snd e) d) (map read_entry l) [].
Proof.
  unfold read_kvm. generalize (@nil (pstr * option pstr)). induction l as [|e l IH]; intros acc; [reflexivity|].
  cbn [fold_left map]. rewrite IH. destruct (read_entry e); reflexivity.
Qed.

(* with distinct keys the mapping handed out is, entry by entry and in order, the decoded footer list *)
Theorem read_kvm_nodup l : NoDup (map fst l) -> read_kvm l = map read_entry l.
Proof.
  intros H. rewrite read_kvm_fold.
  rewrite (fold_dict_set_nodup _ _ pstr_eqb pstr_eqb_spec); [reflexivity|].
  cbn [app]. rewrite map_map. cbn [read_entry fst].
  rewrite <- (map_map fst ensure_str_ie). apply map_inj_nodup; [apply ensure_str_ie_inj|exact H].
Qed.

Lemma lookup_read_map k (l : list (bytes * option bytes)) :
  lookup pstr_eqb (ensure_str_ie k) (map read_entry l) =
  option_map (option_map ensure_str_ie) (lookup bytes_eqb k l).
Proof.
  induction l as [|[k' v] l IH]; cbn; [reflexivity|].
  destruct (bytes_eqb_spec k k') as [E|N].
  - subst. destruct (pstr_eqb_spec (ensure_str_ie k') (ensure_str_ie k')); [reflexivity|congruence].
  - destruct (pstr_eqb_spec (ensure_str_ie k) (ensure_str_ie k')) as [E|_]; [apply ensure_str_ie_inj in E; congruence|].
    exact IH.
Qed.

Lemma update_kv_nodup {K V} (keqb : K -> K -> bool) (Hk : forall a b, reflect (a = b) (keqb a b)) u :
  forall old : list (K * V), NoDup (map fst old) -> NoDup (map fst (update_kv keqb old u)).
Proof.
  induction u as [|x u IH]; intros old H; [exact H|].
  cbn [update_kv fold_left]. apply IH. now apply (update1_nodup K V keqb Hk).
Qed.

(* END TO END (inside the model): what `key_value_metadata` shows for a key after update_custom_metadata has run on a
   footer list with distinct keys (values possibly absent), for every update dict (str or bytes keys and values):
   a named key shows the given value (decoded on its own) or is gone; every other key shows what it showed before. *)
Theorem read_after_update old u k :
  NoDup (map fst old) -> NoDup (map fst (enc_u u)) ->
  lookup pstr_eqb (ensure_str_ie k) (read_kvm (update_kvo old u)) =
    match lookup_u bytes_eqb k (enc_u u) with
    | Some None => None
    | Some (Some v) => Some (option_map ensure_str_ie v)
    | None => option_map (option_map ensure_str_ie) (lookup bytes_eqb k old)
    end.
Proof.
  intros H1 H2. unfold update_kvo.
  rewrite read_kvm_nodup by (apply update_kv_nodup; [apply bytes_eqb_spec|exact H1]).
  rewrite lookup_read_map.
  rewrite (update_kv_lookup_dict _ _ bytes_eqb bytes_eqb_spec) by assumption.
  destruct (lookup_u bytes_eqb k (enc_u u)) as [[v|]|]; reflexivity.
Qed.

Lemma nodup_app_l {A} (a b : list A) : NoDup (a ++ b) -> NoDup a.
Proof.
  induction a as [|x a IH]; [constructor|]. cbn. intros H. inversion H; subst.
  constructor; [intros Hi; apply H2; apply in_or_app; now left|now apply IH].
Qed.

Lemma lookup_some_index {K V} (keqb : K -> K -> bool) k (l : list (K * V)) v :
  lookup keqb k l = Some v -> exists i, index_of keqb k l = Some i.
Proof.
  induction l as [|[k0 v0] l IH]; cbn; [discriminate|]. destruct (keqb k k0); [now exists O|].
  intros H. destruct (IH H) as [i Hi]. rewrite Hi. now exists (S i).
Qed.

Lemma remove_at_length_index {K V} (keqb : K -> K -> bool) k (l : list (K * V)) : forall i,
  index_of keqb k l = Some i -> S (length (remove_at i l)) = length l.
Proof.
  induction l as [|[k0 v0] l IH]; intros i; cbn; [discriminate|]. destruct (keqb k k0).
  - intros H; inversion H; subst. reflexivity.
  - destruct (index_of keqb k l) as [j|]; [|discriminate]. intros H; inversion H; subst. cbn. now rewrite (IH j).
Qed.

Lemma remove_at_length_le {A} i (l : list A) : (length (remove_at i l) <= length l)%nat.
Proof. revert i; induction l as [|x l IHl]; intros [|i]; cbn; try lia. specialize (IHl i). lia. Qed.

Lemma replace_at_length {A} i (y : A) (l : list A) : length (replace_at i y l) = length l.
Proof. revert i; induction l as [|x l IHl]; intros [|i]; cbn; try lia. now rewrite IHl. Qed.

Lemma update1_length_le {K V} (keqb : K -> K -> bool) (l : list (K * V)) x :
  (length (update1 keqb l x) <= S (length l))%nat.
Proof.
  destruct x as [k0 ov]. unfold update1. destruct (index_of keqb k0 l) as [i|]; destruct ov as [v|].
  - rewrite replace_at_length. lia.
  - pose proof (remove_at_length_le i l). lia.
  - rewrite app_length. cbn. lia.
  - lia.
Qed.

Lemma update_kv_length_le {K V} (keqb : K -> K -> bool) u : forall (l : list (K * V)),
  (length (update_kv keqb l u) <= length l + length u)%nat.
Proof.
  induction u as [|x u IH]; intros l.
  - cbn. lia.
  - unfold update_kv. cbn [fold_left length]. change (fold_left (update1 keqb) u ?y) with (update_kv keqb y u).
    specialize (IH (update1 keqb l x)). pose proof (update1_length_le keqb l x). lia.
Qed.

(* a KeyValue WITHOUT value is present: naming it with None removes it (a `dict.get`, answering None both for
   such an entry and for an absent key, cannot decide "nothing to do") *)
Theorem remove_valueless old u k :
  NoDup (map fst old) -> NoDup (map fst (enc_u u)) ->
  lookup bytes_eqb k old = Some None -> lookup_u bytes_eqb k (enc_u u) = Some None ->
  lookup bytes_eqb k (update_kvo old u) = None
  /\ (length (update_kvo old u) < length old + length u)%nat.
Proof.
  intros H1 H2 Ho Hu. split.
  - unfold update_kvo. rewrite (update_kv_lookup_dict _ _ bytes_eqb bytes_eqb_spec) by assumption. now rewrite Hu.
  - (* the list does not keep all old entries and gain one per update *)
    unfold update_kvo. pose proof (@update_kv_length_le bytes (option bytes) bytes_eqb) as G.
    (* split u at the removal of k *)
    assert (Hin : exists a b, enc_u u = a ++ (k, None) :: b).
    { clear H1 H2 Ho. induction (enc_u u) as [|[k0 ov] l IH]; [discriminate|]. cbn in Hu.
      destruct (bytes_eqb_spec k k0) as [E|N].
      - inversion Hu; subst. exists [], l. reflexivity.
      - destruct (IH Hu) as [a [b E]]. exists ((k0, ov) :: a), b. now rewrite E. }
    destruct Hin as [a [b E]].
    assert (Hlen : length u = (length a + S (length b))%nat).
    { rewrite <- (map_length (fun kv => (ensure_bytes (fst kv), option_map (fun v => Some (ensure_bytes v)) (snd kv))) u).
      fold (enc_u u). rewrite E, app_length. reflexivity. }
    rewrite E. unfold update_kv. rewrite fold_left_app. cbn [fold_left].
    change (fold_left (update1 bytes_eqb) b ?x) with (update_kv bytes_eqb x b).
    change (fold_left (update1 bytes_eqb) a ?x) with (update_kv bytes_eqb x a).
    set (mid := update_kv bytes_eqb old a).
    assert (Hmid : lookup bytes_eqb k mid = Some None).
    { unfold mid. rewrite E in H2. rewrite map_app in H2. cbn in H2.
      rewrite (update_kv_lookup_dict _ _ bytes_eqb bytes_eqb_spec); [|exact H1|].
      - rewrite (lookup_u_none _ _ bytes_eqb bytes_eqb_spec); [exact Ho|].
        apply NoDup_remove_2 in H2. intros Hi. apply H2. apply in_or_app. now left.
      - apply NoDup_remove_1 in H2. now apply nodup_app_l in H2. }
    assert (Hrm : (S (length (update1 bytes_eqb mid (k, None))) = length mid)%nat).
    { unfold update1. destruct (lookup_some_index bytes_eqb k mid _ Hmid) as [i Hi]. rewrite Hi.
      now apply (remove_at_length_index bytes_eqb k). }
    pose proof (G a old) as Ga. fold mid in Ga.
    pose proof (G b (update1 bytes_eqb mid (k, None))) as Gb. unfold mid, kv, bytes in *. lia.
Qed.

(* ASCII text is well-formed *)
Lemma utf8_valid_ascii l : Forall (fun b => (b <= 127)%N) l -> utf8_valid l = true.
Proof.
  induction 1 as [|b l Hb _ IH]; [reflexivity|]. cbn [utf8_valid].
  destruct (N.leb_spec b 127); [exact IH|lia].
Qed.
