(* Generic facts about the loop / comprehension combinators of Base/PyObj.v, used by the proofs over
   the regenerated row-group loop (genproofs/GenFilterLoopProofs.v). *)
From Coq Require Import ZArith List String Bool.
From Pq Require Import Base.PyVal Base.PyObj Impl.Filter.
Import ListNotations.

(* [elt(x) for x in map emb l if cond(x)] when cond / elt are what p / g say on embedded elements *)
Lemma listcomp_filter_map {A} (emb : A -> pv) (p : A -> bool) (g : A -> pv) (cond elt : pv -> res pv) l :
  (forall a, cond (emb a) = Ok (PBool (p a))) -> (forall a, elt (emb a) = Ok (g a)) ->
  py_listcomp (map emb l) cond elt = Ok (map g (filter p l)).
Proof.
  intros Hc He. induction l as [|a l IH]; [reflexivity|].
  cbn [map py_listcomp filter]. rewrite Hc. cbn [bind truthy]. destruct (p a).
  - rewrite He, IH. reflexivity.
  - exact IH.
Qed.

(* a loop whose body either returns True or continues, deciding per element by f, under an invariant
   of the carried state: the loop is `any` over the elements (errors propagate) *)
Lemma py_for_any {A S} (emb : A -> pv) (f : A -> res bool) (Inv : S -> Prop) (body : pv -> S -> res (step S)) :
  (forall a s, Inv s -> exists s', Inv s' /\
     body (emb a) s = bind (f a) (fun b => if b then Ok (Ret (PBool true)) else Ok (Cont s'))) ->
  forall l s, Inv s -> exists s', Inv s' /\
     py_for (map emb l) s body = bind (any_res f l) (fun b => if b then Ok (Ret (PBool true)) else Ok (Cont s')).
Proof.
  intros Hb l. induction l as [|a l IH]; intros s Hs.
  - exists s. split; [exact Hs|reflexivity].
  - destruct (Hb a s Hs) as [s1 [I1 E1]]. cbn [map py_for any_res]. rewrite E1.
    destruct (f a) as [b|e]; cbn [bind].
    + destruct b; cbn [bind].
      * exists s1. split; [exact I1|reflexivity].
      * exact (IH s1 I1).
    + exists s. split; [exact Hs|reflexivity].
Qed.

(* [elt(x) for x in l] when elt is total *)
Lemma listcomp_all_map (g : pv -> pv) (elt : pv -> res pv) l :
  (forall x, elt x = Ok (g x)) -> py_listcomp l (fun _ => Ok (PBool true)) elt = Ok (map g l).
Proof.
  intros He. induction l as [|a l IH]; [reflexivity|].
  cbn [py_listcomp bind truthy map]. rewrite He, IH. reflexivity.
Qed.

(* [elt(x) for x in map emb l] when elt decides like f (errors propagate): map_res *)
Lemma listcomp_map_res {A} (emb : A -> pv) (f : A -> res bool) (elt : pv -> res pv) l :
  (forall a, elt (emb a) = bind (f a) (fun b => Ok (PBool b))) ->
  py_listcomp (map emb l) (fun _ => Ok (PBool true)) elt = bind (map_res f l) (fun bs => Ok (map PBool bs)).
Proof.
  intros He. induction l as [|a l IH]; [reflexivity|].
  cbn [map py_listcomp bind truthy map_res]. rewrite He. destruct (f a) as [b|e]; cbn [bind]; [|reflexivity].
  rewrite IH. destruct (map_res f l) as [bs|e]; reflexivity.
Qed.

Lemma existsb_truthy_PBool bs : existsb truthy (map PBool bs) = existsb (fun b => b) bs.
Proof. induction bs as [|b bs IH]; [reflexivity|]. cbn. rewrite IH. reflexivity. Qed.

Lemma any_res_map {A B} (g : A -> B) (f : B -> res bool) l : any_res f (map g l) = any_res (fun a => f (g a)) l.
Proof. induction l as [|a l IH]; [reflexivity|]. cbn [map any_res]. rewrite IH. reflexivity. Qed.

Lemma py_index0_cons x l : py_index (PList (x :: l)) (PInt 0) = Ok x.
Proof.
  unfold py_index. cbn [elems bind Z.ltb Z.compare]. cbn [orb].
  destruct (Z.leb_spec (Z.of_nat (List.length (x :: l))) 0) as [H|H].
  - exfalso. cbn [List.length] in H. rewrite Nat2Z.inj_succ in H. pose proof (Nat2Z.is_nonneg (List.length l)). apply Z.le_succ_l in H. apply (Z.lt_irrefl 0). eapply Z.le_lt_trans; [exact H0|exact H].
  - reflexivity.
Qed.
