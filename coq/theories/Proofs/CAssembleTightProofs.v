(* Proofs about the IMPL model Impl/CAssemble.v (part 3: the guard of the page-split theorem is tight).

   For every accepted stream cut into non-empty, aligned v1 pages:
       run_v1 sh (length rows) pages = AOk rows   <->   good_split sh pages = true.
   The "if" direction is pages_v1_spec.  Here: if some page violates good_page, the result is
   NOT the rows (wrong rows, or a fault).  Two kinds of bad page:
     * the page continues a row, the continued part holds no value, and a new row begins in the
       page (null-only continuation): slot k of the continued row keeps its old, shorter list -
       nothing later writes below the carried row index (frame lemma);
     * the page holds only the continuation of a row and is not the last page: the carried row
       index is one too high from there on, and an index count shows that the read cannot
       finish inside the array. *)
From Coq Require Import NArith Arith List Bool Lia.
From Pq Require Import Format.Nested Impl.CAssemble Proofs.NestedProofs Proofs.CAssembleProofs
  Proofs.CAssemblePagesProofs.
Import ListNotations.
Open Scope N_scope.

Fixpoint zeros (es : list entry) : nat :=
  match es with
  | [] => O
  | (r, _) :: t => if r =? 0 then S (zeros t) else zeros t
  end.

Lemma zeros_app : forall a b, zeros (a ++ b) = (zeros a + zeros b)%nat.
Proof.
  induction a as [|[r d] a IH]; intros b; [reflexivity|]. cbn [app zeros]. rewrite IH.
  destruct (r =? 0); reflexivity.
Qed.

Lemma set_nth_length : forall {A} (l : list A) n x l',
  set_nth l n x = Some l' -> length l' = length l /\ (n < length l)%nat.
Proof.
  induction l as [|h l IH]; intros n x l' H; destruct n as [|n]; cbn [set_nth] in H; try discriminate.
  - injection H as <-. cbn. lia.
  - destruct (set_nth l n x) as [l0|] eqn:E; [|discriminate]. cbn in H. injection H as <-.
    apply IH in E. cbn. lia.
Qed.

Lemma set_nth_other : forall {A} (l : list A) n x l' k,
  set_nth l n x = Some l' -> k <> n -> nth_error l' k = nth_error l k.
Proof.
  induction l as [|h l IH]; intros n x l' k H Hk; destruct n as [|n]; cbn [set_nth] in H; try discriminate.
  - injection H as <-. destruct k; [contradiction|reflexivity].
  - destruct (set_nth l n x) as [l0|] eqn:E; [|discriminate]. cbn in H. injection H as <-.
    destruct k as [|k]; [reflexivity|]. cbn [nth_error]. apply (IH _ _ _ _ E). lia.
Qed.

Definition nonempty_b {V} (pages : list (page V)) : bool :=
  forallb (fun p => match fst p with [] => false | _ => true end) pages.

Section Tight.
Variable V : Type.
Variable sh : shape.

Notation null := (row_opt sh).
Notation md := (max_def sh).

(* the lowest slot a state can still write to *)
Definition low (s : st V) : nat := if s_started s then s_i s else pred (s_i s).

Lemma write_row_facts : forall (a : arr V) i c a', write_row a i c = AOk a' ->
  length a' = length a /\ (i < length a)%nat /\ forall k, k <> i -> nth_error a' k = nth_error a k.
Proof.
  intros a i c a' H. unfold write_row in H. destruct (set_nth a i c) as [l|] eqn:E; [|discriminate].
  injection H as <-. destruct (set_nth_length _ _ _ _ E). repeat split; try assumption.
  intros k Hk. exact (set_nth_other _ _ _ _ k E Hk).
Qed.

Lemma extend_prev_facts : forall (a : arr V) i part a', extend_prev a i part = AOk a' ->
  exists j, i = S j /\ length a' = length a /\ (j < length a)%nat /\
            forall k, k <> j -> nth_error a' k = nth_error a k.
Proof.
  intros a i part a' H. unfold extend_prev in H. destruct i as [|j]; [discriminate|].
  destruct (nth_error a j) as [[l|]|]; try discriminate.
  apply write_row_facts in H. destruct H as (H1 & H2 & H3). exists j. auto.
Qed.

Lemma add_level_frame : forall (s : st V) d s', add_level null md s d = AOk s' ->
  s_arr s' = s_arr s /\ s_i s' = s_i s /\ s_started s' = s_started s.
Proof.
  intros s d s' H. unfold add_level in H.
  destruct (d =? md).
  - destruct (s_vals s); [discriminate|]. injection H as <-. auto.
  - destruct ((if null then 1 else 0) <? d); injection H as <-; auto.
Qed.

Lemma new_row_facts : forall (s : st V) s1, new_row s = AOk s1 ->
  length (s_arr s1) = length (s_arr s) /\ s_started s1 = true /\
  s_i s1 = (if s_started s then S (s_i s) else s_i s) /\
  (forall k, (k < low s)%nat -> nth_error (s_arr s1) k = nth_error (s_arr s) k).
Proof.
  intros s s1 H. unfold new_row in H. unfold low. destruct (s_started s).
  - destruct (write_row _ _ _) as [a|] eqn:E; [|discriminate]. injection H as <-. cbn.
    destruct (write_row_facts _ _ _ _ E) as (L1 & L2 & L3). repeat split; auto.
    intros k Hk. apply L3. lia.
  - destruct (0 <? s_vali s).
    + destruct (extend_prev _ _ _) as [a|] eqn:E; [|discriminate]. injection H as <-. cbn.
      destruct (extend_prev_facts _ _ _ _ E) as (j & Ej & L1 & L2 & L3). repeat split; auto.
      intros k Hk. apply L3. rewrite Ej in Hk. cbn in Hk. lia.
    + injection H as <-. cbn. auto.
Qed.

Lemma step_facts : forall (s : st V) r d s', step null md s (r, d) = AOk s' ->
  length (s_arr s') = length (s_arr s) /\
  s_started s' = (s_started s || (r =? 0)) /\
  s_i s' = (if (r =? 0) && s_started s then S (s_i s) else s_i s) /\
  (forall k, (k < low s)%nat -> nth_error (s_arr s') k = nth_error (s_arr s) k) /\
  (low s <= low s')%nat.
Proof.
  intros s r d s' H. unfold step in H. destruct (r =? 0) eqn:R0.
  - destruct (new_row s) as [s1|] eqn:E1; [|discriminate].
    destruct (new_row_facts _ _ E1) as (N1 & N2 & N3 & N4).
    destruct (add_level_frame _ _ _ H) as (A1 & A2 & A3).
    rewrite A1, A2, A3, N2, N3. rewrite orb_true_r. cbn [andb]. repeat split; auto.
    unfold low. rewrite A3, A2, N2, N3. destruct (s_started s); lia.
  - destruct (add_level_frame _ _ _ H) as (A1 & A2 & A3).
    rewrite A1, A2, A3. rewrite orb_false_r. cbn [andb]. repeat split; auto.
    unfold low. rewrite A3, A2. lia.
Qed.

Lemma steps_facts : forall es (s : st V) s', run_steps null md s es = AOk s' ->
  length (s_arr s') = length (s_arr s) /\
  (forall k, (k < low s)%nat -> nth_error (s_arr s') k = nth_error (s_arr s) k) /\
  (low s <= low s')%nat /\
  (s_started s = true -> s_started s' = true /\ s_i s' = (s_i s + zeros es)%nat) /\
  (s_started s = false ->
     (zeros es = O -> s_started s' = false /\ s_i s' = s_i s) /\
     ((0 < zeros es)%nat -> s_started s' = true /\ S (s_i s') = (s_i s + zeros es)%nat)).
Proof.
  induction es as [|[r d] es IH]; intros s s' H; cbn [run_steps] in H.
  - injection H as <-. cbn [zeros]. repeat split; auto; try lia.
  - destruct (step null md s (r, d)) as [s1|] eqn:E1; [|discriminate].
    destruct (step_facts _ _ _ _ E1) as (S1 & S2 & S3 & S4 & S5).
    destruct (IH _ _ H) as (I1 & I2 & I3 & I4 & I5).
    split; [lia|]. split.
    { intros k Hk. rewrite I2 by lia. apply S4. exact Hk. }
    split; [lia|]. cbn [zeros]. split.
    + intros St. rewrite St in *. cbn [orb] in S2. rewrite andb_true_r in S3.
      destruct (I4 S2) as [J1 J2]. split; [exact J1|]. rewrite J2, S3. destruct (r =? 0); lia.
    + intros St. rewrite St in *. cbn [orb] in S2. rewrite andb_false_r in S3.
      destruct (r =? 0) eqn:R0.
      * split; [lia|]. intros _. destruct (I4 S2) as [J1 J2]. split; [exact J1|]. rewrite J2, S3. lia.
      * destruct (I5 S2) as [J1 J2]. split.
        -- intros Z. destruct (J1 Z) as [K1 K2]. split; [exact K1|]. rewrite K2, S3. reflexivity.
        -- intros Z. destruct (J2 Z) as [K1 K2]. split; [exact K1|]. rewrite K2, S3. reflexivity.
Qed.

(* one page *)
Lemma page_facts : forall (a : arr V) prev p a' i, assemble_page null md a prev p = AOk (a', i) ->
  length a' = length a /\
  (forall k, (S k < prev)%nat -> nth_error a' k = nth_error a k) /\
  (zeros (fst p) = O -> i = prev /\ (prev <= length a)%nat) /\
  ((0 < zeros (fst p))%nat -> S i = (prev + zeros (fst p))%nat /\ (i < length a)%nat).
Proof.
  intros a prev p a' i H. unfold assemble_page in H.
  destruct (run_steps null md _ (fst p)) as [s'|] eqn:E; [|discriminate].
  destruct (steps_facts _ _ _ E) as (L1 & L2 & L3 & L4 & L5).
  cbn [s_arr s_i s_started] in *. unfold low in L2, L3. cbn [s_started s_i] in L2, L3.
  specialize (L5 eq_refl). destruct L5 as [Z0 Zp].
  destruct (s_started s') eqn:St.
  - destruct (write_row _ _ _) as [a1|] eqn:W; [|discriminate]. injection H as <- <-.
    destruct (write_row_facts _ _ _ _ W) as (W1 & W2 & W3).
    assert (Zs : (0 < zeros (fst p))%nat).
    { destruct (zeros (fst p)) eqn:Ez; [|lia]. destruct (Z0 eq_refl). congruence. }
    destruct (Zp Zs) as [_ Ei].
    split; [lia|]. split.
    { intros k Hk. rewrite W3 by lia. apply L2. lia. }
    split; [lia|]. intros _. split; [exact Ei|lia].
  - destruct (extend_prev _ _ _) as [a1|] eqn:W; [|discriminate]. injection H as <- <-.
    destruct (extend_prev_facts _ _ _ _ W) as (j & Ej & W1 & W2 & W3).
    assert (Zs : zeros (fst p) = O).
    { destruct (zeros (fst p)) eqn:Ez; [reflexivity|]. destruct (Zp ltac:(lia)). congruence. }
    destruct (Z0 Zs) as [_ Ei].
    split; [lia|]. split.
    { intros k Hk. rewrite W3 by lia. apply L2. lia. }
    split; [|lia]. intros _. split; [exact Ei|lia].
Qed.

Definition co (p : page V) : nat := if Nat.eqb (zeros (fst p)) 0 then 1%nat else 0%nat.
Fixpoint zeros_all (pages : list (page V)) : nat :=
  match pages with [] => O | p :: t => (zeros (fst p) + zeros_all t)%nat end.
Fixpoint nco (pages : list (page V)) : nat :=
  match pages with [] => O | p :: t => (co p + nco t)%nat end.
Fixpoint lastco (pages : list (page V)) : nat :=
  match pages with [] => O | [p] => co p | _ :: t => lastco t end.

Lemma nco_ge_last : forall pages, (lastco pages <= nco pages)%nat.
Proof.
  induction pages as [|p [|q t] IH]; cbn [lastco nco] in *; lia.
Qed.

Lemma zeros_later : forall pages, zeros (later_entries V pages) = zeros_all pages.
Proof.
  induction pages as [|p t IH]; [reflexivity|].
  unfold later_entries in *. cbn [map concat zeros_all]. rewrite zeros_app, IH. reflexivity.
Qed.

(* the carried row index after all pages fits the array (+1 if the last page only continues) *)
Lemma pages_idx : forall pages (a : arr V) prev a', pages <> [] ->
  read_col_v1 null md a prev pages = AOk a' ->
  (prev + zeros_all pages + nco pages <= length a + lastco pages)%nat.
Proof.
  induction pages as [|p t IH]; intros a prev a' Ne H; [contradiction|].
  cbn [read_col_v1] in H.
  destruct (assemble_page null md a prev p) as [[a1 i1]|] eqn:E; [|discriminate].
  destruct (page_facts _ _ _ _ _ E) as (P1 & P2 & P3 & P4).
  cbn [zeros_all nco]. unfold co at 1.
  destruct t as [|q t].
  - cbn [zeros_all nco lastco]. unfold co.
    destruct (zeros (fst p)) as [|z] eqn:Ez; cbn [Nat.eqb].
    + destruct (P3 eq_refl). lia.
    + destruct (P4 ltac:(lia)). lia.
  - specialize (IH a1 (S i1) a' ltac:(discriminate) H). rewrite P1 in IH.
    change (lastco (p :: q :: t)) with (lastco (q :: t)).
    destruct (zeros (fst p)) as [|z] eqn:Ez; cbn [Nat.eqb].
    + destruct (P3 eq_refl) as [-> _]. lia.
    + destruct (P4 ltac:(lia)) as [Ei _]. lia.
Qed.

(* nothing below the carried row index - 1 is ever written again *)
Lemma pages_frame : forall pages (a : arr V) prev a' k,
  read_col_v1 null md a prev pages = AOk a' -> (S k < prev)%nat -> nth_error a' k = nth_error a k.
Proof.
  induction pages as [|p t IH]; intros a prev a' k H Hk; cbn [read_col_v1] in H.
  - injection H as <-. reflexivity.
  - destruct (assemble_page null md a prev p) as [[a1 i1]|] eqn:E; [|discriminate].
    destruct (page_facts _ _ _ _ _ E) as (P1 & P2 & P3 & P4).
    rewrite (IH a1 (S i1) a' k H).
    + apply P2. exact Hk.
    + destruct (zeros (fst p)) as [|z] eqn:Ez.
      * destruct (P3 eq_refl) as [-> _]. lia.
      * destruct (P4 ltac:(lia)) as [Ei _]. lia.
Qed.

Lemma run_frame : forall es later (s : st V) a' k,
  run_from V sh s es later = AOk a' -> s_started s = true -> (k < s_i s)%nat ->
  nth_error a' k = nth_error (s_arr s) k.
Proof.
  intros es later s a' k H St Hk. unfold run_from in H.
  destruct (run_steps null md s es) as [s'|] eqn:E; [|discriminate].
  destruct (steps_facts _ _ _ E) as (L1 & L2 & L3 & L4 & _).
  destruct (L4 St) as [St' Ei]. unfold low in L2, L3. rewrite St in L2, L3. rewrite St' in L3.
  unfold finish_page in H. rewrite St' in H.
  destruct (write_row _ _ _) as [a1|] eqn:W; [|discriminate].
  destruct (write_row_facts _ _ _ _ W) as (W1 & W2 & W3).
  rewrite (pages_frame later a1 (S (s_i s')) a' k H) by lia.
  rewrite W3 by lia. apply L2. exact Hk.
Qed.

Lemma asm_len_zeros : forall es cur (vs : list V) out,
  asm sh cur es vs = Some out -> length out = S (zeros es).
Proof.
  induction es as [|[r d] t IH]; intros cur vs out H; cbn [asm] in H.
  - destruct vs; [|discriminate]. injection H as <-. reflexivity.
  - cbn [zeros]. destruct (r =? 0).
    + destruct (open_row sh d vs) as [[c vs']|]; [|discriminate].
      destruct (asm sh c t vs') as [o|] eqn:E; [|discriminate]. injection H as <-.
      cbn [length]. rewrite (IH _ _ _ E). reflexivity.
    + destruct (r =? 1); [|discriminate].
      destruct (cont_row sh cur d vs) as [[c vs']|]; [|discriminate]. eauto.
Qed.

(* ---------- a page that violates good_page spoils the result ---------- *)
Lemma bad_cont : forall t es part hn vali lv (pre : arr V) l0 out,
  length lv = count_md md es ->
  asm sh (Some (l0 ++ rev part)) (es ++ later_entries V t) (lv ++ later_vals V t) = Some out ->
  good_cont md vali es (match t with [] => true | _ => false end) = false ->
  (part <> [] \/ exists r d es', es = (r, d) :: es' /\ (r =? 0) = false) ->
  run_from V sh (mkSt (S (length pre)) part false hn vali lv (pre ++ Some l0 :: repeat None (length out - 1))) es t
  <> AOk (pre ++ out).
Proof.
  intros t. induction es as [|[r d] es IH]; intros part hn vali lv pre l0 out Hl Ha Gc Hp.
  - (* the page only continues the row and is not the last one: index count *)
    cbn [good_cont] in Gc. destruct t as [|q t]; [discriminate|].
    destruct lv; [|discriminate]. cbn [app] in Ha.
    pose proof (asm_len_zeros _ _ _ _ Ha) as Lo. rewrite zeros_later in Lo.
    unfold run_from. cbn [run_steps]. unfold finish_page. cbn [s_started s_arr s_i s_part].
    rewrite extend_prev_app. intros H.
    apply pages_idx in H; [|discriminate].
    pose proof (nco_ge_last (q :: t)) as G.
    rewrite app_length in H. cbn [length] in H. rewrite repeat_length in H. lia.
  - rewrite run_from_cons. cbn [app asm] in Ha. cbn [good_cont] in Gc. unfold step.
    destruct (r =? 0) eqn:R0.
    + (* a new row begins, no value was met: the pending part is not appended to slot k *)
      destruct Hp as [Hp|(r' & d' & es' & E & R')]; [|injection E as -> _ _; congruence].
      destruct (open_row sh d (lv ++ later_vals V t)) as [[c vs']|] eqn:Eo; [|discriminate].
      destruct (asm sh c (es ++ later_entries V t) vs') as [out'|] eqn:Ea; [|discriminate].
      injection Ha as <-.
      unfold new_row. cbn [s_started s_arr s_i s_have_null s_part s_vali s_vals]. rewrite Gc.
      match goal with |- context [add_level ?n ?m ?s ?dd] => destruct (add_level n m s dd) as [s2|x] eqn:E2 end;
        [|discriminate].
      destruct (add_level_frame _ _ _ E2) as (A1 & A2 & A3). cbn [s_arr s_i s_started] in A1, A2, A3.
      intros H. pose proof (run_frame es t s2 _ (length pre) H A3 ltac:(rewrite A2; lia)) as F.
      rewrite A1 in F. rewrite !nth_error_app_len in F. injection F as F.
      apply (f_equal (@length _)) in F. rewrite app_length, rev_length in F.
      destruct part; [contradiction|]. cbn [length] in F. lia.
    + destruct (r =? 1); [|discriminate].
      destruct (cont_row sh (Some (l0 ++ rev part)) d (lv ++ later_vals V t)) as [[c vs']|] eqn:Ec; [|discriminate].
      assert (Hv : (d =? md) = true -> lv <> []).
      { intros E. cbn [count_md] in Hl. rewrite E in Hl. destruct lv; [discriminate|discriminate]. }
      destruct (add_level_cont V sh d _ lv _ c vs' (S (length pre)) part false hn vali
                 (pre ++ Some l0 :: repeat None (length out - 1)) Ec Hv)
        as (x & lv' & E1 & E2 & E3 & E4 & E5).
      rewrite E1. subst vs' c.
      apply (IH (x :: part) false _ lv' pre l0 out).
      * cbn [count_md] in Hl. destruct (d =? md); lia.
      * cbn [rev]. rewrite app_assoc. exact Ha.
      * exact Gc.
      * left. discriminate.
Qed.

Definition Qne (res : ares (arr V)) (exp : arr V) : Prop := res <> AOk exp.
Definition Hbad (later : list (page V)) : Prop :=
  nonempty_b later = true /\ good_split sh later = false.

Lemma start_neg : forall later, PstartG V sh Qne Hbad later.
Proof.
  induction later as [|p t IH]; unfold PstartG; intros pre cur out Ha Al [Ne Gd].
  - discriminate.
  - cbn [pages_aligned forallb] in Al. apply andb_prop in Al. destruct Al as [Ap Al].
    unfold nonempty_b in Ne. cbn [forallb] in Ne. apply andb_prop in Ne. destruct Ne as [Np Ne].
    cbn [good_split] in Gd.
    destruct (good_page sh (match t with [] => true | _ => false end) p) eqn:Gp.
    + cbn [andb] in Gd. apply (through_good_page V sh Qne Hbad p t IH); try assumption. split; assumption.
    + clear Gd. unfold Qne. rewrite read_col_v1_cons.
      unfold later_entries, later_vals in Ha. cbn [map concat] in Ha.
      fold (later_entries V t) in Ha. fold (later_vals V t) in Ha.
      unfold page_aligned in Ap. apply Nat.eqb_eq in Ap.
      unfold good_page in Gp. destruct p as [es lv]. cbn [fst snd] in *.
      destruct es as [|[r d] es]; [discriminate|].
      apply orb_false_elim in Gp. destruct Gp as [R0 Gc].
      assert (exists l0, cur = Some l0) as [l0 ->].
      { cbn [app asm] in Ha. rewrite R0 in Ha. destruct (r =? 1); [|discriminate].
        destruct cur as [l0|]; [eauto|discriminate]. }
      apply (bad_cont t ((r, d) :: es) [] false 0 lv pre l0 out); try assumption.
      * cbn [rev]. rewrite app_nil_r. exact Ha.
      * right. eauto.
Qed.

Theorem pages_v1_tight : forall (es : list entry) (vs : list V) rows (pages : list (page V)),
  assemble_spec sh es vs = Some rows ->
  pages_stream pages = (es, vs) ->
  pages_aligned sh pages = true -> nonempty_b pages = true ->
  good_split sh pages = false ->
  run_v1 sh (length rows) pages <> AOk rows.
Proof.
  intros es vs rows pages Ha Hs Al Ne Gd.
  unfold run_v1. rewrite call_null_shape, sch_max_def_shape.
  unfold pages_stream in Hs. injection Hs as <- <-.
  destruct pages as [|p t]; [discriminate|].
  rewrite read_col_v1_cons.
  cbn [pages_aligned forallb] in Al. apply andb_prop in Al. destruct Al as [Ap Al].
  unfold nonempty_b in Ne. cbn [forallb] in Ne. apply andb_prop in Ne. destruct Ne as [Np Ne].
  unfold page_aligned in Ap. apply Nat.eqb_eq in Ap.
  cbn [good_split] in Gd. unfold good_page in Gd.
  destruct p as [pes lv]. cbn [fst snd map concat] in *.
  destruct pes as [|[r d] pes]; [discriminate|].
  cbn [app assemble_spec] in Ha.
  destruct (r =? 0) eqn:R0; [|discriminate]. cbn [orb andb] in Gd.
  fold (later_entries V t) in Ha. fold (later_vals V t) in Ha.
  destruct (open_row sh d (lv ++ later_vals V t)) as [[c vs']|] eqn:Eo; [|discriminate].
  rewrite run_from_cons. unfold step. rewrite R0. unfold new_row.
  cbn [s_started s_vali s_i s_part s_have_null s_vals s_arr]. change (0 <? 0) with false. cbv iota.
  assert (Hv : (d =? md) = true -> lv <> []).
  { intros E. cbn [count_md] in Ap. rewrite E in Ap. destruct lv; [discriminate|discriminate]. }
  destruct (add_level_open V sh d lv _ c vs' 0%nat true false 0 (empty_arr (length rows)) Eo Hv)
    as (part' & hn' & vali' & lv' & E1 & E2 & E3 & E4).
  rewrite E1. subst vs'. unfold empty_arr.
  change (repeat None (length rows)) with ([] ++ repeat (@None (list (elem V))) (length rows)).
  apply (in_page_started V sh Qne Hbad t (start_neg t) pes 0%nat part' hn' vali' lv' [] c rows); try assumption.
  - reflexivity.
  - cbn [count_md] in Ap. destruct (d =? md); lia.
  - split; assumption.
Qed.

(* exact characterisation of the v1 page cuts today's code reads correctly *)
Theorem pages_v1_iff : forall (es : list entry) (vs : list V) rows (pages : list (page V)),
  assemble_spec sh es vs = Some rows ->
  pages_stream pages = (es, vs) ->
  pages_aligned sh pages = true -> nonempty_b pages = true ->
  (run_v1 sh (length rows) pages = AOk rows <-> good_split sh pages = true).
Proof.
  intros es vs rows pages Ha Hs Al Ne. split.
  - intros R. destruct (good_split sh pages) eqn:G; [reflexivity|].
    exfalso. exact (pages_v1_tight es vs rows pages Ha Hs Al Ne G R).
  - intros G. exact (pages_v1_spec V sh es vs rows pages Ha Hs Al G).
Qed.

End Tight.
