(* Proofs about Dataset/Read.v (property C06). *)
From Coq Require Import List ZArith Arith Bool Lia.
From Pq Require Import Dataset.Read.
Import ListNotations.

(* ------------------------------------------------------------------------------------------
   generic list facts                                                                          *)

Lemma nth_error_skipn_cons : forall A (l : list A) a x,
  nth_error l a = Some x -> skipn a l = x :: skipn (S a) l.
Proof.
  induction l as [|y l IH]; intros a x H.
  - destruct a; discriminate.
  - destruct a as [|a]; cbn in H.
    + injection H as ->. reflexivity.
    + cbn [skipn]. rewrite (IH a x H). reflexivity.
Qed.

Lemma select_seq : forall A (l : list A) m a,
  a + m <= length l -> select l (seq a m) = firstn m (skipn a l).
Proof.
  intros A l m. induction m as [|m IH]; intros a H; cbn [seq select flat_map firstn].
  - reflexivity.
  - destruct (nth_error l a) as [x|] eqn:E.
    + rewrite (nth_error_skipn_cons _ _ _ _ E). cbn [firstn app].
      f_equal. apply IH. lia.
    + apply nth_error_None in E. lia.
Qed.

Lemma map_add_seq : forall n a b, map (fun i => a + i) (seq b n) = seq (a + b) n.
Proof.
  induction n as [|n IH]; intros a b; cbn [seq map]; [reflexivity|].
  f_equal. rewrite IH. f_equal. lia.
Qed.

Lemma firstn_incl : forall A n (l : list A), incl (firstn n l) l.
Proof. intros A n l. rewrite <- (firstn_skipn n l) at 2. apply incl_appl, incl_refl. Qed.

Lemma select_incl : forall A (l : list A) idx x, In x (select l idx) -> In x l.
Proof.
  intros A l idx x H. unfold select in H. apply in_flat_map in H. destruct H as [i [_ H]].
  destruct (nth_error l i) as [y|] eqn:E; cbn in H; [|contradiction].
  destruct H as [H|[]]. subst. eapply nth_error_In; eauto.
Qed.

Lemma select_map : forall A B (f : A -> B) l idx, select (map f l) idx = map f (select l idx).
Proof.
  intros A B f l idx. induction idx as [|i idx IH]; cbn [select flat_map map]; [reflexivity|].
  fold (select (map f l) idx). fold (select l idx). rewrite IH, map_app. f_equal.
  rewrite nth_error_map. destruct (nth_error l i); reflexivity.
Qed.

Lemma select_nth : forall A (l : list A) idx k,
  Forall (fun i => i < length l) idx ->
  nth_error (select l idx) k = match nth_error idx k with Some i => nth_error l i | None => None end.
Proof.
  intros A l idx. induction idx as [|i idx IH]; intros k HF.
  - destruct k; reflexivity.
  - inversion HF as [|? ? Hi HF']; subst. cbn [select flat_map]. fold (select l idx).
    destruct (nth_error l i) as [x|] eqn:E.
    + destruct k as [|k]; cbn; [congruence|]. apply IH, HF'.
    + apply nth_error_None in E. lia.
Qed.

Lemma select_length : forall A (l : list A) idx,
  Forall (fun i => i < length l) idx -> length (select l idx) = length idx.
Proof.
  intros A l idx HF. induction HF as [|i idx Hi HF IH]; [reflexivity|].
  cbn [select flat_map]. fold (select l idx). rewrite app_length, IH.
  destruct (nth_error l i) eqn:E; [reflexivity|]. apply nth_error_None in E. lia.
Qed.

(* ------------------------------------------------------------------------------------------
   Python slices                                                                               *)

Open Scope Z_scope.

Lemma adjust_endpoint_pos : forall len step v, 0 <= len -> 0 < step ->
  0 <= adjust_endpoint len step v <= len.
Proof.
  intros len step v Hl Hs. unfold adjust_endpoint.
  destruct (Z.ltb_spec v 0); [destruct (Z.ltb_spec (v + len) 0); destruct (Z.ltb_spec step 0); lia|].
  destruct (Z.geb_spec v len); destruct (Z.ltb_spec step 0); lia.
Qed.

Lemma adjust_endpoint_neg : forall len step v, 0 <= len -> step < 0 ->
  -1 <= adjust_endpoint len step v <= len - 1.
Proof.
  intros len step v Hl Hs. unfold adjust_endpoint.
  destruct (Z.ltb_spec v 0); [destruct (Z.ltb_spec (v + len) 0); destruct (Z.ltb_spec step 0); lia|].
  destruct (Z.geb_spec v len); destruct (Z.ltb_spec step 0); lia.
Qed.

(* every position a slice touches lies inside the list; the slice length is what CPython reports *)
Lemma slice_adjust_bounds : forall len s start step n, 0 <= len ->
  slice_adjust len s = Some (start, step, n) ->
  step <> 0 /\ 0 <= n /\ forall i, 0 <= i < n -> 0 <= start + i * step < len.
Proof.
  intros len s start step n Hl H. unfold slice_adjust in H.
  set (st := match s_step s with None => 1 | Some k => k end) in *.
  destruct (Z.eqb_spec st 0) as [E0|E0]; [discriminate|].
  injection H as Hstart Hstep Hn. subst step. rewrite Hstart in Hn.
  split; [exact E0|].
  destruct (Z.ltb_spec st 0) as [Hneg|Hpos].
  - (* negative step *)
    assert (Hsr : -1 <= start <= len - 1).
    { subst start. destruct (s_start s); [apply adjust_endpoint_neg; lia|lia]. }
    set (stop := match s_stop s with None => -1 | Some v => adjust_endpoint len st v end) in *.
    assert (Hsp : -1 <= stop <= len - 1).
    { subst stop. destruct (s_stop s); [apply adjust_endpoint_neg; lia|lia]. }
    destruct (Z.ltb_spec stop start) as [Hlt|Hge].
    + assert (Hq := Z.div_pos (start - stop - 1) (- st)).
      assert (Hm := Z.mul_div_le (start - stop - 1) (- st)).
      split; [lia|]. intros i Hi.
      assert (i <= (start - stop - 1) / - st) by lia.
      assert (i * (- st) <= (start - stop - 1) / - st * (- st)) by (apply Z.mul_le_mono_nonneg_r; lia).
      nia.
    + split; [lia|]. intros i Hi. lia.
  - (* positive step *)
    assert (Hp : 0 < st) by lia.
    assert (Hsr : 0 <= start <= len).
    { subst start. destruct (s_start s); [apply adjust_endpoint_pos; lia|lia]. }
    set (stop := match s_stop s with None => len | Some v => adjust_endpoint len st v end) in *.
    assert (Hsp : 0 <= stop <= len).
    { subst stop. destruct (s_stop s); [apply adjust_endpoint_pos; lia|lia]. }
    destruct (Z.ltb_spec start stop) as [Hlt|Hge].
    + assert (Hq := Z.div_pos (stop - start - 1) st).
      assert (Hm := Z.mul_div_le (stop - start - 1) st).
      split; [lia|]. intros i Hi.
      assert (i <= (stop - start - 1) / st) by lia.
      assert (i * st <= (stop - start - 1) / st * st) by (apply Z.mul_le_mono_nonneg_r; lia).
      nia.
    + split; [lia|]. intros i Hi. lia.
Qed.

Close Scope Z_scope.

Lemma slice_indices_lt : forall len s idx,
  slice_indices len s = Some idx -> Forall (fun i => i < len) idx.
Proof.
  intros len s idx H. unfold slice_indices in H.
  destruct (slice_adjust (Z.of_nat len) s) as [[[start step] n]|] eqn:E; [|discriminate].
  injection H as <-. apply slice_adjust_bounds in E; [|lia]. destruct E as [_ [Hn Hb]].
  apply Forall_forall. intros x Hx. apply in_map_iff in Hx. destruct Hx as [i [<- Hi]].
  apply in_seq in Hi. specialize (Hb (Z.of_nat i)). lia.
Qed.

Lemma slice_indices_length : forall len s start step n,
  slice_adjust (Z.of_nat len) s = Some (start, step, n) ->
  exists idx, slice_indices len s = Some idx /\ length idx = Z.to_nat n.
Proof.
  intros len s start step n E. unfold slice_indices. rewrite E. eexists. split; [reflexivity|].
  rewrite map_length, seq_length. reflexivity.
Qed.

(* the complete meaning of l[start:stop:step]: element k is l[start + k*step], slicelength elements *)
Lemma py_slice_spec : forall A (l : list A) s r,
  py_slice s l = Some r ->
  exists start step n, slice_adjust (Z.of_nat (length l)) s = Some (start, step, n) /\
    length r = Z.to_nat n /\
    forall k, k < Z.to_nat n ->
      nth_error r k = nth_error l (Z.to_nat (start + Z.of_nat k * step)%Z) /\
      Z.to_nat (start + Z.of_nat k * step)%Z < length l.
Proof.
  intros A l s r H. unfold py_slice in H.
  destruct (slice_indices (length l) s) as [idx|] eqn:E; [|discriminate]. injection H as <-.
  assert (HF := slice_indices_lt _ _ _ E).
  unfold slice_indices in E.
  destruct (slice_adjust (Z.of_nat (length l)) s) as [[[start step] n]|] eqn:E2; [|discriminate].
  injection E as <-. exists start, step, n. split; [reflexivity|]. split.
  - rewrite select_length by exact HF. rewrite map_length, seq_length. reflexivity.
  - intros k Hk. rewrite select_nth by exact HF.
    assert (Hn : nth_error (map (fun i : nat => Z.to_nat (start + Z.of_nat i * step)) (seq 0 (Z.to_nat n))) k
                 = Some (Z.to_nat (start + Z.of_nat k * step))).
    { rewrite nth_error_map. rewrite (nth_error_nth' _ 0) by (rewrite seq_length; exact Hk).
      rewrite seq_nth by exact Hk. reflexivity. }
    rewrite Hn. split; [reflexivity|].
    rewrite Forall_forall in HF. apply HF. eapply nth_error_In. exact Hn.
Qed.

Lemma py_slice_incl : forall A (l : list A) s r, py_slice s l = Some r -> incl r l.
Proof.
  intros A l s r H x Hx. unfold py_slice in H. destruct (slice_indices (length l) s); [|discriminate].
  injection H as <-. eapply select_incl; eauto.
Qed.

Lemma py_slice_map : forall A B (f : A -> B) s l, py_slice s (map f l) = option_map (map f) (py_slice s l).
Proof.
  intros. unfold py_slice. rewrite map_length. destruct (slice_indices (length l) s); cbn; [|reflexivity].
  rewrite select_map. reflexivity.
Qed.

(* l[:z] for z >= 0 is the prefix of length z *)
Lemma py_slice_prefix : forall A (l : list A) z, (0 <= z)%Z ->
  py_slice (mk_slice None (Some z) None) l = Some (firstn (Z.to_nat z) l).
Proof.
  intros A l z Hz. unfold py_slice, slice_indices, slice_adjust. cbn [s_start s_stop s_step].
  change (1 =? 0)%Z with false. change (1 <? 0)%Z with false. cbv iota.
  set (len := Z.of_nat (length l)).
  assert (Hstop : adjust_endpoint len 1 z = Z.min z len).
  { unfold adjust_endpoint. destruct (Z.ltb_spec z 0); [lia|]. destruct (Z.geb_spec z len); change (1 <? 0)%Z with false; cbv iota; lia. }
  rewrite Hstop.
  assert (Hn : (if (0 <? Z.min z len)%Z then ((Z.min z len - 0 - 1) / 1 + 1)%Z else 0%Z) = Z.min z len).
  { destruct (Z.ltb_spec 0 (Z.min z len)); [rewrite Z.div_1_r; lia|subst len; lia]. }
  rewrite Hn. cbn [option_map]. f_equal.
  rewrite (map_ext _ (fun i => i)) by (intros i; lia). rewrite map_id.
  rewrite select_seq by (subst len; lia). cbn [skipn].
  destruct (Z.le_ge_cases z len).
  - rewrite Z.min_l by lia. reflexivity.
  - rewrite Z.min_r by lia. subst len. rewrite Nat2Z.id.
    rewrite firstn_all. symmetry. apply firstn_all2. lia.
Qed.

(* l[a:b] for 0 <= a <= b <= len *)
Lemma py_slice_range : forall A (l : list A) a b, a <= b <= length l ->
  py_slice (mk_slice (Some (Z.of_nat a)) (Some (Z.of_nat b)) None) l = Some (firstn (b - a) (skipn a l)).
Proof.
  intros A l a b H. unfold py_slice, slice_indices, slice_adjust. cbn [s_start s_stop s_step].
  change (1 =? 0)%Z with false. change (1 <? 0)%Z with false. cbv iota.
  set (len := Z.of_nat (length l)).
  assert (Ha : adjust_endpoint len 1 (Z.of_nat a) = Z.of_nat a).
  { unfold adjust_endpoint. destruct (Z.ltb_spec (Z.of_nat a) 0); [lia|].
    destruct (Z.geb_spec (Z.of_nat a) len); change (1 <? 0)%Z with false; cbv iota; subst len; lia. }
  assert (Hb : adjust_endpoint len 1 (Z.of_nat b) = Z.of_nat b).
  { unfold adjust_endpoint. destruct (Z.ltb_spec (Z.of_nat b) 0); [lia|].
    destruct (Z.geb_spec (Z.of_nat b) len); change (1 <? 0)%Z with false; cbv iota; subst len; lia. }
  rewrite Ha, Hb.
  assert (Hn : Z.to_nat (if (Z.of_nat a <? Z.of_nat b)%Z then ((Z.of_nat b - Z.of_nat a - 1) / 1 + 1)%Z else 0%Z) = b - a).
  { destruct (Z.ltb_spec (Z.of_nat a) (Z.of_nat b)); [rewrite Z.div_1_r; lia|lia]. }
  rewrite Hn. cbn [option_map]. f_equal.
  rewrite (map_ext _ (fun i => a + i)) by (intros i; lia).
  rewrite map_add_seq, Nat.add_0_r. apply select_seq. lia.
Qed.

(* l[:] is l *)
Lemma py_slice_all : forall A (l : list A), py_slice (mk_slice None None None) l = Some l.
Proof.
  intros A l. unfold py_slice, slice_indices, slice_adjust. cbn [s_start s_stop s_step].
  change (1 =? 0)%Z with false. change (1 <? 0)%Z with false. cbv iota.
  set (len := Z.of_nat (length l)).
  assert (Hn : Z.to_nat (if (0 <? len)%Z then ((len - 0 - 1) / 1 + 1)%Z else 0%Z) = length l).
  { destruct (Z.ltb_spec 0 len); [rewrite Z.div_1_r; subst len; lia|subst len; lia]. }
  rewrite Hn. cbn [option_map]. f_equal.
  rewrite (map_ext _ (fun i => i)) by (intros i; lia). rewrite map_id.
  rewrite select_seq by lia. cbn [skipn]. apply firstn_all.
Qed.

Lemma py_pick_spec : forall A (l : list A) i d,
  py_pick i l = Some d <->
  let len := Z.of_nat (length l) in
  ((0 <= i < len)%Z /\ nth_error l (Z.to_nat i) = Some d) \/
  ((- len <= i < 0)%Z /\ nth_error l (Z.to_nat (i + len)) = Some d).
Proof.
  intros A l i d. unfold py_pick. cbv zeta. set (len := Z.of_nat (length l)).
  destruct (Z.ltb_spec i 0) as [Hi|Hi].
  - destruct (Z.ltb_spec (i + len) 0) as [H1|H1]; cbn [orb].
    + split; [discriminate|]. intros [[H2 _]|[H2 _]]; lia.
    + destruct (Z.leb_spec len (i + len)) as [H3|H3].
      * lia.
      * split; [intro H; right; split; [lia|exact H]|]. intros [[H2 _]|[_ H2]]; [lia|exact H2].
  - destruct (Z.ltb_spec i 0) as [H1|H1]; [lia|]. cbn [orb].
    destruct (Z.leb_spec len i) as [H3|H3].
    + split; [discriminate|]. intros [[H2 _]|[H2 _]]; lia.
    + split; [intro H; left; split; [lia|exact H]|]. intros [[_ H2]|[H2 _]]; [exact H2|lia].
Qed.

Lemma py_pick_nat : forall A (l : list A) i d, nth_error l i = Some d -> py_pick (Z.of_nat i) l = Some d.
Proof.
  intros A l i d H. apply py_pick_spec. left. rewrite Nat2Z.id. split; [|exact H].
  assert (i < length l) by (apply nth_error_Some; congruence). lia.
Qed.

Lemma py_pick_In : forall A (l : list A) i d, py_pick i l = Some d -> In d l.
Proof.
  intros A l i d H. apply py_pick_spec in H. destruct H as [[_ H]|[_ H]]; eapply nth_error_In; eauto.
Qed.

Lemma py_pick_map : forall A B (f : A -> B) i l, py_pick i (map f l) = option_map f (py_pick i l).
Proof.
  intros. unfold py_pick. rewrite map_length.
  destruct ((if (i <? 0)%Z then (i + Z.of_nat (length l))%Z else i) <? 0)%Z; cbn [orb].
  - reflexivity.
  - destruct (Z.of_nat (length l) <=? (if (i <? 0)%Z then (i + Z.of_nat (length l))%Z else i))%Z; [reflexivity|].
    apply nth_error_map.
Qed.

(* ------------------------------------------------------------------------------------------
   the row-group loop of to_pandas                                                             *)

Lemma sum_app : forall a b, sum (a ++ b) = sum a + sum b.
Proof.
  induction a as [|x a IH]; intros b; [reflexivity|].
  change (sum ((x :: a) ++ b)) with (x + sum (a ++ b)). change (sum (x :: a)) with (x + sum a).
  rewrite IH. lia.
Qed.

Lemma repeat_app_n : forall A (x : A) n m, repeat x (n + m) = repeat x n ++ repeat x m.
Proof. intros. apply repeat_app. Qed.

Lemma filter_filter : forall A (f g : A -> bool) l, filter f (filter g l) = filter (fun x => g x && f x) l.
Proof.
  intros A f g l. induction l as [|x l IH]; cbn; [reflexivity|].
  destruct (g x); cbn; [destruct (f x); cbn; rewrite IH; reflexivity|exact IH].
Qed.

Lemma concat_filter_nonempty : forall A (l : list (list A)),
  concat (filter (fun r => match r with [] => false | _ => true end) l) = concat l.
Proof.
  intros A l. induction l as [|x l IH]; cbn; [reflexivity|].
  destruct x; cbn; [exact IH|]. rewrite IH. reflexivity.
Qed.

Lemma filter_none : forall A (f : A -> bool) l, (forall x, In x l -> f x = false) -> filter f l = [].
Proof.
  intros A f l H. induction l as [|x l IH]; [reflexivity|]. cbn. rewrite (H x) by (left; reflexivity).
  apply IH. intros y Hy. apply H. right. exact Hy.
Qed.

Lemma filter_all : forall A (f : A -> bool) l, (forall x, In x l -> f x = true) -> filter f l = l.
Proof.
  intros A f l H. induction l as [|x l IH]; [reflexivity|]. cbn. rewrite (H x) by (left; reflexivity).
  f_equal. apply IH. intros y Hy. apply H. right. exact Hy.
Qed.


Section ReadProofs.
  Variables D R Name B : Type.
  Variable deqb : D -> D -> bool.
  Variable neqb : Name -> Name -> bool.
  Variable rows : D -> list R.
  Variable nrows : D -> nat.
  Variable ser : list D -> B.
  Variable deser : B -> option (list D).

  (* the metadata's per-row-group row count is the number of rows the chunks hold *)
  Definition wf (rgs : list D) : Prop := forall d, In d rgs -> nrows d = length (rows d).

  Notation fill := (fill rows nrows).
  Notation read_rows := (read_rows rows nrows).
  Notation to_pandas := (to_pandas neqb rows nrows).
  Notation out_columns := (out_columns neqb).
  Notation handle := (handle D Name).
  Notation frame := (frame R Name).

  Definition full (rgs : list D) : list (option R) := map Some (concat (map rows rgs)).

  Lemma wf_incl : forall l l', wf l -> incl l' l -> wf l'.
  Proof. intros l l' H Hi d Hd. apply H, Hi, Hd. Qed.

  Lemma wf_count : forall l, wf l -> sum (map nrows l) = length (concat (map rows l)).
  Proof.
    induction l as [|d l IH]; intros H; cbn; [reflexivity|].
    rewrite app_length, <- IH by (eapply wf_incl; [exact H|apply incl_tl, incl_refl]).
    rewrite (H d) by (left; reflexivity). reflexivity.
  Qed.

  (* THE INVARIANT of the loop: started at offset |pre| on an output whose first |pre| slots hold
     `pre`, followed by (sum of the remaining counts) untouched slots and then `tail`, the loop
     ends with `pre`, the remaining groups' rows in order, and `tail` - nothing else is written. *)
  Lemma fill_inv : forall rgs pre tail, wf rgs ->
    fill rgs (length pre) (pre ++ repeat None (sum (map nrows rgs)) ++ tail)
    = Some (pre ++ full rgs ++ tail).
  Proof.
    induction rgs as [|d rgs IH]; intros pre tail H.
    - reflexivity.
    - cbn [Read.fill map sum fold_right]. fold (sum (map nrows rgs)).
      assert (Hd : nrows d = length (rows d)) by (apply H; left; reflexivity).
      unfold assign_slice.
      assert (Hlen : (length pre + nrows d <=? length (pre ++ repeat None (nrows d + sum (map nrows rgs)) ++ tail)) = true).
      { apply Nat.leb_le. rewrite !app_length, repeat_length. lia. }
      rewrite Hlen, Hd, Nat.eqb_refl. cbn [andb].
      rewrite firstn_app, firstn_all, Nat.sub_diag. cbn [firstn]. rewrite app_nil_r.
      rewrite skipn_app, skipn_all2 by lia. cbn [app].
      replace (length pre + length (rows d) - length pre) with (length (rows d)) by lia.
      rewrite repeat_app_n, <- app_assoc, skipn_app, repeat_length, Nat.sub_diag.
      rewrite skipn_all2 by (rewrite repeat_length; lia). cbn [skipn app].
      replace (length pre + length (rows d)) with (length (pre ++ map Some (rows d)))
        by (rewrite app_length, map_length; reflexivity).
      rewrite (app_assoc pre (map Some (rows d))).
      rewrite IH by (eapply wf_incl; [exact H|apply incl_tl, incl_refl]).
      unfold full. cbn [map concat]. rewrite map_app, <- !app_assoc. reflexivity.
  Qed.

  Theorem read_rows_full : forall rgs, wf rgs -> read_rows rgs = Some (full rgs).
  Proof.
    intros rgs H. unfold Read.read_rows.
    assert (E := fill_inv rgs [] [] H). cbn [length app] in E. rewrite !app_nil_r in E. exact E.
  Qed.

  (* the state after the first k groups (l1): offset = their total count, the slots before it hold
     their rows, everything after is still untouched *)
  Theorem fill_prefix_state : forall l1 l2, wf (l1 ++ l2) ->
    read_rows (l1 ++ l2)
    = fill l2 (sum (map nrows l1)) (full l1 ++ repeat None (sum (map nrows l2))).
  Proof.
    intros l1 l2 H. rewrite read_rows_full by exact H.
    assert (H1 : wf l1) by (eapply wf_incl; [exact H|apply incl_appl, incl_refl]).
    assert (H2 : wf l2) by (eapply wf_incl; [exact H|apply incl_appr, incl_refl]).
    assert (E := fill_inv l2 (full l1) [] H2). rewrite !app_nil_r in E.
    unfold full at 1 in E. rewrite map_length, <- wf_count in E by exact H1. rewrite E.
    unfold full. rewrite map_app, concat_app, map_app. reflexivity.
  Qed.

  (* a count that disagrees with the data is refused, never silently mis-placed *)
  Lemma read_rows_some_wf : forall rgs out, read_rows rgs = Some out -> wf rgs.
  Proof.
    intros rgs out. unfold Read.read_rows. generalize 0 (repeat (@None R) (sum (map nrows rgs))).
    revert out. induction rgs as [|d rgs IH]; intros out st o H x Hx; [destruct Hx|].
    cbn [Read.fill] in H. destruct (assign_slice st (nrows d) (rows d) o) as [o'|] eqn:E; [|discriminate].
    destruct Hx as [<-|Hx].
    - unfold assign_slice in E. destruct (st + nrows d <=? length o); cbn in E; [|discriminate].
      destruct (Nat.eqb_spec (length (rows d)) (nrows d)); [congruence|discriminate].
    - eapply IH; eauto.
  Qed.

  Lemma to_pandas_wf : forall (h : handle) o, wf (h_rgs h) ->
    to_pandas h o = bind (out_columns h o) (fun ci => Ok (mk_frame (fst ci) (snd ci) (full (h_rgs h)))).
  Proof. intros h o H. unfold Read.to_pandas. rewrite read_rows_full by exact H. reflexivity. Qed.

  (* ---------------- __getitem__ ------------------------------------------------------------- *)

  Theorem getitem_slice_read : forall (h : handle) s o, wf (h_rgs h) ->
    bind (getitem_slice h s) (fun h' => to_pandas h' o) =
    match py_slice s (h_rgs h) with
    | None => Fail ValueError
    | Some l => bind (out_columns (with_rgs h l) o) (fun ci => Ok (mk_frame (fst ci) (snd ci) (full l)))
    end.
  Proof.
    intros h s o H. unfold getitem_slice. destruct (py_slice s (h_rgs h)) as [l|] eqn:E; [|reflexivity].
    cbn [bind]. apply to_pandas_wf. cbn. eapply wf_incl; [exact H|eapply py_slice_incl; eauto].
  Qed.

  Theorem getitem_pick_read : forall (h : handle) i o, wf (h_rgs h) ->
    bind (getitem_pick h i) (fun h' => to_pandas h' o) =
    match py_pick i (h_rgs h) with
    | None => Fail IndexError
    | Some d => bind (out_columns (with_rgs h [d]) o) (fun ci => Ok (mk_frame (fst ci) (snd ci) (map Some (rows d))))
    end.
  Proof.
    intros h i o H. unfold getitem_pick. destruct (py_pick i (h_rgs h)) as [d|] eqn:E; [|reflexivity].
    cbn [bind]. rewrite to_pandas_wf.
    - unfold full. cbn. rewrite app_nil_r. reflexivity.
    - cbn. intros x [<-|[]]. apply H. eapply py_pick_In; eauto.
  Qed.

  (* ---------------- column selection ------------------------------------------------------- *)

  Hypothesis neqb_spec : forall a b, reflect (a = b) (neqb a b).

  Lemma mem_In : forall n l, mem neqb n l = true <-> In n l.
  Proof.
    intros n l. unfold mem. rewrite existsb_exists. split.
    - intros [x [Hx E]]. destruct (neqb_spec n x); [subst; exact Hx|discriminate].
    - intros H. exists n. split; [exact H|]. destruct (neqb_spec n n); congruence.
  Qed.

  Lemma mem_false : forall n l, mem neqb n l = false <-> ~ In n l.
  Proof.
    intros n l. rewrite <- mem_In. destruct (mem neqb n l); split; congruence.
  Qed.

  Lemma dedup_incl : forall l x, In x (dedup neqb l) -> In x l.
  Proof.
    induction l as [|y l IH]; intros x H; [exact H|]. cbn in H. destruct H as [H|H]; [left; exact H|].
    apply filter_In in H. right. apply IH, H.
  Qed.

  Lemma dedup_app : forall l m,
    dedup neqb (l ++ m) = dedup neqb l ++ filter (fun y => negb (mem neqb y l)) (dedup neqb m).
  Proof.
    induction l as [|x l IH]; intros m; cbn [app dedup].
    - cbn. symmetry. apply filter_all. reflexivity.
    - rewrite IH, filter_app, filter_filter. cbn [app]. f_equal. f_equal.
      apply filter_ext. intros y. unfold mem. cbn [existsb].
      destruct (neqb_spec x y) as [E|E]; destruct (neqb_spec y x) as [E'|E']; try congruence; cbn.
      + rewrite andb_false_r. reflexivity.
      + rewrite andb_true_r. reflexivity.
  Qed.

  Lemma dedup_nodup : forall l, NoDup l -> dedup neqb l = l.
  Proof.
    induction l as [|x l IH]; intros H; [reflexivity|]. inversion H as [|? ? Hx Hl]; subst.
    cbn. rewrite (IH Hl). f_equal. apply filter_all.
    intros y Hy. destruct (neqb_spec x y); [subst; contradiction|reflexivity].
  Qed.

  (* a duplicate-free list of available columns and ANY explicit index drawn from the available columns
     (stored or partition columns): the frame has exactly the requested columns minus the index, in the
     requested order *)
  Theorem out_columns_requested : forall (h : handle) req idx,
    NoDup req -> incl req (h_cols h ++ cats_of h) -> incl idx (h_cols h ++ cats_of h) ->
    out_columns h (mk_ropts (Some req) (IdxNames idx))
    = Ok (filter (fun c => negb (mem neqb c idx)) req, idx).
  Proof.
    intros h req idx Hnd Hreq Hidx. unfold Read.out_columns, Read.out_columns_gen. cbn [o_cols o_index].
    set (all := h_cols h ++ cats_of h).
    set (extra := filter (fun i => negb (mem neqb i req)) idx).
    assert (Hall : forallb (fun c => mem neqb c all) (req ++ extra) = true).
    { apply forallb_forall. intros x Hx. apply mem_In. apply in_app_or in Hx. destruct Hx as [Hx|Hx].
      - apply Hreq, Hx.
      - apply filter_In in Hx. apply Hidx, Hx. }
    rewrite Hall. f_equal. f_equal.
    rewrite filter_app.
    assert (Hex : filter (fun c => negb (mem neqb c idx)) extra = []).
    { apply filter_none. intros x Hx. apply filter_In in Hx. destruct Hx as [Hx _].
      apply (proj2 (mem_In x idx)) in Hx. rewrite Hx. reflexivity. }
    rewrite Hex, app_nil_r, dedup_app.
    rewrite dedup_nodup by (apply NoDup_filter, Hnd).
    rewrite (filter_none _ _ (dedup neqb _)); [apply app_nil_r|].
    intros x Hx. apply dedup_incl in Hx. apply filter_In in Hx. destruct Hx as [Hx Hni].
    apply filter_In in Hx. destruct Hx as [_ Hm].
    apply mem_In in Hm. apply negb_false_iff. apply mem_In. apply filter_In.
    apply negb_true_iff, mem_false in Hni.
    split.
    - apply in_app_or in Hm. destruct Hm as [Hm|Hm]; [exact Hm|]. apply filter_In in Hm. tauto.
    - apply negb_true_iff. apply mem_false. exact Hni.
  Qed.

  Corollary out_columns_subset : forall (h : handle) req,
    NoDup req -> incl req (h_cols h ++ cats_of h) ->
    out_columns h (mk_ropts (Some req) IdxFalse) = Ok (req, []).
  Proof.
    intros h req Hnd Hreq. unfold Read.out_columns, Read.out_columns_gen. cbn [o_cols o_index filter]. rewrite app_nil_r.
    assert (Hall : forallb (fun c => mem neqb c (h_cols h ++ cats_of h)) req = true).
    { apply forallb_forall. intros x Hx. apply mem_In, Hreq, Hx. }
    rewrite Hall. f_equal. f_equal.
    rewrite (filter_all _ _ req) by reflexivity.
    rewrite dedup_app, dedup_nodup by exact Hnd.
    rewrite (filter_none _ _ (dedup neqb _)); [apply app_nil_r|].
    intros x Hx. apply dedup_incl in Hx. apply filter_In in Hx. destruct Hx as [Hx _].
    apply filter_In in Hx. destruct Hx as [_ Hm].
    rewrite Hm. reflexivity.
  Qed.

  (* the pinned tree: with a partition column as index the column list is NOT the request minus the index *)
  Lemma out_columns_pinned_keeps_index_column : forall (h : handle) c p,
    h_rgs h <> [] -> h_cols h = [c] -> h_pcols h = [p] -> c <> p ->
    out_columns_pinned neqb h (mk_ropts (Some [c; p]) (IdxNames [p])) = Ok ([c; p], [p]).
  Proof.
    intros h c p Hr Hc Hp Hne. unfold out_columns_pinned, out_columns_gen, cats_of. cbn [o_cols o_index].
    destruct (h_rgs h) as [|d l]; [contradiction|]. rewrite Hc, Hp. unfold mem. cbn.
    destruct (neqb_spec c c) as [_|F]; [|contradiction]. destruct (neqb_spec p p) as [_|F]; [|contradiction].
    destruct (neqb_spec c p) as [F|_]; [contradiction|]. destruct (neqb_spec p c) as [F|_]; [symmetry in F; contradiction|].
    cbn. destruct (neqb_spec c p) as [F|_]; [contradiction|]. destruct (neqb_spec p p) as [_|F]; [|contradiction].
    cbn. destruct (neqb_spec c p) as [F|_]; [contradiction|]. reflexivity.
  Qed.

  (* the column choice never changes which rows are delivered *)
  Theorem rows_independent_of_columns : forall (h : handle) o1 o2 f1 f2,
    to_pandas h o1 = Ok f1 -> to_pandas h o2 = Ok f2 -> f_rows f1 = f_rows f2.
  Proof.
    intros h o1 o2 f1 f2 H1 H2. unfold Read.to_pandas in *.
    destruct (out_columns h o1); [|discriminate]. destruct (out_columns h o2); [|discriminate].
    cbn [bind] in *. destruct (read_rows (h_rgs h)); [|discriminate].
    injection H1 as <-. injection H2 as <-. reflexivity.
  Qed.

  Lemma out_columns_nonempty_irrel : forall (h : handle) l1 l2 o, l1 <> [] -> l2 <> [] ->
    out_columns (with_rgs h l1) o = out_columns (with_rgs h l2) o.
  Proof.
    intros h l1 l2 o H1 H2. unfold Read.out_columns, Read.out_columns_gen, cats_of, with_rgs. cbn.
    destruct l1; [contradiction|]. destruct l2; [contradiction|]. reflexivity.
  Qed.

  Lemma with_rgs_same : forall (h : handle), with_rgs h (h_rgs h) = h.
  Proof. intros [a b c d]. reflexivity. Qed.

  (* ---------------- iter_row_groups ---------------------------------------------------------- *)

  Hypothesis deqb_spec : forall a b, reflect (a = b) (deqb a b).

  Lemma index_of_nth : forall l d, In d l -> exists i, index_of deqb d l = Some i /\ nth_error l i = Some d.
  Proof.
    induction l as [|x l IH]; intros d H; [destruct H|]. cbn [Read.index_of].
    destruct (deqb_spec x d) as [E|E].
    - subst. exists 0. split; reflexivity.
    - destruct H as [H|H]; [contradiction|]. destruct (IH d H) as [i [Hi Hn]].
      exists (S i). rewrite Hi. split; [reflexivity|exact Hn].
  Qed.

  Definition nonempty_rows (r : list (option R)) : bool := match r with [] => false | _ => true end.

  Lemma mapM_iter : forall (h : handle) o ci sub, wf (h_rgs h) -> incl sub (h_rgs h) ->
    (forall d, out_columns (with_rgs h [d]) o = Ok ci) ->
    mapM (fun rg => match index_of deqb rg (h_rgs h) with
                    | None => Fail ValueError
                    | Some i => bind (getitem_pick h (Z.of_nat i)) (fun h' => to_pandas h' o)
                    end) sub
    = Ok (map (fun d => mk_frame (fst ci) (snd ci) (map Some (rows d))) sub).
  Proof.
    intros h o ci sub H Hs Hc. induction sub as [|d sub IH]; [reflexivity|].
    cbn [mapM map]. destruct (index_of_nth (h_rgs h) d) as [i [Hi Hn]]; [apply Hs; left; reflexivity|].
    rewrite Hi, getitem_pick_read by exact H. rewrite (py_pick_nat _ _ _ _ Hn), Hc. cbn [bind].
    rewrite IH by (intros x Hx; apply Hs; right; exact Hx). reflexivity.
  Qed.

  (* every non-empty row group is delivered once, in order, with exactly its rows *)
  Theorem iter_spec : forall (h : handle) o, wf (h_rgs h) ->
    iter_row_groups deqb neqb rows nrows h o =
    match h_rgs h with
    | [] => Ok []
    | _ => bind (out_columns h o) (fun ci =>
             Ok (filter (fun f => negb (frame_empty f))
                        (map (fun d => mk_frame (fst ci) (snd ci) (map Some (rows d))) (h_rgs h))))
    end.
  Proof.
    intros h o H. unfold Read.iter_row_groups. destruct (h_rgs h) as [|d0 l0] eqn:E; [reflexivity|].
    assert (H' : wf (h_rgs h)) by (rewrite E; exact H).
    assert (Hc : forall d, out_columns (with_rgs h [d]) o = out_columns h o).
    { intros d. rewrite <- (with_rgs_same h) at 2. apply out_columns_nonempty_irrel; [discriminate|].
      rewrite E. discriminate. }
    destruct (out_columns h o) as [ci|e] eqn:Eo.
    - rewrite <- E. rewrite (mapM_iter h o ci (h_rgs h) H' (incl_refl _)) by (intros d; apply Hc).
      reflexivity.
    - cbn [mapM]. destruct (index_of_nth (h_rgs h) d0) as [i [Hi Hn]]; [rewrite E; left; reflexivity|].
      rewrite E in Hi. rewrite Hi. rewrite <- E. rewrite getitem_pick_read by exact H'.
      rewrite (py_pick_nat _ _ _ _ Hn), Hc. reflexivity.
  Qed.

  Lemma concat_filter_frames : forall (ci : list Name * list Name) l, fst ci <> [] ->
    concat (map f_rows (filter (fun f : frame => negb (frame_empty f))
                               (map (fun d => mk_frame (fst ci) (snd ci) (map Some (rows d))) l))) = full l.
  Proof.
    intros ci l Hc. unfold full. induction l as [|d l IH]; [reflexivity|].
    cbn [map filter concat]. unfold frame_empty at 1. cbn [f_rows f_cols].
    destruct (rows d) as [|r rs] eqn:Er; cbn [map negb].
    - rewrite IH. reflexivity.
    - destruct (fst ci) eqn:Ec; [contradiction|]. cbn [negb map concat f_rows]. rewrite IH.
      rewrite map_app. reflexivity.
  Qed.

  Theorem iter_concat : forall (h : handle) o fs, wf (h_rgs h) ->
    iter_row_groups deqb neqb rows nrows h o = Ok fs ->
    (exists f, In f fs) \/ (forall ci, out_columns h o = Ok ci -> fst ci <> []) ->
    concat (map f_rows fs) = full (h_rgs h).
  Proof.
    intros h o fs H Hi Hne. rewrite iter_spec in Hi by exact H.
    assert (Hi' : (h_rgs h = [] /\ fs = []) \/
                  exists ci, out_columns h o = Ok ci /\
                    fs = filter (fun f : frame => negb (frame_empty f))
                                (map (fun d => mk_frame (fst ci) (snd ci) (map Some (rows d))) (h_rgs h))).
    { destruct (h_rgs h); [left; split; [reflexivity|injection Hi as <-; reflexivity]|right].
      destruct (out_columns h o) as [ci|]; [|discriminate]. exists ci. split; [reflexivity|].
      cbn [bind] in Hi. injection Hi as <-. reflexivity. }
    clear Hi. destruct Hi' as [[E1 E2]|[ci [Eo Ef]]].
    - rewrite E1, E2. reflexivity.
    - assert (Hcols : fst ci <> []).
      { destruct Hne as [[f Hf]|Hne]; [|apply Hne; exact Eo].
        rewrite Ef in Hf. apply filter_In in Hf. destruct Hf as [Hf1 Hf2]. apply in_map_iff in Hf1.
        destruct Hf1 as [d [<- _]]. unfold frame_empty in Hf2. cbn [f_rows f_cols] in Hf2.
        destruct (map Some (rows d)); [discriminate|]. destruct (fst ci); [discriminate|discriminate]. }
      rewrite Ef. apply concat_filter_frames, Hcols.
  Qed.

  (* ---------------- head ---------------------------------------------------------------------- *)

  Lemma head_loop_ge : forall rgs i total n z,
    head_loop nrows rgs i total n (Some (Z.of_nat i - 1)%Z) = Some z -> (Z.of_nat i - 1 <= z)%Z.
  Proof.
    induction rgs as [|d rgs IH]; intros i total n z H; cbn [Read.head_loop] in H.
    - injection H as <-. lia.
    - destruct (n <=? total + nrows d); [injection H as <-; lia|].
      replace (Some (Z.of_nat i)) with (Some (Z.of_nat (S i) - 1)%Z) in H by (f_equal; lia).
      apply IH in H. lia.
  Qed.

  (* the prefix chosen by the loop already holds the first n - total rows of what remains *)
  Lemma head_loop_spec : forall rgs i total n z, wf rgs ->
    head_loop nrows rgs i total n (Some (Z.of_nat i - 1)%Z) = Some z ->
    firstn (n - total) (concat (map rows (firstn (Z.to_nat (z + 1) - i) rgs)))
    = firstn (n - total) (concat (map rows rgs)).
  Proof.
    induction rgs as [|d rgs IH]; intros i total n z Hwf H.
    - rewrite firstn_nil. reflexivity.
    - cbn [Read.head_loop] in H.
      assert (Hd : nrows d = length (rows d)) by (apply Hwf; left; reflexivity).
      destruct (Nat.leb_spec n (total + nrows d)) as [Hle|Hgt].
      + injection H as <-. replace (Z.to_nat (Z.of_nat i + 1) - i) with 1 by lia.
        cbn [firstn map concat]. rewrite app_nil_r.
        rewrite firstn_app. replace (n - total - length (rows d)) with 0 by lia.
        cbn [firstn]. rewrite app_nil_r. reflexivity.
      + replace (Some (Z.of_nat i)) with (Some (Z.of_nat (S i) - 1)%Z) in H by (f_equal; lia).
        assert (Hge := head_loop_ge _ _ _ _ _ H).
        apply IH in H; [|eapply wf_incl; [exact Hwf|apply incl_tl, incl_refl]].
        replace (Z.to_nat (z + 1) - i) with (S (Z.to_nat (z + 1) - S i)) by lia.
        cbn [firstn map concat].
        replace (n - total) with (length (rows d) + (n - (total + nrows d))) by lia.
        rewrite !firstn_app_2. f_equal. exact H.
  Qed.

  Lemma head_loop_some : forall rgs i total n,
    exists z, head_loop nrows rgs i total n (Some (Z.of_nat i - 1)%Z) = Some z /\
              (rgs = [] -> z = (Z.of_nat i - 1)%Z) /\ (rgs <> [] -> (Z.of_nat i <= z)%Z).
  Proof.
    induction rgs as [|d rgs IH]; intros i total n; cbn [Read.head_loop].
    - eexists. split; [reflexivity|]. split; [reflexivity|congruence].
    - destruct (n <=? total + nrows d).
      + eexists. split; [reflexivity|]. split; [discriminate|lia].
      + destruct (IH (S i) (total + nrows d) n) as [z [Hz [H1 H2]]].
        replace (Some (Z.of_nat i)) with (Some (Z.of_nat (S i) - 1)%Z) by (f_equal; lia).
        exists z. split; [exact Hz|]. split; [discriminate|]. intros _.
        apply head_loop_ge in Hz. lia.
  Qed.

  (* head(n) = the first n rows of the full read, for every n and every dataset (repaired code) *)
  Theorem head_spec : forall (h : handle) n o, wf (h_rgs h) ->
    head neqb rows nrows h n o = bind (to_pandas h o) (fun f => Ok (frame_head n f)).
  Proof.
    intros h n o H. unfold head, head_gen.
    destruct (head_loop_some (h_rgs h) 0 0 n) as [z [Hz [H1 H2]]].
    change (Some (Z.of_nat 0 - 1)%Z) with (Some (-1)%Z) in Hz. rewrite Hz.
    assert (Hz0 : (0 <= z + 1)%Z).
    { destruct (h_rgs h); [rewrite H1 by reflexivity; lia|]. assert (0 <= z)%Z by (apply H2; discriminate). lia. }
    unfold getitem_slice. rewrite py_slice_prefix by exact Hz0. cbn [bind].
    set (pre := firstn (Z.to_nat (z + 1)) (h_rgs h)).
    assert (Hpre : wf pre) by (eapply wf_incl; [exact H|apply firstn_incl]).
    rewrite to_pandas_wf by exact Hpre. rewrite to_pandas_wf by exact H.
    assert (Hcols : out_columns (with_rgs h pre) o = out_columns h o).
    { destruct (h_rgs h) as [|d0 l0] eqn:E.
      - subst pre. rewrite firstn_nil. rewrite <- E. rewrite with_rgs_same. reflexivity.
      - rewrite <- (with_rgs_same h) at 2. apply out_columns_nonempty_irrel; [|rewrite E; discriminate].
        subst pre. assert (0 <= z)%Z by (apply H2; discriminate).
        replace (Z.to_nat (z + 1)) with (S (Z.to_nat z)) by lia. cbn. discriminate. }
    rewrite Hcols. destruct (out_columns h o) as [ci|e]; [|reflexivity]. cbn [bind].
    unfold frame_head. cbn [f_cols f_index f_rows]. f_equal. f_equal.
    change (Some (-1)%Z) with (Some (Z.of_nat 0 - 1)%Z) in Hz.
    apply head_loop_spec in Hz; [|exact H]. rewrite !Nat.sub_0_r in Hz.
    unfold full. fold pre in Hz. change (h_rgs (with_rgs h pre)) with pre. rewrite !firstn_map, Hz. reflexivity.
  Qed.

  (* the pinned tree: no row group -> the loop variable is unbound *)
  Theorem head_pinned_empty : forall (h : handle) n o, h_rgs h = [] ->
    head_pinned neqb rows nrows h n o = Fail UnboundLocalError.
  Proof. intros h n o E. unfold head_pinned, head_gen. rewrite E. reflexivity. Qed.

  Theorem head_pinned_nonempty : forall (h : handle) n o, h_rgs h <> [] ->
    head_pinned neqb rows nrows h n o = head neqb rows nrows h n o.
  Proof.
    intros h n o E. unfold head_pinned, head, head_gen. destruct (h_rgs h) as [|d l]; [contradiction|].
    cbn [Read.head_loop]. destruct (n <=? 0 + nrows d); reflexivity.
  Qed.

  (* ---------------- counts -------------------------------------------------------------------- *)

  Theorem count_is_rows_read : forall (h : handle) o f, to_pandas h o = Ok f -> length (f_rows f) = count nrows h.
  Proof.
    intros h o f Hf. unfold Read.to_pandas in Hf. destruct (out_columns h o); [|discriminate]. cbn [bind] in Hf.
    destruct (read_rows (h_rgs h)) as [rs|] eqn:E; [|discriminate]. injection Hf as <-. cbn [f_rows].
    assert (Hwf := read_rows_some_wf _ _ E). rewrite read_rows_full in E by exact Hwf. injection E as <-.
    unfold count, full. rewrite map_length. symmetry. apply wf_count, Hwf.
  Qed.

  Theorem len_slice : forall (h h' : handle) s, getitem_slice h s = Ok h' ->
    exists start step n, slice_adjust (Z.of_nat (len h)) s = Some (start, step, n) /\ len h' = Z.to_nat n.
  Proof.
    intros h h' s H. unfold getitem_slice in H. destruct (py_slice s (h_rgs h)) as [l|] eqn:E; [|discriminate].
    injection H as <-. apply py_slice_spec in E. destruct E as [start [step [n [E1 [E2 _]]]]].
    exists start, step, n. split; [exact E1|exact E2].
  Qed.

End ReadProofs.

(* ------------------------------------------------------------------------------------------
   access programs: any composition of handle operations followed by any read               *)
From Pq Require Import Dataset.ReadSpec.

Lemma chunks_concat : forall A (ls : list (list A)), chunks (map (@length A) ls) (concat ls) = ls.
Proof.
  intros A ls. induction ls as [|l ls IH]; [reflexivity|]. cbn [map concat chunks].
  rewrite firstn_app, firstn_all, Nat.sub_diag. cbn [firstn]. rewrite app_nil_r.
  rewrite skipn_app, skipn_all, Nat.sub_diag. cbn [skipn app]. rewrite IH. reflexivity.
Qed.

Lemma keep_mask_map : forall A B (f : A -> B) m (l : list A), keep_mask m (map f l) = map f (keep_mask m l).
Proof.
  intros A B f m. induction m as [|b m IH]; intros [|x l]; cbn; try reflexivity.
  destruct b; cbn; rewrite IH; reflexivity.
Qed.

Lemma keep_mask_incl : forall A m (l : list A), incl (keep_mask m l) l.
Proof.
  intros A m. induction m as [|b m IH]; intros [|x l]; cbn; try (intros y []).
  destruct b.
  - intros y [<-|Hy]; [left; reflexivity|right; apply IH; exact Hy].
  - intros y Hy. right. apply IH. exact Hy.
Qed.

(* what the decision vector means: the row groups whose decision is `true`, in order *)
Lemma keep_mask_meaning : forall A m (l : list A), keep_mask m l = map fst (filter snd (combine l m)).
Proof.
  intros A m. induction m as [|b m IH]; intros [|x l]; cbn; try reflexivity.
  destruct b; cbn; rewrite IH; reflexivity.
Qed.

Lemma sel_hop_map : forall A B (f : A -> B) op l,
  sel_hop op (map f l) = bind (sel_hop op l) (fun r => Ok (map f r)).
Proof.
  intros A B f op l. destruct op as [s|i| | | |m]; cbn [sel_hop bind]; try reflexivity.
  - rewrite py_slice_map. destruct (py_slice s l); reflexivity.
  - rewrite py_pick_map. destruct (py_pick i l); reflexivity.
  - rewrite keep_mask_map. reflexivity.
Qed.

Lemma sel_hops_map : forall A B (f : A -> B) ops l,
  sel_hops ops (map f l) = bind (sel_hops ops l) (fun r => Ok (map f r)).
Proof.
  intros A B f ops. induction ops as [|op ops IH]; intros l; [reflexivity|].
  cbn [sel_hops]. rewrite sel_hop_map. destruct (sel_hop op l) as [r|e]; [|reflexivity].
  cbn [bind]. apply IH.
Qed.

Lemma sel_hop_incl : forall A op (l r : list A), sel_hop op l = Ok r -> incl r l.
Proof.
  intros A op l r H. destruct op as [s|i| | | |m]; cbn [sel_hop] in H.
  - destruct (py_slice s l) eqn:E; [|discriminate]. injection H as <-. eapply py_slice_incl; eauto.
  - destruct (py_pick i l) eqn:E; [|discriminate]. injection H as <-. intros x [<-|[]]. eapply py_pick_In; eauto.
  - injection H as <-. apply incl_refl.
  - injection H as <-. apply incl_refl.
  - injection H as <-. apply incl_refl.
  - injection H as <-. apply keep_mask_incl.
Qed.

Lemma sel_hops_incl : forall A ops (l r : list A), sel_hops ops l = Ok r -> incl r l.
Proof.
  intros A ops. induction ops as [|op ops IH]; intros l r H.
  - injection H as <-. apply incl_refl.
  - cbn [sel_hops] in H. destruct (sel_hop op l) as [m|e] eqn:E; [|discriminate]. cbn [bind] in H.
    eapply incl_tran; [eapply IH; eauto|eapply sel_hop_incl; eauto].
Qed.

Section Programs.
  Variables D R Name B : Type.
  Variable deqb : D -> D -> bool.
  Variable neqb : Name -> Name -> bool.
  Variable rows : D -> list R.
  Variable nrows : D -> nat.
  Variable ser : list D -> B.
  Variable deser : B -> option (list D).
  Hypothesis neqb_spec : forall a b, reflect (a = b) (neqb a b).
  Hypothesis deqb_spec : forall a b, reflect (a = b) (deqb a b).
  Hypothesis ser_roundtrip : forall l, deser (ser l) = Some l.     (* C10: from_buffer (to_bytes x) = x *)

  Notation wf := (wf D R rows nrows).
  Notation handle := (handle D Name).

  Lemma with_rgs_with_rgs : forall (h : handle) l l', with_rgs (with_rgs h l) l' = with_rgs h l'.
  Proof. reflexivity. Qed.

  Lemma apply_hops_sel : forall ops (h : handle),
    apply_hops ser deser h ops = bind (sel_hops ops (h_rgs h)) (fun l => Ok (with_rgs h l)).
  Proof.
    induction ops as [|op ops IH]; intros h.
    - cbn. rewrite with_rgs_same. reflexivity.
    - cbn [apply_hops sel_hops].
      assert (E : apply_hop ser deser h op = bind (sel_hop op (h_rgs h)) (fun l => Ok (with_rgs h l))).
      { destruct op as [s|i| | | |m]; cbn [apply_hop sel_hop].
        - unfold getitem_slice. destruct (py_slice s (h_rgs h)); reflexivity.
        - unfold getitem_pick. destruct (py_pick i (h_rgs h)); reflexivity.
        - unfold pickle. rewrite ser_roundtrip. reflexivity.
        - cbn. rewrite with_rgs_same. reflexivity.
        - cbn. rewrite with_rgs_same. reflexivity.
        - reflexivity. }
      rewrite E. destruct (sel_hop op (h_rgs h)) as [l|e]; [|reflexivity]. cbn [bind].
      rewrite IH. cbn [h_rgs with_rgs]. destruct (sel_hops ops l); reflexivity.
  Qed.

  (* a pickled-and-restored, copied or deep-copied handle IS the handle (given the serialiser's round trip) *)
  Lemma pickle_id : forall (h : handle), pickle ser deser h = Ok h.
  Proof. intros h. unfold pickle. rewrite ser_roundtrip, with_rgs_same. reflexivity. Qed.

  Lemma copies_id : forall (h : handle) op, op = HPickle \/ op = HCopy \/ op = HDeepcopy ->
    apply_hop ser deser h op = Ok h.
  Proof.
    intros h op H. destruct H as [E|[E|E]]; subst op; cbn [apply_hop]; [apply pickle_id|reflexivity|reflexivity].
  Qed.

  Lemma out_columns_shape : forall D1 D2 (l1 : list D1) (l2 : list D2) c p i o,
    (l1 = [] <-> l2 = []) ->
    out_columns neqb (mk_handle l1 c p i) o = out_columns neqb (mk_handle l2 c p i) o.
  Proof.
    intros D1 D2 l1 l2 c p i o H. unfold out_columns, out_columns_gen, cats_of. cbn [h_rgs h_cols h_pcols h_index].
    destruct l1, l2; try reflexivity.
    - destruct H as [H _]. specialize (H eq_refl). discriminate.
    - destruct H as [_ H]. specialize (H eq_refl). discriminate.
  Qed.

  Lemma iter_frames_eq : forall (ci : list Name * list Name) l,
    filter (fun f : frame R Name => negb (frame_empty f))
           (map (fun d => mk_frame (fst ci) (snd ci) (map Some (rows d))) l)
    = map (fun p => mk_frame (fst ci) (snd ci) (map Some p))
          (filter (fun p => nonempty p && nonempty (fst ci)) (map rows l)).
  Proof.
    intros ci l. induction l as [|d l IH]; [reflexivity|]. cbn [map filter].
    unfold frame_empty at 1. cbn [f_rows f_cols].
    destruct (rows d); cbn [map nonempty andb negb]; [exact IH|].
    destruct (fst ci); cbn [nonempty negb map]; [exact IH|]. rewrite IH. reflexivity.
  Qed.

  Lemma run_rd_spec : forall (h : handle) r, wf (h_rgs h) ->
    run_rd deqb neqb rows nrows h r
    = spec_out neqb (h_cols h) (h_pcols h) (h_index h) (map rows (h_rgs h)) r.
  Proof.
    intros h r H.
    assert (Hc : forall o, out_columns neqb h o
                 = out_columns neqb (mk_handle (map rows (h_rgs h)) (h_cols h) (h_pcols h) (h_index h)) o).
    { intros o. destruct h as [l c p i]. apply out_columns_shape. cbn. destruct l; cbn; split; congruence. }
    destruct r as [o|o|n o| |]; cbn [run_rd spec_out].
    - rewrite to_pandas_wf by exact H. rewrite Hc.
      destruct (out_columns neqb _ o); reflexivity.
    - rewrite iter_spec by first [exact H | exact deqb_spec | exact neqb_spec].
      rewrite Hc. clear Hc H.
      destruct (h_rgs h) as [|d0 l0]; [reflexivity|].
      destruct (out_columns neqb _ o) as [ci|e]; [|reflexivity].
      cbn [bind map]. change (rows d0 :: map rows l0) with (map rows (d0 :: l0)).
      rewrite <- iter_frames_eq. reflexivity.
    - rewrite head_spec by first [exact H | exact deqb_spec | exact neqb_spec].
      rewrite to_pandas_wf by exact H. rewrite Hc.
      destruct (out_columns neqb _ o); reflexivity.
    - unfold count. rewrite (wf_count D R rows nrows) by exact H. reflexivity.
    - unfold len. rewrite map_length. reflexivity.
  Qed.

  Lemma wf_parts : forall l, wf l -> map rows l = chunks (map nrows l) (concat (map rows l)).
  Proof.
    intros l H. rewrite <- (chunks_concat _ (map rows l)) at 1. f_equal. rewrite map_map.
    apply map_ext_in. intros d Hd. symmetry. apply H, Hd.
  Qed.

  (* EVERY access program returns exactly the corresponding part of the full read *)
  Theorem programs_spec : forall (h : handle) ops r, wf (h_rgs h) ->
    run_prog deqb neqb rows nrows ser deser h ops r
    = spec_run neqb (h_cols h) (h_pcols h) (h_index h)
               (chunks (map nrows (h_rgs h)) (concat (map rows (h_rgs h)))) ops r.
  Proof.
    intros h ops r H. unfold run_prog, spec_run. rewrite apply_hops_sel, <- wf_parts by exact H.
    rewrite sel_hops_map. destruct (sel_hops ops (h_rgs h)) as [l|e] eqn:E; [|reflexivity].
    cbn [bind]. rewrite run_rd_spec; [reflexivity|].
    cbn [h_rgs with_rgs]. eapply wf_incl; [exact H|eapply sel_hops_incl; eauto].
  Qed.
End Programs.
