(* MAP columns: the two leaf columns (key, value) of a MAP<required key, optional/required value>
   column shred and assemble like LIST columns of the same repetition structure; the map is the
   row-wise pairing of the k-th key with the k-th value.
   Spec: assemble_map_spec inverts shred_map.  Impl: core.read_row_group_arrays' dict(zip(k, v))
   (zip_maps) on the two assembled object arrays yields exactly those pairs. *)
From Coq Require Import NArith List Bool Lia.
From Pq Require Import Format.Nested Impl.CAssemble Proofs.NestedProofs Proofs.CAssembleProofs
  Proofs.CAssemblePagesProofs.
Import ListNotations.
Open Scope N_scope.

Section M.
Variables K V : Type.
Variable sh : shape.

Lemma wf_keys : forall r : map_row K V, wf_map_row sh r = true -> wf_row (key_shape sh) (keys_of r) = true.
Proof.
  intros [l|] H.
  - clear H. cbn. induction l as [|kv l IH]; [reflexivity|]. cbn. exact IH.
  - exact H.
Qed.

Lemma wf_keys_rows : forall rows : list (map_row K V),
  forallb (wf_map_row sh) rows = true -> wf_rows (key_shape sh) (map keys_of rows) = true.
Proof.
  induction rows as [|r rows IH]; intros H; [reflexivity|].
  cbn [forallb] in H. apply andb_prop in H. destruct H as [H1 H2].
  cbn [map wf_rows forallb]. rewrite (wf_keys r H1). exact (IH H2).
Qed.

Lemma wf_vals_rows : forall rows : list (map_row K V),
  forallb (wf_map_row sh) rows = true -> wf_rows sh (map vals_of rows) = true.
Proof.
  induction rows as [|r rows IH]; intros H; [reflexivity|].
  cbn [forallb] in H. apply andb_prop in H. destruct H as [H1 H2].
  cbn [map wf_rows forallb]. unfold wf_map_row in H1. rewrite H1. exact (IH H2).
Qed.

Lemma zip_kv_split : forall l : list (K * option V),
  zip_kv (map (fun kv => Some (fst kv)) l) (map snd l) = Some l.
Proof.
  induction l as [|[k v] l IH]; [reflexivity|]. cbn. rewrite IH. reflexivity.
Qed.

Lemma zip_rows_split : forall rows : list (map_row K V),
  zip_rows (map keys_of rows) (map vals_of rows) = Some rows.
Proof.
  induction rows as [|r rows IH]; [reflexivity|].
  cbn [map zip_rows]. rewrite IH. destruct r as [l|]; cbn.
  - rewrite zip_kv_split. reflexivity.
  - reflexivity.
Qed.

(* spec: assembling the two shredded leaf columns and pairing gives the maps back *)
Theorem assemble_map_shred : forall rows : list (map_row K V),
  forallb (wf_map_row sh) rows = true ->
  assemble_map_spec sh (fst (shred_map sh rows)) (snd (shred_map sh rows)) = Some rows.
Proof.
  intros rows W. unfold assemble_map_spec, shred_map. cbn [fst snd].
  pose proof (assemble_shred K (key_shape sh) (map keys_of rows) (wf_keys_rows rows W)) as Ek.
  pose proof (assemble_shred V sh (map vals_of rows) (wf_vals_rows rows W)) as Ev.
  rewrite Ek, Ev. apply zip_rows_split.
Qed.

(* impl: dict(zip(k, v)) if k is not None else None, on arrays the spec pairing accepts *)
Definition pairs_of (r : map_row K V) : option (list (elem K * elem V)) :=
  option_map (map (fun kv => (Some (fst kv), snd kv))) r.

Lemma zip_kv_combine : forall ks vs l, zip_kv ks vs = Some l ->
  combine ks vs = map (fun kv : K * option V => (Some (fst kv), snd kv)) l.
Proof.
  induction ks as [|[k|] ks IH]; intros vs l H; destruct vs as [|v vs]; cbn in H; try discriminate.
  - injection H as <-. reflexivity.
  - destruct (zip_kv ks vs) as [l'|] eqn:E; [|discriminate]. injection H as <-.
    cbn. rewrite (IH vs l' E). reflexivity.
Qed.

Lemma zip_maps_spec : forall (ks : arr K) (vs : arr V) rows,
  zip_rows ks vs = Some rows -> zip_maps ks vs = Some (map pairs_of rows).
Proof.
  unfold zip_maps.
  induction ks as [|k ks IH]; intros vs rows H; destruct vs as [|v vs]; cbn [zip_rows] in H; try discriminate.
  - injection H as <-. reflexivity.
  - destruct (zip_row k v) as [r|] eqn:Er; [|discriminate].
    destruct (zip_rows ks vs) as [rs|] eqn:Es; [|discriminate]. injection H as <-.
    cbn [combine map]. rewrite (IH vs rs Es).
    destruct k as [kl|]; destruct v as [vl|]; cbn in Er; try discriminate.
    + destruct (zip_kv kl vl) as [l|] eqn:E; [|discriminate]. injection Er as <-.
      cbn. rewrite (zip_kv_combine kl vl l E). reflexivity.
    + injection Er as <-. reflexivity.
Qed.

(* the whole MAP read: both leaf chunks cut into good v1 pages, assembled, zipped *)
Theorem map_pages_v1 : forall (rows : list (map_row K V)) (kpages : list (page K)) (vpages : list (page V)),
  forallb (wf_map_row sh) rows = true ->
  pages_stream kpages = fst (shred_map sh rows) -> pages_stream vpages = snd (shred_map sh rows) ->
  pages_aligned (key_shape sh) kpages = true -> good_split (key_shape sh) kpages = true ->
  pages_aligned sh vpages = true -> good_split sh vpages = true ->
  match run_v1 (key_shape sh) (length rows) kpages, run_v1 sh (length rows) vpages with
  | AOk ka, AOk va => zip_maps ka va = Some (map pairs_of rows)
  | _, _ => False
  end.
Proof.
  intros rows kpages vpages W Hk Hv Ak Gk Av Gv. unfold shred_map in Hk, Hv. cbn [fst snd] in Hk, Hv.
  pose proof (pages_v1_shred K (key_shape sh) (map keys_of rows) kpages (wf_keys_rows rows W) Hk Ak Gk) as Rk.
  pose proof (pages_v1_shred V sh (map vals_of rows) vpages (wf_vals_rows rows W) Hv Av Gv) as Rv.
  rewrite map_length in Rk, Rv. rewrite Rk, Rv.
  apply zip_maps_spec. apply zip_rows_split.
Qed.

End M.
