(* C15: shapes the one-level assembly does NOT represent.
   1. A LIST / MAP below a REPEATED group has two repetition levels (1 = next collection of the row, 2 = next element of the
      collection).  The loop of _assemble_objects only asks `rep == 0`: both are "continue the row", so two different records
      give the same cell.  core._nested_levels refuses such a column (NotImplementedError) - model `refuses`.
   2. Two-level legacy lists (group NAME (LIST) { repeated <primitive> element }): schema._is_list_like wants a path of at
      least three names with a repeated middle group; anything else is "not a list", the chunk is skipped by
      read_row_group_arrays and the exposed column is filled with None (`column_cells`). *)
From Coq Require Import NArith List Bool Arith.
From Pq Require Import Format.Nested Impl.CAssemble Impl.CShapes Proofs.NestedProofs.
Import ListNotations.

Theorem two_rep_levels_merged_refuted :
  exists (sh : shape) (es1 es2 : list entry) (vs : list N) (r : list (row N)),
    es1 <> es2 /\ map snd es1 = map snd es2 /\
    run_v1_py sh 1 [(es1, vs)] = AOk r /\ run_v1_py sh 1 [(es2, vs)] = AOk r /\
    refuses [REPEATED; OPTIONAL; REPEATED; OPTIONAL] = true /\
    refuses [OPTIONAL; REPEATED; OPTIONAL] = false.
Proof.
  exists (mkShape true true), [(0, 3); (1, 3)]%N, [(0, 3); (2, 3)]%N, [7; 8]%N, [Some [Some 7; Some 8]]%N.
  repeat split; try (vm_compute; reflexivity). intros H; discriminate H.
Qed.

Theorem two_level_list_refuted :
  exists (rows : list (row N)),
    (* a legal two-level LIST<required int>: its level streams are those of the three-level shape with a required element ... *)
    wf_rows (mkShape true false) rows = true /\
    assemble_spec (mkShape true false) (fst (shred (mkShape true false) rows)) (snd (shred (mkShape true false) rows)) = Some rows /\
    (* ... its path has two names, so whatever the other facts are it is not list-like ... *)
    (forall a n1 n2 mid leaf, is_list_like 2 a n1 n2 mid leaf = false) /\
    (* ... and the column handed out is None in every row, which is not the rows *)
    column_cells false rows (length rows) <> map Some rows.
Proof.
  exists [Some [Some 1; Some 2]; None; Some []]%N.
  repeat split; try (vm_compute; reflexivity).
  intros H; vm_compute in H; discriminate H.
Qed.

(* the standard three-level shapes ARE list-like *)
Lemma standard_is_list_like leaf : leaf <> REPEATED -> is_list_like 3 true 1 1 REPEATED leaf = true.
Proof. destruct leaf; intros H; [reflexivity|reflexivity|congruence]. Qed.
