From Coq Require Import NArith Arith List Lia.
From Pq Require Import Base.Err.
Import ListNotations.

Section Loop.
  Variable St : Type.
  Variable done : St -> bool.
  Variable step : St -> res St.

  Lemma iter_done n s : done s = true -> iter done step n s = Ok s.
  Proof. intros H. destruct n; cbn; now rewrite H. Qed.

  Lemma iter_add a b s :
    iter done step (a + b) s = match iter done step a s with Ok s' => iter done step b s' | e => e end.
  Proof.
    revert s; induction a as [|a IH]; intros s.
    - cbn [Nat.add iter]. destruct (done s) eqn:E; [|reflexivity].
      now rewrite iter_done.
    - cbn [Nat.add iter]. destruct (done s) eqn:E.
      + now rewrite iter_done.
      + destruct (step s); try reflexivity. apply IH.
  Qed.

  Lemma loop_iter p s : loop done step p s = iter done step (2 ^ depth p) s.
  Proof.
    revert s; induction p as [q IH|q IH|]; intros s.
    - cbn [loop depth]. rewrite Nat.pow_succ_r'.
      replace (2 * 2 ^ depth q)%nat with (2 ^ depth q + 2 ^ depth q)%nat by lia.
      rewrite iter_add. destruct (done s) eqn:E.
      + rewrite iter_done by exact E. now rewrite iter_done.
      + rewrite IH. destruct (iter done step (2 ^ depth q) s); try reflexivity. apply IH.
    - cbn [loop depth]. rewrite Nat.pow_succ_r'.
      replace (2 * 2 ^ depth q)%nat with (2 ^ depth q + 2 ^ depth q)%nat by lia.
      rewrite iter_add. destruct (done s) eqn:E.
      + rewrite iter_done by exact E. now rewrite iter_done.
      + rewrite IH. destruct (iter done step (2 ^ depth q) s); try reflexivity. apply IH.
    - cbn. destruct (done s); [reflexivity|]. destruct (step s) as [s'| | |]; try reflexivity.
      now destruct (done s').
  Qed.

  (* The work-horse: an invariant preserved by every step that does not fail, and a measure that
     strictly decreases, give a final state that is done and satisfies the invariant. *)
  Lemma iter_inv (I : St -> Prop) (m : St -> nat) :
    (forall s, I s -> done s = false -> exists s', step s = Ok s' /\ I s' /\ (m s' < m s)%nat) ->
    forall n s, I s -> (m s <= n)%nat -> exists s', iter done step n s = Ok s' /\ I s' /\ done s' = true.
  Proof.
    intros Hstep n; induction n as [|n IH]; intros s Hi Hm.
    - cbn. destruct (done s) eqn:E.
      + now exists s.
      + destruct (Hstep s Hi E) as (s' & _ & _ & Hlt). lia.
    - cbn. destruct (done s) eqn:E.
      + now exists s.
      + destruct (Hstep s Hi E) as (s' & Hs & Hi' & Hlt). rewrite Hs. apply IH; [assumption|lia].
  Qed.

  Lemma run_loop_inv (I : St -> Prop) (m : St -> nat) p :
    (forall s, I s -> done s = false -> exists s', step s = Ok s' /\ I s' /\ (m s' < m s)%nat) ->
    forall s, I s -> (m s <= 2 ^ depth p)%nat -> exists s', run_loop done step p s = Ok s' /\ I s' /\ done s' = true.
  Proof.
    intros Hstep s Hi Hm. unfold run_loop. rewrite loop_iter.
    destruct (iter_inv I m Hstep _ s Hi Hm) as (s' & E & Hi' & Hd).
    exists s'. rewrite E, Hd. auto.
  Qed.

  (* a failing step reached through non-failing, invariant-preserving steps makes the loop fail *)
  Lemma iter_fails n s e :
    done s = false -> step s = e -> is_ok e = false -> iter done step (S n) s = e.
  Proof. intros Hd Hs He. cbn. rewrite Hd, Hs. destruct e; try reflexivity. discriminate. Qed.
End Loop.

Lemma depth_big_fuel : depth big_fuel = 62%nat.
Proof. reflexivity. Qed.
