(* The instant a timestamp column returns does not depend on the unit the 'pandas' entry records, as long as the
   instant is representable in that unit.  (C03) *)
From Coq Require Import ZArith Bool Lia.
From Pq Require Import Impl.RConvert Impl.WConvert Impl.RAlloc.
Local Open Scope Z_scope.
Ltac Zify.zify_post_hook ::= Z.to_euclidean_division_equations.

Theorem read_ts_instant recorded stored v :
  v <> NATZ ->
  (v * ns_per (unit_of_stored stored)) mod ns_per (alloc_unit recorded stored) = 0 ->
  instant_ns (read_ts recorded stored v) = v * ns_per (unit_of_stored stored).
Proof.
  intros Hn Hm. unfold read_ts, instant_ns, assign_cast. cbn [fst snd].
  assert (E : (v =? NATZ) = false) by (apply Z.eqb_neq; exact Hn). rewrite E.
  destruct recorded as [[| | |]|]; destruct stored; cbn [alloc_unit unit_of_stored ns_per Z.leb Z.compare Pos.compare Pos.compare_cont] in *;
    try (cbn; lia);
    repeat match goal with |- context [?a / ?b] => let q := eval vm_compute in (a / b) in change (a / b) with q end; lia.
Qed.

(* no entry, or an entry recording a unit at least as fine as the stored one: always representable *)
Corollary read_ts_instant_finer recorded stored v :
  v <> NATZ -> ns_per (alloc_unit recorded stored) <= ns_per (unit_of_stored stored) ->
  instant_ns (read_ts recorded stored v) = v * ns_per (unit_of_stored stored).
Proof.
  intros Hn Hf. apply read_ts_instant; [exact Hn|].
  destruct recorded as [[| | |]|]; destruct stored; cbn [alloc_unit unit_of_stored ns_per] in *; lia.
Qed.

Theorem read_ts_nat recorded stored : snd (read_ts recorded stored NATZ) = NATZ.
Proof. reflexivity. Qed.

(* viewing the stored count as the allocated unit (seeded C03-6) changes the instant as soon as the units differ *)
Theorem read_ts_view_refuted :
  exists recorded stored v, v <> NATZ /\
    instant_ns (read_ts_view recorded stored v) <> v * ns_per (unit_of_stored stored) /\
    instant_ns (read_ts recorded stored v) = v * ns_per (unit_of_stored stored).
Proof. exists (Some WNs), TMs, 1600000000000. split; [discriminate|]. split; [vm_compute; discriminate|reflexivity]. Qed.
