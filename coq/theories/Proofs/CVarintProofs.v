(* cencoding.read_unsigned_var_int / encode_unsigned_varint / zigzag (impl models) = the
   specification's ULEB128 and zigzag on the uint64 / int64 domain. *)
From Coq Require Import NArith ZArith Arith List Lia Bool.
From Pq Require Import Base.Bytes Base.Bits Base.Err Base.ListX
  Proofs.BytesProofs Proofs.CodecProofs Codec.Varint Codec.Zigzag Impl.CVarint Impl.CDelta.
Import ListNotations.
Open Scope N_scope.

(* finite case analysis on a byte, by computation *)
Lemma byte_cases (P : N -> bool) :
  forallb P (map N.of_nat (seq 0 256)) = true -> forall b, b < 256 -> P b = true.
Proof.
  intros H b Hb. rewrite forallb_forall in H. apply H.
  apply in_map_iff. exists (N.to_nat b). split; [apply N2Nat.id|]. apply in_seq. lia.
Qed.

Lemma land128 b : b < 256 -> (N.land b 128 =? 0) = (b <? 128).
Proof.
  intros Hb. apply (byte_cases (fun b => Bool.eqb (N.land b 128 =? 0) (b <? 128))) in Hb; [|vm_compute; reflexivity].
  now apply Bool.eqb_prop.
Qed.

Lemma land127 b : N.land b 127 = b mod 128.
Proof. change 127 with (N.ones 7). apply N.land_ones. Qed.

Lemma uleb_dec_shorter inp v rest : uleb_dec inp = Some (v, rest) -> (length rest < length inp)%nat.
Proof.
  revert v rest; induction inp as [|b r IH]; intros v rest H; [discriminate|].
  cbn [uleb_dec] in H. destruct (b <? 128).
  - inversion H; subst. cbn. lia.
  - destruct (uleb_dec r) as [[v' r']|] eqn:E; [|discriminate].
    inversion H; subst. specialize (IH _ _ eq_refl). cbn. lia.
Qed.

Lemma c_varint_f_ok : forall inp shift acc used v rest k,
  bytes_ok inp -> uleb_dec inp = Some (v, rest) ->
  length inp = (k + length rest)%nat -> shift + 7 * N.of_nat k <= 70 ->
  acc < 2 ^ shift -> acc + 2 ^ shift * v < 2 ^ 64 ->
  c_varint_f inp shift acc used = Ok (acc + 2 ^ shift * v, used + N.of_nat k).
Proof.
  induction inp as [|b r IH]; intros shift acc used v rest k Hok Hd Hk Hs Hacc Hv; [discriminate|].
  pose proof (Forall_inv Hok) as Hb. cbv beta in Hb. pose proof (Forall_inv_tail Hok) as Hr.
  cbn [uleb_dec] in Hd. cbn [c_varint_f].
  assert (Hk1 : (1 <= k)%nat).
  { destruct (b <? 128); [inversion Hd; subst; cbn [length] in Hk; lia|].
    destruct (uleb_dec r) as [[v' r']|] eqn:E; [|discriminate]. inversion Hd; subst.
    apply uleb_dec_shorter in E. cbn [length] in Hk. lia. }
  destruct (N.leb_spec 64 shift) as [H64|H64]; [lia|].
  rewrite land128 by exact Hb. unfold m64. rewrite land127, shiftl_mul, land_ones_mod.
  destruct (N.ltb_spec b 128) as [Hlt|Hge].
  - inversion Hd; subst v rest. cbn [length] in Hk. assert (k = 1%nat) by lia. subst k.
    rewrite (N.mod_small b 128) by exact Hlt.
    rewrite (N.mod_small (b * 2 ^ shift)) by (change (2 ^ 64) with 18446744073709551616 in *; nia).
    rewrite <- (N.mod_small acc (2 ^ shift)) at 1 by exact Hacc.
    rewrite lor_disjoint_add, N.mod_small by exact Hacc.
    f_equal. f_equal; lia.
  - destruct (uleb_dec r) as [[v' r']|] eqn:E; [|discriminate]. inversion Hd; subst v rest.
    change (match v' with 0 => 0 | N.pos q => N.pos q~0~0~0~0~0~0~0 end) with (128 * v') in *.
    assert (Hm : b mod 128 = b - 128).
    { replace b with ((b - 128) + 1 * 128) at 1 by lia. rewrite N.mod_add by lia. apply N.mod_small. lia. }
    rewrite Hm.
    assert (Hsm : (b - 128) * 2 ^ shift < 2 ^ 64).
    { change (2 ^ 64) with 18446744073709551616 in *. nia. }
    rewrite (N.mod_small _ _ Hsm).
    rewrite <- (N.mod_small acc (2 ^ shift)) at 1 by exact Hacc.
    rewrite lor_disjoint_add, N.mod_small by exact Hacc.
    cbn [length] in Hk.
    rewrite (IH (shift + 7) _ (used + 1) v' r' (k - 1)%nat); try assumption; try reflexivity; try lia.
    + f_equal. rewrite N.pow_add_r. change (2 ^ 7) with 128. f_equal; lia.
    + rewrite N.pow_add_r. change (2 ^ 7) with 128. pose proof (pow2_pos shift). nia.
    + rewrite N.pow_add_r. change (2 ^ 7) with 128. nia.
Qed.

(* MAIN THEOREM (decoder): whenever the specification's ULEB128 decoder reads a value below 2^64
   from at most 10 bytes, the C routine returns that value and advances by the same bytes, with no
   read outside the input and no shift >= 64. *)
Theorem varint_correct inp v rest :
  bytes_ok inp -> uleb_dec inp = Some (v, rest) -> v < 2 ^ 64 ->
  (length inp - length rest <= 10)%nat ->
  c_varint inp = Ok (v, N.of_nat (length inp - length rest)).
Proof.
  intros Hok Hd Hv Hl. unfold c_varint.
  pose proof (uleb_dec_shorter _ _ _ Hd) as Hs.
  rewrite (c_varint_f_ok inp 0 0 0 v rest (length inp - length rest)); try assumption; try lia.
  f_equal. rewrite N.pow_0_r. f_equal; lia.
Qed.

(* ... in particular on everything the spec encoder produces for a uint64 *)
Corollary varint_reads_spec_encoding n rest :
  n < 2 ^ 64 -> bytes_ok rest ->
  c_varint (uleb_enc n ++ rest) = Ok (n, N.of_nat (length (uleb_enc n))).
Proof.
  intros Hn Hr.
  rewrite (varint_correct _ n rest).
  - f_equal. f_equal. rewrite app_length. f_equal. lia.
  - apply Forall_app. split; [apply uleb_enc_ok|exact Hr].
  - apply uleb_roundtrip.
  - exact Hn.
  - rewrite app_length. pose proof (uleb_len_u64 n Hn). lia.
Qed.

(* zigzag: the C expression (n >> 1) ^ -(n & 1) on uint64, read as int64, is the specification's mapping *)
Lemma lxor_ones64 x : x < 2 ^ 64 -> N.lxor x (N.ones 64) = N.ones 64 - x.
Proof.
  intros H. change (N.lxor x (N.ones 64)) with (N.lnot x 64).
  destruct (N.eq_dec x 0) as [E|E]; [subst; reflexivity|].
  apply N.lnot_sub_low. apply N.log2_lt_pow2; [lia|exact H].
Qed.

Ltac Zify.zify_post_hook ::= Z.to_euclidean_division_equations.
Theorem zigzag_long_correct n : n < 2 ^ 64 -> s64 (c_zigzag_long n) = zz_dec n.
Proof.
  intros H. unfold c_zigzag_long, zz_dec, s64.
  assert (E1 : N.land n 1 = n mod 2) by exact (N.land_ones n 1).
  rewrite E1, shiftr_div. change (2 ^ 1) with 2.
  change (2 ^ 64) with 18446744073709551616 in *. change (2 ^ 63) with 9223372036854775808.
  destruct (N.eqb_spec (n mod 2) 0) as [E|E].
  - rewrite N.lxor_0_r.
    destruct (N.ltb_spec (n / 2) 9223372036854775808); [|lia].
    destruct (Z.eqb_spec (Z.of_N n mod 2) 0); lia.
  - unfold m64. rewrite lxor_ones64 by (change (2 ^ 64) with 18446744073709551616; lia).
    change (N.ones 64) with 18446744073709551615.
    destruct (N.ltb_spec (18446744073709551615 - n / 2) 9223372036854775808); [lia|].
    destruct (Z.eqb_spec (Z.of_N n mod 2) 0); lia.
Qed.
Ltac Zify.zify_post_hook ::= idtac.
