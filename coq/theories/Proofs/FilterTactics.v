(* Automation for the soundness of the (translated) leaf decisions.  Nothing here mentions the
   shape of filter_val / filter_in / filter_not_in: the text is evaluated symbolically (cbv with the
   integer comparisons and the list primitives kept folded, the list primitives then rewritten to
   functions on `list Z`), every comparison is split by its specification, order facts about
   sorted()/searchsorted() are added for whatever terms occur, and lia closes the goals.  A rewrite
   that keeps the decision (reordered blocks, or-ed comparisons instead of `in [...]`) goes through;
   a change of the decision leaves a goal open. *)
From Coq Require Import ZArith List String Bool Lia.
From Pq Require Import Base.PyVal Impl.Filter Proofs.PyValProofs.
Import ListNotations.
Open Scope Z_scope.

Ltac zcases :=
  repeat match goal with
  | H : context [Z.gtb ?a ?b] |- _ => destruct (Z.gtb_spec a b)
  | H : context [Z.geb ?a ?b] |- _ => destruct (Z.geb_spec a b)
  | H : context [Z.ltb ?a ?b] |- _ => destruct (Z.ltb_spec a b)
  | H : context [Z.leb ?a ?b] |- _ => destruct (Z.leb_spec a b)
  | H : context [Z.eqb ?a ?b] |- _ => destruct (Z.eqb_spec a b)
  | |- context [Z.gtb ?a ?b] => destruct (Z.gtb_spec a b)
  | |- context [Z.geb ?a ?b] => destruct (Z.geb_spec a b)
  | |- context [Z.ltb ?a ?b] => destruct (Z.ltb_spec a b)
  | |- context [Z.leb ?a ?b] => destruct (Z.leb_spec a b)
  | |- context [Z.eqb ?a ?b] => destruct (Z.eqb_spec a b)
  end.

Ltac pycbv_goal :=
  cbv -[Z.ltb Z.leb Z.gtb Z.geb Z.eqb Z.of_nat List.length last ints zmem zsort zcount
        py_len py_in py_not_in py_sorted py_index py_searchsorted_left py_searchsorted_right].

(* list primitives on an abstract list of integers become functions on `list Z` *)
Ltac list_rw H := first
  [ rewrite py_len_ints in H | rewrite py_in_ints in H | rewrite py_not_in_ints in H
  | rewrite py_sorted_ints in H | rewrite py_ss_left_ints in H | rewrite py_ss_right_ints in H
  | rewrite py_index0_ints in H | rewrite py_index_m1_ints in H ].

(* the call at the head of a bind: all its arguments are values by now; compute it *)
Ltac eval_call H :=
  match type of H with
  | context [match ?p with Ok _ => _ | Err _ => _ end] =>
    lazymatch p with
    | Ok _ => fail
    | Err _ => fail
    | match _ with _ => _ end => fail
    | _ => idtac
    end;
    let r := eval cbv -[Z.ltb Z.leb Z.gtb Z.geb Z.eqb Z.of_nat List.length last ints zmem zsort zcount] in p in
    lazymatch r with
    | Ok _ => idtac
    | Err _ => idtac
    end;
    change p with r in H
  end.

(* split ONE undecided test occurring in H by its specification *)
Ltac split_test H :=
  match type of H with
  | context [if Z.gtb ?a ?b then _ else _] => destruct (Z.gtb_spec a b)
  | context [if Z.geb ?a ?b then _ else _] => destruct (Z.geb_spec a b)
  | context [if Z.ltb ?a ?b then _ else _] => destruct (Z.ltb_spec a b)
  | context [if Z.leb ?a ?b then _ else _] => destruct (Z.leb_spec a b)
  | context [if Z.eqb ?a ?b then _ else _] => destruct (Z.eqb_spec a b)
  | context [if zmem ?a ?l then _ else _] => let M := fresh "Hm" in destruct (zmem a l) eqn:M
  | context [match zsort ?l with _ => _ end] => let E := fresh "Esort" in destruct (zsort l) eqn:E
  end.

Ltac py_red H := cbn [bind truthy ok_true negb] in H.

(* symbolic execution of the translated text in H (the leaf functions already unfolded) *)
Ltac py_eval H :=
  py_red H;
  repeat (first [ list_rw H | eval_call H | split_test H ]; py_red H; try discriminate H).

(* order facts for whatever sorted()/searchsorted() terms are around *)
Ltac list_facts :=
  repeat match goal with
  | H : zmem ?a ?l = true |- _ => apply zmem_In in H
  | H : zmem ?a ?l = false |- _ =>
    let N := fresh "Hnotin" in
    assert (~ In a l) as N by (intros N; apply zmem_In in N; congruence); clear H
  end;
  repeat match goal with
  | Hin : In ?z ?vs, E : zsort ?vs = [] |- _ =>
    exfalso; apply (zsort_in z vs) in Hin; rewrite E in Hin; exact Hin
  | Hin : In ?z ?vs, E : zsort ?vs = ?h :: ?r |- _ =>
    lazymatch goal with
    | _ : h <= z |- _ => fail
    | _ => let F := fresh "Fhd" in let G := fresh "Flast" in
           assert (h <= z) as F by
             (apply (zsorted_hd h r z); [rewrite <- E; apply zsort_sorted | rewrite <- E; apply zsort_in; exact Hin]);
           assert (z <= last (h :: r) 0) as G by
             (apply zsorted_last; [rewrite <- E; apply zsort_sorted | rewrite <- E; apply zsort_in; exact Hin])
    end
  | Hin : In ?z ?vs, E : zcount (fun y1 => y1 <? ?a) (zsort ?vs) = zcount (fun y2 => y2 <=? ?b) (zsort ?vs) |- _ =>
    lazymatch goal with
    | _ : (a <= z -> z <= b -> False) |- _ => fail
    | _ => let F := fresh "Fgap" in
           assert (a <= z -> z <= b -> False) as F by
             (apply (zcount_gap (zsort vs) a b z); [apply zsort_sorted | exact E | apply zsort_in; exact Hin])
    end
  | Hin : In ?z ?vs, E : Z.of_nat (List.length ?vs) = 0 |- _ =>
    exfalso; destruct vs; [exact Hin | cbn [List.length] in E; lia]
  end.

Ltac finish :=
  try congruence; try lia; try tauto;
  try (exfalso; match goal with
       | Hn : ~ In ?b ?vs, Hi : In ?z ?vs |- _ => apply Hn; replace b with z by lia; exact Hi
       end).

(* vmin / vmax as filter_out_stats passes them: None, a scalar, a length-1 ndarray *)
Ltac bound_shapes Hlo Hhi :=
  let a := fresh "a" in let b := fresh "b" in let La := fresh "La" in let Lb := fresh "Lb" in
  destruct Hlo as [->|[a [[->| ->] La]]]; destruct Hhi as [->|[b [[->| ->] Lb]]].

(* integer cell: H is the "skip" decision (leaf functions unfolded), the goal is sat ... = false *)
Ltac leaf_scalar_int H :=
  py_eval H; pycbv_goal; zcases; finish.

(* integer cell, `in` / `not in` against a list of integers *)
Ltac leaf_list_int H :=
  py_eval H; pycbv_goal; rewrite ?py_in_ints, ?py_not_in_ints; pycbv_goal;
  match goal with
  | |- context [zmem ?z ?vs] => let M := fresh "Hmem" in destruct (zmem z vs) eqn:M
  end; try reflexivity; exfalso; zcases; try discriminate; list_facts; finish.
