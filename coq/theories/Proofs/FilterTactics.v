(* Automation for the soundness of the (translated) leaf decisions.  Nothing here mentions the
   shape of filter_val / filter_in / filter_not_in: the text is evaluated symbolically (cbv with the
   integer comparisons and the list primitives kept folded; calls on literal lists are computed, the
   list primitives on an abstract list of integers are rewritten to functions on `list Z`), every
   comparison is split by its specification, order facts about sorted()/searchsorted() are added
   for whatever terms occur, and lia closes the goals.  A rewrite that keeps the decision (reordered
   blocks, or-ed comparisons instead of `in [...]`) goes through; a change of the decision leaves a
   goal open. *)
From Coq Require Import ZArith List String Bool Lia.
From Pq Require Import Base.PyVal Impl.Filter Proofs.PyValProofs.
Import ListNotations.
Open Scope Z_scope.

Ltac zcases :=
  repeat match goal with
  | |- context [Z.gtb ?a ?b] => destruct (Z.gtb_spec a b)
  | |- context [Z.geb ?a ?b] => destruct (Z.geb_spec a b)
  | |- context [Z.ltb ?a ?b] => destruct (Z.ltb_spec a b)
  | |- context [Z.leb ?a ?b] => destruct (Z.leb_spec a b)
  | |- context [Z.eqb ?a ?b] => destruct (Z.eqb_spec a b)
  end.

Ltac pycbv H :=
  cbv -[Z.ltb Z.leb Z.gtb Z.geb Z.eqb Z.of_nat List.length last ints zmem zsort zcount
        py_len py_in py_not_in py_sorted py_index py_searchsorted_left py_searchsorted_right] in H.
Ltac pycbv_goal :=
  cbv -[Z.ltb Z.leb Z.gtb Z.geb Z.eqb Z.of_nat List.length last ints zmem zsort zcount
        py_len py_in py_not_in py_sorted py_index py_searchsorted_left py_searchsorted_right].

(* a list primitive called on a literal list (`op in ['==', '>=', '=']`): compute it *)
Ltac eval_lit H :=
  match type of H with
  | context [py_in ?a (PList ?l)] => let t := constr:(py_in a (PList l)) in
      let r := eval cbv -[Z.ltb Z.leb Z.gtb Z.geb Z.eqb] in t in change t with r in H
  | context [py_not_in ?a (PList ?l)] => let t := constr:(py_not_in a (PList l)) in
      let r := eval cbv -[Z.ltb Z.leb Z.gtb Z.geb Z.eqb] in t in change t with r in H
  | context [py_len (PList ?l)] => let t := constr:(py_len (PList l)) in
      let r := eval cbv in t in change t with r in H
  end.

(* list primitives on an abstract list of integers become functions on `list Z` *)
Ltac list_rw H :=
  match type of H with
  | context [py_len (ints ?l)] => rewrite (py_len_ints l) in H
  | context [py_in (PInt ?x) (ints ?l)] => rewrite (py_in_ints x l) in H
  | context [py_not_in (PInt ?x) (ints ?l)] => rewrite (py_not_in_ints x l) in H
  | context [py_sorted (ints ?l)] => rewrite (py_sorted_ints l) in H
  | context [py_searchsorted_left (ints ?l) (PInt ?v)] => rewrite (py_ss_left_ints l v) in H
  | context [py_searchsorted_right (ints ?l) (PInt ?v)] => rewrite (py_ss_right_ints l v) in H
  | context [py_index (ints ?l) (PInt 0)] => rewrite (py_index0_ints l) in H
  | context [py_index (ints ?l) (PInt (-1))] => rewrite (py_index_m1_ints l) in H
  | context [py_index (PArr [?m]) (PInt 0)] => rewrite (py_index_arr1 m) in H
  end.

(* split ONE undecided test occurring in H by its specification *)
Ltac split_test H :=
  match type of H with
  | context [if Z.gtb ?a ?b then _ else _] => destruct (Z.gtb_spec a b)
  | context [if Z.geb ?a ?b then _ else _] => destruct (Z.geb_spec a b)
  | context [if Z.ltb ?a ?b then _ else _] => destruct (Z.ltb_spec a b)
  | context [if Z.leb ?a ?b then _ else _] => destruct (Z.leb_spec a b)
  | context [if Z.eqb ?a ?b then _ else _] => destruct (Z.eqb_spec a b)
  | context [if zmem ?a ?l then _ else _] => let M := fresh "Hm" in destruct (zmem a l) eqn:M
  | context [match zsort ?l with _ => _ end] => let E := fresh "Esort" in destruct (zsort l) eqn:E
  end.

(* a comparison that is the returned value itself (`return a == b`) *)
Ltac split_ret H :=
  match type of H with
  | context [Z.gtb ?a ?b] => destruct (Z.gtb_spec a b)
  | context [Z.geb ?a ?b] => destruct (Z.geb_spec a b)
  | context [Z.ltb ?a ?b] => destruct (Z.ltb_spec a b)
  | context [Z.leb ?a ?b] => destruct (Z.leb_spec a b)
  | context [Z.eqb ?a ?b] => destruct (Z.eqb_spec a b)
  end.

(* symbolic execution of the translated text in H *)
Ltac py_eval H :=
  pycbv H; try discriminate H;
  repeat (first [ eval_lit H | list_rw H | split_test H ]; pycbv H; try discriminate H);
  repeat (split_ret H; try discriminate H).

(* order facts for whatever sorted()/searchsorted() terms are around *)
Ltac list_facts :=
  (* a case split on `sorted(values)` (values[0] / values[-1] evaluated before the searchsorted test) has replaced the
     sorted list by its head and tail in the other facts: put it back *)
  repeat match goal with
  | Es : zsort ?vs = ?h :: ?r, E : context [zcount _ (?h :: ?r)] |- _ => rewrite <- Es in E
  end;
  repeat match goal with
  | H : zmem ?a ?l = true |- _ => apply zmem_In in H
  | H : zmem ?a ?l = false |- _ =>
    let N := fresh "Hnotin" in
    assert (~ In a l) as N by (intros N; apply zmem_In in N; congruence); clear H
  end;
  repeat match goal with
  | Hin : In ?z ?vs, E : zsort ?vs = [] |- _ =>
    exfalso; apply (zsort_in z vs) in Hin; rewrite E in Hin; exact Hin
  | Hin : In ?z ?vs, E : zsort ?vs = ?h :: ?r |- _ =>
    lazymatch goal with
    | _ : h <= z |- _ => fail
    | _ => let F := fresh "Fhd" in let G := fresh "Flast" in
           assert (h <= z) as F by
             (apply (zsorted_hd h r z); [rewrite <- E; apply zsort_sorted | rewrite <- E; apply zsort_in; exact Hin]);
           assert (z <= last (h :: r) 0) as G by
             (apply zsorted_last; [rewrite <- E; apply zsort_sorted | rewrite <- E; apply zsort_in; exact Hin])
    end
  | Hin : In ?z ?vs, E : zcount (fun y1 => y1 <? ?a) (zsort ?vs) = zcount (fun y2 => y2 <=? ?b) (zsort ?vs) |- _ =>
    lazymatch goal with
    | _ : (a <= z -> z <= b -> False) |- _ => fail
    | _ => let F := fresh "Fgap" in
           assert (a <= z -> z <= b -> False) as F by
             (apply (zcount_gap (zsort vs) a b z); [apply zsort_sorted | exact E | apply zsort_in; exact Hin])
    end
  | Hin : In ?z ?vs, E : Z.of_nat (List.length ?vs) = 0 |- _ =>
    exfalso; destruct vs; [exact Hin | cbn [List.length] in E; lia]
  end.

Ltac finish :=
  try congruence; try lia; try tauto;
  try (exfalso; match goal with
       | Hn : ~ In ?b ?vs, Hi : In ?z ?vs |- _ => apply Hn; replace b with z by lia; exact Hi
       end).

(* vmin / vmax as filter_out_stats passes them: None, a scalar, a length-1 ndarray.  The array shapes
   are reduced to the scalar ones by conversion (whatever the code does to unwrap them, the decision
   on `PArr [m]` must be convertible to the decision on `m`; if it is not, the change fails and the
   goal stays open). *)
Ltac unwrap_arrays H :=
  repeat match type of H with
  | ok_true (?f ?o ?c (PArr [?m]) ?hi) = true => change (ok_true (f o c m hi) = true) in H
  | ok_true (?f ?o ?c ?lo (PArr [?m])) = true => change (ok_true (f o c lo m) = true) in H
  end.

Definition lo_core (vmin : pv) (z : Z) : Prop := vmin = PNone \/ exists m, vmin = PInt m /\ m <= z.
Definition hi_core (vmax : pv) (z : Z) : Prop := vmax = PNone \/ exists m, vmax = PInt m /\ z <= m.

Ltac core_shapes Hlo Hhi :=
  let a := fresh "a" in let b := fresh "b" in let La := fresh "La" in let Lb := fresh "Lb" in
  destruct Hlo as [->|[a [-> La]]]; destruct Hhi as [->|[b [-> Lb]]].

(* from the statement over the scalar shapes (core) to the statement over all shapes *)
Ltac lift_core core Hlo Hhi H :=
  let a := fresh "a" in let b := fresh "b" in let La := fresh "La" in let Lb := fresh "Lb" in
  destruct Hlo as [->|[a [[->| ->] La]]]; destruct Hhi as [->|[b [[->| ->] Lb]]];
  unwrap_arrays H;
  (eapply core; [| |exact H]; first [left; reflexivity | right; eexists; split; [reflexivity|eassumption]]).

(* integer cell: H is the "skip" decision, the goal is sat ... = false *)
Ltac leaf_scalar_int H :=
  py_eval H; pycbv_goal; zcases; try reflexivity; finish.

(* integer cell, `in` / `not in` against a list of integers *)
Ltac leaf_list_int H :=
  py_eval H; pycbv_goal; rewrite ?py_in_ints, ?py_not_in_ints; pycbv_goal;
  match goal with
  | |- context [zmem ?z ?vs] => let M := fresh "Hmem" in destruct (zmem z vs) eqn:M
  end; try reflexivity; exfalso; zcases; try discriminate; list_facts; finish.

(* totality: on well-typed arguments the decision is a value, it does not raise.  H : <decision> = Err e *)
Ltac total_case H :=
  py_eval H; try discriminate H;
  try (exfalso; match goal with E : zsort ?vs = [] |- _ =>
         apply zsort_nil in E; subst; cbn [List.length Z.of_nat] in *; congruence end).
Ltac split_res :=
  match goal with |- exists b, ?t = Ok b =>
    let r := fresh "r" in let e := fresh "e" in let H := fresh "H" in
    destruct t as [r|e] eqn:H; [exists r; reflexivity|exfalso; total_case H] end.
Ltac unwrap_arrays_goal :=
  repeat match goal with
  | |- exists b, ?f ?o ?c (PArr [?m]) ?hi = Ok b => change (exists b, f o c m hi = Ok b)
  | |- exists b, ?f ?o ?c ?lo (PArr [?m]) = Ok b => change (exists b, f o c lo m = Ok b)
  end.
Ltac lift_total core Hlo Hhi :=
  let a := fresh "a" in let b := fresh "b" in let La := fresh "La" in let Lb := fresh "Lb" in
  destruct Hlo as [->|[a [[->| ->] La]]]; destruct Hhi as [->|[b [[->| ->] Lb]]];
  unwrap_arrays_goal;
  (eapply core; first [left; reflexivity | right; eexists; split; [reflexivity|eassumption]]).
