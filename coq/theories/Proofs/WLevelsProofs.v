(* The level / index blocks written by fastparquet's writer (Impl/WLevels.v) are decoded by the
   SPECIFICATION's hybrid decoder (Codec/Hybrid.v) to exactly the levels / codes they were made from,
   for every length; and the reader's two "selfmade" shortcuts agree with that decoder. *)
From Coq Require Import NArith ZArith Arith List Lia Bool.
From Pq Require Import Base.Bytes Base.Bits Base.ListX Proofs.BytesProofs Proofs.ListXProofs
  Codec.Varint Codec.Bitpack Codec.Hybrid Proofs.CodecProofs Impl.WLevels.
Import ListNotations.
Ltac Zify.zify_post_hook ::= Z.to_euclidean_division_equations.
Open Scope N_scope.

(* ---------- generic facts about the spec decoder ---------- *)

Lemma hyb_dec_f_done clock strict w inp acc :
  hyb_dec_f clock strict w 0 inp acc = Some (rev_append acc [], inp).
Proof. destruct clock; reflexivity. Qed.

Lemma firstn_seq a n m : (n <= m)%nat -> firstn n (seq a m) = seq a n.
Proof.
  revert a m; induction n as [|n IH]; intros a m H; [reflexivity|].
  destruct m as [|m]; [lia|]. cbn [seq firstn]. f_equal. apply IH. lia.
Qed.

Lemma bp_dec_ref_prefix w n m S : (n <= m)%nat -> bp_dec_ref w n S = firstn n (bp_dec_ref w m S).
Proof. intros H. unfold bp_dec_ref. rewrite firstn_map, firstn_seq by exact H. reflexivity. Qed.

Lemma bp_dec_prefix w n m b : n <= m -> bp_dec w n b = firstn (N.to_nat n) (bp_dec w m b).
Proof. intros H. unfold bp_dec. rewrite !bp_unpack_ref. apply bp_dec_ref_prefix. lia. Qed.

(* one RLE run of n copies of v (v < 256, width <= 8) is decoded to n copies, nothing else consumed *)
Lemma hyb_dec_rle_single strict w n v r :
  0 < n -> 0 < w <= 8 -> v < 256 ->
  hyb_dec strict w n (uleb_enc (2 * n) ++ v :: r) = Some (repeat v (N.to_nat n), r).
Proof.
  intros Hn Hw Hv. unfold hyb_dec. cbn [hyb_dec_f].
  destruct (N.eqb_spec n 0) as [E|_]; [lia|].
  rewrite uleb_roundtrip.
  replace ((2 * n) mod 2) with 0 by lia.
  cbn [N.eqb].
  replace (2 * n / 2) with n by lia.
  assert (V : N.to_nat (vbytes w) = 1%nat).
  { unfold vbytes. lia. }
  rewrite V. unfold le_dec. cbn [length Nat.leb firstn skipn le2n].
  rewrite N.min_id, N.sub_diag, hyb_dec_f_done.
  rewrite repN_ok, app_nil_r, rev_append_rev, app_nil_r.
  replace (v + 256 * 0) with v by lia. f_equal. f_equal.
  clear. induction (N.to_nat n) as [|k IH]; [reflexivity|].
  cbn [repeat rev]. rewrite IH. clear IH. induction k as [|k IH]; [reflexivity|]. cbn [repeat app]. now rewrite IH.
Qed.

(* one bit-packed run of g groups: the n <= 8g wanted values are the first n packed ones *)
Lemma hyb_dec_bp_single (strict : bool) w n g inp :
  0 < n -> n <= 8 * g ->
  (if strict then g * w else bp_nbytes w n) <= lenN inp ->
  hyb_dec strict w n (uleb_enc (2 * g + 1) ++ inp)
  = Some (bp_dec w n (takeN (g * w) inp), dropN (g * w) inp).
Proof.
  intros Hn Hg Hl. unfold hyb_dec. cbn [hyb_dec_f].
  destruct (N.eqb_spec n 0) as [E|_]; [lia|].
  rewrite uleb_roundtrip.
  replace ((2 * g + 1) mod 2) with 1 by lia.
  cbn [N.eqb].
  replace ((2 * g + 1) / 2) with g by lia.
  replace (N.min (8 * g) n) with n by lia.
  assert (T : (if strict then lenN inp <? g * w else lenN inp <? bp_nbytes w n) = false).
  { destruct strict; apply N.ltb_ge; exact Hl. }
  rewrite T, N.sub_diag, hyb_dec_f_done.
  rewrite !rev_append_rev, !app_nil_r, rev_involutive. reflexivity.
Qed.

(* ---------- writer blocks ---------- *)

Lemma zeros_length n : length (zeros n) = n.
Proof. induction n; cbn; congruence. Qed.

Lemma zeros_bits n : Forall (fun v => v < 2 ^ 1) (zeros n).
Proof. induction n; cbn [zeros]; constructor; [cbn; lia|assumption]. Qed.

Lemma pad_writer_length bits :
  length (pad_writer bits) = (8 * (length bits / 8 + 1))%nat.
Proof.
  unfold pad_writer. rewrite app_length, zeros_length.
  pose proof (Nat.div_mod (length bits) 8 ltac:(lia)).
  pose proof (Nat.mod_upper_bound (length bits) 8 ltac:(lia)). lia.
Qed.

Lemma wr_bools_length bits : N.of_nat (length (wr_bools bits)) = N.of_nat (length bits) / 8 + 1.
Proof.
  unfold wr_bools. rewrite bp_enc_length, pad_writer_length. unfold bp_nbytes.
  rewrite N.mul_1_r, Nat2N.inj_mul, Nat2N.inj_add, Nat2N.inj_div.
  change (N.of_nat 8) with 8. change (N.of_nat 1) with 1.
  generalize (N.of_nat (length bits) / 8). intros q. lia.
Qed.

Definition is_bits (l : list N) : Prop := Forall (fun v => v < 2 ^ 1) l.

(* PLAIN booleans as written decode (spec bit-unpacking, width 1) to the bits, padding dropped *)
Theorem wr_bools_dec bits rest : is_bits bits ->
  bp_dec 1 (N.of_nat (length bits)) (wr_bools bits ++ rest) = bits.
Proof.
  intros H. rewrite (bp_dec_prefix 1 _ (N.of_nat (length (pad_writer bits)))).
  - unfold wr_bools. rewrite bp_roundtrip.
    + unfold pad_writer. rewrite Nat2N.id, firstn_app, Nat.sub_diag, firstn_all. cbn [firstn]. apply app_nil_r.
    + unfold pad_writer. apply Forall_app. split; [exact H|apply zeros_bits].
  - rewrite pad_writer_length.
    pose proof (Nat.div_mod (length bits) 8 ltac:(lia)).
    pose proof (Nat.mod_upper_bound (length bits) 8 ltac:(lia)). lia.
Qed.

(* no nulls, v2 framing (no length prefix): all-ones levels *)
Theorem defs_nonull_v2_dec strict n rest : 0 < n ->
  hyb_dec strict 1 n (wr_defs_nonull_v2 n ++ rest) = Some (repeat 1 (N.to_nat n), rest).
Proof.
  intros Hn. unfold wr_defs_nonull_v2. rewrite <- app_assoc. cbn [app].
  apply hyb_dec_rle_single; lia.
Qed.

Lemma takeN_app_exact {A} (a b : list A) : takeN (N.of_nat (length a)) (a ++ b) = a.
Proof. rewrite takeN_ok, Nat2N.id, firstn_app, Nat.sub_diag, firstn_all. cbn [firstn]. apply app_nil_r. Qed.
Lemma dropN_app_exact {A} (a b : list A) : dropN (N.of_nat (length a)) (a ++ b) = b.
Proof. rewrite dropN_ok, Nat2N.id, skipn_app, Nat.sub_diag, skipn_all. reflexivity. Qed.

Lemma hyb_dec_len_framed strict w n body rest vs :
  N.of_nat (length body) < 2 ^ 32 ->
  hyb_dec strict w n body = Some (vs, []) ->
  hyb_dec_len strict w n (le_enc 4 (N.of_nat (length body)) ++ body ++ rest) = Some (vs, rest).
Proof.
  intros Hl Hd. unfold hyb_dec_len.
  rewrite le_dec_enc by (change (256 ^ N.of_nat 4) with (2 ^ 32); exact Hl).
  rewrite lenN_ok, app_length.
  destruct (N.ltb_spec (N.of_nat (length body + length rest)) (N.of_nat (length body))) as [L|_]; [lia|].
  rewrite takeN_app_exact, dropN_app_exact, Hd. reflexivity.
Qed.

Lemma uleb_len_small n : n < 2 ^ 64 -> N.of_nat (length (uleb_enc n)) <= 10.
Proof. intros H. pose proof (uleb_len_u64 n H). lia. Qed.

(* no nulls, v1 framing: length prefix + run; the spec reader gets all-ones and stops exactly at the end *)
Theorem defs_nonull_v1_dec strict n rest : 0 < n -> n < 2 ^ 63 ->
  hyb_dec_len strict 1 n (wr_defs_nonull_v1 n ++ rest) = Some (repeat 1 (N.to_nat n), rest).
Proof.
  intros Hn Hb. unfold wr_defs_nonull_v1. rewrite <- app_assoc.
  apply hyb_dec_len_framed.
  - unfold wr_defs_nonull_v2. rewrite app_length. cbn [length].
    assert (2 * n < 2 ^ 64) by (change (2 ^ 64) with (2 * 2 ^ 63); lia).
    pose proof (uleb_len_small (2 * n) H). change (2 ^ 32) with 4294967296. lia.
  - rewrite <- (app_nil_r (wr_defs_nonull_v2 n)). apply defs_nonull_v2_dec. exact Hn.
Qed.

(* the block length the reader's skip shortcut must equal *)
Theorem defs_nonull_v1_length n :
  N.of_nat (length (wr_defs_nonull_v1 n)) = 4 + N.of_nat (length (uleb_enc (2 * n))) + 1.
Proof.
  unfold wr_defs_nonull_v1, wr_defs_nonull_v2. rewrite !app_length, le_enc_length. cbn [length]. lia.
Qed.

(* nulls, v2 framing: the spec reader recovers the not-null mask, for every length *)
Theorem defs_nulls_v2_dec strict mask rest : is_bits mask -> (0 < length mask)%nat ->
  hyb_dec strict 1 (N.of_nat (length mask)) (wr_defs_nulls_v2 mask ++ rest) = Some (mask, rest).
Proof.
  intros Hb Hn. unfold wr_defs_nulls_v2. rewrite <- app_assoc.
  set (out := wr_bools mask).
  assert (G : N.of_nat (length out) = N.of_nat (length mask) / 8 + 1) by apply wr_bools_length.
  rewrite hyb_dec_bp_single.
  - rewrite N.mul_1_r, takeN_app_exact, dropN_app_exact. f_equal. f_equal.
    rewrite <- (app_nil_r out). apply wr_bools_dec. exact Hb.
  - lia.
  - rewrite G. pose proof (N.div_mod (N.of_nat (length mask)) 8 ltac:(lia)).
    pose proof (N.mod_upper_bound (N.of_nat (length mask)) 8 ltac:(lia)). lia.
  - rewrite lenN_ok, app_length, N.mul_1_r.
    assert (bp_nbytes 1 (N.of_nat (length mask)) <= N.of_nat (length out)).
    { rewrite G. unfold bp_nbytes. rewrite N.mul_1_r. generalize (N.of_nat (length mask)). intros m. lia. }
    destruct strict; lia.
Qed.

Theorem defs_nulls_v1_dec strict mask rest : is_bits mask -> (0 < length mask)%nat ->
  N.of_nat (length mask) < 2 ^ 34 ->
  hyb_dec_len strict 1 (N.of_nat (length mask)) (wr_defs_nulls_v1 mask ++ rest) = Some (mask, rest).
Proof.
  intros Hb Hn Hl. unfold wr_defs_nulls_v1. rewrite <- app_assoc.
  apply hyb_dec_len_framed.
  - unfold wr_defs_nulls_v2. rewrite app_length.
    pose proof (wr_bools_length mask) as G.
    assert (N.of_nat (length (wr_bools mask)) < 2 ^ 31 + 1).
    { rewrite G. assert (N.of_nat (length mask) / 8 < 2 ^ 31); [|lia].
      apply N.div_lt_upper_bound; [lia|]. change (8 * 2 ^ 31) with (2 ^ 34). exact Hl. }
    assert (U : 2 * N.of_nat (length (wr_bools mask)) + 1 < 2 ^ 64).
    { change (2 ^ 31) with 2147483648 in H. change (2 ^ 64) with 18446744073709551616. lia. }
    pose proof (uleb_len_small _ U).
    change (2 ^ 31) with 2147483648 in H. change (2 ^ 32) with 4294967296. lia.
  - rewrite <- (app_nil_r (wr_defs_nulls_v2 mask)). apply defs_nulls_v2_dec; assumption.
Qed.

(* ---------- dictionary indices ---------- *)

Lemma rd_raw_codes k codes rest : Forall (fun c => c < 256 ^ N.of_nat k) codes ->
  rd_raw k (length codes) (wr_codes k codes ++ rest) = Some codes.
Proof.
  induction 1 as [|c codes Hc Hcs IH]; [reflexivity|].
  unfold wr_codes. cbn [map concat length rd_raw]. rewrite <- app_assoc.
  rewrite le_dec_enc by exact Hc. fold (wr_codes k codes). rewrite IH. reflexivity.
Qed.

(* k-byte little-endian codes ARE the 8k-bit packing of the codes *)
Lemma bp_num_bytes k codes : Forall (fun c => c < 256 ^ N.of_nat k) codes ->
  le2n (wr_codes k codes) = bp_num (8 * N.of_nat k) codes.
Proof.
  induction 1 as [|c codes Hc Hcs IH]; [reflexivity|].
  unfold wr_codes. cbn [map concat bp_num]. rewrite le2n_app, le_enc_length, le2n_le_enc.
  fold (wr_codes k codes). rewrite IH, N.mod_small by exact Hc. rewrite pow256. reflexivity.
Qed.

Lemma wr_codes_length k codes : length (wr_codes k codes) = (k * length codes)%nat.
Proof.
  induction codes as [|c codes IH]; [cbn; lia|].
  unfold wr_codes. cbn [map concat length]. rewrite app_length, le_enc_length.
  fold (wr_codes k codes). rewrite IH. lia.
Qed.

Lemma wr_codes_ok k codes : bytes_ok (wr_codes k codes).
Proof.
  induction codes as [|c codes IH]; [constructor|].
  unfold wr_codes. cbn [map concat]. apply Forall_app. split; [apply le_enc_ok|exact IH].
Qed.

Theorem wr_codes_is_bitpacked k codes : Forall (fun c => c < 256 ^ N.of_nat k) codes ->
  wr_codes k codes = bp_enc (8 * N.of_nat k) codes.
Proof.
  intros H. unfold bp_enc, bp_nbytes.
  replace (N.to_nat ((N.of_nat (length codes) * (8 * N.of_nat k) + 7) / 8)) with (k * length codes)%nat.
  - rewrite <- (bp_num_bytes k codes H).
    rewrite <- (wr_codes_length k codes).
    generalize (wr_codes_ok k codes). generalize (wr_codes k codes). clear.
    induction 1 as [|b l Hb Hl IH]; [reflexivity|].
    cbn [length le_enc le2n].
    replace ((b + 256 * le2n l) mod 256) with b by (rewrite N.mul_comm, N.mod_add, N.mod_small; lia).
    replace ((b + 256 * le2n l) / 256) with (le2n l) by (rewrite N.mul_comm, N.div_add, N.div_small; lia).
    now rewrite <- IH.
  - symmetry. replace (N.of_nat (length codes) * (8 * N.of_nat k) + 7) with (7 + N.of_nat (k * length codes) * 8) by lia.
    rewrite N.div_add by lia. change (7 / 8) with 0. lia.
Qed.

(* the index block the writer emits (after its width byte) is decoded by the spec's hybrid decoder -
   lenient mode: the last group may be cut short by the end of the values, which is what encode_dict
   produces when 8 does not divide n - to the codes; the reader's raw shortcut (rd_raw_codes above)
   reads the same codes from the same bytes. *)
Theorem dict_indices_dec k codes rest :
  (0 < length codes)%nat -> Forall (fun c => c < 256 ^ N.of_nat k) codes ->
  option_map fst (hyb_dec false (8 * N.of_nat k) (N.of_nat (length codes))
                    (uleb_enc (2 * ((N.of_nat (length codes) + 7) / 8) + 1) ++ wr_codes k codes ++ rest))
  = Some codes.
Proof.
  intros Hn Hc. set (w := 8 * N.of_nat k). set (n := N.of_nat (length codes)).
  assert (NB : bp_nbytes w n = N.of_nat (length (wr_codes k codes))).
  { rewrite wr_codes_length. unfold bp_nbytes, w, n.
    replace (N.of_nat (length codes) * (8 * N.of_nat k) + 7) with (7 + N.of_nat (k * length codes) * 8) by lia.
    rewrite N.div_add by lia. change (7 / 8) with 0. lia. }
  set (g := (n + 7) / 8).
  assert (G : n <= 8 * g).
  { unfold g. pose proof (N.div_mod (n + 7) 8 ltac:(lia)). pose proof (N.mod_upper_bound (n + 7) 8 ltac:(lia)). lia. }
  rewrite hyb_dec_bp_single.
  - cbn [option_map fst]. f_equal.
    unfold bp_dec. rewrite bp_unpack_ref, le2n_tr_ok, takeN_ok.
    assert (LE : (length (wr_codes k codes) <= N.to_nat (g * w))%nat).
    { rewrite wr_codes_length. unfold w. nia. }
    rewrite firstn_app, (firstn_all2 _ LE).
    rewrite le2n_app, bp_num_bytes by exact Hc.
    unfold n. rewrite Nat2N.id.
    rewrite <- (bp_dec_ref_mod _ _ _ (N.of_nat (length codes) * w)) by lia.
    rewrite wr_codes_length, pow256.
    replace (8 * N.of_nat (k * length codes)) with (N.of_nat (length codes) * w) by (unfold w; lia).
    rewrite (N.mul_comm (2 ^ _)), N.mod_add by auto.
    rewrite bp_dec_ref_mod by lia.
    apply bp_dec_ref_num. unfold w. eapply Forall_impl; [|exact Hc]. cbn beta. intros a Ha.
    rewrite <- pow256. exact Ha.
  - unfold n. lia.
  - exact G.
  - rewrite lenN_ok, app_length, NB. lia.
Qed.

Theorem wr_dict_indices_shape k codes :
  wr_dict_indices k codes
  = (8 * N.of_nat k) :: uleb_enc (2 * ((N.of_nat (length codes) + 7) / 8) + 1) ++ wr_codes k codes.
Proof. reflexivity. Qed.

(* the hand copy of the skip shortcut (used when the translator refuses the source) has the same value *)
Lemma more_bytes_loop f : forall m, m < 2 ^ N.of_nat f -> forall fuel, (f <= fuel)%nat ->
  more_bytes fuel (m / 128) = N.of_nat (length (uleb_enc_f f m)) - 1.
Proof.
  induction f as [|f IH]; intros m Hm fuel Hf.
  - change (N.of_nat 0) with 0 in Hm. rewrite N.pow_0_r in Hm. assert (m = 0) by lia. subst m.
    change (0 / 128) with 0. destruct fuel; reflexivity.
  - cbn [uleb_enc_f]. destruct (N.ltb_spec m 128) as [L|L].
    + rewrite N.div_small by exact L. destruct fuel; reflexivity.
    + destruct fuel as [|fuel]; [lia|]. cbn [more_bytes].
      destruct (N.eqb_spec (m / 128) 0) as [E|_]; [lia|].
      rewrite IH.
      * cbn [length]. assert (1 <= N.of_nat (length (uleb_enc_f f (m / 128)))); [|lia].
        destruct f; cbn [uleb_enc_f]; [cbn; lia|]. destruct (m / 128 <? 128); cbn [length]; lia.
      * replace (N.of_nat (S f)) with (1 + N.of_nat f) in Hm by lia.
        rewrite N.pow_add_r, N.pow_1_r in Hm. apply N.div_lt_upper_bound; lia.
      * lia.
Qed.

Theorem skip_hand_is_block_len num :
  skip_hand num = N.of_nat (length (wr_defs_nonull_v1 num)).
Proof.
  rewrite defs_nonull_v1_length. unfold skip_hand.
  replace (num / 64) with ((2 * num) / 128) by lia.
  rewrite (more_bytes_loop (N.to_nat (N.size (2 * num)))).
  - fold (uleb_enc (2 * num)).
    assert (1 <= N.of_nat (length (uleb_enc (2 * num)))); [|lia].
    unfold uleb_enc. destruct (N.to_nat (N.size (2 * num))); cbn [uleb_enc_f]; [cbn; lia|].
    destruct (2 * num <? 128); cbn [length]; lia.
  - rewrite N2Nat.id. apply N.size_gt.
  - destruct num as [|p]; cbn; lia.
Qed.
