(* speedups.pack_byte_array / unpack_byte_array (impl models) = PLAIN BYTE_ARRAY of the specification;
   cencoding.encode_unsigned_varint = ULEB128. *)
From Coq Require Import NArith ZArith Arith List Lia Bool.
From Pq Require Import Base.Bytes Base.Bits Base.Err Base.ListX
  Proofs.BytesProofs Proofs.ListXProofs Proofs.CodecProofs Proofs.PlainProofs Proofs.HybridProofs
  Codec.Varint Codec.Plain Impl.CVarint Impl.CDelta Impl.PyPack.
Import ListNotations.
Open Scope N_scope.

Lemma s32_small n : n < 2 ^ 31 -> s32 n = Z.of_N n.
Proof.
  intros H. unfold s32, m32. rewrite N.land_ones.
  change (2 ^ 31) with 2147483648 in *. change (2 ^ 32) with 4294967296.
  rewrite N.mod_small by lia. destruct (N.ltb_spec n 2147483648); lia.
Qed.

Definition item_ok (x : bytes) : Prop := N.of_nat (length x) < 2 ^ 31.

Lemma pack_byte_array_is_spec xs : Forall item_ok xs -> c_pack_byte_array xs = ba_enc xs.
Proof.
  intros H. unfold c_pack_byte_array, ba_enc. rewrite concat_tr_ok. f_equal.
  apply map_ext_in. intros x Hx. rewrite Forall_forall in H. specialize (H x Hx). unfold item_ok in H.
  f_equal. f_equal. unfold m32. rewrite N.land_ones, lenN_ok. apply N.mod_small.
  change (2 ^ 31) with 2147483648 in H. change (2 ^ 32) with 4294967296. lia.
Qed.

Lemma c_unpack_ba_ok : forall xs n acc, Forall item_ok xs ->
  c_unpack_ba (length xs + n) (ba_enc xs) (Z.of_nat (length (ba_enc xs))) acc
  = UOk (rev acc ++ map Some xs ++ repeat None n).
Proof.
  induction xs as [|x xs IH]; intros n acc H.
  - cbn [length Nat.add ba_enc map concat app]. destruct n as [|n]; cbn [c_unpack_ba].
    + rewrite rev_append_rev. reflexivity.
    + cbn [Z.of_nat Z.leb Z.compare]. now rewrite rev_append_rev.
  - pose proof (Forall_inv H) as Hx. pose proof (Forall_inv_tail H) as Hxs. unfold item_ok in Hx.
    unfold ba_enc. cbn [map concat length Nat.add]. fold (ba_enc xs).
    set (hdr := le_enc 4 (N.of_nat (length x))).
    assert (Hh : length hdr = 4%nat) by apply le_enc_length.
    cbn [c_unpack_ba].
    rewrite !app_length, Hh. rewrite <- app_assoc.
    assert (H1 : (lenN (hdr ++ x ++ ba_enc xs) <? 4) = false).
    { apply N.ltb_ge. rewrite lenN_ok, app_length, Hh. lia. }
    assert (H2 : firstn 4 (hdr ++ x ++ ba_enc xs) = hdr).
    { rewrite firstn_app, Hh. rewrite (firstn_all2 hdr) by lia. rewrite Nat.sub_diag, firstn_O. apply app_nil_r. }
    assert (H3 : dropN 4 (hdr ++ x ++ ba_enc xs) = x ++ ba_enc xs).
    { change 4 with (N.of_nat 4). rewrite <- Hh. apply dropN_app_exact. }
    assert (H5 : s32 (le2n hdr) = Z.of_nat (length x)).
    { unfold hdr. rewrite le2n_le_enc. change (256 ^ N.of_nat 4) with (2 ^ 32).
      rewrite N.mod_small by (change (2 ^ 31) with 2147483648 in Hx; change (2 ^ 32) with 4294967296; lia).
      rewrite s32_small by exact Hx. lia. }
    rewrite H1, H2, H3, H5.
    match goal with |- context [(?a <=? 0)%Z] => destruct (Z.leb_spec a 0) as [Hz|_]; [lia|] end.
    destruct (Z.ltb_spec (Z.of_nat (length x)) 0) as [Hneg|_]; [lia|].
    replace (Z.to_N (Z.of_nat (length x))) with (N.of_nat (length x)) by lia.
    assert (H4 : (lenN (x ++ ba_enc xs) <? N.of_nat (length x)) = false).
    { apply N.ltb_ge. rewrite lenN_ok, app_length. lia. }
    rewrite H4, takeN_app_exact, dropN_app_exact.
    match goal with |- context [c_unpack_ba _ _ ?z _] =>
      replace z with (Z.of_nat (length (ba_enc xs))) by lia end.
    rewrite IH by exact Hxs. cbn [rev map]. now rewrite <- !app_assoc.
Qed.

(* MAIN THEOREM: on the PLAIN BYTE_ARRAY encoding of any list of items (each shorter than 2^31), asked for
   n >= len items, unpack_byte_array returns the items followed by empty (None) slots; no read outside *)
Theorem unpack_byte_array_correct xs extra : Forall item_ok xs ->
  c_unpack_byte_array (ba_enc xs) (N.of_nat (length xs + extra)) = UOk (map Some xs ++ repeat None extra).
Proof.
  intros H. unfold c_unpack_byte_array. rewrite Nat2N.id, lenN_ok, nat_N_Z.
  now rewrite c_unpack_ba_ok.
Qed.

(* ---- encode_unsigned_varint ---- *)
Lemma uleb_enc_f_fuel : forall f1 f2 n, n < 2 ^ (7 * (N.of_nat f1 + 1)) -> n < 2 ^ (7 * (N.of_nat f2 + 1)) ->
  uleb_enc_f f1 n = uleb_enc_f f2 n.
Proof.
  induction f1 as [|f1 IH]; intros f2 n H1 H2.
  - change (7 * (N.of_nat 0 + 1)) with 7 in H1. change (2 ^ 7) with 128 in H1.
    cbn [uleb_enc_f]. rewrite N.mod_small by exact H1.
    destruct f2; cbn [uleb_enc_f]; [now rewrite N.mod_small|].
    destruct (N.ltb_spec n 128); [reflexivity|lia].
  - cbn [uleb_enc_f]. destruct (N.ltb_spec n 128) as [L|L].
    + destruct f2; cbn [uleb_enc_f]; [now rewrite N.mod_small|].
      destruct (N.ltb_spec n 128); [reflexivity|lia].
    + destruct f2 as [|f2].
      * change (7 * (N.of_nat 0 + 1)) with 7 in H2. change (2 ^ 7) with 128 in H2. lia.
      * cbn [uleb_enc_f]. destruct (N.ltb_spec n 128); [lia|]. f_equal. apply IH.
        -- replace (7 * (N.of_nat (S f1) + 1)) with (7 + 7 * (N.of_nat f1 + 1)) in H1 by lia.
           rewrite N.pow_add_r in H1. change (2 ^ 7) with 128 in H1. apply N.div_lt_upper_bound; lia.
        -- replace (7 * (N.of_nat (S f2) + 1)) with (7 + 7 * (N.of_nat f2 + 1)) in H2 by lia.
           rewrite N.pow_add_r in H2. change (2 ^ 7) with 128 in H2. apply N.div_lt_upper_bound; lia.
Qed.

Lemma enc_f_unfold f x cap acc :
  c_enc_varint_f (S f) x cap acc =
  if 127 <? x then
    if cap =? 0 then c_enc_varint_f f (N.shiftr x 7) cap acc
    else c_enc_varint_f f (N.shiftr x 7) (cap - 1) (N.lor (N.land x 127) 128 :: acc)
  else if cap =? 0 then (rev_append acc [], cap) else (rev_append (x :: acc) [], cap - 1).
Proof. reflexivity. Qed.

Lemma enc_f_rel : forall f x cap acc, x < 2 ^ (7 * (N.of_nat f + 1)) ->
  N.of_nat (length (uleb_enc_f f x)) <= cap ->
  c_enc_varint_f (S f) x cap acc = (rev acc ++ uleb_enc_f f x, cap - N.of_nat (length (uleb_enc_f f x))).
Proof.
  induction f as [|f IH]; intros x cap acc Hx Hcap.
  - change (7 * (N.of_nat 0 + 1)) with 7 in Hx. change (2 ^ 7) with 128 in Hx.
    cbn [uleb_enc_f length] in *. rewrite N.mod_small by exact Hx. cbn [c_enc_varint_f].
    destruct (N.ltb_spec 127 x); [lia|]. destruct (N.eqb_spec cap 0); [lia|].
    rewrite rev_append_rev. cbn [rev]. now rewrite app_nil_r.
  - cbn [uleb_enc_f] in *. rewrite enc_f_unfold. destruct (N.ltb_spec x 128) as [L|L].
    + destruct (N.ltb_spec 127 x); [lia|]. cbn [length] in *. destruct (N.eqb_spec cap 0); [lia|].
      rewrite rev_append_rev. cbn [rev]. now rewrite app_nil_r.
    + destruct (N.ltb_spec 127 x); [|lia]. cbn [length] in Hcap. destruct (N.eqb_spec cap 0); [lia|].
      assert (Hb : N.lor (N.land x 127) 128 = 128 + x mod 128).
      { change 127 with (N.ones 7). rewrite N.land_ones. change 128 with (1 * 2 ^ 7) at 1.
        rewrite lor_disjoint_add. change (2 ^ 7) with 128. lia. }
      rewrite Hb, shiftr_div. change (2 ^ 7) with 128.
      rewrite IH.
      * cbn [rev length]. rewrite <- app_assoc. cbn [app]. f_equal. lia.
      * replace (7 * (N.of_nat (S f) + 1)) with (7 + 7 * (N.of_nat f + 1)) in Hx by lia.
        rewrite N.pow_add_r in Hx. change (2 ^ 7) with 128 in Hx. apply N.div_lt_upper_bound; lia.
      * lia.
Qed.

(* MAIN THEOREM: with room for the whole varint, encode_unsigned_varint writes exactly the ULEB128 bytes *)
Theorem enc_varint_correct x cap : x < 2 ^ 64 -> N.of_nat (length (uleb_enc x)) <= cap ->
  c_enc_varint x cap = (uleb_enc x, cap - N.of_nat (length (uleb_enc x))).
Proof.
  intros Hx Hcap. unfold c_enc_varint, m64. rewrite N.land_ones, N.mod_small by exact Hx.
  assert (E : uleb_enc x = uleb_enc_f 10 x).
  { unfold uleb_enc. apply uleb_enc_f_fuel.
    - rewrite N2Nat.id. eapply N.lt_le_trans; [apply N.size_gt|]. apply N.pow_le_mono_r; lia.
    - eapply N.lt_trans; [exact Hx|]. apply N.pow_lt_mono_r; lia. }
  rewrite E in *. rewrite enc_f_rel; [reflexivity| |exact Hcap].
  eapply N.lt_trans; [exact Hx|]. apply N.pow_lt_mono_r; lia.
Qed.
