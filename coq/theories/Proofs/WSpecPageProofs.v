(* C02: every page kind write_column emits (Impl/WChunk.v w_data_page / w_dict_page: data page v1 and v2, PLAIN values incl. the
   BOOLEAN packing, dictionary-encoded pages = bit-width byte + one bit-packed run of raw codes, levels outside the compressed
   section of a v2 page with is_compressed, the dictionary page) is decoded by the SPECIFICATION's page decoder (Format/Page.v
   dec_page) to exactly the page's cells, null count and row count.  Lenient mode (strict = false): encode_dict does not pad the
   last bit-packed group. *)
From Coq Require Import String.
From Coq Require Import NArith ZArith Arith List Lia Bool.
From Pq Require Import Base.Bytes Base.Bits Base.ListX Proofs.BytesProofs Proofs.ListXProofs Proofs.CodecProofs
  Codec.Varint Codec.Bitpack Codec.Hybrid Thrift.Compact Format.Phys Format.Meta Format.Page Format.Enc
  Impl.WLevels Impl.WPagesFmt Impl.WChunk Impl.RPages.
From Pq Require Import Proofs.HybridProofs Proofs.FormatCodecProofs Proofs.FormatPageProofs Proofs.RPagesProofs Proofs.WChunkProofs.
From Pq Require Proofs.WLevelsProofs.
Import ListNotations.
Open Scope N_scope.

(* definition levels as the specification reads them *)
Lemma spec_levels_v1 c p rest : wc_v2 c = false -> wc_optional c = true -> 0 < w_rows p -> w_rows p < 2 ^ 31 ->
  hyb_dec_len false 1 (w_rows p) (w_defs c p ++ rest) = Some (w_mask p, rest).
Proof.
  intros V1 OPT N0 NB. unfold w_defs. rewrite V1, OPT. cbn [negb].
  destruct (w_nonnull p =? w_rows p) eqn:E.
  - apply N.eqb_eq in E.
    rewrite WLevelsProofs.defs_nonull_v1_dec by first [assumption | (eapply N.lt_trans; [exact NB|reflexivity])].
    f_equal. f_equal.
    destruct p as [l|l]; cbn [w_mask w_rows w_nonnull] in *; rewrite !lenN_ok in E;
      destruct (all_some l ltac:(lia)) as [_ M]; rewrite M, lenN_ok, Nat2N.id; reflexivity.
  - rewrite <- (w_mask_length p) at 1.
    apply WLevelsProofs.defs_nulls_v1_dec.
    + destruct p; apply mask_bits.
    + pose proof (w_mask_length p). lia.
    + rewrite w_mask_length. eapply N.lt_trans; [exact NB|reflexivity].
Qed.

Lemma spec_levels_v2 c p rest : wc_v2 c = true -> wc_optional c = true -> 0 < w_rows p ->
  hyb_dec false 1 (w_rows p) (w_defs c p ++ rest) = Some (w_mask p, rest).
Proof.
  intros V2 OPT N0. unfold w_defs. rewrite V2, OPT. cbn [negb].
  destruct (w_nonnull p =? w_rows p) eqn:E.
  - apply N.eqb_eq in E.
    rewrite WLevelsProofs.defs_nonull_v2_dec by assumption.
    f_equal. f_equal.
    destruct p as [l|l]; cbn [w_mask w_rows w_nonnull] in *; rewrite !lenN_ok in E;
      destruct (all_some l ltac:(lia)) as [_ M]; rewrite M, lenN_ok, Nat2N.id; reflexivity.
  - rewrite <- (w_mask_length p) at 1.
    apply WLevelsProofs.defs_nulls_v2_dec.
    + destruct p; apply mask_bits.
    + pose proof (w_mask_length p). lia.
Qed.

Lemma mask_le1 {A} (l : list (option A)) : forallb (fun x => x <=? 1) (mask_of l) = true.
Proof. unfold mask_of. apply forallb_forall. intros x Hx. apply in_map_iff in Hx. destruct Hx as ([a|] & <- & _); reflexivity. Qed.

(* the values of a page as the specification reads them, and the scatter over the levels *)
Lemma spec_values_writer c p cells tail :
  wp_ok c p -> w_page_cells c p = Some cells -> (tail = [] \/ tail = [0; 0; 0; 0; 0; 0; 0; 0]) ->
  exists vs, dec_values false (cd_of c) (wc_labels c) (w_enc p) (w_nonnull p) (w_values c p ++ tail) = ROk vs /\
             vs = somes cells /\ mask_of cells = w_mask p.
Proof.
  intros (N0 & NB & REQ & OK) PC TL. unfold dec_values.
  destruct p as [pc|codes]; cbn [w_enc w_values w_page_cells w_nonnull w_rows w_mask] in *.
  - injection PC as <-. cbn [Z.eqb E_PLAIN cd_of cd_type cd_tlen].
    destruct (w_plain_dec (wc_type c) (wc_tlen c) (somes pc) tail OK) as (r' & PD). rewrite PD.
    exists (somes pc). repeat split.
  - destruct OK as (K & CK2 & LB).
    assert (CK : Forall (fun x => x < 256 ^ N.of_nat (wc_k c)) (somes codes)) by (eapply Forall_impl; [|exact CK2]; cbn beta; intros; lia).
    destruct (wc_labels c) as [labels|] eqn:LBL; [|now contradiction LB].
    destruct (dict_cells labels codes cells [] PC) as (LK & MK & LN).
    cbn [Z.eqb E_PLAIN E_RLE_DICT E_PLAIN_DICT orb Pos.eqb].
    unfold wr_dict_indices. cbn [app].
    assert (W32 : (32 <? 8 * N.of_nat (wc_k c)) = false) by (destruct K as [-> | [-> | ->]]; reflexivity).
    rewrite W32. rewrite <- app_assoc. rewrite lenN_ok.
    exists (somes cells). split; [|split; [reflexivity|now rewrite MK]].
    destruct (somes codes) as [|x xs] eqn:SC.
    + cbn [length]. change (N.of_nat 0) with 0. rewrite hyb_dec_zero.
      rewrite LK. reflexivity.
    + rewrite <- SC in *.
      pose proof (WLevelsProofs.dict_indices_dec (wc_k c) (somes codes) tail) as DD.
      destruct (hyb_dec false (8 * N.of_nat (wc_k c)) (N.of_nat (length (somes codes))) _) as [[ix r]|];
        [|specialize (DD ltac:(rewrite SC; cbn; lia) CK); discriminate DD].
      specialize (DD ltac:(rewrite SC; cbn; lia) CK). cbn [option_map fst] in DD. injection DD as ->.
      rewrite LK. reflexivity.
Qed.

Lemma cells_of_writer c p cells : mask_of cells = w_mask p -> wc_optional c = true ->
  cells_of 1 (w_mask p) (somes cells) [] = Some cells.
Proof. intros M _. rewrite <- M. now rewrite (cells_of_mask (A:=unit) cells []). Qed.

Lemma required_full {A} (cells : list (option A)) n : mask_of cells = repeat 1 n -> map Some (somes cells) = cells /\ length cells = n.
Proof.
  revert n. induction cells as [|[a|] r IH]; intros [|n] M; unfold mask_of in *; cbn in *; try discriminate; [split; reflexivity|].
  injection M as M. destruct (IH n M) as [I1 I2]. now rewrite I1, I2.
Qed.

Lemma cells_of_required : forall n (vs : list value) acc, length vs = n ->
  cells_of 0 (repeat 0 n) vs acc = Some (rev acc ++ map Some vs).
Proof.
  induction n as [|n IH]; intros [|v vs] acc L; cbn [length] in L; try discriminate; cbn [repeat cells_of N.eqb].
  - now rewrite rev_append_rev, !app_nil_r.
  - rewrite IH by lia. cbn [rev map]. now rewrite <- app_assoc.
Qed.

Section WithCodecs.
Variable compress : Z -> bytes -> bytes.
Variable decompress : Z -> N -> bytes -> option bytes.
Hypothesis codec_rt : forall codec b, decompress codec (lenN b) (compress codec b) = Some b.

(* levels + values + scatter, shared by v1 and v2: what remains after the levels were read *)
Lemma spec_page_tail c p cells tail :
  wp_ok c p -> w_page_cells c p = Some cells -> (tail = [] \/ tail = [0; 0; 0; 0; 0; 0; 0; 0]) ->
  let md := cd_maxdef (cd_of c) in
  let lv := if wc_optional c then w_mask p else repN 0 (w_rows p) [] in
  (let! _ := guard (forallb (fun l => l <=? md) lv) "definition level above the maximum" in
   let k := count_def md lv in
   let! vs := dec_values false (cd_of c) (wc_labels c) (w_enc p) k (w_values c p ++ tail) in
   let! cs := of_opt "x" (cells_of md lv vs []) in
   ROk (k, cs)) = ROk (w_nonnull p, cells).
Proof.
  intros WP PC TL. pose proof WP as (N0 & NB & REQ & OK).
  destruct (spec_values_writer c p cells tail WP PC TL) as (vs & DV & -> & MK).
  cbn zeta. unfold cd_of. cbn [cd_maxdef].
  destruct (wc_optional c) eqn:OPT.
  - assert (F : forallb (fun l => l <=? 1) (w_mask p) = true) by (destruct p; apply mask_le1).
    rewrite F. cbn [guard rbind]. rewrite w_count.
    unfold cd_of in DV. rewrite OPT in DV. rewrite DV. cbn [rbind].
    rewrite (cells_of_writer c p cells MK OPT). reflexivity.
  - rewrite repN_ok, app_nil_r.
    assert (F : forallb (fun l => l <=? 0) (repeat 0 (N.to_nat (w_rows p))) = true).
    { apply forallb_forall. intros x Hx. apply repeat_spec in Hx. now subst x. }
    rewrite F. cbn [guard rbind]. rewrite count_def_repeat, N2Nat.id.
    rewrite <- (REQ eq_refl) at 1.
    unfold cd_of in DV. rewrite OPT in DV. rewrite DV. cbn [rbind].
    assert (FULL : mask_of cells = repeat 1 (N.to_nat (w_rows p))).
    { rewrite MK. specialize (REQ eq_refl).
      destruct p as [l|l]; cbn [w_mask w_rows w_nonnull] in *; rewrite !lenN_ok in REQ;
        destruct (all_some l ltac:(lia)) as [_ M]; rewrite M, lenN_ok, Nat2N.id; reflexivity. }
    destruct (required_full cells _ FULL) as [MS LC].
    rewrite cells_of_required.
    + cbn [rev app of_opt rbind]. rewrite MS, (REQ eq_refl). reflexivity.
    + rewrite <- LC. rewrite <- MS at 2. now rewrite map_length.
Qed.

(* ---- data page v1 ---- *)
Theorem spec_page_v1_writer c p cells :
  wc_v2 c = false -> wp_ok c p -> w_page_cells c p = Some cells ->
  dec_page decompress false (cd_of c) (wc_codec c) (wc_labels c) (fst (w_data_page compress c p)) (snd (w_data_page compress c p))
  = ROk (CData (w_rows p) (w_rows p - w_nonnull p) cells).
Proof.
  intros V1 WP PC. pose proof WP as (N0 & NB & REQ & OK).
  unfold w_data_page. rewrite V1. cbn [fst snd]. unfold dec_page. cbn [ph_usize ph_body]. rewrite z2n_of_N. cbn [rbind].
  unfold dec_data_v1. rewrite (inflate_deflate compress decompress codec_rt). cbn [rbind].
  rewrite N.eqb_refl. cbn [guard rbind d_nvals d_dle d_enc]. rewrite z2n_of_N. cbn [rbind].
  pose proof (spec_page_tail c p cells [0; 0; 0; 0; 0; 0; 0; 0] WP PC (or_intror eq_refl)) as T. cbn zeta in T.
  unfold cd_of in *. cbn [cd_maxdef] in *.
  destruct (wc_optional c) eqn:OPT.
  - cbn [N.eqb negb Z.eqb E_RLE Pos.eqb]. change (level_width 1) with 1.
    rewrite (spec_levels_v1 c p _ V1 OPT N0 NB). cbn [of_opt rbind fst snd].
    destruct (forallb (fun l => l <=? 1) (w_mask p)); cbn [guard rbind] in *; [|discriminate].
    destruct (dec_values false _ _ _ _ _) as [vs| |]; cbn [rbind] in *; try discriminate.
    destruct (cells_of 1 (w_mask p) vs []) as [cs|]; cbn [of_opt rbind] in *; [|discriminate].
    injection T as T1 T2. rewrite T1, T2. reflexivity.
  - cbn [N.eqb rbind fst snd]. unfold w_defs at 1. rewrite OPT. cbn [negb app].
    destruct (forallb (fun l => l <=? 0) (repN 0 (w_rows p) [])); cbn [guard rbind] in *; [|discriminate].
    destruct (dec_values false _ _ _ _ _) as [vs| |]; cbn [rbind] in *; try discriminate.
    destruct (cells_of 0 (repN 0 (w_rows p) []) vs []) as [cs|]; cbn [of_opt rbind] in *; [|discriminate].
    injection T as T1 T2. rewrite T1, T2. reflexivity.
Qed.

(* ---- data page v2: levels outside the compressed section, is_compressed = (codec != UNCOMPRESSED) ---- *)
Theorem spec_page_v2_writer c p cells :
  wc_v2 c = true -> wp_ok c p -> w_page_cells c p = Some cells ->
  dec_page decompress false (cd_of c) (wc_codec c) (wc_labels c) (fst (w_data_page compress c p)) (snd (w_data_page compress c p))
  = ROk (CData (w_rows p) (w_rows p - w_nonnull p) cells).
Proof.
  intros V2 WP PC. pose proof WP as (N0 & NB & REQ & OK). pose proof (w_nonnull_le p) as LE.
  unfold w_data_page. rewrite V2. cbn [fst snd]. unfold dec_page. cbn [ph_usize ph_body].
  rewrite <- N2Z.inj_add, z2n_of_N. cbn [rbind].
  unfold dec_data_v2. cbn [d2_nvals d2_nnulls d2_nrows d2_dlen d2_rlen d2_enc d2_iscomp].
  rewrite !z2n_of_N. cbn [rbind]. change (z2n "data page v2: negative repetition_levels_byte_length" 0%Z) with (ROk (A:=N) 0).
  cbn [rbind N.eqb guard]. rewrite N.eqb_refl. cbn [guard rbind].
  set (defs := w_defs c p). set (vals := w_values c p). set (body := deflate compress (wc_codec c) vals).
  assert (G1 : (lenN defs <=? lenN (defs ++ body)) = true) by (apply N.leb_le; rewrite !lenN_ok, app_length; lia).
  assert (G2 : (lenN defs <=? lenN defs + lenN vals) = true) by (apply N.leb_le; lia).
  rewrite G1, G2. cbn [guard rbind].
  rewrite FormatPageProofs.takeN_app_exact, FormatPageProofs.dropN_app_exact.
  match goal with |- rbind ?x _ = _ => replace x with (ROk (A:=bytes) vals) end.
  2:{ unfold body, deflate, inflate. destruct (wc_codec c =? 0)%Z eqn:C0; cbn [negb]; [reflexivity|].
      replace (lenN defs + lenN vals - lenN defs) with (lenN vals) by lia. now rewrite codec_rt. }
  cbn beta. cbn [rbind]. rewrite (N.add_comm (lenN vals)), N.eqb_refl. cbn [guard rbind].
  pose proof (spec_page_tail c p cells [] WP PC (or_introl eq_refl)) as T. cbn zeta in T. rewrite app_nil_r in T. fold vals in T.
  unfold cd_of in *. cbn [cd_maxdef] in *.
  destruct (wc_optional c) eqn:OPT.
  - cbn [N.eqb]. change (level_width 1) with 1.
    pose proof (spec_levels_v2 c p [] V2 OPT N0) as L. rewrite app_nil_r in L. fold defs in L. rewrite L. cbn [rbind].
    destruct (forallb (fun l => l <=? 1) (w_mask p)); cbn [guard rbind] in *; [|discriminate].
    destruct (dec_values false _ _ _ _ _) as [vs| |] eqn:DV; cbn [rbind] in *; try discriminate.
    destruct (cells_of 1 (w_mask p) vs []) as [cs|] eqn:CO; cbn [of_opt rbind] in *; [|discriminate].
    injection T as T1 T2. rewrite T1 in *. rewrite N.eqb_refl. cbn [guard rbind]. rewrite T2. reflexivity.
  - cbn [N.eqb rbind].
    assert (D0 : lenN defs = 0) by (unfold defs, w_defs; rewrite OPT; reflexivity).
    rewrite D0. cbn [N.eqb guard rbind].
    destruct (forallb (fun l => l <=? 0) (repN 0 (w_rows p) [])); cbn [guard rbind] in *; [|discriminate].
    destruct (dec_values false _ _ _ _ _) as [vs| |] eqn:DV; cbn [rbind] in *; try discriminate.
    destruct (cells_of 0 (repN 0 (w_rows p) []) vs []) as [cs|] eqn:CO; cbn [of_opt rbind] in *; [|discriminate].
    injection T as T1 T2. rewrite T1 in *. rewrite N.eqb_refl. cbn [guard rbind]. rewrite T2. reflexivity.
Qed.

(* ---- the dictionary page of a categorical column: the labels, PLAIN (BOOLEAN labels in the writer's packing) ---- *)
Theorem spec_dict_page_writer c labels :
  Forall (fun v => value_ok (wc_type c) (wc_tlen c) v = true) labels ->
  dec_page decompress false (cd_of c) (wc_codec c) None (fst (w_dict_page compress c labels)) (snd (w_dict_page compress c labels))
  = ROk (CDict labels).
Proof.
  intro OK. unfold w_dict_page. cbn [fst snd]. unfold dec_page. cbn [ph_usize ph_body]. rewrite z2n_of_N. cbn [rbind].
  unfold dec_dict_page. rewrite (inflate_deflate compress decompress codec_rt). cbn [rbind].
  rewrite N.eqb_refl. cbn [guard rbind k_nvals k_enc]. rewrite z2n_of_N. cbn [rbind Z.eqb E_PLAIN orb negb].
  destruct (w_plain_dec (wc_type c) (wc_tlen c) labels [] OK) as (r' & PD). rewrite app_nil_r in PD.
  cbn [cd_of cd_type cd_tlen]. rewrite PD. reflexivity.
Qed.

End WithCodecs.
