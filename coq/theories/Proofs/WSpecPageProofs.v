(* C02: every page kind write_column emits (Impl/WChunk.v w_data_page / w_dict_page: data page v1 and v2, PLAIN values incl. the
   BOOLEAN packing, dictionary-encoded pages = bit-width byte + one bit-packed run of raw codes, levels outside the compressed
   section of a v2 page with is_compressed, the dictionary page) is decoded by the SPECIFICATION's page decoder (Format/Page.v
   dec_page) to exactly the page's cells, null count and row count.  Lenient mode (strict = false): encode_dict does not pad the
   last bit-packed group. *)
From Coq Require Import String.
From Coq Require Import NArith ZArith Arith List Lia Bool.
From Pq Require Import Base.Bytes Base.Bits Base.ListX Proofs.BytesProofs Proofs.ListXProofs Proofs.CodecProofs
  Codec.Varint Codec.Bitpack Codec.Hybrid Thrift.Compact Format.Phys Format.Meta Format.Page Format.ChunkLayout Format.File Format.Enc
  Impl.WLevels Impl.WPagesFmt Impl.WChunk Impl.RPages.
From Pq Require Import Proofs.HybridProofs Proofs.FormatCodecProofs Proofs.FormatPageProofs Proofs.FormatFileProofs Proofs.RPagesProofs Proofs.WChunkProofs.
From Pq Require Proofs.WLevelsProofs.
From Pq Require Import Proofs.ChunkLayoutProofs Proofs.FormatChunkProofs.
Import ListNotations.
Open Scope N_scope.

(* definition levels as the specification reads them *)
Lemma spec_levels_v1 c p rest : wc_v2 c = false -> wc_optional c = true -> 0 < w_rows p -> w_rows p < 2 ^ 31 ->
  hyb_dec_len false 1 (w_rows p) (w_defs c p ++ rest) = Some (w_mask p, rest).
Proof.
  intros V1 OPT N0 NB. unfold w_defs. rewrite V1, OPT. cbn [negb].
  destruct (w_nonnull p =? w_rows p) eqn:E.
  - apply N.eqb_eq in E.
    rewrite WLevelsProofs.defs_nonull_v1_dec by first [assumption | (eapply N.lt_trans; [exact NB|reflexivity])].
    f_equal. f_equal.
    destruct p as [l|l]; cbn [w_mask w_rows w_nonnull] in *; rewrite !lenN_ok in E;
      destruct (all_some l ltac:(lia)) as [_ M]; rewrite M, lenN_ok, Nat2N.id; reflexivity.
  - rewrite <- (w_mask_length p) at 1.
    apply WLevelsProofs.defs_nulls_v1_dec.
    + destruct p; apply mask_bits.
    + pose proof (w_mask_length p). lia.
    + rewrite w_mask_length. eapply N.lt_trans; [exact NB|reflexivity].
Qed.

Lemma spec_levels_v2 c p rest : wc_v2 c = true -> wc_optional c = true -> 0 < w_rows p ->
  hyb_dec false 1 (w_rows p) (w_defs c p ++ rest) = Some (w_mask p, rest).
Proof.
  intros V2 OPT N0. unfold w_defs. rewrite V2, OPT. cbn [negb].
  destruct (w_nonnull p =? w_rows p) eqn:E.
  - apply N.eqb_eq in E.
    rewrite WLevelsProofs.defs_nonull_v2_dec by assumption.
    f_equal. f_equal.
    destruct p as [l|l]; cbn [w_mask w_rows w_nonnull] in *; rewrite !lenN_ok in E;
      destruct (all_some l ltac:(lia)) as [_ M]; rewrite M, lenN_ok, Nat2N.id; reflexivity.
  - rewrite <- (w_mask_length p) at 1.
    apply WLevelsProofs.defs_nulls_v2_dec.
    + destruct p; apply mask_bits.
    + pose proof (w_mask_length p). lia.
Qed.

Lemma mask_le1 {A} (l : list (option A)) : forallb (fun x => x <=? 1) (mask_of l) = true.
Proof. unfold mask_of. apply forallb_forall. intros x Hx. apply in_map_iff in Hx. destruct Hx as ([a|] & <- & _); reflexivity. Qed.

(* the values of a page as the specification reads them, and the scatter over the levels *)
Lemma spec_values_writer c p cells tail :
  wp_ok c p -> w_page_cells c p = Some cells -> (tail = [] \/ tail = [0; 0; 0; 0; 0; 0; 0; 0]) ->
  exists vs, dec_values false (cd_of c) (wc_labels c) (w_enc p) (w_nonnull p) (w_values c p ++ tail) = ROk vs /\
             vs = somes cells /\ mask_of cells = w_mask p.
Proof.
  intros (N0 & NB & REQ & OK) PC TL. unfold dec_values.
  destruct p as [pc|codes]; cbn [w_enc w_values w_page_cells w_nonnull w_rows w_mask] in *.
  - injection PC as <-. cbn [Z.eqb E_PLAIN cd_of cd_type cd_tlen].
    destruct (w_plain_dec (wc_type c) (wc_tlen c) (somes pc) tail OK) as (r' & PD). rewrite PD.
    exists (somes pc). repeat split.
  - destruct OK as (K & CK2 & LB).
    assert (CK : Forall (fun x => x < 256 ^ N.of_nat (wc_k c)) (somes codes)) by (eapply Forall_impl; [|exact CK2]; cbn beta; intros; lia).
    destruct (wc_labels c) as [labels|] eqn:LBL; [|now contradiction LB].
    destruct (dict_cells labels codes cells [] PC) as (LK & MK & LN).
    cbn [Z.eqb E_PLAIN E_RLE_DICT E_PLAIN_DICT orb Pos.eqb].
    unfold wr_dict_indices. cbn [app].
    assert (W32 : (32 <? 8 * N.of_nat (wc_k c)) = false) by (destruct K as [-> | [-> | ->]]; reflexivity).
    rewrite W32. rewrite <- app_assoc. rewrite lenN_ok.
    exists (somes cells). split; [|split; [reflexivity|now rewrite MK]].
    destruct (somes codes) as [|x xs] eqn:SC.
    + cbn [length]. change (N.of_nat 0) with 0. rewrite hyb_dec_zero.
      rewrite LK. reflexivity.
    + rewrite <- SC in *.
      pose proof (WLevelsProofs.dict_indices_dec (wc_k c) (somes codes) tail) as DD.
      destruct (hyb_dec false (8 * N.of_nat (wc_k c)) (N.of_nat (length (somes codes))) _) as [[ix r]|];
        [|specialize (DD ltac:(rewrite SC; cbn; lia) CK); discriminate DD].
      specialize (DD ltac:(rewrite SC; cbn; lia) CK). cbn [option_map fst] in DD. injection DD as ->.
      rewrite LK. reflexivity.
Qed.

Lemma cells_of_writer c p cells : mask_of cells = w_mask p -> wc_optional c = true ->
  cells_of 1 (w_mask p) (somes cells) [] = Some cells.
Proof. intros M _. rewrite <- M. now rewrite (cells_of_mask (A:=unit) cells []). Qed.

Lemma required_full {A} (cells : list (option A)) n : mask_of cells = repeat 1 n -> map Some (somes cells) = cells /\ length cells = n.
Proof.
  revert n. induction cells as [|[a|] r IH]; intros [|n] M; unfold mask_of in *; cbn in *; try discriminate; [split; reflexivity|].
  injection M as M. destruct (IH n M) as [I1 I2]. now rewrite I1, I2.
Qed.

Lemma cells_of_required : forall n (vs : list value) acc, length vs = n ->
  cells_of 0 (repeat 0 n) vs acc = Some (rev acc ++ map Some vs).
Proof.
  induction n as [|n IH]; intros [|v vs] acc L; cbn [length] in L; try discriminate; cbn [repeat cells_of N.eqb].
  - now rewrite rev_append_rev, !app_nil_r.
  - rewrite IH by lia. cbn [rev map]. now rewrite <- app_assoc.
Qed.

Section WithCodecs.
Variable compress : Z -> bytes -> bytes.
Variable decompress : Z -> N -> bytes -> option bytes.
Hypothesis codec_rt : forall codec b, decompress codec (lenN b) (compress codec b) = Some b.

(* levels + values + scatter, shared by v1 and v2: what remains after the levels were read *)
Lemma spec_page_tail c p cells tail :
  wp_ok c p -> w_page_cells c p = Some cells -> (tail = [] \/ tail = [0; 0; 0; 0; 0; 0; 0; 0]) ->
  let md := cd_maxdef (cd_of c) in
  let lv := if wc_optional c then w_mask p else repN 0 (w_rows p) [] in
  (let! _ := guard (forallb (fun l => l <=? md) lv) "definition level above the maximum" in
   let k := count_def md lv in
   let! vs := dec_values false (cd_of c) (wc_labels c) (w_enc p) k (w_values c p ++ tail) in
   let! cs := of_opt "x" (cells_of md lv vs []) in
   ROk (k, cs)) = ROk (w_nonnull p, cells).
Proof.
  intros WP PC TL. pose proof WP as (N0 & NB & REQ & OK).
  destruct (spec_values_writer c p cells tail WP PC TL) as (vs & DV & -> & MK).
  cbn zeta. unfold cd_of. cbn [cd_maxdef].
  destruct (wc_optional c) eqn:OPT.
  - assert (F : forallb (fun l => l <=? 1) (w_mask p) = true) by (destruct p; apply mask_le1).
    rewrite F. cbn [guard rbind]. rewrite w_count.
    unfold cd_of in DV. rewrite OPT in DV. rewrite DV. cbn [rbind].
    rewrite (cells_of_writer c p cells MK OPT). reflexivity.
  - rewrite repN_ok, app_nil_r.
    assert (F : forallb (fun l => l <=? 0) (repeat 0 (N.to_nat (w_rows p))) = true).
    { apply forallb_forall. intros x Hx. apply repeat_spec in Hx. now subst x. }
    rewrite F. cbn [guard rbind]. rewrite count_def_repeat, N2Nat.id.
    rewrite <- (REQ eq_refl) at 1.
    unfold cd_of in DV. rewrite OPT in DV. rewrite DV. cbn [rbind].
    assert (FULL : mask_of cells = repeat 1 (N.to_nat (w_rows p))).
    { rewrite MK. specialize (REQ eq_refl).
      destruct p as [l|l]; cbn [w_mask w_rows w_nonnull] in *; rewrite !lenN_ok in REQ;
        destruct (all_some l ltac:(lia)) as [_ M]; rewrite M, lenN_ok, Nat2N.id; reflexivity. }
    destruct (required_full cells _ FULL) as [MS LC].
    rewrite cells_of_required.
    + cbn [rev app of_opt rbind]. rewrite MS, (REQ eq_refl). reflexivity.
    + rewrite <- LC. rewrite <- MS at 2. now rewrite map_length.
Qed.

(* ---- data page v1 ---- *)
Theorem spec_page_v1_writer c p cells :
  wc_v2 c = false -> wp_ok c p -> w_page_cells c p = Some cells ->
  dec_page decompress false (cd_of c) (wc_codec c) (wc_labels c) (fst (w_data_page compress c p)) (snd (w_data_page compress c p))
  = ROk (CData (w_rows p) (w_rows p - w_nonnull p) cells).
Proof.
  intros V1 WP PC. pose proof WP as (N0 & NB & REQ & OK).
  unfold w_data_page. rewrite V1. cbn [fst snd]. unfold dec_page. cbn [ph_usize ph_body]. rewrite z2n_of_N. cbn [rbind].
  unfold dec_data_v1. rewrite (inflate_deflate compress decompress codec_rt). cbn [rbind].
  rewrite N.eqb_refl. cbn [guard rbind d_nvals d_dle d_enc]. rewrite z2n_of_N. cbn [rbind].
  pose proof (spec_page_tail c p cells [0; 0; 0; 0; 0; 0; 0; 0] WP PC (or_intror eq_refl)) as T. cbn zeta in T.
  unfold cd_of in *. cbn [cd_maxdef] in *.
  destruct (wc_optional c) eqn:OPT.
  - cbn [N.eqb negb Z.eqb E_RLE Pos.eqb]. change (level_width 1) with 1.
    rewrite (spec_levels_v1 c p _ V1 OPT N0 NB). cbn [of_opt rbind fst snd].
    destruct (forallb (fun l => l <=? 1) (w_mask p)); cbn [guard rbind] in *; [|discriminate].
    destruct (dec_values false _ _ _ _ _) as [vs| |]; cbn [rbind] in *; try discriminate.
    destruct (cells_of 1 (w_mask p) vs []) as [cs|]; cbn [of_opt rbind] in *; [|discriminate].
    injection T as T1 T2. rewrite T1, T2. reflexivity.
  - cbn [N.eqb rbind fst snd]. unfold w_defs at 1. rewrite OPT. cbn [negb app].
    destruct (forallb (fun l => l <=? 0) (repN 0 (w_rows p) [])); cbn [guard rbind] in *; [|discriminate].
    destruct (dec_values false _ _ _ _ _) as [vs| |]; cbn [rbind] in *; try discriminate.
    destruct (cells_of 0 (repN 0 (w_rows p) []) vs []) as [cs|]; cbn [of_opt rbind] in *; [|discriminate].
    injection T as T1 T2. rewrite T1, T2. reflexivity.
Qed.

(* ---- data page v2: levels outside the compressed section, is_compressed = (codec != UNCOMPRESSED) ---- *)
Theorem spec_page_v2_writer c p cells :
  wc_v2 c = true -> wp_ok c p -> w_page_cells c p = Some cells ->
  dec_page decompress false (cd_of c) (wc_codec c) (wc_labels c) (fst (w_data_page compress c p)) (snd (w_data_page compress c p))
  = ROk (CData (w_rows p) (w_rows p - w_nonnull p) cells).
Proof.
  intros V2 WP PC. pose proof WP as (N0 & NB & REQ & OK). pose proof (w_nonnull_le p) as LE.
  unfold w_data_page. rewrite V2. cbn [fst snd]. unfold dec_page. cbn [ph_usize ph_body].
  rewrite <- N2Z.inj_add, z2n_of_N. cbn [rbind].
  unfold dec_data_v2. cbn [d2_nvals d2_nnulls d2_nrows d2_dlen d2_rlen d2_enc d2_iscomp].
  rewrite !z2n_of_N. cbn [rbind]. change (z2n "data page v2: negative repetition_levels_byte_length" 0%Z) with (ROk (A:=N) 0).
  cbn [rbind N.eqb guard]. rewrite N.eqb_refl. cbn [guard rbind].
  set (defs := w_defs c p). set (vals := w_values c p). set (body := deflate compress (wc_codec c) vals).
  assert (G1 : (lenN defs <=? lenN (defs ++ body)) = true) by (apply N.leb_le; rewrite !lenN_ok, app_length; lia).
  assert (G2 : (lenN defs <=? lenN defs + lenN vals) = true) by (apply N.leb_le; lia).
  rewrite G1, G2. cbn [guard rbind].
  rewrite FormatPageProofs.takeN_app_exact, FormatPageProofs.dropN_app_exact.
  match goal with |- rbind ?x _ = _ => replace x with (ROk (A:=bytes) vals) end.
  2:{ unfold body, deflate, inflate. destruct (wc_codec c =? 0)%Z eqn:C0; cbn [negb]; [reflexivity|].
      replace (lenN defs + lenN vals - lenN defs) with (lenN vals) by lia. now rewrite codec_rt. }
  cbn beta. cbn [rbind]. rewrite (N.add_comm (lenN vals)), N.eqb_refl. cbn [guard rbind].
  pose proof (spec_page_tail c p cells [] WP PC (or_introl eq_refl)) as T. cbn zeta in T. rewrite app_nil_r in T. fold vals in T.
  unfold cd_of in *. cbn [cd_maxdef] in *.
  destruct (wc_optional c) eqn:OPT.
  - cbn [N.eqb]. change (level_width 1) with 1.
    pose proof (spec_levels_v2 c p [] V2 OPT N0) as L. rewrite app_nil_r in L. fold defs in L. rewrite L. cbn [rbind].
    destruct (forallb (fun l => l <=? 1) (w_mask p)); cbn [guard rbind] in *; [|discriminate].
    destruct (dec_values false _ _ _ _ _) as [vs| |] eqn:DV; cbn [rbind] in *; try discriminate.
    destruct (cells_of 1 (w_mask p) vs []) as [cs|] eqn:CO; cbn [of_opt rbind] in *; [|discriminate].
    injection T as T1 T2. rewrite T1 in *. rewrite N.eqb_refl. cbn [guard rbind]. rewrite T2. reflexivity.
  - cbn [N.eqb rbind].
    assert (D0 : lenN defs = 0) by (unfold defs, w_defs; rewrite OPT; reflexivity).
    rewrite D0. cbn [N.eqb guard rbind].
    destruct (forallb (fun l => l <=? 0) (repN 0 (w_rows p) [])); cbn [guard rbind] in *; [|discriminate].
    destruct (dec_values false _ _ _ _ _) as [vs| |] eqn:DV; cbn [rbind] in *; try discriminate.
    destruct (cells_of 0 (repN 0 (w_rows p) []) vs []) as [cs|] eqn:CO; cbn [of_opt rbind] in *; [|discriminate].
    injection T as T1 T2. rewrite T1 in *. rewrite N.eqb_refl. cbn [guard rbind]. rewrite T2. reflexivity.
Qed.

(* ---- the dictionary page of a categorical column: the labels, PLAIN (BOOLEAN labels in the writer's packing) ---- *)
Theorem spec_dict_page_writer c labels :
  Forall (fun v => value_ok (wc_type c) (wc_tlen c) v = true) labels ->
  dec_page decompress false (cd_of c) (wc_codec c) None (fst (w_dict_page compress c labels)) (snd (w_dict_page compress c labels))
  = ROk (CDict labels).
Proof.
  intro OK. unfold w_dict_page. cbn [fst snd]. unfold dec_page. cbn [ph_usize ph_body]. rewrite z2n_of_N. cbn [rbind].
  unfold dec_dict_page. rewrite (inflate_deflate compress decompress codec_rt). cbn [rbind].
  rewrite N.eqb_refl. cbn [guard rbind k_nvals k_enc]. rewrite z2n_of_N. cbn [rbind Z.eqb E_PLAIN orb negb].
  destruct (w_plain_dec (wc_type c) (wc_tlen c) labels [] OK) as (r' & PD). rewrite app_nil_r in PD.
  cbn [cd_of cd_type cd_tlen]. rewrite PD. reflexivity.
Qed.

(* ---- the page loop of the specification's chunk scan over the writer's chunk bytes ------------------------------- *)
Definition w_summary (hp : phdr * bytes) : page :=
  {| p_kind := pkind_of (ph_body (fst hp)); p_hdr := Z.of_N (lenN (enc_phdr (fst hp))); p_comp := ph_csize (fst hp);
     p_uncomp := ph_usize (fst hp); p_nvals := pnvals_of (ph_body (fst hp)); p_enc := penc_of (ph_body (fst hp)) |}.

Lemma w_data_csize c p : ph_csize (fst (w_data_page compress c p)) = Z.of_N (lenN (snd (w_data_page compress c p))).
Proof.
  unfold w_data_page. destruct (wc_v2 c); cbn [fst snd ph_csize]; [|reflexivity].
  rewrite <- N2Z.inj_add. f_equal. rewrite !lenN_ok, app_length. lia.
Qed.

Definition w_page_nulls (p : wpage) : N := w_rows p - w_nonnull p.

Theorem scan_pages_writer c : forall ps clock pages cells0 nulls cells,
  Forall (wp_ok c) ps ->
  Forall (fun p => phdr_wf (fst (w_data_page compress c p)) = true) ps ->
  w_pages_cells c ps = Some cells ->
  (length (concat (map (wp_bytes compress c) ps)) <= length clock)%nat ->
  scan_pages decompress clock false (cd_of c) (wc_codec c) (wc_labels c) (concat (map (wp_bytes compress c) ps)) pages cells0 nulls
  = ROk (rev pages ++ map (fun p => w_summary (w_data_page compress c p)) ps, rev cells0 ++ cells,
         nulls + sumN (map w_page_nulls ps)).
Proof.
  induction ps as [|p r IH]; intros clock pages cells0 nulls cells W HW C L.
  - cbn [w_pages_cells] in C. injection C as <-. cbn [map concat scan_pages].
    destruct clock; cbn [scan_pages]; rewrite !rev_append_rev, !app_nil_r; unfold sumN; cbn; now rewrite N.add_0_r.
  - assert (Wp : wp_ok c p) by (inversion W; assumption).
    assert (Wr : Forall (wp_ok c) r) by (inversion W; assumption).
    assert (Hp : phdr_wf (fst (w_data_page compress c p)) = true) by (inversion HW; assumption).
    assert (Hr : Forall (fun p => phdr_wf (fst (w_data_page compress c p)) = true) r) by (inversion HW; assumption).
    cbn [w_pages_cells] in C.
    destruct (w_page_cells c p) as [cs|] eqn:PC; [|discriminate].
    destruct (w_pages_cells c r) as [cr|] eqn:PCr; [|discriminate]. injection C as <-.
    cbn [map concat] in L |- *. unfold wp_bytes at 1. unfold wp_bytes at 1 in L.
    set (hp := w_data_page compress c p) in *.
    set (restb := concat (map (wp_bytes compress c) r)) in *.
    destruct (page_bytes_shape hp restb) as (x & l & B & E). rewrite B in *.
    destruct clock as [|c0 clock']; [cbn [length] in L; lia|].
    cbn [scan_pages].
    replace (x :: l ++ snd hp ++ restb) with (enc_phdr (fst hp) ++ (snd hp ++ restb)) by (rewrite E; reflexivity).
    rewrite phdr_roundtrip by exact Hp. cbn [rbind].
    assert (L' : (length restb <= length clock')%nat) by (cbn [length] in L; rewrite !app_length in L; lia).
    unfold hp at 1. rewrite w_data_csize. fold hp. rewrite z2n_of_N. cbn [rbind].
    assert (G : (lenN (snd hp) <=? lenN (snd hp ++ restb)) = true) by (apply N.leb_le; rewrite !lenN_ok, app_length; lia).
    rewrite G. cbn [guard rbind].
    rewrite FormatPageProofs.takeN_app_exact, FormatPageProofs.dropN_app_exact.
    assert (DP : dec_page decompress false (cd_of c) (wc_codec c) (wc_labels c) (fst hp) (snd hp)
                 = ROk (CData (w_rows p) (w_rows p - w_nonnull p) cs)).
    { unfold hp. destruct (wc_v2 c) eqn:V2; [apply spec_page_v2_writer|apply spec_page_v1_writer]; assumption. }
    rewrite DP. cbn [rbind].
    rewrite (IH clock' _ _ _ cr Wr Hr eq_refl L').
    cbn [map rev]. rewrite sumN_cons. unfold w_page_nulls at 2.
    rewrite rev_append_rev, rev_app_distr, rev_involutive, <- !app_assoc. cbn [app].
    unfold w_summary, hp. f_equal. f_equal. lia.
Qed.

(* the whole chunk: the dictionary page of a categorical (if any), then the data pages *)
Definition w_chunk_summaries (c : wchunk) : list page :=
  (match wc_labels c with Some labels => [w_summary (w_dict_page compress c labels)] | None => [] end)
  ++ map (fun p => w_summary (w_data_page compress c p)) (wc_pages c).

Definition w_chunk_nulls (c : wchunk) : N := sumN (map w_page_nulls (wc_pages c)).

Theorem scan_chunk_writer c clock cells :
  wchunk_ok compress c -> w_chunk_cells c = Some cells ->
  (length (w_chunk compress c) <= length clock)%nat ->
  scan_pages decompress clock false (cd_of c) (wc_codec c) None (w_chunk compress c) [] [] 0
  = ROk (w_chunk_summaries c, cells, w_chunk_nulls c).
Proof.
  intros (W & HW & LAB) C L. unfold w_chunk, w_chunk_summaries, w_chunk_nulls in *. unfold w_chunk_cells in C.
  destruct (wc_labels c) as [labels|] eqn:LBL.
  - destruct LAB as [HD VD].
    set (hp := w_dict_page compress c labels) in *.
    set (restb := concat (map (fun p => w_page_bytes (w_data_page compress c p)) (wc_pages c))) in *.
    destruct (page_bytes_shape hp restb) as (x & l & B & E). rewrite B in *.
    destruct clock as [|c0 clock']; [cbn [length] in L; lia|].
    cbn [scan_pages].
    replace (x :: l ++ snd hp ++ restb) with (enc_phdr (fst hp) ++ (snd hp ++ restb)) by (rewrite E; reflexivity).
    rewrite phdr_roundtrip by exact HD. cbn [rbind].
    assert (L' : (length restb <= length clock')%nat) by (cbn [length] in L; rewrite !app_length in L; lia).
    assert (CS : ph_csize (fst hp) = Z.of_N (lenN (snd hp))) by reflexivity.
    rewrite CS, z2n_of_N. cbn [rbind].
    assert (G : (lenN (snd hp) <=? lenN (snd hp ++ restb)) = true) by (apply N.leb_le; rewrite !lenN_ok, app_length; lia).
    rewrite G. cbn [guard rbind].
    rewrite FormatPageProofs.takeN_app_exact, FormatPageProofs.dropN_app_exact.
    unfold hp at 1 2. rewrite (spec_dict_page_writer c labels VD). cbn [rbind].
    pose proof (scan_pages_writer c (wc_pages c) clock' [w_summary hp] [] 0 cells W HW) as SP.
    rewrite LBL in SP. unfold wp_bytes in SP. fold restb in SP.
    assert (SM : {| p_kind := pkind_of (ph_body (fst hp)); p_hdr := Z.of_N (lenN (enc_phdr (fst hp))); p_comp := Z.of_N (lenN (snd hp));
                    p_uncomp := ph_usize (fst hp); p_nvals := pnvals_of (ph_body (fst hp)); p_enc := penc_of (ph_body (fst hp)) |}
                 = w_summary hp) by reflexivity.
    rewrite SM. rewrite SP by (try exact C; try exact L'). reflexivity.
  - cbn [app] in *.
    pose proof (scan_pages_writer c (wc_pages c) clock [] [] 0 cells W HW) as SP.
    rewrite LBL in SP. unfold wp_bytes in SP. rewrite SP by (try exact C; try exact L). reflexivity.
Qed.

(* ---- bookkeeping: the summaries of the writer's pages are what C02_fp_write_chunk_valid asks for --------------------- *)
Lemma w_summary_sane hp : (exists a b, ph_csize (fst hp) = Z.of_N a /\ ph_usize (fst hp) = Z.of_N b) ->
  (0 <=? pnvals_of (ph_body (fst hp)))%Z = true -> sane (w_summary hp) = true.
Proof.
  intros (a & b & CA & CB) NV. unfold sane, w_summary. cbn [p_hdr p_comp p_uncomp p_nvals]. rewrite CA, CB, NV.
  destruct (enc_phdr_nonempty (fst hp)) as (x & l & E). rewrite E.
  assert (P : (0 <? Z.of_N (lenN (x :: l)))%Z = true) by (apply Z.ltb_lt; rewrite lenN_ok; cbn [length]; lia).
  assert (A1 : (0 <=? Z.of_N a)%Z = true) by (apply Z.leb_le; lia).
  assert (B1 : (0 <=? Z.of_N b)%Z = true) by (apply Z.leb_le; lia).
  rewrite P, A1, B1. reflexivity.
Qed.

Lemma w_data_summary_sane c p : sane (w_summary (w_data_page compress c p)) = true.
Proof.
  apply w_summary_sane.
  - unfold w_data_page. destruct (wc_v2 c); cbn [fst ph_csize ph_usize].
    + exists (lenN (w_defs c p) + lenN (deflate compress (wc_codec c) (w_values c p))), (lenN (w_defs c p) + lenN (w_values c p)).
      now rewrite !N2Z.inj_add.
    + eexists _, _. split; reflexivity.
  - unfold w_data_page. destruct (wc_v2 c); cbn [fst ph_body pnvals_of d2_nvals d_nvals]; apply Z.leb_le; lia.
Qed.

Lemma w_data_summary_is_data c p : is_data (w_summary (w_data_page compress c p)) = true.
Proof. unfold w_data_page, is_data, w_summary. destruct (wc_v2 c); reflexivity. Qed.

Lemma w_dict_summary_sane c labels : sane (w_summary (w_dict_page compress c labels)) = true.
Proof.
  apply w_summary_sane.
  - unfold w_dict_page. cbn [fst ph_csize ph_usize]. eexists _, _. split; reflexivity.
  - unfold w_dict_page. cbn [fst ph_body pnvals_of k_nvals]. apply Z.leb_le. lia.
Qed.

(* THE C02 STATEMENT for every page kind: a chunk of the writer model (any pages: v1 / v2, PLAIN incl. BOOLEAN, dictionary-encoded with
   its dictionary page, any codec) whose ColumnMetaData are those of the pos/diff bookkeeping over the pages written
   (a) is scanned by the specification's page loop to exactly the column, its pages and its NULL count, and
   (b) passes the validator's chunk check. *)
Theorem fp_write_chunk_all_kinds c clock cells (m : cmd) rg start encs :
  wchunk_ok compress c -> w_chunk_cells c = Some cells -> wc_pages c <> [] ->
  (length (w_chunk compress c) <= length clock)%nat ->
  let ps := w_chunk_summaries c in
  forallb (fun p => existsb (Z.eqb (p_enc p)) encs) ps = true ->
  cmeta_of m = wr_bookkeeping start (sumZ (map p_nvals (filter is_data ps))) encs ps ->
  cm_nvals m = rg_nrows rg ->
  (cm_null_count m = None \/ cm_null_count m = Some (Z.of_N (w_chunk_nulls c))) ->
  scan_pages decompress clock false (cd_of c) (wc_codec c) None (w_chunk compress c) [] [] 0 = ROk (ps, cells, w_chunk_nulls c) /\
  valid_chunk rg (CHere {| co_meta := m; co_pages := ps; co_cells := cells; co_nulls := w_chunk_nulls c |}) = ROk tt.
Proof.
  intros WOK C NE L ps ENC BK NV NC. split; [exact (scan_chunk_writer c clock cells WOK C L)|].
  assert (DS : forallb is_data (map (fun p => w_summary (w_data_page compress c p)) (wc_pages c)) = true).
  { apply forallb_forall. intros x Hx. apply in_map_iff in Hx. destruct Hx as (p & <- & _). apply w_data_summary_is_data. }
  assert (SS : forallb sane (map (fun p => w_summary (w_data_page compress c p)) (wc_pages c)) = true).
  { apply forallb_forall. intros x Hx. apply in_map_iff in Hx. destruct Hx as (p & <- & _). apply w_data_summary_sane. }
  assert (MN : map (fun p => w_summary (w_data_page compress c p)) (wc_pages c) <> []).
  { destruct (wc_pages c); [contradiction|discriminate]. }
  apply (fp_write_chunk_valid start encs ps m cells (w_chunk_nulls c) rg); try assumption; unfold ps, w_chunk_summaries in *.
  - destruct (wc_labels c); cbn [app]; [discriminate|exact MN].
  - destruct (wc_labels c); cbn [app tl]; [exact DS|].
    destruct (map _ (wc_pages c)) as [|y ys]; [reflexivity|]. cbn [forallb tl] in *. apply andb_true_iff in DS. tauto.
  - destruct (wc_labels c); cbn [app hd tl]; intros H; [exact MN|].
    destruct (map _ (wc_pages c)) as [|y ys]; [contradiction|]. cbn [hd forallb] in *. apply andb_true_iff in DS. destruct DS as [D _].
    rewrite D in H. discriminate.
  - destruct (wc_labels c); cbn [app forallb]; [rewrite w_dict_summary_sane; exact SS|exact SS].
Qed.

End WithCodecs.
