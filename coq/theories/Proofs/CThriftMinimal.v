(* C10: MINIMAL witnesses of the open .pyx findings, each next to the nearest input that is handled correctly, so that the
   extent of every defect is explicit (what the known-finding signatures may suppress and what they may not):
     field 14 dropped            {14: 0}              vs {13: 0}  (kept)
     i8 / i16 wire types         {1: i8 0}, {1: i16 0} vs {1: i32 0}, {1: i64 0}  (byte-identical)
     empty list header           {1: list<struct> []}  vs {1: list<struct> [{}]}  (byte-identical)
     silent truncation           {1: 0, 2: 0} in a 2-byte buffer (one byte short)  vs a 3-byte buffer
     overflow                    {1: b"\0"} in a 2-byte buffer (the copy of ONE byte runs past the end) vs a 4-byte buffer  *)
From Coq Require Import NArith ZArith List Bool.
From Pq Require Import Base.Bytes Thrift.Varint Thrift.Compact Impl.CThrift Impl.CThriftSpec.
Import ListNotations.
Open Scope N_scope.

Local Notation ser := (CThrift.ser ids13).
Local Notation to_bytes := (CThrift.to_bytes ids13).

Definition reser (t : tv) : option bytes :=
  match from_buffer (wr t) with Some (v, []) => ser v | _ => None end.

Theorem field14_minimal :
  ser (PDict false None [(14%Z, PInt 0)]) = Some [0] /\                       (* only the stop byte: the field is gone *)
  ser (PDict false None [(13%Z, PInt 0)]) = Some [214; 0; 0].                 (* id 13: header (13 << 4 | 6), zigzag 0, stop *)
Proof. split; vm_compute; reflexivity. Qed.

Theorem small_ints_minimal :
  wr (TStruct [(1, TI8 0)]) = [19; 0; 0] /\ reser (TStruct [(1, TI8 0)]) = Some [22; 0; 0] /\      (* nibble 3 -> 6 *)
  wr (TStruct [(1, TI16 0)]) = [20; 0; 0] /\ reser (TStruct [(1, TI16 0)]) = Some [22; 0; 0] /\    (* nibble 4 -> 6 *)
  reser (TStruct [(1, TI32 0)]) = Some (wr (TStruct [(1, TI32 0)])) /\
  reser (TStruct [(1, TI64 0)]) = Some (wr (TStruct [(1, TI64 0)])).
Proof. repeat split; vm_compute; reflexivity. Qed.

Theorem empty_list_minimal :
  wr (TStruct [(1, TList 12 [])]) = [25; 12; 0] /\                               (* size 0, element type struct *)
  ser (PDict false None [(1%Z, PList [])]) = Some [25; 0; 0] /\                  (* write_list: one 0x00 byte, element type lost *)
  reser (TStruct [(1, TList 12 [TStruct []])]) = Some (wr (TStruct [(1, TList 12 [TStruct []])])).
Proof. repeat split; vm_compute; reflexivity. Qed.

Theorem truncation_minimal :
  ser (PDict false None [(1%Z, PInt 0); (2%Z, PInt 0)]) = Some [22; 0; 22; 0; 0] /\
  to_bytes 4 (PDict false None [(1%Z, PInt 0); (2%Z, PInt 0)]) = OBytes [22; 0; 22; 0] /\     (* one byte short: no stop byte, no error *)
  to_bytes 5 (PDict false None [(1%Z, PInt 0); (2%Z, PInt 0)]) = OBytes [22; 0; 22; 0; 0].
Proof. repeat split; vm_compute; reflexivity. Qed.

Theorem overflow_minimal :
  ser (PDict false None [(1%Z, PBytes [0])]) = Some [24; 1; 0; 0] /\
  to_bytes 2 (PDict false None [(1%Z, PBytes [0])]) = OOob /\                     (* header + length fit, the 1-byte copy does not *)
  to_bytes 4 (PDict false None [(1%Z, PBytes [0])]) = OBytes [24; 1; 0; 0].
Proof. repeat split; vm_compute; reflexivity. Qed.
