(* Proofs/CatReadMerge.v — what IS guaranteed about a categorical column read across files that carry their
   own dictionaries (property C14; the model is Dataset/CatRead.v, shared with C07).

   The reader interprets every code with the dictionary it read LAST.  The exact condition under which every
   row nevertheless shows its own label:

       for every row group, for every code c that OCCURS in it,
           (own dictionary)[c]  =  (last dictionary)[c]               (both as `nth_error`: undefined = undefined)

   `read_cat_iff` proves that this is necessary and sufficient, for every list of chunks.  Corollaries: dictionaries
   that are prefixes of the last one (label sets growing from file to file) read right; dictionaries that agree
   only up to ORDER do not (computed witness); unused labels may differ freely.                               *)
From Coq Require Import NArith Arith List Bool Lia.
From Pq Require Import Dataset.CatRead Dataset.CatGuard.
Import ListNotations.

(* the guard: every code that occurs means the same under the chunk's own dictionary and under `final` *)
Definition codes_agree (final : list label) (ch : chunk) : Prop :=
  forall c, In (Some c) (snd ch) -> nth_error (own_labels ch) c = nth_error final c.

Lemma opt_label_eqb_spec a b : opt_label_eqb a b = true <-> a = b.
Proof.
  destruct a as [x|], b as [y|]; cbn; try (split; congruence).
  rewrite N.eqb_eq. split; congruence.
Qed.

Lemma codes_agree_b_spec final ch : codes_agree_b final ch = true <-> codes_agree final ch.
Proof.
  unfold codes_agree_b, codes_agree. rewrite forallb_forall. split.
  - intros H c Hc. specialize (H (Some c) Hc). cbn in H. apply opt_label_eqb_spec. exact H.
  - intros H [c|] Hc; [|reflexivity]. apply opt_label_eqb_spec. apply H. exact Hc.
Qed.

Lemma cell_of_eq_iff d1 d2 c : cell_of d1 (Some c) = cell_of d2 (Some c) <-> nth_error d1 c = nth_error d2 c.
Proof.
  cbn. destruct (nth_error d1 c) as [x|], (nth_error d2 c) as [y|]; split; intros H; congruence.
Qed.

Lemma map_cell_eq_iff d1 d2 codes :
  map (cell_of d1) codes = map (cell_of d2) codes <->
  (forall c, In (Some c) codes -> nth_error d1 c = nth_error d2 c).
Proof.
  induction codes as [|oc r IH].
  - split; [intros _ c []|reflexivity].
  - cbn [map]. split.
    + intros H. injection H as H1 H2. intros c [E|Hin].
      * subst oc. apply cell_of_eq_iff. exact H1.
      * apply IH; assumption.
    + intros H. f_equal.
      * destruct oc as [c|]; [|reflexivity]. apply cell_of_eq_iff. apply H. left. reflexivity.
      * apply IH. intros c Hc. apply H. right. exact Hc.
Qed.

Lemma app_eq_len {A} : forall (a c b d : list A), length a = length c -> a ++ b = c ++ d -> a = c /\ b = d.
Proof.
  induction a as [|x a IH]; intros [|y c] b d Hl H; cbn in *; try discriminate.
  - split; [reflexivity|exact H].
  - injection H as Hx H. injection Hl as Hl. destruct (IH c b d Hl H) as [E1 E2]. subst. split; reflexivity.
Qed.

(* for ANY label list F used for all chunks (the reader's F is the last dictionary) *)
Lemma read_with_iff (F : list label) chunks :
  map (cell_of F) (concat (map snd chunks)) = expected_cat chunks <-> Forall (codes_agree F) chunks.
Proof.
  unfold expected_cat. induction chunks as [|ch r IH].
  - cbn. split; [constructor|reflexivity].
  - cbn [map concat]. rewrite map_app. split.
    + intros H. apply app_eq_len in H; [|rewrite !map_length; reflexivity].
      destruct H as [H1 H2]. constructor.
      * unfold codes_agree, own_labels. intros c Hc. symmetry. revert c Hc. apply map_cell_eq_iff. exact H1.
      * apply IH. exact H2.
    + intros H. inversion H as [|x l Hx Hr]; subst. f_equal.
      * apply map_cell_eq_iff. intros c Hc. symmetry. apply Hx. exact Hc.
      * apply IH. exact Hr.
Qed.

(* EXACT characterisation, every list of chunks, every initial label list *)
Theorem read_cat_iff init chunks :
  read_cat init chunks = expected_cat chunks <-> Forall (codes_agree (final_labels init chunks)) chunks.
Proof. unfold read_cat. apply read_with_iff. Qed.

Theorem read_cat_guard_sufficient : forall (init : list label) (chunks : list chunk),
  Forall (fun ch => forall c, In (Some c) (snd ch) ->
                    nth_error (own_labels ch) c = nth_error (final_labels init chunks) c) chunks ->
  read_cat init chunks = expected_cat chunks.
Proof. intros init chunks H. apply read_cat_iff. exact H. Qed.

Theorem read_cat_guard_b init chunks :
  guard_b init chunks = true <-> read_cat init chunks = expected_cat chunks.
Proof.
  rewrite read_cat_iff. unfold guard_b. rewrite forallb_forall, Forall_forall.
  split; intros H ch Hc; apply codes_agree_b_spec; apply H; exact Hc.
Qed.

(* ---- corollary: label sets that grow (every dictionary a prefix of the last one), codes inside the own dictionary *)
Definition is_prefix (d final : list label) : Prop := exists rest, final = d ++ rest.
Definition codes_in_range (ch : chunk) : Prop := forall c, In (Some c) (snd ch) -> c < length (own_labels ch).

Theorem read_cat_prefix init chunks :
  Forall (fun ch => is_prefix (own_labels ch) (final_labels init chunks) /\ codes_in_range ch) chunks ->
  read_cat init chunks = expected_cat chunks.
Proof.
  intros H. apply read_cat_iff. rewrite Forall_forall in *. intros ch Hin c Hc.
  destruct (H ch Hin) as [[rest E] Hr]. rewrite E. symmetry. apply nth_error_app1. apply Hr. exact Hc.
Qed.

(* ---- corollary: labels that no row uses may differ freely (e.g. unused categories at the end) *)
Theorem read_cat_unused_free init chunks :
  (forall ch c, In ch chunks -> In (Some c) (snd ch) -> nth_error (own_labels ch) c = nth_error (final_labels init chunks) c) ->
  read_cat init chunks = expected_cat chunks.
Proof.
  intros H. apply read_cat_iff. rewrite Forall_forall. intros ch Hin c Hc. apply H; assumption.
Qed.

(* ---- dictionaries that hold the SAME labels in another order are NOT enough *)
Definition same_label_set (d1 d2 : list label) : Prop := forall l, In l d1 <-> In l d2.

Theorem read_cat_permuted_refuted :
  exists chunks, (forall ch1 ch2, In ch1 chunks -> In ch2 chunks -> same_label_set (own_labels ch1) (own_labels ch2))
              /\ Forall codes_in_range chunks
              /\ read_cat [] chunks <> expected_cat chunks.
Proof.
  exists [(Some [1%N; 2%N], [Some 0]); (Some [2%N; 1%N], [Some 0])]. split; [|split].
  - intros ch1 ch2 [E1|[E1|[]]] [E2|[E2|[]]]; subst; intros l; cbn; tauto.
  - constructor; [|constructor; [|constructor]]; intros c [E|[]]; inversion E; cbn; lia.
  - vm_compute. discriminate.
Qed.

Example guard_nonvacuous :
  guard_b [] [(Some [7%N], [Some 0; None]); (Some [7%N; 8%N; 9%N], [Some 1; Some 0])] = true /\
  guard_b [] [(Some [7%N; 8%N], [Some 1]); (Some [7%N; 9%N], [Some 0])] = false /\
  guard_b [] [(Some [7%N; 8%N], [Some 0]); (Some [7%N; 9%N], [Some 0; Some 1])] = true.
Proof. vm_compute. repeat split. Qed.
