(* cencoding.read_rle (impl model) = the RLE run of the specification, for every width 0..32,
   every count, every output capacity. *)
From Coq Require Import NArith ZArith Arith List Lia Bool.
From Pq Require Import Base.Bytes Base.Bits Base.Err Base.ListX
  Proofs.BytesProofs Proofs.ListXProofs Proofs.CBitpackProofs
  Codec.Hybrid Impl.CBitpack Impl.CRle.
Import ListNotations.
Open Scope N_scope.

Lemma rle_value_ok : forall width inp i acc,
  bytes_ok inp -> (width <= length inp)%nat -> i + N.of_nat width <= 4 -> acc < 2 ^ (8 * i) ->
  rle_value inp width i acc = Ok (acc + 2 ^ (8 * i) * le2n (firstn width inp)).
Proof.
  induction width as [|k IH]; intros inp i acc Hok Hlen Hi Hacc.
  - destruct inp; cbn [rle_value firstn le2n]; now rewrite N.mul_0_r, N.add_0_r.
  - destruct inp as [|b r]; [cbn [length] in Hlen; lia|].
    cbn [rle_value firstn]. rewrite le2n_cons.
    pose proof (Forall_inv Hok) as Hb. cbv beta in Hb. pose proof (Forall_inv_tail Hok) as Hr.
    destruct (N.leb_spec 32 (8 * i)) as [H32|H32]; [lia|].
    rewrite IH; try assumption; try (cbn [length] in Hlen; lia); try lia.
    + f_equal.
      rewrite shiftl_mul, land_ones_mod.
      assert (Hs : b * 2 ^ (8 * i) < 2 ^ 32).
      { replace 32 with (8 + 24) by lia. rewrite N.pow_add_r. change (2 ^ 8) with 256.
        assert (2 ^ (8 * i) <= 2 ^ 24) by (apply N.pow_le_mono_r; lia).
        pose proof (pow2_pos (8 * i)). nia. }
      rewrite (N.mod_small _ _ Hs).
      rewrite <- (N.mod_small acc (2 ^ (8 * i))) at 1 by exact Hacc.
      rewrite lor_disjoint_add. rewrite N.mod_small by exact Hacc.
      replace (8 * (i + 1)) with (8 * i + 8) by lia. rewrite N.pow_add_r. change (2 ^ 8) with 256. lia.
    + rewrite shiftl_mul, land_ones_mod.
      assert (Hs : b * 2 ^ (8 * i) < 2 ^ 32).
      { replace 32 with (8 + 24) by lia. rewrite N.pow_add_r. change (2 ^ 8) with 256.
        assert (2 ^ (8 * i) <= 2 ^ 24) by (apply N.pow_le_mono_r; lia).
        pose proof (pow2_pos (8 * i)). nia. }
      rewrite (N.mod_small _ _ Hs).
      rewrite <- (N.mod_small acc (2 ^ (8 * i))) at 1 by exact Hacc.
      rewrite lor_disjoint_add. rewrite N.mod_small by exact Hacc.
      replace (8 * (i + 1)) with (8 * i + 8) by lia. rewrite N.pow_add_r. change (2 ^ 8) with 256.
      pose proof (pow2_pos (8 * i)). nia.
Qed.

Ltac Zify.zify_post_hook ::= Z.to_euclidean_division_equations.
Lemma rle_count_ok c : c < 2 ^ 31 -> rle_count (Z.of_N (2 * c)) = c.
Proof.
  intros H. unfold rle_count. rewrite Z.shiftr_div_pow2 by lia.
  change (2 ^ 31) with 2147483648 in H. change (2 ^ 1)%Z with 2%Z. change (2 ^ 32)%Z with 4294967296%Z. lia.
Qed.
Lemma vbytes_le4 w : w <= 32 -> (w + 7) / 8 <= 4.
Proof. intros. lia. Qed.
Ltac Zify.zify_post_hook ::= idtac.

(* MAIN THEOREM: an RLE run of `count` repetitions, width 0..32, value bytes present: no read outside
   the input, no undefined shift, exactly min(count, capacity) copies of the run's value (the
   little-endian number in the ceil(w/8) value bytes, as the specification says), input cursor
   right behind the value bytes. *)
Theorem read_rle_correct w count isz cap input :
  w <= 32 -> isz = 1 \/ isz = 4 -> count < 2 ^ 31 ->
  bytes_ok input -> vbytes w <= N.of_nat (length input) ->
  c_read_rle input (Z.of_N (2 * count)) w cap isz =
  Ok {| d_vals := repeat (tr isz (le2n (firstn (N.to_nat (vbytes w)) input))) (N.to_nat (N.min count (cap / isz)));
        d_used := vbytes w;
        d_written := isz * N.min count (cap / isz) |}.
Proof.
  intros Hw Hisz Hc Hok Hlen. unfold c_read_rle, vbytes in *.
  rewrite rle_count_ok by exact Hc.
  pose proof (vbytes_le4 w Hw) as H4.
  rewrite rle_value_ok; try assumption; try lia.
  rewrite N.mul_0_r, N.pow_0_r, N.add_0_l, N.mul_1_l.
  set (v := le2n _).
  assert (Em : (if cap / isz <? count then cap / isz else count) = N.min count (cap / isz)).
  { destruct (N.ltb_spec (cap / isz) count); lia. }
  rewrite Em. f_equal. f_equal.
  - rewrite repN_ok, app_nil_r. unfold tr. reflexivity.
  - destruct Hisz; subst isz; reflexivity.
Qed.
