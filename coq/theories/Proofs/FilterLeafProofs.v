(* Soundness of the leaf decisions (committed copy Impl/FilterLeaf.v of the translated api.py text).
   The same statements are re-proved on every run on the freshly translated text by
   coq/genproofs/GenFilterProofs.v (identical script, other import). *)
From Coq Require Import ZArith List String Bool Lia.
From Pq Require Import Base.PyVal Impl.Filter Impl.FilterLeaf Proofs.PyValProofs Proofs.FilterTactics.
Import ListNotations.
Open Scope string_scope.
Open Scope Z_scope.

Theorem leaf_scalar_int_sound : forall op, In op scalar_ops -> forall v vmin vmax z,
  lo_ok_int vmin z -> hi_ok_int vmax z ->
  ok_true (filter_val (PStr op) (PInt v) vmin vmax) = true -> sat op (PInt z) (PInt v) = false.
Proof.
  intros op Hop. cbn [scalar_ops In] in Hop.
  repeat (destruct Hop as [<-|Hop];
          [intros v vmin vmax z Hlo Hhi H; bound_shapes Hlo Hhi;
           unfold filter_val, filter_in, filter_not_in, _handle_np_array in H; leaf_scalar_int H|]).
  contradiction.
Qed.

Theorem leaf_in_int_sound : forall vs vmin vmax z,
  lo_ok_int vmin z -> hi_ok_int vmax z ->
  ok_true (filter_val (PStr "in") (ints vs) vmin vmax) = true -> sat "in" (PInt z) (ints vs) = false.
Proof.
  intros vs vmin vmax z Hlo Hhi H; bound_shapes Hlo Hhi;
  unfold filter_val, filter_in, filter_not_in, _handle_np_array in H; leaf_list_int H.
Qed.
