(* Proofs about Dataset/Handle.v: `inventory_ok` is sufficient for handle coherence, for every program. *)
From Coq Require Import List String Bool Arith Lia.
From Pq Require Import Dataset.Handle.
Import ListNotations.
Open Scope string_scope.
Open Scope list_scope.

Lemma mem_In : forall a l, mem a l = true <-> In a l.
Proof.
  intros a l. unfold mem. rewrite existsb_exists. split.
  - intros [x [Hin He]]. apply String.eqb_eq in He. subst. exact Hin.
  - intros Hin. exists a. split; [exact Hin | apply String.eqb_refl].
Qed.

Lemma disjointb_spec : forall l1 l2, disjointb l1 l2 = true -> forall c, In c l1 -> ~ In c l2.
Proof.
  intros l1 l2 H c Hc Hc2. unfold disjointb in H. rewrite forallb_forall in H.
  specialize (H c Hc). apply mem_In in Hc2. rewrite Hc2 in H. discriminate.
Qed.

Lemma assoc_In : forall (T : Type) a (l : list (name * T)) v, assoc a l = Some v -> In (a, v) l.
Proof.
  induction l as [|[b w] t IH]; intros v H; cbn in H; [discriminate|].
  destruct (String.eqb a b) eqn:E.
  - apply String.eqb_eq in E. subst. inversion H. left. reflexivity.
  - right. apply IH. exact H.
Qed.

Local Opaque deps.

Section Coherence.
  Variable inv : inventory.
  Variables X A : Type.
  Variable compute : name -> ground X -> X.
  Variable eff : name -> A -> ground X -> ground X.

  (* the two semantic readings of the inventory *)
  Hypothesis compute_dep : forall a g g',
    (forall c, In c (deps inv a) -> g c = g' c) -> compute a g = compute a g'.
  Hypothesis eff_frame : forall o arg g c,
    In o (all_ops inv) -> ~ In c (op_writes o) -> eff (op_name o) arg g c = g c.

  Hypothesis inv_ok : inventory_ok inv = true.

  Notation handle := (handle X).
  Notation coherent := (coherent X compute).
  Notation apply_op := (apply_op inv X A compute eff).
  Notation fill := (fill inv X compute).
  Notation lookup := (lookup X compute).
  Notation run := (run inv X A compute eff).
  Notation run1 := (run1 inv X A compute eff).
  Notation run_spec := (run_spec X A compute eff).
  Notation spec1 := (spec1 X A compute eff).

  Lemma op_ok_all : forall o, In o (all_ops inv) -> op_ok inv o = true.
  Proof.
    intros o Ho. unfold inventory_ok in inv_ok. apply andb_prop in inv_ok. destruct inv_ok as [H12 _].
    apply andb_prop in H12. destruct H12 as [H1 _].
    rewrite forallb_forall in H1. apply H1. exact Ho.
  Qed.

  (* the regenerated clause "observers do not write": no observer of the inventory mutates a cached object *)
  Lemma observers_pure : forall ob, obs_writes_of inv ob = [].
  Proof.
    intros ob. unfold obs_writes_of. destruct (assoc ob (inv_obs_writes inv)) as [l|] eqn:E; [|reflexivity].
    apply assoc_In in E. unfold inventory_ok in inv_ok. apply andb_prop in inv_ok. destruct inv_ok as [_ H3].
    rewrite forallb_forall in H3. specialize (H3 _ E). cbn in H3. destruct l; [reflexivity|discriminate].
  Qed.

  Lemma lookup_coherent : forall h a, coherent h -> lookup h a = compute a (gr h).
  Proof.
    intros h a Hc. unfold Handle.lookup. destruct (memo h a) eqn:E.
    - apply Hc. exact E.
    - reflexivity.
  Qed.

  Lemma fill_gr : forall h a, gr (fill h a) = gr h.
  Proof. intros h a. unfold Handle.fill. destruct (mem a (inv_memos inv)); reflexivity. Qed.

  Lemma fill_coherent : forall h a, coherent h -> coherent (fill h a).
  Proof.
    intros h a Hc. unfold Handle.fill. destruct (mem a (inv_memos inv)); [|exact Hc].
    intros b v Hm. cbn in Hm. cbn [gr]. destruct (String.eqb b a) eqn:E.
    - apply String.eqb_eq in E. subst b. inversion Hm. apply lookup_coherent. exact Hc.
    - apply Hc. exact Hm.
  Qed.

  Lemma fold_fill_gr : forall reads h, gr (fold_left fill reads h) = gr h.
  Proof. induction reads as [|a t IH]; intros h; cbn; [reflexivity|]. rewrite IH. apply fill_gr. Qed.

  Lemma fold_fill_coherent : forall reads h, coherent h -> coherent (fold_left fill reads h).
  Proof. induction reads as [|a t IH]; intros h Hc; cbn; [exact Hc|]. apply IH. apply fill_coherent. exact Hc. Qed.

  Lemma apply_op_coherent : forall o arg h, In o (all_ops inv) -> coherent h -> coherent (apply_op o arg h).
  Proof.
    intros o arg h Ho Hc a v Hm. unfold Handle.apply_op in *. cbn in *.
    destruct (mem a (inv_memos inv)) eqn:Em; [|discriminate].
    destruct (pol_of o a) eqn:Ep.
    - (* Keep *)
      rewrite (Hc a v Hm). apply compute_dep. intros c Hcdep. symmetry. apply eff_frame; [exact Ho|].
      pose proof (op_ok_all o Ho) as Hok. unfold op_ok in Hok. rewrite forallb_forall in Hok.
      apply mem_In in Em. specialize (Hok a Em). rewrite Ep in Hok.
      exact (disjointb_spec _ _ Hok c Hcdep).
    - discriminate.
    - inversion Hm. reflexivity.
  Qed.

  (* a derived handle inherits the preserved part of the ground state *)
  Lemma derive_preserves : forall o arg h c,
    In o (inv_derivs inv) -> In c (inv_preserved inv) -> gr (apply_op o arg h) c = gr h c.
  Proof.
    intros o arg h c Ho Hc. cbn. apply eff_frame.
    - unfold all_ops. apply in_or_app. left. exact Ho.
    - unfold inventory_ok in inv_ok. apply andb_prop in inv_ok. destruct inv_ok as [H12 _].
      apply andb_prop in H12. destruct H12 as [_ H2].
      rewrite forallb_forall in H2. specialize (H2 o Ho).
      intros Hw. exact (disjointb_spec _ _ H2 c Hw Hc).
  Qed.

  (* ... hence every attribute computed from preserved components only has the PARENT's value on the derived handle *)
  Lemma derive_inherits : forall o arg h a,
    In o (inv_derivs inv) -> (forall c, In c (deps inv a) -> In c (inv_preserved inv)) ->
    compute a (gr (apply_op o arg h)) = compute a (gr h).
  Proof.
    intros o arg h a Ho Hd. apply compute_dep. intros c Hc. apply derive_preserves; [exact Ho | apply Hd; exact Hc].
  Qed.

  Lemma nth_error_map_gr : forall (st : list handle) i,
    nth_error (map gr st) i = option_map gr (nth_error st i).
  Proof. induction st as [|h t IH]; intros [|i]; cbn; try reflexivity. apply IH. Qed.

  Lemma map_replace : forall (st : list handle) i h,
    map gr (replace i h st) = replace i (gr h) (map gr st).
  Proof. induction st as [|y t IH]; intros [|i] h; cbn; try reflexivity. rewrite IH. reflexivity. Qed.

  Lemma replace_same : forall (T : Type) (l : list T) i x, nth_error l i = Some x -> replace i x l = l.
  Proof. induction l as [|y t IH]; intros [|i] x H; cbn in *; try discriminate.
    - inversion H. reflexivity.
    - rewrite (IH i x H). reflexivity.
  Qed.

  Lemma Forall_replace : forall (P : handle -> Prop) st i h, Forall P st -> P h -> Forall P (replace i h st).
  Proof.
    intros P st. induction st as [|y t IH]; intros [|i] h Hf Hh; cbn; try constructor; inversion Hf; subst; auto.
  Qed.

  Lemma Forall_nth : forall (P : handle -> Prop) st i h, Forall P st -> nth_error st i = Some h -> P h.
  Proof. intros P st i h Hf Hn. rewrite Forall_forall in Hf. apply Hf. eapply nth_error_In. exact Hn. Qed.

  Lemma step_ok_all : forall s, step_ok inv X A s ->
    match s with SObs _ _ _ _ _ => True | SDerive _ o _ => In o (all_ops inv) | SMutate _ o _ => In o (all_ops inv) end.
  Proof. intros [i ob r f scr|i o a|i o a] H; cbn in *; auto; unfold all_ops; apply in_or_app; auto. Qed.

  Lemma run1_refines : forall s st st' ans,
    step_ok inv X A s -> Forall coherent st -> run1 s st = (st', ans) ->
    spec1 s (map gr st) = (map gr st', ans) /\ Forall coherent st'.
  Proof.
    intros s st st' ans Hs Hc Hr. pose proof (step_ok_all s Hs) as Ho.
    destruct s as [i ob reads f scr|i o arg|i o arg]; cbn in *; rewrite nth_error_map_gr;
      destruct (nth_error st i) as [h|] eqn:En; cbn; try (inversion Hr; subst; split; [reflexivity|exact Hc]).
    - (* observer *)
      unfold observe in Hr. rewrite observers_pure in Hr. cbn in Hr.
      inversion Hr; subst. pose proof (Forall_nth _ _ _ _ Hc En) as Hh. split.
      + rewrite map_replace. rewrite fold_fill_gr.
        rewrite (replace_same _ (map gr st) i (gr h)) by (rewrite nth_error_map_gr, En; reflexivity).
        f_equal. f_equal. f_equal. apply map_ext. intros a. symmetry. apply lookup_coherent. exact Hh.
      + apply Forall_replace; [exact Hc|]. apply fold_fill_coherent. exact Hh.
    - (* derivation *)
      inversion Hr; subst. pose proof (Forall_nth _ _ _ _ Hc En) as Hh. split.
      + rewrite map_app. reflexivity.
      + apply Forall_app. split; [exact Hc|]. constructor; [|constructor]. apply apply_op_coherent; assumption.
    - (* mutator *)
      inversion Hr; subst. pose proof (Forall_nth _ _ _ _ Hc En) as Hh. split.
      + rewrite map_replace. reflexivity.
      + apply Forall_replace; [exact Hc|]. apply apply_op_coherent; assumption.
  Qed.

  (* THE theorem: for every program over any store of coherent (e.g. freshly opened) handles, the memoising
     implementation gives the answers - and ends in the ground states - of the memo-free specification *)
  Theorem run_refines_spec : forall p st st' ans,
    Forall (step_ok inv X A) p -> Forall coherent st -> run p st = (st', ans) ->
    run_spec p (map gr st) = (map gr st', ans) /\ Forall coherent st'.
  Proof.
    induction p as [|s p IH]; intros st st' ans Hp Hc Hr; cbn in *.
    - inversion Hr; subst. split; [reflexivity|exact Hc].
    - inversion Hp as [|? ? Hs Hp']; subst.
      destruct (run1 s st) as [st1 a1] eqn:E1. destruct (run p st1) as [st2 a2] eqn:E2. inversion Hr; subst.
      destruct (run1_refines s st st1 a1 Hs Hc E1) as [Hs1 Hc1]. rewrite Hs1.
      destruct (IH st1 st' a2 Hp' Hc1 E2) as [Hs2 Hc2]. rewrite Hs2. split; [reflexivity|exact Hc2].
  Qed.

  Lemma fresh_coherent : forall g, coherent (fresh X g).
  Proof. intros g a v H. cbn in H. discriminate. Qed.

  (* stated from fresh opens: the answers are those of handles that never memoise anything *)
  Corollary programs_from_fresh_opens : forall p gs st' ans,
    Forall (step_ok inv X A) p -> run p (map (fresh X) gs) = (st', ans) ->
    run_spec p gs = (map gr st', ans).
  Proof.
    intros p gs st' ans Hp Hr.
    assert (Hc : Forall coherent (map (fresh X) gs)).
    { rewrite Forall_forall. intros h Hin. apply in_map_iff in Hin. destruct Hin as [g [Hg _]]. subst. apply fresh_coherent. }
    destruct (run_refines_spec p _ st' ans Hp Hc Hr) as [H _].
    rewrite map_map in H. cbn in H. rewrite map_id in H. exact H.
  Qed.
End Coherence.

Local Transparent deps.

(* ------------------------------------------------------------------------------------------
   Non-vacuity / necessity: a memoised attribute that a mutator keeps although it writes what the attribute is
   computed from (the shape of `ParquetFile.info` cached on the handle and not reset by write_row_groups) is
   rejected by the check, and a two-step program shows the stale answer.                                   *)
Definition toy_append (keep : bool) : opinfo :=
  mk_op "write_row_groups" ["fmd.row_groups"] (if keep then [] else [("_info", Reset)]) Keep.

Definition toy_inv (keep : bool) : inventory :=
  mk_inv ["_info"] [("_info", ["row_groups"]); ("row_groups", ["fmd.row_groups"])] ["fmd.row_groups"]
         [] [toy_append keep] [] [].

Definition toy_compute (a : name) (g : ground nat) : nat := g "fmd.row_groups".
Definition toy_eff (o : name) (n : nat) (g : ground nat) : ground nat :=
  fun c => if String.eqb c "fmd.row_groups" then g c + n else g c.
Definition toy_prog (keep : bool) : list (step nat nat) :=
  [SObs 0 "info" ["_info"] (fun l _ => hd 0 l) (fun x => x); SMutate 0 (toy_append keep) 4;
   SObs 0 "info" ["_info"] (fun l _ => hd 0 l) (fun x => x)].

Lemma toy_bad_rejected : inventory_ok (toy_inv true) = false /\ offenders (toy_inv true) = [("write_row_groups", "_info")].
Proof. vm_compute. split; reflexivity. Qed.

Lemma toy_good_accepted : inventory_ok (toy_inv false) = true.
Proof. vm_compute. reflexivity. Qed.

Lemma toy_stale_answer :
  snd (run (toy_inv true) nat nat toy_compute toy_eff (toy_prog true) [fresh nat (fun _ => 6)]) = [6; 6] /\
  snd (run_spec nat nat toy_compute toy_eff (toy_prog true) [fun _ => 6]) = [6; 10] /\
  snd (run (toy_inv false) nat nat toy_compute toy_eff (toy_prog false) [fresh nat (fun _ => 6)]) = [6; 10].
Proof. vm_compute. repeat split; reflexivity. Qed.

Lemma toy_summary :
  inventory_ok (toy_inv true) = false /\
  snd (run (toy_inv true) nat nat toy_compute toy_eff (toy_prog true) [fresh nat (fun _ => 6)]) = [6; 6] /\
  snd (run_spec nat nat toy_compute toy_eff (toy_prog true) [fun _ => 6]) = [6; 10] /\
  snd (run (toy_inv false) nat nat toy_compute toy_eff (toy_prog false) [fresh nat (fun _ => 6)]) = [6; 10].
Proof. vm_compute. repeat split; reflexivity. Qed.

(* the pinned inventory (Dataset/HandlePinned.v) satisfies the condition *)
From Pq Require Import Dataset.HandlePinned.
Lemma pinned_inventory_ok : inventory_ok pinned_inv = true /\ offenders pinned_inv = [].
Proof. vm_compute. split; reflexivity. Qed.

(* necessity of the clause "observers do not write": an observer that edits the cached statistics in place (the shape of
   sorted_partitioned_columns filtering pf.statistics) is rejected, and the next reader of the cache gets the edited value *)
Definition toy_obs_inv (writes : bool) : inventory :=
  mk_inv ["_statistics"] [("_statistics", ["fmd.row_groups"])] ["fmd.row_groups"] [] [] []
         [("statistics", []); ("sorted_partitioned_columns", if writes then ["_statistics"] else [])].
Definition toy_obs_prog : list (step nat nat) :=
  [SObs 0 "statistics" ["_statistics"] (fun l _ => hd 0 l) (fun x => x);
   SObs 0 "sorted_partitioned_columns" ["_statistics"] (fun l _ => hd 0 l) (fun _ => 0);
   SObs 0 "statistics" ["_statistics"] (fun l _ => hd 0 l) (fun x => x)].
Lemma toy_observer_writes :
  inventory_ok (toy_obs_inv true) = false /\ offenders (toy_obs_inv true) = [("sorted_partitioned_columns", "_statistics")] /\
  inventory_ok (toy_obs_inv false) = true /\
  snd (run (toy_obs_inv true) nat nat toy_compute toy_eff toy_obs_prog [fresh nat (fun _ => 6)]) = [6; 6; 0] /\
  snd (run_spec nat nat toy_compute toy_eff toy_obs_prog [fun _ => 6]) = [6; 6; 6] /\
  snd (run (toy_obs_inv false) nat nat toy_compute toy_eff toy_obs_prog [fresh nat (fun _ => 6)]) = [6; 6; 6].
Proof. vm_compute. repeat split; reflexivity. Qed.
