(* Part 2: read_thrift / read_list parse the specification's encoding of every value tree in the class
   they handle (`rdable`) into the object `pv_of` describes, consuming exactly the encoding
   (any nesting, any sizes below 2^31, any trailing bytes).                                        *)
From Coq Require Import NArith ZArith List Bool Lia.
From Pq Require Import Base.Bytes Thrift.Varint Thrift.Compact Proofs.CompactProofs Impl.CThrift Impl.CThriftSpec.
Import ListNotations.
Open Scope N_scope.

Lemma r_int_ok w z rest : (0 < w <= 64)%Z -> in_range w z = true ->
  r_int (uleb (zz z) ++ rest) = Some (PInt z, rest).
Proof.
  intros Hw H. unfold r_int.
  assert (Hz : zz z < 2 ^ 64) by (apply zz_lt64; eapply in_range_64; eauto).
  rewrite unuleb_uleb by exact Hz. apply N.ltb_lt in Hz. rewrite Hz, unzz_zz. reflexivity.
Qed.

Lemma r_size_ok n rest : n < 2 ^ 31 -> r_size (uleb n ++ rest) = Some (n, rest).
Proof.
  intros H. unfold r_size. rewrite unuleb_uleb.
  - apply N.ltb_lt in H. rewrite H. reflexivity.
  - eapply N.lt_trans; [exact H|reflexivity].
Qed.

Lemma r_bin_ok mk l rest : len l < 2 ^ 31 -> r_bin mk (uleb (len l) ++ l ++ rest) = Some (mk l, rest).
Proof. intros H. unfold r_bin. rewrite r_size_ok by exact H. rewrite take_app. reflexivity. Qed.

Lemma r_elems_ok rdx : forall l fuel r, (length l <= length fuel)%nat ->
  Forall (fun x => forall r, rdx (wr_elem x ++ r) = Some (pv_of_elem x, r)) l ->
  r_elems rdx fuel (len l) (wr_elems l ++ r) = Some (pv_of_elems l, r).
Proof.
  induction l as [|x l IH]; intros fuel r Hf Hall.
  - destruct fuel; reflexivity.
  - destruct fuel as [|f0 fuel]; [cbn [length] in Hf; lia|].
    unfold len. cbn [length r_elems].
    destruct (N.eqb_spec (N.of_nat (S (length l))) 0) as [E|E]; [lia|].
    replace (N.pred (N.of_nat (S (length l)))) with (len l) by (unfold len; lia).
    cbn [wr_elems]. fold wr_elems. rewrite <- app_assoc.
    inversion Hall as [|x' l' Hx Hl]; subst.
    rewrite Hx. rewrite IH; [reflexivity| cbn [length] in Hf; lia | exact Hl].
Qed.

Lemma pv_of_list ety l : pv_of (TList ety l) = PList (pv_of_elems l).
Proof. reflexivity. Qed.
Lemma pv_of_struct fs : pv_of (TStruct fs) =
  PDict (has_nib 5 fs && negb (has_nib 6 fs)) (if has_nib 5 fs && has_nib 6 fs then Some (ids_nib 5 fs) else None) (pv_of_fields fs).
Proof. reflexivity. Qed.
Lemma rwf_list ety l : rwf (TList ety l) = (ety <? 16) && (len l <? 2 ^ 31) && rwf_elems ety l.
Proof. reflexivity. Qed.
Lemma rwf_struct fs : rwf (TStruct fs) = rwf_fields fs.
Proof. reflexivity. Qed.
Lemma rdable_list ety l : rdable (TList ety l) =
  ((ety =? 5) || (ety =? 6) || (ety =? 8) || (ety =? 12) || match l with [] => true | _ => false end) && rdable_elems l.
Proof. reflexivity. Qed.
Lemma rdable_struct fs : rdable (TStruct fs) = rdable_fields 0 fs.
Proof. reflexivity. Qed.

Definition struct_ok (rs : bytes -> option (pv * bytes)) (d : nat) : Prop :=
  forall fs rest, (depth (TStruct fs) <= d)%nat -> rwf (TStruct fs) = true -> rdable (TStruct fs) = true ->
    rs (wr (TStruct fs) ++ rest) = Some (pv_of (TStruct fs), rest).

Lemma elems_readable rs d ety : struct_ok rs d ->
  ((ety =? 5) || (ety =? 6) || (ety =? 8) || (ety =? 12)) = true ->
  forall l, (depth_elems l <= d)%nat -> rwf_elems ety l = true -> rdable_elems l = true ->
  Forall (fun x => forall r,
     (if (ety =? 5) || (ety =? 6) then r_int else if ety =? 8 then r_bin PStr else rs) (wr_elem x ++ r)
     = Some (pv_of_elem x, r)) l.
Proof.
  intros Hs He. induction l as [|x l IH]; intros Hd Hw Hr; constructor.
  - cbn [depth_elems] in Hd. fold depth_elems in Hd. cbn [rwf_elems] in Hw. fold (rwf_elems ety) in Hw.
    cbn [rdable_elems] in Hr. fold rdable_elems in Hr.
    apply andb_true_iff in Hw. destruct Hw as [Hw _]. apply andb_true_iff in Hw. destruct Hw as [Hk Hx].
    apply andb_true_iff in Hr. destruct Hr as [Hrx _].
    intros r.
    destruct x as [b|z|z|z|z|b|s|ety' l'|fs]; cbn [elem_ok nib] in Hk;
      try (apply N.eqb_eq in Hk; subst ety; cbn [N.eqb Pos.eqb orb] in He |- *; try discriminate He).
    + apply orb_true_iff in Hk. destruct Hk as [Hk|Hk]; apply N.eqb_eq in Hk; subst ety; discriminate He.
    + cbn [wr_elem wr pv_of_elem pv_of]. cbn [rwf] in Hx. eapply (r_int_ok 64); [lia|exact Hx].
    + cbn [wr_elem wr pv_of_elem pv_of]. cbn [rwf] in Hx. eapply (r_int_ok 64); [lia|exact Hx].
    + cbn [wr_elem wr pv_of_elem]. cbn [rwf] in Hx. rewrite <- app_assoc. apply r_bin_ok. apply N.ltb_lt. exact Hx.
    + cbn [wr_elem pv_of_elem]. apply Hs; [lia|exact Hx|exact Hrx].
  - apply IH.
    + cbn [depth_elems] in Hd. fold depth_elems in Hd. lia.
    + cbn [rwf_elems] in Hw. fold (rwf_elems ety) in Hw. apply andb_true_iff in Hw. tauto.
    + cbn [rdable_elems] in Hr. fold rdable_elems in Hr. apply andb_true_iff in Hr. tauto.
Qed.

Lemma r_list_ok rs d ety l rest : struct_ok rs d ->
  (depth_elems l <= d)%nat -> rwf (TList ety l) = true -> rdable (TList ety l) = true ->
  r_list_with rs (wr (TList ety l) ++ rest) = Some (pv_of (TList ety l), rest).
Proof.
  intros Hs Hd Hw Hr. rewrite wr_list, pv_of_list. rewrite rwf_list in Hw. rewrite rdable_list in Hr.
  apply andb_true_iff in Hw. destruct Hw as [Hw Hall]. apply andb_true_iff in Hw. destruct Hw as [He Hn].
  apply andb_true_iff in Hr. destruct Hr as [Hty Hre].
  apply N.ltb_lt in He. apply N.ltb_lt in Hn.
  assert (Hlen : forall tl, (length l <= length (wr_elems l ++ tl))%nat)
    by (intros; rewrite app_length; pose proof (wr_elems_len l); lia).
  assert (HE : forall fuel, (length l <= length fuel)%nat ->
     r_elems (if (ety =? 5) || (ety =? 6) then r_int else if ety =? 8 then r_bin PStr else rs) fuel (len l) (wr_elems l ++ rest)
     = Some (pv_of_elems l, rest)).
  { intros fuel Hf. destruct l as [|x0 l0].
    - destruct fuel; reflexivity.
    - apply r_elems_ok; [exact Hf|]. apply (elems_readable rs d ety Hs); try assumption.
      rewrite orb_false_r in Hty. exact Hty. }
  unfold r_list_with, list_header. destruct (N.ltb_spec (len l) 15) as [Hsz|Hsz].
  - cbn [app]. destruct (list_hdr_short ety (len l)) as (H1 & H2 & H3); [lia|lia|].
    destruct (N.leb_spec 240 (len l * 16 + ety)) as [Hb|Hb]; [lia|].
    rewrite H1, H2. rewrite HE by apply Hlen. reflexivity.
  - cbn [app]. destruct (list_hdr_long ety) as (H1 & H2); [lia|].
    destruct (N.leb_spec 240 (240 + ety)) as [Hb|Hb]; [|lia].
    rewrite <- app_assoc. rewrite r_size_ok by exact Hn. rewrite H1.
    rewrite HE by apply Hlen. reflexivity.
Qed.

Lemma r_value_ok rs d x rest : struct_ok rs d ->
  (depth x <= d)%nat -> rwf x = true -> rdable x = true ->
  r_value rs (nib x) (wr x ++ rest) = Some (pv_of x, rest).
Proof.
  intros Hs Hd Hw Hr. unfold r_value.
  destruct x as [b|z|z|z|z|b|s|ety l|fs]; cbn [nib].
  - destruct b; reflexivity.
  - cbn [N.eqb Pos.eqb wr app pv_of]. f_equal. f_equal. f_equal. unfold i8_byte.
    rewrite Z2N.id; [reflexivity|]. apply Z.mod_pos_bound. lia.
  - cbn [N.eqb Pos.eqb orb wr pv_of]. cbn [rwf] in Hw. eapply (r_int_ok 64); [lia|exact Hw].
  - cbn [N.eqb Pos.eqb orb wr pv_of]. cbn [rwf] in Hw. eapply (r_int_ok 64); [lia|exact Hw].
  - cbn [N.eqb Pos.eqb orb wr pv_of]. cbn [rwf] in Hw. eapply (r_int_ok 64); [lia|exact Hw].
  - discriminate Hr.
  - cbn [N.eqb Pos.eqb orb wr pv_of]. cbn [rwf] in Hw. rewrite <- app_assoc. apply r_bin_ok. apply N.ltb_lt. exact Hw.
  - cbn [N.eqb Pos.eqb orb]. rewrite depth_list in Hd. apply (r_list_ok rs (pred d)); try assumption.
    + intros fs rest' H1 H2 H3. apply Hs; [lia|exact H2|exact H3].
    + lia.
  - cbn [N.eqb Pos.eqb orb]. apply Hs; assumption.
Qed.

(* the field loop with its accumulators *)
Lemma rev_append_rev_app {A} (x acc : list A) : rev_append (rev x ++ acc) [] = rev acc ++ x.
Proof. rewrite rev_append_rev, app_nil_r, rev_app_distr, rev_involutive. reflexivity. Qed.

Lemma r_fields_ok rv : forall fs fuel last rest acc h32 h64 l32,
  (length fs < length fuel)%nat -> rdable_fields last fs = true ->
  Forall (fun p => forall r, rv (nib (snd p)) (wr (snd p) ++ r) = Some (pv_of (snd p), r)) fs ->
  r_fields rv fuel (Z.of_N last) (wr_fields last fs ++ rest) acc h32 h64 l32
  = Some (PDict ((h32 || has_nib 5 fs) && negb (h64 || has_nib 6 fs))
                (if (h32 || has_nib 5 fs) && (h64 || has_nib 6 fs) then Some (rev l32 ++ ids_nib 5 fs) else None)
                (rev acc ++ pv_of_fields fs), rest).
Proof.
  induction fs as [|[id x] fs IH]; intros fuel last rest acc h32 h64 l32 Hf Hr Hall.
  - destruct fuel as [|f0 fuel]; [cbn [length] in Hf; lia|].
    cbn [wr_fields app r_fields N.eqb has_nib existsb ids_nib filter map pv_of_fields].
    rewrite !orb_false_r, !app_nil_r, !rev_append_rev, !app_nil_r. reflexivity.
  - destruct fuel as [|f0 fuel]; [cbn [length] in Hf; lia|].
    cbn [rdable_fields] in Hr. fold rdable_fields in Hr.
    apply andb_true_iff in Hr. destruct Hr as [Hr Hrest]. apply andb_true_iff in Hr. destruct Hr as [Hr Hrx].
    apply andb_true_iff in Hr. destruct Hr as [Hr H127]. apply andb_true_iff in Hr. destruct Hr as [Hlt Hd16].
    cbn [wr_fields]. fold wr_fields. unfold field_header. rewrite Hlt, Hd16. cbn [andb app].
    apply N.ltb_lt in Hlt. apply N.ltb_lt in Hd16. apply N.leb_le in H127.
    destruct (nib_range x) as [Hn1 Hn2].
    destruct (hdr_split (id - last) (nib x)) as (H1 & H2 & H3); [lia|lia|lia|].
    cbn [r_fields]. rewrite H3, H1, H2.
    destruct (N.eqb_spec (id - last) 0) as [E|E]; [lia|].
    replace (Z.of_N last + Z.of_N (id - last))%Z with (Z.of_N id) by lia.
    destruct (Z.ltb_spec 127 (Z.of_N id)) as [Hb|Hb]; [lia|].
    inversion Hall as [|p l' Hx Hl]; subst. cbn [snd] in Hx.
    rewrite <- app_assoc. rewrite Hx.
    rewrite IH; [| cbn [length] in Hf; lia | exact Hrest | exact Hl].
    f_equal. f_equal.
    cbn [has_nib existsb snd ids_nib filter map fst pv_of_fields].
    destruct (N.eqb_spec (nib x) 5) as [E5|E5]; destruct (N.eqb_spec (nib x) 6) as [E6|E6];
      try (exfalso; lia); cbn [orb rev map fst];
      rewrite <- ?app_assoc; cbn [app]; rewrite ?orb_assoc; try reflexivity.
    all: f_equal; rewrite <- ?orb_assoc, ?(orb_comm true), ?orb_true_r; reflexivity.
Qed.

Lemma fields_readable rs d : struct_ok rs d ->
  forall fs last, (depth_fields fs <= d)%nat -> rwf_fields fs = true -> rdable_fields last fs = true ->
  Forall (fun p => forall r, r_value rs (nib (snd p)) (wr (snd p) ++ r) = Some (pv_of (snd p), r)) fs.
Proof.
  intros Hs. induction fs as [|[id x] fs IH]; intros last Hd Hw Hr; constructor.
  - intros r. cbn [snd]. cbn [depth_fields] in Hd. fold depth_fields in Hd.
    cbn [rwf_fields] in Hw. fold rwf_fields in Hw. cbn [rdable_fields] in Hr. fold rdable_fields in Hr.
    apply andb_true_iff in Hw. destruct Hw as [Hx _].
    apply andb_true_iff in Hr. destruct Hr as [Hr _]. apply andb_true_iff in Hr. destruct Hr as [_ Hrx].
    apply (r_value_ok rs d); [exact Hs|lia|exact Hx|exact Hrx].
  - cbn [depth_fields] in Hd. fold depth_fields in Hd. cbn [rwf_fields] in Hw. fold rwf_fields in Hw.
    cbn [rdable_fields] in Hr. fold rdable_fields in Hr.
    apply andb_true_iff in Hw. apply andb_true_iff in Hr. apply (IH id); [lia|tauto|tauto].
Qed.

Theorem r_thrift_wr : forall d, struct_ok (r_thrift d) d.
Proof.
  induction d as [|d IH]; intros fs rest Hd Hw Hr.
  - rewrite depth_struct in Hd. lia.
  - rewrite depth_struct in Hd. rewrite rwf_struct in Hw. rewrite rdable_struct in Hr.
    rewrite wr_struct, pv_of_struct. cbn [r_thrift].
    change 0%Z with (Z.of_N 0).
    rewrite (r_fields_ok (r_value (r_thrift d)) fs (wr_fields 0 fs ++ rest) 0 rest [] false false []).
    + cbn [orb rev app]. reflexivity.
    + rewrite app_length. pose proof (wr_fields_len fs 0). lia.
    + exact Hr.
    + apply (fields_readable (r_thrift d) d IH fs 0); [lia|exact Hw|exact Hr].
Qed.

(* from_buffer on the specification's encoding of a readable struct *)
Theorem from_buffer_spec fs rest :
  (depth (TStruct fs) <= w_depth)%nat -> rwf (TStruct fs) = true -> rdable (TStruct fs) = true ->
  from_buffer (wr (TStruct fs) ++ rest) = Some (pv_of (TStruct fs), rest).
Proof. intros. apply r_thrift_wr; assumption. Qed.
