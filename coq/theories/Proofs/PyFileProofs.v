(* Facts about the file-object prelude Impl/PyFile.v used by the proofs over regenerated text (genproofs/GenUpdateFileProofs.v). *)
From Coq Require Import NArith ZArith Arith List Bool Lia.
From Pq Require Import Base.Bytes Proofs.BytesProofs Impl.KV Proofs.KVProofs Impl.PyFile.
Import ListNotations.

Definition f_write' (h : fh) (b : bytes) : fh := fst (f_write h b).

Lemma f_write_pair h b : f_write h b = (f_write' h b, Z.of_nat (length b)).
Proof. reflexivity. Qed.

(* the bytes below the cursor are `pre`, and the cursor is inside the file *)
Definition below (h : fh) (pre : bytes) : Prop :=
  firstn (pos h) (content h) = pre /\ (pos h <= length (content h))%nat.

Lemma below_open_at (c : bytes) p : (p <= length c)%nat -> below (mkfh c p) (firstn p c).
Proof. intros H. split; [reflexivity|exact H]. Qed.

Lemma below_write h pre b : below h pre -> below (f_write' h b) (pre ++ b).
Proof.
  destruct h as [c p]. unfold below, f_write', f_write. cbn [fst content pos]. intros [E L].
  replace (p - length c)%nat with 0%nat by lia. cbn [repeat app].
  assert (Lp : length pre = p) by (rewrite <- E, firstn_length; lia).
  rewrite E. split.
  - rewrite app_assoc. rewrite <- Lp, <- app_length. apply firstn_app_exact.
  - rewrite !app_length. lia.
Qed.

Lemma below_truncate h pre : below h pre -> content (f_truncate h) = pre.
Proof.
  destruct h as [c p]. unfold below, f_truncate. cbn [content pos]. intros [E L].
  replace (p - length c)%nat with 0%nat by lia. cbn. now rewrite app_nil_r.
Qed.

(* the repaired in-place rewrite of KV.v, spelled out *)
Lemma rewrite_footer_eq file loc ft : (loc <= length file)%nat ->
  rewrite_footer true file loc ft = firstn loc file ++ ft ++ le_enc 4 (N.of_nat (length ft)) ++ magic.
Proof.
  intros H. unfold rewrite_footer, os_truncate, os_write.
  set (tail := ft ++ le_enc 4 (N.of_nat (length ft)) ++ magic).
  rewrite app_assoc.
  replace (loc + length tail)%nat with (length (firstn loc file ++ tail))
    by (rewrite app_length, firstn_length; lia).
  apply firstn_app_exact.
Qed.

Lemma pack_I_len (b : bytes) : (N.of_nat (length b) < 2 ^ 32)%N ->
  pack_I (Z.of_nat (length b)) = Some (le_enc 4 (N.of_nat (length b))).
Proof.
  intros H. unfold pack_I.
  replace ((0 <=? Z.of_nat (length b)) && (Z.of_nat (length b) <? 4294967296))%Z with true.
  - f_equal. f_equal. rewrite <- nat_N_Z. apply N2Z.id.
  - symmetry. apply andb_true_iff. split; [apply Z.leb_le; lia|apply Z.ltb_lt].
    change 4294967296%Z with (Z.of_N (2 ^ 32)). rewrite <- nat_N_Z. lia.
Qed.

(* what footer_loc = Some loc says, in the integers the code computes with *)
Lemma footer_loc_data file loc : footer_loc false file = Some loc ->
  (8 <= length file)%nat /\ (loc <= length file)%nat /\
  (Z.of_nat (length file) + -8 - int_from_le (firstn 4 (skipn (length file - 8) file)) = Z.of_nat loc)%Z.
Proof.
  unfold footer_loc. destruct (Nat.ltb_spec (length file) 8) as [H|H]; [discriminate|].
  unfold le_dec, int_from_le.
  destruct (Nat.leb 4 (length (skipn (length file - 8) file))); [|discriminate].
  set (X := le2n (firstn 4 (skipn (length file - 8) file))).
  destruct (N.leb_spec X (N.of_nat (length file - 8))) as [L|L]; [|discriminate].
  intros E. assert (E' : loc = (length file - 8 - N.to_nat X)%nat) by congruence. subst loc.
  repeat split; lia.
Qed.
