(* C10: the pickle path.  ThriftObject.__reduce_ex__ returns (from_buffer, (bytes(self.to_bytes()), self.name)): unpickling
   IS from_buffer of to_bytes.  For every object of the round-trip class whose serialisation fits the buffer, the unpickled
   object is one that ThriftObject.__eq__ (dict_eq) considers equal - every struct, any number of fields / elements. *)
From Coq Require Import NArith ZArith List Bool Lia.
From Pq Require Import Base.Bytes Thrift.Compact Impl.CThrift Impl.CThriftSpec Proofs.CThriftProofs Proofs.CThriftMain Proofs.CThriftTotal.
Import ListNotations.
Open Scope N_scope.

Definition pickle_rt (fids : list Z) (cap : N) (v : pv) : option pv :=
  match CThrift.to_bytes fids cap v with
  | OBytes b => option_map fst (from_buffer b)
  | _ => None
  end.

Theorem pickle_roundtrip : forall a b c,
  CThriftSpec.dom ids13 63 (PDict a b c) = true ->
  exists bs, CThrift.ser ids13 (PDict a b c) = Some bs /\
    forall cap, len bs <= cap ->
      exists v', pickle_rt ids13 cap (PDict a b c) = Some v' /\ obj_eq (PDict a b c) v' = true.
Proof.
  intros a b c H. destruct (roundtrip_total ids13 ids13_asc a b c H) as [bs [E1 [E2 [v' [E3 E4]]]]].
  exists bs. split; [exact E1|]. intros cap Hc. exists v'. split; [|exact E4].
  unfold pickle_rt. rewrite (E2 cap Hc), E3. reflexivity.
Qed.
