(* Proofs/PartitionNulls.v — rows with a NULL partition key (property C08), unconditionally.

   pandas' groupby drops every row that has a NULL in one of the key columns; writer.partition_on_columns writes one file per
   group.  The model (Impl/Partition.v: group_by / write_chunk / write_model) says so explicitly; here, with NO hypothesis on
   the values (any kinds, any texts, any equality):

     null_rows_nowhere        a row with a NULL key is in no file of write_model, every stored row has all keys non-NULL
     group_by_all_null        a chunk in which every row has a NULL key yields no group - no file, no directory
     group_by_single_key      a chunk whose non-NULL rows all carry one key (== the key of the first of them) yields exactly one
                              group: that key with ALL the non-NULL rows, in frame order (the NULL rows in between do not split
                              it, do not join it)
     write_chunk_single_key   ... hence exactly one file, dir(key)/part.i.parquet                                          *)
From Coq Require Import NArith ZArith Bool Ascii String Arith Lia List.
From Pq Require Import Base.Bytes Impl.Partition.
Import ListNotations.

Section PartitionNulls.
  Variables F T D : Type.
  Variable feqb : F -> F -> bool.
  Variable teqb : T -> T -> bool.
  Variable deqb : D -> D -> bool.
  Variable f_eq_Z : F -> Z -> bool.
  Variable show_float : F -> str.
  Variable show_time_iso show_time_str : T -> str.
  Variable P : Type.
  Notation value := (value F T D).
  Notation row := (row F T D P).
  Notation nonnull := (nonnull F T D P).
  Notation key_of := (key_of F T D P).
  Notation keys_eqb := (keys_eqb F T D feqb teqb deqb f_eq_Z).
  Notation insert_group := (insert_group F T D feqb teqb deqb f_eq_Z P).
  Notation group_by := (group_by F T D feqb teqb deqb f_eq_Z P).
  Notation write_chunk := (write_chunk F T D feqb teqb deqb f_eq_Z show_float show_time_iso show_time_str P).
  Notation write_model := (write_model F T D feqb teqb deqb f_eq_Z show_float show_time_iso show_time_str P).
  Notation rel_path := (rel_path F T D show_float show_time_iso show_time_str).
  Notation step := (fun (gs : list (list value * list row)) (r : row) => if nonnull r then insert_group (key_of r) r gs else gs).

  Definition all_nonnull (gs : list (list value * list row)) : Prop :=
    forall k rs r, In (k, rs) gs -> In r rs -> nonnull r = true.

  Lemma insert_group_nonnull k r gs : nonnull r = true -> all_nonnull gs -> all_nonnull (insert_group k r gs).
  Proof.
    intros Hr. induction gs as [|[k' rs] t IH]; intros Hg k0 rs0 r0 Hin Hr0.
    - cbn in Hin. destruct Hin as [E|[]]. injection E as <- <-. destruct Hr0 as [<-|[]]. exact Hr.
    - cbn in Hin. destruct (keys_eqb k k').
      + destruct Hin as [E|Hin].
        * injection E as <- <-. apply in_app_or in Hr0. destruct Hr0 as [Hr0|[<-|[]]]; [|exact Hr].
          apply (Hg k' rs r0); [left; reflexivity|exact Hr0].
        * apply (Hg k0 rs0 r0); [right; exact Hin|exact Hr0].
      + destruct Hin as [E|Hin].
        * injection E as <- <-. apply (Hg k' rs r0); [left; reflexivity|exact Hr0].
        * apply (IH (fun k rs r H1 H2 => Hg k rs r (or_intror H1) H2) k0 rs0 r0 Hin Hr0).
  Qed.

  Lemma fold_nonnull rows : forall gs, all_nonnull gs -> all_nonnull (fold_left step rows gs).
  Proof.
    induction rows as [|r rows IH]; intros gs Hg; cbn [fold_left]; [exact Hg|].
    apply IH. destruct (nonnull r) eqn:E; [apply insert_group_nonnull; assumption|exact Hg].
  Qed.

  Lemma group_by_nonnull rows : all_nonnull (group_by rows).
  Proof. unfold group_by. apply fold_nonnull. intros k rs r []. Qed.

  Lemma in_mapi_from {A B} (f : nat -> A -> B) : forall l i y, In y (mapi_from f i l) -> exists j x, In x l /\ y = f j x.
  Proof.
    induction l as [|x l IH]; intros i y H; [destruct H|]. cbn in H. destruct H as [<-|H].
    - exists i, x. split; [left; reflexivity|reflexivity].
    - destruct (IH (S i) y H) as [j [x' [Hx E]]]. exists j, x'. split; [right; exact Hx|exact E].
  Qed.

  (* every row stored in any file of the written dataset has all its keys non-NULL: rows with a NULL key are nowhere *)
  Theorem null_rows_nowhere : forall hive names (chunks : list (list row)) path rows r,
    In (path, rows) (write_model hive names chunks) -> In r rows -> nonnull r = true.
  Proof.
    intros hive names chunks path rows r Hin Hr. unfold Partition.write_model in Hin.
    apply in_concat in Hin. destruct Hin as [files [Hf Hin]].
    apply in_mapi_from in Hf. destruct Hf as [i [ch [_ ->]]].
    unfold Partition.write_chunk in Hin. apply in_map_iff in Hin. destruct Hin as [[k rs] [E Hg]].
    injection E as _ <-. exact (group_by_nonnull ch k rs r Hg Hr).
  Qed.

  (* a chunk without any row that has all keys: no group at all (no file is written, no directory made) *)
  Theorem group_by_all_null : forall rows, (forall r, In r rows -> nonnull r = false) -> group_by rows = [].
  Proof.
    unfold group_by. induction rows as [|r rows IH]; intros H; [reflexivity|].
    cbn [fold_left]. rewrite (H r (or_introl eq_refl)). apply IH. intros r' Hr'. apply H. right. exact Hr'.
  Qed.

  Lemma fold_single_key k0 : forall rows acc,
    (forall r, In r rows -> nonnull r = true -> keys_eqb (key_of r) k0 = true) ->
    fold_left step rows [(k0, acc)] = [(k0, acc ++ filter nonnull rows)].
  Proof.
    induction rows as [|r rows IH]; intros acc H; cbn [fold_left filter]; [rewrite app_nil_r; reflexivity|].
    destruct (nonnull r) eqn:E.
    - cbn [Partition.insert_group]. rewrite (H r (or_introl eq_refl) E).
      rewrite IH by (intros r' Hr'; apply H; right; exact Hr'). rewrite <- app_assoc. reflexivity.
    - apply IH. intros r' Hr'. apply H. right. exact Hr'.
  Qed.

  (* one distinct key + NULLs: exactly one group, holding all the non-NULL rows in frame order *)
  Theorem group_by_single_key : forall rows r0 rest,
    filter nonnull rows = r0 :: rest ->
    (forall r, In r rows -> nonnull r = true -> keys_eqb (key_of r) (key_of r0) = true) ->
    group_by rows = [(key_of r0, filter nonnull rows)].
  Proof.
    unfold group_by. induction rows as [|r rows IH]; intros r0 rest Hf H; [discriminate|].
    cbn [fold_left filter] in *. destruct (nonnull r) eqn:E.
    - injection Hf as -> Hrest. cbn [Partition.insert_group].
      rewrite fold_single_key by (intros r' Hr'; apply H; right; exact Hr'). reflexivity.
    - apply (IH r0 rest Hf). intros r' Hr'. apply H. right. exact Hr'.
  Qed.

  Theorem write_chunk_single_key : forall hive names i rows r0 rest,
    filter nonnull rows = r0 :: rest ->
    (forall r, In r rows -> nonnull r = true -> keys_eqb (key_of r) (key_of r0) = true) ->
    write_chunk hive names i rows = [(rel_path hive names (key_of r0) (part_name i), filter nonnull rows)].
  Proof.
    intros hive names i rows r0 rest Hf H. unfold Partition.write_chunk. rewrite (group_by_single_key rows r0 rest Hf H). reflexivity.
  Qed.

  Theorem write_chunk_all_null : forall hive names i rows, (forall r, In r rows -> nonnull r = false) -> write_chunk hive names i rows = [].
  Proof. intros hive names i rows H. unfold Partition.write_chunk. rewrite (group_by_all_null rows H). reflexivity. Qed.
End PartitionNulls.
