From Coq Require Import ZArith List Bool Arith Lia.
From Pq Require Import Format.ChunkLayout.
Import ListNotations.
Open Scope Z_scope.

Lemma sumZ_app a b : sumZ (a ++ b) = sumZ a + sumZ b.
Proof. induction a as [|x a IH]; cbn; [reflexivity|]. rewrite IH. lia. Qed.

(* ---- fold invariant of the writer's bookkeeping ---------------------------------------------- *)
Lemma fold_data_pages start (ps : list page) s :
  forallb is_data ps = true ->
  let s' := fold_left (w_step start) ps s in
  w_pos s' = w_pos s + sumZ (map disk_size ps) /\
  w_diff s' = w_diff s + sumZ (map (fun p => p_uncomp p - p_comp p) ps) /\
  w_dict s' = w_dict s /\ w_data s' = w_data s.
Proof.
  revert s. induction ps as [|p ps IH]; intros s H; cbn [fold_left map sumZ].
  - repeat split; lia.
  - cbn [forallb] in H. apply andb_true_iff in H. destruct H as [Hp Hps].
    specialize (IH (w_step start s p) Hps). cbn zeta in IH. destruct IH as (I1 & I2 & I3 & I4).
    unfold is_data in Hp.
    rewrite I1, I2, I3, I4. unfold w_step. destruct (p_kind p); try discriminate; cbn; repeat split; lia.
Qed.

Lemma sum_plain_disk (ps : list page) :
  sumZ (map plain_size ps) = sumZ (map disk_size ps) + sumZ (map (fun p => p_uncomp p - p_comp p) ps).
Proof.
  induction ps as [|p ps IH]; cbn [map sumZ]; [reflexivity|]. unfold plain_size, disk_size in *. lia.
Qed.

Definition sane (p : page) : bool := (0 <? p_hdr p) && (0 <=? p_comp p) && (0 <=? p_uncomp p) && (0 <=? p_nvals p).

(* C02: the ColumnMetaData the writer's bookkeeping produces describes exactly the pages written -
   for every number of pages, every header/payload size (compression may shrink or grow a page),
   with or without a leading dictionary page *)
Theorem wr_bookkeeping_ok start encs (ps : list page) :
  ps <> [] ->
  forallb is_data (tl ps) = true ->
  (is_data (hd {| p_kind := PData1; p_hdr := 1; p_comp := 0; p_uncomp := 0; p_nvals := 0; p_enc := 0 |} ps) = false -> tl ps <> []) ->
  forallb sane ps = true ->
  forallb (fun p => existsb (Z.eqb (p_enc p)) encs) ps = true ->
  check_chunk (wr_bookkeeping start (sumZ (map p_nvals (filter is_data ps))) encs ps) ps = true.
Proof.
  intros Hne Htl Hdict Hsane Henc.
  destruct ps as [|p0 rest]; [congruence|]. cbn [tl hd] in *.
  unfold wr_bookkeeping. cbn [fold_left].
  set (s0 := {| w_pos := start; w_diff := 0; w_dict := None; w_data := start |}).
  destruct (fold_data_pages start rest (w_step start s0 p0) Htl) as (I1 & I2 & I3 & I4).
  cbn zeta in *.
  set (sf := fold_left (w_step start) rest (w_step start s0 p0)) in *.
  assert (Hpos : w_pos sf - start = sumZ (map disk_size (p0 :: rest))).
  { rewrite I1. unfold w_step, s0. destruct (p_kind p0); cbn; lia. }
  assert (Hdiff : w_diff sf = sumZ (map (fun p => p_uncomp p - p_comp p) (p0 :: rest))).
  { rewrite I2. unfold w_step, s0. destruct (p_kind p0); cbn; lia. }
  assert (Hsane0 : 0 < p_hdr p0 /\ 0 <= p_comp p0).
  { cbn [forallb] in Hsane. apply andb_true_iff in Hsane. destruct Hsane as [H0 _]. unfold sane in H0.
    repeat (apply andb_true_iff in H0; destruct H0 as [H0 ?]). lia. }
  unfold check_chunk. cbn [c_total_comp c_total_uncomp c_num_values c_encodings].
  rewrite Hpos, Hdiff, <- sum_plain_disk. rewrite !Z.eqb_refl. cbn [andb].
  rewrite Henc. fold sane. rewrite Hsane. rewrite !andb_true_r.
  rewrite Htl. cbn [andb].
  unfold chunk_start. cbn [c_dict_page_offset c_data_page_offset].
  rewrite I3, I4. unfold w_step, s0. unfold is_data in Hdict.
  destruct (p_kind p0) eqn:K; cbn [w_dict w_data w_pos].
  - (* dictionary first *)
    replace (Z.min start (start + disk_size p0)) with start by (unfold disk_size; lia).
    rewrite !Z.eqb_refl. cbn [andb]. destruct rest; [exfalso; now apply Hdict|reflexivity].
  - apply Z.eqb_refl.
  - apply Z.eqb_refl.
Qed.

(* ---- what the checker guarantees --------------------------------------------------------------- *)
Lemma page_offsets_length pos ps : length (page_offsets pos ps) = length ps.
Proof. revert pos; induction ps; intros; cbn; auto. Qed.

Lemma page_offsets_nth ps : forall pos i, (i < length ps)%nat ->
  nth i (page_offsets pos ps) 0 = pos + sumZ (map disk_size (firstn i ps)).
Proof.
  induction ps as [|p ps IH]; intros pos i Hi; [cbn in Hi; lia|].
  destruct i as [|i]; cbn [page_offsets nth firstn map sumZ]; [lia|].
  rewrite IH by (cbn in Hi; lia). lia.
Qed.

(* pages sit back to back from the chunk start and end exactly at start + total_compressed_size;
   value counts add up to num_values *)
Theorem check_chunk_sound c ps : check_chunk c ps = true ->
  chunk_start c + sumZ (map disk_size ps) = chunk_start c + c_total_comp c /\
  sumZ (map plain_size ps) = c_total_uncomp c /\
  sumZ (map p_nvals (filter is_data ps)) = c_num_values c /\
  (forall p, In p ps -> In (p_enc p) (c_encodings c)) /\
  (forall i, (i < length ps)%nat -> nth i (page_offsets (chunk_start c) ps) 0 = chunk_start c + sumZ (map disk_size (firstn i ps))).
Proof.
  unfold check_chunk. intros H.
  repeat (apply andb_true_iff in H; destruct H as [H ?]).
  apply Z.eqb_eq in H.
  repeat match goal with X : (_ =? _) = true |- _ => apply Z.eqb_eq in X end.
  repeat split; try lia; try assumption.
  - intros p Hin. match goal with X : forallb (fun p => existsb _ _) ps = true |- _ => rewrite forallb_forall in X; specialize (X p Hin);
      apply existsb_exists in X; destruct X as (e & He & Heq); apply Z.eqb_eq in Heq; now subst end.
  - intros i Hi. now apply page_offsets_nth.
Qed.

Lemma intervals_ok_sound iv : forall lo hi, intervals_ok lo hi iv = true ->
  lo <= hi /\ Forall (fun ab => lo <= fst ab /\ fst ab <= snd ab /\ snd ab <= hi) iv /\
  (forall i j a b, (i < j)%nat -> nth_error iv i = Some a -> nth_error iv j = Some b -> snd a <= fst b).
Proof.
  induction iv as [|[a b] r IH]; intros lo hi H; cbn in H.
  - apply Z.leb_le in H. repeat split; [assumption|constructor|]. intros i j ? ? _ Hi. destruct i; discriminate.
  - repeat (apply andb_true_iff in H; destruct H as [H ?]).
    apply Z.leb_le in H. match goal with X : (a <=? b) = true |- _ => apply Z.leb_le in X end.
    match goal with X : intervals_ok b hi r = true |- _ => destruct (IH b hi X) as (L & F & D) end.
    repeat split; [lia| |].
    + constructor; [cbn; lia|]. eapply Forall_impl; [|exact F]. cbn. intros ? ?; lia.
    + intros i j x y Hij Hi Hj. destruct i as [|i].
      * cbn in Hi. inversion Hi; subst x. destruct j as [|j]; [lia|]. cbn in Hj.
        apply nth_error_In in Hj. rewrite Forall_forall in F. specialize (F y Hj). cbn. lia.
      * destruct j as [|j]; [lia|]. cbn in Hi, Hj. eapply (D i j); eauto. lia.
Qed.

(* C02, file level: every chunk of every row group is described exactly; chunks lie inside the data
   region between the leading magic and the footer and never overlap; row counts add up *)
Theorem check_file_sound f : check_file f = true ->
  f_footer_start f + f_footer_len f + 8 = f_len f /\
  f_num_rows f = sumZ (map r_num_rows (f_rgs f)) /\
  (forall r, In r (f_rgs f) -> r_total_byte_size r = sumZ (map (fun cp => c_total_uncomp (fst cp)) (r_chunks r)) /\
     forall cp, In cp (r_chunks r) -> check_chunk (fst cp) (snd cp) = true /\ c_num_values (fst cp) = r_num_rows r) /\
  Forall (fun ab => 4 <= fst ab /\ fst ab <= snd ab /\ snd ab <= f_footer_start f)
         (map chunk_interval (concat (map r_chunks (f_rgs f)))).
Proof.
  unfold check_file. intros H.
  repeat (apply andb_true_iff in H; destruct H as [H ?]).
  apply Z.eqb_eq in H.
  match goal with X : intervals_ok _ _ _ = true |- _ => apply intervals_ok_sound in X; destruct X as (_ & F & _) end.
  match goal with X : (f_num_rows f =? _) = true |- _ => apply Z.eqb_eq in X end.
  match goal with X : forallb check_rg _ = true |- _ => rename X into RG end. rewrite forallb_forall in RG.
  split; [assumption|]. split; [assumption|]. split; [|assumption].
  intros r Hr. specialize (RG r Hr). unfold check_rg in RG. apply andb_true_iff in RG. destruct RG as [A E].
  apply Z.eqb_eq in E. split; [exact E|]. intros cp Hcp. rewrite forallb_forall in A. specialize (A cp Hcp).
  apply andb_true_iff in A. destruct A as [A1 A2]. apply Z.eqb_eq in A2. tauto.
Qed.
