(* Proofs about Dataset/Reject.v (property C18). *)
From Coq Require Import NArith Arith List Bool Lia.
From Coq Require Decimal DecimalN DecimalPos.
From Pq Require Proofs.OpsProofs.
From Pq Require Import Base.Bytes Proofs.BytesProofs Dataset.FS Dataset.FsPaths Dataset.Crash Proofs.CrashProofs
  Dataset.Reject.
Import ListNotations.

(* ------------------------------------------------------------------------------------------ *)
(* 1. validation comes before every effect                                                    *)
(* ------------------------------------------------------------------------------------------ *)
Ltac split_checks :=
  repeat match goal with
         | |- context [Check ?b] =>
           lazymatch b with
           | true => fail
           | false => fail
           | _ => let E := fresh "E" in destruct b eqn:E; cbn [exec app negb orb andb] in *
           end
         end.

Theorem validation_pure rq d e e2 : rejected rq d = true -> exec (program rq d e e2) = ([], true).
Proof.
  destruct rq as [sreq pon fr | fr | sreq pon hn fr | cols fcols | same]; unfold rejected, program.
  - destruct (scheme_name_ok sreq); cbn [negb orb app exec]; [|reflexivity].
    destruct (bytes_eqb sreq s_simple); cbn [app exec].
    + destruct (scheme_eqb (d_scheme d) SSimple || scheme_eqb (d_scheme d) SEmpty); cbn [negb orb exec]; [|reflexivity].
      destruct (cols_match (d_cols d ++ d_cats d) (f_cols fr)); cbn [negb exec]; [discriminate | reflexivity].
    + destruct (scheme_eqb (d_scheme d) SHive || scheme_eqb (d_scheme d) SEmpty || scheme_eqb (d_scheme d) SFlat);
        cbn [negb orb exec]; [|reflexivity].
      destruct (list_eqb bytes_eqb pon (d_cats d)); cbn [negb orb exec]; [|reflexivity].
      destruct (cols_match (d_cols d ++ d_cats d) (f_cols fr)); cbn [negb exec]; [discriminate | reflexivity].
  - destruct (goes_simple d); cbn [negb orb exec]; [reflexivity|].
    destruct (d_cats d) as [|c cs]; cbn [orb exec]; [reflexivity|].
    destruct (subset_b (c :: cs) (strs (f_cols fr))); cbn [negb orb exec]; [|reflexivity].
    destruct (cols_match (d_cols d ++ c :: cs) (f_cols fr)); cbn [negb exec]; [discriminate | reflexivity].
  - destruct (scheme_name_ok sreq); cbn [negb orb exec]; [|reflexivity].
    destruct (subset_b pon (strs (f_cols fr))); cbn [negb orb exec]; [|reflexivity].
    destruct hn as [l|].
    + destruct (subset_b l (strs (f_cols fr))); cbn [negb orb exec]; [|reflexivity].
      destruct (nodup_c (f_cols fr)); cbn [negb orb exec]; [|reflexivity].
      destruct (forallb is_str (f_cols fr)); cbn [negb orb exec]; [|reflexivity].
      destruct (forallb (fun b => b) (f_typed fr)); cbn [negb exec]; [discriminate | reflexivity].
    + cbn [orb exec].
      destruct (nodup_c (f_cols fr)); cbn [negb orb exec]; [|reflexivity].
      destruct (forallb is_str (f_cols fr)); cbn [negb orb exec]; [|reflexivity].
      destruct (forallb (fun b => b) (f_typed fr)); cbn [negb exec]; [discriminate | reflexivity].
  - destruct (subset_b cols (d_cols d ++ d_cats d)); cbn [negb orb exec]; [|reflexivity].
    destruct (subset_b fcols (d_cols d ++ d_cats d)); cbn [negb exec]; [discriminate | reflexivity].
  - destruct same; cbn [negb exec]; [discriminate | reflexivity].
Qed.

(* ... and an operation that passes validation reaches its effect stage (the model refuses nothing else) *)
Definition after_validation (rq : request) (e e2 : list call * bool) : list call * bool :=
  match rq with
  | Append _ _ _ | PlainWrite _ _ _ _ | Merge _ => e
  | Overwrite _ => if snd e then e else (fst e ++ fst e2, snd e2)
  | Read _ _ => ([], false)
  end.

Lemma exec_eff_last cs b : exec [Eff cs b] = (cs, b).
Proof. destruct b; cbn; [reflexivity | now rewrite app_nil_r]. Qed.

Theorem validation_pass rq d e e2 : rejected rq d = false -> exec (program rq d e e2) = after_validation rq e e2.
Proof.
  destruct e as [cs b], e2 as [cs2 b2].
  destruct rq as [sreq pon fr | fr | sreq pon hn fr | cols fcols | same]; unfold rejected, program, after_validation; cbn [fst snd].
  - destruct (scheme_name_ok sreq); cbn [negb orb app exec]; [|discriminate].
    destruct (bytes_eqb sreq s_simple); cbn [app exec].
    + destruct (scheme_eqb (d_scheme d) SSimple || scheme_eqb (d_scheme d) SEmpty); cbn [negb orb exec]; [|discriminate].
      destruct (cols_match (d_cols d ++ d_cats d) (f_cols fr)); cbn [negb]; [|discriminate]. intros _. apply exec_eff_last.
    + destruct (scheme_eqb (d_scheme d) SHive || scheme_eqb (d_scheme d) SEmpty || scheme_eqb (d_scheme d) SFlat);
        cbn [negb orb exec]; [|discriminate].
      destruct (list_eqb bytes_eqb pon (d_cats d)); cbn [negb orb exec]; [|discriminate].
      destruct (cols_match (d_cols d ++ d_cats d) (f_cols fr)); cbn [negb]; [|discriminate]. intros _. apply exec_eff_last.
  - destruct (goes_simple d); cbn [negb orb exec]; [discriminate|].
    destruct (d_cats d) as [|c cs']; cbn [orb exec]; [discriminate|].
    destruct (subset_b (c :: cs') (strs (f_cols fr))); cbn [negb orb exec]; [|discriminate].
    destruct (cols_match (d_cols d ++ c :: cs') (f_cols fr)); cbn [negb]; [|discriminate]. intros _.
    destruct b; cbn; [reflexivity|]. destruct b2; cbn; [reflexivity | now rewrite app_nil_r].
  - destruct (scheme_name_ok sreq); cbn [negb orb exec]; [|discriminate].
    destruct (subset_b pon (strs (f_cols fr))); cbn [negb orb exec]; [|discriminate].
    destruct hn as [l|].
    + destruct (subset_b l (strs (f_cols fr))); cbn [negb orb exec]; [|discriminate].
      destruct (nodup_c (f_cols fr)); cbn [negb orb exec]; [|discriminate].
      destruct (forallb is_str (f_cols fr)); cbn [negb orb exec]; [|discriminate].
      destruct (forallb (fun b => b) (f_typed fr)); cbn [negb]; [|discriminate]. intros _. apply exec_eff_last.
    + cbn [orb exec].
      destruct (nodup_c (f_cols fr)); cbn [negb orb exec]; [|discriminate].
      destruct (forallb is_str (f_cols fr)); cbn [negb orb exec]; [|discriminate].
      destruct (forallb (fun b => b) (f_typed fr)); cbn [negb]; [|discriminate]. intros _. apply exec_eff_last.
  - destruct (subset_b cols (d_cols d ++ d_cats d)); cbn [negb orb exec]; [|discriminate].
    destruct (subset_b fcols (d_cols d ++ d_cats d)); cbn [negb exec]; [reflexivity | discriminate].
  - destruct same; cbn [negb]; [|discriminate]. intros _. apply exec_eff_last.
Qed.

(* whatever happens, a Read issues no file-changing call at all *)
Theorem read_never_writes cols fcols d e e2 : fst (exec (program (Read cols fcols) d e e2)) = [].
Proof.
  unfold program. destruct (subset_b cols (d_cols d ++ d_cats d)); cbn; [|reflexivity].
  destruct (subset_b fcols (d_cols d ++ d_cats d)); reflexivity.
Qed.

(* ------------------------------------------------------------------------------------------ *)
(* 2. part names: PART_ID.match(join(dir, 'part.%i.parquet' % n))['i'] = n                    *)
(* ------------------------------------------------------------------------------------------ *)
Lemma digit_con_uint_bytes u : bytes_uint (uint_bytes u) = Some u.
Proof. induction u; cbn; try reflexivity; now rewrite IHu. Qed.

Lemma undec_dec n : undec (dec n) = Some n.
Proof. unfold undec, dec. rewrite digit_con_uint_bytes. cbn. f_equal. apply DecimalN.Unsigned.of_to. Qed.

Lemma uint_bytes_digits u : forallb is_digit (uint_bytes u) = true.
Proof. induction u; cbn; auto. Qed.

Lemma dec_nonempty n : dec n <> [].
Proof.
  unfold dec. destruct n as [|p]; cbn; [discriminate|].
  pose proof (DecimalPos.Unsigned.to_uint_nonnil p) as H.
  destruct (Pos.to_uint p); cbn; congruence.
Qed.

Lemma span_digits_app ds x rest : forallb is_digit ds = true -> is_digit x = false ->
  span_digits (ds ++ x :: rest) = (ds, x :: rest).
Proof.
  induction ds as [|b ds IH]; cbn; intros H Hx; [now rewrite Hx|].
  apply andb_true_iff in H. destruct H as [Hb Hd]. rewrite Hb, (IH Hd Hx). reflexivity.
Qed.

Lemma forallb_rev {A} (f : A -> bool) l : forallb f (rev l) = forallb f l.
Proof.
  induction l as [|a l IH]; cbn; [reflexivity|]. rewrite forallb_app, IH. cbn. rewrite andb_true_r. apply andb_comm.
Qed.

Lemma strip_prefix_app a b : strip_prefix a (a ++ b) = Some b.
Proof. induction a as [|x a IH]; cbn; [reflexivity|]. now rewrite N.eqb_refl. Qed.

Lemma existsb_nl_app a b : existsb (N.eqb 10) (a ++ b) = existsb (N.eqb 10) a || existsb (N.eqb 10) b.
Proof. apply existsb_app. Qed.

Lemma digits_no_nl ds : forallb is_digit ds = true -> existsb (N.eqb 10) ds = false.
Proof.
  induction ds as [|b ds IH]; cbn [forallb existsb]; [reflexivity|]. intros H. apply andb_true_iff in H. destruct H as [Hb Hd].
  rewrite (IH Hd), orb_false_r. destruct (N.eqb_spec 10 b) as [E|E]; [subst b; discriminate | reflexivity].
Qed.

Lemma part_name_no_nl n : existsb (N.eqb 10) (part_name n) = false.
Proof.
  unfold part_name. rewrite !existsb_nl_app. unfold dec. rewrite (digits_no_nl _ (uint_bytes_digits _)). reflexivity.
Qed.

(* the text in front of "part.N.parquet" is arbitrary (no newline) *)
Lemma rev_part_name pre n :
  rev (pre ++ part_name n) = rev s_parquet ++ dot :: rev (dec n) ++ dot :: rev s_part ++ rev pre.
Proof.
  unfold part_name. rewrite !rev_app_distr. cbn [rev app]. rewrite <- !app_assoc. reflexivity.
Qed.

Lemma is_prefix_app a b : is_prefix a (a ++ b) = true.
Proof. induction a as [|x a IH]; cbn [is_prefix app]; [reflexivity|]. now rewrite N.eqb_refl. Qed.

(* proved by the owner of FsPaths.v against the current definition of part_id (Proofs/OpsProofs.v) *)
Lemma part_id_prefix pre n : existsb (N.eqb 10) pre = false -> part_id (pre ++ part_name n) = Some n.
Proof. exact (OpsProofs.part_id_named pre n). Qed.

Lemma part_id_join d n : no_nl d = true -> part_id (join d (part_name n)) = Some n.
Proof.
  unfold no_nl, join. intros H. apply negb_true_iff in H. destruct d as [|x d].
  - apply (part_id_prefix [] n eq_refl).
  - rewrite app_assoc. apply part_id_prefix. rewrite existsb_nl_app, H. reflexivity.
Qed.

Lemma fold_max_ge' l : forall a x, ((x <= a)%N \/ In x l) -> (x <= fold_left N.max l a)%N.
Proof.
  induction l as [|y l IH]; cbn [fold_left In]; intros a x [H|H]; try exact H; try contradiction.
  - apply IH. left. lia.
  - apply IH. destruct H as [H|H]; [left; subst; lia | now right].
Qed.

Lemma part_ids_in refs l p : part_ids refs = Some l -> In p refs -> exists k, part_id p = Some k /\ In k l.
Proof.
  revert l. induction refs as [|q refs IH]; cbn; intros l H Hin; [contradiction|].
  destruct (part_id q) as [n|] eqn:Eq; [|discriminate]. destruct (part_ids refs) as [l'|]; [|discriminate].
  inversion H; subst l. destruct Hin as [Hin|Hin].
  - subst q. exists n. split; [exact Eq | now left].
  - destruct (IH l' eq_refl Hin) as [k [Hk Hl]]. exists k. split; [exact Hk | now right].
Qed.

(* write_multi's names are fresh: no referenced path carries a part number >= find_max_part *)
Theorem fresh_part_name refs off d n : find_max_part refs = Some off -> (off <= n)%N -> no_nl d = true ->
  ~ In (join d (part_name n)) refs.
Proof.
  unfold find_max_part. intros H Hn Hd Hin.
  destruct (part_ids refs) as [l|] eqn:El; [|discriminate].
  destruct (part_ids_in refs l _ El Hin) as [k [Hk Hl]]. rewrite (part_id_join d n Hd) in Hk. inversion Hk; subst k.
  destruct l as [|a l]; [contradiction|]. inversion H; subst off.
  assert (n <= fold_left N.max l a)%N by (apply fold_max_ge'; destruct Hl as [Hl|Hl]; [left; subst; lia | now right]). lia.
Qed.

(* ------------------------------------------------------------------------------------------ *)
(* 3. a late failure of write_multi leaves the old dataset byte-identical                     *)
(* ------------------------------------------------------------------------------------------ *)
Lemma quiet_no_md tr refs :
  (forall c, In c tr -> untouched c (md_name :: cmd_name :: refs) = true) -> existsb is_md_open tr = false.
Proof.
  induction tr as [|c tr IH]; cbn [existsb]; intros H; [reflexivity|].
  rewrite IH by (intros; apply H; now right). rewrite orb_false_r.
  pose proof (proj1 (untouched_spec _ _) (H c (or_introl eq_refl)) md_name (or_introl eq_refl)) as A.
  destruct c; cbn [is_md_open affects] in *; try reflexivity. exact A.
Qed.

Lemma split_md_quiet tr : existsb is_md_open tr = false -> split_md tr = (tr, []).
Proof.
  induction tr as [|c tr IH]; cbn; intros H; [reflexivity|].
  apply orb_false_iff in H. destruct H as [H1 H2]. rewrite H1, (IH H2). reflexivity.
Qed.

(* a trace none of whose calls touches the summary files or a referenced file is safe *)
Theorem quiet_trace_safe refs tr :
  (forall c, In c tr -> untouched c (md_name :: cmd_name :: refs) = true) ->
  check_safe_trace refs tr = true /\ existsb is_md_open tr = false.
Proof.
  intros H. pose proof (quiet_no_md tr refs H) as Hno. split; [|exact Hno].
  unfold check_safe_trace. rewrite (split_md_quiet tr Hno). cbn. rewrite !andb_true_r.
  apply forallb_forall. exact H.
Qed.

Lemma quiet_trace_frame refs tr s q :
  (forall c, In c tr -> untouched c (md_name :: cmd_name :: refs) = true) ->
  In q (md_name :: cmd_name :: refs) -> lookup q (run_trace tr s) = lookup q s.
Proof.
  intros H Hq. apply run_frame. intros c Hc. exact (proj1 (untouched_spec _ _) (H c Hc) q Hq).
Qed.

Lemma plan_paths off rgs p f : In (p, f) (plan off rgs) ->
  exists n g, (off <= n)%N /\ In g rgs /\ In f g /\ p = join (pf_dir f) (part_name n).
Proof.
  revert off. induction rgs as [|g rgs IH]; cbn; intros off H; [contradiction|].
  apply in_app_or in H. destruct H as [H|H].
  - apply in_map_iff in H. destruct H as [f' [E Hf]]. inversion E; subst f' p.
    exists off, g. repeat split; auto. lia.
  - destruct (IH _ H) as [n [g' [Hn [Hg [Hf Hp]]]]]. exists n, g'. repeat split; auto. lia.
Qed.

Lemma md_part_id : part_id md_name = None /\ part_id cmd_name = None.
Proof. split; vm_compute; reflexivity. Qed.

Lemma file_calls_quiet refs off rgs e k :
  (forall g f, In g rgs -> In f g -> no_nl (pf_dir f) = true) -> find_max_part refs = Some off ->
  In e (plan off rgs) -> forall c, In c (file_calls e k) -> untouched c (md_name :: cmd_name :: refs) = true.
Proof.
  intros Hnl Hoff He c Hc. destruct e as [p f]. apply untouched_spec. intros q Hq.
  destruct (plan_paths _ _ _ _ He) as [n [g [Hn [Hg [Hf Hp]]]]].
  assert (Hpq : bytes_eqb p q = false).
  { apply bytes_eqb_false. intros E. subst q. destruct Hq as [Hq|[Hq|Hq]].
    - pose proof (part_id_join (pf_dir f) n (Hnl g f Hg Hf)) as A. rewrite <- Hp, <- Hq in A.
      destruct md_part_id; congruence.
    - pose proof (part_id_join (pf_dir f) n (Hnl g f Hg Hf)) as A. rewrite <- Hp, <- Hq in A.
      destruct md_part_id; congruence.
    - rewrite Hp in Hq. exact (fresh_part_name refs off _ n Hoff Hn (Hnl g f Hg Hf) Hq). }
  unfold file_calls in Hc. apply in_app_or in Hc. destruct Hc as [Hc|Hc].
  - destruct (pf_mk f); [|contradiction]. destruct Hc as [Hc|[]]. subst c. reflexivity.
  - destruct Hc as [Hc|Hc]; [subst c; exact Hpq|]. apply in_app_or in Hc. destruct Hc as [Hc|Hc].
    + apply in_map_iff in Hc. destruct Hc as [x [Hx _]]. subst c. exact Hpq.
    + destruct Hc as [Hc|[]]. subst c. reflexivity.
Qed.

Lemma fail_trace_quiet refs off rgs r k :
  (forall g f, In g rgs -> In f g -> no_nl (pf_dir f) = true) -> find_max_part refs = Some off ->
  forall c, In c (fail_trace (plan off rgs) r k) -> untouched c (md_name :: cmd_name :: refs) = true.
Proof.
  intros Hnl Hoff c Hc. unfold fail_trace in Hc. apply in_app_or in Hc. destruct Hc as [Hc|Hc].
  - apply in_flat_map in Hc. destruct Hc as [e [He Hc]].
    apply (file_calls_quiet refs off rgs e None Hnl Hoff); [|exact Hc].
    rewrite <- (firstn_skipn r (plan off rgs)). apply in_or_app. now left.
  - destruct (nth_error (plan off rgs) r) as [e|] eqn:En; [|contradiction].
    apply (file_calls_quiet refs off rgs e (Some k) Hnl Hoff); [|exact Hc]. eapply nth_error_In; eassumption.
Qed.

Theorem multi_fail_intact refs rgs r k :
  (forall g f, In g rgs -> In f g -> no_nl (pf_dir f) = true) ->
  let tr := fst (multi_fail refs rgs r k) in
  safe_trace refs tr /\ existsb is_md_open tr = false
  /\ forall s q, In q (md_name :: cmd_name :: refs) -> lookup q (run_trace tr s) = lookup q s.
Proof.
  intros Hnl. unfold multi_fail. destruct (find_max_part refs) as [off|] eqn:Hoff; cbn [fst].
  - pose proof (fail_trace_quiet refs off rgs r k Hnl Hoff) as Q.
    destruct (quiet_trace_safe refs _ Q) as [A B]. split; [now apply check_safe_trace_sound|]. split; [exact B|].
    intros s q Hq. now apply (quiet_trace_frame refs).
  - split; [|split; [reflexivity | reflexivity]].
    apply check_safe_trace_sound. reflexivity.
Qed.

(* ------------------------------------------------------------------------------------------ *)
(* 4. single-file append: the restoring relation                                              *)
(* ------------------------------------------------------------------------------------------ *)
Local Open Scope nat_scope.
Lemma pad_le n (f : bytes) : n <= length f -> pad n f = f.
Proof. intros H. unfold pad. replace (n - length f) with 0 by lia. apply app_nil_r. Qed.

Lemma pad_length n (f : bytes) : n <= length (pad n f).
Proof. unfold pad. rewrite app_length, repeat_length. lia. Qed.

Lemma firstn_pad p n (f : bytes) : p <= length f -> firstn p (pad n f) = firstn p f.
Proof.
  intros H. unfold pad. rewrite firstn_app. replace (p - length f) with 0 by lia. cbn. apply app_nil_r.
Qed.

Definition keeps (p : nat) (f0 st : bytes) : Prop := p <= length st /\ firstn p st = firstn p f0.

Lemma fstep_keeps p f0 st o : keeps p f0 st -> op_from p o = true -> keeps p f0 (fstep st o).
Proof.
  intros [L E] H. destruct o as [q d|m]; cbn in *; apply Nat.leb_le in H.
  - unfold pwrite. split.
    + rewrite app_length, firstn_length_le by apply pad_length. lia.
    + rewrite firstn_app, firstn_firstn, firstn_length_le by apply pad_length.
      replace (p - q) with 0 by lia. replace (Nat.min p q) with p by lia. cbn. rewrite app_nil_r.
      now rewrite firstn_pad.
  - unfold ptrunc. split.
    + rewrite firstn_length_le by apply pad_length. exact H.
    + rewrite firstn_firstn. replace (Nat.min p m) with p by lia. now rewrite firstn_pad.
Qed.

Lemma run_keeps p f0 ops st : keeps p f0 st -> forallb (op_from p) ops = true -> keeps p f0 (run_fops ops st).
Proof.
  revert st. induction ops as [|o ops IH]; cbn; intros st K H; [exact K|].
  apply andb_true_iff in H. destruct H as [H1 H2]. apply IH; [|exact H2]. now apply fstep_keeps.
Qed.

Lemma restore_last p f st : p <= length f -> keeps p f st ->
  ptrunc (length f) (pwrite p (skipn p f) st) = f.
Proof.
  intros Hp [L E]. unfold pwrite. rewrite (pad_le p st L), E.
  rewrite app_assoc, firstn_skipn. unfold ptrunc.
  rewrite firstn_pad by (rewrite app_length; lia).
  rewrite firstn_app, Nat.sub_diag, firstn_all. cbn. apply app_nil_r.
Qed.

Theorem restoring_sound f ops : check_restoring f ops = true -> run_fops ops f = f.
Proof.
  unfold check_restoring. destruct (rev ops) as [|o1 r1] eqn:R.
  - intros _. apply (f_equal (@rev fop)) in R. rewrite rev_involutive in R. now subst ops.
  - destruct o1 as [|n]; [discriminate|]. destruct r1 as [|o2 body]; [discriminate|].
    destruct o2 as [p d|]; [|discriminate].
    rewrite !andb_true_iff. intros [[[Hn Hp] Hd] Hb].
    apply Nat.eqb_eq in Hn. apply Nat.leb_le in Hp. apply bytes_eqb_true in Hd. subst n d.
    apply (f_equal (@rev fop)) in R. rewrite rev_involutive in R. cbn in R. subst ops.
    rewrite <- app_assoc. cbn [app]. unfold run_fops. rewrite fold_left_app. cbn [fold_left fstep].
    apply restore_last; [exact Hp|]. apply run_keeps; [split; [exact Hp | reflexivity]|].
    now rewrite forallb_rev.
Qed.

Lemma seq_writes_from p q ds : p <= q -> forallb (op_from p) (seq_writes q ds) = true.
Proof.
  revert q. induction ds as [|d ds IH]; cbn; intros q H; [reflexivity|].
  rewrite IH by lia. rewrite andb_true_r. now apply Nat.leb_le.
Qed.

Lemma foot_start_le f p : foot_start f = Some p -> p <= length f.
Proof.
  unfold foot_start. destruct (Nat.ltb (length f) 8); [discriminate|].
  destruct (Nat.ltb _ _); [discriminate|]. intros H; inversion H. lia.
Qed.

Theorem fixed_in_relation f ds k : check_restoring f (simple_append_fixed f ds (Some k)) = true.
Proof.
  unfold simple_append_fixed. destruct (foot_start f) as [p|] eqn:Ep; [|reflexivity].
  pose proof (foot_start_le f p Ep) as Hp.
  unfold check_restoring. rewrite rev_app_distr. cbn [rev app].
  rewrite skipn_length. replace (p + (length f - p)) with (length f) by lia.
  rewrite Nat.eqb_refl, bytes_eqb_refl, forallb_rev, (seq_writes_from p p) by lia.
  rewrite !andb_true_r. now apply Nat.leb_le.
Qed.

Theorem simple_intact f ds k : run_fops (simple_append_fixed f ds (Some k)) f = f.
Proof. apply restoring_sound, fixed_in_relation. Qed.

(* the pinned code: a file of 12 bytes with a 0-byte footer, one write of 1 byte, then the failure *)
Definition old_witness_file : bytes := [80; 65; 82; 49; 0; 0; 0; 0; 80; 65; 82; 49]%N.
Theorem simple_append_old_refuted :
  exists f ds k, foot_start f <> None /\ run_fops (simple_append_old f ds (Some k)) f <> f.
Proof. exists old_witness_file, [[7%N]; [8%N]], 1. split; vm_compute; discriminate. Qed.
