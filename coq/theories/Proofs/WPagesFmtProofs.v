(* The page layout fastparquet's writer picks for PLAIN columns (Impl/WPagesFmt.v) is a well-formed layout
   of the format specification and denotes exactly the cells of the page: by the specification round trip
   every reader written from the specification decodes such a page to the input cells. *)
From Coq Require Import NArith ZArith Arith List Lia Bool.
From Pq Require Import Base.Bytes Base.ListX Proofs.ListXProofs Codec.Hybrid Format.Phys Format.Page Format.File Format.Enc
  Impl.WPagesFmt Proofs.HybridProofs Proofs.FormatCodecProofs Proofs.FormatPageProofs Proofs.RPagesProofs
  Proofs.FormatLayoutProofs Proofs.FormatLayoutProofs2.
Import ListNotations.
Open Scope N_scope.

Lemma lvl_level_of cells : map lvl cells = map level_of cells.
Proof. apply map_ext. intros [v|]; reflexivity. Qed.
Lemma vals_values_of cells : vals_of cells = values_of cells.
Proof. induction cells as [|[v|] r IH]; cbn; congruence. Qed.

Lemma all_some_levels cells : forallb is_some cells = true -> map level_of cells = repeat 1 (length cells).
Proof.
  induction cells as [|c r IH]; [reflexivity|]. cbn [forallb]. intros H. apply andb_true_iff in H. destruct H as [H1 H2].
  destruct c; [|discriminate]. cbn [map level_of length repeat]. now rewrite IH.
Qed.

Lemma mod8_pad n : (Nat.modulo (n + (8 - Nat.modulo n 8)) 8 = 0)%nat.
Proof.
  pose proof (Nat.mod_upper_bound n 8 ltac:(lia)) as U. pose proof (Nat.div_mod n 8 ltac:(lia)) as D.
  replace (n + (8 - n mod 8))%nat with ((8 * (n / 8) + n mod 8) + (8 - n mod 8))%nat by lia.
  replace (8 * (n / 8) + n mod 8 + (8 - n mod 8))%nat with ((n / 8 + 1) * 8)%nat by lia.
  apply Nat.mod_mul. lia.
Qed.

(* the level runs the writer emits carry exactly the page's levels *)
Lemma fp_levels cells : takeN (lenN cells) (runs_vals (fp_def_runs cells)) = map level_of cells.
Proof.
  rewrite takeN_ok, runs_vals_ok, lenN_ok, Nat2N.id. unfold fp_def_runs, runs_total.
  destruct (forallb is_some cells) eqn:A; cbn [map List.concat run_vals]; rewrite app_nil_r.
  - rewrite lenN_ok, Nat2N.id, (all_some_levels cells A). rewrite <- (repeat_length 1 (length cells)) at 1. apply firstn_all.
  - rewrite lvl_level_of. unfold pad8. rewrite <- app_assoc.
    rewrite <- (map_length level_of cells) at 1. rewrite firstn_app, Nat.sub_diag, firstn_all. cbn. apply app_nil_r.
Qed.

Theorem fp_plain_page_cells v2 optional t tlen cells : cells_fit optional cells ->
  page_cells {| cd_type := t; cd_tlen := tlen; cd_maxdef := if optional then 1 else 0 |} None (fp_plain_page v2 optional cells)
  = Some cells.
Proof.
  intros FIT. unfold page_cells, page_levels, fp_plain_page. cbn [cd_maxdef lp_nvals lp_def lp_store store_values].
  destruct optional; cbn [N.eqb Pos.eqb].
  - rewrite fp_levels, vals_values_of. apply (cells_of_levels cells []).
  - rewrite repN_ok, app_nil_r, lenN_ok, Nat2N.id, vals_values_of. apply (cells_of_required cells []). now apply FIT.
Qed.

Theorem fp_plain_page_wf v2 optional t tlen cells :
  cells_fit optional cells ->
  Forall (fun v => value_ok t tlen v = true) (vals_of cells) ->
  lenN (hyb_enc 1 (fp_def_runs cells)) < 2 ^ 32 -> cells <> [] ->
  page_wf {| cd_type := t; cd_tlen := tlen; cd_maxdef := if optional then 1 else 0 |} (fp_plain_page v2 optional cells).
Proof.
  intros FIT VOK BND NE. split.
  - unfold levels_wf, fp_plain_page. cbn [cd_maxdef lp_def lp_nvals]. destruct optional; [right|left; reflexivity].
    split; [reflexivity|]. repeat split.
    + unfold fp_def_runs. destruct (forallb is_some cells).
      * constructor; [|constructor]. cbn [run_ok].
        split; [rewrite lenN_ok; destruct cells; [now contradiction NE|cbn [length]; lia]|cbn; lia].
      * constructor; [|constructor]. cbn [run_ok]. split.
        -- destruct cells; [now contradiction NE|discriminate].
        -- apply Forall_app. split.
           ++ apply Forall_forall. intros x Hx. apply in_map_iff in Hx. destruct Hx as ([v|] & <- & _); cbn; lia.
           ++ apply Forall_forall. intros x Hx. apply repeat_spec in Hx. subst. cbn; lia.
    + pose proof (fp_levels cells) as FL. rewrite takeN_ok, runs_vals_ok, lenN_ok, Nat2N.id in FL.
      assert (LL : length (firstn (length cells) (runs_total (fp_def_runs cells))) = length cells) by (rewrite FL; apply map_length).
      rewrite firstn_length in LL. rewrite lenN_ok. lia.
    + exact BND.
  - unfold fp_plain_page, page_levels. cbn [cd_maxdef lp_def lp_nvals lp_store store_wf cd_type cd_tlen].
    split; [exact VOK|]. rewrite vals_values_of. destruct optional; cbn [N.eqb Pos.eqb].
    + rewrite fp_levels. symmetry. apply count_levels.
    + rewrite repN_ok, app_nil_r, lenN_ok, Nat2N.id, count_def_repeat.
      rewrite values_of_required by (now apply FIT). reflexivity.
Qed.

(* the model's payload is what the specification encoder lays out for that page (uncompressed) *)
Lemma fp_payload_v1 optional t tlen cells :
  fp_plain_payload false optional t tlen cells
  = v1_raw {| cd_type := t; cd_tlen := tlen; cd_maxdef := if optional then 1 else 0 |} (fp_plain_page false optional cells).
Proof.
  unfold fp_plain_payload, v1_raw. cbn [cd_maxdef lp_def lp_store lp_trail fp_plain_page].
  rewrite !app_tr_ok. destruct optional; cbn [N.eqb Pos.eqb]; [rewrite hyb_enc_len_x_ok|]; reflexivity.
Qed.
