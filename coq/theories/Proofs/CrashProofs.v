From Coq Require Import NArith Arith List Bool Lia.
From Pq Require Import Base.Bytes Proofs.BytesProofs Dataset.FS Dataset.Crash.
Import ListNotations.

(* ---------- byte-string equality, prefixes ---------- *)
Lemma bytes_eqb_refl a : bytes_eqb a a = true.
Proof. destruct (bytes_eqb_spec a a); congruence. Qed.

Lemma bytes_eqb_sym a b : bytes_eqb a b = bytes_eqb b a.
Proof. destruct (bytes_eqb_spec a b), (bytes_eqb_spec b a); congruence. Qed.

Lemma bytes_eqb_false a b : a <> b -> bytes_eqb a b = false.
Proof. destruct (bytes_eqb_spec a b); congruence. Qed.

Lemma bytes_eqb_true a b : bytes_eqb a b = true -> a = b.
Proof. destruct (bytes_eqb_spec a b); congruence. Qed.

Lemma is_prefix_spec a b : is_prefix a b = true <-> exists r, b = a ++ r.
Proof.
  revert b; induction a as [|x a IH]; intros b; cbn.
  - split; [intros _; now exists b | reflexivity].
  - destruct b as [|y b].
    + split; [discriminate | intros [r H]; discriminate].
    + rewrite andb_true_iff, IH, N.eqb_eq. split.
      * intros [E [r Hr]]. subst. now exists r.
      * intros [r Hr]. inversion Hr; subst. split; [reflexivity | now exists r].
Qed.

Lemma under_spec p q : under p q = true <-> q = p \/ exists r, q = p ++ slash :: r.
Proof.
  unfold under. rewrite orb_true_iff, is_prefix_spec. split.
  - intros [H|[r H]]; [left; symmetry; now apply bytes_eqb_true | right; exists r].
    now rewrite <- app_assoc in H.
  - intros [H|[r H]]; [left; subst; apply bytes_eqb_refl | right; exists r].
    now rewrite <- app_assoc.
Qed.

Lemma under_refl p : under p p = true.
Proof. apply under_spec; now left. Qed.

Lemma skipn_app_len {A} (a b : list A) : skipn (length a) (a ++ b) = b.
Proof. induction a; cbn; auto. Qed.

Lemma under_rename a b k : under a k = true -> under b (b ++ skipn (length a) k) = true.
Proof.
  intros H. apply under_spec in H. apply under_spec. destruct H as [H|[r H]]; subst k.
  - left. rewrite <- (app_nil_r a) at 2. rewrite skipn_app_len. apply app_nil_r.
  - right. exists r. now rewrite skipn_app_len.
Qed.

(* ---------- lookups after updates ---------- *)
Lemma lookup_filter_key (g : path -> bool) p s :
  lookup p (filter (fun e => g (fst e)) s) = if g p then lookup p s else None.
Proof.
  induction s as [|[q v] s IH]; cbn; [now destruct (g p)|].
  destruct (g q) eqn:Gq; cbn.
  - destruct (bytes_eqb_spec p q) as [E|N]; [subst; now rewrite Gq | exact IH].
  - rewrite IH. destruct (bytes_eqb_spec p q) as [E|N]; [subst; now rewrite Gq | reflexivity].
Qed.

Lemma lookup_set_same p v s : lookup p (set_file p v s) = Some v.
Proof. unfold set_file; cbn. now rewrite bytes_eqb_refl. Qed.

Lemma lookup_set_other p q v s : bytes_eqb p q = false -> lookup q (set_file p v s) = lookup q s.
Proof.
  intros H. unfold set_file; cbn. rewrite bytes_eqb_sym, H.
  rewrite (lookup_filter_key (fun k => negb (bytes_eqb p k))). now rewrite H.
Qed.

Lemma lookup_remove_under p q s : under p q = false -> lookup q (remove_under p s) = lookup q s.
Proof.
  intros H. unfold remove_under. rewrite (lookup_filter_key (fun k => negb (under p k))). now rewrite H.
Qed.

Lemma lookup_rename_under a b q s : under a q = false -> under b q = false ->
  lookup q (rename_under a b s) = lookup q s.
Proof.
  intros Ha Hb. unfold rename_under. rewrite <- (lookup_remove_under b q s Hb).
  induction (remove_under b s) as [|[k v] r IH]; cbn; [reflexivity|].
  destruct (under a k) eqn:Hk; cbn.
  - pose proof (under_rename a b k Hk) as Hn.
    rewrite bytes_eqb_false by (intros E; rewrite <- E in Hn; congruence).
    rewrite bytes_eqb_false by (intros E; rewrite <- E in Hk; congruence).
    exact IH.
  - destruct (bytes_eqb q k); [reflexivity | exact IH].
Qed.

(* ---------- frame property of calls, traces, interrupted calls ---------- *)
Lemma step_frame c q s : affects c q = false -> lookup q (step s c) = lookup q s.
Proof.
  destruct c as [p|p t|p d|p|a b|p]; cbn; intros H; try reflexivity.
  - destruct t; [now apply lookup_set_other|].
    destruct (lookup p s); [reflexivity | now apply lookup_set_other].
  - destruct (lookup p s); [now apply lookup_set_other | reflexivity].
  - apply orb_false_iff in H. destruct H. now apply lookup_rename_under.
  - now apply lookup_remove_under.
Qed.

Lemma run_app a b s : run_trace (a ++ b) s = run_trace b (run_trace a s).
Proof. unfold run_trace. apply fold_left_app. Qed.

Lemma run_frame tr q s : (forall c, In c tr -> affects c q = false) -> lookup q (run_trace tr s) = lookup q s.
Proof.
  revert s; induction tr as [|c tr IH]; intros s H; [reflexivity|]. cbn.
  rewrite IH by (intros; apply H; now right). apply step_frame, H. now left.
Qed.

Lemma partial_frame c q s s' : partial c s s' -> affects c q = false -> lookup q s' = lookup q s.
Proof.
  intros P H. inversion P; subst; [reflexivity | now apply step_frame | now apply step_frame].
Qed.

(* ---------- split_md ---------- *)
Lemma split_md_app tr : tr = fst (split_md tr) ++ snd (split_md tr).
Proof.
  induction tr as [|c tr IH]; cbn; [reflexivity|].
  destruct (is_md_open c); [reflexivity|]. destruct (split_md tr) as [a b]; cbn in *. now f_equal.
Qed.

Lemma split_md_nomd a b : existsb is_md_open a = false ->
  split_md (a ++ b) = (a ++ fst (split_md b), snd (split_md b)).
Proof.
  induction a as [|c a IH]; cbn; intros H; [now destruct (split_md b)|].
  apply orb_false_iff in H. destruct H as [H1 H2]. rewrite H1, (IH H2). reflexivity.
Qed.

Lemma existsb_app_false {A} (f : A -> bool) a b : existsb f (a ++ b) = false -> existsb f a = false /\ existsb f b = false.
Proof. rewrite existsb_app. apply orb_false_iff. Qed.

Lemma untouched_spec c qs : untouched c qs = true <-> forall q, In q qs -> affects c q = false.
Proof.
  unfold untouched. rewrite forallb_forall. split; intros H q Hq; specialize (H q Hq).
  - now apply negb_true_iff. - now apply negb_true_iff.
Qed.

Lemma split_md_pre_nomd tr : existsb is_md_open (fst (split_md tr)) = false.
Proof.
  induction tr as [|c tr IH]; cbn; [reflexivity|].
  destruct (is_md_open c) eqn:Hc; [reflexivity|]. destruct (split_md tr) as [a b]; cbn in *. now rewrite Hc.
Qed.

(* ---------- the checker is sound ---------- *)
Theorem check_safe_trace_sound refs tr : check_safe_trace refs tr = true -> safe_trace refs tr.
Proof.
  unfold check_safe_trace. destruct (split_md tr) as [pre post] eqn:S.
  rewrite !andb_true_iff, !forallb_forall. intros [[Hpre Hh] Hpost].
  pose proof (split_md_app tr) as Happ. rewrite S in Happ; cbn in Happ.
  intros tr1 c tr2 E. split; [|split].
  - assert (Hin : In c tr) by (rewrite E; apply in_or_app; right; now left).
    rewrite Happ in Hin. apply in_app_or in Hin. destruct Hin as [Hin|Hin].
    + intros q Hq. apply (proj1 (untouched_spec _ _) (Hpre c Hin)). right; right; exact Hq.
    + apply untouched_spec. specialize (Hpost c Hin). now apply andb_true_iff in Hpost.
  - intros Hno. rewrite E, (split_md_nomd _ _ Hno) in S. cbn [split_md] in S.
    destruct (is_md_open c) eqn:Hc.
    + inversion S; subst pre post. split; [discriminate|]. intros _.
      rewrite app_nil_r in Hh. cbn in Hh. destruct (open_handles tr1); [reflexivity | discriminate].
    + destruct (split_md tr2) as [a b]. inversion S; subst pre post. split; [|discriminate]. intros _.
      assert (Hin : In c (tr1 ++ c :: a)) by (apply in_or_app; right; now left).
      pose proof (proj1 (untouched_spec _ _) (Hpre c Hin)) as U.
      split; apply U; [now left | right; now left].
  - intros Hyes. assert (Hin : In c post).
    { pose proof (split_md_pre_nomd tr) as Hp. rewrite S in Hp; cbn in Hp.
      rewrite Happ in E. clear -E Hp Hyes. revert tr1 E Hyes.
      induction pre as [|x pre IH]; intros tr1 E Hyes; cbn in *.
      - rewrite E. apply in_or_app; right; now left.
      - apply orb_false_iff in Hp. destruct Hp as [Hx Hp]. destruct tr1 as [|y tr1]; [discriminate|].
        inversion E; subst y. cbn in Hyes. rewrite Hx in Hyes. cbn in Hyes. now apply (IH Hp tr1). }
    specialize (Hpost c Hin). now apply andb_true_iff in Hpost.
Qed.

(* and complete: the predicate is exactly what the checker decides *)
Theorem check_safe_trace_complete refs tr : safe_trace refs tr -> check_safe_trace refs tr = true.
Proof.
  intros H. unfold check_safe_trace. destruct (split_md tr) as [pre post] eqn:S.
  pose proof (split_md_app tr) as Happ. rewrite S in Happ; cbn in Happ.
  assert (Hno : existsb is_md_open pre = false).
  { pose proof (split_md_pre_nomd tr) as Hp. now rewrite S in Hp. }
  rewrite !andb_true_iff, !forallb_forall. repeat split.
  - intros c Hin. apply untouched_spec. apply in_split in Hin. destruct Hin as [x [y Hxy]].
    specialize (H x c (y ++ post)). rewrite Happ, Hxy, <- app_assoc in H. specialize (H eq_refl).
    rewrite Hxy in Hno. apply existsb_app_false in Hno. destruct Hno as [Hx Hy]. cbn in Hy.
    apply orb_false_iff in Hy. destruct Hy as [Hc _].
    destruct H as [H1 [H2 _]]. destruct (H2 Hx) as [H3 _]. destruct (H3 Hc).
    intros q [Hq|[Hq|Hq]]; subst; auto.
  - destruct post as [|c post]; [reflexivity|]. cbn.
    assert (Hc : is_md_open c = true).
    { clear -S. revert pre S. induction tr as [|c' tr IH]; cbn; intros pre S; [inversion S|].
      destruct (is_md_open c') eqn:Hc'; [inversion S; subst; exact Hc'|].
      destruct (split_md tr) as [a b]. inversion S; subst. now apply (IH a). }
    destruct (H pre c post Happ) as [_ [H2 _]]. destruct (H2 Hno) as [_ H4]. now rewrite (H4 Hc).
  - intros c Hin. apply in_split in Hin. destruct Hin as [x [y Hxy]].
    pose proof (H (pre ++ x) c y) as Hc. rewrite Happ, Hxy, <- app_assoc in Hc.
    destruct (Hc eq_refl) as [H1 [_ H3]]. apply andb_true_iff. split; [now apply untouched_spec|].
    destruct x as [|x0 x].
    + (* c is the first call of post: the write-open of _metadata itself *)
      assert (Hmd : is_md_open c = true).
      { subst post. clear -S. revert pre S. induction tr as [|c' tr IH]; cbn; intros pre S; [inversion S|].
        destruct (is_md_open c') eqn:Hc'; [inversion S; subst; exact Hc'|].
        destruct (split_md tr) as [a b]. inversion S; subst. now apply (IH a). }
      destruct c; try discriminate. cbn in *. now rewrite Hmd.
    + apply H3. rewrite existsb_app. apply orb_true_iff. right. cbn.
      assert (Hmd : is_md_open x0 = true).
      { subst post. clear -S. revert pre S. induction tr as [|c' tr IH]; cbn; intros pre S; [inversion S|].
        destruct (is_md_open c') eqn:Hc'; [inversion S; subst; exact Hc'|].
        destruct (split_md tr) as [a b]. inversion S; subst. now apply (IH a). }
      now rewrite Hmd.
Qed.

(* ---------- crash safety ---------- *)
Lemma safe_prefix_frame refs tr tr1 rest q : safe_trace refs tr -> tr = tr1 ++ rest ->
  existsb is_md_open tr1 = false -> In q (md_name :: cmd_name :: refs) ->
  forall c, In c tr1 -> affects c q = false.
Proof.
  intros H E Hno Hq c Hin. apply in_split in Hin. destruct Hin as [x [y Hxy]].
  specialize (H x c (y ++ rest)). rewrite E, Hxy, <- app_assoc in H. specialize (H eq_refl).
  rewrite Hxy in Hno. apply existsb_app_false in Hno. destruct Hno as [Hx Hy]. cbn in Hy.
  apply orb_false_iff in Hy. destruct Hy as [Hc _].
  destruct H as [H1 [H2 _]]. destruct (H2 Hx) as [H3 _]. destruct (H3 Hc).
  destruct Hq as [Hq|[Hq|Hq]]; subst; auto.
Qed.

Theorem crash_safe_files refs tr tr1 c tr2 s s' :
  safe_trace refs tr -> tr = tr1 ++ c :: tr2 -> existsb is_md_open tr1 = false ->
  (is_md_open c = false \/ s' = run_trace tr1 s) -> crash_at tr1 c s s' ->
  forall q, In q (md_name :: cmd_name :: refs) -> lookup q s' = lookup q s.
Proof.
  intros H E Hno Hc P q Hq.
  assert (Hrun : lookup q (run_trace tr1 s) = lookup q s).
  { apply run_frame. now apply (safe_prefix_frame refs tr tr1 (c :: tr2) q). }
  destruct Hc as [Hc|Hc]; [|now subst s'].
  rewrite <- Hrun. apply (partial_frame c); [exact P|].
  destruct (H tr1 c tr2 E) as [H1 [H2 _]]. destruct (H2 Hno) as [H3 _]. destruct (H3 Hc).
  destruct Hq as [Hq|[Hq|Hq]]; subst; auto.
Qed.

Section ReadP.
  Variable R : Type.
  Variable parse_md : bytes -> option (list path).
  Variable decode : bytes -> list (option bytes) -> R.

  Lemma read_dataset_same s s' refs : refs_of parse_md s = Some refs ->
    (forall q, In q (md_name :: refs) -> lookup q s' = lookup q s) ->
    read_dataset R parse_md decode s' = read_dataset R parse_md decode s.
  Proof.
    unfold refs_of, read_dataset. intros Hr H. rewrite (H md_name) by now left.
    destruct (lookup md_name s) as [b|]; [|reflexivity]. rewrite Hr. f_equal. f_equal.
    apply map_ext_in. intros p Hp. apply H. now right.
  Qed.

  Theorem crash_safe refs tr tr1 c tr2 s s' :
    refs_of parse_md s = Some refs ->
    safe_trace refs tr -> tr = tr1 ++ c :: tr2 -> existsb is_md_open tr1 = false ->
    (is_md_open c = false \/ s' = run_trace tr1 s) -> crash_at tr1 c s s' ->
    read_dataset R parse_md decode s' = read_dataset R parse_md decode s
    /\ forall q, In q (md_name :: cmd_name :: refs) -> lookup q s' = lookup q s.
  Proof.
    intros Hr H E Hno Hc P.
    pose proof (crash_safe_files refs tr tr1 c tr2 s s' H E Hno Hc P) as F. split; [|exact F].
    apply (read_dataset_same s s' refs Hr). intros q [Hq|Hq]; apply F; [now left | right; right; exact Hq].
  Qed.
End ReadP.

(* ---------- the general damage model ---------- *)
Lemma run_is_damage issued s : damaged_by issued s (run_trace issued s).
Proof. intros q H. now apply run_frame. Qed.

Lemma crash_is_damage tr1 c s s' : crash_at tr1 c s s' -> damaged_by (tr1 ++ [c]) s s'.
Proof.
  intros P q H. unfold crash_at in P.
  rewrite (partial_frame c q _ _ P) by (apply H, in_or_app; right; now left).
  apply run_frame. intros x Hx. apply H, in_or_app. now left.
Qed.

Section ReadD.
  Variable R : Type.
  Variable parse_md : bytes -> option (list path).
  Variable decode : bytes -> list (option bytes) -> R.

  Theorem crash_safe_any_damage refs tr tr1 c tr2 s s' :
    refs_of parse_md s = Some refs ->
    safe_trace refs tr -> tr = tr1 ++ c :: tr2 ->
    existsb is_md_open tr1 = false -> is_md_open c = false ->
    damaged_by (tr1 ++ [c]) s s' ->
    read_dataset R parse_md decode s' = read_dataset R parse_md decode s
    /\ forall q, In q (md_name :: cmd_name :: refs) -> lookup q s' = lookup q s.
  Proof.
    intros Hr H E Hno Hc D.
    assert (F : forall q, In q (md_name :: cmd_name :: refs) -> lookup q s' = lookup q s).
    { intros q Hq. apply D. intros x Hx. apply in_app_or in Hx. destruct Hx as [Hx|[Hx|[]]].
      - now apply (safe_prefix_frame refs tr tr1 (c :: tr2) q H E Hno Hq).
      - subst x. destruct (H tr1 c tr2 E) as [H1 [H2 _]]. destruct (H2 Hno) as [H3 _]. destruct (H3 Hc).
        destruct Hq as [Hq|[Hq|Hq]]; subst; auto. }
    split; [|exact F].
    apply (read_dataset_same R parse_md decode s s' refs Hr). intros q [Hq|Hq]; apply F; [now left | right; right; exact Hq].
  Qed.
End ReadD.

(* ---------- no existing data file is opened for writing; old files survive the whole trace ---------- *)
Theorem no_write_open_existing refs tr : safe_trace refs tr ->
  forall p t, In (OpenW p t) tr -> ~ In p refs.
Proof.
  intros H p t Hin Hp. apply in_split in Hin. destruct Hin as [x [y E]].
  destruct (H x _ y E) as [H1 _]. specialize (H1 p Hp). cbn in H1. now rewrite bytes_eqb_refl in H1.
Qed.

Theorem no_rename_remove_existing refs tr : safe_trace refs tr ->
  forall c, In c tr -> match c with Rename a b => ~ In a refs /\ ~ In b refs | Remove p => ~ In p refs | _ => True end.
Proof.
  intros H c Hin. apply in_split in Hin. destruct Hin as [x [y E]].
  destruct (H x _ y E) as [H1 _]. destruct c; try exact I.
  - split; intros Hp; specialize (H1 _ Hp); cbn in H1; rewrite under_refl in H1; cbn in H1;
      [discriminate | now rewrite orb_true_r in H1].
  - intros Hp; specialize (H1 _ Hp); cbn in H1. now rewrite under_refl in H1.
Qed.

Theorem safe_run_refs_intact refs tr s : safe_trace refs tr ->
  forall q, In q refs -> lookup q (run_trace tr s) = lookup q s.
Proof.
  intros H q Hq. apply run_frame. intros c Hin. apply in_split in Hin. destruct Hin as [x [y E]].
  now destruct (H x c y E) as [H1 _]; apply H1.
Qed.

(* a trace without any file-changing call leaves every file as it was (C18, validation failures) *)
Theorem no_write_run tr s : check_no_write tr = true -> forall q, lookup q (run_trace tr s) = lookup q s.
Proof.
  unfold check_no_write. rewrite forallb_forall. intros H q. apply run_frame. intros c Hin.
  specialize (H c Hin). now destruct c.
Qed.

(* ================= the relation with the summary files in either order ================= *)
Lemma split_sum_app tr : tr = fst (split_sum tr) ++ snd (split_sum tr).
Proof.
  induction tr as [|c tr IH]; cbn; [reflexivity|].
  destruct (is_sum_open c); [reflexivity|]. destruct (split_sum tr) as [a b]; cbn in *. now f_equal.
Qed.

Lemma is_md_sum c : is_md_open c = true -> is_sum_open c = true.
Proof. destruct c; cbn; try discriminate. intros H. now rewrite H. Qed.

(* a strict trace with well-formed writes is a relaxed one *)
Lemma split_md_sum_pre tr : forallb (fun c => untouched c [md_name; cmd_name]) (fst (split_md tr)) = true ->
  split_sum tr = split_md tr.
Proof.
  induction tr as [|c tr IH]; cbn; [reflexivity|]. destruct (is_md_open c) eqn:Hm.
  - now rewrite (is_md_sum c Hm).
  - destruct (split_md tr) as [a b] eqn:S. cbn [fst forallb]. intros H. apply andb_true_iff in H. destruct H as [Hc Ha].
    assert (Hs : is_sum_open c = false).
    { destruct c; cbn in *; try reflexivity. unfold untouched in Hc. cbn in Hc.
      rewrite !andb_true_iff, !negb_true_iff in Hc. destruct Hc as [H1 [H2 _]]. now rewrite H1, H2. }
    rewrite Hs. cbn [fst] in IH. now rewrite (IH Ha).
Qed.

Lemma untouched_weaken c qs qs' : (forall q, In q qs' -> In q qs) -> untouched c qs = true -> untouched c qs' = true.
Proof. intros S H. apply untouched_spec. intros q Hq. apply (proj1 (untouched_spec c qs) H). now apply S. Qed.

Theorem strict_is_sym refs tr : check_safe_trace refs tr = true -> wf_writes [] tr = true -> check_safe_trace_sym refs tr = true.
Proof.
  unfold check_safe_trace, check_safe_trace_sym. intros H W.
  destruct (split_md tr) as [pre post] eqn:S. rewrite !andb_true_iff in H. destruct H as [[H1 H2] H3].
  assert (E : split_sum tr = (pre, post)).
  { rewrite <- S. apply split_md_sum_pre. rewrite S. cbn [fst]. rewrite forallb_forall in H1 |- *.
    intros c Hc. apply (untouched_weaken c (md_name :: cmd_name :: refs)); [|now apply H1].
    intros q [Hq|[Hq|[]]]; subst; [now left | right; now left]. }
  rewrite E, H1, H2, H3, W. reflexivity.
Qed.

(* every call of a relaxed-safe trace leaves the referenced files alone *)
Lemma sym_refs_untouched refs tr : safe_trace_sym refs tr -> forall c, In c tr -> untouched c refs = true.
Proof.
  unfold safe_trace_sym, check_safe_trace_sym. destruct (split_sum tr) as [pre post] eqn:S.
  rewrite !andb_true_iff, !forallb_forall. intros [[[H1 _] H3] _] c Hc.
  pose proof (split_sum_app tr) as A. rewrite S in A; cbn in A. rewrite A in Hc. apply in_app_or in Hc. destruct Hc as [Hc|Hc].
  - apply (untouched_weaken c (md_name :: cmd_name :: refs)); [|now apply H1]. intros q Hq. right; right; exact Hq.
  - specialize (H3 c Hc). now apply andb_true_iff in H3.
Qed.

(* a write on p inside a well-formed trace is preceded by a write-open of p *)
Lemma wf_writes_open tr : forall opened a p d b, wf_writes opened tr = true -> tr = a ++ Write p d :: b ->
  existsb (bytes_eqb p) opened = true \/ exists t, In (OpenW p t) a.
Proof.
  induction tr as [|c tr IH]; intros opened a p d b W E; [destruct a; discriminate|].
  destruct a as [|x a].
  - inversion E; subst. cbn in W. apply andb_true_iff in W. now left.
  - inversion E; subst x tr. clear E.
    assert (G : forall opened', wf_writes opened' (a ++ Write p d :: b) = true ->
                (forall q, existsb (bytes_eqb q) opened' = true -> existsb (bytes_eqb q) opened = true \/ exists t, c = OpenW q t) ->
                existsb (bytes_eqb p) opened = true \/ exists t, In (OpenW p t) (c :: a)).
    { intros opened' W' Hsub. destruct (IH opened' a p d b W' eq_refl) as [H|[t H]].
      - destruct (Hsub p H) as [H'|[t H']]; [now left | right; exists t; now left].
      - right. exists t. now right. }
    destruct c; cbn [wf_writes] in W; try (apply (G opened W); intros q Hq; now left).
    + apply (G (p0 :: opened) W). intros q Hq. cbn in Hq. apply orb_true_iff in Hq. destruct Hq as [Hq|Hq]; [|now left].
      right. exists trunc. f_equal. symmetry. now apply bytes_eqb_true.
    + apply andb_true_iff in W. destruct W as [_ W]. apply (G opened W). intros q Hq. now left.
Qed.

(* before _metadata is write-opened no call of a relaxed-safe trace touches _metadata *)
Lemma sym_md_untouched refs tr tr1 c tr2 : safe_trace_sym refs tr -> tr = tr1 ++ c :: tr2 ->
  existsb is_md_open tr1 = false -> is_md_open c = false -> affects c md_name = false.
Proof.
  intros H E Hno Hc. unfold safe_trace_sym, check_safe_trace_sym in H. destruct (split_sum tr) as [pre post] eqn:S.
  rewrite !andb_true_iff, !forallb_forall in H. destruct H as [[[H1 _] H3] W].
  pose proof (split_sum_app tr) as A. rewrite S in A; cbn in A.
  assert (Hin : In c tr) by (rewrite E; apply in_or_app; right; now left).
  destruct c as [p|p t|p d|p|a b|p]; try reflexivity.
  - (* OpenW p: not _metadata *) exact Hc.
  - (* Write p d: the handle was opened in tr1, and that open was not one of _metadata *)
    cbn. destruct (bytes_eqb p md_name) eqn:Ep; [|reflexivity]. exfalso.
    destruct (wf_writes_open tr [] tr1 p d tr2 W E) as [F|[t F]]; [discriminate|].
    apply bytes_eqb_true in Ep. subst p.
    assert (X : existsb is_md_open tr1 = true).
    { apply existsb_exists. exists (OpenW md_name t). split; [exact F | reflexivity]. }
    congruence.
  - (* Rename: in pre it is untouched, in post it is not post_ok *)
    rewrite A in Hin. apply in_app_or in Hin. destruct Hin as [Hin|Hin].
    + apply (proj1 (untouched_spec _ _) (H1 _ Hin)). now left.
    + specialize (H3 _ Hin). apply andb_true_iff in H3. destruct H3 as [_ H3]. discriminate.
  - rewrite A in Hin. apply in_app_or in Hin. destruct Hin as [Hin|Hin].
    + apply (proj1 (untouched_spec _ _) (H1 _ Hin)). now left.
    + specialize (H3 _ Hin). apply andb_true_iff in H3. destruct H3 as [_ H3]. discriminate.
Qed.

Lemma safe_sym_prefix refs tr a b : safe_trace_sym refs tr -> tr = a ++ b ->
  existsb is_md_open a = false -> forall x, In x a -> affects x md_name = false.
Proof.
  intros H E Hno x Hx. apply in_split in Hx. destruct Hx as [u [v Huv]].
  apply (sym_md_untouched refs tr u x (v ++ b) H).
  - rewrite E, Huv, <- app_assoc. reflexivity.
  - rewrite Huv in Hno. now apply existsb_app_false in Hno.
  - rewrite Huv in Hno. apply existsb_app_false in Hno. destruct Hno as [_ Hv]. cbn in Hv. now apply orb_false_iff in Hv.
Qed.

Section ReadS.
  Variable R : Type.
  Variable parse_md : bytes -> option (list path).
  Variable decode : bytes -> list (option bytes) -> R.

  Theorem crash_safe_sym refs tr tr1 c tr2 s s' :
    refs_of parse_md s = Some refs ->
    safe_trace_sym refs tr -> tr = tr1 ++ c :: tr2 ->
    existsb is_md_open tr1 = false -> (is_md_open c = false \/ s' = run_trace tr1 s) ->
    crash_at tr1 c s s' ->
    read_dataset R parse_md decode s' = read_dataset R parse_md decode s
    /\ forall q, In q (md_name :: refs) -> FS.lookup q s' = FS.lookup q s.
  Proof.
    intros Hr H E Hno Hc P.
    assert (U : forall x, In x tr -> forall q, In q refs -> affects x q = false).
    { intros x Hx. apply untouched_spec. now apply (sym_refs_untouched refs tr H). }
    assert (F1 : forall q, In q (md_name :: refs) -> FS.lookup q (run_trace tr1 s) = FS.lookup q s).
    { intros q Hq. apply run_frame. intros x Hx. destruct Hq as [Hq|Hq].
      - subst q. now apply (safe_sym_prefix refs tr tr1 (c :: tr2) H E Hno).
      - apply U; [rewrite E; apply in_or_app; now left | exact Hq]. }
    assert (F : forall q, In q (md_name :: refs) -> FS.lookup q s' = FS.lookup q s).
    { intros q Hq. destruct Hc as [Hc|Hc]; [|subst s'; now apply F1].
      rewrite <- (F1 q Hq). apply (partial_frame c); [exact P|]. destruct Hq as [Hq|Hq].
      - subst q. now apply (sym_md_untouched refs tr tr1 c tr2 H E Hno Hc).
      - apply U; [rewrite E; apply in_or_app; right; now left | exact Hq]. }
    split; [|exact F]. now apply (read_dataset_same R parse_md decode s s' refs Hr).
  Qed.
End ReadS.

Theorem sym_existing_untouched refs tr : safe_trace_sym refs tr ->
  (forall s q, In q refs -> FS.lookup q (run_trace tr s) = FS.lookup q s)
  /\ (forall p t, In (OpenW p t) tr -> ~ In p refs)
  /\ (forall c, In c tr ->
        match c with Rename a b => ~ In a refs /\ ~ In b refs | Remove p => ~ In p refs | _ => True end).
Proof.
  intros H.
  assert (U : forall x, In x tr -> forall q, In q refs -> affects x q = false).
  { intros x Hx. apply untouched_spec. now apply (sym_refs_untouched refs tr H). }
  split; [|split].
  - intros s q Hq. apply run_frame. intros x Hx. now apply U.
  - intros p t Hin Hp. specialize (U _ Hin p Hp). cbn in U. now rewrite bytes_eqb_refl in U.
  - intros c Hin. destruct c; try exact I.
    + split; intros Hp; specialize (U _ Hin _ Hp); cbn in U; rewrite under_refl in U; cbn in U;
        [discriminate | now rewrite orb_true_r in U].
    + intros Hp. specialize (U _ Hin _ Hp). cbn in U. now rewrite under_refl in U.
Qed.
