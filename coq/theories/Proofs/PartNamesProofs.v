(* Proofs/PartNamesProofs.v - partition columns reported = partition columns read, for every set of paths (C17). *)
From Coq Require Import NArith ZArith Bool Ascii String Arith List.
From Pq Require Import Base.Bytes Impl.Partition Impl.PartNames.
Import ListNotations.

Lemma all_some_keys : forall (A B : Type) (ka : A -> str) (kb : B -> str) (f : A -> option B) (l : list A) (r : list B),
  (forall x y, f x = Some y -> kb y = ka x) ->
  all_some (map f l) = Some r -> map kb r = map ka l.
Proof.
  intros A B ka kb f l. induction l as [|x l IH]; intros r Hk H; cbn in H.
  - inversion H. reflexivity.
  - destruct (f x) as [y|] eqn:E; [|discriminate].
    destruct (all_some (map f l)) as [r'|] eqn:E2; cbn in H; [|discriminate].
    inversion H; subst. cbn. rewrite (Hk x y E), (IH r' Hk eq_refl). reflexivity.
Qed.

Lemma all_some_In : forall (A : Type) (l : list (option A)) (r : list A) (y : A),
  all_some l = Some r -> In y r -> In (Some y) l.
Proof.
  intros A l. induction l as [|[a|] l IH]; intros r y H Hy; cbn in H.
  - inversion H; subst. destruct Hy.
  - destruct (all_some l) as [r'|] eqn:E; cbn in H; [|discriminate]. inversion H; subst.
    destruct Hy as [<-|Hy]; [left; reflexivity|right; eapply IH; eauto].
  - discriminate.
Qed.

Section PartNamesProofs.
  Variables F T D : Type.
  Variable feqb : F -> F -> bool.
  Variable teqb : T -> T -> bool.
  Variable deqb : D -> D -> bool.
  Variable f_eq_Z : F -> Z -> bool.
  Variable parse_float : bool -> str -> option F.
  Variable parse_time_np : bool -> str -> option T.
  Variable parse_time_fmt parse_time_pd : str -> option T.
  Variable parse_delta : str -> option D.
  Variable P : Type.
  Notation value := (value F T D).
  Notation row := (row F T D P).
  Notation paths_to_cats := (paths_to_cats F T D feqb teqb deqb f_eq_Z parse_float parse_time_np parse_time_fmt parse_time_pd parse_delta).
  Notation read_files := (read_files F T D feqb teqb deqb f_eq_Z parse_float parse_time_np parse_time_fmt parse_time_pd parse_delta P).
  Notation read_model := (read_model F T D feqb teqb deqb f_eq_Z parse_float parse_time_np parse_time_fmt parse_time_pd parse_delta P).
  Notation row_cell := (row_cell F T D feqb teqb deqb f_eq_Z parse_float parse_time_np parse_time_fmt parse_time_pd parse_delta).
  Notation row_cells := (row_cells F T D feqb teqb deqb f_eq_Z parse_float parse_time_np parse_time_fmt parse_time_pd parse_delta).

  Lemma row_cell_key : forall hive pm path c y, row_cell hive pm path c = Some y -> fst y = fst c.
  Proof.
    intros hive pm path c y H. unfold Partition.row_cell in H.
    repeat lazymatch type of H with
    | match ?x with _ => _ end = _ => destruct x eqn:?; try discriminate
    | option_map _ ?x = _ => destruct x eqn:?; cbn in H; try discriminate
    end.
    inversion H. reflexivity.
  Qed.

  Lemma row_cells_keys : forall hive pm cats path cells,
    row_cells hive pm cats path = Some cells -> map fst cells = map fst cats.
  Proof.
    intros hive pm cats path cells H. unfold Partition.row_cells in H.
    eapply (all_some_keys _ _ fst fst); [|exact H]. intros x y. apply row_cell_key.
  Qed.

  (* every row that read_files delivers carries exactly the partition columns of `cats`, in their order *)
  Lemma read_files_keys : forall hive pm cats (files : list (str * list row)) rows cells p,
    read_files hive pm cats files = Some rows -> In (cells, p) rows -> map fst cells = map fst cats.
  Proof.
    intros hive pm cats files rows cells p H Hin. unfold Partition.read_files in H.
    destruct (all_some _) as [parts|] eqn:E; cbn in H; [|discriminate]. inversion H; subst rows.
    apply in_concat in Hin. destruct Hin as [part [Hpart Hin]].
    pose proof (all_some_In _ _ _ _ E Hpart) as Hm. apply in_map_iff in Hm. destruct Hm as [f [Hf _]].
    destruct (row_cells hive pm cats (fst f)) as [cs|] eqn:Ec; cbn in Hf; [|discriminate]. inversion Hf; subst part.
    apply in_map_iff in Hin. destruct Hin as [r [Hr _]]. inversion Hr; subst.
    eapply row_cells_keys; eauto.
  Qed.

  (* a scheme other than hive / drill has no partition column *)
  Lemma paths_to_cats_other_empty : forall pm paths dirs s c,
    paths_to_cats pm paths dirs = Ok (s, c) -> s <> Hive -> s <> Drill -> c = [].
  Proof.
    intros pm paths dirs s c H Hh Hd. unfold Partition.paths_to_cats, res_map in H.
    repeat lazymatch type of H with
    | match ?x with _ => _ end = _ => destruct x eqn:?
    end; try discriminate; inversion H; subst; try reflexivity; congruence.
  Qed.

  (* THE theorem: for EVERY list of files (path, rows) with at least one file, every iteration order of the directory set and
     every pandas metadata: when the read succeeds, the partition columns of every row delivered are exactly the names the
     handle reports - whatever the pandas metadata says *)
  Theorem partition_names_reported_eq_read :
    forall pm ord (files : list (str * list row)) (meta : list str) s rows,
      files <> [] ->
      read_model pm ord files = Some (s, rows) ->
      exists names,
        partition_names F T D (paths_to_cats pm (map fst files) (ord (dedup_str (map strip_tail (map fst files)))))
                        (length files) meta = Ok names /\
        forall cells p, In (cells, p) rows -> map fst cells = names.
  Proof.
    intros pm ord files meta s rows Hne H. unfold Partition.read_model in H.
    destruct (paths_to_cats pm _ _) as [[s' c]| |] eqn:E; try discriminate.
    exists (map fst c). split.
    - unfold partition_names. destruct c; [|reflexivity]. destruct files; [contradiction|reflexivity].
    - intros cells p Hin. destruct s'.
      all: try (inversion H; subst;
                assert (c = []) by (eapply paths_to_cats_other_empty; [exact E|discriminate|discriminate]); subst c;
                apply in_concat in Hin; destruct Hin as [l [Hl Hin]]; apply in_map_iff in Hl; destruct Hl as [f [<- _]];
                apply in_map_iff in Hin; destruct Hin as [r [Hr _]]; inversion Hr; reflexivity).
      + destruct (read_files true pm c files) as [rs|] eqn:Er; cbn in H; [|discriminate]. inversion H; subst.
        eapply read_files_keys; eauto.
      + destruct (read_files false [] c files) as [rs|] eqn:Er; cbn in H; [|discriminate]. inversion H; subst.
        eapply read_files_keys; eauto.
  Qed.
End PartNamesProofs.

(* the variant "pandas metadata first" (seeded as C17-7) reports a level the paths of the handle do not show: one part file of
   a dataset partitioned on `p`, opened alone (its row group has no file path): nothing is read for `p`, `p` is reported *)
Lemma partition_names_meta_first_refuted :
  let files : list (str * list (row unit unit unit unit)) := [([], [([], tt)])] in
  let meta := [s_ "p"] in
  let part := paths_to_cats unit unit unit (fun _ _ => true) (fun _ _ => true) (fun _ _ => true) (fun _ _ => false)
                            (fun _ _ => None) (fun _ _ => None) (fun _ => None) (fun _ => None) (fun _ => None)
                            [] (map fst files) (dedup_str (map strip_tail (map fst files))) in
  read_model unit unit unit (fun _ _ => true) (fun _ _ => true) (fun _ _ => true) (fun _ _ => false)
             (fun _ _ => None) (fun _ _ => None) (fun _ => None) (fun _ => None) (fun _ => None) unit
             [] (fun l => l) files = Some (Simple, [([], tt)]) /\
  partition_names unit unit unit part (length files) meta = Ok [] /\
  partition_names_meta_first unit unit unit part meta = Ok [s_ "p"].
Proof. vm_compute. repeat split; reflexivity. Qed.
