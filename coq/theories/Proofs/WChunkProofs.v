(* C01 at chunk level: the reader model (Impl/RSelf.v rd_chunk_sm, with or without the selfmade shortcuts)
   applied to the bytes of the writer model (Impl/WChunk.v w_chunk) returns the column. *)
From Coq Require Import String.
From Coq Require Import NArith ZArith Arith List Lia Bool.
From Pq Require Import Base.Bytes Base.Bits Base.ListX Proofs.BytesProofs Proofs.ListXProofs Proofs.CodecProofs
  Proofs.CompactProofs Codec.Varint Codec.Bitpack Codec.Hybrid Thrift.Compact
  Format.Phys Format.Meta Format.Page Format.ChunkLayout Format.File Format.Enc
  Impl.WLevels Impl.WPagesFmt Impl.WChunk Impl.RPages Impl.RChunk Impl.RSelf.
From Pq Require Import Proofs.HybridProofs Proofs.FormatCodecProofs Proofs.FormatPageProofs Proofs.FormatChunkProofs
  Proofs.FormatFileProofs Proofs.RPagesProofs Proofs.RChunkProofs.
From Pq Require Proofs.WLevelsProofs.
Import ListNotations.
Open Scope N_scope.
Open Scope list_scope.

(* ---- encode_plain as the writer does it, read back by read_plain (the leftover is ignored by every caller) ---- *)
Lemma firstn_le_enc : forall m k n, (m <= k)%nat -> firstn m (le_enc k n) = le_enc m n.
Proof.
  induction m as [|m IH]; intros k n H; [reflexivity|].
  destruct k as [|k]; [lia|]. cbn [le_enc firstn]. f_equal. apply IH. lia.
Qed.

Lemma pow256 m : 256 ^ m = 2 ^ (8 * m).
Proof. change 256 with (2 ^ 8). now rewrite <- N.pow_mul_r. Qed.

(* read_plain of a BOOLEAN page as the writer packs it (one padding byte too many when 8 | n): exactly
   ceil(n / 8) bytes are taken, and they unpack to the bits *)
Lemma plain_dec_wr_bools tlen bits rest : WLevelsProofs.is_bits bits ->
  exists r', plain_dec BOOLEAN tlen (N.of_nat (length bits)) (wr_bools bits ++ rest) = Some (map VNum bits, r').
Proof.
  intros HB. unfold plain_dec.
  set (n := N.of_nat (length bits)). set (nb := (n + 7) / 8).
  set (W := wr_bools bits).
  assert (LW : N.of_nat (length W) = n / 8 + 1) by apply WLevelsProofs.wr_bools_length.
  assert (NB : nb <= N.of_nat (length W)).
  { rewrite LW. unfold nb. 
    pose proof (N.div_mod n 8 ltac:(lia)). pose proof (N.mod_upper_bound n 8 ltac:(lia)).
    assert (n + 7 < 8 * (n / 8 + 2)) by lia.
    apply N.lt_succ_r. replace (N.succ (n / 8 + 1)) with (n / 8 + 2) by lia.
    apply N.div_lt_upper_bound; lia. }
  set (d := firstn (N.to_nat nb) W).
  assert (LD : len d = nb).
  { unfold d, len. rewrite firstn_length_le by lia. apply N2Nat.id. }
  replace (W ++ rest) with (d ++ (skipn (N.to_nat nb) W ++ rest)) by (unfold d; now rewrite app_assoc, firstn_skipn).
  rewrite <- LD, take_app. eexists. f_equal. f_equal.
  (* the bits *)
  unfold d, W, wr_bools, bp_enc. rewrite firstn_le_enc.
  2:{ unfold W, wr_bools, bp_enc in LW, NB. rewrite le_enc_length in LW, NB. lia. }
  unfold bp_dec. rewrite bp_unpack_ref, le2n_tr_ok, le2n_le_enc, N2Nat.id, pow256.
  rewrite bp_dec_ref_mod.
  2:{ unfold n. rewrite Nat2N.id, N.mul_1_r. unfold nb, n.
      pose proof (N.div_mod (N.of_nat (length bits) + 7) 8 ltac:(lia)).
      pose proof (N.mod_upper_bound (N.of_nat (length bits) + 7) 8 ltac:(lia)). lia. }
  unfold n. rewrite Nat2N.id.
  rewrite (WLevelsProofs.bp_dec_ref_prefix 1 (length bits) (length (pad_writer bits))).
  2:{ unfold pad_writer. rewrite app_length. lia. }
  rewrite bp_dec_ref_num.
  - unfold pad_writer. rewrite firstn_app, Nat.sub_diag, firstn_all. cbn [firstn]. now rewrite app_nil_r.
  - unfold pad_writer. apply Forall_app. split; [exact HB|apply WLevelsProofs.zeros_bits].
Qed.

Lemma w_plain_num t k vs : num_width t = Some k -> w_plain t vs = plain_enc t vs.
Proof. destruct t; cbn [num_width]; intros H; try discriminate H; reflexivity. Qed.

Lemma w_plain_dec t tlen vs rest : Forall (fun v => value_ok t tlen v = true) vs ->
  exists r', plain_dec t tlen (lenN vs) (w_plain t vs ++ rest) = Some (vs, r').
Proof.
  intros H. destruct t; try (exists rest; cbn [w_plain]; rewrite lenN_ok; now apply plain_roundtrip).
  cbn [w_plain].
  assert (B : WLevelsProofs.is_bits (map num_of vs)).
  { unfold WLevelsProofs.is_bits. apply Forall_forall. intros x Hx. apply in_map_iff in Hx. destruct Hx as (v & <- & Hv).
    rewrite Forall_forall in H. specialize (H v Hv). destruct v as [n|b]; cbn [value_ok] in H; [|discriminate].
    apply N.ltb_lt in H. cbn [num_of]. exact H. }
  destruct (plain_dec_wr_bools tlen (map num_of vs) rest B) as (r' & E).
  exists r'. rewrite lenN_ok. rewrite map_length in E. rewrite E. f_equal. f_equal.
  rewrite map_map. rewrite <- (map_id vs) at 2. apply map_ext_in. intros v Hv.
  rewrite Forall_forall in H. specialize (H v Hv). destruct v as [n|b]; cbn [value_ok] in H; [reflexivity|discriminate].
Qed.

(* ---- masks, non-null values, scatter ------------------------------------------------------------ *)
Lemma mask_bits {A} (l : list (option A)) : WLevelsProofs.is_bits (mask_of l).
Proof. unfold WLevelsProofs.is_bits, mask_of. apply Forall_forall. intros x Hx. apply in_map_iff in Hx. destruct Hx as ([a|] & <- & _); cbn; lia. Qed.

Lemma mask_length {A} (l : list (option A)) : length (mask_of l) = length l.
Proof. apply map_length. Qed.

Lemma count_mask {A} (l : list (option A)) : count_def 1 (mask_of l) = N.of_nat (length (somes l)).
Proof.
  induction l as [|c r IH]; [reflexivity|]. unfold mask_of in *. cbn [map]. rewrite count_def_cons.
  destruct c; cbn [N.eqb Pos.eqb somes length]; rewrite IH; lia.
Qed.

Lemma somes_le {A} (l : list (option A)) : (length (somes l) <= length l)%nat.
Proof. induction l as [|[a|] r IH]; cbn; lia. Qed.

Lemma all_some {A} (l : list (option A)) : length (somes l) = length l -> map Some (somes l) = l /\ mask_of l = repeat 1 (length l).
Proof.
  induction l as [|[a|] r IH]; cbn [somes length map mask_of repeat]; intros H.
  - split; reflexivity.
  - destruct IH as [I1 I2]; [lia|]. unfold mask_of in I2. now rewrite I1, I2.
  - pose proof (somes_le r). lia.
Qed.

Lemma cells_of_mask {A : Type} : forall (cells : list (option value)) acc,
  cells_of 1 (mask_of cells) (somes cells) acc = Some (rev acc ++ cells).
Proof.
  induction cells as [|c r IH]; intros acc; unfold mask_of in *; cbn [map somes cells_of].
  - now rewrite rev_append_rev, !app_nil_r.
  - destruct c as [v|]; cbn [N.eqb Pos.eqb]; rewrite IH; cbn [rev]; now rewrite <- app_assoc.
Qed.

(* a categorical page: the labels of the codes *)
Lemma dict_cells labels : forall codes cells acc,
  label_cells labels codes = Some cells ->
  lookup_all labels (somes codes) acc = Some (rev acc ++ somes cells) /\ mask_of codes = mask_of cells /\ length codes = length cells.
Proof.
  induction codes as [|c r IH]; intros cells acc H; cbn [label_cells] in H.
  - injection H as <-. cbn. now rewrite rev_append_rev, !app_nil_r.
  - destruct c as [i|].
    + destruct (nthN labels i) as [v|] eqn:E; [|discriminate].
      destruct (label_cells labels r) as [vs|] eqn:G; [|discriminate].
      injection H as <-. cbn [somes lookup_all]. rewrite E.
      destruct (IH vs (v :: acc) eq_refl) as (I1 & I2 & I3). rewrite I1. cbn [rev somes]. rewrite <- app_assoc.
      unfold mask_of in *. cbn [map length]. now rewrite I2, I3.
    + destruct (label_cells labels r) as [vs|] eqn:G; [|discriminate].
      injection H as <-. cbn [somes]. destruct (IH vs acc eq_refl) as (I1 & I2 & I3).
      unfold mask_of in *. cbn [map length somes]. now rewrite I1, I2, I3.
Qed.

(* ---- page conditions ---------------------------------------------------------------------------------- *)
Definition cd_of (c : wchunk) : coldesc :=
  {| cd_type := wc_type c; cd_tlen := wc_tlen c; cd_maxdef := if wc_optional c then 1 else 0 |}.

Lemma w_mask_length p : N.of_nat (length (w_mask p)) = w_rows p.
Proof. destruct p; cbn [w_mask w_rows]; now rewrite mask_length, lenN_ok. Qed.

Lemma w_count p : count_def 1 (w_mask p) = w_nonnull p.
Proof. destruct p; cbn [w_mask w_nonnull]; now rewrite count_mask, lenN_ok. Qed.

Lemma w_nonnull_le p : w_nonnull p <= w_rows p.
Proof. destruct p as [l|l]; cbn [w_nonnull w_rows]; rewrite !lenN_ok; pose proof (somes_le l); lia. Qed.

(* the layout checks of the repaired reader (Impl/RSelf.v guard_def / guard_idx) hold on what the writer lays out *)
Lemma le_groups n : n <= 8 * ((n + 7) / 8).
Proof. pose proof (N.div_mod (n + 7) 8 ltac:(lia)). pose proof (N.mod_lt (n + 7) 8 ltac:(lia)). lia. Qed.

Lemma guard_idx_uleb nval g x : nval <= 8 * g -> guard_idx nval (uleb_enc (2 * g + 1) ++ x) = true.
Proof.
  intro H. unfold guard_idx. rewrite uleb_roundtrip.
  replace (N.odd (2 * g + 1)) with true by (symmetry; rewrite N.add_comm; apply N.odd_add_mul_2).
  replace ((2 * g + 1) / 2) with g.
  - cbn [andb]. apply N.leb_le. lia.
  - symmetry. rewrite N.mul_comm, N.div_add_l by lia. change (1 / 2) with 0. apply N.add_0_r.
Qed.

Lemma guard_def_writer n rest : n < 2 ^ 31 -> guard_def 1 n (wr_defs_nonull_v1 n ++ rest) = true.
Proof.
  intro H. unfold guard_def, wr_defs_nonull_v1, wr_defs_nonull_v2. rewrite <- !app_assoc.
  rewrite BytesProofs.le_dec_enc.
  - rewrite uleb_roundtrip. cbn [app]. rewrite !N.eqb_refl. cbn [andb].
    apply andb_true_intro. split; apply N.eqb_eq.
    + rewrite !lenN_ok, !app_length. cbn [length]. lia.
    + rewrite WLevelsProofs.skip_hand_is_block_len, WLevelsProofs.defs_nonull_v1_length.
      rewrite !lenN_ok, !app_length, BytesProofs.le_enc_length. cbn [length]. lia.
  - rewrite app_length. cbn [length].
    pose proof (CodecProofs.uleb_len_u64 (2 * n) ltac:(change (2 ^ 64) with (2 ^ 33 * 2 ^ 31); lia)) as L.
    change (256 ^ N.of_nat 4) with 4294967296. lia.
Qed.

(* definition levels of a v1 page as the reader gets them, with or without the skip shortcut *)
Lemma rd_def_writer c p skip_nulls rest :
  wc_v2 c = false -> 0 < w_rows p -> w_rows p < 2 ^ 31 ->
  (wc_optional c = false -> w_nonnull p = w_rows p) ->
  (skip_nulls = true -> w_nonnull p = w_rows p) ->
  exists defi,
    rd_def_sm skip_nulls (cd_maxdef (cd_of c)) (w_rows p) (w_defs c p ++ rest) = ROk (defi, w_rows p - w_nonnull p, rest) /\
    ((defi = None /\ w_nonnull p = w_rows p) \/ (defi = Some (w_mask p) /\ wc_optional c = true)).
Proof.
  intros V1 N0 NB REQ SK. unfold rd_def_sm, w_defs, cd_of. cbn [cd_maxdef]. rewrite V1.
  destruct (wc_optional c) eqn:OPT; cbn [negb N.eqb Pos.eqb andb].
  - destruct (w_nonnull p =? w_rows p) eqn:E.
    + apply N.eqb_eq in E. rewrite E, N.sub_diag. exists None. split; [|left; split; reflexivity].
      destruct skip_nulls; cbn [andb].
      * rewrite guard_def_writer by exact NB.
        rewrite WLevelsProofs.skip_hand_is_block_len, WLevelsProofs.dropN_app_exact. reflexivity.
      * unfold rd_def. cbn [N.eqb]. change (N.size 1) with 1.
        rewrite WLevelsProofs.defs_nonull_v1_dec by first [assumption | (eapply N.lt_trans; [exact NB|reflexivity])].
        rewrite count_def_repeat, N2Nat.id, N.sub_diag. reflexivity.
    + apply N.eqb_neq in E. assert (SKF : skip_nulls = false) by (destruct skip_nulls; [now specialize (SK eq_refl)|reflexivity]).
      rewrite SKF. cbn [andb]. exists (Some (w_mask p)). split; [|right; split; reflexivity].
      unfold rd_def. cbn [N.eqb]. change (N.size 1) with 1.
      rewrite <- (w_mask_length p) at 1.
      rewrite WLevelsProofs.defs_nulls_v1_dec.
      * rewrite w_count. pose proof (w_nonnull_le p).
        destruct (N.eqb_spec (w_rows p - w_nonnull p) 0) as [Z|Z]; [lia|reflexivity].
      * destruct p; apply mask_bits.
      * pose proof (w_mask_length p). lia.
      * rewrite w_mask_length. eapply N.lt_trans; [exact NB|reflexivity].
  - rewrite ?andb_false_r. unfold rd_def. cbn [N.eqb app]. rewrite (REQ eq_refl), N.sub_diag.
    exists None. split; [reflexivity|left; split; reflexivity].
Qed.

(* ---- values --------------------------------------------------------------------------------------------- *)
Lemma takeN_app_ge {A} (a b : list A) m : lenN a <= m -> takeN m (a ++ b) = a ++ takeN (m - lenN a) b.
Proof.
  intros H. rewrite !takeN_ok, firstn_app. rewrite lenN_ok in H.
  rewrite firstn_all2 by lia. f_equal. f_equal. rewrite lenN_ok. lia.
Qed.

Lemma raw_codes_wr k : forall cs rest acc, Forall (fun c => c < 256 ^ N.of_nat k) cs ->
  raw_codes (N.of_nat k) (length cs) (wr_codes k cs ++ rest) acc = Some (rev acc ++ cs).
Proof.
  induction cs as [|c cs IH]; intros rest acc H; cbn [length raw_codes].
  - now rewrite rev_append_rev, !app_nil_r.
  - inversion H as [|? ? Hc Hcs]; subst. unfold wr_codes. cbn [map concat]. fold (wr_codes k cs).
    rewrite <- app_assoc.
    assert (LK : len (le_enc k c) = N.of_nat k) by (unfold len; now rewrite le_enc_length).
    rewrite <- LK at 1. rewrite take_app. rewrite le2n_tr_ok, le2n_le_enc, N.mod_small by exact Hc.
    rewrite IH by exact Hcs. cbn [rev]. now rewrite <- app_assoc.
Qed.

Definition k_ok (k : nat) : Prop := k = 1%nat \/ k = 2%nat \/ k = 4%nat.

Lemma rd_codes_raw_writer k codes nz :
  k_ok k -> Forall (fun c => c < 256 ^ N.of_nat k) codes -> (nz = 0 \/ nz = 8)%nat ->
  rd_codes_raw (N.of_nat k) (((2 * ((N.of_nat (length codes) + 7) / 8) + 1) / 2) * 8) (N.of_nat (length codes))
               (wr_codes k codes ++ zeros nz)
  = ROk codes.
Proof.
  intros K HC NZ. unfold rd_codes_raw.
  set (n := N.of_nat (length codes)). set (g := (n + 7) / 8).
  assert (HG : (2 * g + 1) / 2 = g) by (symmetry; apply (N.div_unique (2 * g + 1) 2 g 1); lia).
  rewrite HG.
  assert (G8 : n <= g * 8) by (unfold g; pose proof (N.div_mod (n + 7) 8 ltac:(lia)); pose proof (N.mod_upper_bound (n + 7) 8 ltac:(lia)); lia).
  assert (LW : lenN (wr_codes k codes) = N.of_nat k * n) by (rewrite lenN_ok, WLevelsProofs.wr_codes_length; unfold n; lia).
  rewrite takeN_app_ge by (rewrite LW; destruct K as [-> | [-> | ->]]; lia).
  set (tail := takeN (g * 8 * N.of_nat k - lenN (wr_codes k codes)) (zeros nz)).
  assert (TL : lenN tail = N.min (g * 8 * N.of_nat k - N.of_nat k * n) (N.of_nat nz)).
  { unfold tail. rewrite takeN_ok, lenN_ok, firstn_length, WLevelsProofs.zeros_length, LW. lia. }
  rewrite lenN_app, LW, TL.
  assert (KNZ : (N.of_nat k =? 0) = false) by (destruct K as [-> | [-> | ->]]; reflexivity).
  rewrite KNZ. cbn [orb].
  assert (DIV : exists q, N.of_nat k * n + N.min (g * 8 * N.of_nat k - N.of_nat k * n) (N.of_nat nz) = N.of_nat k * q /\ n <= q).
  { destruct (N.min_spec (g * 8 * N.of_nat k - N.of_nat k * n) (N.of_nat nz)) as [[_ ->]|[_ ->]].
    - exists (g * 8). split; nia.
    - destruct NZ as [->| ->].
      + exists n. split; lia.
      + destruct K as [-> | [-> | ->]]; [exists (n + 8)|exists (n + 4)|exists (n + 2)]; split; lia. }
  destruct DIV as (q & DQ & QN). rewrite DQ.
  assert (KP : N.of_nat k <> 0) by (destruct K as [-> | [-> | ->]]; discriminate).
  rewrite N.mul_comm, N.mod_mul by exact KP. cbn [N.eqb negb].
  rewrite N.div_mul by exact KP. rewrite N.min_l by exact QN.
  unfold n. rewrite Nat2N.id. rewrite raw_codes_wr by exact HC. reflexivity.
Qed.


(* ---- a v1 page of the writer through the reader's page logic -------------------------------------------- *)
Definition wp_ok (c : wchunk) (p : wpage) : Prop :=
  0 < w_rows p /\ w_rows p < 2 ^ 31 /\ (wc_optional c = false -> w_nonnull p = w_rows p) /\
  match p with
  | WPlainP cells => Forall (fun v => value_ok (wc_type c) (wc_tlen c) v = true) (somes cells)
  | WDictP codes => k_ok (wc_k c) /\ Forall (fun x => 2 * x < 256 ^ N.of_nat (wc_k c)) (somes codes) /\ wc_labels c <> None
  end.

Definition w_v1_header (p : wpage) : dph :=
  {| d_nvals := Z.of_N (w_rows p); d_enc := w_enc p; d_dle := E_RLE; d_rle := E_BIT_PACKED |}.

Lemma hyb_dec_zero strict w inp : hyb_dec strict w 0 inp = Some ([], inp).
Proof. unfold hyb_dec. apply WLevelsProofs.hyb_dec_f_done. Qed.

Theorem page_v1_writer selfmade skip_nulls c p cells :
  wc_v2 c = false -> wp_ok c p -> w_page_cells c p = Some cells ->
  (skip_nulls = true -> w_nonnull p = w_rows p) ->
  rd_col_page_sm selfmade skip_nulls (cd_of c) (wc_labels c) (w_v1_header p)
                 (w_defs c p ++ w_values c p ++ [0; 0; 0; 0; 0; 0; 0; 0]) = ROk cells.
Proof.
  intros V1 (N0 & NB & REQ & OK) PC SK.
  destruct (rd_def_writer c p skip_nulls (w_values c p ++ [0; 0; 0; 0; 0; 0; 0; 0]) V1 N0 NB REQ SK) as (defi & RD & DEFI).
  unfold rd_col_page_sm, rd_data_page_sm. cbn [w_v1_header d_nvals d_enc]. rewrite z2n_of_N. cbn [rbind].
  rewrite RD. cbn [rbind]. pose proof (w_nonnull_le p) as LE.
  replace (w_rows p - (w_rows p - w_nonnull p)) with (w_nonnull p) by lia.
  destruct p as [pc|codes]; cbn [w_enc w_values w_page_cells w_nonnull w_rows w_mask] in *.
  - (* ordinary column, PLAIN *)
    injection PC as <-. rename OK into VOK. cbn [Z.eqb E_PLAIN cd_of cd_type cd_tlen cd_maxdef].
    destruct (w_plain_dec (wc_type c) (wc_tlen c) (somes pc) [0; 0; 0; 0; 0; 0; 0; 0] VOK) as (r' & PD). rewrite PD. cbn [rbind].
    destruct DEFI as [[-> FULL]|[-> OPT]].
    + rewrite !lenN_ok in FULL. f_equal. apply all_some. lia.
    + rewrite OPT. now rewrite (cells_of_mask (A:=unit) pc []).
  - (* categorical: codes *)
    destruct OK as (K & CK2 & LB).
    assert (CK : Forall (fun x => x < 256 ^ N.of_nat (wc_k c)) (somes codes)) by (eapply Forall_impl; [|exact CK2]; cbn beta; intros; lia). destruct (wc_labels c) as [labels|] eqn:LBL; [|now contradiction LB].
    destruct (dict_cells labels codes cells [] PC) as (LK & MK & LN).
    cbn [Z.eqb E_PLAIN E_RLE_DICT E_PLAIN_DICT orb Pos.eqb].
    unfold wr_dict_indices. cbn [app].
    assert (BW : ((8 * N.of_nat (wc_k c) =? 8) || (8 * N.of_nat (wc_k c) =? 16) || (8 * N.of_nat (wc_k c) =? 32)) = true)
      by (destruct K as [-> | [-> | ->]]; reflexivity).
    assert (BK : 8 * N.of_nat (wc_k c) / 8 = N.of_nat (wc_k c)) by (rewrite N.mul_comm; apply N.div_mul; lia).
    assert (BZ : negb (8 * N.of_nat (wc_k c) =? 0) = true) by (destruct K as [-> | [-> | ->]]; reflexivity).
    rewrite BW. cbn [andb].
    rewrite <- app_assoc.
    assert (FIN : forall msg defi', (defi' = None /\ lenN (somes codes) = lenN codes) \/ (defi' = Some (mask_of codes) /\ wc_optional c = true) ->
              ((let! vals := of_opt msg (lookup_all labels (somes codes) []) in
                 match defi' with
                 | None => ROk (map Some vals)
                 | Some levels => of_opt "boolean index did not match" (cells_of (cd_maxdef (cd_of c)) levels vals [])
                 end)) = ROk cells).
    { intros msg defi' D. rewrite LK. cbn [of_opt rbind rev app].
      destruct D as [[-> FULL]|[-> OPT]].
      * rewrite !lenN_ok in FULL. cbn [rbind]. f_equal. apply all_some.
        assert (length (somes cells) = length (somes codes)).
        { clear -MK. revert cells MK. induction codes as [|[x|] r IH]; intros [|[y|] s] M; unfold mask_of in *; cbn in *; try discriminate; try reflexivity;
            injection M as M; f_equal; now apply IH || now apply IH. }
        lia.
      * cbn [cd_of cd_maxdef rbind]. rewrite OPT, MK. now rewrite (cells_of_mask (A:=unit) cells []). }
    rewrite guard_idx_uleb by (rewrite ?lenN_ok; apply le_groups). rewrite andb_true_r.
    destruct selfmade.
    + rewrite uleb_roundtrip, BK, lenN_ok.
      change [0; 0; 0; 0; 0; 0; 0; 0] with (zeros 8).
      rewrite (rd_codes_raw_writer (wc_k c) (somes codes) 8 K CK (or_intror eq_refl)). cbn [rbind].
      exact (FIN _ defi DEFI).
    + rewrite BZ, lenN_ok. destruct (somes codes) as [|x xs] eqn:SC.
      * cbn [length]. change (N.of_nat 0) with 0. rewrite hyb_dec_zero. cbn [rbind].
        exact (FIN _ defi DEFI).
      * rewrite <- SC in *.
        pose proof (WLevelsProofs.dict_indices_dec (wc_k c) (somes codes) [0; 0; 0; 0; 0; 0; 0; 0]) as DD.
        destruct (hyb_dec false (8 * N.of_nat (wc_k c)) (N.of_nat (length (somes codes))) _) as [[ix r]|];
          [|specialize (DD ltac:(rewrite SC; cbn; lia) CK); discriminate DD].
        specialize (DD ltac:(rewrite SC; cbn; lia) CK). cbn [option_map fst] in DD. injection DD as ->. cbn [rbind].
        exact (FIN _ defi DEFI).
Qed.

(* ---- a v2 page of the writer through read_data_page_v2 ---------------------------------------------------- *)
Section WithCodecs6.
Variable compress : Z -> bytes -> bytes.
Variable decompress : Z -> N -> bytes -> option bytes.
Hypothesis codec_rt : forall codec b, decompress codec (lenN b) (compress codec b) = Some b.

Definition w_v2_header (c : wchunk) (p : wpage) : dph2 :=
  {| d2_nvals := Z.of_N (w_rows p); d2_nnulls := Z.of_N (w_rows p - w_nonnull p); d2_nrows := Z.of_N (w_rows p);
     d2_enc := w_enc p; d2_dlen := Z.of_N (lenN (w_defs c p)); d2_rlen := 0;
     d2_iscomp := Some (negb (wc_codec c =? 0)%Z) |}.

Lemma somes_mask_len {A B} : forall (a : list (option A)) (b : list (option B)),
  mask_of a = mask_of b -> length (somes a) = length (somes b).
Proof.
  induction a as [|[x|] r IH]; intros [|[y|] s] M; unfold mask_of in *; cbn in *; try discriminate; try reflexivity;
    injection M as M; f_equal; now apply IH || now apply IH.
Qed.

Theorem page_v2_writer inplace c p cells :
  wc_v2 c = true -> wp_ok c p -> w_page_cells c p = Some cells ->
  (inplace = true -> match p with WPlainP _ => num_width (wc_type c) <> None | WDictP _ => True end) ->
  rd_page_v2 decompress inplace (cd_of c) (wc_labels c) (wc_codec c) (w_v2_header c p)
             (lenN (w_defs c p) + lenN (w_values c p))
             (lenN (w_defs c p) + lenN (deflate compress (wc_codec c) (w_values c p)))
             (w_defs c p ++ deflate compress (wc_codec c) (w_values c p)) = ROk cells.
Proof.
  intros V2 (N0 & NB & REQ & OK) PC INP.
  pose proof (w_nonnull_le p) as LE.
  unfold rd_page_v2. cbn [w_v2_header d2_enc d2_nvals d2_nnulls d2_dlen d2_rlen d2_iscomp].
  assert (EOK : negb ((w_enc p =? E_PLAIN_DICT) || (w_enc p =? E_RLE_DICT) || (w_enc p =? E_RLE) || (w_enc p =? E_PLAIN) ||
                      (w_enc p =? E_DELTA))%Z = false) by (destruct p; reflexivity).
  rewrite EOK. rewrite !z2n_of_N. cbn [rbind]. change (z2n _ 0%Z) with (@ROk N 0). cbn [rbind].
  replace (w_rows p - (w_rows p - w_nonnull p)) with (w_nonnull p) by lia.
  rewrite !N.sub_0_r, ?N.add_0_r.
  replace (lenN (w_defs c p) + lenN (deflate compress (wc_codec c) (w_values c p)) - lenN (w_defs c p))
    with (lenN (deflate compress (wc_codec c) (w_values c p))) by lia.
  replace (lenN (w_defs c p) + lenN (w_values c p) - lenN (w_defs c p)) with (lenN (w_values c p)) by lia.
  rewrite takeN_app_exact, dropN_app_exact, takeN_all.
  (* levels *)
  set (lvopt := if wc_optional c && negb (w_rows p - w_nonnull p =? 0) then Some (w_mask p) else None).
  assert (LV : (if negb (cd_maxdef (cd_of c) =? 0) && negb (w_rows p - w_nonnull p =? 0)
                then match hyb_dec false (N.size (cd_maxdef (cd_of c))) (w_rows p) (w_defs c p) with
                     | Some (l, _) => ROk (Some l)
                     | None => RBad "level reader ran out of data"%string
                     end
                else ROk None) = ROk lvopt).
  { unfold lvopt, w_defs. cbn [cd_of cd_maxdef]. destruct (wc_optional c) eqn:OPT; cbn [N.eqb negb andb]; [|reflexivity].
    destruct (w_rows p - w_nonnull p =? 0) eqn:Z0; cbn [negb]; [reflexivity|].
    apply N.eqb_neq in Z0. assert (NE : (w_nonnull p =? w_rows p) = false) by (apply N.eqb_neq; lia).
    rewrite NE, V2. change (N.size 1) with 1.
    pose proof (WLevelsProofs.defs_nulls_v2_dec false (w_mask p) []) as D.
    rewrite app_nil_r, w_mask_length in D. rewrite D; [reflexivity| |].
    - destruct p; apply mask_bits.
    - pose proof (w_mask_length p). lia. }
  rewrite LV. cbn [rbind].
  assert (SC : forall cs : list (option value), mask_of cs = w_mask p -> lenN (somes cs) = w_nonnull p ->
                 scatter2 (cd_maxdef (cd_of c)) lvopt (somes cs) = ROk cs).
  { intros cs MK LN. unfold lvopt, scatter2.
    assert (FULL : w_rows p - w_nonnull p = 0 -> @ROk (list (option value)) (map Some (somes cs)) = ROk cs).
    { intros Z. f_equal. apply all_some. pose proof (w_mask_length p) as ML. rewrite <- MK, mask_length in ML.
      rewrite lenN_ok in LN. lia. }
    destruct (wc_optional c) eqn:OPT; cbn [andb].
    - destruct (w_rows p - w_nonnull p =? 0) eqn:Z0; cbn [negb]; [apply FULL; now apply N.eqb_eq|].
      cbn [cd_of cd_maxdef]. rewrite OPT, <- MK. now rewrite (cells_of_mask (A:=unit) cs []).
    - apply FULL. rewrite (REQ eq_refl). lia. }
  assert (RAW : forall (A : Type) (K : bytes -> rs A),
            rbind (if match Some (negb (wc_codec c =? 0)%Z) with Some false => false | _ => true end && negb (wc_codec c =? 0)%Z
                   then of_opt "decompression failed"%string
                          (decompress (wc_codec c) (lenN (w_values c p)) (deflate compress (wc_codec c) (w_values c p)))
                   else ROk (deflate compress (wc_codec c) (w_values c p))) K = K (w_values c p)).
  { intros A K. unfold deflate. destruct (wc_codec c =? 0)%Z; cbn [andb negb]; rewrite ?codec_rt; reflexivity. }
  destruct p as [pc|codes]; cbn [w_enc w_values w_page_cells w_nonnull w_rows w_mask] in *.
  - (* PLAIN *)
    injection PC as <-. rename OK into VOK. cbn [Z.eqb E_PLAIN cd_of cd_type cd_tlen].
    destruct (w_plain_dec (wc_type c) (wc_tlen c) (somes pc) [] VOK) as (r' & PR). rewrite app_nil_r in PR.
    destruct (inplace && (lenN pc - lenN (somes pc) =? 0)) eqn:IP.
    + apply andb_true_iff in IP. destruct IP as [-> Z0]. apply N.eqb_eq in Z0.
      rewrite RAW. specialize (INP eq_refl). cbn beta iota in INP.
      destruct (num_width (wc_type c)) as [kw|] eqn:NW; [|now contradiction INP].
      assert (LB : lenN (w_plain (wc_type c) (somes pc)) = kw * lenN (somes pc)).
      { rewrite (w_plain_num _ _ _ NW), (lenN_ok (somes pc)). apply (plain_enc_num_len (wc_type c) kw (somes pc) NW).
        - apply Forall_forall. intros; now right.
        - intros v Hv'. rewrite Forall_forall in VOK. destruct (value_ok_num _ _ _ _ NW (VOK v Hv')) as (n0 & -> & _). eauto. }
      rewrite LB, N.eqb_refl, PR. f_equal. apply all_some. rewrite !lenN_ok in Z0, LE. lia.
    + rewrite RAW, PR. now apply SC.
  - (* categorical *)
    destruct OK as (K & CK2 & LB).
    assert (CK : Forall (fun x => x < 256 ^ N.of_nat (wc_k c)) (somes codes)) by (eapply Forall_impl; [|exact CK2]; cbn beta; intros; lia). destruct (wc_labels c) as [labels|] eqn:LBL; [|now contradiction LB].
    destruct (dict_cells labels codes cells [] PC) as (LK & MK & LN).
    cbn [Z.eqb E_PLAIN E_RLE_DICT E_PLAIN_DICT E_RLE orb Pos.eqb].
    rewrite RAW.
    assert (SCC : scatter2 (cd_maxdef (cd_of c)) lvopt (somes cells) = ROk cells).
    { apply SC; [now symmetry|]. rewrite !lenN_ok. f_equal. symmetry. now apply somes_mask_len. }
    destruct (lenN (somes codes) =? 0) eqn:K0.
    + apply N.eqb_eq in K0. rewrite lenN_ok in K0. destruct (somes codes) eqn:SCs; [|cbn [length] in K0; lia].
      cbn [rbind]. cbn [lookup_all rev_append] in LK |- *. injection LK as LK. cbn [of_opt rbind]. cbn [rev app] in LK. rewrite LK. exact SCC.
    + unfold wr_dict_indices.
      assert (BZ : (8 * N.of_nat (wc_k c) =? 0) = false) by (destruct K as [-> | [-> | ->]]; reflexivity).
      rewrite BZ.
      pose proof (WLevelsProofs.dict_indices_dec (wc_k c) (somes codes) []) as DD. rewrite app_nil_r in DD.
      apply N.eqb_neq in K0. rewrite lenN_ok in *.
      destruct (hyb_dec false (8 * N.of_nat (wc_k c)) (N.of_nat (length (somes codes))) _) as [[ix r]|];
        [|specialize (DD ltac:(lia) CK); discriminate DD].
      specialize (DD ltac:(lia) CK). cbn [option_map fst] in DD. injection DD as ->. cbn [rbind].
      rewrite LK. cbn [of_opt rbind rev app]. exact SCC.
Qed.
End WithCodecs6.

(* ---- the page loop of read_col over the writer's chunk ------------------------------------------------------ *)
Section WithCodecs7.
Variable compress : Z -> bytes -> bytes.
Variable decompress : Z -> N -> bytes -> option bytes.
Hypothesis codec_rt : forall codec b, decompress codec (lenN b) (compress codec b) = Some b.

Definition wp_inplace_ok (c : wchunk) (p : wpage) : Prop :=
  match p with WPlainP _ => num_width (wc_type c) <> None | WDictP _ => True end.

Definition wp_bytes (c : wchunk) (p : wpage) : bytes := w_page_bytes (w_data_page compress c p).

Lemma page_bytes_shape (hp : phdr * bytes) restb :
  exists x l, w_page_bytes hp ++ restb = x :: l ++ snd hp ++ restb /\ enc_phdr (fst hp) = x :: l.
Proof.
  destruct (enc_phdr_nonempty (fst hp)) as (x & l & E). exists x, l. split; [|exact E].
  unfold w_page_bytes. rewrite E. cbn [app]. now rewrite <- app_assoc.
Qed.

Theorem rd_pages_writer selfmade skip_nulls inplace c rows : forall ps clock num acc cells,
  Forall (wp_ok c) ps ->
  Forall (fun p => phdr_wf (fst (w_data_page compress c p)) = true) ps ->
  (skip_nulls = true -> wc_v2 c = false -> Forall (fun p => w_nonnull p = w_rows p) ps) ->
  (inplace = true -> wc_v2 c = true -> Forall (wp_inplace_ok c) ps) ->
  w_pages_cells c ps = Some cells ->
  (length (concat (map (wp_bytes c) ps)) <= length clock)%nat ->
  rows = num + sumN (map w_rows ps) ->
  rd_chunk_sm decompress clock selfmade skip_nulls inplace (cd_of c) (wc_codec c) rows (wc_labels c)
              (concat (map (wp_bytes c) ps)) num acc
  = ROk (rev acc ++ cells).
Proof.
  induction ps as [|p r IH]; intros clock num acc cells W HW SK INP C L ROWS.
  - cbn [w_pages_cells] in C. injection C as <-. unfold sumN in ROWS. cbn in ROWS.
    destruct clock; cbn [rd_chunk_sm map concat]; (destruct (N.leb_spec rows num) as [_|X]; [|lia]);
      now rewrite rev_append_rev, !app_nil_r.
  - assert (Wp : wp_ok c p) by (inversion W; assumption).
    assert (Wr : Forall (wp_ok c) r) by (inversion W; assumption).
    assert (Hp : phdr_wf (fst (w_data_page compress c p)) = true) by (inversion HW; assumption).
    assert (Hr : Forall (fun p => phdr_wf (fst (w_data_page compress c p)) = true) r) by (inversion HW; assumption).
    assert (SKp : skip_nulls = true -> wc_v2 c = false -> w_nonnull p = w_rows p) by (intros A B; specialize (SK A B); inversion SK; assumption).
    assert (SKr : skip_nulls = true -> wc_v2 c = false -> Forall (fun p => w_nonnull p = w_rows p) r) by (intros A B; specialize (SK A B); inversion SK; assumption).
    assert (INPp : inplace = true -> wc_v2 c = true -> wp_inplace_ok c p) by (intros A B; specialize (INP A B); inversion INP; assumption).
    assert (INPr : inplace = true -> wc_v2 c = true -> Forall (wp_inplace_ok c) r) by (intros A B; specialize (INP A B); inversion INP; assumption).
    cbn [w_pages_cells] in C.
    destruct (w_page_cells c p) as [cs|] eqn:PC; [|discriminate].
    destruct (w_pages_cells c r) as [cr|] eqn:PCr; [|discriminate]. injection C as <-.
    cbn [map] in ROWS. rewrite sumN_cons in ROWS.
    assert (P0 : 0 < w_rows p) by (destruct Wp as (A & _); exact A).
    cbn [map concat] in L |- *. unfold wp_bytes at 1. unfold wp_bytes at 1 in L.
    set (hp := w_data_page compress c p) in *.
    set (restb := concat (map (wp_bytes c) r)) in *.
    destruct (page_bytes_shape hp restb) as (x & l & B & E). rewrite B in *.
    destruct clock as [|c0 clock']; [cbn [length] in L; lia|].
    cbn [rd_chunk_sm]. destruct (N.leb_spec rows num) as [X|_]; [lia|].
    replace (x :: l ++ snd hp ++ restb) with (enc_phdr (fst hp) ++ (snd hp ++ restb)) by (rewrite E; reflexivity).
    rewrite phdr_roundtrip by exact Hp. cbn [rbind].
    assert (L' : (length restb <= length clock')%nat) by (cbn [length] in L; rewrite !app_length in L; lia).
    unfold hp, w_data_page. destruct (wc_v2 c) eqn:V2; cbn zeta; cbn [fst snd ph_usize ph_csize ph_body].
    + (* v2 *)
      rewrite !z2n_add. cbn [rbind]. set (body := deflate compress (wc_codec c) (w_values c p)).
      rewrite <- (lenN_app (w_defs c p) body), takeN_app_exact, dropN_app_exact, (lenN_app (w_defs c p) body). unfold body.
      pose proof (page_v2_writer compress decompress codec_rt inplace c p cs V2 Wp PC) as RD.
      unfold w_v2_header in RD. rewrite RD by (intros A; apply (INPp A eq_refl)).
      cbn [rbind d2_nvals]. rewrite z2n_of_N. cbn [rbind].
      rewrite (IH clock' (num + w_rows p) (rev_append cs acc) cr Wr Hr SKr INPr eq_refl L') by lia.
      rewrite rev_append_rev, rev_app_distr, rev_involutive, <- app_assoc. reflexivity.
    + (* v1 *)
      rewrite !z2n_of_N. cbn [rbind]. rewrite takeN_app_exact, dropN_app_exact.
      rewrite (read_page_deflate compress decompress codec_rt). cbn [rbind].
      pose proof (page_v1_writer selfmade skip_nulls c p cs V2 Wp PC) as RD.
      unfold w_v1_header in RD. rewrite RD by (intros A; apply (SKp A eq_refl)).
      cbn [rbind d_nvals]. rewrite z2n_of_N. cbn [rbind].
      rewrite (IH clock' (num + w_rows p) (rev_append cs acc) cr Wr Hr SKr INPr eq_refl L') by lia.
      rewrite rev_append_rev, rev_app_distr, rev_involutive, <- app_assoc. reflexivity.
Qed.

(* the chunk: an optional dictionary page (the labels of a categorical), then the data pages *)
Definition wchunk_ok (c : wchunk) : Prop :=
  Forall (wp_ok c) (wc_pages c) /\
  Forall (fun p => phdr_wf (fst (w_data_page compress c p)) = true) (wc_pages c) /\
  match wc_labels c with
  | Some labels => phdr_wf (fst (w_dict_page compress c labels)) = true /\
                   Forall (fun v => value_ok (wc_type c) (wc_tlen c) v = true) labels
  | None => True
  end.

Theorem chunk_roundtrip selfmade skip_nulls inplace c clock cells :
  wchunk_ok c ->
  (skip_nulls = true -> wc_v2 c = false -> Forall (fun p => w_nonnull p = w_rows p) (wc_pages c)) ->
  (inplace = true -> wc_v2 c = true -> Forall (wp_inplace_ok c) (wc_pages c)) ->
  w_chunk_cells c = Some cells ->
  (length (w_chunk compress c) <= length clock)%nat ->
  rd_chunk_sm decompress clock selfmade skip_nulls inplace (cd_of c) (wc_codec c) (w_chunk_rows c) None
              (w_chunk compress c) 0 []
  = ROk cells.
Proof.
  intros (W & HW & LAB) SK INP C L. unfold w_chunk in *. unfold w_chunk_cells in C. unfold w_chunk_rows.
  destruct (wc_labels c) as [labels|] eqn:LBL.
  - destruct LAB as [HD VD].
    destruct (N.eq_dec (sumN (map w_rows (wc_pages c))) 0) as [Z|NZ].
    + (* no rows: the loop does not start *)
      assert (PS : wc_pages c = []).
      { destruct (wc_pages c) as [|p r]; [reflexivity|]. cbn [map] in Z. rewrite sumN_cons in Z.
        inversion W as [|? ? (A & _) _]; subst. lia. }
      rewrite PS in *. cbn [w_pages_cells] in C. injection C as <-. rewrite Z.
      destruct clock; reflexivity.
    + set (hp := w_dict_page compress c labels) in *.
      set (restb := concat (map (fun p => w_page_bytes (w_data_page compress c p)) (wc_pages c))) in *.
      destruct (page_bytes_shape hp restb) as (x & l & B & E). rewrite B in *.
      destruct clock as [|c0 clock']; [cbn [length] in L; lia|].
      cbn [rd_chunk_sm]. destruct (N.leb_spec (sumN (map w_rows (wc_pages c))) 0) as [X|_]; [lia|].
      replace (x :: l ++ snd hp ++ restb) with (enc_phdr (fst hp) ++ (snd hp ++ restb)) by (rewrite E; reflexivity).
      rewrite phdr_roundtrip by exact HD. cbn [rbind].
      assert (L' : (length restb <= length clock')%nat) by (cbn [length] in L; rewrite !app_length in L; lia).
      unfold hp, w_dict_page. cbn zeta. cbn [fst snd ph_usize ph_csize ph_body k_nvals].
      rewrite !z2n_of_N. cbn [rbind]. rewrite takeN_app_exact, dropN_app_exact.
      rewrite (read_page_deflate compress decompress codec_rt). cbn [rbind]. rewrite ?z2n_of_N. cbn [rbind].
      cbn [cd_of cd_type cd_tlen].
      destruct (w_plain_dec (wc_type c) (wc_tlen c) labels [] VD) as (r' & PR). rewrite app_nil_r in PR. rewrite PR.
      pose proof (rd_pages_writer selfmade skip_nulls inplace c (sumN (map w_rows (wc_pages c))) (wc_pages c) clock' 0 [] cells
                    W HW SK INP C) as RD.
      rewrite LBL in RD. unfold wp_bytes in RD. fold restb in RD. rewrite RD by (try exact L'; lia). reflexivity.
  - cbn [app] in *.
    pose proof (rd_pages_writer selfmade skip_nulls inplace c (sumN (map w_rows (wc_pages c))) (wc_pages c) clock 0 [] cells
                  W HW SK INP C) as RD.
    rewrite LBL in RD. unfold wp_bytes in RD. rewrite RD by (try exact L; lia). reflexivity.
Qed.
End WithCodecs7.
