(* Proofs about Impl/Stats.v (property C04). *)
From Coq Require Import NArith ZArith List Bool Arith Lia.
From Pq Require Import Base.Bytes Impl.Stats Proofs.BytesProofs.
Import ListNotations.

(* ------------------------------------------------------------------------------------------ *)
Section Generic.
  Variable A : Type.
  Variable leb : A -> A -> bool.
  Variable ordered : A -> bool.

  Notation cells := (cells A).
  Notation ordvals := (ordvals A ordered).
  Notation max_of := (max_of A leb).
  Notation min_of := (min_of A leb).
  Notation count_nulls := (count_nulls A).
  Notation tally := (tally A).
  Notation stats_of := (stats_of A leb ordered).
  Notation ltb := (ltb A leb).

  (* "v is a non-null value of the chunk that has a defined order" *)
  Definition member (l : cells) (x : A) : Prop := In (Some x) l /\ ordered x = true.

  (* the property's own reading of "the statistics describe the stored chunk" *)
  Definition is_lower (l : cells) (m : A) : Prop := forall x, member l x -> leb m x = true.
  Definition is_upper (l : cells) (m : A) : Prop := forall x, member l x -> leb x m = true.
  Definition equiv (a b : A) : Prop := leb a b = true /\ leb b a = true.

  Definition exact (l : cells) (st : stats A) : Prop :=
    s_nulls st = count_nulls l /\
    (forall mn, s_min st = Some mn -> (exists x, member l x /\ equiv mn x) /\ is_lower l mn) /\
    (forall mx, s_max st = Some mx -> (exists x, member l x /\ equiv mx x) /\ is_upper l mx) /\
    ((forall x, ~ member l x) -> s_min st = None /\ s_max st = None).

  Lemma ordvals_In l x : In x (ordvals l) <-> member l x.
  Proof.
    unfold member. induction l as [|[a|] l IH]; cbn.
    - tauto.
    - destruct (ordered a) eqn:E; cbn; rewrite IH; split.
      + intros [H|H]; [subst; split; auto|]. tauto.
      + intros [[H|H] H2]; [inversion H; auto|]. tauto.
      + intros [H H2]; split; auto.
      + intros [[H|H] H2]; [inversion H; subst; congruence|]. tauto.
    - rewrite IH. split; intros [H H2]; split; auto. destruct H as [H|H]; [discriminate|auto].
  Qed.

  Lemma count_nulls_app a b : count_nulls (a ++ b) = (count_nulls a + count_nulls b)%N.
  Proof. induction a as [|c a IH]; cbn; [reflexivity|]. rewrite IH. lia. Qed.

  Lemma count_nulls_concat pages :
    count_nulls (concat pages) = fold_right (fun p acc => count_nulls p + acc)%N 0%N pages.
  Proof. induction pages as [|p ps IH]; cbn; [reflexivity|]. now rewrite count_nulls_app, IH. Qed.

  Lemma tally_acc (optional : bool) (pages : list cells) (acc : N) :
    fold_left (fun (acc : N) (p : cells) => acc + (if optional then count_nulls p else 0))%N pages acc
    = (acc + if optional then count_nulls (concat pages) else 0)%N.
  Proof.
    revert acc; induction pages as [|p ps IH]; intros acc; cbn [fold_left concat].
    - destruct optional; cbn; lia.
    - rewrite IH. destruct optional; [rewrite count_nulls_app|]; lia.
  Qed.

  (* the per-page tally is the number of nulls of the whole chunk, for every split into pages *)
  Lemma tally_optional pages : tally true pages = count_nulls (concat pages).
  Proof. etransitivity; [exact (tally_acc true pages 0%N)|]. lia. Qed.

  Lemma count_nulls_none l : (forall c, In c l -> c <> None) -> count_nulls l = 0%N.
  Proof.
    induction l as [|c l IH]; intros H; cbn; [reflexivity|].
    rewrite IH by (intros c' Hc; apply H; now right).
    destruct c; cbn; [reflexivity|]. exfalso; apply (H None); [now left|reflexivity].
  Qed.

  (* a REQUIRED column stores no null; the writer then does not look *)
  Lemma tally_exact optional pages :
    (optional = false -> forall c, In c (concat pages) -> c <> None) ->
    tally optional pages = count_nulls (concat pages).
  Proof.
    intros H. destruct optional; [apply tally_optional|].
    etransitivity; [exact (tally_acc false pages 0%N)|].
    rewrite count_nulls_none by (apply H; reflexivity). reflexivity.
  Qed.

  Hypothesis leb_refl : forall a, leb a a = true.
  Hypothesis leb_trans : forall a b c, leb a b = true -> leb b c = true -> leb a c = true.
  Hypothesis leb_total : forall a b, leb a b = true \/ leb b a = true.

  Lemma fold_max r : forall x, let m := fold_left (pick_max A leb) r x in
    (m = x \/ In m r) /\ leb x m = true /\ forall y, In y r -> leb y m = true.
  Proof.
    induction r as [|z r IH]; intros x; cbn [fold_left].
    - cbn. repeat split; auto; intros ? [].
    - specialize (IH (pick_max A leb x z)). cbn zeta in IH. destruct IH as (Hm & Hx & Hall).
      set (m := fold_left (pick_max A leb) r (pick_max A leb x z)) in *.
      assert (Hp : (pick_max A leb x z = x \/ pick_max A leb x z = z) /\
                   leb x (pick_max A leb x z) = true /\ leb z (pick_max A leb x z) = true).
      { unfold pick_max. destruct (leb x z) eqn:E.
        - repeat split; auto.
        - repeat split; auto. destruct (leb_total x z) as [H|H]; [congruence|exact H]. }
      destruct Hp as (Hp1 & Hp2 & Hp3). cbn zeta. repeat split.
      + destruct Hm as [Hm|Hm]; [|right; now right].
        rewrite Hm. destruct Hp1 as [->| ->]; [now left|right; now left].
      + eapply leb_trans; eauto.
      + intros y [->|Hy]; [eapply leb_trans; eauto|auto].
  Qed.

  Lemma fold_min r : forall x, let m := fold_left (pick_min A leb) r x in
    (m = x \/ In m r) /\ leb m x = true /\ forall y, In y r -> leb m y = true.
  Proof.
    induction r as [|z r IH]; intros x; cbn [fold_left].
    - cbn. repeat split; auto; intros ? [].
    - specialize (IH (pick_min A leb x z)). cbn zeta in IH. destruct IH as (Hm & Hx & Hall).
      set (m := fold_left (pick_min A leb) r (pick_min A leb x z)) in *.
      assert (Hp : (pick_min A leb x z = x \/ pick_min A leb x z = z) /\
                   leb (pick_min A leb x z) x = true /\ leb (pick_min A leb x z) z = true).
      { unfold pick_min. destruct (leb z x) eqn:E.
        - repeat split; auto.
        - repeat split; auto. destruct (leb_total x z) as [H|H]; [exact H|congruence]. }
      destruct Hp as (Hp1 & Hp2 & Hp3). cbn zeta. repeat split.
      + destruct Hm as [Hm|Hm]; [|right; now right].
        rewrite Hm. destruct Hp1 as [->| ->]; [now left|right; now left].
      + eapply leb_trans; eauto.
      + intros y [->|Hy]; [eapply leb_trans; eauto|auto].
  Qed.

  Lemma max_of_spec l m : max_of l = Some m -> In m l /\ forall y, In y l -> leb y m = true.
  Proof.
    destruct l as [|x r]; cbn; [discriminate|]. intros H; inversion H; subst; clear H.
    destruct (fold_max r x) as (Hm & Hx & Hall). split.
    - destruct Hm as [->|Hm]; [now left|now right].
    - intros y [->|Hy]; auto.
  Qed.

  Lemma min_of_spec l m : min_of l = Some m -> In m l /\ forall y, In y l -> leb m y = true.
  Proof.
    destruct l as [|x r]; cbn; [discriminate|]. intros H; inversion H; subst; clear H.
    destruct (fold_min r x) as (Hm & Hx & Hall). split.
    - destruct Hm as [->|Hm]; [now left|now right].
    - intros y [->|Hy]; auto.
  Qed.

  Lemma max_of_none l : max_of l = None <-> l = [].
  Proof. destruct l; cbn; split; congruence. Qed.
  Lemma min_of_none l : min_of l = None <-> l = [].
  Proof. destruct l; cbn; split; congruence. Qed.

  (* ---- C04_minmax_exact ---------------------------------------------------------------- *)
  (* for every chunk (any pages, any values): if some non-null value has a defined order, the
     statistics carry a min and a max that ARE such values of the chunk and bound every such
     value, else they carry neither; null_count is the number of null cells. *)
  Theorem stats_of_minmax_exact : forall (optional : bool) (pages : list cells),
    (optional = false -> forall c, In c (concat pages) -> c <> None) ->
    let l := concat pages in
    let st := stats_of true optional pages in
    s_nulls st = count_nulls l /\
    ((exists x, member l x) ->
       exists mn mx, s_min st = Some mn /\ s_max st = Some mx /\
                     member l mn /\ member l mx /\ is_lower l mn /\ is_upper l mx) /\
    ((forall x, ~ member l x) -> s_min st = None /\ s_max st = None).
  Proof.
    intros optional pages Hreq l st. unfold st, Stats.stats_of. fold l.
    pose proof (tally_exact optional pages Hreq) as Ht. fold l in Ht.
    destruct (max_of (ordvals l)) as [mx|] eqn:Emx; destruct (min_of (ordvals l)) as [mn|] eqn:Emn; cbn.
    - split; [exact Ht|]. split.
      + intros _. exists mn, mx.
        destruct (max_of_spec _ _ Emx) as (Hi1 & Hb1). destruct (min_of_spec _ _ Emn) as (Hi2 & Hb2).
        assert (M1 : member l mn) by (apply ordvals_In; exact Hi2).
        assert (M2 : member l mx) by (apply ordvals_In; exact Hi1).
        split; [reflexivity|]. split; [reflexivity|]. split; [exact M1|]. split; [exact M2|]. split.
        * intros x Hx. apply Hb2. now apply ordvals_In.
        * intros x Hx. apply Hb1. now apply ordvals_In.
      + intros Hno. destruct (max_of_spec _ _ Emx) as (Hi1 & _). apply ordvals_In in Hi1. now apply Hno in Hi1.
    - apply min_of_none in Emn. rewrite Emn in Emx. discriminate.
    - apply max_of_none in Emx. rewrite Emx in Emn. discriminate.
    - split; [exact Ht|]. split; [|auto].
      intros [x Hx]. apply ordvals_In in Hx. apply max_of_none in Emx. rewrite Emx in Hx. destruct Hx.
  Qed.

  (* whatever the stats setting selected: what is written is exact *)
  Theorem stats_of_exact : forall (sel optional : bool) (pages : list cells),
    (optional = false -> forall c, In c (concat pages) -> c <> None) ->
    exact (concat pages) (stats_of sel optional pages).
  Proof.
    intros sel optional pages Hreq.
    destruct sel.
    - destruct (stats_of_minmax_exact optional pages Hreq) as (Hn & Hsome & Hnone).
      unfold exact. split; [exact Hn|].
      assert (Hcase : (exists x, member (concat pages) x) \/ (forall x, ~ member (concat pages) x)).
      { destruct (ordvals (concat pages)) as [|x r] eqn:E.
        - right. intros x Hx. apply ordvals_In in Hx. rewrite E in Hx. destruct Hx.
        - left. exists x. apply ordvals_In. rewrite E. now left. }
      destruct Hcase as [Hex|Hno].
      + destruct (Hsome Hex) as (mn & mx & E1 & E2 & M1 & M2 & L & U).
        split; [|split].
        * intros mn' Hmn. rewrite E1 in Hmn. inversion Hmn; subst. split; [|exact L].
          exists mn'. split; [exact M1|]. split; apply leb_refl.
        * intros mx' Hmx. rewrite E2 in Hmx. inversion Hmx; subst. split; [|exact U].
          exists mx'. split; [exact M2|]. split; apply leb_refl.
        * intros Hno. destruct Hex as [x Hx]. now apply Hno in Hx.
      + destruct (Hnone Hno) as (E1 & E2). split; [|split].
        * intros mn Hmn. congruence.
        * intros mx Hmx. congruence.
        * intros _. split; assumption.
    - unfold exact, Stats.stats_of. cbn. split; [apply tally_exact; exact Hreq|].
      split; [|split]; intros; try discriminate. split; reflexivity.
  Qed.

  (* ---- the decidable relation used by the tie is sound --------------------------------- *)
  Lemma check_bound_lower m l : check_bound A leb ordered true m (ordvals l) = true ->
    (exists x, member l x /\ equiv m x) /\ is_lower l m.
  Proof.
    unfold check_bound. rewrite !andb_true_iff. intros [[Ho He] Hf].
    apply existsb_exists in He. destruct He as (x & Hx & Hq).
    unfold equivb in Hq. apply andb_true_iff in Hq.
    split.
    - exists x. split; [now apply ordvals_In|exact Hq].
    - intros y Hy. rewrite forallb_forall in Hf. apply Hf. now apply ordvals_In.
  Qed.

  Lemma check_bound_upper m l : check_bound A leb ordered false m (ordvals l) = true ->
    (exists x, member l x /\ equiv m x) /\ is_upper l m.
  Proof.
    unfold check_bound. rewrite !andb_true_iff. intros [[Ho He] Hf].
    apply existsb_exists in He. destruct He as (x & Hx & Hq).
    unfold equivb in Hq. apply andb_true_iff in Hq.
    split.
    - exists x. split; [now apply ordvals_In|exact Hq].
    - intros y Hy. rewrite forallb_forall in Hf. apply Hf. now apply ordvals_In.
  Qed.

  Theorem check_stats_sound : forall (stored : cells) (st : stats A),
    check_stats A leb ordered stored st = true -> exact stored st.
  Proof.
    intros stored st. unfold check_stats, exact. rewrite andb_true_iff. intros [Hn Hm].
    apply N.eqb_eq in Hn. split; [exact Hn|].
    destruct (s_min st) as [mn|]; destruct (s_max st) as [mx|]; try discriminate.
    - apply andb_true_iff in Hm. destruct Hm as [H1 H2].
      apply check_bound_lower in H1. apply check_bound_upper in H2.
      split; [|split].
      + intros m E; inversion E; subst. exact H1.
      + intros m E; inversion E; subst. exact H2.
      + destruct H1 as ((x & Hx & _) & _). intros Hno. now apply Hno in Hx.
    - split; [|split]; intros; try discriminate. split; reflexivity.
  Qed.

  (* the writer model's output is inside the relation (the relation is inhabited by the code's behaviour) *)
  Theorem check_stats_complete_for_model : forall (sel optional : bool) (pages : list cells),
    (optional = false -> forall c, In c (concat pages) -> c <> None) ->
    check_stats A leb ordered (concat pages) (stats_of sel optional pages) = true.
  Proof.
    intros sel optional pages Hreq. unfold check_stats.
    pose proof (tally_exact optional pages Hreq) as Ht.
    unfold Stats.stats_of. destruct sel; cbn.
    2:{ rewrite Ht, N.eqb_refl. reflexivity. }
    destruct (max_of (ordvals (concat pages))) as [mx|] eqn:Emx;
      destruct (min_of (ordvals (concat pages))) as [mn|] eqn:Emn; cbn; rewrite Ht, N.eqb_refl; cbn; try reflexivity.
    destruct (max_of_spec _ _ Emx) as (Hi1 & Hb1). destruct (min_of_spec _ _ Emn) as (Hi2 & Hb2).
    unfold check_bound.
    assert (O1 : ordered mn = true) by (apply ordvals_In in Hi2; apply Hi2).
    assert (O2 : ordered mx = true) by (apply ordvals_In in Hi1; apply Hi1).
    rewrite O1, O2. cbn.
    repeat (apply andb_true_iff; split).
    - apply existsb_exists. exists mn. split; [exact Hi2|]. unfold equivb. now rewrite leb_refl.
    - apply forallb_forall. exact Hb2.
    - apply existsb_exists. exists mx. split; [exact Hi1|]. unfold equivb. now rewrite leb_refl.
    - apply forallb_forall. exact Hb1.
  Qed.

  (* ---- sorted_partitioned_columns ------------------------------------------------------ *)
  Lemma sorted_by_head a r : sorted_by A leb (a :: r) = true -> forall b, In b r -> leb a b = true.
  Proof.
    revert a; induction r as [|y r IH]; intros a H b Hb; [destruct Hb|].
    cbn in H. apply andb_true_iff in H. destruct H as [H1 H2].
    destruct Hb as [->|Hb]; [exact H1|].
    eapply leb_trans; [exact H1|]. apply IH; assumption.
  Qed.

  Lemma sorted_by_tail a r : sorted_by A leb (a :: r) = true -> sorted_by A leb r = true.
  Proof. destruct r as [|y r]; cbn; [reflexivity|]. intros H. apply andb_true_iff in H. apply H. Qed.

  Lemma all_lt_removelast a b : length a = S (length b) ->
    all_lt A leb (removelast a) b = all_lt A leb a b.
  Proof.
    revert b; induction a as [|x a IH]; intros b H; [discriminate|].
    destruct a as [|x' a'].
    - destruct b; [reflexivity|discriminate].
    - destruct b as [|y b]; [discriminate|].
      change (removelast (x :: x' :: a')) with (x :: removelast (x' :: a')).
      cbn [all_lt]. rewrite IH by (cbn in *; lia). reflexivity.
  Qed.

  (* row groups with their reported bounds: (min, max, members) *)
  Definition rg := (A * A * list A)%type.
  Definition rg_min (g : rg) := fst (fst g).
  Definition rg_max (g : rg) := snd (fst g).
  Definition rg_vals (g : rg) := snd g.
  Definition bounds_ok (g : rg) : Prop :=
    forall x, In x (rg_vals g) -> leb (rg_min g) x = true /\ leb x (rg_max g) = true.

  (* every value of an earlier row group is strictly below every value of a later one *)
  Fixpoint strictly_increasing (gs : list rg) : Prop :=
    match gs with
    | [] => True
    | g :: r => (forall x, In x (rg_vals g) -> forall g', In g' r -> forall y, In y (rg_vals g') -> ltb x y = true)
                /\ strictly_increasing r
    end.

  Lemma sorted_core gs :
    Forall bounds_ok gs ->
    sorted_by A leb (map rg_min gs) = true ->
    all_lt A leb (map rg_max gs) (tl (map rg_min gs)) = true ->
    strictly_increasing gs.
  Proof.
    induction gs as [|g r IH]; intros Hb Hs Hl; cbn; [exact I|].
    inversion Hb as [|g0 r0 Hg Hr]; subst. split.
    - intros x Hx g' Hg' y Hy.
      destruct r as [|g1 r1]; [destruct Hg'|].
      cbn in Hl. apply andb_true_iff in Hl. destruct Hl as [Hlt _].
      (* x <= max g < min g1 <= min g' <= y *)
      assert (H1 : leb x (rg_max g) = true) by (apply Hg; exact Hx).
      assert (H3 : leb (rg_min g1) (rg_min g') = true).
      { destruct Hg' as [->|Hg']; [apply leb_refl|].
        cbn [map] in Hs. apply sorted_by_tail in Hs.
        apply (sorted_by_head _ _ Hs). now apply in_map. }
      assert (H4 : leb (rg_min g') y = true).
      { rewrite Forall_forall in Hr. apply (Hr g' Hg'). exact Hy. }
      unfold Stats.ltb in *. apply negb_true_iff. apply negb_true_iff in Hlt.
      destruct (leb y x) eqn:E; [|reflexivity].
      (* min g1 <= min g' <= y <= x <= max g, contradiction with max g < min g1 *)
      assert (leb (rg_min g1) (rg_max g) = true).
      { eapply leb_trans; [exact H3|]. eapply leb_trans; [exact H4|]. eapply leb_trans; [exact E|exact H1]. }
      congruence.
    - apply IH; [exact Hr| |].
      + cbn [map] in Hs. now apply sorted_by_tail in Hs.
      + destruct r as [|g1 r1]; [reflexivity|].
        cbn in Hl. apply andb_true_iff in Hl. apply Hl.
  Qed.

  Lemma all_some_map (l : list A) : all_some A (map Some l) = Some l.
  Proof. induction l as [|a l IH]; cbn; [reflexivity|]. now rewrite IH. Qed.

  (* C04_sorted_columns_sound: if the reported per-row-group bounds do bound the row groups' values
     (which C04_minmax_exact gives) and sorted_partitioned_columns lists the column, then every value
     of an earlier row group is strictly smaller than every value of a later one. *)
  Theorem sorted_col_sound : forall gs : list rg,
    Forall bounds_ok gs ->
    sorted_col A leb (map (fun g => Some (rg_min g)) gs) (map (fun g => Some (rg_max g)) gs) = true ->
    strictly_increasing gs.
  Proof.
    intros gs Hb H. unfold sorted_col in H.
    rewrite <- (map_map rg_min Some), <- (map_map rg_max Some), !all_some_map in H.
    rewrite !andb_true_iff in H. destruct H as [[[Hne Hs1] Hs2] Hl].
    apply sorted_core; [exact Hb|exact Hs1|].
    rewrite all_lt_removelast in Hl; [exact Hl|].
    rewrite !map_length. destruct gs as [|g r]; [discriminate|]. cbn. now rewrite map_length.
  Qed.
End Generic.

(* ------------------------------------------------------------------------------------------ *)
(* the Parquet orderings are total preorders                                                   *)
(* ------------------------------------------------------------------------------------------ *)
Lemma leb_of_refl o a : leb_of o a a = true.
Proof. unfold leb_of. apply Z.leb_refl. Qed.
Lemma leb_of_trans o a b c : leb_of o a b = true -> leb_of o b c = true -> leb_of o a c = true.
Proof. unfold leb_of. rewrite !Z.leb_le. lia. Qed.
Lemma leb_of_total o a b : leb_of o a b = true \/ leb_of o b a = true.
Proof. unfold leb_of. rewrite !Z.leb_le. lia. Qed.

Lemma lex_leb_refl a : lex_leb a a = true.
Proof. induction a as [|x a IH]; cbn; [reflexivity|]. now rewrite N.ltb_irrefl. Qed.

Lemma lex_leb_total a : forall b, lex_leb a b = true \/ lex_leb b a = true.
Proof.
  induction a as [|x a IH]; intros [|y b]; cbn; auto.
  destruct (N.ltb_spec x y); [auto|]. destruct (N.ltb_spec y x); [auto|]. apply IH.
Qed.

Lemma lex_leb_trans a : forall b c, lex_leb a b = true -> lex_leb b c = true -> lex_leb a c = true.
Proof.
  induction a as [|x a IH]; intros [|y b] [|z c]; cbn; auto; try discriminate.
  destruct (N.ltb_spec x y); destruct (N.ltb_spec y z); destruct (N.ltb_spec x z); auto; try lia;
    destruct (N.ltb_spec y x); destruct (N.ltb_spec z y); destruct (N.ltb_spec z x); auto; try lia;
    try discriminate.
  apply IH.
Qed.

(* antisymmetry: on byte strings the order's equivalence is equality *)
Lemma lex_leb_antisym a : forall b, lex_leb a b = true -> lex_leb b a = true -> a = b.
Proof.
  induction a as [|x a IH]; intros [|y b]; cbn; auto; try discriminate.
  destruct (N.ltb_spec x y); destruct (N.ltb_spec y x); try lia; try discriminate.
  intros H1 H2. assert (x = y) by lia. subst. f_equal. now apply IH.
Qed.

(* sanity of the orderings against the types' meaning *)
Lemma to_signed_range w n : (0 < w)%N -> (n < 2 ^ w)%N ->
  (- Z.of_N (2 ^ (w - 1)) <= to_signed w n < Z.of_N (2 ^ (w - 1)))%Z.
Proof.
  intros Hw Hn. unfold to_signed.
  assert (E : (2 ^ w = 2 * 2 ^ (w - 1))%N).
  { replace w with (1 + (w - 1))%N at 1 by lia. now rewrite N.pow_add_r. }
  destruct (N.ltb_spec n (2 ^ (w - 1))); lia.
Qed.

Lemma to_signed_inj w a b : (0 < w)%N -> (a < 2 ^ w)%N -> (b < 2 ^ w)%N -> to_signed w a = to_signed w b -> a = b.
Proof.
  intros Hw Ha Hb. unfold to_signed.
  assert (E : (2 ^ w = 2 * 2 ^ (w - 1))%N).
  { replace w with (1 + (w - 1))%N at 1 by lia. now rewrite N.pow_add_r. }
  destruct (N.ltb_spec a (2 ^ (w - 1))); destruct (N.ltb_spec b (2 ^ (w - 1))); lia.
Qed.

(* ------------------------------------------------------------------------------------------ *)
(* C04_user_view: decode (encode m) = m for every physical type                                *)
(* ------------------------------------------------------------------------------------------ *)
Lemma skipn_le_enc_app k n (b : bytes) : skipn k (le_enc k n ++ b) = b.
Proof.
  rewrite skipn_app, le_enc_length, Nat.sub_diag.
  rewrite skipn_all2 by (rewrite le_enc_length; lia). reflexivity.
Qed.

Lemma dec_fixed k n : (n < 256 ^ N.of_nat k)%N ->
  (if Nat.leb k (length (le_enc k n)) then Some (PN (le2n (firstn k (le_enc k n)))) else None) = Some (PN n).
Proof.
  intros H. rewrite le_enc_length, Nat.leb_refl.
  rewrite firstn_all2 by (rewrite le_enc_length; lia).
  rewrite le2n_le_enc, N.mod_small by exact H. reflexivity.
Qed.

Theorem stat_roundtrip : forall t v, wf_val t v ->
  exists b, enc_stat t v = Some b /\ dec_stat t b = Some v.
Proof.
  intros t v H. destruct t; destruct v as [n|bs]; cbn in H; try contradiction.
  - exists [n mod 2]%N. split; [reflexivity|]. cbn. rewrite N.mod_mod by lia. rewrite N.mod_small by exact H. reflexivity.
  - exists (le_enc 4 n). split; [reflexivity|]. unfold dec_stat. cbn [fixed_width]. now apply dec_fixed.
  - exists (le_enc 8 n). split; [reflexivity|]. unfold dec_stat. cbn [fixed_width]. now apply dec_fixed.
  - exists (le_enc 12 n). split; [reflexivity|]. unfold dec_stat. cbn [fixed_width]. now apply dec_fixed.
  - exists (le_enc 4 n). split; [reflexivity|]. unfold dec_stat. cbn [fixed_width]. now apply dec_fixed.
  - exists (le_enc 8 n). split; [reflexivity|]. unfold dec_stat. cbn [fixed_width]. now apply dec_fixed.
  - exists bs. split; [|reflexivity]. unfold enc_stat, enc_plain1. cbn [option_map]. now rewrite skipn_le_enc_app.
  - exists bs. split; reflexivity.
Qed.

(* ------------------------------------------------------------------------------------------ *)
(* the pinned tree's categorical rule is refuted                                               *)
(* ------------------------------------------------------------------------------------------ *)
(* categories [30; 10; 20] (category order <> value order), all three present: min=30 > max=20 *)
Lemma cat_old_refuted :
  exists (cats : list N) (codes : list (option nat)) (mn mx : N),
    cat_minmax_old N cats codes = Some (mn, mx) /\
    In (Some mn) (labels_of N cats codes) /\ In (Some mx) (labels_of N cats codes) /\
    ltb N (leb_of OUnsigned) mx mn = true.
Proof.
  exists [30; 10; 20]%N, [Some 1; None; Some 0; Some 2]%nat, 30%N, 20%N.
  vm_compute. repeat split; auto.
Qed.

(* ------------------------------------------------------------------------------------------ *)
(* categorical chunks, REPAIRED rule (bounds over the label values present): the statistics describe   *)
(* the chunk as stored - dictionary page = categories, data pages = codes - for every category order,   *)
(* every set of unused categories, every page split                                                     *)
(* ------------------------------------------------------------------------------------------ *)
Section Cat.
  Variable A : Type.
  Variable leb : A -> A -> bool.
  Variable ordered : A -> bool.
  Hypothesis leb_refl : forall a, leb a a = true.
  Hypothesis leb_trans : forall a b c, leb a b = true -> leb b c = true -> leb a c = true.
  Hypothesis leb_total : forall a b, leb a b = true \/ leb b a = true.

  Lemma present_In codes i : In i (present codes) <-> In (Some i) codes.
  Proof.
    induction codes as [|[j|] r IH]; cbn.
    - tauto.
    - rewrite IH. split; intros [H|H]; auto; left; congruence.
    - rewrite IH. split; [auto|]. intros [H|H]; [discriminate|exact H].
  Qed.

  (* the labels that occur in the decoded chunk are the labels the repaired writer looks at *)
  Lemma labels_present_In cats codes x :
    In (Some x) (labels_of A cats codes) <-> In (Some x) (cat_labels_present A cats codes).
  Proof.
    unfold labels_of, cat_labels_present. rewrite !in_map_iff. split.
    - intros (c & Hc & Hin). destruct c as [i|]; [|discriminate].
      exists i. split; [exact Hc|]. apply nodup_In. now apply present_In.
    - intros (i & Hi & Hin). apply nodup_In in Hin. apply present_In in Hin.
      exists (Some i). split; [exact Hi|exact Hin].
  Qed.

  Lemma exact_transfer (l l' : cells A) (st st' : stats A) :
    (forall x, In (Some x) l <-> In (Some x) l') ->
    s_min st = s_min st' -> s_max st = s_max st' -> s_nulls st = count_nulls A l ->
    exact A leb ordered l' st' -> exact A leb ordered l st.
  Proof.
    intros Hm Emin Emax Hn (_ & Hmin & Hmax & Hnone).
    assert (M : forall x, member A ordered l x <-> member A ordered l' x).
    { intros x. unfold member. rewrite Hm. tauto. }
    unfold exact. split; [exact Hn|]. split; [|split].
    - intros mn E. rewrite Emin in E. destruct (Hmin mn E) as ((x & Hx & Hq) & Hl). split.
      + exists x. split; [now apply M|exact Hq].
      + intros y Hy. apply Hl. now apply M.
    - intros mx E. rewrite Emax in E. destruct (Hmax mx E) as ((x & Hx & Hq) & Hu). split.
      + exists x. split; [now apply M|exact Hq].
      + intros y Hy. apply Hu. now apply M.
    - intros Hno. rewrite Emin, Emax. apply Hnone. intros x Hx. apply (Hno x). now apply M.
  Qed.

  Lemma labels_of_concat cats (pages : list (list (option nat))) :
    concat (map (labels_of A cats) pages) = labels_of A cats (concat pages).
  Proof. unfold labels_of. symmetry. apply concat_map. Qed.

  (* C04 for categorical chunks, repaired rule: whatever the category order, whichever categories are
     unused, however the codes are cut into pages, the statistics are exact for the decoded chunk *)
  Theorem cat_stats_of_exact : forall (sel optional : bool) (cats : list A) (pages : list (list (option nat))),
    (optional = false -> forall c, In c (labels_of A cats (concat pages)) -> c <> None) ->
    exact A leb ordered (labels_of A cats (concat pages)) (cat_stats_of A leb ordered sel optional cats pages).
  Proof.
    intros sel optional cats pages Hreq.
    set (L' := cat_labels_present A cats (concat pages)).
    pose proof (stats_of_exact A leb ordered leb_refl leb_trans leb_total sel true [L']) as Hex.
    cbn [concat] in Hex. rewrite app_nil_r in Hex. specialize (Hex (fun H => False_ind _ (diff_true_false H))).
    apply (exact_transfer _ L' _ (stats_of A leb ordered sel true [L'])).
    - intros x. apply labels_present_In.
    - unfold cat_stats_of, stats_of. cbn [concat]. rewrite app_nil_r. fold L'.
      destruct sel; [|reflexivity].
      destruct (max_of A leb (ordvals A ordered L')); destruct (min_of A leb (ordvals A ordered L')); reflexivity.
    - unfold cat_stats_of, stats_of. cbn [concat]. rewrite app_nil_r. fold L'.
      destruct sel; [|reflexivity].
      destruct (max_of A leb (ordvals A ordered L')); destruct (min_of A leb (ordvals A ordered L')); reflexivity.
    - assert (Ht : tally A optional (map (labels_of A cats) pages) = count_nulls A (labels_of A cats (concat pages))).
      { rewrite <- labels_of_concat. apply tally_exact. rewrite labels_of_concat. exact Hreq. }
      unfold cat_stats_of. destruct sel; [|exact Ht].
      destruct (max_of A leb (ordvals A ordered (cat_labels_present A cats (concat pages))));
        destruct (min_of A leb (ordvals A ordered (cat_labels_present A cats (concat pages)))); exact Ht.
    - exact Hex.
  Qed.
End Cat.

(* ------------------------------------------------------------------------------------------ *)
(* instances for the Parquet orderings (statements used in props/C04.v)                        *)
(* ------------------------------------------------------------------------------------------ *)
Definition minmax_exact_statement (A : Type) (leb : A -> A -> bool) (ordered : A -> bool) : Prop :=
  forall (optional : bool) (pages : list (cells A)),
    (optional = false -> forall c, In c (concat pages) -> c <> None) ->
    let l := concat pages in
    let st := stats_of A leb ordered true optional pages in
    s_nulls st = count_nulls A l /\
    ((exists x, member A ordered l x) ->
       exists mn mx, s_min st = Some mn /\ s_max st = Some mx /\
                     member A ordered l mn /\ member A ordered l mx /\
                     is_lower A leb ordered l mn /\ is_upper A leb ordered l mx) /\
    ((forall x, ~ member A ordered l x) -> s_min st = None /\ s_max st = None).

Lemma minmax_exact_fixed : forall o, minmax_exact_statement N (leb_of o) (ordered_of o).
Proof.
  intros o optional pages H.
  exact (stats_of_minmax_exact N (leb_of o) (ordered_of o) (leb_of_refl o) (leb_of_trans o) (leb_of_total o) optional pages H).
Qed.

Lemma minmax_exact_bytes : minmax_exact_statement bytes lex_leb (fun _ => true).
Proof.
  intros optional pages H.
  exact (stats_of_minmax_exact bytes lex_leb (fun _ => true) lex_leb_refl lex_leb_trans lex_leb_total optional pages H).
Qed.

Lemma any_setting_exact_fixed : forall o sel optional (pages : list (cells N)),
  (optional = false -> forall c, In c (concat pages) -> c <> None) ->
  exact N (leb_of o) (ordered_of o) (concat pages) (stats_of N (leb_of o) (ordered_of o) sel optional pages).
Proof.
  intros o. exact (stats_of_exact N (leb_of o) (ordered_of o) (leb_of_refl o) (leb_of_trans o) (leb_of_total o)).
Qed.

Lemma any_setting_exact_bytes : forall sel optional (pages : list (cells bytes)),
  (optional = false -> forall c, In c (concat pages) -> c <> None) ->
  exact bytes lex_leb (fun _ => true) (concat pages) (stats_of bytes lex_leb (fun _ => true) sel optional pages).
Proof. exact (stats_of_exact bytes lex_leb (fun _ => true) lex_leb_refl lex_leb_trans lex_leb_total). Qed.

Lemma sorted_sound_fixed : forall o (gs : list (rg N)),
  Forall (bounds_ok N (leb_of o)) gs ->
  sorted_col N (leb_of o) (map (fun g => Some (rg_min N g)) gs) (map (fun g => Some (rg_max N g)) gs) = true ->
  strictly_increasing N (leb_of o) gs.
Proof. intros o. exact (sorted_col_sound N (leb_of o) (leb_of_refl o) (leb_of_trans o)). Qed.

Lemma sorted_sound_bytes : forall (gs : list (rg bytes)),
  Forall (bounds_ok bytes lex_leb) gs ->
  sorted_col bytes lex_leb (map (fun g => Some (rg_min bytes g)) gs) (map (fun g => Some (rg_max bytes g)) gs) = true ->
  strictly_increasing bytes lex_leb gs.
Proof. exact (sorted_col_sound bytes lex_leb lex_leb_refl lex_leb_trans). Qed.

Lemma cat_exact_fixed : forall o sel optional (cats : list N) (pages : list (list (option nat))),
  (optional = false -> forall c, In c (labels_of N cats (concat pages)) -> c <> None) ->
  exact N (leb_of o) (ordered_of o) (labels_of N cats (concat pages))
        (cat_stats_of N (leb_of o) (ordered_of o) sel optional cats pages).
Proof.
  intros o. exact (cat_stats_of_exact N (leb_of o) (ordered_of o) (leb_of_refl o) (leb_of_trans o) (leb_of_total o)).
Qed.

Lemma cat_exact_bytes : forall sel optional (cats : list bytes) (pages : list (list (option nat))),
  (optional = false -> forall c, In c (labels_of bytes cats (concat pages)) -> c <> None) ->
  exact bytes lex_leb (fun _ => true) (labels_of bytes cats (concat pages))
        (cat_stats_of bytes lex_leb (fun _ => true) sel optional cats pages).
Proof. exact (cat_stats_of_exact bytes lex_leb (fun _ => true) lex_leb_refl lex_leb_trans lex_leb_total). Qed.
