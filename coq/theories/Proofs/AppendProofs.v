From Coq Require Import NArith Arith List Bool Lia.
From Pq Require Import Base.Bytes Proofs.BytesProofs Impl.KV Proofs.KVProofs Dataset.Append Dataset.FS Dataset.Crash Proofs.CrashProofs.
Import ListNotations.

(* ---------- sequential writes ---------- *)
Lemma os_write_length file pos b : (pos <= length file)%nat ->
  length (os_write file pos b) = Nat.max (length file) (pos + length b).
Proof.
  intros H. unfold os_write. rewrite !app_length, firstn_length, skipn_length. lia.
Qed.

Lemma os_write_prefix file pos b n : (n <= pos)%nat -> (pos <= length file)%nat ->
  firstn n (os_write file pos b) = firstn n file.
Proof.
  intros Hn Hp. unfold os_write. rewrite firstn_app, firstn_length, Nat.min_l by exact Hp.
  replace (n - pos)%nat with 0%nat by lia. cbn. rewrite app_nil_r, firstn_firstn. f_equal. lia.
Qed.

Theorem seq_write_prefix chunks : forall file pos n, (n <= pos)%nat -> (pos <= length file)%nat ->
  firstn n (seq_write file pos chunks) = firstn n file.
Proof.
  induction chunks as [|c r IH]; intros file pos n Hn Hp; [reflexivity|]. cbn.
  rewrite IH; [now apply os_write_prefix | lia | rewrite os_write_length by exact Hp; lia].
Qed.

(* writing from the end of a prefix: the chunks land one after another *)
Lemma os_write_at_end a rest b :
  os_write (a ++ rest) (length a) b = a ++ b ++ skipn (length b) rest.
Proof.
  unfold os_write. rewrite firstn_app_exact. f_equal. f_equal.
  rewrite skipn_app. rewrite skipn_all2 by lia. cbn. f_equal. lia.
Qed.

Lemma skipn_skipn' {A} (l : list A) : forall a b, skipn a (skipn b l) = skipn (b + a) l.
Proof.
  induction l as [|x l IH]; intros a b; [now rewrite !skipn_nil|].
  destruct b; [reflexivity|]. cbn. apply IH.
Qed.

Lemma seq_write_at_end chunks : forall a rest,
  seq_write (a ++ rest) (length a) chunks = a ++ concat chunks ++ skipn (length (concat chunks)) rest.
Proof.
  induction chunks as [|c r IH]; intros a rest; cbn; [reflexivity|].
  rewrite os_write_at_end. rewrite app_assoc. rewrite <- app_length. rewrite IH.
  rewrite <- !app_assoc. f_equal. f_equal. f_equal. rewrite skipn_skipn', app_length. reflexivity.
Qed.

Lemma footer_loc_le file loc : footer_loc false file = Some loc -> (loc <= length file - 8)%nat /\ (8 <= length file)%nat.
Proof.
  unfold footer_loc. destruct (Nat.ltb (length file) 8) eqn:L; [discriminate|]. apply Nat.ltb_ge in L.
  destruct (le_dec 4 _) as [[sz t]|]; [|discriminate].
  destruct (N.leb sz _); [|discriminate]. intros E; inversion E. lia.
Qed.

(* C07, first half: whatever is written, the bytes below the old footer start are untouched *)
Theorem append_simple_prefix file chunks footer' file' loc :
  footer_loc false file = Some loc -> append_simple file chunks footer' = Some file' ->
  firstn loc file' = firstn loc file.
Proof.
  intros L A. unfold append_simple in A. rewrite L in A. inversion A; subst file'.
  apply footer_loc_le in L. apply seq_write_prefix; lia.
Qed.

Lemma concat_trailer chunks footer :
  concat (chunks ++ trailer footer) = concat chunks ++ footer ++ le_enc 4 (N.of_nat (length footer)) ++ magic.
Proof. rewrite concat_app. unfold trailer. cbn [concat]. now rewrite app_nil_r. Qed.

(* the result is again a framed file: old data, then the new row groups, then the new footer -
   provided what is written is not shorter than what it overwrites (there is no truncate) *)
Theorem append_simple_framed data footer chunks footer' :
  (N.of_nat (length footer) < 2 ^ 32)%N ->
  (length footer <= length (concat chunks) + length footer')%nat ->
  append_simple (framed data footer) chunks footer' = Some (framed (data ++ concat chunks) footer').
Proof.
  intros Hsz Hlen. unfold append_simple. rewrite footer_loc_framed by exact Hsz. f_equal.
  unfold framed at 1. rewrite seq_write_at_end. rewrite concat_trailer.
  rewrite skipn_all2.
  - unfold framed. now rewrite app_nil_r, <- !app_assoc.
  - rewrite !app_length, le_enc_length. cbn. lia.
Qed.

(* without that proviso the old tail survives behind the new trailer: the file is NOT the framed one *)
Theorem append_simple_short_refuted data footer chunks footer' f' :
  (N.of_nat (length footer) < 2 ^ 32)%N ->
  (length (concat chunks) + length footer' < length footer)%nat ->
  append_simple (framed data footer) chunks footer' = Some f' ->
  f' <> framed (data ++ concat chunks) footer'.
Proof.
  intros Hsz Hlen A E. subst f'. unfold append_simple in A. rewrite footer_loc_framed in A by exact Hsz.
  inversion A as [A']. apply (f_equal (@length N)) in A'.
  unfold framed at 1 in A'. rewrite seq_write_at_end, concat_trailer in A'.
  rewrite framed_length in A'. rewrite !app_length, skipn_length, !app_length, le_enc_length in A'. cbn in A'.
  lia.
Qed.

(* ---------- rows: induction over the list of appends ---------- *)
Lemma slice_app_l off len a b : (off + len <= length a)%nat -> slice off len (a ++ b) = slice off len a.
Proof.
  intros H. unfold slice. rewrite skipn_app. rewrite firstn_app.
  rewrite skipn_length. replace (len - (length a - off))%nat with 0%nat by lia. cbn. now rewrite app_nil_r.
Qed.

Lemma slice_exact a b c : slice (length a) (length b) (a ++ b ++ c) = b.
Proof. unfold slice. rewrite skipn_app_exact. apply firstn_app_exact. Qed.

Section RowsP.
  Variable row : Type.
  Variable dec_rg : bytes -> list row.
  Variable enc_footer : list (nat * nat) -> bytes.
  Variable parse_footer : bytes -> option (list (nat * nat)).
  Hypothesis parse_enc : forall l, parse_footer (enc_footer l) = Some l.
  Hypothesis enc_small : forall l, (N.of_nat (length (enc_footer l)) < 2 ^ 32)%N.
  Hypothesis enc_mono : forall l l', (length (enc_footer l) <= length (enc_footer (l ++ l')))%nat.

  Notation footer_of := (footer_of enc_footer parse_footer).
  Notation rows_of := (rows_of row dec_rg).
  Notation read_simple := (read_simple row dec_rg parse_footer).
  Notation append_rgs := (append_rgs enc_footer parse_footer).

  Definition in_data (data : bytes) (d : nat * nat) : Prop := (fst d + snd d <= length data)%nat.

  Lemma footer_of_framed data descs :
    Dataset.Append.footer_of parse_footer (framed data (enc_footer descs)) = Some (length data, descs).
  Proof.
    unfold Dataset.Append.footer_of. rewrite footer_loc_framed by apply enc_small.
    rewrite framed_length. replace (length data + length (enc_footer descs) + 8 - 8 - length data)%nat
      with (length (enc_footer descs)) by lia.
    unfold framed. rewrite skipn_app_exact, firstn_app_exact. now rewrite parse_enc.
  Qed.

  Lemma rows_of_prefix data rest descs : Forall (in_data data) descs ->
    rows_of (data ++ rest) descs = rows_of data descs.
  Proof.
    intros H. unfold Dataset.Append.rows_of. f_equal. apply map_ext_in. intros d Hd.
    rewrite Forall_forall in H. now rewrite slice_app_l by (apply H; exact Hd).
  Qed.

  Lemma place_in_data rgs : forall data rest,
    Forall (in_data (data ++ concat rgs ++ rest)) (place (length data) rgs).
  Proof.
    induction rgs as [|b r IH]; intros data rest; cbn; [constructor|]. constructor.
    - unfold in_data; cbn. rewrite !app_length. lia.
    - rewrite <- app_length. specialize (IH (data ++ b) rest). now rewrite <- !app_assoc in IH |- *.
  Qed.

  Lemma rows_of_place rgs : forall data rest,
    rows_of (data ++ concat rgs ++ rest) (place (length data) rgs) = concat (map dec_rg rgs).
  Proof.
    induction rgs as [|b r IH]; intros data rest; [reflexivity|].
    cbn [place concat map]. unfold Dataset.Append.rows_of in *. cbn [map concat fst snd].
    rewrite <- app_assoc. rewrite slice_exact. f_equal.
    rewrite <- app_length. specialize (IH (data ++ b) rest). now rewrite <- !app_assoc in IH.
  Qed.

  Lemma in_data_app data x d : in_data data d -> in_data (data ++ x) d.
  Proof. unfold in_data. rewrite app_length. lia. Qed.

  (* one append on a well-formed file *)
  Lemma append_rgs_framed data descs rgs : Forall (in_data data) descs ->
    append_rgs (framed data (enc_footer descs)) rgs
    = Some (framed (data ++ concat rgs) (enc_footer (descs ++ place (length data) rgs)))
    /\ Forall (in_data (data ++ concat rgs)) (descs ++ place (length data) rgs)
    /\ rows_of (data ++ concat rgs) (descs ++ place (length data) rgs)
       = rows_of data descs ++ concat (map dec_rg rgs).
  Proof.
    intros Hd. split; [|split].
    - unfold Dataset.Append.append_rgs. rewrite footer_of_framed.
      apply append_simple_framed; [apply enc_small|]. pose proof (enc_mono descs (place (length data) rgs)). lia.
    - apply Forall_app. split.
      + eapply Forall_impl; [|exact Hd]. intros d. apply in_data_app.
      + pose proof (place_in_data rgs data []) as P. now rewrite !app_nil_r in P.
    - unfold Dataset.Append.rows_of. rewrite map_app, concat_app. f_equal.
      + apply (rows_of_prefix data (concat rgs) descs Hd).
      + pose proof (rows_of_place rgs data []) as P. now rewrite !app_nil_r in P.
  Qed.

  (* any sequence of appends: the reader sees the old rows followed by every batch, in order *)
  Theorem appends_rows batches : forall data descs, Forall (in_data data) descs ->
    exists f', appends enc_footer parse_footer (framed data (enc_footer descs)) batches = Some f'
      /\ read_simple f' = Some (rows_of data descs ++ concat (map dec_rg (concat batches)))
      /\ firstn (length data) f' = data.
  Proof.
    unfold appends. induction batches as [|rgs r IH]; intros data descs Hd.
    - exists (framed data (enc_footer descs)). cbn. split; [reflexivity|]. split.
      + unfold Dataset.Append.read_simple. rewrite footer_of_framed. rewrite app_nil_r.
        unfold framed. now rewrite rows_of_prefix.
      + unfold framed. apply firstn_app_exact.
    - cbn [fold_left]. destruct (append_rgs_framed data descs rgs Hd) as [A [Hd' R]]. rewrite A.
      destruct (IH _ _ Hd') as [f' [F [Rd P]]]. exists f'. split; [exact F|]. split.
      + rewrite Rd, R. cbn [concat]. now rewrite map_app, concat_app, app_assoc.
      + rewrite <- (firstn_app_exact data (concat rgs)) at 2. rewrite <- P.
        rewrite firstn_firstn. f_equal. rewrite app_length. lia.
  Qed.
End RowsP.

(* ---------- multi-file: what the validated relation of C19 gives C07 ---------- *)
Theorem multi_existing_untouched refs tr : safe_trace refs tr ->
  (forall s q, In q refs -> FS.lookup q (run_trace tr s) = FS.lookup q s)
  /\ (forall p t, In (OpenW p t) tr -> ~ In p refs)
  /\ (forall c, In c tr ->
        match c with Rename a b => ~ In a refs /\ ~ In b refs | Remove p => ~ In p refs | _ => True end).
Proof.
  intros H. split; [|split].
  - intros s q Hq. now apply (safe_run_refs_intact refs tr s H).
  - exact (no_write_open_existing refs tr H).
  - exact (no_rename_remove_existing refs tr H).
Qed.

(* ---------- the validated relation on (bytes before, bytes after) ---------- *)
Theorem check_append_rel_sound before after : check_append_rel before after = true <-> append_rel before after.
Proof.
  unfold check_append_rel, append_rel. split.
  - destruct (footer_loc false before) as [loc|]; [|discriminate].
    destruct (footer_loc false after) as [loc'|]; [|discriminate].
    intros H. apply andb_true_iff in H. destruct H as [H1 H2]. exists loc, loc'.
    repeat split; [now apply Nat.leb_le | destruct (bytes_eqb_spec (firstn loc after) (firstn loc before)); congruence].
  - intros [loc [loc' [H1 [H2 [H3 H4]]]]]. rewrite H1, H2, H4. apply andb_true_iff. split.
    + destruct (bytes_eqb_spec (firstn loc before) (firstn loc before)); congruence.
    + now apply Nat.leb_le.
Qed.

(* every byte range that lay below the old footer start is unchanged: all existing row groups *)
Theorem append_rel_old_slices before after : append_rel before after ->
  exists loc, footer_loc false before = Some loc /\
    forall off len, (off + len <= loc)%nat -> slice off len after = slice off len before.
Proof.
  intros [loc [loc' [H1 [H2 [H3 H4]]]]]. exists loc. split; [exact H1|]. intros off len Hol.
  destruct (footer_loc_le _ _ H1) as [Lb _]. destruct (footer_loc_le _ _ H2) as [La _].
  assert (E : forall f, (loc <= length f)%nat -> slice off len f = slice off len (firstn loc f)).
  { intros f Hf. rewrite <- (firstn_skipn loc f) at 1. apply slice_app_l. rewrite firstn_length. lia. }
  rewrite (E after) by lia. rewrite (E before) by lia. now rewrite H4.
Qed.

(* the model append is in the relation (witness) *)
Theorem append_simple_in_rel data footer chunks footer' f' :
  (N.of_nat (length footer) < 2 ^ 32)%N -> (N.of_nat (length footer') < 2 ^ 32)%N ->
  (length footer <= length (concat chunks) + length footer')%nat ->
  append_simple (framed data footer) chunks footer' = Some f' -> append_rel (framed data footer) f'.
Proof.
  intros Hs Hs' Hl A. rewrite (append_simple_framed data footer chunks footer' Hs Hl) in A. inversion A; subst f'.
  exists (length data), (length (data ++ concat chunks)). repeat split.
  - now apply footer_loc_framed.
  - now apply footer_loc_framed.
  - rewrite app_length. lia.
  - unfold framed. rewrite <- app_assoc. now rewrite !firstn_app_exact.
Qed.
