(* Round trip of the Thrift compact protocol spec:  rd (wr v ++ rest) = (v, rest)  for every
   well-formed value of any size and nesting (induction on the depth fuel, list/field loops by
   induction on the lists with the input itself as structural fuel). *)
From Coq Require Import NArith ZArith List Lia Bool.
From Pq Require Import Base.Bytes Proofs.BytesProofs Thrift.Varint Thrift.Compact.
Import ListNotations.
Open Scope N_scope.
Ltac Zify.zify_post_hook ::= Z.to_euclidean_division_equations.

Lemma wr_list ety l : wr (TList ety l) = list_header ety (len l) ++ wr_elems l.
Proof. reflexivity. Qed.
Lemma wr_struct fs : wr (TStruct fs) = wr_fields 0 fs.
Proof. reflexivity. Qed.
Lemma wfb_list ety l : wfb (TList ety l) = ety_ok ety && (len l <? 2 ^ 31) && wfb_elems ety l.
Proof. reflexivity. Qed.
Lemma wfb_struct fs : wfb (TStruct fs) = wfb_fields fs.
Proof. reflexivity. Qed.
Lemma depth_list ety l : depth (TList ety l) = S (depth_elems l).
Proof. reflexivity. Qed.
Lemma depth_struct fs : depth (TStruct fs) = S (depth_fields fs).
Proof. reflexivity. Qed.

(* ---- take ---------------------------------------------------------------------------------- *)
Lemma take_rev_0 bs acc : take_rev bs 0 acc = Some (acc, bs).
Proof. destruct bs; reflexivity. Qed.

Lemma take_rev_app : forall d r acc, take_rev (d ++ r) (len d) acc = Some (rev d ++ acc, r).
Proof.
  induction d as [|a d IH]; intros r acc.
  - cbn [app len length N.of_nat rev]. apply take_rev_0.
  - cbn [app]. unfold len. cbn [length take_rev].
    destruct (N.eqb_spec (N.of_nat (S (length d))) 0) as [E|E]; [lia|].
    replace (N.pred (N.of_nat (S (length d)))) with (len d) by (unfold len; lia).
    rewrite IH. cbn [rev]. rewrite <- app_assoc. reflexivity.
Qed.

Lemma take_app d r : take (len d) (d ++ r) = Some (d, r).
Proof.
  unfold take. rewrite take_rev_app. rewrite app_nil_r, rev_append_rev, app_nil_r, rev_involutive.
  reflexivity.
Qed.

(* ---- small facts --------------------------------------------------------------------------- *)
Lemma nib_range v : 1 <= nib v /\ nib v <= 12.
Proof. destruct v as [[]| | | | | | | |]; cbn; lia. Qed.

Lemma field_header_nonempty last id ty : (1 <= length (field_header last id ty))%nat.
Proof. unfold field_header. destruct (_ && _); cbn [length]; lia. Qed.

Lemma wr_fields_len : forall fs last, (length fs + 1 <= length (wr_fields last fs))%nat.
Proof.
  induction fs as [|[id x] fs IH]; intros last; cbn [wr_fields length].
  - lia.
  - fold wr_fields. rewrite !app_length. pose proof (field_header_nonempty last id (nib x)).
    specialize (IH id). lia.
Qed.

Lemma list_header_nonempty ety n : (1 <= length (list_header ety n))%nat.
Proof. unfold list_header. destruct (n <? 15); cbn [length]; lia. Qed.

Lemma wr_elem_nonempty x : (1 <= length (wr_elem x))%nat.
Proof.
  destruct x as [b|z|z|z|z|b|l|ety l|fs]; cbn [wr_elem wr length]; try lia;
    try apply uleb_nonempty.
  - rewrite le_enc_length. lia.
  - rewrite app_length. pose proof (uleb_nonempty (len l)). lia.
  - fold wr_elems. rewrite app_length. pose proof (list_header_nonempty ety (len l)). lia.
  - fold wr_fields. pose proof (wr_fields_len fs 0). lia.
Qed.

Lemma wr_elems_len : forall l, (length l <= length (wr_elems l))%nat.
Proof.
  induction l as [|x l IH]; cbn [wr_elems length]; [lia|]. fold wr_elems.
  rewrite app_length. pose proof (wr_elem_nonempty x). lia.
Qed.

Lemma i8_roundtrip z : in_range 8 z = true -> (i8_byte z <? 256) = true /\ byte_i8 (i8_byte z) = z.
Proof.
  unfold in_range, i8_byte, byte_i8. change (2 ^ (8 - 1))%Z with 128%Z. intros H.
  apply andb_true_iff in H. destruct H as [H1 H2].
  apply Z.leb_le in H1. apply Z.ltb_lt in H2.
  split.
  - apply N.ltb_lt. lia.
  - destruct (N.ltb_spec (Z.to_N (z mod 256)) 128); lia.
Qed.

Lemma in_range_64 w z : (0 < w <= 64)%Z -> in_range w z = true -> (- 2 ^ 63 <= z < 2 ^ 63)%Z.
Proof.
  unfold in_range. intros Hw H. apply andb_true_iff in H. destruct H as [H1 H2].
  apply Z.leb_le in H1. apply Z.ltb_lt in H2.
  assert (2 ^ (w - 1) <= 2 ^ 63)%Z by (apply Z.pow_le_mono_r; lia).
  lia.
Qed.

Lemma rd_int_ok w mk z r : (0 < w <= 64)%Z -> in_range w z = true ->
  rd_int w mk (uleb (zz z) ++ r) = Some (mk z, r).
Proof.
  intros Hw H. unfold rd_int.
  rewrite unuleb_uleb by (apply zz_lt64; eapply in_range_64; eauto).
  cbv zeta. rewrite unzz_zz, H. reflexivity.
Qed.

(* ---- the two loops ------------------------------------------------------------------------- *)
Lemma rd_elems_ok rdx : forall l fuel r, (length l <= length fuel)%nat ->
  Forall (fun x => forall r, rdx (wr_elem x ++ r) = Some (x, r)) l ->
  rd_elems_with rdx fuel (len l) (wr_elems l ++ r) = Some (l, r).
Proof.
  induction l as [|x l IH]; intros fuel r Hf Hall.
  - destruct fuel; reflexivity.
  - destruct fuel as [|f0 fuel]; [cbn [length] in Hf; lia|].
    unfold len. cbn [length rd_elems_with].
    destruct (N.eqb_spec (N.of_nat (S (length l))) 0) as [E|E]; [lia|].
    replace (N.pred (N.of_nat (S (length l)))) with (len l) by (unfold len; lia).
    cbn [wr_elems]. fold wr_elems. rewrite <- app_assoc.
    inversion Hall as [|x' l' Hx Hl]; subst.
    rewrite Hx. rewrite IH; [reflexivity| cbn [length] in Hf; lia | exact Hl].
Qed.

Lemma hdr_split d nb : 0 < d -> d < 16 -> nb < 16 ->
  (d * 16 + nb) / 16 = d /\ (d * 16 + nb) mod 16 = nb /\ (d * 16 + nb =? 0) = false.
Proof. intros. repeat split; try lia. apply N.eqb_neq. lia. Qed.

Lemma rd_field_header rest last id ty : 1 <= ty -> ty <= 12 -> id < 2 ^ 15 ->
  exists h r1, field_header last id ty ++ rest = h :: r1 /\ (h =? 0) = false /\ h mod 16 = ty /\
               rd_field_id last (h / 16) r1 = Some (id, rest).
Proof.
  intros Ht1 Ht2 Hid. change (2 ^ 15) with 32768 in Hid. unfold field_header.
  destruct (N.ltb_spec last id) as [Hl|Hl]; cbn [andb].
  - destruct (N.ltb_spec (id - last) 16) as [Hd|Hd].
    + exists ((id - last) * 16 + ty), rest.
      destruct (hdr_split (id - last) ty) as (H1 & H2 & H3); try lia.
      repeat split; try assumption. rewrite H1. unfold rd_field_id.
      destruct (N.eqb_spec (id - last) 0); [lia|]. f_equal. f_equal. lia.
    + exists ty, (uleb (zz (Z.of_N id)) ++ rest). cbn [app].
      repeat split.
      * apply N.eqb_neq. lia.
      * apply N.mod_small. lia.
      * rewrite N.div_small by lia. unfold rd_field_id. cbn [N.eqb].
        rewrite unuleb_uleb by (apply zz_lt64; lia). cbv zeta. rewrite unzz_zz.
        change (2 ^ 15)%Z with 32768%Z.
        destruct (Z.leb_spec 0 (Z.of_N id)); [|lia].
        destruct (Z.ltb_spec (Z.of_N id) 32768); [|lia].
        cbn [andb]. rewrite N2Z.id. reflexivity.
  - exists ty, (uleb (zz (Z.of_N id)) ++ rest). cbn [app].
    repeat split.
    * apply N.eqb_neq. lia.
    * apply N.mod_small. lia.
    * rewrite N.div_small by lia. unfold rd_field_id. cbn [N.eqb].
      rewrite unuleb_uleb by (apply zz_lt64; lia). cbv zeta. rewrite unzz_zz.
      change (2 ^ 15)%Z with 32768%Z.
      destruct (Z.leb_spec 0 (Z.of_N id)); [|lia].
      destruct (Z.ltb_spec (Z.of_N id) 32768); [|lia].
      cbn [andb]. rewrite N2Z.id. reflexivity.
Qed.

Lemma rd_fields_ok rdt : forall fs fuel last r, (length fs < length fuel)%nat ->
  Forall (fun f => fst f < 2 ^ 15 /\ forall r, rdt (nib (snd f)) (wr (snd f) ++ r) = Some (snd f, r)) fs ->
  rd_fields_with rdt fuel last (wr_fields last fs ++ r) = Some (fs, r).
Proof.
  induction fs as [|[id x] fs IH]; intros fuel last r Hf Hall.
  - destruct fuel as [|f0 fuel]; [cbn [length] in Hf; lia|]. reflexivity.
  - destruct fuel as [|f0 fuel]; [cbn [length] in Hf; lia|].
    cbn [wr_fields]. fold wr_fields. rewrite <- !app_assoc.
    inversion Hall as [|f' l' Hx Hl]; subst. cbn [fst snd] in Hx. destruct Hx as [Hid Hx].
    destruct (nib_range x) as [Hn1 Hn2].
    destruct (rd_field_header (wr x ++ wr_fields id fs ++ r) last id (nib x) Hn1 Hn2 Hid)
      as (h & r1 & E & Hz & Hm & Hrd).
    rewrite E. cbn [rd_fields_with]. rewrite Hz, Hrd, Hm, Hx.
    rewrite IH; [reflexivity| cbn [length] in Hf; lia | exact Hl].
Qed.

(* ---- main theorem -------------------------------------------------------------------------- *)
Lemma list_hdr_short ety n : n < 15 -> ety < 16 ->
  (n * 16 + ety) mod 16 = ety /\ (n * 16 + ety) / 16 = n /\ ((n * 16 + ety) / 16 =? 15) = false.
Proof. intros. assert ((n * 16 + ety) / 16 = n) by lia. repeat split; try lia. apply N.eqb_neq. lia. Qed.

Lemma list_hdr_long ety : ety < 16 -> (240 + ety) mod 16 = ety /\ ((240 + ety) / 16 =? 15) = true.
Proof. intros. split; [lia|]. apply N.eqb_eq. lia. Qed.

Lemma ety_ok_lt ety : ety_ok ety = true -> 1 <= ety /\ ety <= 12.
Proof.
  unfold ety_ok. intros H.
  apply andb_true_iff in H; destruct H as [H _].
  apply andb_true_iff in H; destruct H as [H _].
  apply andb_true_iff in H; destruct H as [Ha Hb].
  apply N.leb_le in Ha. apply N.leb_le in Hb. lia.
Qed.

Definition rd_elem (lx : bool) (d : nat) (ety : N) : bytes -> option (tv * bytes) :=
  if (ety =? 1) || (ety =? 2) then rd_bool_elem else rd lx d ety.

Lemma elems_forall lx d ety :
  (forall v r, (depth v <= d)%nat -> wfb v = true -> rd lx d (nib v) (wr v ++ r) = Some (v, r)) ->
  forall l, (depth_elems l <= d)%nat -> wfb_elems ety l = true ->
  Forall (fun x => forall r, rd_elem lx d ety (wr_elem x ++ r) = Some (x, r)) l.
Proof.
  intros IH. induction l as [|x l IHl]; intros Hd Hw; constructor.
  - cbn [depth_elems] in Hd. fold depth_elems in Hd. cbn [wfb_elems] in Hw. fold (wfb_elems ety) in Hw.
    apply andb_true_iff in Hw. destruct Hw as [Hw _]. apply andb_true_iff in Hw. destruct Hw as [He Hx].
    intros r. unfold rd_elem.
    destruct x as [b|z|z|z|z|b|s|e2 l2|fs];
      try (cbn [elem_ok] in He; apply N.eqb_eq in He; rewrite <- He;
           cbn [nib N.eqb Pos.eqb orb wr_elem];
           match goal with |- rd _ _ _ (wr ?v ++ _) = _ => apply (IH v r); [lia|exact Hx] end).
    cbn [elem_ok] in He. rewrite He. destruct b; reflexivity.
  - apply IHl.
    + cbn [depth_elems] in Hd. fold depth_elems in Hd. lia.
    + cbn [wfb_elems] in Hw. fold (wfb_elems ety) in Hw. apply andb_true_iff in Hw. tauto.
Qed.

Lemma fields_forall lx d :
  (forall v r, (depth v <= d)%nat -> wfb v = true -> rd lx d (nib v) (wr v ++ r) = Some (v, r)) ->
  forall fs, (depth_fields fs <= d)%nat -> wfb_fields fs = true ->
  Forall (fun f => fst f < 2 ^ 15 /\ forall r, rd lx d (nib (snd f)) (wr (snd f) ++ r) = Some (snd f, r)) fs.
Proof.
  intros IH. induction fs as [|[id x] fs IHf]; intros Hd Hw; constructor.
  - cbn [depth_fields] in Hd. fold depth_fields in Hd. cbn [wfb_fields] in Hw. fold wfb_fields in Hw.
    apply andb_true_iff in Hw. destruct Hw as [Hw _]. apply andb_true_iff in Hw. destruct Hw as [Hid Hx].
    cbn [fst snd]. split; [apply N.ltb_lt; exact Hid|]. intros r. apply IH; [lia|exact Hx].
  - apply IHf.
    + cbn [depth_fields] in Hd. fold depth_fields in Hd. lia.
    + cbn [wfb_fields] in Hw. fold wfb_fields in Hw. apply andb_true_iff in Hw. tauto.
Qed.

Ltac red_rd := cbn [rd nib N.eqb Pos.eqb].

Theorem rd_wr lx : forall d v r, (depth v <= d)%nat -> wfb v = true ->
  rd lx d (nib v) (wr v ++ r) = Some (v, r).
Proof.
  induction d as [|d IH]; intros v r Hd Hw.
  - exfalso. destruct v; cbn [depth] in Hd; lia.
  - destruct v as [b|z|z|z|z|b|s|ety l|fs].
    + destruct b; reflexivity.
    + red_rd. cbn [wr app]. cbn [wfb] in Hw. destruct (i8_roundtrip z Hw) as [H1 H2].
      rewrite H1, H2. reflexivity.
    + red_rd. cbn [wr]. apply rd_int_ok; [lia|exact Hw].
    + red_rd. cbn [wr]. apply rd_int_ok; [lia|exact Hw].
    + red_rd. cbn [wr]. apply rd_int_ok; [lia|exact Hw].
    + red_rd. cbn [wr]. cbn [wfb] in Hw. apply N.ltb_lt in Hw.
      rewrite le_dec_enc; [reflexivity|]. exact Hw.
    + red_rd. cbn [wr]. cbn [wfb] in Hw. rewrite <- app_assoc.
      assert (Hl : len s < 2 ^ 64) by (apply N.ltb_lt in Hw; eapply N.lt_trans; [exact Hw|reflexivity]).
      rewrite unuleb_uleb by exact Hl. rewrite Hw, take_app. reflexivity.
    + rewrite wr_list. rewrite wfb_list in Hw. rewrite depth_list in Hd.
      apply andb_true_iff in Hw. destruct Hw as [Hw Hall]. apply andb_true_iff in Hw. destruct Hw as [He Hn].
      destruct (ety_ok_lt ety He) as [He1 He2].
      assert (HF := elems_forall lx d ety IH l ltac:(lia) Hall).
      assert (Hlen : forall rest, (length l <= length (wr_elems l ++ rest))%nat)
        by (intros; rewrite app_length; pose proof (wr_elems_len l); lia).
      red_rd. unfold list_header. destruct (N.ltb_spec (len l) 15) as [Hs|Hs].
      * cbn [app]. destruct (list_hdr_short ety (len l)) as (H1 & H2 & H3); [lia|lia|].
        rewrite H1, H3, H2, He. cbn [orb]. rewrite Hn.
        fold (rd_elem lx d ety). rewrite rd_elems_ok; [reflexivity|apply Hlen|exact HF].
      * cbn [app]. destruct (list_hdr_long ety) as (H1 & H2); [lia|].
        rewrite H1, H2, He. cbn [orb]. rewrite <- app_assoc.
        assert (Hl : len l < 2 ^ 64) by (apply N.ltb_lt in Hn; eapply N.lt_trans; [exact Hn|reflexivity]).
        rewrite unuleb_uleb by exact Hl. rewrite Hn.
        fold (rd_elem lx d ety). rewrite rd_elems_ok; [reflexivity|apply Hlen|exact HF].
    + rewrite wr_struct. rewrite wfb_struct in Hw. rewrite depth_struct in Hd.
      red_rd.
      rewrite rd_fields_ok; [reflexivity| |].
      * rewrite app_length. pose proof (wr_fields_len fs 0). lia.
      * apply fields_forall; [exact IH|lia|exact Hw].
Qed.

(* top level: a message (struct) of nesting depth up to 64 *)
Theorem compact_roundtrip_top lx v bs rest :
  (depth v <= max_depth)%nat -> thrift_enc v = Some bs ->
  thrift_dec_ty lx (nib v) (bs ++ rest) = Some (v, rest).
Proof.
  unfold thrift_enc, thrift_dec_ty. intros Hd H. destruct (wfb v) eqn:Hw; [|discriminate].
  injection H as <-. apply rd_wr; assumption.
Qed.
