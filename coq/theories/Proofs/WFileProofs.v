(* C02, file level for the writer model (Impl/WFile.v): the specification's scanner / decoder / validator on the WHOLE file
   write_simple produces from its bookkeeping, every page kind. *)
From Coq Require Import String.
From Coq Require Import NArith ZArith Arith List Lia Bool.
From Pq Require Import Base.Bytes Base.Bits Base.ListX Proofs.BytesProofs Proofs.ListXProofs Proofs.CodecProofs
  Proofs.CompactProofs Codec.Varint Codec.Bitpack Codec.Hybrid Thrift.Compact Thrift.Idl Thrift.IdlPinned
  Format.Phys Format.Meta Format.Page Format.ChunkLayout Format.File Format.Enc Impl.WLevels Impl.WChunk Impl.WFile.
From Pq Require Import Proofs.HybridProofs Proofs.FormatCodecProofs Proofs.FormatPageProofs Proofs.FormatChunkProofs
  Proofs.ChunkLayoutProofs Proofs.FormatMetaProofs Proofs.FormatIdlProofs Proofs.FormatFileProofs Proofs.WChunkProofs Proofs.WSpecPageProofs.
Import ListNotations.
Open Scope N_scope.
Open Scope list_scope.

Section WithCodecs.
Variable compress : Z -> bytes -> bytes.
Variable decompress : Z -> N -> bytes -> option bytes.
Hypothesis codec_rt : forall codec b, decompress codec (lenN b) (compress codec b) = Some b.

Lemma wsummaries_eq c : wsummaries compress c = w_chunk_summaries compress c.
Proof. reflexivity. Qed.
Lemma wnulls_eq c : wnulls c = w_chunk_nulls c.
Proof. reflexivity. Qed.

(* ---- facts about the pages of a chunk and its bookkeeping ---- *)
Definition wchunk_ok1 (c : wchunk) : Prop := wchunk_ok compress c /\ wc_pages c <> [].

Lemma summaries_shape c : wchunk_ok1 c ->
  let ps := wsummaries compress c in
  ps <> [] /\ forallb is_data (tl ps) = true /\
  (is_data (hd {| p_kind := PData1; p_hdr := 1; p_comp := 0; p_uncomp := 0; p_nvals := 0; p_enc := 0 |}%Z ps) = false -> tl ps <> []) /\
  forallb sane ps = true /\ forallb (fun p => existsb (Z.eqb (p_enc p)) (w_encs c)) ps = true.
Proof.
  intros [WOK NE]. cbn zeta. unfold wsummaries.
  assert (DS : forallb is_data (map (fun p => wsum (w_data_page compress c p)) (wc_pages c)) = true).
  { apply forallb_forall. intros x Hx. apply in_map_iff in Hx. destruct Hx as (p & <- & _). apply (w_data_summary_is_data compress). }
  assert (SS : forallb sane (map (fun p => wsum (w_data_page compress c p)) (wc_pages c)) = true).
  { apply forallb_forall. intros x Hx. apply in_map_iff in Hx. destruct Hx as (p & <- & _). apply (w_data_summary_sane compress). }
  assert (MN : map (fun p => wsum (w_data_page compress c p)) (wc_pages c) <> []).
  { destruct (wc_pages c); [contradiction|discriminate]. }
  assert (EN : forallb (fun p => existsb (Z.eqb (p_enc p)) (w_encs c)) (map (fun p => wsum (w_data_page compress c p)) (wc_pages c)) = true).
  { apply forallb_forall. intros x Hx. apply in_map_iff in Hx. destruct Hx as (p & <- & Hp).
    destruct WOK as (W & _). rewrite Forall_forall in W. specialize (W p Hp). destruct W as (_ & _ & _ & OKp).
    unfold wsum, w_data_page, w_encs. destruct (wc_v2 c); cbn [fst ph_body penc_of p_enc d2_enc d_enc];
      destruct p; cbn [w_enc]; destruct (wc_labels c); try reflexivity; destruct OKp as (_ & _ & LB); now contradiction LB. }
  destruct (wc_labels c) as [labels|] eqn:LBL; cbn [app hd tl forallb].
  - repeat split; [discriminate|exact DS|intros _; exact MN| |].
    + rewrite (w_dict_summary_sane compress). exact SS.
    + unfold w_encs in *. rewrite LBL in *. rewrite EN. reflexivity.
  - repeat split; [exact MN| | |exact SS|exact EN].
    + destruct (map _ (wc_pages c)) as [|y ys]; [reflexivity|]. cbn [forallb tl] in *. apply andb_true_iff in DS. tauto.
    + destruct (map _ (wc_pages c)) as [|y ys]; [contradiction|]. cbn [hd forallb] in *. apply andb_true_iff in DS. destruct DS as [D _].
      intro H. rewrite D in H. discriminate.
Qed.

(* the bytes of the chunk are the pages' disk sizes; the bookkeeping's start and total size *)
Lemma disk_size_page hp : (exists a, ph_csize (fst hp) = Z.of_N a /\ a = lenN (snd hp)) ->
  disk_size (wsum hp) = Z.of_N (lenN (w_page_bytes hp)).
Proof.
  intros (a & CA & ->). unfold disk_size, wsum, w_page_bytes. cbn [p_hdr p_comp]. rewrite lenN_app, N2Z.inj_add. f_equal. exact CA.
Qed.

Lemma chunk_disk_size c : sumZ (map disk_size (wsummaries compress c)) = Z.of_N (lenN (w_chunk compress c)).
Proof.
  unfold wsummaries, w_chunk. rewrite map_app, sumZ_app, lenN_app, N2Z.inj_add. f_equal.
  - destruct (wc_labels c); [|reflexivity]. cbn [map sumZ]. rewrite disk_size_page; [lia|].
    eexists. split; reflexivity.
  - induction (wc_pages c) as [|p r IH]; [reflexivity|]. cbn [map sumZ concat]. rewrite lenN_app, N2Z.inj_add, IH. f_equal.
    apply disk_size_page. eexists. split; [apply (w_data_csize compress)|reflexivity].
Qed.

Lemma bookkeeping_place c start : wchunk_ok1 c ->
  let bk := wr_bookkeeping (Z.of_N start) (sumZ (map p_nvals (filter is_data (wsummaries compress c)))) (w_encs c) (wsummaries compress c) in
  c_total_comp bk = Z.of_N (lenN (w_chunk compress c)) /\
  (exists d, c_data_page_offset bk = Z.of_N d /\ start <= d /\
             (c_dict_page_offset bk = None /\ d = start \/ c_dict_page_offset bk = Some (Z.of_N start))).
Proof.
  intros OK1. destruct (summaries_shape c OK1) as (NE & TL & HD & SANE & ENC). cbn zeta.
  pose proof (wr_bookkeeping_ok (Z.of_N start) (w_encs c) (wsummaries compress c) NE TL HD SANE ENC) as CK.
  destruct (check_chunk_sound _ _ CK) as (S1 & _).
  split; [rewrite <- chunk_disk_size; lia|].
  unfold wr_bookkeeping. cbn [c_data_page_offset c_dict_page_offset].
  destruct (wsummaries compress c) as [|p0 rest] eqn:PS; [congruence|]. cbn [tl hd fold_left] in *.
  set (s0 := {| w_pos := Z.of_N start; w_diff := 0; w_dict := None; w_data := Z.of_N start |}).
  destruct (fold_data_pages (Z.of_N start) rest (w_step (Z.of_N start) s0 p0) TL) as (_ & _ & I3 & I4). cbn zeta in I3, I4.
  rewrite I3, I4. unfold w_step, s0.
  assert (S0 : (0 < p_hdr p0 /\ 0 <= p_comp p0)%Z).
  { cbn [forallb] in SANE. apply andb_true_iff in SANE. destruct SANE as [H0 _]. unfold sane in H0.
    repeat (apply andb_true_iff in H0; destruct H0 as [H0 ?]). lia. }
  destruct (p_kind p0); cbn [w_dict w_data w_pos].
  - exists (start + Z.to_N (disk_size p0)). unfold disk_size. split; [rewrite N2Z.inj_add, Z2N.id by lia; reflexivity|]. split; [lia|]. right. reflexivity.
  - exists start. split; [reflexivity|]. split; [lia|]. left. split; reflexivity.
  - exists start. split; [reflexivity|]. split; [lia|]. left. split; reflexivity.
Qed.

(* ---- one chunk inside a file ---- *)
Definition w_chunk_out (l : lleaf) (start : N) (c : wchunk) : chunk_res :=
  CHere {| co_meta := w_cmd compress l start c; co_pages := wsummaries compress c;
           co_cells := match w_chunk_cells c with Some x => x | None => [] end; co_nulls := wnulls c |}.

Definition wcol_ok (l : lleaf) (c : wchunk) : Prop :=
  wchunk_ok1 c /\ cd_of c = desc_of l /\ exists cells, w_chunk_cells c = Some cells.

Theorem scan_chunk_wfile file fstart l start c :
  wcol_ok l c -> 4 <= start -> start + lenN (w_chunk compress c) <= fstart ->
  placed file start (w_chunk compress c) ->
  scan_chunk decompress false file fstart (leaf_of_l l)
             {| cc_path := None; cc_off := Z.of_N start; cc_meta := Some (w_cmd compress l start c) |}
  = ROk (w_chunk_out l start c).
Proof.
  intros (OK1 & CD & cells & CC) S4 SF PL.
  pose proof (placed_slice _ _ _ PL) as SL.
  destruct (bookkeeping_place c start OK1) as (TCS & d & DO & DGE & DI). cbn zeta in TCS, DO, DI.
  unfold scan_chunk. cbn [cc_path cc_meta]. unfold w_cmd at 1 2 3 4 5 6.
  cbn [cm_path cm_type cm_data_off cm_dict_off cm_tcs cm_codec lf_name lf_desc leaf_of_l].
  rewrite FormatFileProofs.bytes_eqb_refl. cbn [guard rbind]. rewrite Z.eqb_refl. cbn [guard rbind].
  rewrite DO, z2n_of_N. cbn [rbind].
  destruct (c_dict_page_offset _) as [z|] eqn:DZ.
  - destruct DI as [[X _]|X]; [discriminate|]. injection X as ->. rewrite z2n_of_N. cbn [rbind].
    replace (N.min d start) with start by lia.
    rewrite TCS, z2n_of_N. cbn [rbind].
    destruct (N.leb_spec 4 start) as [_|L]; [|lia].
    destruct (N.leb_spec (start + lenN (w_chunk compress c)) fstart) as [_|L]; [|lia]. cbn [andb guard rbind].
    rewrite SL. rewrite <- CD.
    rewrite (scan_chunk_writer compress decompress codec_rt c (w_chunk compress c) cells (proj1 OK1) CC (le_n _)).
    cbn [rbind]. unfold w_chunk_out. rewrite CC. reflexivity.
  - destruct DI as [[_ ->]|X]; [|discriminate]. cbn [rbind]. rewrite N.min_id.
    rewrite TCS, z2n_of_N. cbn [rbind].
    destruct (N.leb_spec 4 start) as [_|L]; [|lia].
    destruct (N.leb_spec (start + lenN (w_chunk compress c)) fstart) as [_|L]; [|lia]. cbn [andb guard rbind].
    rewrite SL. rewrite <- CD.
    rewrite (scan_chunk_writer compress decompress codec_rt c (w_chunk compress c) cells (proj1 OK1) CC (le_n _)).
    cbn [rbind]. unfold w_chunk_out. rewrite CC. reflexivity.
Qed.

(* ---- the chunks of a row group, the row groups of a file ---- *)
Fixpoint wcols_out (ls : list lleaf) (cs : list wchunk) (pos : N) : list chunk_res :=
  match ls, cs with
  | l :: ls', c :: cs' => w_chunk_out l pos c :: wcols_out ls' cs' (pos + lenN (w_chunk compress c))
  | _, _ => []
  end.

Lemma w_cols_pos : forall ls cs pos,
  snd (w_cols compress ls cs pos) = pos + lenN (concat (fst (fst (w_cols compress ls cs pos)))).
Proof.
  induction ls as [|l ls IH]; intros cs pos; [cbn; lia|].
  destruct cs as [|c cs]; [cbn; lia|]. cbn [w_cols].
  specialize (IH cs (pos + lenN (w_chunk compress c))).
  destruct (w_cols compress ls cs (pos + lenN (w_chunk compress c))) as [[bs ccs] pos'] eqn:ER. cbn [fst snd] in *.
  cbn [concat]. rewrite lenN_app. lia.
Qed.

Theorem scan_cols_wfile fstart : forall ls cs pos file pre post,
  length ls = length cs -> Forall2 wcol_ok ls cs ->
  file = pre ++ concat (fst (fst (w_cols compress ls cs pos))) ++ post -> lenN pre = pos -> 4 <= pos ->
  snd (w_cols compress ls cs pos) <= fstart ->
  scan_cols decompress false file fstart (map leaf_of_l ls) (snd (fst (w_cols compress ls cs pos)))
  = ROk (wcols_out ls cs pos).
Proof.
  induction ls as [|l ls IH]; intros cs pos file pre post LEN OK FILE PRE P4 PF.
  - destruct cs; [reflexivity|discriminate].
  - destruct cs as [|c cs]; [discriminate|].
    assert (OK1 : wcol_ok l c) by (inversion OK; assumption).
    assert (OKr : Forall2 wcol_ok ls cs) by (inversion OK; assumption).
    subst pos.
    pose proof (w_cols_pos (l :: ls) (c :: cs) (lenN pre)) as POS.
    cbn [w_cols] in *. set (b := w_chunk compress c) in *.
    pose proof (w_cols_pos ls cs (lenN pre + lenN b)) as POS2.
    destruct (w_cols compress ls cs (lenN pre + lenN b)) as [[bs ccs] pos'] eqn:ER. cbn [fst snd] in *.
    cbn [map scan_cols concat] in *.
    rewrite (scan_chunk_wfile file fstart l (lenN pre) c OK1 P4).
    + cbn [rbind].
      pose proof (IH cs (lenN pre + lenN b) file (pre ++ b) post) as IH'.
      rewrite ER in IH'. cbn [fst snd] in IH'. rewrite IH'.
      * cbn [rbind wcols_out]. reflexivity.
      * cbn [length] in LEN. lia.
      * exact OKr.
      * rewrite FILE, <- !app_assoc. reflexivity.
      * apply lenN_app.
      * lia.
      * exact PF.
    + fold b. rewrite lenN_app in POS. lia.
    + fold b. exists pre, (concat bs ++ post). split; [|reflexivity]. rewrite FILE, <- !app_assoc. reflexivity.
Qed.

Fixpoint wrgs_out (ls : list lleaf) (rgs : list (list wchunk)) (pos : N) : list (rgroup * list chunk_res) :=
  match rgs with
  | [] => []
  | cs :: r =>
    (hd {| rg_cols := []; rg_tbs := 0; rg_nrows := 0 |} (snd (fst (w_rgs compress ls (cs :: r) pos))), wcols_out ls cs pos)
    :: wrgs_out ls r (snd (w_cols compress ls cs pos))
  end.

Lemma w_rgs_pos ls : forall rgs pos,
  snd (w_rgs compress ls rgs pos) = pos + lenN (concat (fst (fst (w_rgs compress ls rgs pos)))).
Proof.
  induction rgs as [|cs r IH]; intros pos; [cbn; lia|]. cbn [w_rgs].
  pose proof (w_cols_pos ls cs pos) as P1.
  destruct (w_cols compress ls cs pos) as [[bs ccs] pos1] eqn:EC.
  specialize (IH pos1). destruct (w_rgs compress ls r pos1) as [[bs2 rs] pos2] eqn:ER. cbn [fst snd] in *.
  rewrite concat_app, lenN_app. lia.
Qed.

Definition wrg_ok (ls : list lleaf) (cs : list wchunk) : Prop := length ls = length cs /\ Forall2 wcol_ok ls cs.

Theorem scan_rgs_wfile fstart ls : forall rgs pos file pre post,
  Forall (wrg_ok ls) rgs ->
  file = pre ++ concat (fst (fst (w_rgs compress ls rgs pos))) ++ post -> lenN pre = pos -> 4 <= pos ->
  snd (w_rgs compress ls rgs pos) <= fstart ->
  map_rs (fun rg => let! cs := scan_cols decompress false file fstart (map leaf_of_l ls) (rg_cols rg) in ROk (rg, cs))
         (snd (fst (w_rgs compress ls rgs pos)))
  = ROk (wrgs_out ls rgs pos).
Proof.
  induction rgs as [|cs r IH]; intros pos file pre post OK FILE PRE P4 PF; [reflexivity|].
  assert (OK1 : wrg_ok ls cs) by (inversion OK; assumption).
  assert (OKr : Forall (wrg_ok ls) r) by (inversion OK; assumption).
  destruct OK1 as [LEN F2].
  cbn [wrgs_out]. cbn [w_rgs] in *.
  pose proof (w_cols_pos ls cs pos) as P1.
  pose proof (scan_cols_wfile fstart ls cs pos file pre) as SC.
  destruct (w_cols compress ls cs pos) as [[bs ccs] pos1] eqn:EC.
  pose proof (w_rgs_pos ls r pos1) as P2.
  pose proof (IH pos1 file (pre ++ concat bs) post OKr) as IH'.
  destruct (w_rgs compress ls r pos1) as [[bs2 rs] pos2] eqn:ER. cbn [fst snd] in *.
  rewrite concat_app in FILE.
  cbn [map_rs rg_cols hd].
  rewrite (SC (concat bs2 ++ post)); try assumption.
  - cbn [rbind]. rewrite IH'.
    + reflexivity.
    + rewrite FILE, <- !app_assoc. reflexivity.
    + rewrite lenN_app. lia.
    + lia.
    + exact PF.
  - rewrite FILE, <- !app_assoc. reflexivity.
  - lia.
Qed.

(* ---- footer and whole file ---- *)
Definition w_footer (f : wfile) : bytes := wr (fmd_to_tv (w_file_meta compress f)).

Definition wfooter_ok (f : wfile) : Prop :=
  wfb (fmd_to_tv (w_file_meta compress f)) = true /\ (depth (fmd_to_tv (w_file_meta compress f)) <= max_depth)%nat /\
  Forall leaf_logical_ok (wf_leaves f) /\ lenN (w_footer f) < 2 ^ 32.

Lemma w_footer_conforms f : Forall leaf_logical_ok (wf_leaves f) ->
  conforms pinned idl_opts (FStruct "FileMetaData") (fmd_to_tv (w_file_meta compress f)) = true.
Proof.
  intros H. apply conf_fmd. unfold w_file_meta. cbn [fm_schema]. constructor; [exact I|].
  apply Forall_forall. intros s Hs. apply in_map_iff in Hs. destruct Hs as (l & <- & Hl).
  rewrite Forall_forall in H. exact (H l Hl).
Qed.

Theorem parse_footer_wfile f : wfooter_ok f ->
  parse_footer (w_file compress f) = ROk (w_file_meta compress f, 4 + lenN (w_file_data compress f), lenN (w_footer f)).
Proof.
  intros (WF & DP & LG & FL). pose proof (w_footer_conforms f LG) as CF. unfold w_file, parse_footer. fold (w_footer f).
  set (D := w_file_data compress f). set (F := w_footer f). set (L := le_enc 4 (lenN F)).
  assert (LL : lenN L = 4) by (unfold L; now rewrite lenN_ok, le_enc_length).
  assert (TOT : lenN (magic ++ D ++ F ++ L ++ magic) = lenN D + lenN F + 12) by (rewrite !lenN_app, LL, magic_len; lia).
  rewrite TOT.
  destruct (N.leb_spec 12 (lenN D + lenN F + 12)) as [_|X]; [|lia]. cbn [guard rbind].
  rewrite (takeN_at magic) by reflexivity. rewrite FormatFileProofs.bytes_eqb_refl. cbn [guard rbind].
  replace (magic ++ D ++ F ++ L ++ magic) with ((magic ++ D ++ F) ++ L ++ magic) by (now rewrite <- !app_assoc).
  rewrite (dropN_at (magic ++ D ++ F)) by (rewrite !lenN_app, magic_len; lia).
  rewrite (dropN_at L) by (now rewrite LL). rewrite FormatFileProofs.bytes_eqb_refl. cbn [guard rbind].
  rewrite (takeN_at L) by (now rewrite LL).
  assert (LE : le2n_tr L = lenN F).
  { unfold L. rewrite le2n_tr_ok, le2n_le_enc. change (256 ^ N.of_nat 4) with (2 ^ 32). now rewrite N.mod_small. }
  rewrite !LE.
  destruct (N.leb_spec (lenN F + 12) (lenN D + lenN F + 12)) as [_|X]; [|lia]. cbn [guard rbind].
  replace ((magic ++ D ++ F) ++ L ++ magic) with ((magic ++ D) ++ F ++ L ++ magic) by (now rewrite <- !app_assoc).
  rewrite (dropN_at (magic ++ D)) by (rewrite lenN_app, magic_len; lia).
  rewrite (takeN_at F) by reflexivity.
  unfold F at 1, w_footer. unfold thrift_dec, thrift_dec_ty.
  pose proof (rd_wr true max_depth (fmd_to_tv (w_file_meta compress f)) [] DP WF) as R. rewrite app_nil_r in R.
  change (nib (fmd_to_tv (w_file_meta compress f))) with 12 in R. rewrite R. cbn [guard rbind].
  rewrite CF. cbn [guard rbind]. rewrite fmd_of_to.
  do 3 f_equal. lia.
Qed.

Definition wfile_wf (f : wfile) : Prop :=
  Forall leaf_wf (wf_leaves f) /\ Forall (wrg_ok (wf_leaves f)) (wf_rgs f) /\ wfooter_ok f.

Definition wfile_out (f : wfile) : file_out :=
  {| fo_len := lenN (w_file compress f); fo_fstart := 4 + lenN (w_file_data compress f); fo_flen := lenN (w_footer f);
     fo_meta := w_file_meta compress f; fo_leaves := map leaf_of_l (wf_leaves f); fo_rgs := wrgs_out (wf_leaves f) (wf_rgs f) 4 |}.

Theorem scan_file_wfile f : wfile_wf f ->
  scan_file decompress false (w_file compress f) = ROk (wfile_out f).
Proof.
  intros (LW & RW & FW). unfold scan_file. rewrite parse_footer_wfile by exact FW. cbn [rbind].
  unfold w_file_meta at 1. cbn [fm_schema]. rewrite leaves_of_schema by exact LW. cbn [rbind].
  unfold w_file_meta at 1. cbn [fm_rgs].
  pose proof (w_rgs_pos (wf_leaves f) (wf_rgs f) 4) as P.
  rewrite (scan_rgs_wfile (4 + lenN (w_file_data compress f)) (wf_leaves f) (wf_rgs f) 4
             (w_file compress f) magic (w_footer f ++ le_enc 4 (lenN (w_footer f)) ++ magic) RW).
  - reflexivity.
  - reflexivity.
  - reflexivity.
  - lia.
  - unfold w_file_data. lia.
Qed.

(* ---- decoded content ---- *)
Definition wcells (ls : list lleaf) (cs : list wchunk) : list (list (option value)) :=
  map (fun lc : lleaf * wchunk => match w_chunk_cells (snd lc) with Some x => x | None => [] end) (combine ls cs).

Lemma wcols_out_cells : forall ls cs pos, map_rs cells_here (wcols_out ls cs pos) = ROk (wcells ls cs).
Proof.
  induction ls as [|l ls IH]; intros cs pos; [reflexivity|]. destruct cs as [|c cs]; [reflexivity|].
  unfold wcells in *. cbn [wcols_out map_rs combine map w_chunk_out cells_here co_cells rbind fst snd]. rewrite IH. reflexivity.
Qed.

Lemma wrgs_out_cells ls : forall rgs pos,
  map_rs (fun rc : rgroup * list chunk_res => map_rs cells_here (snd rc)) (wrgs_out ls rgs pos) = ROk (map (wcells ls) rgs).
Proof.
  induction rgs as [|cs r IH]; intros pos; [reflexivity|].
  cbn [wrgs_out map_rs map snd]. rewrite wcols_out_cells. cbn [rbind]. rewrite IH. reflexivity.
Qed.

(* THE FILE decodes to the columns that were written *)
Theorem dec_file_wfile f : wfile_wf f ->
  dec_file decompress false (w_file compress f) = ROk (map leaf_of_l (wf_leaves f), map (wcells (wf_leaves f)) (wf_rgs f)).
Proof.
  intros W. unfold dec_file. rewrite scan_file_wfile by exact W. cbn [rbind wfile_out fo_rgs fo_leaves].
  rewrite wrgs_out_cells. reflexivity.
Qed.

(* ---- validity ---- *)
Lemma data_nvals c : sumZ (map p_nvals (filter is_data (wsummaries compress c))) = Z.of_N (w_chunk_rows c).
Proof.
  unfold wsummaries, w_chunk_rows. rewrite filter_app, map_app, sumZ_app.
  assert (D : sumZ (map p_nvals (filter is_data match wc_labels c with Some labels => [wsum (w_dict_page compress c labels)] | None => [] end)) = 0%Z)
    by (destruct (wc_labels c); reflexivity).
  rewrite D. cbn [Z.add].
  induction (wc_pages c) as [|p r IH]; [reflexivity|].
  cbn [map filter]. rewrite (w_data_summary_is_data compress). cbn [map sumZ]. rewrite IH, sumN_cons, N2Z.inj_add. f_equal.
  unfold wsum, w_data_page. destruct (wc_v2 c); reflexivity.
Qed.

Theorem valid_chunk_wfile l start c rg :
  wcol_ok l c -> rg_nrows rg = Z.of_N (w_chunk_rows c) ->
  valid_chunk rg (w_chunk_out l start c) = ROk tt.
Proof.
  intros (OK1 & _ & _) NR. destruct (summaries_shape c OK1) as (NE & TL & HD & SANE & ENC).
  unfold w_chunk_out.
  apply (fp_write_chunk_valid (Z.of_N start) (w_encs c) (wsummaries compress c) (w_cmd compress l start c)); try assumption.
  - reflexivity.
  - unfold w_cmd. cbn [cm_nvals]. unfold wr_bookkeeping. cbn [c_num_values]. rewrite data_nvals. symmetry. exact NR.
  - right. reflexivity.
Qed.

Definition wrg_rows_ok (cs : list wchunk) : Prop := Forall (fun c => w_chunk_rows c = w_rg_rows cs) cs.

Lemma valid_wcols rg : forall ls cs pos,
  Forall2 wcol_ok ls cs -> Forall (fun c => rg_nrows rg = Z.of_N (w_chunk_rows c)) cs ->
  map_rs (valid_chunk rg) (wcols_out ls cs pos) = ROk (map (fun _ => tt) (wcols_out ls cs pos)).
Proof.
  induction ls as [|l ls IH]; intros cs pos OK ST; [reflexivity|]. destruct cs as [|c cs]; [reflexivity|].
  assert (OK1 : wcol_ok l c) by (inversion OK; assumption).
  assert (OKr : Forall2 wcol_ok ls cs) by (inversion OK; assumption).
  assert (ST1 : rg_nrows rg = Z.of_N (w_chunk_rows c)) by (inversion ST; assumption).
  assert (STr : Forall (fun c => rg_nrows rg = Z.of_N (w_chunk_rows c)) cs) by (inversion ST; assumption).
  cbn [wcols_out map_rs map]. rewrite (valid_chunk_wfile l pos c rg OK1 ST1). cbn [rbind].
  rewrite (IH cs _ OKr STr). reflexivity.
Qed.

Lemma wcols_out_tus : forall ls cs pos, length ls = length cs ->
  map (fun c => match cc_meta c with Some m => cm_tus m | None => 0%Z end) (snd (fst (w_cols compress ls cs pos)))
  = map tus_of (wcols_out ls cs pos).
Proof.
  induction ls as [|l ls IH]; intros cs pos LEN; destruct cs as [|c cs]; try discriminate; [reflexivity|].
  cbn [w_cols wcols_out].
  specialize (IH cs (pos + lenN (w_chunk compress c))).
  destruct (w_cols compress ls cs (pos + lenN (w_chunk compress c))) as [[bs ccs] pos'] eqn:ER. cbn [fst snd map] in *.
  rewrite <- IH by (cbn [length] in LEN; lia). reflexivity.
Qed.

Lemma all_here_wcols : forall ls cs pos, all_here (wcols_out ls cs pos) = true.
Proof. induction ls as [|l ls IH]; intros cs pos; [reflexivity|]. destruct cs; [reflexivity|]. cbn [wcols_out all_here forallb w_chunk_out]. apply IH. Qed.

Lemma w_rgs_cons ls cs r pos :
  snd (fst (w_rgs compress ls (cs :: r) pos))
  = {| rg_cols := snd (fst (w_cols compress ls cs pos));
       rg_tbs := sumZ (map (fun c => match cc_meta c with Some m => cm_tus m | None => 0%Z end) (snd (fst (w_cols compress ls cs pos))));
       rg_nrows := Z.of_N (w_rg_rows cs) |} :: snd (fst (w_rgs compress ls r (snd (w_cols compress ls cs pos)))).
Proof.
  cbn [w_rgs]. destruct (w_cols compress ls cs pos) as [[bs ccs] pos1]. cbn [fst snd].
  destruct (w_rgs compress ls r pos1) as [[bs2 rs] pos2]. reflexivity.
Qed.

Lemma wrgs_out_fst ls : forall rgs pos, map fst (wrgs_out ls rgs pos) = snd (fst (w_rgs compress ls rgs pos)).
Proof.
  induction rgs as [|cs r IH]; intros pos; [reflexivity|].
  cbn [wrgs_out map fst]. rewrite IH, w_rgs_cons. reflexivity.
Qed.

Theorem valid_wrgs ls : forall rgs pos,
  Forall (wrg_ok ls) rgs -> Forall wrg_rows_ok rgs ->
  map_rs valid_rg (wrgs_out ls rgs pos) = ROk (map (fun _ => tt) (wrgs_out ls rgs pos)).
Proof.
  induction rgs as [|cs r IH]; intros pos OK ST; [reflexivity|].
  assert (OK1 : wrg_ok ls cs) by (inversion OK; assumption).
  assert (OKr : Forall (wrg_ok ls) r) by (inversion OK; assumption).
  assert (ST1 : wrg_rows_ok cs) by (inversion ST; assumption).
  assert (STr : Forall wrg_rows_ok r) by (inversion ST; assumption).
  destruct OK1 as [LEN F2].
  cbn [wrgs_out map_rs map]. rewrite w_rgs_cons. cbn [hd].
  unfold valid_rg at 1.
  rewrite (valid_wcols _ ls cs pos F2).
  - cbn [rbind rg_tbs rg_nrows]. rewrite all_here_wcols. cbn [negb orb].
    rewrite wcols_out_tus by exact LEN. rewrite Z.eqb_refl. cbn [guard rbind].
    assert (NN : (0 <=? Z.of_N (w_rg_rows cs))%Z = true) by (apply Z.leb_le; lia).
    rewrite NN. cbn [guard rbind]. rewrite (IH _ OKr STr). reflexivity.
  - cbn [rg_nrows]. unfold wrg_rows_ok in ST1. eapply Forall_impl; [|exact ST1]. cbn beta. intros a Ha. now rewrite Ha.
Qed.

(* THE FILE is valid *)
Theorem valid_file_wfile f : wfile_wf f -> Forall wrg_rows_ok (wf_rgs f) ->
  valid_file decompress false (w_file compress f) = ROk tt.
Proof.
  intros W ST. unfold valid_file. rewrite scan_file_wfile by exact W. cbn [rbind].
  destruct W as (LW & RW & FW).
  unfold valid_out, wfile_out. cbn [fo_rgs fo_meta].
  rewrite (valid_wrgs _ _ 4 RW ST). cbn [rbind].
  unfold w_file_meta. cbn [fm_nrows].
  destruct (wrgs_out (wf_leaves f) (wf_rgs f) 4) as [|x xs] eqn:E; [reflexivity|].
  rewrite <- E. rewrite <- (map_map fst rg_nrows), wrgs_out_fst, Z.eqb_refl. reflexivity.
Qed.

End WithCodecs.
