(* Facts about the PyVal prelude on lists of str: the counterpart of PyValProofs.v for the
   lexicographic order of strings (decided by the stdlib `order` tactic instead of lia). *)
From Coq Require Import ZArith List String Bool Lia OrderedTypeEx OrdersAlt OrdersTac Orders.
From Pq Require Import Base.PyVal Impl.Filter.
Import ListNotations.

Module SNew := Update_OT String_as_OT.
Module SOrd := OT_to_OrderTac SNew.
Notation slt := String_as_OT.lts.
Ltac sord := SOrd.order.

Lemma str_ltb_spec s t : BoolSpec (slt s t) (~ slt s t) (str_ltb s t).
Proof.
  unfold str_ltb. destruct (String.compare s t) eqn:E; constructor.
  - apply String_as_OT.cmp_eq in E. subst. intros H. sord.
  - apply String_as_OT.cmp_lt. exact E.
  - intros H. apply String_as_OT.cmp_lt in H. unfold String_as_OT.cmp in H. congruence.
Qed.
Lemma str_leb_spec s t : BoolSpec (~ slt t s) (slt t s) (str_leb s t).
Proof.
  unfold str_leb. destruct (String.compare s t) eqn:E; constructor.
  - apply String_as_OT.cmp_eq in E. subst. intros H. sord.
  - apply String_as_OT.cmp_lt in E. intros H. sord.
  - apply String_as_OT.cmp_lt. unfold String_as_OT.cmp. rewrite String_as_OT.cmp_antisym. unfold String_as_OT.cmp. rewrite E. reflexivity.
Qed.
Lemma str_gtb_spec s t : BoolSpec (slt t s) (~ slt t s) (str_gtb s t).
Proof. unfold str_gtb. apply str_ltb_spec. Qed.
Lemma str_geb_spec s t : BoolSpec (~ slt s t) (slt s t) (str_geb s t).
Proof. unfold str_geb. apply str_leb_spec. Qed.
Lemma str_eqb_spec s t : BoolSpec (s = t) (s <> t) (String.eqb s t).
Proof. destruct (String.eqb_spec s t); constructor; assumption. Qed.

Fixpoint sinsert (x : string) (l : list string) : list string :=
  match l with [] => [x] | y :: r => if str_ltb x y then x :: y :: r else y :: sinsert x r end.
Fixpoint ssort (l : list string) : list string := match l with [] => [] | x :: r => sinsert x (ssort r) end.
Fixpoint scount (f : string -> bool) (l : list string) : Z :=
  match l with [] => 0%Z | y :: r => if f y then (1 + scount f r)%Z else 0%Z end.
Fixpoint ssorted (l : list string) : Prop :=
  match l with [] => True | x :: r => (forall y, In y r -> ~ slt y x) /\ ssorted r end.
Definition smem (x : string) (l : list string) : bool := existsb (String.eqb x) l.

Lemma smem_In x l : smem x l = true <-> In x l.
Proof.
  unfold smem. rewrite existsb_exists. split.
  - intros [y [Hy E]]. apply String.eqb_eq in E. subst. exact Hy.
  - intros H. exists x. split; [exact H | apply String.eqb_refl].
Qed.

Lemma sinsert_in x y l : In y (sinsert x l) <-> y = x \/ In y l.
Proof.
  induction l as [|a r IH]; cbn.
  - intuition.
  - destruct (str_ltb x a); cbn; [intuition|]. rewrite IH. intuition.
Qed.

Lemma ssort_in y l : In y (ssort l) <-> In y l.
Proof. induction l as [|a r IH]; cbn; [tauto|]. rewrite sinsert_in, IH. intuition. Qed.

Lemma sinsert_sorted x l : ssorted l -> ssorted (sinsert x l).
Proof.
  induction l as [|a r IH]; cbn; intros H.
  - split; [intros y []|exact I].
  - destruct H as [Ha Hr]. destruct (str_ltb_spec x a) as [L|L]; cbn.
    + split; [|split; assumption]. intros y [E|Hy]; [subst; sord|]. specialize (Ha y Hy). sord.
    + split; [|apply IH; exact Hr]. intros y Hy. apply sinsert_in in Hy. destruct Hy as [E|Hy]; [subst; exact L|auto].
Qed.

Lemma ssort_sorted l : ssorted (ssort l).
Proof. induction l as [|a r IH]; cbn; [exact I|apply sinsert_sorted; exact IH]. Qed.

Lemma ssort_nil vs : ssort vs = [] -> vs = [].
Proof.
  destruct vs as [|a r]; [reflexivity|]. intros H. exfalso.
  assert (In a (ssort (a :: r))) as Hin by (apply ssort_in; left; reflexivity). rewrite H in Hin. exact Hin.
Qed.

Lemma scount_nonneg f l : (0 <= scount f l)%Z.
Proof. induction l as [|a r IH]; cbn [scount]; [lia|destruct (f a); lia]. Qed.

(* equal insertion points of a (left) and b (right) leave no element in [a,b] *)
Lemma scount_gap l a b x : ssorted l ->
  scount (fun y => str_ltb y a) l = scount (fun y => str_leb y b) l -> In x l -> ~ slt x a -> ~ slt b x -> False.
Proof.
  induction l as [|y r IH]; cbn [scount ssorted In]; intros Hs E Hin Ha Hb; [exact Hin|].
  destruct Hs as [Hy Hr].
  pose proof (scount_nonneg (fun y => str_ltb y a) r) as N1.
  pose proof (scount_nonneg (fun y => str_leb y b) r) as N2.
  destruct (str_ltb_spec y a) as [L1|L1]; destruct (str_leb_spec y b) as [L2|L2]; try lia.
  - destruct Hin as [Ex|Hin]; [subst; sord|]. apply IH; auto. lia.
  - destruct Hin as [Ex|Hin]; [subst; sord|]. specialize (Hy x Hin). sord.
Qed.

Lemma ssorted_hd h r x : ssorted (h :: r) -> In x (h :: r) -> ~ slt x h.
Proof. cbn. intros [Hh _] [E|Hin]; [subst; sord|auto]. Qed.

Lemma ssorted_last l x : ssorted l -> In x l -> ~ slt (last l EmptyString) x.
Proof.
  induction l as [|a r IH]; cbn; intros Hs Hin; [contradiction|].
  destruct Hs as [Ha Hr]. destruct r as [|b r'].
  - destruct Hin as [E|[]]. subst. sord.
  - destruct Hin as [E|Hin].
    + subst. assert (In (last (b :: r') EmptyString) (b :: r')) as Hl.
      { clear. generalize b. induction r' as [|c r'' IH]; intros b0; cbn; [auto|]. right. apply IH. }
      specialize (Ha _ Hl). exact Ha.
    + apply IH; assumption.
Qed.

(* ---------- the prelude on lists of str ---------------------------------------------------- *)

Lemma existsb_strs x vs : existsb (pv_eqb (PStr x)) (map PStr vs) = smem x vs.
Proof. unfold smem. induction vs as [|a r IH]; [reflexivity|]. cbn [map existsb]. rewrite IH. reflexivity. Qed.

Lemma py_in_strs x vs : py_in (PStr x) (strs vs) = Ok (PBool (smem x vs)).
Proof. unfold py_in, strs. cbn [elems bind]. rewrite existsb_strs. reflexivity. Qed.
Lemma py_not_in_strs x vs : py_not_in (PStr x) (strs vs) = Ok (PBool (negb (smem x vs))).
Proof. unfold py_not_in, strs. cbn [elems bind]. rewrite existsb_strs. reflexivity. Qed.
Lemma py_len_strs vs : py_len (strs vs) = Ok (PInt (Z.of_nat (List.length vs))).
Proof. unfold py_len, strs. cbn [elems bind]. rewrite map_length. reflexivity. Qed.

Lemma insert_sorted_strs x l : insert_sorted (PStr x) (map PStr l) = Ok (map PStr (sinsert x l)).
Proof.
  induction l as [|a r IH]; [reflexivity|].
  cbn [map insert_sorted sinsert lt_b py_lt py_ord bind truthy].
  destruct (str_ltb x a); [reflexivity|]. rewrite IH. reflexivity.
Qed.
Lemma sort_list_strs l : sort_list (map PStr l) = Ok (map PStr (ssort l)).
Proof.
  induction l as [|a r IH]; [reflexivity|]. cbn [map sort_list ssort]. rewrite IH. cbn [bind]. apply insert_sorted_strs.
Qed.
Lemma py_sorted_strs vs : py_sorted (strs vs) = Ok (strs (ssort vs)).
Proof. unfold py_sorted, strs. cbn [elems bind]. rewrite sort_list_strs. reflexivity. Qed.

Lemma count_while_lt_s l v :
  count_while (fun y => lt_b y (PStr v)) (map PStr l) = Ok (scount (fun y => str_ltb y v) l).
Proof.
  induction l as [|a r IH]; [reflexivity|].
  cbn [map count_while scount lt_b py_lt py_ord bind truthy]. destruct (str_ltb a v); [|reflexivity].
  rewrite IH. reflexivity.
Qed.
Lemma count_while_le_s l v :
  count_while (fun y => le_b y (PStr v)) (map PStr l) = Ok (scount (fun y => str_leb y v) l).
Proof.
  induction l as [|a r IH]; [reflexivity|].
  cbn [map count_while scount le_b py_le py_ord bind truthy]. destruct (str_leb a v); [|reflexivity].
  rewrite IH. reflexivity.
Qed.
Lemma py_ss_left_strs l v :
  py_searchsorted_left (strs l) (PStr v) = Ok (PInt (scount (fun y => str_ltb y v) l)).
Proof. unfold py_searchsorted_left, strs. cbn [elems bind]. rewrite count_while_lt_s. reflexivity. Qed.
Lemma py_ss_right_strs l v :
  py_searchsorted_right (strs l) (PStr v) = Ok (PInt (scount (fun y => str_leb y v) l)).
Proof. unfold py_searchsorted_right, strs. cbn [elems bind]. rewrite count_while_le_s. reflexivity. Qed.

Lemma py_index0_strs l :
  py_index (strs l) (PInt 0) = match l with [] => Err "IndexError"%string | h :: _ => Ok (PStr h) end.
Proof.
  unfold py_index, strs. cbn [elems bind]. rewrite map_length.
  destruct l as [|h r]; [reflexivity|].
  replace (0 <? 0)%Z with false by reflexivity. cbn [orb].
  destruct (Z.leb_spec (Z.of_nat (List.length (h :: r))) 0) as [L|L]; [cbn in L; lia|]. reflexivity.
Qed.

Lemma nth_error_last_s (l : list string) : l <> [] ->
  nth_error (map PStr l) (Z.to_nat (-1 + Z.of_nat (List.length l))) = Some (PStr (last l EmptyString)).
Proof.
  induction l as [|a r IH]; intros H; [congruence|].
  destruct r as [|b r'].
  - reflexivity.
  - replace (Z.to_nat (-1 + Z.of_nat (List.length (a :: b :: r')))) with (S (Z.to_nat (-1 + Z.of_nat (List.length (b :: r'))))).
    + cbn [map nth_error]. cbn [map] in IH. rewrite IH by congruence. reflexivity.
    + cbn [List.length]. lia.
Qed.

Lemma py_index_m1_strs l :
  py_index (strs l) (PInt (-1)) = match l with [] => Err "IndexError"%string | _ :: _ => Ok (PStr (last l EmptyString)) end.
Proof.
  unfold py_index, strs. cbn [elems bind]. rewrite map_length.
  replace (-1 <? 0)%Z with true by reflexivity.
  destruct l as [|h r].
  - reflexivity.
  - destruct (Z.ltb_spec (-1 + Z.of_nat (List.length (h :: r))) 0) as [L|L]; [cbn [List.length] in L; lia|].
    destruct (Z.leb_spec (Z.of_nat (List.length (h :: r))) (-1 + Z.of_nat (List.length (h :: r)))) as [L2|L2]; [lia|].
    cbn [orb]. rewrite nth_error_last_s by congruence. reflexivity.
Qed.
