(* The impl model of fastparquet's v1 page reader (Impl/RPages.v) reads every v1 data page the
   specification encoder writes back to the page's denotation - refinement of the reader's page
   logic to the specification, for foreign layouts (selfmade = false). *)
From Coq Require Import String.
From Coq Require Import NArith ZArith Arith List Lia Bool.
From Pq Require Import Base.Bytes Base.Bits Base.ListX Proofs.BytesProofs Proofs.ListXProofs Proofs.CodecProofs
  Proofs.CompactProofs Codec.Varint Codec.Bitpack Codec.Hybrid Thrift.Compact
  Format.Phys Format.Meta Format.Page Format.ChunkLayout Format.File Format.Enc Impl.RPages.
From Pq Require Import Proofs.HybridProofs Proofs.FormatCodecProofs Proofs.FormatPageProofs.
From Pq Require Proofs.DeltaProofs.
Import ListNotations.
Open Scope N_scope.
Open Scope list_scope.

(* ---- counting and scattering ------------------------------------------------------------------- *)
Lemma count_def_acc m l a :
  fold_left (fun a l => if l =? m then N.succ a else a) l a = a + count_def m l.
Proof.
  unfold count_def. revert a. induction l as [|x l IH]; intros a; cbn [fold_left]; [lia|].
  rewrite IH, (IH (if x =? m then N.succ 0 else 0)). destruct (x =? m); lia.
Qed.

Lemma count_def_cons m x l : count_def m (x :: l) = (if x =? m then 1 else 0) + count_def m l.
Proof. unfold count_def at 1. cbn [fold_left]. rewrite count_def_acc. destruct (x =? m); lia. Qed.

Lemma count_def_le m l : count_def m l <= N.of_nat (length l).
Proof. induction l as [|x l IH]; [cbn; lia|]. rewrite count_def_cons. cbn [length]. destruct (x =? m); lia. Qed.

Lemma count_def_repeat m n : count_def m (repeat m n) = N.of_nat n.
Proof. induction n as [|n IH]; [reflexivity|]. cbn [repeat]. rewrite count_def_cons, N.eqb_refl, IH. lia. Qed.

(* when every level is the maximum, scattering is `map Some` *)
Lemma cells_of_full m : forall lv vs acc cs,
  count_def m lv = N.of_nat (length lv) -> cells_of m lv vs acc = Some cs -> cs = rev acc ++ map Some vs.
Proof.
  induction lv as [|l lv IH]; intros vs acc cs HC H; cbn [cells_of] in H.
  - destruct vs; [|discriminate]. injection H as <-. cbn [map]. now rewrite rev_append_rev, !app_nil_r.
  - rewrite count_def_cons in HC. cbn [length] in HC. pose proof (count_def_le m lv) as LE.
    destruct (l =? m) eqn:E; [|lia].
    destruct vs as [|v vs]; [discriminate|].
    rewrite (IH vs (Some v :: acc) cs) by (try lia; exact H). cbn [rev map]. now rewrite <- app_assoc.
Qed.

Lemma firstn_zeros k l : Forall (fun v => v < 2 ^ 0) l -> (k <= length l)%nat -> firstn k l = repeat 0 k.
Proof.
  revert l; induction k as [|k IH]; intros l H L; [reflexivity|].
  destruct l as [|x l]; [cbn in L; lia|]. inversion H as [|? ? Hx Hl]; subst.
  cbn [firstn repeat]. rewrite IH by (try assumption; cbn in L; lia).
  change (2 ^ 0) with 1 in Hx. f_equal. lia.
Qed.

Lemma dropN_le_enc4 n b : dropN 4 (le_enc 4 n ++ b) = b.
Proof. change 4 with (lenN (le_enc 4 n)) at 1. apply dropN_app_exact. Qed.

(* ---- the refinement ------------------------------------------------------------------------------- *)
Definition v1_header (p : lpage) : dph :=
  {| d_nvals := Z.of_N (lp_nvals p); d_enc := store_enc (lp_store p); d_dle := E_RLE; d_rle := E_RLE |}.

Definition v1_raw (cd : coldesc) (p : lpage) : bytes :=
  (if cd_maxdef cd =? 0 then [] else hyb_enc_len (level_width (cd_maxdef cd)) (lp_def p))
  ++ store_bytes cd (lp_store p) ++ lp_trail p.

(* dictionary encoding is not defined for BOOLEAN columns (the reader forces width 1 there) *)
Theorem rd_col_page_v1_spec cd dict p cs :
  page_wf cd p -> page_cells cd dict p = Some cs ->
  rd_col_page false cd dict (v1_header p) (v1_raw cd p) = ROk cs.
Proof.
  intros [LW SW] PC. unfold page_cells in PC.
  set (lv := page_levels cd p) in *.
  destruct (store_values cd dict (count_def (cd_maxdef cd) lv) (lp_store p)) as [vs|] eqn:SV; [|discriminate].
  (* levels as the reader sees them *)
  assert (LEN : N.of_nat (length lv) = lp_nvals p).
  { unfold lv, page_levels. destruct LW as [H0|(H1 & Hr & Hn & Hl)].
    - rewrite H0. cbn [N.eqb]. rewrite repN_ok, app_nil_r, repeat_length. apply N2Nat.id.
    - rewrite H1. cbn [N.eqb Pos.eqb]. rewrite takeN_ok, runs_vals_ok, firstn_length_le by lia. apply N2Nat.id. }
  pose proof (count_def_le (cd_maxdef cd) lv) as CLE. rewrite LEN in CLE.
  set (k := count_def (cd_maxdef cd) lv) in *.
  assert (RD : rd_def (cd_maxdef cd) (lp_nvals p) (v1_raw cd p)
               = ROk (if cd_maxdef cd =? 0 then None else if lp_nvals p - k =? 0 then None else Some lv,
                      lp_nvals p - k, store_bytes cd (lp_store p) ++ lp_trail p)).
  { unfold rd_def, v1_raw. destruct LW as [H0|(H1 & Hr & Hn & Hl)].
    - rewrite H0. cbn [N.eqb app]. unfold k, lv, page_levels. rewrite H0. cbn [N.eqb].
      rewrite repN_ok, app_nil_r, count_def_repeat, N2Nat.id, N.sub_diag. reflexivity.
    - rewrite H1. cbn [N.eqb Pos.eqb]. change (N.size 1) with 1. change (level_width 1) with 1.
      rewrite hyb_len_rt by assumption.
      unfold k, lv, page_levels. rewrite H1. cbn [N.eqb Pos.eqb]. now rewrite takeN_ok, runs_vals_ok. }
  unfold rd_col_page, rd_data_page. cbn [v1_header d_nvals d_enc]. rewrite z2n_of_N. cbn [rbind].
  rewrite RD. cbn [rbind]. replace (lp_nvals p - (lp_nvals p - k)) with k by lia.
  (* the scatter agrees with cells_of whichever way the levels are reported *)
  assert (SC : forall vals, cells_of (cd_maxdef cd) lv vals [] = Some cs ->
            match (if cd_maxdef cd =? 0 then None else if lp_nvals p - k =? 0 then None else Some lv) with
            | None => ROk (map Some vals)
            | Some lv0 => of_opt "boolean index did not match"%string (cells_of (cd_maxdef cd) lv0 vals [])
            end = ROk cs).
  { intros vals HC.
    assert (FULL : lp_nvals p - k = 0 -> ROk (map Some vals) = ROk cs).
    { intros Z. f_equal. symmetry. eapply (cells_of_full (cd_maxdef cd) lv vals [] cs); [|exact HC]. fold k. lia. }
    destruct (cd_maxdef cd =? 0) eqn:M0.
    - apply FULL. apply N.eqb_eq in M0. unfold k, lv, page_levels. rewrite M0. cbn [N.eqb].
      rewrite repN_ok, app_nil_r, count_def_repeat, N2Nat.id. lia.
    - destruct (lp_nvals p - k =? 0) eqn:Z0; [apply FULL; now apply N.eqb_eq|]. now rewrite HC. }
  destruct (lp_store p) as [pv|e w runs|runs|bs mpb zs|e b] eqn:ST; cbn [store_wf] in SW; try contradiction;
    cbn [store_enc store_bytes store_values] in *.
  - (* PLAIN *)
    destruct SW as [Hv Hk]. injection SV as <-. cbn [Z.eqb E_PLAIN].
    pose proof (plain_roundtrip (cd_type cd) (cd_tlen cd) pv (lp_trail p) Hv) as PR. rewrite Hk in PR.
    rewrite PR. cbn [rbind]. now apply SC.
  - (* dictionary *)
    destruct SW as (He & Hw & Hr & Hk). destruct dict as [d|]; [|discriminate].
    rewrite takeN_ok, runs_vals_ok in SV.
    assert (E1 : ((e =? E_PLAIN) = false)%Z) by (destruct He; subst; reflexivity).
    assert (E2 : ((e =? E_PLAIN_DICT) || (e =? E_RLE_DICT) = true)%Z) by (destruct He; subst; reflexivity).
    assert (E3 : ((e =? E_RLE) = false)%Z) by (destruct He; subst; reflexivity).
    rewrite E1, E2, E3. cbn [orb].
    rewrite hyb_enc_x_ok. cbn [app rbind andb]. rewrite !andb_false_r. cbn [negb].
    destruct (hyb_rt false w k runs (lp_trail p) Hr Hk) as (r & E).
    destruct (w =? 0) eqn:W0; cbn [negb].
    + (* width 0: np.zeros *)
      apply N.eqb_eq in W0. subst w. cbn [rbind]. rewrite repN_ok, app_nil_r.
      rewrite (firstn_zeros (N.to_nat k) (runs_total runs)) in SV by (try (apply runs_total_lt; exact Hr); lia).
      rewrite SV. cbn [of_opt rbind]. now apply SC.
    + rewrite E. cbn [rbind]. rewrite SV. cbn [of_opt rbind]. now apply SC.
  - (* RLE booleans *)
    destruct SW as (Ht & Hr & Hk & Hl). injection SV as <-. cbn [Z.eqb E_PLAIN E_RLE E_PLAIN_DICT E_RLE_DICT orb].
    rewrite Ht. rewrite hyb_enc_len_x_ok. unfold hyb_enc_len. rewrite <- lenN_ok, <- app_assoc, dropN_le_enc4.
    cbn [rbind N.eqb Pos.eqb orb andb negb].
    destruct (hyb_rt false 1 k runs (lp_trail p) Hr Hk) as (r & E). rewrite E. cbn [rbind].
    rewrite takeN_ok, runs_vals_ok in PC. now apply SC.
  - (* DELTA_BINARY_PACKED *)
    destruct SW as (bits & q & mp & Hb & -> & -> & Hq & Hmp & Hr & Hk).
    rewrite Hb in *. injection SV as <-.
    cbn [Z.eqb E_PLAIN E_RLE E_PLAIN_DICT E_RLE_DICT E_DELTA orb].
    assert (B1 : 1 <= bits) by (destruct (cd_type cd); cbn in Hb; try discriminate; injection Hb as <-; lia).
    rewrite (DeltaProofs.delta_roundtrip bits q mp zs (lp_trail p) B1 Hq Hmp Hr). cbn [rbind].
    assert (TK : firstn (N.to_nat k) zs = zs) by (rewrite <- Hk, Nat2N.id; apply firstn_all).
    rewrite takeN_ok, TK. now apply SC.
Qed.

(* ==== v2 ============================================================================================== *)
Definition v2_lb (cd : coldesc) (p : lpage) : bytes :=
  if cd_maxdef cd =? 0 then [] else hyb_enc (level_width (cd_maxdef cd)) (lp_def p).
Definition v2_nn (cd : coldesc) (p : lpage) : N := lp_nvals p - count_def (cd_maxdef cd) (page_levels cd p).
Definition v2_header (cd : coldesc) (p : lpage) : dph2 :=
  {| d2_nvals := Z.of_N (lp_nvals p); d2_nnulls := Z.of_N (v2_nn cd p); d2_nrows := Z.of_N (lp_nvals p);
     d2_enc := store_enc (lp_store p); d2_dlen := Z.of_N (lenN (v2_lb cd p)); d2_rlen := 0; d2_iscomp := lp_iscomp p |}.

Section V2Proofs.
Variable compress : Z -> bytes -> bytes.
Variable decompress : Z -> N -> bytes -> option bytes.
Hypothesis codec_rt : forall codec b, decompress codec (lenN b) (compress codec b) = Some b.

Definition v2_body (cd : coldesc) (codec : Z) (p : lpage) : bytes :=
  if match lp_iscomp p with Some false => false | _ => true end then deflate compress codec (store_bytes cd (lp_store p))
  else store_bytes cd (lp_store p).

(* what enc_data_page writes for a v2 page, in the terms the reader model is stated in *)
Lemma enc_v2_shape cd codec p : lp_v2 p = true ->
  enc_data_page compress cd codec p
  = ({| ph_usize := Z.of_N (lenN (v2_lb cd p)) + Z.of_N (lenN (store_bytes cd (lp_store p)));
        ph_csize := Z.of_N (lenN (v2_lb cd p)) + Z.of_N (lenN (v2_body cd codec p)); ph_crc := None;
        ph_body := PBData2 (v2_header cd p) |}%Z, v2_lb cd p ++ v2_body cd codec p).
Proof.
  intros V. unfold enc_data_page. rewrite V. cbn zeta. unfold v2_header, v2_lb, v2_body, v2_nn, zlen.
  rewrite app_tr_ok. destruct (cd_maxdef cd =? 0); rewrite ?hyb_enc_x_ok; reflexivity.
Qed.

Lemma plain_enc_num_len t k vs : num_width t = Some k ->
  Forall (fun v => value_ok t 0 v = true \/ True) vs ->
  (forall v, In v vs -> exists n, v = VNum n) ->
  lenN (plain_enc t vs) = k * N.of_nat (length vs).
Proof.
  intros Hk _ HV. unfold plain_enc.
  assert (NB : t <> BOOLEAN) by (intros ->; discriminate Hk).
  destruct t; try contradiction; try discriminate Hk; rewrite concat_tr_ok;
    (induction vs as [|v vs IH]; [cbn; lia|];
     cbn [map concat length]; rewrite lenN_app, IH by (intros x Hx; apply HV; now right);
     destruct (HV v (or_introl eq_refl)) as (n & ->); cbn [plain_enc1]; rewrite Hk, lenN_ok, le_enc_length; lia).
Qed.

Lemma takeN_all {A} (b : list A) : takeN (lenN b) b = b.
Proof. rewrite <- (app_nil_r b) at 2. apply takeN_app_exact. Qed.

Theorem rd_page_v2_spec inplace cd dict codec p cs :
  lp_v2 p = true -> page_wf cd p -> page_cells cd dict p = Some cs ->
  (* the in-place PLAIN paths are only taken for fixed-width numeric columns *)
  (inplace = true -> match lp_store p with SPlain _ => num_width (cd_type cd) <> None | _ => True end) ->
  (* a DELTA page with NULLs is refused by the reader (AssertionError) *)
  (match lp_store p with SDelta _ _ _ => v2_nn cd p = 0 | _ => True end) ->
  rd_page_v2 decompress inplace cd dict codec (v2_header cd p)
             (lenN (v2_lb cd p) + lenN (store_bytes cd (lp_store p)))
             (lenN (v2_lb cd p) + lenN (v2_body cd codec p))
             (v2_lb cd p ++ v2_body cd codec p)
  = ROk cs.
Proof.
  intros V2 [LW SW] PC INP DNN. unfold page_cells in PC.
  set (lv := page_levels cd p) in *. set (k := count_def (cd_maxdef cd) lv) in *.
  destruct (store_values cd dict k (lp_store p)) as [vs|] eqn:SV; [|discriminate].
  assert (LEN : N.of_nat (length lv) = lp_nvals p).
  { unfold lv, page_levels. destruct LW as [H0|(H1 & Hr & Hn & Hl)].
    - rewrite H0. cbn [N.eqb]. rewrite repN_ok, app_nil_r, repeat_length. apply N2Nat.id.
    - rewrite H1. cbn [N.eqb Pos.eqb]. rewrite takeN_ok, runs_vals_ok, firstn_length_le by lia. apply N2Nat.id. }
  pose proof (count_def_le (cd_maxdef cd) lv) as CLE. rewrite LEN in CLE. fold k in CLE.
  assert (NN : v2_nn cd p = lp_nvals p - k) by reflexivity.
  unfold rd_page_v2. cbn [v2_header d2_enc d2_nvals d2_nnulls d2_dlen d2_rlen d2_iscomp].
  assert (EOK : negb ((store_enc (lp_store p) =? E_PLAIN_DICT) || (store_enc (lp_store p) =? E_RLE_DICT) ||
                      (store_enc (lp_store p) =? E_RLE) || (store_enc (lp_store p) =? E_PLAIN) ||
                      (store_enc (lp_store p) =? E_DELTA))%Z = false).
  { destruct (lp_store p) as [pv|e w runs|runs|bs mpb zs|e b]; cbn [store_wf] in SW; try contradiction; try reflexivity.
    destruct SW as ([->| ->] & _); reflexivity. }
  rewrite EOK. rewrite !z2n_of_N. cbn [rbind]. change (z2n _ 0%Z) with (@ROk N 0). cbn [rbind].
  rewrite NN. replace (lp_nvals p - (lp_nvals p - k)) with k by lia.
  rewrite !N.sub_0_r, ?N.add_0_r.
  replace (lenN (v2_lb cd p) + lenN (v2_body cd codec p) - lenN (v2_lb cd p)) with (lenN (v2_body cd codec p)) by lia.
  replace (lenN (v2_lb cd p) + lenN (store_bytes cd (lp_store p)) - lenN (v2_lb cd p)) with (lenN (store_bytes cd (lp_store p))) by lia.
  rewrite takeN_app_exact, dropN_app_exact, takeN_all.
  (* levels *)
  set (lvopt := if negb (cd_maxdef cd =? 0) && negb (lp_nvals p - k =? 0) then Some lv else None).
  assert (LV : (if negb (cd_maxdef cd =? 0) && negb (lp_nvals p - k =? 0)
                then match hyb_dec false (N.size (cd_maxdef cd)) (lp_nvals p) (v2_lb cd p) with
                     | Some (l, _) => ROk (Some l)
                     | None => RBad "level reader ran out of data"%string
                     end
                else ROk None) = ROk lvopt).
  { unfold lvopt, lv, page_levels, v2_lb. destruct LW as [H0|(H1 & Hr & Hn & Hl)].
    - rewrite H0. reflexivity.
    - rewrite H1. cbn [N.eqb Pos.eqb negb andb]. destruct (lp_nvals p - k =? 0); [reflexivity|].
      change (N.size 1) with 1. change (level_width 1) with 1.
      destruct (hyb_rt false 1 (lp_nvals p) (lp_def p) [] Hr Hn) as (r & E). rewrite app_nil_r in E. rewrite E.
      now rewrite takeN_ok, runs_vals_ok. }
  rewrite LV. cbn [rbind].
  assert (SC : forall vals, cells_of (cd_maxdef cd) lv vals [] = Some cs -> scatter2 (cd_maxdef cd) lvopt vals = ROk cs).
  { intros vals HC. unfold lvopt, scatter2.
    assert (FULL : lp_nvals p - k = 0 -> ROk (map Some vals) = ROk cs).
    { intros Z. f_equal. symmetry. eapply (cells_of_full (cd_maxdef cd) lv vals [] cs); [|exact HC]. fold k. lia. }
    destruct (cd_maxdef cd =? 0) eqn:M0; cbn [negb andb].
    - apply FULL. apply N.eqb_eq in M0. unfold k, lv, page_levels. rewrite M0. cbn [N.eqb].
      rewrite repN_ok, app_nil_r, count_def_repeat, N2Nat.id. lia.
    - destruct (lp_nvals p - k =? 0) eqn:Z0; cbn [negb]; [apply FULL; now apply N.eqb_eq|]. now rewrite HC. }
  (* decompression *)
  assert (RAW : forall (A : Type) (K : bytes -> rs A),
            rbind (if match lp_iscomp p with Some false => false | _ => true end && negb (codec =? 0)%Z
                   then of_opt "decompression failed"%string (decompress codec (lenN (store_bytes cd (lp_store p))) (v2_body cd codec p))
                   else ROk (v2_body cd codec p)) K = K (store_bytes cd (lp_store p))).
  { intros A K. unfold v2_body, deflate.
    destruct (lp_iscomp p) as [[|]|]; destruct (codec =? 0)%Z; cbn [andb negb]; rewrite ?codec_rt; reflexivity. }
  destruct (lp_store p) as [pv|e w runs|runs|bs mpb zs|e b] eqn:ST; cbn [store_wf] in SW; try contradiction;
    cbn [store_enc store_bytes store_values] in *.
  - (* PLAIN *)
    destruct SW as [Hv Hk]. injection SV as <-. cbn [Z.eqb E_PLAIN].
    pose proof (plain_roundtrip (cd_type cd) (cd_tlen cd) pv [] Hv) as PR. rewrite Hk, app_nil_r in PR.
    destruct (inplace && (lp_nvals p - k =? 0)) eqn:IP.
    + apply andb_true_iff in IP. destruct IP as [-> Z0]. apply N.eqb_eq in Z0.
      rewrite RAW. specialize (INP eq_refl). cbn beta iota in INP.
      destruct (num_width (cd_type cd)) as [kw|] eqn:NW; [|now contradiction INP].
      assert (LB : lenN (plain_enc (cd_type cd) pv) = kw * k).
      { rewrite <- Hk. apply (plain_enc_num_len (cd_type cd) kw pv NW).
        - apply Forall_forall. intros; now right.
        - intros v Hv'. rewrite Forall_forall in Hv. destruct (value_ok_num _ _ _ _ NW (Hv v Hv')) as (n0 & -> & _). eauto. }
      rewrite LB, N.eqb_refl, PR.
      f_equal. symmetry. eapply (cells_of_full (cd_maxdef cd) lv pv [] cs); [fold k; lia|exact PC].
    + rewrite RAW, PR. now apply SC.
  - (* dictionary *)
    destruct SW as (He & Hw & Hr & Hk). destruct dict as [d|]; [|discriminate].
    rewrite takeN_ok, runs_vals_ok in SV.
    assert (E1 : ((e =? E_PLAIN) = false)%Z) by (destruct He; subst; reflexivity).
    assert (E2 : ((e =? E_PLAIN_DICT) || (e =? E_RLE_DICT) = true)%Z) by (destruct He; subst; reflexivity).
    assert (E3 : ((e =? E_RLE) = false)%Z) by (destruct He; subst; reflexivity).
    rewrite E1, E3, E2. rewrite RAW. rewrite hyb_enc_x_ok.
    destruct (hyb_rt false w k runs [] Hr Hk) as (r & E). rewrite app_nil_r in E.
    destruct (k =? 0) eqn:K0.
    + apply N.eqb_eq in K0. rewrite K0 in SV. cbn [N.to_nat firstn lookup_all rev_append] in SV. injection SV as <-.
      cbn [rbind lookup_all rev_append of_opt]. now apply SC.
    + destruct (w =? 0) eqn:W0.
      * apply N.eqb_eq in W0. subst w. cbn [rbind]. rewrite repN_ok, app_nil_r.
        rewrite (firstn_zeros (N.to_nat k) (runs_total runs)) in SV by (try (apply runs_total_lt; exact Hr); lia).
        rewrite SV. cbn [of_opt rbind]. now apply SC.
      * rewrite E. cbn [rbind]. rewrite SV. cbn [of_opt rbind]. now apply SC.
  - (* RLE booleans *)
    destruct SW as (Ht & Hr & Hk & Hl). injection SV as <-. cbn [Z.eqb E_PLAIN E_RLE E_PLAIN_DICT E_RLE_DICT orb].
    rewrite RAW. rewrite hyb_enc_len_x_ok. unfold hyb_enc_len. rewrite <- lenN_ok, dropN_le_enc4.
    destruct (hyb_rt false 1 k runs [] Hr Hk) as (r & E). rewrite app_nil_r in E. rewrite E.
    rewrite takeN_ok, runs_vals_ok in PC. now apply SC.
  - (* DELTA_BINARY_PACKED *)
    destruct SW as (bits & q & mp & Hb & -> & -> & Hq & Hmp & Hr & Hk).
    rewrite Hb in *. injection SV as <-.
    cbn [Z.eqb Pos.eqb E_PLAIN E_RLE E_PLAIN_DICT E_RLE_DICT E_DELTA orb].
    rewrite NN in DNN. rewrite DNN. cbn [N.eqb negb].
    rewrite RAW.
    assert (B1 : 1 <= bits) by (destruct (cd_type cd); cbn in Hb; try discriminate; injection Hb as <-; lia).
    pose proof (DeltaProofs.delta_roundtrip bits q mp zs [] B1 Hq Hmp Hr) as DR. rewrite app_nil_r in DR.
    rewrite DR.
    assert (TK : takeN (lp_nvals p) zs = zs).
    { rewrite takeN_ok. replace (N.to_nat (lp_nvals p)) with (length zs) by lia. apply firstn_all. }
    rewrite TK. f_equal. rewrite <- map_map. symmetry.
    eapply (cells_of_full (cd_maxdef cd) lv _ [] cs); [fold k; lia|exact PC].
Qed.
End V2Proofs.
