(* C13 — proofs about Impl/RowFilter.v *)
From Coq Require Import ZArith List String Bool Arith Lia.
From Pq Require Import Base.PyVal Impl.Filter Impl.RowFilter Proofs.FilterProofs.
Import ListNotations.
Local Open Scope nat_scope.
Local Open Scope list_scope.
Local Notation length := List.length (only parsing).

(* ---------- select / count_true ---------------------------------------------------------------- *)

Lemma count_true_cons b m : count_true (b :: m) = (if b then 1 else 0) + count_true m.
Proof. unfold count_true. cbn [filter]. destruct b; reflexivity. Qed.

Lemma count_true_app m1 m2 : count_true (m1 ++ m2) = count_true m1 + count_true m2.
Proof. unfold count_true. rewrite filter_app, app_length. reflexivity. Qed.

Lemma count_true_le m : count_true m <= length m.
Proof. induction m as [|b m IH]; [cbn; lia|]. rewrite count_true_cons. cbn [length]. destruct b; lia. Qed.

Lemma select_nil_r {A} m : @select A m [] = [].
Proof. destruct m as [|[] m]; reflexivity. Qed.

Lemma select_length {A} (m : list bool) (l : list A) : length m = length l -> length (select m l) = count_true m.
Proof.
  revert l. induction m as [|b m IH]; intros [|x l] H; cbn [length] in H; try discriminate; [reflexivity|].
  rewrite count_true_cons. cbn [select]. destruct b; cbn [length]; rewrite IH by lia; reflexivity.
Qed.

Lemma select_app {A} (m1 m2 : list bool) (l1 l2 : list A) : length m1 = length l1 ->
  select (m1 ++ m2) (l1 ++ l2) = select m1 l1 ++ select m2 l2.
Proof.
  revert l1. induction m1 as [|b m1 IH]; intros [|x l1] H; cbn [length] in H; try discriminate; [reflexivity|].
  cbn [app select]. destruct b; rewrite IH by lia; reflexivity.
Qed.

Lemma select_none {A} (m : list bool) (l : list A) : count_true m = 0 -> select m l = [].
Proof.
  revert l. induction m as [|b m IH]; intros l H; [reflexivity|].
  rewrite count_true_cons in H. destruct b; [lia|]. destruct l as [|x l]; [reflexivity|]. cbn [select]. apply IH. lia.
Qed.

Lemma select_all {A} (m : list bool) (l : list A) : length m = length l -> count_true m = length m -> select m l = l.
Proof.
  revert l. induction m as [|b m IH]; intros [|x l] H C; cbn [length] in *; try discriminate; [reflexivity|].
  rewrite count_true_cons in C. pose proof (count_true_le m) as L. destruct b; [|lia].
  cbn [select]. rewrite IH by lia. reflexivity.
Qed.

Lemma firstn_skipn_split {A} (k n : nat) (l : list A) :
  firstn (k + n) l = firstn k l ++ firstn n (skipn k l).
Proof.
  revert l. induction k as [|k IH]; intros l; [reflexivity|].
  destruct l as [|x l]; [cbn; rewrite firstn_nil; reflexivity|]. cbn [plus firstn skipn app]. rewrite IH. reflexivity.
Qed.

Lemma skipn_repeat {A} (x : A) k n : skipn k (repeat x n) = repeat x (n - k).
Proof.
  revert n. induction k as [|k IH]; intros n; [rewrite Nat.sub_0_r; reflexivity|].
  destruct n as [|n]; [reflexivity|]. cbn [repeat skipn Nat.sub]. apply IH.
Qed.

(* ---------- one page ----------------------------------------------------------------------------- *)

Section PageProofs.
  Variable V : Type.
  Notation page := (page V).

  Lemma defi_length (pg : page) : length (defi_of V pg) = length pg.
  Proof. unfold defi_of. apply map_length. Qed.

  (* selecting values and levels separately and scattering them = selecting the cells *)
  Lemma scatter_select (pg : page) (pf : list bool) : length pf = length pg ->
    scatter V (select pf (defi_of V pg)) (select (select (defi_of V pg) pf) (vals_of V pg)) = select pf pg.
  Proof.
    revert pf. induction pg as [|c pg IH]; intros [|b pf] H; cbn [length] in H; try discriminate; [reflexivity|].
    assert (length pf = length pg) as H' by lia. specialize (IH pf H').
    destruct c as [v|]; destruct b; cbn [defi_of map vals_of flat_map app select scatter];
      fold (defi_of V pg); fold (vals_of V pg); rewrite ?IH; reflexivity.
  Qed.

  Definition no_nulls (pg : page) : Prop := Forall (fun c => c <> None) pg.

  Lemma vals_no_nulls (pg : page) : no_nulls pg -> map Some (vals_of V pg) = pg.
  Proof.
    induction pg as [|c pg IH]; intros H; [reflexivity|]. inversion H as [|? ? Hc Hr]; subst.
    destruct c as [v|]; [|congruence]. cbn [vals_of flat_map app map]. fold (vals_of V pg). rewrite IH by assumption. reflexivity.
  Qed.

  Lemma select_map {A B} (f : A -> B) m (l : list A) : select m (map f l) = map f (select m l).
  Proof.
    revert l. induction m as [|b m IH]; intros [|x l]; try reflexivity. cbn [map select]. destruct b; cbn [map]; rewrite IH; reflexivity.
  Qed.

  Definition wf_page (p : pkind * page) : Prop := fst p = V1nodefi -> no_nulls (snd p).

  Lemma page_rows_length (p : pkind * page) : wf_page p -> page_rows V (fst p) (snd p) = length (snd p).
  Proof.
    destruct p as [nd pg]. unfold wf_page, page_rows. cbn [fst snd]. intros H. destruct nd.
    - rewrite <- (vals_no_nulls pg (H eq_refl)) at 2. rewrite map_length. reflexivity.
    - apply defi_length.
    - reflexivity.
  Qed.

  (* what a page contributes: its selected cells *)
  Lemma piece_is_select (p : pkind * page) (pf : list bool) : wf_page p -> length pf = length (snd p) ->
    page_piece V (fst p) pf (snd p) = select pf (snd p).
  Proof.
    destruct p as [nd pg]. unfold wf_page, page_piece. cbn [fst snd]. intros H L. destruct nd.
    - rewrite <- select_map. rewrite (vals_no_nulls pg (H eq_refl)). reflexivity.
    - apply scatter_select. exact L.
    - reflexivity.
  Qed.

  (* ---------- the page loop -------------------------------------------------------------------- *)

  Definition cells (pages : list (pkind * page)) : list (cellv V) := List.concat (map snd pages).

  Definition inv (rows : nat) (rf : list bool) (done : list (cellv V)) (s : st V) : Prop :=
    index_off V s = length done /\
    num V s = count_true (firstn (length done) rf) /\
    arr V s = map W (select (firstn (length done) rf) done) ++ repeat Uninit (rows - num V s).

  Lemma slice_length {A} k n (l : list A) : k + n <= length l -> length (slice k n l) = n.
  Proof. intros H. unfold slice. rewrite firstn_length, skipn_length. lia. Qed.

  Lemma count_firstn_le k (rf : list bool) : count_true (firstn k rf) <= count_true rf.
  Proof.
    rewrite <- (firstn_skipn k rf) at 2. rewrite count_true_app. lia.
  Qed.

  Lemma read_pages_inv rows rf : rows = count_true rf ->
    forall pages done s, Forall wf_page pages -> length rf = length done + length (cells pages) ->
      inv rows rf done s ->
      exists s', read_pages V rows rf s pages = Some s' /\ arr V s' = map W (select rf (done ++ cells pages)).
  Proof.
    intros Hrows. induction pages as [|p pages IH]; intros done s Hwf Hlen [Hio [Hnum Harr]].
    - exists s. split; [reflexivity|]. unfold cells in *. cbn [map List.concat length] in *. rewrite app_nil_r.
      rewrite Nat.add_0_r in Hlen. rewrite <- Hlen, firstn_all in Hnum, Harr.
      rewrite Harr, Hnum, Hrows, Nat.sub_diag. cbn [repeat]. apply app_nil_r.
    - cbn [read_pages]. destruct (Nat.leb_spec rows (num V s)) as [Hdone|Hmore].
      + (* every selected row has been produced: the remaining mask holds no True *)
        exists s. split; [reflexivity|].
        pose proof (count_firstn_le (length done) rf) as Hle.
        assert (count_true (skipn (length done) rf) = 0) as Hz.
        { pose proof (firstn_skipn (length done) rf) as E. apply (f_equal count_true) in E. rewrite count_true_app in E. lia. }
        rewrite <- (firstn_skipn (length done) rf) at 1.
        rewrite select_app by (rewrite firstn_length; lia).
        rewrite (select_none _ _ Hz), app_nil_r, Harr.
        replace (rows - num V s) with 0 by lia. cbn [repeat]. apply app_nil_r.
      + pose proof (Forall_inv Hwf) as Hp. pose proof (Forall_inv_tail Hwf) as Hwf'.
        unfold cells in Hlen. cbn [map List.concat] in Hlen. rewrite app_length in Hlen. fold (cells pages) in Hlen.
        pose proof (page_rows_length p Hp) as Hpr.
        unfold page_step. destruct p as [nd pg]. cbn [fst snd] in *.
        rewrite Hpr, Hio.
        set (pf := slice (length done) (length pg) rf).
        assert (length pf = length pg) as Lpf by (apply slice_length; lia).
        assert (firstn (length (done ++ pg)) rf = firstn (length done) rf ++ pf) as Hsplit.
        { rewrite app_length. apply firstn_skipn_split. }
        assert (length (firstn (length done) rf) = length done) as Lfd by (rewrite firstn_length; lia).
        destruct (Nat.eqb_spec (count_true pf) 0) as [Hz|Hnz].
        * (* nothing selected on this page *)
          destruct (IH (done ++ pg) {| num := num V s; index_off := length done + length pg; arr := arr V s |} Hwf') as [s' [Hr Ha]].
          { rewrite app_length. lia. }
          { unfold inv. cbn [index_off num arr]. rewrite Hsplit. split; [rewrite app_length; reflexivity|]. split.
            - rewrite count_true_app, Hz. lia.
            - rewrite select_app by exact Lfd. rewrite (select_none _ _ Hz), app_nil_r. exact Harr. }
          exists s'. split; [exact Hr|]. rewrite Ha. unfold cells. cbn [map List.concat]. rewrite app_assoc. reflexivity.
        * pose proof (piece_is_select (nd, pg) pf Hp Lpf) as Hpiece. cbn [fst snd] in Hpiece. rewrite Hpiece.
          assert (length (select pf pg) = count_true pf) as Lsel by (apply select_length; exact Lpf).
          assert (num V s + count_true pf <= rows) as Hfit.
          { rewrite Hnum, Hrows. pose proof (count_firstn_le (length (done ++ pg)) rf) as Hle.
            rewrite Hsplit, count_true_app in Hle. exact Hle. }
          unfold write_at. rewrite Lsel.
          assert (length (arr V s) = rows) as Larr.
          { rewrite Harr, app_length, map_length, repeat_length, select_length by exact Lfd. lia. }
          rewrite Larr. destruct (Nat.leb_spec (num V s + count_true pf) rows) as [_|Hbad]; [|lia].
          destruct (IH (done ++ pg)
                      {| num := num V s + count_true pf; index_off := length done + length pg;
                         arr := firstn (num V s) (arr V s) ++ map W (select pf pg) ++ skipn (num V s + count_true pf) (arr V s) |} Hwf')
            as [s' [Hr Ha]].
          { rewrite app_length. lia. }
          { unfold inv. cbn [index_off num arr]. rewrite Hsplit. split; [rewrite app_length; reflexivity|]. split.
            - rewrite count_true_app. lia.
            - rewrite select_app by exact Lfd. rewrite map_app, <- app_assoc.
              assert (length (map W (select (firstn (length done) rf) done)) = num V s) as Ld.
              { rewrite map_length, select_length by exact Lfd. lia. }
              rewrite Harr. f_equal.
              + rewrite firstn_app, Ld, Nat.sub_diag, firstn_O, app_nil_r. rewrite <- Ld at 1. apply firstn_all.
              + f_equal. rewrite skipn_app, Ld.
                replace (num V s + count_true pf - num V s) with (count_true pf) by lia.
                rewrite skipn_all2 by (rewrite Ld; lia). cbn [app].
                rewrite skipn_repeat. f_equal. lia. }
          exists s'. split; [rewrite <- Hr; do 2 f_equal; rewrite <- Lsel; reflexivity|]. rewrite Ha. unfold cells. cbn [map List.concat]. rewrite app_assoc. reflexivity.
  Qed.

  (* C13_mask_pages *)
  Theorem read_col_masked_spec : forall (pages : list (pkind * page)) (rf : list bool),
    Forall wf_page pages -> length rf = length (cells pages) ->
    read_col_masked V rf pages = Some (map W (select rf (cells pages))).
  Proof.
    intros pages rf Hwf Hlen. unfold read_col_masked.
    destruct (read_pages_inv (count_true rf) rf eq_refl pages [] {| num := 0; index_off := 0; arr := repeat Uninit (count_true rf) |} Hwf)
      as [s' [Hr Ha]].
    - exact Hlen.
    - unfold inv. cbn [index_off num arr length firstn select map app]. rewrite Nat.sub_0_r. auto.
    - rewrite Hr, Ha. reflexivity.
  Qed.
End PageProofs.

(* the loop of the pinned tree: a chunk of two pages whose first page holds no selected row ends with
   the output untouched; and with a NULL before a page boundary the mask offset falls behind *)
Theorem read_col_masked_pinned_refuted :
  exists (pages : list (pkind * page Z)) (rf : list bool),
    Forall (wf_page Z) pages /\ length rf = length (cells Z pages) /\
    read_col_masked_pinned Z rf pages = Some [Uninit; Uninit] /\
    select rf (cells Z pages) = [Some 3%Z; Some 4%Z].
Proof.
  exists [(V1defi, [Some 1%Z; Some 2%Z]); (V1defi, [Some 3%Z; Some 4%Z])], [false; false; true; true].
  split; [repeat constructor; intros; discriminate|]. split; [reflexivity|]. split; vm_compute; reflexivity.
Qed.

Theorem read_col_masked_pinned_nulls_refuted :
  exists (pages : list (pkind * page Z)) (rf : list bool),
    Forall (wf_page Z) pages /\ length rf = length (cells Z pages) /\
    read_col_masked_pinned Z rf pages = Some [W None; W (Some 1%Z); W (Some 2%Z)] /\
    select rf (cells Z pages) = [None; Some 1%Z; Some 3%Z].
Proof.
  exists [(V1defi, [None; Some 1%Z]); (V1defi, [Some 2%Z; Some 3%Z])], [true; true; false; true].
  split; [repeat constructor; intros; discriminate|]. split; [reflexivity|]. split; vm_compute; reflexivity.
Qed.

(* ---------- the two-pass read ----------------------------------------------------------------- *)

Lemma map_res_length {A B} (f : A -> res B) l bs : map_res f l = Ok bs -> length bs = length l.
Proof.
  revert bs. induction l as [|x r IH]; cbn [map_res]; intros bs H; [injection H as <-; reflexivity|].
  destruct (f x) as [b|e]; cbn [bind] in H; [|discriminate].
  destruct (map_res f r) as [bs'|e]; cbn [bind] in H; [|discriminate].
  injection H as <-. cbn [length]. rewrite (IH bs' eq_refl). reflexivity.
Qed.

(* numpy boolean indexing with the mask computed row by row = filter *)
Lemma select_map_res {A} (f : A -> res bool) l sel : map_res f l = Ok sel ->
  select sel l = filter (decided f) l.
Proof.
  revert sel. induction l as [|x r IH]; cbn [map_res]; intros sel H; [injection H as <-; reflexivity|].
  destruct (f x) as [b|e] eqn:E; cbn [bind] in H; [|discriminate].
  destruct (map_res f r) as [bs'|e]; cbn [bind] in H; [|discriminate].
  injection H as <-. cbn [select filter]. unfold decided at 1. rewrite E. rewrite (IH bs' eq_refl). destruct b; reflexivity.
Qed.

Lemma count_true_select {A} sel (l : list A) : length sel = length l -> count_true sel = length (select sel l).
Proof. intros H. symmetry. apply select_length. exact H. Qed.

Section TwoPassProofs.
  Variable R : Type.
  Variable cell : R -> string -> pv.
  Variable fv : pv -> pv -> pv -> pv -> res pv.
  Variable conv : string -> string -> pv -> pv * pv.
  Notation rowgroup := (rowgroup R).

  (* consistent metadata: num_rows is the number of rows of the row group *)
  Definition rows_consistent (rgs : list rowgroup) : Prop :=
    forall rg, In rg rgs -> rg_num_rows rg = Z.of_nat (length (rg_rows rg)).

  (* reading every kept row group with its slice of the mask = masking the concatenation *)
  Lemma second_pass_select : forall kept sel, rows_consistent kept ->
    length sel = length (flat_map rg_rows kept) ->
    second_pass R kept sel = select sel (flat_map rg_rows kept).
  Proof.
    induction kept as [|rg kept IH]; intros sel Hc Hl; [cbn; rewrite select_nil_r; reflexivity|].
    cbn [second_pass flat_map]. cbn [flat_map] in Hl. rewrite app_length in Hl.
    assert (Z.to_nat (rg_num_rows rg) = length (rg_rows rg)) as En by (rewrite (Hc rg (or_introl eq_refl)); apply Nat2Z.id).
    rewrite En. set (n := length (rg_rows rg)) in *.
    assert (length (firstn n sel) = n) as Lf by (rewrite firstn_length; lia).
    replace (select sel (rg_rows rg ++ flat_map rg_rows kept))
      with (select (firstn n sel ++ skipn n sel) (rg_rows rg ++ flat_map rg_rows kept)) by (rewrite firstn_skipn; reflexivity).
    rewrite select_app by exact Lf.
    rewrite IH; [|intros x Hx; apply Hc; right; exact Hx|rewrite skipn_length; lia]. f_equal.
    destruct (Nat.eqb_spec (count_true (firstn n sel)) n) as [Ha|Ha].
    - symmetry. apply select_all; [exact Lf|rewrite Lf; exact Ha].
    - destruct (Nat.eqb_spec (count_true (firstn n sel)) 0) as [Hz|Hz]; [|reflexivity].
      symmetry. apply select_none. exact Hz.
  Qed.

  Definition row_keep (f : filters) (r : R) : bool := decided (row_sel R cell (normalize f)) r.

  Lemma filter_res_sub known rgs f kept :
    filter_row_groups R fv conv known rgs f = Ok kept -> exists keepf, kept = filter keepf rgs.
  Proof.
    unfold filter_row_groups. destruct (forallb _ _); [|discriminate]. intros H.
    apply filter_res_spec in H. destruct H as [-> _]. eexists. reflexivity.
  Qed.

  (* C13_exact: the two-pass read returns, in order, exactly the rows of the kept row groups that the
     row-level predicate selects; the count query returns that number *)
  Theorem two_pass_exact : forall known rgs f out,
    rows_consistent rgs ->
    two_pass R cell fv conv known rgs f = Ok out ->
    exists kept, filter_row_groups R fv conv known rgs f = Ok kept /\
      out = filter (row_keep f) (flat_map rg_rows kept) /\
      count_rows R cell fv conv known rgs f = Ok (length out).
  Proof.
    intros known rgs f out Hc H. unfold two_pass in H. unfold count_rows.
    destruct (filter_row_groups R fv conv known rgs f) as [kept|e] eqn:E; cbn [bind] in *; [|discriminate].
    destruct (column_filter R cell f (flat_map rg_rows kept)) as [sel|e] eqn:E2; cbn [bind] in *; [|discriminate].
    injection H as <-. exists kept. split; [reflexivity|].
    destruct (filter_res_sub _ _ _ _ E) as [kf ->].
    assert (rows_consistent (filter kf rgs)) as Hck by (intros rg Hrg; apply Hc; apply filter_In in Hrg; tauto).
    unfold column_filter in E2. pose proof (map_res_length _ _ _ E2) as Ls.
    rewrite (second_pass_select _ _ Hck Ls). split.
    - apply select_map_res. exact E2.
    - rewrite <- (count_true_select sel _ Ls). reflexivity.
  Qed.

  (* a caller-supplied mask selects exactly the masked rows *)
  Theorem masked_read_exact : forall rgs mask out,
    rows_consistent rgs -> masked_read R rgs mask = Ok out ->
    length mask = length (flat_map rg_rows rgs) /\ out = select mask (flat_map rg_rows rgs).
  Proof.
    intros rgs mask out Hc H. unfold masked_read in H.
    assert (total_rows R rgs = Z.of_nat (length (flat_map rg_rows rgs))) as Et.
    { clear H. induction rgs as [|rg rgs IH]; [reflexivity|]. cbn [total_rows fold_right flat_map]. fold (total_rows R rgs).
      rewrite app_length, Nat2Z.inj_add, IH, (Hc rg (or_introl eq_refl)); [reflexivity|]. intros x Hx. apply Hc. right. exact Hx. }
    destruct (Z.eqb_spec (Z.of_nat (length mask)) (total_rows R rgs)) as [E|E]; [|discriminate].
    injection H as <-. rewrite Et in E. apply Nat2Z.inj in E. split; [exact E|]. apply second_pass_select; assumption.
  Qed.

  (* ---------- relation to the meaning of a program (C05's sat) --------------------------------- *)

  Lemma cond_cell_sat op x c b : sat op x c = true -> cond_cell op x c = Ok b -> b = true.
  Proof.
    unfold sat, cond_cell. destruct (is_none x) eqn:Ex; [discriminate|].
    destruct (String.eqb_spec op "in") as [->|N1]; cbn [String.eqb Ascii.eqb Bool.eqb orb andb].
    { unfold ok_true, as_bool. destruct (py_in x c) as [v|e]; cbn [bind]; [|discriminate]. intros -> H. injection H as <-. reflexivity. }
    destruct (String.eqb_spec op "not in") as [->|N2]; cbn [String.eqb Ascii.eqb Bool.eqb orb andb].
    { unfold ok_true, as_bool. destruct (py_not_in x c) as [v|e]; cbn [bind]; [|discriminate]. intros -> H. injection H as <-. reflexivity. }
    destruct (String.eqb_spec op "==") as [->|N3]; cbn [String.eqb Ascii.eqb Bool.eqb orb andb].
    { unfold ok_true, as_bool. destruct (py_eq x c) as [v|e]; cbn [bind]; [|discriminate]. intros -> H. injection H as <-. reflexivity. }
    destruct (String.eqb_spec op "=") as [->|N4]; cbn [String.eqb Ascii.eqb Bool.eqb orb andb].
    { unfold ok_true, as_bool. destruct (py_eq x c) as [v|e]; cbn [bind]; [|discriminate]. intros -> H. injection H as <-. reflexivity. }
    destruct (String.eqb_spec op "!=") as [->|N5]; cbn [String.eqb Ascii.eqb Bool.eqb orb andb].
    { unfold ok_true, as_bool. destruct (py_ne x c) as [v|e]; cbn [bind]; [|discriminate]. intros -> H. injection H as <-. reflexivity. }
    destruct (String.eqb_spec op "<") as [->|N6]; cbn [String.eqb Ascii.eqb Bool.eqb orb andb].
    { unfold ok_true, as_bool. destruct (py_lt x c) as [v|e]; cbn [bind]; [|discriminate]. intros -> H. injection H as <-. reflexivity. }
    destruct (String.eqb_spec op "<=") as [->|N7]; cbn [String.eqb Ascii.eqb Bool.eqb orb andb].
    { unfold ok_true, as_bool. destruct (py_le x c) as [v|e]; cbn [bind]; [|discriminate]. intros -> H. injection H as <-. reflexivity. }
    destruct (String.eqb_spec op ">") as [->|N8]; cbn [String.eqb Ascii.eqb Bool.eqb orb andb].
    { unfold ok_true, as_bool. destruct (py_gt x c) as [v|e]; cbn [bind]; [|discriminate]. intros -> H. injection H as <-. reflexivity. }
    destruct (String.eqb_spec op ">=") as [->|N9]; cbn [String.eqb Ascii.eqb Bool.eqb orb andb].
    { unfold ok_true, as_bool. destruct (py_ge x c) as [v|e]; cbn [bind]; [|discriminate]. intros -> H. injection H as <-. reflexivity. }
    discriminate.
  Qed.

  Lemma all_res_sat r g b : sat_and R cell r g = true -> all_res (row_cond R cell r) g = Ok b -> b = true.
  Proof.
    revert b. induction g as [|f g IH]; cbn [all_res]; intros b Hs H; [injection H as <-; reflexivity|].
    unfold sat_and in Hs. cbn [forallb] in Hs. apply andb_true_iff in Hs. destruct Hs as [Hf Hg].
    destruct (row_cond R cell r f) as [b1|e] eqn:E1; cbn [bind] in H; [|discriminate].
    destruct (all_res (row_cond R cell r) g) as [b2|e] eqn:E2; cbn [bind] in H; [|discriminate].
    injection H as <-. rewrite (cond_cell_sat _ _ _ _ Hf E1), (IH b2 Hg eq_refl). reflexivity.
  Qed.

  Lemma some_res_sat r dnf b : sat_dnf R cell r dnf = true -> some_res (all_res (row_cond R cell r)) dnf = Ok b -> b = true.
  Proof.
    revert b. induction dnf as [|g dnf IH]; cbn [some_res]; intros b Hs H; [discriminate|].
    unfold sat_dnf in Hs. cbn [existsb] in Hs.
    destruct (all_res (row_cond R cell r) g) as [b1|e] eqn:E1; cbn [bind] in H; [|discriminate].
    destruct (some_res (all_res (row_cond R cell r)) dnf) as [b2|e] eqn:E2; cbn [bind] in H; [|discriminate].
    injection H as <-. apply orb_true_iff in Hs. destruct Hs as [Hg|Hd].
    - rewrite (all_res_sat _ _ _ Hg E1). reflexivity.
    - rewrite (IH b2 Hd eq_refl). apply orb_true_r.
  Qed.

  (* no satisfying row is lost by the two passes together (with C05's hypotheses on the metadata) *)
  Theorem two_pass_complete : forall good known rgs f out,
    leaf_sound good fv -> prog_good good (normalize f) ->
    (forall rg, In rg rgs -> rg_valid R cell conv (normalize f) rg) ->
    rows_consistent rgs ->
    two_pass R cell fv conv known rgs f = Ok out ->
    forall r, In r (flat_map rg_rows rgs) -> sat_dnf R cell r (normalize f) = true -> In r out.
  Proof.
    intros good known rgs f out Hleaf Hg Hv Hc H r Hr Hs.
    destruct (two_pass_exact _ _ _ _ Hc H) as [kept [Ek [-> _]]].
    destruct (prune_sound R cell fv conv good Hleaf _ _ _ _ Hg Hv Ek) as [_ Hin].
    apply in_flat_map in Hr. destruct Hr as [rg [Hrg Hrr]].
    apply filter_In. split.
    - apply in_flat_map. exists rg. split; [exact (Hin rg r Hrg Hrr Hs)|exact Hrr].
    - unfold row_keep, decided.
      unfold two_pass in H. rewrite Ek in H. cbn [bind] in H.
      destruct (column_filter R cell f (flat_map rg_rows kept)) as [sel|e] eqn:E2; cbn [bind] in H; [|discriminate].
      unfold column_filter in E2.
      assert (In r (flat_map rg_rows kept)) as Hrk by (apply in_flat_map; exists rg; split; [exact (Hin rg r Hrg Hrr Hs)|exact Hrr]).
      destruct (map_res_in _ _ _ E2 r Hrk) as [b [Hb _]]. rewrite Hb.
      rewrite (some_res_sat _ _ _ Hs Hb). reflexivity.
  Qed.

  (* every returned row satisfies the row-level predicate, which on rows whose deciding cells all hold a
     value is the meaning of the program *)
  Lemma cond_cell_nonnull op x c : In op ops -> is_none x = false ->
    cond_cell op x c = Ok true -> sat op x c = true.
  Proof.
    intros Hop Hx. unfold ops, scalar_ops, list_ops in Hop. cbn [app In] in Hop.
    unfold sat, cond_cell. rewrite Hx.
    repeat (destruct Hop as [<-|Hop];
            [cbn [String.eqb Ascii.eqb Bool.eqb orb andb]; unfold ok_true, as_bool;
             match goal with |- bind ?p _ = _ -> _ => destruct p as [v|e]; cbn [bind]; [intros H; injection H as ->; reflexivity|discriminate] end|]).
    contradiction.
  Qed.
End TwoPassProofs.

(* ---------- exactness over ALL rows of the dataset --------------------------------------------- *)

Section AllRows.
  Variable R : Type.
  Variable cell : R -> string -> pv.
  Variable fv : pv -> pv -> pv -> pv -> res pv.
  Variable conv : string -> string -> pv -> pv * pv.
  Notation rowgroup := (rowgroup R).

  (* every cell a condition of the program looks at holds a value, and the operators are the nine of the grammar *)
  Definition decided_row (dnf : list (list cond)) (r : R) : Prop :=
    forall g f, In g dnf -> In f g -> is_none (cell r (cname f)) = false /\ In (cop f) ops.

  Lemma all_res_true_sat r g : (forall f, In f g -> is_none (cell r (cname f)) = false /\ In (cop f) ops) ->
    all_res (row_cond R cell r) g = Ok true -> sat_and R cell r g = true.
  Proof.
    induction g as [|f g IH]; intros Hd H; [reflexivity|].
    cbn [all_res] in H.
    destruct (row_cond R cell r f) as [b1|e] eqn:E1; cbn [bind] in H; [|discriminate].
    destruct (all_res (row_cond R cell r) g) as [b2|e] eqn:E2; cbn [bind] in H; [|discriminate].
    injection H as H. apply andb_true_iff in H. destruct H as [-> ->].
    unfold sat_and. cbn [forallb]. apply andb_true_iff. split.
    - destruct (Hd f (or_introl eq_refl)) as [Hn Ho]. unfold sat_cond. apply cond_cell_nonnull; assumption.
    - apply IH; [intros f' Hf'; apply Hd; right; exact Hf'|reflexivity].
  Qed.

  Lemma some_res_true_sat r dnf : decided_row dnf r ->
    some_res (all_res (row_cond R cell r)) dnf = Ok true -> sat_dnf R cell r dnf = true.
  Proof.
    induction dnf as [|g dnf IH]; intros Hd H; [discriminate|].
    cbn [some_res] in H.
    destruct (all_res (row_cond R cell r) g) as [b1|e] eqn:E1; cbn [bind] in H; [|discriminate].
    destruct (some_res (all_res (row_cond R cell r)) dnf) as [b2|e] eqn:E2; cbn [bind] in H; [|discriminate].
    injection H as H. unfold sat_dnf. cbn [existsb]. apply orb_true_iff. apply orb_true_iff in H. destruct H as [-> | ->].
    - left. apply all_res_true_sat; [intros f Hf; apply (Hd g f (or_introl eq_refl) Hf)|exact E1].
    - right. apply IH; [intros g' f Hg Hf; apply (Hd g' f (or_intror Hg) Hf)|reflexivity].
  Qed.

  Lemma filter_flat_map_sub (p : R -> bool) (kf : rowgroup -> bool) rgs :
    (forall rg, In rg rgs -> kf rg = false -> forall r, In r (rg_rows rg) -> p r = false) ->
    filter p (flat_map rg_rows (filter kf rgs)) = filter p (flat_map rg_rows rgs).
  Proof.
    induction rgs as [|rg rgs IH]; intros H; [reflexivity|].
    cbn [filter flat_map]. rewrite filter_app.
    destruct (kf rg) eqn:E.
    - cbn [flat_map]. rewrite filter_app. f_equal. apply IH. intros x Hx. apply H. right. exact Hx.
    - rewrite IH by (intros x Hx; apply H; right; exact Hx).
      assert (filter p (rg_rows rg) = []) as ->; [|reflexivity].
      pose proof (H rg (or_introl eq_refl) E) as Hr. induction (rg_rows rg) as [|r l IHl]; [reflexivity|].
      cbn [filter]. rewrite (Hr r (or_introl eq_refl)). apply IHl. intros x Hx. apply Hr. right. exact Hx.
  Qed.

  (* when no deciding cell is missing, the two-pass read is the filter of ALL rows of the dataset *)
  Theorem two_pass_all_rows : forall good known rgs f out,
    leaf_sound good fv -> prog_good good (normalize f) ->
    (forall rg, In rg rgs -> rg_valid R cell conv (normalize f) rg) ->
    rows_consistent R rgs ->
    (forall r, In r (flat_map rg_rows rgs) -> decided_row (normalize f) r) ->
    two_pass R cell fv conv known rgs f = Ok out ->
    out = filter (row_keep R cell f) (flat_map rg_rows rgs).
  Proof.
    intros good known rgs f out Hleaf Hg Hv Hc Hd H.
    destruct (two_pass_exact R cell fv conv _ _ _ _ Hc H) as [kept [Ek [-> _]]].
    unfold filter_row_groups in Ek. destruct (forallb _ _); [|discriminate].
    apply filter_res_spec in Ek. destruct Ek as [-> Hall].
    apply filter_flat_map_sub. intros rg Hrg Hk r Hr.
    destruct (row_keep R cell f r) eqn:Ekeep; [|reflexivity]. exfalso.
    unfold row_keep, decided in Ekeep.
    destruct (row_sel R cell (normalize f) r) as [[|]|e] eqn:Es; try discriminate.
    assert (sat_dnf R cell r (normalize f) = true) as Hs.
    { apply some_res_true_sat; [apply Hd; apply in_flat_map; exists rg; split; assumption|exact Es]. }
    destruct (Hall rg Hrg) as [b Hb]. unfold decided in Hk. rewrite Hb in Hk.
    rewrite (keep_rg_sat R cell fv conv good Hleaf _ _ _ _ Hg (Hv rg Hrg) Hr Hs Hb) in Hk. discriminate.
  Qed.
End AllRows.

(* the "~" operator of the row pass: rows whose (boolean) cell is falsy; a missing cell is not selected; the constant is ignored *)
Lemma cond_cell_tilde x c :
  cond_cell "~" x c = Ok (if is_none x then false else negb (truthy x)).
Proof. unfold cond_cell. cbn [String.eqb Ascii.eqb Bool.eqb]. destruct (is_none x); reflexivity. Qed.
