From Coq Require Import ZArith List Arith Lia Sorted.
From Pq Require Import Impl.Offsets.
Import ListNotations.

Lemma skipn_skipn' {A} x y (l : list A) : skipn x (skipn y l) = skipn (x + y) l.
Proof.
  revert l. induction y as [|y IH]; intros l.
  - now rewrite Nat.add_0_r.
  - rewrite Nat.add_succ_r. destruct l as [|a l]; [now rewrite !skipn_nil|]. cbn [skipn]. apply IH.
Qed.

Lemma iloc_skipn {A} s e (data : list A) : s <= e ->
  iloc s e data ++ skipn e data = skipn s data.
Proof.
  intros H. unfold iloc.
  replace (skipn e data) with (skipn (e - s) (skipn s data)).
  - apply firstn_skipn.
  - rewrite skipn_skipn'. f_equal. lia.
Qed.

(* any non-decreasing list of starts: the slices concatenate to the data from the first start on *)
Lemma slices_concat {A} (offs : list nat) s (data : list A) :
  Sorted le (s :: offs) -> concat (slices (s :: offs) data) = skipn s data.
Proof.
  revert s. induction offs as [|e r IH]; intros s Hs.
  - cbn. apply app_nil_r.
  - change (concat (slices (s :: e :: r) data)) with (iloc s e data ++ concat (slices (e :: r) data)).
    inversion Hs as [|? ? Hs' Hhd]; subst. inversion Hhd; subst.
    rewrite IH by assumption. now apply iloc_skipn.
Qed.

Theorem slices_partition {A} (offs : list nat) (data : list A) :
  Sorted le (0 :: offs) -> concat (slices (0 :: offs) data) = data.
Proof. intros H. now rewrite slices_concat. Qed.

Lemma range_steps_sorted count start c : Sorted le (range_steps count start c).
Proof.
  revert start. induction count as [|k IH]; intros start; cbn; [constructor|].
  constructor; [apply IH|]. destruct k; cbn; constructor. lia.
Qed.

Lemma range_steps_head count start c : count <> 0 -> exists r, range_steps count start c = start :: r.
Proof. destruct count; [congruence|]. intros _. cbn. eauto. Qed.

Lemma py_range0_shape n c : 0 < c -> (n = 0 /\ py_range0 n c = []) \/ (0 < n /\ exists r, py_range0 n c = 0 :: r).
Proof.
  intros Hc. unfold py_range0. destruct n as [|n].
  - left. split; [reflexivity|]. replace ((0 + c - 1) / c) with 0; [reflexivity|].
    symmetry. apply Nat.div_small. lia.
  - right. split; [lia|]. apply range_steps_head.
    assert (1 <= (S n + c - 1) / c).
    { apply Nat.div_le_lower_bound; lia. }
    lia.
Qed.

Lemma py_range0_sorted n c : Sorted le (py_range0 n c).
Proof. apply range_steps_sorted. Qed.

(* C01/C02/C06: the integer row-group request splits every frame into consecutive pieces that
   concatenate back to the frame, for every length and every k (k = 0 included) *)
Theorem offsets_int_partition {A} (data : list A) (k : Z) : (0 <= k)%Z ->
  concat (slices (offsets_int (length data) k) data) = data.
Proof.
  intros Hk. unfold offsets_int.
  destruct (Z.eqb_spec k 0) as [E|E]; [cbn; now rewrite app_nil_r|].
  set (c := Z.to_nat _).
  assert (Hc : 0 < c).
  { unfold c. lia. }
  destruct (py_range0_shape (length data) c Hc) as [[Hn Hr]|[Hn [r Hr]]].
  - rewrite Hr. cbn. destruct data; [reflexivity|discriminate].
  - rewrite Hr. apply slices_partition. rewrite <- Hr. apply py_range0_sorted.
Qed.

(* no empty row group is produced by the integer request *)
Lemma range_steps_lt count start c n : 0 < c -> start + (count - 1) * c < n -> count <> 0 ->
  Forall (fun s => s < n) (range_steps count start c).
Proof.
  revert start. induction count as [|k IH]; intros start Hc Hlt Hne; [congruence|].
  cbn. constructor; [nia|]. destruct k; [constructor|].
  apply IH; [assumption| |congruence]. cbn in *. nia.
Qed.

Theorem py_range0_below n c : 0 < c -> Forall (fun s => s < n) (py_range0 n c).
Proof.
  intros Hc. unfold py_range0.
  destruct (Nat.eq_dec ((n + c - 1) / c) 0) as [E|E]; [rewrite E; constructor|].
  apply range_steps_lt; [assumption| |assumption].
  assert (H := Nat.div_mod (n + c - 1) c ltac:(lia)).
  assert (H2 := Nat.mod_upper_bound (n + c - 1) c ltac:(lia)).
  set (q := (n + c - 1) / c) in *. nia.
Qed.

Lemma last_cons' {A} (fs : list A) f d : last (f :: fs) d = last fs f.
Proof.
  revert f d. induction fs as [|b fs IH]; intros f d; [reflexivity|].
  change (last (f :: b :: fs) d) with (last (b :: fs) d). now rewrite !IH.
Qed.

(* page split: the pages of a chunk concatenate to the chunk, for every length and rows-per-page *)
Lemma pairs_concat {A} (l : list nat) s (data : list A) : Sorted le (s :: l) ->
  concat (map (fun se => iloc (fst se) (snd se) data) (pairs_of (s :: l))) ++ skipn (last l s) data = skipn s data.
Proof.
  revert s. induction l as [|e r IH]; intros s Hs; [reflexivity|].
  change (pairs_of (s :: e :: r)) with ((s, e) :: pairs_of (e :: r)).
  cbn [map concat fst snd]. inversion Hs as [|? ? Hs' Hhd]; subst. inversion Hhd; subst.
  rewrite <- app_assoc.
  rewrite last_cons'.
  rewrite IH by assumption. now apply iloc_skipn.
Qed.

Lemma sorted_app_last l n : Sorted le l -> Forall (fun s => s < n) l -> Sorted le (l ++ [n]).
Proof.
  induction l as [|a l IH]; intros Hs Hf; cbn; [repeat constructor|].
  inversion Hs; subst. inversion Hf; subst. constructor; [now apply IH|].
  destruct l; cbn; constructor; [lia|]. match goal with H : HdRel _ _ _ |- _ => inversion H; subst; assumption end.
Qed.

Theorem pages_partition {A} rpp (data : list A) : 0 < rpp -> concat (pages rpp data) = data.
Proof.
  intros Hc. unfold pages, page_bounds.
  destruct (py_range0_shape (length data) rpp Hc) as [[Hn Hr]|[Hn [r Hr]]].
  - rewrite Hr. cbn. destruct data; [reflexivity|discriminate].
  - assert (Hs : Sorted le (py_range0 (length data) rpp ++ [length data])).
    { apply sorted_app_last; [apply py_range0_sorted|now apply py_range0_below]. }
    rewrite Hr in *. cbn [app] in *.
    pose proof (pairs_concat (r ++ [length data]) 0 data Hs) as P.
    rewrite last_last in P. rewrite skipn_all in P. rewrite app_nil_r in P. exact P.
Qed.
