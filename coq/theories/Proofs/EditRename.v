(* The repaired _sort_part_names (Edit.sort_pnames_fixed) keeps the invariant and the abstract content
   (property C09): the hypothesis `sortp_ok` of Proofs/EditProofs.v holds for it.                     *)
From Coq Require Import NArith ZArith Arith List Bool Lia Permutation.
From Pq Require Import Base.Bytes Proofs.BytesProofs Dataset.FS Dataset.FsPaths Dataset.Crash Proofs.CrashProofs
  Dataset.Reject Proofs.RejectProofs Dataset.Edit Proofs.EditProofs.
Import ListNotations.

(* ---------- one rename, a pass of renames ---------- *)
Lemma lookup_rename_file a b s v : lookup a s = Some v ->
  exists s1, rename_file a b s = Some s1 /\
    forall q, lookup q s1 = if bytes_eqb q b then Some v else if bytes_eqb q a then None else lookup q s.
Proof.
  intros H. unfold rename_file. rewrite H. eexists. split; [reflexivity|]. intros q.
  destruct (bytes_eqb_spec q b) as [E|E].
  - subst q. apply lookup_set_same.
  - rewrite lookup_set_other by (apply bytes_eqb_false; congruence).
    rewrite (lookup_filter_key (fun k => negb (bytes_eqb a k))). rewrite (bytes_eqb_sym a q).
    now destruct (bytes_eqb q a).
Qed.

Definition after (mv : list (path * path)) (s : fs) (q : path) : option bytes :=
  match find (fun ab => bytes_eqb (snd ab) q) mv with
  | Some ab => lookup (fst ab) s
  | None => if mem_p q (map fst mv) then None else lookup q s
  end.

Lemma find_none_intro {A} (f : A -> bool) l : (forall x, In x l -> f x = false) -> find f l = None.
Proof. induction l as [|x l IH]; cbn; intros H; [reflexivity|]. rewrite (H x (or_introl eq_refl)). apply IH. intros; apply H; now right. Qed.

Lemma rename_all_spec mv : forall s, NoDup (map fst mv ++ map snd mv) ->
  (forall ab, In ab mv -> lookup (fst ab) s <> None) ->
  exists s', rename_all mv s = Some s' /\ forall q, lookup q s' = after mv s q.
Proof.
  induction mv as [|[a b] r IH]; intros s N Hs.
  - exists s. split; [reflexivity|]. intros q. reflexivity.
  - cbn [map app fst snd] in N.
    assert (Na : ~ In a (map fst r ++ b :: map snd r)) by (inversion N; assumption).
    assert (N1 : NoDup (map fst r ++ b :: map snd r)) by (inversion N; assumption).
    assert (Nb : ~ In b (map fst r ++ map snd r)) by (apply NoDup_remove_2 in N1; exact N1).
    assert (N2 : NoDup (map fst r ++ map snd r)) by (apply NoDup_remove_1 in N1; exact N1).
    assert (Hab : a <> b) by (intros E; apply Na, in_or_app; right; left; now symmetry).
    destruct (lookup a s) as [v|] eqn:Ea; [|exfalso; apply (Hs (a, b)); [now left | exact Ea]].
    destruct (lookup_rename_file a b s v Ea) as [s1 [E1 L1]].
    assert (Hs1 : forall ab, In ab r -> lookup (fst ab) s1 <> None).
    { intros [a' b'] Hin. cbn [fst]. rewrite L1.
      rewrite bytes_eqb_false by (intros E; subst a'; apply Nb, in_or_app; left; apply in_map_iff; now exists (b, b')).
      rewrite bytes_eqb_false by (intros E; subst a'; apply Na, in_or_app; left; apply in_map_iff; now exists (a, b')).
      apply (Hs (a', b')). now right. }
    destruct (IH s1 N2 Hs1) as [s' [E' L']]. exists s'. split; [cbn [rename_all]; now rewrite E1|].
    intros q. rewrite L'. unfold after. cbn [find map fst snd].
    destruct (bytes_eqb_spec b q) as [Eq|Eq].
    + subst q. rewrite find_none_intro.
      * replace (mem_p b (map fst r)) with false by (symmetry; apply mem_p_false; intros Hin; apply Nb, in_or_app; now left).
        rewrite L1, bytes_eqb_refl. cbn [fst]. now rewrite Ea.
      * intros [a' b'] Hin. cbn [snd]. apply bytes_eqb_false. intros E. subst b'. apply Nb, in_or_app. right.
        apply in_map_iff. now exists (a', b).
    + destruct (find (fun ab => bytes_eqb (snd ab) q) r) as [[a' b']|] eqn:Ef.
      * apply find_some in Ef. destruct Ef as [Hin _]. cbn [fst]. rewrite L1.
        rewrite bytes_eqb_false by (intros E; subst a'; apply Nb, in_or_app; left; apply in_map_iff; now exists (b, b')).
        rewrite bytes_eqb_false by (intros E; subst a'; apply Na, in_or_app; left; apply in_map_iff; now exists (a, b')).
        reflexivity.
      * cbn [mem_p existsb]. fold (mem_p q (map fst r)). destruct (mem_p q (map fst r)); [now rewrite orb_true_r|].
        rewrite orb_false_r, L1. rewrite (bytes_eqb_false q b) by congruence. reflexivity.
Qed.

Lemma NoDup_map_inj_on {A B} (f : A -> B) l : NoDup l ->
  (forall x y, In x l -> In y l -> f x = f y -> x = y) -> NoDup (map f l).
Proof.
  induction l as [|a l IH]; cbn; intros N H; [constructor|]. inversion N; subst. constructor.
  - intros Hin. apply in_map_iff in Hin. destruct Hin as [y [E Hy]]. assert (y = a) by (apply H; auto). subst y. contradiction.
  - apply IH; auto.
Qed.

Section Pass.
  Context {A : Type} (f g : A -> path).
  Definition moves (l : list A) : list (path * path) := map (fun y => (f y, g y)) l.

  Lemma find_dst l x : In x l -> (forall y, In y l -> g y = g x -> y = x) ->
    find (fun ab => bytes_eqb (snd ab) (g x)) (moves l) = Some (f x, g x).
  Proof.
    induction l as [|y l IH]; intros Hin Hinj; [contradiction|]. cbn [moves map find snd].
    destruct (bytes_eqb_spec (g y) (g x)) as [E|E].
    - rewrite (Hinj y (or_introl eq_refl) E). reflexivity.
    - destruct Hin as [Hin|Hin]; [subst; congruence|]. apply IH; [exact Hin | intros z Hz; apply Hinj; now right].
  Qed.

  Lemma find_dst_none l q : (forall y, In y l -> g y <> q) -> find (fun ab => bytes_eqb (snd ab) q) (moves l) = None.
  Proof.
    intros H. apply find_none_intro. intros ab Hin. apply in_map_iff in Hin. destruct Hin as [y [E Hy]]. subst ab. cbn [snd].
    apply bytes_eqb_false. now apply H.
  Qed.

  Lemma after_hit l s x : In x l -> (forall y, In y l -> g y = g x -> y = x) -> after (moves l) s (g x) = lookup (f x) s.
  Proof. intros Hin Hinj. unfold after. now rewrite (find_dst l x Hin Hinj). Qed.

  Lemma after_miss l s q : (forall y, In y l -> g y <> q) ->
    after (moves l) s q = if mem_p q (map f l) then None else lookup q s.
  Proof. intros H. unfold after. rewrite (find_dst_none l q H). unfold moves. now rewrite map_map. Qed.

  Lemma after_some l s q : after (moves l) s q <> None ->
    (exists x, In x l /\ q = g x) \/ ((forall y, In y l -> g y <> q) /\ ~ In q (map f l) /\ lookup q s <> None).
  Proof.
    unfold after. destruct (find (fun ab => bytes_eqb (snd ab) q) (moves l)) as [ab|] eqn:Ef; intros H.
    - left. apply find_some in Ef. destruct Ef as [Hin E]. apply in_map_iff in Hin. destruct Hin as [x [Ex Hx]]. subst ab.
      cbn [snd] in E. exists x. split; [exact Hx | symmetry; now apply bytes_eqb_true].
    - right. pose proof (find_none _ _ Ef) as Hn. unfold moves in H. rewrite map_map in H. cbn [fst] in H.
      destruct (mem_p q (map f l)) eqn:M; [congruence|]. split; [|split; [now apply mem_p_false | exact H]].
      intros y Hy E. specialize (Hn (f y, g y)). cbn [snd] in Hn. rewrite E, bytes_eqb_refl in Hn.
      assert (true = false) by (apply Hn; apply in_map_iff; exists y; split; [now rewrite E | exact Hy]). discriminate.
  Qed.
End Pass.

(* ---------- indexed ---------- *)
Lemma indexed_ge sum : forall k i p, In (i, p) (indexed k sum) -> (k <= i)%N.
Proof.
  induction sum as [|[q r] sum IH]; intros k i p H; [contradiction|]. cbn in H. destruct H as [H|H].
  - inversion H; subst. lia.
  - specialize (IH _ _ _ H). lia.
Qed.

Lemma indexed_snd sum : forall k, map snd (indexed k sum) = map fst sum.
Proof. induction sum as [|[q r] sum IH]; intros k; cbn; [reflexivity|]. now rewrite IH. Qed.

Lemma indexed_nodup sum : forall k, NoDup (map fst (indexed k sum)).
Proof.
  induction sum as [|[q r] sum IH]; intros k; cbn; [constructor|]. constructor; [|apply IH].
  intros Hin. apply in_map_iff in Hin. destruct Hin as [[i p] [E H]]. cbn in E. subst i. apply indexed_ge in H. lia.
Qed.

Lemma indexed_in sum : forall k p r, In (p, r) sum -> exists i, In (i, p) (indexed k sum).
Proof.
  induction sum as [|[q r'] sum IH]; intros k p r H; [contradiction|]. destruct H as [H|H].
  - inversion H; subst. exists k. now left.
  - destruct (IH (k + 1)%N p r H) as [i Hi]. exists i. now right.
Qed.

Lemma first_idx_indexed sum : forall i seen, NoDup (map fst sum) -> (forall p, In p (map fst sum) -> ~ In p seen) ->
  first_idx i sum seen = indexed i sum.
Proof.
  induction sum as [|[q r] sum IH]; intros i seen N H; [reflexivity|]. cbn [first_idx indexed]. cbn in N. inversion N; subst.
  replace (mem_p q seen) with false by (symmetry; apply mem_p_false; apply H; now left).
  f_equal. apply IH; [assumption|]. intros p Hp [E|Hs]; [subst; contradiction | apply (H p); [now right | exact Hs]].
Qed.

Lemma part_id_tmp x : part_id (x ++ s_tmp) = None.
Proof.
  unfold part_id. rewrite rev_app_distr. change (rev s_tmp) with [112; 109; 116; 46]%N. cbn [app].
  set (t := rev x). cbv beta iota zeta.
  match goal with |- (if ?b then _ else _) = _ => destruct b end; reflexivity.
Qed.

Lemma total_map_snd (f : entry -> entry) l : (forall e, snd (f e) = snd e) -> total (map f l) = total l.
Proof. intros H. induction l as [|e l IH]; [reflexivity|]. cbn [map]. now rewrite !total_cons, IH, H. Qed.

(* ---------- the repaired _sort_part_names ---------- *)
Definition needs (ip : N * path) : bool := negb (opt_N_eqb (part_id (snd ip)) (fst ip)).
Definition g_tmp (ip : N * path) : path := tmp_name (fst ip) (snd ip).
Definition g_fin (ip : N * path) : path := final_name (fst ip) (snd ip).

Lemma find_some_intro {A} (f : A -> bool) l x : In x l -> f x = true -> exists y, find f l = Some y.
Proof.
  intros Hin Hf. destruct (find f l) as [y|] eqn:E; [now exists y|]. pose proof (find_none _ _ E x Hin). congruence.
Qed.

Lemma relabel_snd rn e : snd (relabel rn e) = snd e.
Proof. unfold relabel. match goal with |- context [find ?f rn] => destruct (find f rn) end; reflexivity. Qed.

Theorem sort_pnames_fixed_ok s : inv s ->
  exists s', sort_pnames_fixed s = Some s' /\ inv s' /\ abs s' = abs s /\ st_part s' = st_part s.
Proof.
  intros I. pose proof I as [A [B [Cn [D [E F]]]]].
  set (sum := st_sum s) in *. set (d := st_dir s) in *. set (idx := indexed 0 sum).
  set (rn := filter needs idx).
  (* the list of renames *)
  assert (P1 : renames sum = Some rn).
  { unfold renames. replace (forallb _ sum) with true.
    - rewrite first_idx_indexed; [reflexivity | exact Cn | intros p _ []].
    - symmetry. apply forallb_forall. intros e He. destruct (well_named_part_id _ (E e He)) as [n Hn]. now rewrite Hn. }
  (* facts about indices *)
  assert (idx_path : forall i p, In (i, p) idx -> In p (map fst sum)).
  { intros i p H. rewrite <- (indexed_snd sum 0). apply in_map_iff. now exists (i, p). }
  assert (idx_uni_i : forall i p q, In (i, p) idx -> In (i, q) idx -> p = q).
  { intros i p q H1 H2. pose proof (NoDup_map_inj_in fst idx (i, p) (i, q) (indexed_nodup sum 0) H1 H2 eq_refl) as X. now inversion X. }
  assert (idx_uni_p : forall i j p, In (i, p) idx -> In (j, p) idx -> i = j).
  { intros i j p H1 H2. assert (N : NoDup (map snd idx)) by (unfold idx; rewrite indexed_snd; exact Cn).
    pose proof (NoDup_map_inj_in snd idx (i, p) (j, p) N H1 H2 eq_refl) as X. now inversion X. }
  assert (rn_idx : forall x, In x rn -> In x idx) by (intros x H; apply filter_In in H; tauto).
  assert (named : forall i p, In (i, p) idx -> exists dd n, p = join dd (part_name n) /\ no_nl dd = true /\ dir_of p = dd).
  { intros i p H. apply idx_path in H. apply in_map_iff in H. destruct H as [e [Ee He]]. destruct (E e He) as [dd [n [Ep [Hnl _]]]].
    exists dd, n. rewrite Ee in Ep. split; [exact Ep|]. split; [now apply no_nl_spec | rewrite Ep; apply dir_of_part]. }
  assert (fin_pid : forall i p, In (i, p) idx -> part_id (final_name i p) = Some i).
  { intros i p H. destruct (named i p H) as [dd [n [_ [Hnl Hd]]]]. unfold final_name. rewrite Hd. now apply part_id_join. }
  assert (fin_inj : forall x y, In x idx -> In y idx -> g_fin x = g_fin y -> x = y).
  { intros [i p] [j q] Hx Hy Eq. unfold g_fin in Eq. cbn [fst snd] in Eq.
    assert (i = j) by (pose proof (fin_pid i p Hx) as X; rewrite Eq, (fin_pid j q Hy) in X; congruence).
    subst j. now rewrite (idx_uni_i i p q Hx Hy). }
  assert (tmp_inj : forall x y, In x idx -> In y idx -> g_tmp x = g_tmp y -> x = y).
  { intros x y Hx Hy Eq. apply (fin_inj x y Hx Hy). unfold g_tmp, tmp_name in Eq. now apply app_inv_tail in Eq. }
  assert (src_pid : forall i p, In (i, p) idx -> exists n, part_id p = Some n).
  { intros i p H. destruct (named i p H) as [dd [n [Ep [Hnl _]]]]. exists n. rewrite Ep. now apply part_id_join. }
  assert (Nidx : NoDup idx) by (eapply NoDup_map_inv; apply (indexed_nodup sum 0)).
  assert (Nrn : NoDup rn) by now apply NoDup_filter.
  (* pass 1 *)
  assert (N1 : NoDup (map fst (moves snd g_tmp rn) ++ map snd (moves snd g_tmp rn))).
  { unfold moves. rewrite !map_map. cbn [fst snd]. apply NoDup_app_intro.
    - apply NoDup_map_filter. unfold idx. rewrite indexed_snd. exact Cn.
    - apply NoDup_map_inj_on; [exact Nrn | intros x y Hx Hy; apply tmp_inj; auto].
    - intros q Hq Ht. apply in_map_iff in Hq. destruct Hq as [[i p] [Eq Hx]]. cbn in Eq. subst q.
      apply in_map_iff in Ht. destruct Ht as [y [Ey _]]. destruct (src_pid i p (rn_idx _ Hx)) as [n Hn].
      rewrite <- Ey in Hn. unfold g_tmp, tmp_name in Hn. rewrite part_id_tmp in Hn. discriminate. }
  assert (S1 : forall ab, In ab (moves snd g_tmp rn) -> lookup (fst ab) d <> None).
  { intros ab Hin. apply in_map_iff in Hin. destruct Hin as [[i p] [Eab Hx]]. subst ab. cbn [fst snd].
    pose proof (idx_path i p (rn_idx _ Hx)) as Hp. apply in_map_iff in Hp. destruct Hp as [e [Ee He]]. rewrite <- Ee, (A e He). discriminate. }
  destruct (rename_all_spec _ d N1 S1) as [d1 [R1 L1]].
  (* pass 2 *)
  assert (N2 : NoDup (map fst (moves g_tmp g_fin rn) ++ map snd (moves g_tmp g_fin rn))).
  { unfold moves. rewrite !map_map. cbn [fst snd]. apply NoDup_app_intro.
    - apply NoDup_map_inj_on; [exact Nrn | intros x y Hx Hy; apply tmp_inj; auto].
    - apply NoDup_map_inj_on; [exact Nrn | intros x y Hx Hy; apply fin_inj; auto].
    - intros q Hq Ht. apply in_map_iff in Hq. destruct Hq as [x [Eq Hx]]. apply in_map_iff in Ht. destruct Ht as [[j p] [Ey Hy]].
      pose proof (fin_pid j p (rn_idx _ Hy)) as X. unfold g_fin in Ey. cbn [fst snd] in Ey. rewrite Ey, <- Eq in X.
      unfold g_tmp, tmp_name in X. rewrite part_id_tmp in X. discriminate. }
  assert (T1 : forall x, In x rn -> lookup (g_tmp x) d1 = lookup (snd x) d).
  { intros x Hx. rewrite L1. apply (after_hit snd g_tmp rn d x Hx). intros y Hy Ey. apply tmp_inj; auto. }
  assert (S2 : forall ab, In ab (moves g_tmp g_fin rn) -> lookup (fst ab) d1 <> None).
  { intros ab Hin. apply in_map_iff in Hin. destruct Hin as [x [Eab Hx]]. subst ab. cbn [fst]. rewrite (T1 x Hx).
    apply (S1 (snd x, g_tmp x)). apply in_map_iff. now exists x. }
  destruct (rename_all_spec _ d1 N2 S2) as [d2 [R2 L2]].
  exists {| st_dir := d2; st_sum := map (relabel rn) sum; st_num := st_num s; st_part := st_part s; st_sch := st_sch s |}.
  split.
  { unfold sort_pnames_fixed. fold sum. rewrite P1. fold d.
    change (map (fun ip : N * path => (snd ip, tmp_name (fst ip) (snd ip))) rn) with (moves snd g_tmp rn). rewrite R1.
    change (map (fun ip : N * path => (tmp_name (fst ip) (snd ip), final_name (fst ip) (snd ip))) rn) with (moves g_tmp g_fin rn).
    now rewrite R2. }
  (* relabelling *)
  assert (rel_hit : forall i p r, In (i, p) rn -> relabel rn (p, r) = (final_name i p, r)).
  { intros i p r H. unfold relabel. cbn [fst snd].
    match goal with |- context [find ?f rn] => destruct (find f rn) as [[j q]|] eqn:Ef end.
    - apply find_some in Ef. destruct Ef as [Hj Eq]. cbn [snd] in Eq. apply bytes_eqb_true in Eq. subst q.
      cbn [fst]. now rewrite (idx_uni_p j i p (rn_idx _ Hj) (rn_idx _ H)).
    - exfalso. pose proof (find_none _ _ Ef (i, p) H) as X. cbn [snd] in X. rewrite bytes_eqb_refl in X. discriminate. }
  assert (rel_miss : forall p r, (forall i, ~ In (i, p) rn) -> relabel rn (p, r) = (p, r)).
  { intros p r H. unfold relabel. cbn [fst]. rewrite find_none_intro; [reflexivity|].
    intros [j q] Hj. cbn [snd]. apply bytes_eqb_false. intros Eq. subst q. exact (H j Hj). }
  assert (in_rn : forall i p, In (i, p) idx -> needs (i, p) = true -> In (i, p) rn) by (intros; apply filter_In; now split).
  assert (not_rn : forall i p, In (i, p) idx -> needs (i, p) = false -> (forall j, ~ In (j, p) rn) /\ part_id p = Some i).
  { intros i p Hi Hn. split.
    - intros j Hj. assert (j = i) by (apply (idx_uni_p j i p); auto). subst j. apply filter_In in Hj. destruct Hj as [_ X]. congruence.
    - unfold needs in Hn. cbn [fst snd] in Hn. apply negb_false_iff in Hn. unfold opt_N_eqb in Hn.
      destruct (part_id p) as [n|]; [|discriminate]. apply N.eqb_eq in Hn. now subst. }
  (* lookups in the final directory *)
  assert (look_hit : forall i p, In (i, p) rn -> lookup (final_name i p) d2 = lookup p d).
  { intros i p H. rewrite L2. change (final_name i p) with (g_fin (i, p)).
    rewrite (after_hit g_tmp g_fin rn d1 (i, p) H) by (intros y Hy Ey; apply fin_inj; auto). now rewrite (T1 _ H). }
  assert (look_miss : forall i p, In (i, p) idx -> needs (i, p) = false -> lookup p d2 = lookup p d).
  { intros i p Hi Hn. destruct (not_rn i p Hi Hn) as [Nr Pp].
    rewrite L2, (after_miss g_tmp g_fin rn d1 p).
    - replace (mem_p p (map g_tmp rn)) with false.
      + rewrite L1, (after_miss snd g_tmp rn d p).
        * replace (mem_p p (map snd rn)) with false; [reflexivity|]. symmetry. apply mem_p_false. intros Hin.
          apply in_map_iff in Hin. destruct Hin as [[j q] [Eq Hj]]. cbn in Eq. subst q. exact (Nr j Hj).
        * intros y _ Ey. rewrite <- Ey in Pp. unfold g_tmp, tmp_name in Pp. rewrite part_id_tmp in Pp. discriminate.
      + symmetry. apply mem_p_false. intros Hin. apply in_map_iff in Hin. destruct Hin as [y [Ey _]].
        rewrite <- Ey in Pp. unfold g_tmp, tmp_name in Pp. rewrite part_id_tmp in Pp. discriminate.
    - intros [j q] Hj Ey. unfold g_fin in Ey. cbn [fst snd] in Ey.
      pose proof (fin_pid j q (rn_idx _ Hj)) as X. rewrite Ey, Pp in X. inversion X; subst j.
      rewrite (idx_uni_i i q p (rn_idx _ Hj) Hi) in Hj. exact (Nr i Hj). }
  assert (rel_pid : forall i p r, In (i, p) idx -> part_id (fst (relabel rn (p, r))) = Some i).
  { intros i p r Hi. destruct (needs (i, p)) eqn:Hn.
    - rewrite (rel_hit i p r (in_rn i p Hi Hn)). cbn [fst]. now apply fin_pid.
    - destruct (not_rn i p Hi Hn) as [Nr Pp]. now rewrite (rel_miss p r Nr). }
  split.
  - repeat split; cbn [st_dir st_sum st_num st_part st_sch].
    + intros e' He'. apply in_map_iff in He'. destruct He' as [[p r] [Ee He]]. subst e'.
      destruct (indexed_in sum 0 p r He) as [i Hi]. fold idx in Hi. destruct (needs (i, p)) eqn:Hn.
      * rewrite (rel_hit i p r (in_rn i p Hi Hn)). cbn [fst snd]. rewrite (look_hit i p (in_rn i p Hi Hn)). exact (A (p, r) He).
      * destruct (not_rn i p Hi Hn) as [Nr _]. rewrite (rel_miss p r Nr). cbn [fst snd]. rewrite (look_miss i p Hi Hn). exact (A (p, r) He).
    + intros q Hq. rewrite L2 in Hq. apply after_some in Hq. rewrite map_map. destruct Hq as [[[j p] [Hj Eq]]|[Hf [Ht Hq]]].
      * pose proof (idx_path j p (rn_idx _ Hj)) as Hp. apply in_map_iff in Hp. destruct Hp as [[p' r] [Ee He]]. cbn in Ee. subst p'.
        apply in_map_iff. exists (p, r). split; [|exact He]. rewrite (rel_hit j p r Hj). exact (eq_sym Eq).
      * rewrite L1 in Hq. apply after_some in Hq. destruct Hq as [[x [Hx Eq]]|[_ [Hs Hq]]].
        -- exfalso. apply Ht. apply in_map_iff. now exists x.
        -- specialize (B q Hq). apply in_map_iff in B. destruct B as [[p r] [Ee He]]. cbn in Ee. subst p.
           apply in_map_iff. exists (q, r). split; [|exact He]. rewrite rel_miss; [reflexivity|].
           intros i Hi. apply Hs. apply in_map_iff. now exists (i, q).
    + rewrite map_map. apply NoDup_map_inj_on; [eapply NoDup_map_inv; exact Cn|].
      intros [p1 r1] [p2 r2] H1 H2 Eq. destruct (indexed_in sum 0 p1 r1 H1) as [i1 Hi1]. destruct (indexed_in sum 0 p2 r2 H2) as [i2 Hi2].
      fold idx in Hi1, Hi2. pose proof (rel_pid i1 p1 r1 Hi1) as X1. rewrite Eq, (rel_pid i2 p2 r2 Hi2) in X1. inversion X1; subst i2.
      assert (p1 = p2) by (apply (idx_uni_i i1); auto). subst p2.
      exact (NoDup_map_inj_in fst sum (p1, r1) (p1, r2) Cn H1 H2 eq_refl).
    + rewrite D. symmetry. apply total_map_snd. intros e. apply relabel_snd.
    + intros e' He'. apply in_map_iff in He'. destruct He' as [[p r] [Ee He]]. subst e'.
      destruct (indexed_in sum 0 p r He) as [i Hi]. fold idx in Hi. destruct (needs (i, p)) eqn:Hn.
      * rewrite (rel_hit i p r (in_rn i p Hi Hn)). cbn [fst]. destruct (named i p Hi) as [dd [n [_ [Hnl Hd]]]].
        exists dd, i. unfold final_name. rewrite Hd. split; [reflexivity|]. split; [now apply no_nl_spec | apply part_name_no_slash].
      * destruct (not_rn i p Hi Hn) as [Nr _]. rewrite (rel_miss p r Nr). exact (E (p, r) He).
    + intros Hn. fold sum in F. rewrite (F Hn). reflexivity.
  - split; [|reflexivity]. rewrite !abs_def. cbn [st_sum]. fold sum. rewrite map_map. apply map_ext_in. intros [p r] He.
    destruct (indexed_in sum 0 p r He) as [i Hi]. fold idx in Hi. destruct (needs (i, p)) eqn:Hn.
    + rewrite (rel_hit i p r (in_rn i p Hi Hn)). unfold absf. cbn [fst snd]. destruct (named i p Hi) as [dd [n [_ [_ Hd]]]].
      unfold final_name. rewrite Hd. now rewrite dir_of_part.
    + destruct (not_rn i p Hi Hn) as [Nr _]. now rewrite (rel_miss p r Nr).
Qed.
