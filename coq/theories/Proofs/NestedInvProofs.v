(* The spec decoder accepts exactly the shreddings of well-formed rows:
   assemble_spec sh es vs = Some rows  ->  wf_rows sh rows  /\  shred sh rows = (es, vs).
   Together with assemble_shred: shred and assemble_spec are mutually inverse bijections between
   well-formed row lists and accepted streams. *)
From Coq Require Import NArith List Bool Lia.
From Pq Require Import Format.Nested Proofs.NestedProofs.
Import ListNotations.
Open Scope N_scope.

Section Inv.
Variable V : Type.
Variable sh : shape.

Definition okel (e : elem V) : bool := elem_opt sh || is_some e.
Definition conts (xs : list (elem V)) : list entry := map (fun x => (1, elem_def sh x)) xs.
Definition ext (cur : row V) (xs : list (elem V)) : row V :=
  match cur with Some L => Some (L ++ xs) | None => None end.

Lemma open_row_inv : forall d vs c vs',
  open_row (V:=V) sh d vs = Some (c, vs') ->
  row_entries sh c = [(0, d)] /\ vs = row_values c ++ vs' /\ wf_row sh c = true /\
  (forall L, c = Some L -> L <> [] -> exists e, L = [e]).
Proof.
  intros d vs c vs' H. pose proof (max_def_gt sh) as G. unfold open_row in H.
  destruct (d <? d_empty sh) eqn:E1.
  { apply N.ltb_lt in E1. injection H as <- <-.
    assert (Ro : row_opt sh = true) by (unfold d_empty in E1; destruct (row_opt sh); [reflexivity|lia]).
    assert (d = 0) as -> by (unfold d_empty in E1; rewrite Ro in E1; lia).
    repeat split; try reflexivity; try assumption. intros L HL; discriminate. }
  destruct (d =? d_empty sh) eqn:E2.
  { apply N.eqb_eq in E2. injection H as <- <-. subst d. repeat split; try reflexivity.
    - cbn. apply orb_true_r.
    - intros L HL Ne. injection HL as <-. contradiction. }
  destruct (d =? max_def sh) eqn:E3.
  { apply N.eqb_eq in E3. destruct vs as [|v vs0]; [discriminate|]. injection H as <- <-. subst d.
    repeat split; try reflexivity.
    - cbn. apply orb_true_r.
    - intros L HL _. injection HL as <-. eauto. }
  destruct (d <? max_def sh) eqn:E4; [|discriminate]. injection H as <- <-.
  apply N.ltb_ge in E1. apply N.eqb_neq in E2. apply N.eqb_neq in E3. apply N.ltb_lt in E4.
  assert (Eo : elem_opt sh = true).
  { unfold max_def in *. destruct (elem_opt sh); [reflexivity|lia]. }
  assert (d = d_nullel sh) as -> by (unfold d_nullel, max_def in *; rewrite Eo in *; lia).
  repeat split; try reflexivity.
  - cbn. rewrite Eo. reflexivity.
  - intros L HL _. injection HL as <-. eauto.
Qed.

Lemma cont_row_inv : forall cur d vs c vs',
  cont_row (V:=V) sh cur d vs = Some (c, vs') ->
  exists L x, cur = Some L /\ L <> [] /\ c = Some (L ++ [x]) /\ d = elem_def sh x /\
              vs = elem_values [x] ++ vs' /\ okel x = true.
Proof.
  intros cur d vs c vs' H. pose proof (max_def_gt sh) as G. unfold cont_row in H.
  destruct cur as [[|e l]|]; try discriminate.
  destruct (d =? max_def sh) eqn:E3.
  { apply N.eqb_eq in E3. destruct vs as [|v vs0]; [discriminate|]. injection H as <- <-.
    exists (e :: l), (Some v). repeat split; try reflexivity; try discriminate; try assumption.
    unfold okel. apply orb_true_r. }
  destruct ((d_empty sh <? d) && (d <? max_def sh)) eqn:E4; [|discriminate].
  injection H as <- <-. apply andb_prop in E4. destruct E4 as [E4 E5].
  apply N.ltb_lt in E4. apply N.ltb_lt in E5.
  assert (Eo : elem_opt sh = true).
  { unfold max_def in *. destruct (elem_opt sh); [reflexivity|lia]. }
  exists (e :: l), None. repeat split; try reflexivity; try discriminate.
  - cbn. unfold d_nullel, max_def in *. rewrite Eo in *. lia.
  - unfold okel. rewrite Eo. reflexivity.
Qed.

Lemma asm_inv : forall es cur vs out,
  asm (V:=V) sh cur es vs = Some out ->
  exists xs rest,
    out = ext cur xs :: rest /\ es = conts xs ++ shred_entries sh rest /\
    vs = elem_values xs ++ shred_values rest /\ wf_rows sh rest = true /\
    forallb okel xs = true /\ (xs <> [] -> exists L, cur = Some L /\ L <> []).
Proof.
  induction es as [|[r d] t IH]; intros cur vs out H; cbn [asm] in H.
  - destruct vs; [|discriminate]. injection H as <-.
    exists [], []. repeat split; try reflexivity.
    + destruct cur; cbn; [rewrite app_nil_r|]; reflexivity.
    + intros C; contradiction.
  - destruct (r =? 0) eqn:R0.
    + apply N.eqb_eq in R0. subst r.
      destruct (open_row sh d vs) as [[c vs']|] eqn:Eo; [|discriminate].
      destruct (asm sh c t vs') as [o|] eqn:Ea; [|discriminate]. injection H as <-.
      destruct (open_row_inv _ _ _ _ Eo) as (O1 & O2 & O3 & O4).
      destruct (IH _ _ _ Ea) as (xs & rest & I1 & I2 & I3 & I4 & I5 & I6).
      exists [], (ext c xs :: rest). subst o t vs vs'.
      assert (Hrow : row_entries sh (ext c xs) = (0, d) :: conts xs /\ row_values (ext c xs) = row_values c ++ elem_values xs
                     /\ wf_row sh (ext c xs) = true).
      { destruct xs as [|x xs].
        - destruct c as [L|]; cbn [ext]; [rewrite app_nil_r|]; cbn [conts map elem_values]; rewrite ?app_nil_r; auto.
        - destruct (I6 ltac:(discriminate)) as (L & -> & NL).
          destruct (O4 L eq_refl NL) as [e ->]. cbn [ext app].
          cbn [row_entries] in O1. injection O1 as O1.
          cbn [row_entries]. rewrite O1. repeat split.
          + cbn [row_values elem_values]. destruct e; reflexivity.
          + cbn [wf_row] in *. unfold okel in I5.
            destruct (elem_opt sh); [reflexivity|]. cbn [orb] in *. cbn [forallb] in *.
            rewrite andb_true_r in O3. rewrite O3. exact I5. }
      destruct Hrow as (H1 & H2 & H3).
      repeat split; try reflexivity.
      * destruct cur; cbn; [rewrite app_nil_r|]; reflexivity.
      * cbn [conts map app]. unfold shred_entries. cbn [flat_map]. rewrite H1. reflexivity.
      * cbn [elem_values app]. unfold shred_values. cbn [flat_map]. rewrite H2. rewrite <- app_assoc. reflexivity.
      * cbn [wf_rows forallb]. rewrite H3. exact I4.
      * intros C; contradiction.
    + destruct (r =? 1) eqn:R1; [|discriminate]. apply N.eqb_eq in R1. subst r.
      destruct (cont_row sh cur d vs) as [[c vs']|] eqn:Ec; [|discriminate].
      destruct (cont_row_inv _ _ _ _ _ Ec) as (L & x & -> & NL & -> & -> & C5 & C6).
      destruct (IH _ _ _ H) as (xs & rest & I1 & I2 & I3 & I4 & I5 & I6).
      exists (x :: xs), rest. subst out t vs vs'. repeat split; try assumption.
      * cbn [ext]. rewrite <- app_assoc. reflexivity.
      * cbn [elem_values app]. destruct x; cbn [elem_values app]; rewrite ?app_nil_r.
        -- destruct (elem_values xs); reflexivity.
        -- reflexivity.
      * cbn [forallb]. rewrite C6, I5. reflexivity.
      * intros _. eauto.
Qed.

Theorem assemble_spec_inv : forall es (vs : list V) rows,
  assemble_spec sh es vs = Some rows -> wf_rows sh rows = true /\ shred sh rows = (es, vs).
Proof.
  intros es vs rows H. destruct es as [|[r d] t]; cbn [assemble_spec] in H.
  - destruct vs; [|discriminate]. injection H as <-. split; reflexivity.
  - destruct (r =? 0) eqn:R0; [|discriminate]. apply N.eqb_eq in R0. subst r.
    destruct (open_row sh d vs) as [[c vs']|] eqn:Eo; [|discriminate].
    destruct (open_row_inv _ _ _ _ Eo) as (O1 & O2 & O3 & O4).
    destruct (asm_inv _ _ _ _ H) as (xs & rest & I1 & I2 & I3 & I4 & I5 & I6).
    subst rows t vs vs'.
    assert (Hrow : row_entries sh (ext c xs) = (0, d) :: conts xs /\ row_values (ext c xs) = row_values c ++ elem_values xs
                   /\ wf_row sh (ext c xs) = true).
    { destruct xs as [|x xs].
      - destruct c as [L|]; cbn [ext]; [rewrite app_nil_r|]; cbn [conts map elem_values]; rewrite ?app_nil_r; auto.
      - destruct (I6 ltac:(discriminate)) as (L & -> & NL).
        destruct (O4 L eq_refl NL) as [e ->]. cbn [ext app].
        cbn [row_entries] in O1. injection O1 as O1.
        cbn [row_entries]. rewrite O1. repeat split.
        + cbn [row_values elem_values]. destruct e; reflexivity.
        + cbn [wf_row] in *. unfold okel in I5.
          destruct (elem_opt sh); [reflexivity|]. cbn [orb] in *. cbn [forallb] in *.
          rewrite andb_true_r in O3. rewrite O3. exact I5. }
    destruct Hrow as (H1 & H2 & H3). split.
    + cbn [wf_rows forallb]. rewrite H3. exact I4.
    + unfold shred, shred_entries, shred_values. cbn [flat_map]. rewrite H1, H2.
      rewrite <- app_assoc. reflexivity.
Qed.

End Inv.
