(* Proofs/PartitionMixed.v — drill levels that MIX classes (property C08, wave 3): what the reader guarantees, precisely.

   Since fix 2ae7489 a directory level holding ANY value that no guess of util._val_to_num converts (any text) is text as a whole:
   api._path_to_cats labels it with the directory texts themselves and core.read_row_group gives every row group the text of its own
   directory.  Here, on the model of the two functions, for EVERY list of drill directories (no hypothesis on the values, on their
   classes, on how many levels mix what, on the order in which the directories are met):

     drill_text_level_labels   if some directory text x' of level k is not guessable (parse_guess x' is text) then every label list the
                               reader ends up with for k is `map VStr xs` where xs holds exactly directory texts of level k (each text of
                               the level is in it) - values converted BEFORE the first text was met included
     text_level_read           on such labels the fill of read_row_group performs no conversion and finds the directory's own text:
                               row_cell = (k, VStr x)
   Levels WITHOUT any text keep the guessed values, merged under Python's == (1 and 1.0 and True are one label) - section NumericLevel:

     drill_numeric_level       if NO directory text of level k is text for the guesses, every label of k is the guess of some directory
                               text of the level, and the fill of read_row_group gives a row group a label that is == (Python's ==) to the
                               guess of its own directory text: numerically equal, not necessarily of the same kind
     numeric_level_exact_refuted   "the guessed value itself comes back" is false: directories 1 and True - the rows of True read 1       *)
From Coq Require Import NArith ZArith Bool Ascii String Arith Lia List.
From Pq Require Import Base.Bytes Impl.Partition Proofs.PartitionStr Proofs.PartitionProofs Proofs.PartitionE2E.
Import ListNotations.

Section Mixed.
  Variables F T D : Type.
  Variable feqb : F -> F -> bool.
  Variable teqb : T -> T -> bool.
  Variable deqb : D -> D -> bool.
  Variable f_eq_Z : F -> Z -> bool.
  Variable parse_float : bool -> str -> option F.
  Variable parse_time_np : bool -> str -> option T.
  Variable parse_time_fmt parse_time_pd : str -> option T.
  Variable parse_delta : str -> option D.
  Notation value := (value F T D).
  Notation pstate := (pstate F T D).
  Notation veqb := (veqb F T D feqb teqb deqb f_eq_Z).
  Notation parse_guess := (parse_guess F T D parse_float parse_time_pd parse_delta).
  Notation add_hit := (add_hit F T D feqb teqb deqb f_eq_Z parse_float parse_time_np parse_time_fmt parse_time_pd parse_delta).
  Notation cats_add := (cats_add F T D feqb teqb deqb f_eq_Z).
  Notation final_cats := (final_cats F T D).
  Notation is_vstr := (is_vstr F T D).
  Notation VStr := (@VStr F T D).
  Notation row_value := (row_value F T D parse_float parse_time_np parse_time_fmt parse_time_pd parse_delta).
  Notation row_cell := (row_cell F T D feqb teqb deqb f_eq_Z parse_float parse_time_np parse_time_fmt parse_time_pd parse_delta).

  (* invariant of the loop of _path_to_cats in the drill layout (no metadata) *)
  Record J (st : pstate) : Prop := {
    j_raw : forall k x, In (k, x) (st_seen F T D st) -> raw_has (st_raw F T D st) k x;
    j_raw_only : forall k x, raw_has (st_raw F T D st) k x -> In (k, x) (st_seen F T D st);
    j_text : forall k x, In (k, x) (st_seen F T D st) -> is_vstr (parse_guess x) = true -> mem_str k (st_strings F T D st) = true;
    j_cats : forall k x, In (k, x) (st_seen F T D st) -> exists vs, In (k, vs) (st_cats F T D st) }.

  Lemma J0 : J (st0 F T D).
  Proof. split; cbn; intros; try tauto. destruct H as [xs [H _]]. discriminate. Qed.

  Lemma cats_add_keeps k v c k' vs : In (k', vs) c -> exists vs', In (k', vs') (cats_add k v c).
  Proof.
    induction c as [|[k0 vs0] t IH]; intros H; [destruct H|]. cbn [Partition.cats_add]. destruct H as [E|H].
    - injection E as -> ->. destruct (str_eqb k k'); eexists; left; reflexivity.
    - destruct (str_eqb k k0); destruct (IH H) as [vs' H'].
      + exists vs. right. exact H.
      + exists vs'. right. exact H'.
  Qed.

  Lemma cats_add_has k v c : exists vs, In (k, vs) (cats_add k v c).
  Proof.
    induction c as [|[k0 vs0] t IH]; cbn [Partition.cats_add]; [eexists; left; reflexivity|].
    destruct (str_eqb_spec k k0) as [->|]; [eexists; left; reflexivity|]. destruct IH as [vs H]. exists vs. right. exact H.
  Qed.

  Lemma add_hit_J st kv st' : J st -> add_hit [] (Ok st) kv = Ok st' ->
    J st' /\ In kv (st_seen F T D st') /\ (forall p, In p (st_seen F T D st) -> In p (st_seen F T D st')) /\
    (forall k, mem_str k (st_strings F T D st) = true -> mem_str k (st_strings F T D st') = true).
  Proof.
    intros HJ H. unfold Partition.add_hit in H. destruct kv as [key val]. cbn [fst snd] in H.
    destruct (existsb (pair_eqb (key, val)) (st_seen F T D st)) eqn:Es.
    - injection H as <-. split; [exact HJ|]. split; [|split; auto].
      apply existsb_exists in Es. destruct Es as [p [Hp Ep]]. destruct (pair_eqb_spec (key, val) p) as [->|]; [exact Hp|discriminate].
    - set (m := if mem_str key (st_strings F T D st) then Some KStr else alist_get key []) in H.
      assert (Hm : exists tp, val_to_num F T D parse_float parse_time_np parse_time_fmt parse_time_pd parse_delta m val = Ok tp /\
                              (is_vstr (parse_guess val) = true -> is_vstr tp = true)).
      { unfold m. destruct (mem_str key (st_strings F T D st)); cbn; eexists; (split; [reflexivity|]); auto. }
      destruct Hm as [tp [Etp Htp]]. rewrite Etp in H. injection H as <-. cbn [st_seen st_raw st_strings st_cats].
      split; [|split; [left; reflexivity|split; [intros p Hp; right; exact Hp|]]].
      + split; cbn [st_seen st_raw st_strings st_cats].
        * intros k x [E|Hin]; [injection E as <- <-; apply raw_add_new|apply raw_add_mono, (j_raw st HJ), Hin].
        * intros k x Hr. apply raw_add_only in Hr. destruct Hr as [Hr|[-> ->]]; [right; apply (j_raw_only st HJ), Hr|left; reflexivity].
        * intros k x [E|Hin] Hg.
          -- injection E as <- <-. rewrite (Htp Hg). cbn [mem_str existsb]. destruct (str_eqb_spec key key); [reflexivity|congruence].
          -- pose proof (j_text st HJ k x Hin Hg) as Hk. destruct (is_vstr tp); [|exact Hk].
             cbn [mem_str existsb]. unfold mem_str in Hk. rewrite Hk. apply orb_true_r.
        * intros k x [E|Hin]; [injection E as <- <-; apply cats_add_has|].
          destruct (j_cats st HJ k x Hin) as [vs Hvs]. apply (cats_add_keeps key tp _ k vs Hvs).
      + intros k Hk. destruct (is_vstr tp); [|exact Hk]. cbn [mem_str existsb]. unfold mem_str in Hk. rewrite Hk. apply orb_true_r.
  Qed.

  Lemma fold_J hits : forall st st', J st -> fold_left (add_hit []) hits (Ok st) = Ok st' ->
    J st' /\ (forall p, In p hits -> In p (st_seen F T D st')) /\ (forall p, In p (st_seen F T D st) -> In p (st_seen F T D st')) /\
    (forall p, In p (st_seen F T D st') -> In p (st_seen F T D st) \/ In p hits).
  Proof.
    induction hits as [|kv hits IH]; intros st st' HJ H.
    - cbn in H. injection H as <-. split; [exact HJ|]. split; [intros p []|]. split; [auto|]. intros p Hp. left. exact Hp.
    - cbn [fold_left] in H. destruct (add_hit [] (Ok st) kv) as [st1| |] eqn:E1.
      + destruct (add_hit_J st kv st1 HJ E1) as [HJ1 [Hkv [Hmono _]]].
        destruct (IH st1 st' HJ1 H) as [HJ' [Hall [Hm' Honly]]]. split; [exact HJ'|]. split; [|split].
        * intros p [<-|Hp]; [apply Hm', Hkv|apply Hall, Hp].
        * intros p Hp. apply Hm', Hmono, Hp.
        * intros p Hp. destruct (Honly p Hp) as [H1|H1]; [|right; right; exact H1].
          unfold Partition.add_hit in E1. destruct (existsb (pair_eqb kv) (st_seen F T D st)).
          -- injection E1 as <-. left. exact H1.
          -- destruct (val_to_num _ _ _ _ _ _ _ _ _ _); try discriminate. injection E1 as <-. cbn [st_seen] in H1.
             destruct H1 as [<-|H1]; [right; left; reflexivity|left; exact H1].
      + rewrite fold_left_res_err in H by reflexivity. discriminate.
      + rewrite fold_left_res_err in H by reflexivity. discriminate.
  Qed.

  (* a level that holds any text is labelled by its directory texts, all of them, and by nothing else *)
  Theorem drill_text_level_labels : forall (hits : list (str * str)) st,
    fold_left (add_hit []) hits (Ok (st0 F T D)) = Ok st ->
    forall k x', In (k, x') hits -> is_vstr (parse_guess x') = true ->
    (exists labels, In (k, labels) (final_cats st)) /\
    forall labels, In (k, labels) (final_cats st) ->
      exists xs, labels = map VStr xs /\ (forall x, In x xs <-> In (k, x) hits).
  Proof.
    intros hits st H k x' Hin Hg. destruct (fold_J hits _ st J0 H) as [HJ [Hall [_ Honly]]].
    assert (Hk : mem_str k (st_strings F T D st) = true) by (apply (j_text st HJ k x'); [apply Hall, Hin|exact Hg]).
    split.
    - destruct (j_cats st HJ k x' (Hall _ Hin)) as [vs Hvs]. eexists. unfold Partition.final_cats. apply in_map_iff.
      exists (k, vs). split; [reflexivity|exact Hvs].
    - intros labels Hl. unfold Partition.final_cats in Hl. apply in_map_iff in Hl. destruct Hl as [[k0 vs] [E _]].
      cbn [fst snd] in E. injection E as -> <-. rewrite Hk.
      destruct (j_raw st HJ k x' (Hall _ Hin)) as [xs [Er _]]. rewrite Er. exists xs. split; [reflexivity|].
      intros x. split.
      + intros Hx. destruct (Honly (k, x) (j_raw_only st HJ k x (ex_intro _ xs (conj Er Hx)))) as [[]|Hh]. exact Hh.
      + intros Hx. destruct (j_raw st HJ k x (Hall _ Hx)) as [xs' [Er' Hx']]. rewrite Er in Er'. injection Er' as <-. exact Hx'.
  Qed.

  Lemma index_of_VStr x xs : In x xs -> exists i, index_of veqb (VStr x) (map VStr xs) = Some i /\ nth_error (map VStr xs) i = Some (VStr x : value).
  Proof.
    induction xs as [|y xs IH]; intros H; [destruct H|]. cbn [map index_of]. cbn [Partition.veqb].
    destruct (str_eqb_spec x y) as [->|Hn].
    - exists O. split; reflexivity.
    - destruct H as [->|H]; [congruence|]. destruct (IH H) as [i [H1 H2]]. exists (S i). rewrite H1. split; [reflexivity|exact H2].
  Qed.

  (* ... and every row group reads back the text of its own directory: no conversion, the text itself is found among the labels *)
  Theorem text_level_read : forall hive pm path k xs x tail,
    filter (fun p => match p with k0 :: _ => str_eqb k0 k | [] => false end) (row_partitions hive path) = [k; x] :: tail ->
    In x xs ->
    row_cell hive pm path (k, map VStr xs) = Some (k, VStr x).
  Proof.
    intros hive pm path k xs x tail Hf Hx. unfold Partition.row_cell, Partition.row_value. cbn [fst snd]. rewrite Hf. cbn [pair_of].
    assert (Ht : forallb is_vstr (map VStr xs) = true) by (apply forallb_forall; intros v Hv; apply in_map_iff in Hv; destruct Hv as [y [<- _]]; reflexivity).
    rewrite Ht. destruct (index_of_VStr x xs Hx) as [i [H1 H2]]. rewrite H1, H2. reflexivity.
  Qed.

  (* the loop of _path_to_cats over the drill directories is the fold over all their (dirN, text) pairs *)
  Lemma path_to_cats_drill_flat pps : forall st : res pstate,
    fold_left (fun st pp => match st with
                            | Ok _ => match path_hits false pp with
                                      | Ok hits => fold_left (add_hit []) hits st
                                      | VErr => VErr
                                      | OErr => OErr
                                      end
                            | e => e
                            end) pps st
    = fold_left (add_hit []) (concat (map (fun pp => drill_hits (snd pp)) pps)) st.
  Proof.
    induction pps as [|pp pps IH]; intros st; [reflexivity|]. cbn [fold_left map concat]. rewrite fold_left_app, <- IH.
    destruct st as [s| |]; [reflexivity| |].
    - rewrite (fold_left_res_err (add_hit []) (drill_hits (snd pp)) VErr) by reflexivity. reflexivity.
    - rewrite (fold_left_res_err (add_hit []) (drill_hits (snd pp)) OErr) by reflexivity. reflexivity.
  Qed.

  Lemma nth_drill_hits (l : list str) : forall (i k0 : nat) x, nth_error l i = Some x ->
    In (dir_name (k0 + i)%nat, x) (mapi_from (fun i0 v => (dir_name i0, v)) k0 l).
  Proof.
    induction l as [|y l IH]; intros i k0 x Hn; [destruct i; discriminate|]. cbn [mapi_from]. destruct i as [|i]; cbn in Hn.
    - injection Hn as ->. left. rewrite Nat.add_0_r. reflexivity.
    - right. replace (k0 + S i)%nat with (S k0 + i)%nat by lia. apply IH. exact Hn.
  Qed.

  (* on api._path_to_cats itself (drill attempt: no metadata) *)
  Theorem drill_text_level : forall (pps : list (str * list str)) cats,
    path_to_cats F T D feqb teqb deqb f_eq_Z parse_float parse_time_np parse_time_fmt parse_time_pd parse_delta false [] pps = Ok cats ->
    forall pp i x', In pp pps -> nth_error (snd pp) i = Some x' -> is_vstr (parse_guess x') = true ->
    (exists labels, In (dir_name i, labels) cats) /\
    forall labels, In (dir_name i, labels) cats ->
      exists xs, labels = map VStr xs /\
                 (forall x, In x xs <-> exists pp', In pp' pps /\ In (dir_name i, x) (drill_hits (snd pp'))).
  Proof.
    intros pps cats H pp i x' Hpp Hn Hg. unfold Partition.path_to_cats in H. rewrite path_to_cats_drill_flat in H.
    destruct (fold_left (add_hit []) _ (Ok (st0 F T D))) as [st| |] eqn:E; try discriminate. cbn [res_map] in H. injection H as <-.
    assert (Hin : In (dir_name i, x') (concat (map (fun pp0 => drill_hits (snd pp0)) pps))).
    { apply in_concat. exists (drill_hits (snd pp)). split; [apply in_map_iff; exists pp; split; [reflexivity|exact Hpp]|].
      apply (nth_drill_hits (snd pp) i O x' Hn). }
    destruct (drill_text_level_labels _ st E (dir_name i) x' Hin Hg) as [H1 H2]. split; [exact H1|].
    intros labels Hl. destruct (H2 labels Hl) as [xs [E1 E2]]. exists xs. split; [exact E1|]. intros x. rewrite E2. split.
    - intros Hx. apply in_concat in Hx. destruct Hx as [hs [Hhs Hx]]. apply in_map_iff in Hhs. destruct Hhs as [pp' [<- Hp']]. exists pp'. split; assumption.
    - intros [pp' [Hp' Hx]]. apply in_concat. exists (drill_hits (snd pp')). split; [apply in_map_iff; exists pp'; split; [reflexivity|exact Hp']|exact Hx].
  Qed.
End Mixed.

Section NumericLevel.
  Variables F T D : Type.
  Variable feqb : F -> F -> bool.
  Variable teqb : T -> T -> bool.
  Variable deqb : D -> D -> bool.
  Variable f_eq_Z : F -> Z -> bool.
  Variable parse_float : bool -> str -> option F.
  Variable parse_time_np : bool -> str -> option T.
  Variable parse_time_fmt parse_time_pd : str -> option T.
  Variable parse_delta : str -> option D.
  Hypothesis feqb_spec : forall a b, reflect (a = b) (feqb a b).
  Hypothesis teqb_spec : forall a b, reflect (a = b) (teqb a b).
  Hypothesis deqb_spec : forall a b, reflect (a = b) (deqb a b).
  Notation value := (value F T D).
  Notation pstate := (pstate F T D).
  Notation veqb := (veqb F T D feqb teqb deqb f_eq_Z).
  Notation parse_guess := (parse_guess F T D parse_float parse_time_pd parse_delta).
  Notation add_hit := (add_hit F T D feqb teqb deqb f_eq_Z parse_float parse_time_np parse_time_fmt parse_time_pd parse_delta).
  Notation cats_add := (cats_add F T D feqb teqb deqb f_eq_Z).
  Notation final_cats := (final_cats F T D).
  Notation is_vstr := (is_vstr F T D).
  Notation seen := (st_seen F T D).
  Notation strings := (st_strings F T D).
  Notation cats := (st_cats F T D).

  Record K (st : pstate) : Prop := {
    k_text : forall k, mem_str k (strings st) = true -> exists x', In (k, x') (seen st) /\ is_vstr (parse_guess x') = true;
    k_seen : forall k x, In (k, x) (seen st) -> mem_str k (strings st) = false ->
             exists vs, In (k, vs) (cats st) /\ existsb (veqb (parse_guess x)) vs = true;
    k_cats : forall k vs, In (k, vs) (cats st) -> mem_str k (strings st) = false ->
             forall v, In v vs -> exists x0, In (k, x0) (seen st) /\ v = parse_guess x0 }.

  Lemma K0 : K (st0 F T D).
  Proof. split; cbn; intros; try tauto; discriminate. Qed.

  Lemma mem_cons_false k k0 l : mem_str k (k0 :: l) = false -> k <> k0 /\ mem_str k l = false.
  Proof.
    unfold mem_str. cbn [existsb]. intros H. apply orb_false_iff in H. destruct H as [H1 H2]. split; [|exact H2].
    intros ->. rewrite str_eqb_refl in H1. discriminate.
  Qed.

  Lemma add_hit_K st kv st' : K st -> add_hit [] (Ok st) kv = Ok st' ->
    K st' /\ In kv (seen st') /\ (forall p, In p (seen st) -> In p (seen st')) /\ (forall p, In p (seen st') -> In p (seen st) \/ p = kv).
  Proof.
    intros HK H. unfold Partition.add_hit in H. destruct kv as [key val]. cbn [fst snd] in H.
    destruct (existsb (pair_eqb (key, val)) (seen st)) eqn:Es.
    - injection H as <-. split; [exact HK|]. split; [|split; auto].
      apply existsb_exists in Es. destruct Es as [p [Hp Ep]]. destruct (pair_eqb_spec (key, val) p) as [->|]; [exact Hp|discriminate].
    - destruct (mem_str key (strings st)) eqn:Em.
      + (* the level is already text: tp = VStr val *)
        cbn in H. injection H as <-. cbn [st_seen st_raw st_strings st_cats].
        split; [|split; [left; reflexivity|split; [intros p Hp; right; exact Hp|intros p [<-|Hp]; [right; reflexivity|left; exact Hp]]]].
        assert (Hm : forall k, mem_str k (key :: strings st) = mem_str k (strings st)).
        { intros k. unfold mem_str. cbn [existsb]. destruct (str_eqb_spec k key) as [->|]; [|reflexivity]. unfold mem_str in Em. rewrite Em. reflexivity. }
        split; cbn [st_seen st_raw st_strings st_cats Partition.is_vstr].
        * intros k Hk. rewrite Hm in Hk. destruct (k_text st HK k Hk) as [x' [H1 H2]]. exists x'. split; [right; exact H1|exact H2].
        * intros k x [E|Hin] Hk; rewrite Hm in Hk.
          -- injection E as <- <-. congruence.
          -- destruct (k_seen st HK k x Hin Hk) as [vs [H1 H2]].
             destruct (cats_add_mono F T D feqb teqb deqb f_eq_Z parse_time_fmt parse_time_pd parse_delta key (VStr val) _ k vs _ H1 H2) as [vs1 [H3 H4]].
             exists vs1. split; assumption.
        * intros k vs Hin Hk v Hv. rewrite Hm in Hk. apply cats_add_In in Hin. destruct Hin as [Hin|[-> _]]; [|congruence].
          destruct (k_cats st HK k vs Hin Hk v Hv) as [x0 [H1 H2]]. exists x0. split; [right; exact H1|exact H2].
      + (* not (yet) text: tp = parse_guess val *)
        cbn in H. injection H as <-. cbn [st_seen st_raw st_strings st_cats].
        split; [|split; [left; reflexivity|split; [intros p Hp; right; exact Hp|intros p [<-|Hp]; [right; reflexivity|left; exact Hp]]]].
        split; cbn [st_seen st_raw st_strings st_cats].
        * intros k Hk. destruct (is_vstr (parse_guess val)) eqn:Eg.
          -- unfold mem_str in Hk. cbn [existsb] in Hk. destruct (str_eqb_spec k key) as [->|].
             ++ exists val. split; [left; reflexivity|exact Eg].
             ++ cbn [orb] in Hk. destruct (k_text st HK k Hk) as [x' [H1 H2]]. exists x'. split; [right; exact H1|exact H2].
          -- destruct (k_text st HK k Hk) as [x' [H1 H2]]. exists x'. split; [right; exact H1|exact H2].
        * intros k x [E|Hin] Hk.
          -- injection E as <- <-. apply (cats_add_added F T D feqb teqb deqb f_eq_Z feqb_spec teqb_spec deqb_spec).
          -- assert (Hk0 : mem_str k (strings st) = false).
             { destruct (is_vstr (parse_guess val)); [apply mem_cons_false in Hk; apply Hk|exact Hk]. }
             destruct (k_seen st HK k x Hin Hk0) as [vs [H1 H2]].
             destruct (cats_add_mono F T D feqb teqb deqb f_eq_Z parse_time_fmt parse_time_pd parse_delta key (parse_guess val) _ k vs _ H1 H2) as [vs1 [H3 H4]].
             exists vs1. split; assumption.
        * intros k vs Hin Hk v Hv.
          assert (Hk0 : mem_str k (strings st) = false).
          { destruct (is_vstr (parse_guess val)); [apply mem_cons_false in Hk; apply Hk|exact Hk]. }
          apply cats_add_In in Hin. destruct Hin as [Hin|[-> [->|[vs0 [Hin0 [->| ->]]]]]].
          -- destruct (k_cats st HK k vs Hin Hk0 v Hv) as [x0 [H1 H2]]. exists x0. split; [right; exact H1|exact H2].
          -- destruct Hv as [<-|[]]. exists val. split; [left; reflexivity|reflexivity].
          -- destruct (k_cats st HK key vs0 Hin0 Hk0 v Hv) as [x0 [H1 H2]]. exists x0. split; [right; exact H1|exact H2].
          -- apply in_app_or in Hv. destruct Hv as [Hv|[<-|[]]].
             ++ destruct (k_cats st HK key vs0 Hin0 Hk0 v Hv) as [x0 [H1 H2]]. exists x0. split; [right; exact H1|exact H2].
             ++ exists val. split; [left; reflexivity|reflexivity].
  Qed.

  Lemma fold_K hits : forall st st', K st -> fold_left (add_hit []) hits (Ok st) = Ok st' ->
    K st' /\ (forall p, In p hits -> In p (seen st')) /\ (forall p, In p (seen st) -> In p (seen st')) /\
    (forall p, In p (seen st') -> In p (seen st) \/ In p hits).
  Proof.
    induction hits as [|kv hits IH]; intros st st' HK H.
    - cbn in H. injection H as <-. split; [exact HK|]. split; [intros p []|]. split; [auto|]. intros p Hp. left. exact Hp.
    - cbn [fold_left] in H. destruct (add_hit [] (Ok st) kv) as [st1| |] eqn:E1.
      + destruct (add_hit_K st kv st1 HK E1) as [HK1 [Hkv [Hmono Honly1]]].
        destruct (IH st1 st' HK1 H) as [HK' [Hall [Hm' Honly]]]. split; [exact HK'|]. split; [|split].
        * intros p [<-|Hp]; [apply Hm', Hkv|apply Hall, Hp].
        * intros p Hp. apply Hm', Hmono, Hp.
        * intros p Hp. destruct (Honly p Hp) as [H1|H1]; [|right; right; exact H1].
          destruct (Honly1 p H1) as [H2|E]; [left; exact H2|right; left; symmetry; exact E].
      + rewrite fold_left_res_err in H by reflexivity. discriminate.
      + rewrite fold_left_res_err in H by reflexivity. discriminate.
  Qed.

  (* a level WITHOUT any text: the labels are guesses of its directory texts, and a row group reads a label that is == to the guess of
     its own directory text *)
  Theorem drill_numeric_level : forall (hits : list (str * str)) st,
    fold_left (add_hit []) hits (Ok (st0 F T D)) = Ok st ->
    forall k, (forall x', In (k, x') hits -> is_vstr (parse_guess x') = false) ->
    forall x, In (k, x) hits ->
    exists labels, In (k, labels) (final_cats st) /\
      (forall v, In v labels -> exists x0, In (k, x0) hits /\ v = parse_guess x0) /\
      exists i v, index_of veqb (parse_guess x) labels = Some i /\ nth_error labels i = Some v /\ veqb (parse_guess x) v = true.
  Proof.
    intros hits st H k Hnt x Hin. destruct (fold_K hits _ st K0 H) as [HK [Hall [_ Honly]]].
    assert (Hk : mem_str k (strings st) = false).
    { destruct (mem_str k (strings st)) eqn:E; [|reflexivity]. destruct (k_text st HK k E) as [x' [H1 H2]].
      destruct (Honly _ H1) as [[]|H3]. rewrite (Hnt x' H3) in H2. discriminate. }
    destruct (k_seen st HK k x (Hall _ Hin) Hk) as [vs [Hvs Hex]]. exists vs. split; [|split].
    - unfold Partition.final_cats. apply in_map_iff. exists (k, vs). cbn [fst snd]. rewrite Hk. split; [reflexivity|exact Hvs].
    - intros v Hv. destruct (k_cats st HK k vs Hvs Hk v Hv) as [x0 [H1 H2]]. exists x0. split; [|exact H2].
      destruct (Honly _ H1) as [[]|H3]. exact H3.
    - destruct (index_of_some veqb _ _ Hex) as [i Hi]. destruct (index_of_nth veqb _ _ _ Hi) as [v [Hv Hev]].
      exists i, v. repeat split; assumption.
  Qed.
End NumericLevel.

(* "the guessed value itself comes back" is FALSE for such a level: directories "1" and "True" (a text column whose texts all look like
   numbers / booleans) - the rows of the directory True read the integer 1, which is == True (closed instance, computed) *)
Theorem numeric_level_exact_refuted :
  exists rows, cread [] (cwrite false [s_ "k"] [rows])
             = Some (Drill, [([(s_ "dir0", VInt 1)], 0%nat); ([(s_ "dir0", VInt 1)], 1%nat)])
             /\ parse_guess E0 E0 E0 (fun _ _ => None) (fun _ => None) (fun _ => None) (s_ "True") = VBool true.
Proof.
  exists [([Some (VStr (s_ "1"))], 0%nat); ([Some (VStr (s_ "True"))], 1%nat)]. split; vm_compute; reflexivity.
Qed.

(* ------------------------------------------------------------------------------------------------ wave 6 *)
(* the REJECTED lookup (class of seeded change C08-10): search the path text for "<name>=" anywhere and take the text up to the next '/' *)
Fixpoint prefix_rest (p s : str) : option str :=
  match p, s with
  | [], r => Some r
  | a :: p', b :: s' => if Ascii.eqb a b then prefix_rest p' s' else None
  | _ :: _, [] => None
  end.
Fixpoint search_after (p s : str) {struct s} : option str :=
  match prefix_rest p s with
  | Some r => Some r
  | None => match s with [] => None | _ :: s' => search_after p s' end
  end.
Definition lookup_by_search (cat path : str) : option str :=
  option_map (fun r => hd [] (split_on c_slash r)) (search_after (cat ++ [c_eq]) path).

(* with partition columns fiscal_year and year the search for "year=" lands inside "fiscal_year=2020": the level the model (and the code)
   selects BY NAME holds a, the search yields 2020 *)
Theorem lookup_by_search_refuted :
  exists path cat v tail,
    filter (fun p => match p with k0 :: _ => str_eqb k0 cat | [] => false end) (row_partitions true path) = [cat; v] :: tail /\
    lookup_by_search cat path <> Some v.
Proof.
  exists (s_ "fiscal_year=2020/year=a/part.0.parquet"), (s_ "year"), (s_ "a"), []. split; [vm_compute; reflexivity|vm_compute; discriminate].
Qed.
