(* C05 — pruning is sound for ANY valid bounds, not only for the exact ones C04 speaks about.
   A chunk is a list of non-null cells; bounds (absent / scalar / length-1 array) are valid when they
   lie below / above every cell.  The leaf decision then never says "skip" for a chunk that holds a
   satisfying cell.  Widening valid bounds keeps them valid (so a min cut to a prefix, or a max rounded
   up, is harmless for C05 - while C04 rejects both, Proofs/StatsBoundsProofs.v); a max cut to a prefix
   is NOT an upper bound and loses rows: refuted below on the committed leaf text.                     *)
From Coq Require Import ZArith List String Bool Lia.
From Pq Require Import Base.PyVal Impl.Filter Impl.FilterLeaf Proofs.PyValProofs Proofs.FilterLeafProofs.
Import ListNotations.
Open Scope string_scope.
Open Scope Z_scope.

Definition bounds_cover_int (vmin vmax : pv) (cells : list Z) : Prop :=
  forall z, In z cells -> lo_ok_int vmin z /\ hi_ok_int vmax z.
Definition bounds_cover_str (vmin vmax : pv) (cells : list string) : Prop :=
  forall s, In s cells -> lo_ok_str vmin s /\ hi_ok_str vmax s.

Theorem any_valid_bounds_sound_int : forall op c vmin vmax cells,
  In op ops -> const_ok_int op c -> bounds_cover_int vmin vmax cells ->
  ok_true (filter_val (PStr op) c vmin vmax) = true ->
  forall z, In z cells -> sat op (PInt z) c = false.
Proof.
  intros op c vmin vmax cells Hop Hc Hb Hskip z Hz. destruct (Hb z Hz) as [L U].
  apply (leaf_all_sound op c vmin vmax (PInt z) Hop); [|exact Hskip].
  left. exists z. split; [reflexivity|split; [exact Hc|split; assumption]].
Qed.

Theorem any_valid_bounds_sound_str : forall op c vmin vmax cells,
  In op ops -> const_ok_str op c -> bounds_cover_str vmin vmax cells ->
  ok_true (filter_val (PStr op) c vmin vmax) = true ->
  forall s, In s cells -> sat op (PStr s) c = false.
Proof.
  intros op c vmin vmax cells Hop Hc Hb Hskip s Hs. destruct (Hb s Hs) as [L U].
  apply (leaf_all_sound op c vmin vmax (PStr s) Hop); [|exact Hskip].
  right. exists s. split; [reflexivity|split; [exact Hc|split; assumption]].
Qed.

(* widening: a smaller lower bound / a larger upper bound / a dropped bound is still valid *)
Lemma widen_int m m' M M' cells : m' <= m -> M <= M' ->
  bounds_cover_int (PInt m) (PInt M) cells -> bounds_cover_int (PInt m') (PInt M') cells.
Proof.
  intros Hm HM Hb z Hz. destruct (Hb z Hz) as [[L|[a [[B|B] La]]] [U|[b [[B'|B'] Ub]]]]; try discriminate.
  injection B as <-. injection B' as <-. split; right.
  - exists m'. split; [left; reflexivity|lia].
  - exists M'. split; [left; reflexivity|lia].
Qed.

Lemma drop_bounds_int vmin vmax cells :
  bounds_cover_int vmin vmax cells ->
  bounds_cover_int PNone vmax cells /\ bounds_cover_int vmin PNone cells /\ bounds_cover_int PNone PNone cells.
Proof.
  intros Hb. repeat split; try (left; reflexivity); destruct (Hb z H); assumption.
Qed.

Lemma drop_bounds_str vmin vmax cells :
  bounds_cover_str vmin vmax cells ->
  bounds_cover_str PNone vmax cells /\ bounds_cover_str vmin PNone cells /\ bounds_cover_str PNone PNone cells.
Proof.
  intros Hb. repeat split; try (left; reflexivity); destruct (Hb s H); assumption.
Qed.

(* a max cut to a strict prefix of the stored max ("ab" for the chunk ["abz"]) is not an upper bound,
   and the leaf decision then skips a chunk that holds the value asked for *)
Lemma truncated_max_refuted :
  exists c vmax s, s = "abz" /\ vmax = PStr "ab" /\ c = PStr "abz" /\
    ok_true (filter_val (PStr "==") c (PStr "ab") vmax) = true /\ sat "==" (PStr s) c = true.
Proof.
  exists (PStr "abz"), (PStr "ab"), "abz". repeat split; vm_compute; reflexivity.
Qed.
