(* Proofs about Conc/Interleave.v (C20). *)
From Coq Require Import NArith Arith List Bool Lia.
From Pq Require Import Conc.Interleave.
Import ListNotations.

(* ------------------------------------------------------------------------------------------ *)
(* generic facts                                                                               *)
(* ------------------------------------------------------------------------------------------ *)
Section Generic.
Variable V R : Type.
Notation prog := (prog V R).
Notation config := (config V R).

Lemma upd_same : forall (s : store V) k v, upd s k v k = Some v.
Proof. intros. unfold upd. rewrite N.eqb_refl. reflexivity. Qed.

Lemma upd_other : forall (s : store V) k v k', k' <> k -> upd s k v k' = s k'.
Proof. intros s k v k' H. unfold upd. destruct (N.eqb_spec k' k) as [E|E]; [contradiction|reflexivity]. Qed.

Lemma setp_same : forall (ps : pool V R) i p, setp ps i p i = p.
Proof. intros. unfold setp. rewrite Nat.eqb_refl. reflexivity. Qed.

Lemma setp_other : forall (ps : pool V R) i p j, j <> i -> setp ps i p j = ps j.
Proof. intros ps i p j H. unfold setp. destruct (Nat.eqb_spec j i) as [E|E]; [contradiction|reflexivity]. Qed.

Lemma solo_step1 : forall (p : prog) s, solo (fst (step1 p s)) (snd (step1 p s)) = solo p s.
Proof. intros p s. destruct p; reflexivity. Qed.

Lemma step_pool_same : forall i (c : config), c_pool (step i c) i = fst (step1 (c_pool c i) (c_store c)).
Proof. intros. unfold step. cbn [c_pool]. apply setp_same. Qed.

Lemma step_pool_other : forall i j (c : config), j <> i -> c_pool (step i c) j = c_pool c j.
Proof. intros. unfold step. cbn [c_pool]. apply setp_other. assumption. Qed.

Lemma step_store : forall i (c : config), c_store (step i c) = snd (step1 (c_pool c i) (c_store c)).
Proof. reflexivity. Qed.

Lemma run_app : forall s1 s2 (c : config), exec (s1 ++ s2) c = exec s2 (exec s1 c).
Proof. intros. unfold exec. apply fold_left_app. Qed.

Lemma run_cons : forall i s (c : config), exec (i :: s) c = exec s (step i c).
Proof. reflexivity. Qed.

(* a finished thread stays finished *)
Lemma ret_stays : forall sched (c : config) i r, c_pool c i = Ret r -> c_pool (exec sched c) i = Ret r.
Proof.
  induction sched as [|j sched IH]; intros c i r H; [exact H|].
  rewrite run_cons. apply IH.
  destruct (Nat.eq_dec i j) as [E|E].
  - subst j. rewrite step_pool_same, H. reflexivity.
  - rewrite step_pool_other by assumption. exact H.
Qed.

(* every schedule that gives thread i enough turns finishes it *)
Lemma bounded_finishes : forall sched (c : config) i n,
  bounded (c_pool c i) n -> n <= count_occ Nat.eq_dec sched i ->
  exists r, result (exec sched c) i = Some r.
Proof.
  induction sched as [|j sched IH]; intros c i n B H.
  - cbn in H. assert (n = 0) as Hn by lia. subst n. inversion B as [r n0 Hp Hn| |].
    exists r. unfold result. cbn. rewrite <- Hp. reflexivity.
  - rewrite run_cons. destruct (Nat.eq_dec j i) as [E|E].
    + subst j. rewrite count_occ_cons_eq in H by reflexivity.
      inversion B as [r n0 Hp|k f n0 Hf Hp|k v p n0 Hq Hp]; subst.
      * exists r. unfold result. rewrite (ret_stays sched (step i c) i r); [reflexivity|].
        rewrite step_pool_same, <- Hp. reflexivity.
      * apply (IH (step i c) i n0); [|lia]. rewrite step_pool_same, <- Hp. cbn. apply Hf.
      * apply (IH (step i c) i n0); [|lia]. rewrite step_pool_same, <- Hp. cbn. exact Hq.
    + rewrite count_occ_cons_neq in H by assumption.
      apply (IH (step j c) i n); [|exact H]. rewrite step_pool_other by (intro; subst; contradiction). exact B.
Qed.

End Generic.

(* ------------------------------------------------------------------------------------------ *)
(* memo confluence                                                                             *)
(* ------------------------------------------------------------------------------------------ *)
Section Memo.
Variable V R : Type.
Variable memo : N -> option V.
Variable base : store V.
Notation prog := (prog V R).
Notation config := (config V R).
Notation ok := (ok memo base).
Notation knows := (knows memo).
Notation consistent := (consistent memo base).

Lemma consistent_upd : forall s k v, consistent s -> memo k = Some v -> consistent (upd s k v).
Proof.
  intros s k v C M k'. destruct (N.eq_dec k' k) as [E|E].
  - subst k'. rewrite M, upd_same. right. reflexivity.
  - rewrite upd_other by assumption. apply C.
Qed.

Lemma knows_upd : forall kn s k v, knows kn s -> memo k = Some v -> knows (addk k kn) (upd s k v).
Proof.
  intros kn s k v K M k' H. unfold addk in H. destruct (N.eqb_spec k' k) as [E|E].
  - subst k'. exists v. split; [exact M|apply upd_same].
  - rewrite upd_other by assumption. apply K, H.
Qed.

Lemma knows_upd_other : forall kn s k v, knows kn s -> memo k = Some v -> knows kn (upd s k v).
Proof.
  intros kn s k v K M k' H. destruct (K k' H) as [v' [M' S']]. exists v'. split; [exact M'|].
  destruct (N.eq_dec k' k) as [E|E].
  - subst k'. rewrite upd_same. congruence.
  - rewrite upd_other by assumption. exact S'.
Qed.

Lemma knows_add_present : forall kn s k v, knows kn s -> memo k = Some v -> s k = Some v -> knows (addk k kn) s.
Proof.
  intros kn s k v K M S k' H. unfold addk in H. destruct (N.eqb_spec k' k) as [E|E].
  - subst k'. exists v. split; assumption.
  - apply K, H.
Qed.

(* a step of the thread itself *)
Lemma step1_ok : forall kn (p : prog) r s, ok kn p r -> consistent s -> knows kn s ->
  consistent (snd (step1 p s)) /\ exists kn', ok kn' (fst (step1 p s)) r /\ knows kn' (snd (step1 p s)).
Proof.
  intros kn p r s H C K.
  destruct H as [kn r|kn k f r M H|kn k v f r M Hk H|kn k v f r M H1 H2|kn k v p r M H]; cbn.
  - split; [exact C|]. exists kn. split; [constructor|exact K].
  - split; [exact C|]. exists kn. split; [|exact K]. pose proof (C k) as Ck. rewrite M in Ck. rewrite Ck. exact H.
  - split; [exact C|]. exists kn. split; [|exact K]. destruct (K k Hk) as [v' [M' S']].
    rewrite S'. assert (v' = v) by congruence. subst v'. exact H.
  - split; [exact C|]. pose proof (C k) as Ck. rewrite M in Ck. destruct Ck as [E|E]; rewrite E.
    + exists kn. split; assumption.
    + exists (addk k kn). split; [exact H2|]. eapply knows_add_present; eauto.
  - split; [apply consistent_upd; assumption|]. exists (addk k kn). split; [exact H|]. apply knows_upd; assumption.
Qed.

(* a step of another disciplined thread keeps what this thread knows *)
Lemma step1_keeps_knowledge : forall kn kn' (q : prog) r' s, knows kn s -> ok kn' q r' ->
  knows kn (snd (step1 q s)).
Proof.
  intros kn kn' q r' s K H. destruct H; cbn; try exact K. apply knows_upd_other; assumption.
Qed.

(* the result a disciplined thread computes alone, from any consistent store *)
Lemma solo_ok : forall (p : prog) kn r s, ok kn p r -> consistent s -> knows kn s -> fst (solo p s) = r.
Proof.
  induction p as [r0|k f IH|k v p IH]; intros kn r s H C K.
  - inversion H; subst. reflexivity.
  - cbn. inversion H as [|kn0 k0 f0 r0 M H1|kn0 k0 v0 f0 r0 M Hk H1|kn0 k0 v0 f0 r0 M H1 H2|]; subst.
    + eapply IH; [|exact C|exact K]. pose proof (C k) as Ck. rewrite M in Ck. rewrite Ck. exact H1.
    + eapply IH; [|exact C|exact K]. destruct (K k Hk) as [v' [M' S']]. rewrite S'.
      assert (v' = v0) by congruence. subst v'. exact H1.
    + pose proof (C k) as Ck. rewrite M in Ck. destruct Ck as [E|E]; rewrite E.
      * eapply IH; [exact H1|exact C|exact K].
      * eapply IH; [exact H2|exact C|]. eapply knows_add_present; eauto.
  - cbn. inversion H as [| | | |kn0 k0 v0 p0 r0 M H1]; subst.
    eapply IH; [exact H1|apply consistent_upd; assumption|apply knows_upd; assumption].
Qed.

(* a disciplined thread never performs a destructive write in a consistent store *)
Lemma classify_ok : forall veqb, (forall a : V, veqb a a = true) ->
  forall kn (p : prog) r s, ok kn p r -> consistent s -> classify veqb p s <> KDestructiveWrite.
Proof.
  intros veqb Hrefl kn p r s H C. destruct H as [kn r|kn k f r M H|kn k v f r M Hk H|kn k v f r M H1 H2|kn k v p r M H]; cbn; try discriminate.
  pose proof (C k) as Ck. rewrite M in Ck. destruct Ck as [E|E]; rewrite E; [discriminate|].
  rewrite Hrefl. discriminate.
Qed.

Section Run.
Variable ps : pool V R.
Variable rs : nat -> R.
Variable s0 : store V.
Hypothesis Hok : forall i, ok (nothing) (ps i) (rs i).
Hypothesis Hs0 : consistent s0.

Definition inv (c : config) : Prop :=
  (forall i, exists kn, ok kn (c_pool c i) (rs i) /\ knows kn (c_store c)) /\ consistent (c_store c) /\
  (forall k, c_store c k = union_store memo s0 (c_log c) k).

Lemma inv_init : inv (init ps s0).
Proof.
  split; [|split; [exact Hs0|]].
  - intro i. exists nothing. split; [apply Hok|]. intros k H. discriminate.
  - intro k. unfold union_store, init. cbn. destruct (s0 k); reflexivity.
Qed.

Lemma inv_step : forall i c, inv c -> inv (step i c).
Proof.
  intros i c [Hp [Hc Hu]]. destruct (Hp i) as [kni [Hi Ki]].
  pose proof (step1_ok _ _ _ _ Hi Hc Ki) as [H2 [kn' [H1 K1]]].
  split; [|split].
  - intro j. rewrite step_store. destruct (Nat.eq_dec j i) as [E|E].
    + subst j. rewrite step_pool_same. exists kn'. split; assumption.
    + rewrite step_pool_other by assumption. destruct (Hp j) as [knj [Hj Kj]].
      exists knj. split; [exact Hj|]. eapply step1_keeps_knowledge; eauto.
  - rewrite step_store. exact H2.
  - intro k. rewrite step_store. unfold step. cbn [c_log].
    destruct Hi as [kn r|kn k0 f r M H|kn k0 v f r M Hk H|kn k0 v f r M Ha Hb|kn k0 v p r M H]; cbn; try apply Hu.
    unfold union_store. cbn [logged existsb snd].
    destruct (N.eq_dec k k0) as [E|E].
    + subst k0. rewrite upd_same, N.eqb_refl. cbn.
      pose proof (Hs0 k) as Ck. rewrite M in Ck. destruct Ck as [E|E]; rewrite E; [symmetry; exact M|reflexivity].
    + rewrite upd_other by assumption.
      assert (N.eqb k0 k = false) as Ne by (apply N.eqb_neq; intro; subst; contradiction).
      rewrite Ne. cbn. apply Hu.
Qed.

Lemma inv_run : forall sched c, inv c -> inv (exec sched c).
Proof. induction sched as [|i sched IH]; intros c H; [exact H|]. rewrite run_cons. apply IH, inv_step, H. Qed.

Lemma kinds_ok : forall veqb, (forall a : V, veqb a a = true) ->
  forall sched c, inv c -> Forall (fun k => k <> KDestructiveWrite) (kinds veqb sched c).
Proof.
  intros veqb Hrefl. induction sched as [|i sched IH]; intros c H; cbn; constructor.
  - destruct H as [Hp [Hc _]]. destruct (Hp i) as [kn [Hi _]]. eapply classify_ok; eauto.
  - apply IH, inv_step, H.
Qed.

(* THE THEOREM: for every schedule, every finished thread holds its solo result, no executed
   action is a destructive write, and the final store is the initial one plus the union of the
   memo entries the threads wrote. *)
Theorem memo_confluence : forall (veqb : V -> V -> bool), (forall a, veqb a a = true) ->
  forall sched,
  let c := exec sched (init ps s0) in
  (forall i r, result c i = Some r -> r = fst (solo (ps i) s0)) /\
  Forall (fun k => k <> KDestructiveWrite) (kinds veqb sched (init ps s0)) /\
  (forall k, c_store c k = union_store memo s0 (c_log c) k) /\
  consistent (c_store c).
Proof.
  intros veqb Hrefl sched c. pose proof (inv_run sched _ inv_init) as [Hp [Hc Hu]]. fold c in Hp, Hc, Hu.
  split; [|split; [|split]].
  - intros i r H. unfold result in H. destruct (Hp i) as [kn [Hi _]].
    destruct (c_pool c i) eqn:E; try discriminate. inversion H; subst r0.
    inversion Hi; subst. rewrite (solo_ok _ _ _ _ (Hok i) Hs0); [reflexivity|].
    intros k Hk. discriminate.
  - apply kinds_ok; [exact Hrefl|apply inv_init].
  - exact Hu.
  - exact Hc.
Qed.

End Run.
End Memo.

(* ------------------------------------------------------------------------------------------ *)
(* the memoising operations obey the discipline                                                 *)
(* ------------------------------------------------------------------------------------------ *)
Section MemoOpsP.
Variable V R : Type.
Variable memo : N -> option V.
Variable base : store V.
Variable f : N -> list (option V) -> V.
Variable stop : list V -> option R.
Variable fin : list V -> R.
Variable err : R.
Notation ok := (ok memo base).

Lemma ok_read_all : forall ks acc (cont : list (option V) -> prog V R) kn r,
  (forall x, In x ks -> memo x = None) ->
  ok kn (cont (rev acc ++ map base ks)) r -> ok kn (read_all ks acc cont) r.
Proof.
  induction ks as [|k ks IH]; intros acc cont kn r Hm H; cbn [read_all].
  - cbn in H. rewrite app_nil_r in H. exact H.
  - apply ok_get_imm; [apply Hm; left; reflexivity|].
    apply IH; [intros x Hx; apply Hm; right; exact Hx|].
    cbn [rev]. rewrite <- app_assoc. exact H.
Qed.

Lemma ok_memo_compute : forall k ks g (cont : V -> prog V R) kn r,
  memo k = Some (g (map base ks)) -> (forall x, In x ks -> memo x = None) ->
  (forall kn', ok kn' (cont (g (map base ks))) r) ->
  ok kn (memo_compute k ks g err cont) r.
Proof.
  intros k ks g cont kn r M Hm Hc. unfold memo_compute.
  eapply ok_get_memo; [exact M| |apply Hc].
  apply ok_read_all; [exact Hm|]. cbn [rev app].
  eapply ok_put; [exact M|].
  eapply ok_get_known; [exact M| |apply Hc].
  unfold addk. rewrite N.eqb_refl. reflexivity.
Qed.

Definition table_ok (l : list (N * list N)) : Prop :=
  forall k ks, In (k, ks) l -> memo k = Some (f k (map base ks)) /\ forall x, In x ks -> memo x = None.

Theorem ok_memo_seq : forall l, table_ok l ->
  forall acc kn, ok kn (memo_seq f stop fin err l acc) (pure_seq f stop fin base l acc).
Proof.
  induction l as [|[k ks] l IH]; intros T acc kn; cbn [memo_seq pure_seq].
  - constructor.
  - destruct (T k ks (or_introl eq_refl)) as [M Hm].
    apply ok_memo_compute; [exact M|exact Hm|].
    intro kn'. destruct (stop (f k (map base ks) :: acc)) as [r|]; [constructor|].
    apply IH. intros k' ks' Hin. apply T. right. exact Hin.
Qed.

(* any number of threads, each consulting its own sequence of memoised values on the shared store:
   under every schedule every finished thread holds the pure function of the immutable data *)
Theorem memo_ops_confluent : forall (ls : nat -> list (N * list N)) (s0 : store V),
  (forall i, table_ok (ls i)) -> consistent memo base s0 ->
  forall sched i r,
    result (exec sched (init (fun j => memo_seq f stop fin err (ls j) []) s0)) i = Some r ->
    r = pure_seq f stop fin base (ls i) [].
Proof.
  intros ls s0 T C sched i r H.
  pose (ps := fun j => memo_seq f stop fin err (ls j) []).
  pose (rs := fun j => pure_seq f stop fin base (ls j) []).
  assert (Hok : forall j, ok nothing (ps j) (rs j)) by (intro j; apply ok_memo_seq, T).
  destruct (memo_confluence V R memo base ps rs s0 Hok C (fun _ _ => true) (fun _ => eq_refl) sched) as [H1 _].
  rewrite (H1 i r H).
  apply (solo_ok V R memo base (ps i) nothing (rs i) s0 (Hok i) C).
  intros k Hk. discriminate.
Qed.
End MemoOpsP.

(* ------------------------------------------------------------------------------------------ *)
(* ownership: part-file writers                                                                 *)
(* ------------------------------------------------------------------------------------------ *)
Section Own.
Variable V R : Type.
Variable own : N -> option nat.
Notation prog := (prog V R).
Notation config := (config V R).
Notation respects := (respects own).
Notation visible := (visible own).

Lemma frame : forall i (p : prog), respects i p -> forall s1 s2,
  (forall k, visible i k -> s1 k = s2 k) ->
  fst (solo p s1) = fst (solo p s2) /\ (forall k, visible i k -> snd (solo p s1) k = snd (solo p s2) k).
Proof.
  intros i p H. induction H as [r|k f Hv Hf IH|k v p Ho Hp IH]; intros s1 s2 E; cbn.
  - split; [reflexivity|exact E].
  - rewrite (E k Hv). apply IH. exact E.
  - apply IH. intros k' Hk'. destruct (N.eq_dec k' k) as [X|X].
    + subst k'. rewrite !upd_same. reflexivity.
    + rewrite !upd_other by assumption. apply E, Hk'.
Qed.

Lemma respects_step1 : forall i (p : prog) s, respects i p -> respects i (fst (step1 p s)).
Proof. intros i p s H. destruct H; cbn; auto. constructor. Qed.

(* a step of thread j changes only keys owned by j *)
Lemma step1_footprint : forall j (p : prog) s k, respects j p -> own k <> Some j -> snd (step1 p s) k = s k.
Proof.
  intros j p s k H Hk. destruct H as [r|k0 f Hv Hf|k0 v p Ho Hp]; cbn; try reflexivity.
  apply upd_other. intro; subst. contradiction.
Qed.

Section Run.
Variable ps : pool V R.
Variable s0 : store V.
Hypothesis Hres : forall i, respects i (ps i).

Definition oinv (c : config) : Prop :=
  (forall i, respects i (c_pool c i)) /\
  (forall i, fst (solo (c_pool c i) (c_store c)) = fst (solo (ps i) s0) /\
             forall k, own k = Some i -> snd (solo (c_pool c i) (c_store c)) k = snd (solo (ps i) s0) k) /\
  (forall k, own k = None -> c_store c k = s0 k) /\
  Forall (fun e => own (snd e) = Some (fst e)) (c_log c).

Lemma oinv_init : oinv (init ps s0).
Proof. split; [exact Hres|]. split; [|split]; cbn; auto. Qed.

Lemma oinv_step : forall j c, oinv c -> oinv (step j c).
Proof.
  intros j c [Hr [Hs [Hsh Hl]]]. split; [|split; [|split]].
  - intro i. destruct (Nat.eq_dec i j) as [E|E].
    + subst i. rewrite step_pool_same. apply respects_step1, Hr.
    + rewrite step_pool_other by assumption. apply Hr.
  - intro i. rewrite step_store. destruct (Nat.eq_dec i j) as [E|E].
    + subst i. rewrite step_pool_same, solo_step1. apply Hs.
    + rewrite step_pool_other by assumption.
      destruct (Hs i) as [H1 H2].
      destruct (frame i (c_pool c i) (Hr i) (snd (step1 (c_pool c j) (c_store c))) (c_store c)) as [F1 F2].
      { intros k Hk. apply (step1_footprint j); [apply Hr|].
        destruct Hk as [X|X]; rewrite X; [discriminate|]. intro Y; inversion Y; subst; contradiction. }
      split; [rewrite F1; exact H1|].
      intros k Hk. rewrite F2 by (right; exact Hk). apply H2, Hk.
  - intros k Hk. rewrite step_store, (step1_footprint j); [apply Hsh, Hk|apply Hr|rewrite Hk; discriminate].
  - unfold step. cbn [c_log]. pose proof (Hr j) as Hj.
    destruct Hj as [r|k0 f Hv Hf|k0 v p Ho Hp]; cbn; try exact Hl. constructor; [exact Ho|exact Hl].
Qed.

Lemma oinv_run : forall sched c, oinv c -> oinv (exec sched c).
Proof. induction sched as [|i sched IH]; intros c H; [exact H|]. rewrite run_cons. apply IH, oinv_step, H. Qed.

(* THE THEOREM: threads that write only keys they own and read only shared or own keys perform no
   shared write, and under every schedule each finished thread has its solo result and has left in
   its own keys exactly what it leaves there when run alone. *)
Theorem part_writer : forall sched,
  let c := exec sched (init ps s0) in
  (forall k, own k = None -> c_store c k = s0 k) /\
  Forall (fun e => own (snd e) = Some (fst e)) (c_log c) /\
  (forall i r, result c i = Some r ->
     r = fst (solo (ps i) s0) /\ forall k, own k = Some i -> c_store c k = snd (solo (ps i) s0) k).
Proof.
  intros sched c. pose proof (oinv_run sched _ oinv_init) as [Hr [Hs [Hsh Hl]]]. fold c in Hr, Hs, Hsh, Hl.
  split; [exact Hsh|]. split; [exact Hl|].
  intros i r H. unfold result in H. destruct (Hs i) as [H1 H2].
  destruct (c_pool c i) eqn:E; try discriminate. inversion H; subst r0. cbn in H1, H2.
  split; [exact H1|exact H2].
Qed.

End Run.
End Own.

(* ------------------------------------------------------------------------------------------ *)
(* footprint trace checker                                                                     *)
(* ------------------------------------------------------------------------------------------ *)
Lemma lookup_In : forall k v s, lookup k s = Some v -> In (k, v) s.
Proof.
  induction s as [|[k' v'] s IH]; cbn; intro H; [discriminate|].
  destruct (N.eqb_spec k' k) as [E|E].
  - inversion H; subst. left. reflexivity.
  - right. apply IH, H.
Qed.

Lemma trans_ok_sound : forall a b, trans_ok a b = true ->
  forall k v, lookup k a = Some v -> lookup k b = Some v.
Proof.
  intros a b H k v L. unfold trans_ok in H. rewrite forallb_forall in H.
  specialize (H (k, v) (lookup_In _ _ _ L)). cbn in H.
  destruct (lookup k b) as [v'|]; [|discriminate]. apply N.eqb_eq in H. subst. reflexivity.
Qed.

(* adjacent snapshots of an accepted trace: nothing changes, nothing disappears *)
Lemma trace_ok_adjacent : forall tr, trace_ok tr = true ->
  forall n a b, nth_error tr n = Some a -> nth_error tr (S n) = Some b ->
  forall k v, lookup k a = Some v -> lookup k b = Some v.
Proof.
  induction tr as [|x tr IH]; intros H n a b Ha Hb k v L; [destruct n; discriminate|].
  destruct tr as [|y tr]; [destruct n; cbn in Hb; [discriminate|destruct n; discriminate]|].
  cbn [trace_ok] in H. apply andb_true_iff in H. destruct H as [H1 H2].
  destruct n as [|n].
  - cbn in Ha, Hb. inversion Ha; inversion Hb; subst. eapply trans_ok_sound; eauto.
  - cbn [nth_error] in Ha. apply (IH H2 n a b Ha Hb k v L).
Qed.

(* ... hence between ANY two snapshots of the trace (monotone growth) *)
Lemma trace_ok_monotone : forall tr, trace_ok tr = true ->
  forall m n a b, m <= n -> nth_error tr m = Some a -> nth_error tr n = Some b ->
  forall k v, lookup k a = Some v -> lookup k b = Some v.
Proof.
  intros tr H m n a b Hmn. revert b. induction Hmn as [|n Hmn IH]; intros b Ha Hb k v L.
  - rewrite Ha in Hb. inversion Hb; subst. exact L.
  - destruct (nth_error tr n) as [c|] eqn:Hc.
    + eapply trace_ok_adjacent; [exact H|exact Hc|exact Hb|]. eapply IH; eauto.
    + exfalso. apply nth_error_None in Hc. assert (nth_error tr (S n) = None) by (apply nth_error_None; lia). congruence.
Qed.

Lemma merge1_sound : forall s tbl t, merge1 tbl s = Some t ->
  (forall k v, lookup k tbl = Some v -> lookup k t = Some v) /\
  (forall k v, lookup k s = Some v -> lookup k t = Some v).
Proof.
  induction s as [|[k v] s IH]; intros tbl t H; cbn in H.
  - inversion H; subst. split; [auto|]. intros k v L. discriminate.
  - destruct (lookup k tbl) as [v'|] eqn:Lk.
    + destruct (N.eqb_spec v' v) as [E|E]; [|discriminate]. subst v'.
      destruct (IH _ _ H) as [A B]. split; [exact A|].
      intros k0 v0 L. cbn in L. destruct (N.eqb_spec k k0) as [X|X].
      * inversion L; subst. apply A, Lk.
      * apply B, L.
    + destruct (IH _ _ H) as [A B]. split.
      * intros k0 v0 L. apply A. cbn. destruct (N.eqb_spec k k0) as [X|X]; [subst; congruence|exact L].
      * intros k0 v0 L. cbn in L. destruct (N.eqb_spec k k0) as [X|X].
        -- inversion L; subst. apply A. cbn. rewrite N.eqb_refl. reflexivity.
        -- apply B, L.
Qed.

Lemma merge_sound : forall ss tbl t, merge tbl ss = Some t ->
  (forall k v, lookup k tbl = Some v -> lookup k t = Some v) /\
  (forall s, In s ss -> forall k v, lookup k s = Some v -> lookup k t = Some v).
Proof.
  induction ss as [|s ss IH]; intros tbl t H; cbn in H.
  - inversion H; subst. split; [auto|]. intros s [].
  - destruct (merge1 tbl s) as [t1|] eqn:M; [|discriminate].
    destruct (merge1_sound _ _ _ M) as [A B]. destruct (IH _ _ H) as [C D]. split.
    + intros k v L. apply C, A, L.
    + intros s' [E|E] k v L; [subst s'; apply C, B, L|eapply D; eauto].
Qed.

(* what acceptance of the observed traces means: one memo table exists that every snapshot of
   every trace is a part of, and inside each trace the store only grows *)
Theorem traces_accepted_sound : forall (trs : list (list snapshot)) t,
  forallb trace_ok trs = true -> merge [] (concat trs) = Some t ->
  (forall tr, In tr trs -> forall m n a b, m <= n -> nth_error tr m = Some a -> nth_error tr n = Some b ->
     forall k v, lookup k a = Some v -> lookup k b = Some v) /\
  (forall tr s, In tr trs -> In s tr -> forall k v, lookup k s = Some v -> lookup k t = Some v).
Proof.
  intros trs t H M. split.
  - intros tr Htr. rewrite forallb_forall in H. apply trace_ok_monotone. apply H, Htr.
  - intros tr s Htr Hs. destruct (merge_sound _ _ _ M) as [_ D]. apply D.
    apply in_concat. exists tr. split; assumption.
Qed.

(* the bridge to the model: the stores a memo-disciplined thread passes through when run alone
   grow monotonically inside the memo table - so a trace the checker rejects refutes the premise *)
Section Bridge.
Variable R : Type.
Variable memo : N -> option N.
Variable base : store N.

Fixpoint solo_trace (p : prog N R) (s : store N) : list (store N) :=
  s :: match p with
       | Ret _ => []
       | Get k f => solo_trace (f (s k)) s
       | Put k v q => solo_trace q (upd s k v)
       end.

Definition grows (s s' : store N) : Prop := forall k v, s k = Some v -> s' k = Some v.

Lemma grows_refl : forall s, grows s s.
Proof. intros s k v H. exact H. Qed.

Lemma ok_solo_trace_grows : forall (p : prog N R) kn r s, ok memo base kn p r ->
  consistent memo base s -> knows memo kn s ->
  forall s', In s' (solo_trace p s) -> grows s s' /\ consistent memo base s'.
Proof.
  induction p as [r0|k f IH|k v p IH]; intros kn r s H C K s' Hin; cbn in Hin.
  - destruct Hin as [E|[]]. subst. split; [apply grows_refl|exact C].
  - destruct Hin as [E|Hin]; [subst; split; [apply grows_refl|exact C]|].
    inversion H as [|kn0 k0 f0 r0 M H1|kn0 k0 v0 f0 r0 M Hk H1|kn0 k0 v0 f0 r0 M H1 H2|]; subst.
    + eapply IH; [|exact C|exact K|exact Hin]. pose proof (C k) as Ck. rewrite M in Ck. rewrite Ck. exact H1.
    + eapply IH; [|exact C|exact K|exact Hin]. destruct (K k Hk) as [v' [M' S']]. rewrite S'.
      assert (v' = v0) by congruence. subst v'. exact H1.
    + pose proof (C k) as Ck. rewrite M in Ck. destruct Ck as [E|E]; rewrite E in Hin.
      * eapply IH; [exact H1|exact C|exact K|exact Hin].
      * eapply IH; [exact H2|exact C| |exact Hin]. eapply knows_add_present; eauto.
  - destruct Hin as [E|Hin]; [subst; split; [apply grows_refl|exact C]|].
    inversion H as [| | | |kn0 k0 v0 p0 r0 M H1]; subst.
    assert (consistent memo base (upd s k v)) as C' by (apply consistent_upd; assumption).
    assert (knows memo (addk k kn) (upd s k v)) as K' by (apply knows_upd; assumption).
    destruct (IH _ _ _ H1 C' K' _ Hin) as [G C2]. split; [|exact C2].
    intros k0 v0 L. apply G. destruct (N.eq_dec k0 k) as [X|X].
    + subst k0. rewrite upd_same. pose proof (C k) as Ck. rewrite M in Ck. destruct Ck as [E|E]; congruence.
    + rewrite upd_other by assumption. exact L.
Qed.
End Bridge.

(* ------------------------------------------------------------------------------------------ *)
(* the schema-tree rebuild of the pinned tree is refuted                                        *)
(* ------------------------------------------------------------------------------------------ *)
Definition list_eqb (a b : list N) : bool := if list_eq_dec N.eq_dec a b then true else false.

(* flat schema of n columns named 1..n: root (0, n) followed by n leaves *)
Definition flat_schema (n : nat) : list elem :=
  (0%N, N.of_nat n) :: map (fun j => (N.of_nat j, 0%N)) (seq 1 n).

Definition rebuild_pool (ws : wlog) (name : N) : pool (list N) N :=
  fun i => match i with 0 => writes_prog ws 0%N | _ => reader name end.

(* slicer (thread 0) performs its first write - root["children"] = OrderedDict() - then the
   reader (thread 1) looks a column up: KeyError, although alone it finds the column *)
Lemma rebuild_refuted_3 :
  exists ws, tree_writes (flat_schema 3) = Some ws /\
  exists sched,
    result (exec sched (init (rebuild_pool ws 2%N) (built ws))) 1 = Some 1%N /\
    fst (solo (rebuild_pool ws 2%N 1) (built ws)) = 0%N /\
    In KDestructiveWrite (kinds list_eqb sched (init (rebuild_pool ws 2%N) (built ws))).
Proof.
  eexists. split; [vm_compute; reflexivity|].
  exists [0; 1]. vm_compute. split; [reflexivity|]. split; [reflexivity|]. left. reflexivity.
Qed.

(* ------------------------------------------------------------------------------------------ *)
(* the repaired code: a derived handle takes the parent's helper and writes nothing              *)
(* ------------------------------------------------------------------------------------------ *)
(* After the fix, ParquetFile.__getitem__ -> _set_attrs(helper) only READS the shared tree.  Thread 0
   derives handles (reads the root), all other threads look a column up.  For EVERY schema (any write
   log ws of schema_tree), every column of the root and EVERY schedule the lookup succeeds. *)
Definition slicer_fixed : prog (list N) N := Get 0%N (fun _ => Ret 0%N).
Definition repaired_pool (name : N) : pool (list N) N :=
  fun i => match i with 0 => slicer_fixed | _ => reader name end.

Theorem rebuild_repaired : forall (ws : wlog) (ks : list N) (name : N),
  built ws 0%N = Some ks -> existsb (N.eqb name) ks = true ->
  forall sched,
    (forall i r, result (exec sched (init (repaired_pool name) (built ws))) i = Some r -> r = 0%N) /\
    Forall (fun k => k <> KDestructiveWrite) (kinds list_eqb sched (init (repaired_pool name) (built ws))) /\
    (forall k, c_store (exec sched (init (repaired_pool name) (built ws))) k = built ws k).
Proof.
  intros ws ks name Hb Hn sched.
  pose (memo := fun _ : N => @None (list N)).
  assert (Hok : forall i, ok memo (built ws) nothing (repaired_pool name i) 0%N).
  { intros [|i]; cbn.
    - apply ok_get_imm; [reflexivity|constructor].
    - unfold reader. apply ok_get_imm; [reflexivity|]. rewrite Hb, Hn. constructor. }
  assert (C : consistent memo (built ws) (built ws)) by (intro k; reflexivity).
  assert (Hrefl : forall a : list N, list_eqb a a = true).
  { intro a. unfold list_eqb. destruct (list_eq_dec N.eq_dec a a) as [E|E]; [reflexivity|contradiction]. }
  destruct (memo_confluence _ _ memo (built ws) (repaired_pool name) (fun _ => 0%N) (built ws) Hok C list_eqb Hrefl sched)
    as [H1 [H2 [H3 H4]]].
  split; [|split].
  - intros i r H. rewrite (H1 i r H).
    apply (solo_ok _ _ memo (built ws) (repaired_pool name i) nothing 0%N (built ws) (Hok i) C).
    intros k Hk. discriminate.
  - exact H2.
  - intro k. specialize (H4 k). cbn in H4. exact H4.
Qed.
