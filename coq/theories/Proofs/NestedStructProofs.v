(* A LIST / MAP group below struct groups (path  s1 . ... . sk . NAME . list . element):
   the leaf's definition levels carry one more level per non-required ancestor struct.  For the
   flattened column "s1....sk.NAME" every one of them means "no collection in this row".

   Spec (Dremel): srow / srow_entries.   Impl (core._nested_levels, added by a fix: commit):
   n_opt = number of non-required groups on path[:-2], null = n_opt > 0, shift = max(n_opt-1, 0),
   defi' = max(defi, shift) - shift, max_defi' = max_defi - shift.
   Theorem: the folded levels of a row ARE the levels of the flattened row in the one-level shape
   (row_opt = null, same elem_opt), so every theorem about the one-level shapes applies. *)
From Coq Require Import NArith List Bool Lia.
From Pq Require Import Format.Nested Impl.CAssemble Proofs.NestedProofs.
Import ListNotations.
Open Scope N_scope.

Section St.
Variable V : Type.

(* a row of the struct-nested column: some ancestor struct is null (d = how many optional
   ancestors above it are defined), or all ancestors are there and the collection is r *)
Inductive srow := SNullAt (d : N) | SIn (r : row V).

Definition flatten (x : srow) : row V := match x with SNullAt _ => None | SIn r => r end.

(* s_off = number of optional ancestor structs *)
Definition srow_entries (s_off : N) (sh : shape) (x : srow) : list entry :=
  match x with
  | SNullAt d => [(0, d)]
  | SIn r => map (fun e : entry => (fst e, snd e + s_off)) (row_entries sh r)
  end.
Definition srow_values (x : srow) : list V := row_values (flatten x).
Definition wf_srow (s_off : N) (sh : shape) (x : srow) : bool :=
  match x with SNullAt d => d <? s_off | SIn r => wf_row sh r end.
Definition smax_def (s_off : N) (sh : shape) : N := max_def sh + s_off.

(* core._nested_levels *)
Definition n_opt (s_off : N) (sh : shape) : N := s_off + (if row_opt sh then 1 else 0).
Definition lshift (s_off : N) (sh : shape) : N := n_opt s_off sh - 1.        (* max(n_opt - 1, 0): N subtraction truncates *)
Definition fold_def (shift d : N) : N := N.max d shift - shift.
Definition flat_shape (s_off : N) (sh : shape) : shape := mkShape (0 <? n_opt s_off sh) (elem_opt sh).

Lemma fold_elem : forall s_off sh (e : elem V), (elem_opt sh || is_some e) = true ->
  fold_def (lshift s_off sh) (elem_def sh e + s_off) = elem_def (flat_shape s_off sh) e.
Proof.
  intros s_off [ro eo] e W. unfold fold_def, lshift, n_opt, flat_shape, elem_def, max_def, d_nullel, d_empty.
  cbn [row_opt elem_opt] in *. unfold n_opt. cbn [row_opt elem_opt].
  destruct (N.eq_dec s_off 0) as [->|Hs].
  - destruct ro, eo, e; cbn in *; try reflexivity; try discriminate.
  - assert ((0 <? s_off + (if ro then 1 else 0)) = true) as -> by (apply N.ltb_lt; destruct ro; lia).
    destruct ro, eo, e; cbn [is_some orb] in *; try discriminate; lia.
Qed.

Theorem struct_levels_fold : forall s_off sh (x : srow), wf_srow s_off sh x = true ->
  map (fun e : entry => (fst e, fold_def (lshift s_off sh) (snd e))) (srow_entries s_off sh x)
    = row_entries (flat_shape s_off sh) (flatten x) /\
  srow_values x = row_values (flatten x) /\
  wf_row (flat_shape s_off sh) (flatten x) = true /\
  smax_def s_off sh - lshift s_off sh = max_def (flat_shape s_off sh).
Proof.
  intros s_off sh x W. split; [|split; [reflexivity|split]].
  - destruct x as [d|r]; cbn [srow_entries flatten wf_srow] in *.
    + (* an ancestor is null *)
      apply N.ltb_lt in W. cbn [map fst snd row_entries]. unfold fold_def, lshift, n_opt.
      f_equal. f_equal. destruct (row_opt sh); lia.
    + destruct r as [[|e es]|]; cbn [row_entries map fst snd].
      * (* empty collection *)
        unfold fold_def, lshift, flat_shape, d_empty. cbn [row_opt]. unfold n_opt.
        destruct (N.eq_dec s_off 0) as [->|Hs].
        -- destruct (row_opt sh); reflexivity.
        -- assert ((0 <? s_off + (if row_opt sh then 1 else 0)) = true) as -> by (apply N.ltb_lt; destruct (row_opt sh); lia).
           f_equal. f_equal. destruct (row_opt sh); lia.
      * pose proof (wf_row_elems V sh _ W) as W'. cbn [forallb] in W'. apply andb_prop in W'. destruct W' as [We Wes].
        rewrite (fold_elem s_off sh e We). f_equal.
        rewrite map_map. rewrite map_map. cbn [fst snd].
        apply map_ext_in. intros a Ha. rewrite forallb_forall in Wes.
        rewrite (fold_elem s_off sh a (Wes a Ha)). reflexivity.
      * (* the collection itself is null *)
        cbn [wf_row] in W. unfold fold_def, lshift, n_opt. rewrite W. f_equal. f_equal. lia.
  - destruct x as [d|r]; cbn [flatten wf_srow] in *.
    + apply N.ltb_lt in W. unfold flat_shape, n_opt. cbn [wf_row row_opt]. apply N.ltb_lt. destruct (row_opt sh); lia.
    + destruct r as [es|]; cbn [wf_row flat_shape elem_opt row_opt] in *.
      * exact W.
      * unfold n_opt. rewrite W. apply N.ltb_lt. lia.
  - unfold smax_def, lshift, flat_shape, max_def, d_empty. cbn [row_opt elem_opt]. unfold n_opt.
    destruct (N.eq_dec s_off 0) as [->|Hs].
    + destruct (row_opt sh), (elem_opt sh); reflexivity.
    + assert ((0 <? s_off + (if row_opt sh then 1 else 0)) = true) as -> by (apply N.ltb_lt; destruct (row_opt sh); lia).
      destruct (row_opt sh), (elem_opt sh); lia.
Qed.

End St.

(* the model of core._nested_levels computes exactly n_opt / lshift / fold_def / the call's null and
   max_defi for a leaf path  <ancestor structs> ++ <LIST or MAP leaf path of shape sh> *)
Definition struct_path (outer : list bool) (sh : shape) : list reptype :=
  map (fun b : bool => if b then OPTIONAL else REQUIRED) outer ++ shape_path sh.
Fixpoint count_true (l : list bool) : N := match l with [] => 0 | b :: t => (if b then 1 else 0) + count_true t end.

Lemma fold_count : forall (l : list reptype) (a : N),
  fold_left (fun m t => match t with REQUIRED => m | _ => m + 1 end) l a
  = a + fold_left (fun m t => match t with REQUIRED => m | _ => m + 1 end) l 0.
Proof.
  induction l as [|t l IH]; intros a; cbn [fold_left]; [lia|].
  rewrite (IH (match t with REQUIRED => a | _ => a + 1 end)).
  rewrite (IH (match t with REQUIRED => 0 | _ => 0 + 1 end)). destruct t; lia.
Qed.

Lemma count_outer : forall outer : list bool,
  fold_left (fun m t => match t with REQUIRED => m | _ => m + 1 end)
            (map (fun b : bool => if b then OPTIONAL else REQUIRED) outer) 0 = count_true outer.
Proof.
  induction outer as [|b outer IH]; [reflexivity|].
  cbn [map fold_left count_true]. rewrite fold_count, IH. destruct b; lia.
Qed.

Lemma sch_n_opt_struct : forall outer sh,
  sch_n_opt (struct_path outer sh) = n_opt (count_true outer) sh.
Proof.
  intros outer sh. unfold sch_n_opt, struct_path, n_opt.
  assert (L : (length (map (fun b : bool => if b then OPTIONAL else REQUIRED) outer ++ shape_path sh) - 2)%nat
              = S (length outer)).
  { rewrite app_length, map_length. cbn. lia. }
  rewrite L. clear L.
  rewrite firstn_app, map_length.
  rewrite firstn_all2 by (rewrite map_length; lia).
  replace (S (length outer) - length outer)%nat with 1%nat by lia.
  rewrite fold_left_app, count_outer.
  destruct sh as [[|] [|]]; cbn; lia.
Qed.

Theorem nested_levels_struct : forall outer sh (defi : list N),
  nested_levels (struct_path outer sh) defi (smax_def (count_true outer) sh)
  = (row_opt (flat_shape (count_true outer) sh),
     map (fold_def (lshift (count_true outer) sh)) defi,
     max_def (flat_shape (count_true outer) sh)).
Proof.
  intros outer sh defi. unfold nested_levels. rewrite sch_n_opt_struct.
  fold (lshift (count_true outer) sh).
  assert (M : smax_def (count_true outer) sh - lshift (count_true outer) sh = max_def (flat_shape (count_true outer) sh)).
  { unfold smax_def, lshift, flat_shape, max_def, d_empty. cbn [row_opt elem_opt]. unfold n_opt.
    destruct (N.eq_dec (count_true outer) 0) as [->|Hs].
    - destruct (row_opt sh), (elem_opt sh); reflexivity.
    - assert ((0 <? count_true outer + (if row_opt sh then 1 else 0)) = true) as ->
        by (apply N.ltb_lt; destruct (row_opt sh); lia).
      destruct (row_opt sh), (elem_opt sh); lia. }
  rewrite M. reflexivity.
Qed.

(* the call as it was before the fix (null from the outermost group only, levels unfolded): a null
   list inside an optional struct came back as an empty list; with the fold it is None *)
Lemma struct_unfolded_refuted :
  exists (s_off : N) (sh : shape) (x : srow N) (wrong : row N),
    wf_srow N s_off sh x = true /\
    read_col_v1 true (smax_def s_off sh) (empty_arr 1) 0 [(srow_entries N s_off sh x, srow_values N x)] = AOk [wrong] /\
    wrong <> flatten N x /\
    read_col_v1 (row_opt (flat_shape s_off sh)) (max_def (flat_shape s_off sh)) (empty_arr 1) 0
      [(map (fun e : entry => (fst e, fold_def (lshift s_off sh) (snd e))) (srow_entries N s_off sh x), srow_values N x)]
    = AOk [flatten N x].
Proof.
  exists 1, (mkShape true true), (SIn N None), (Some []).
  split; [reflexivity|]. split; [vm_compute; reflexivity|]. split; [discriminate|]. vm_compute. reflexivity.
Qed.
