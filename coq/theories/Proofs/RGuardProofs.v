(* Soundness of the layout check of the repaired reader (Impl/RSelf.v guard_idx, core._is_one_bitpacked_run), on ARBITRARY bytes:
   when the dictionary indices of a page are one bit-packed run of width 8/16/32 that holds at least the page's values (and the
   run is present in full, as the format requires), reading the bytes after the run header as little-endian integers gives exactly
   what the specification's hybrid decoder gives.  Whatever created_by says, the shortcut cannot change the result.  (C03) *)
From Coq Require Import String.
From Coq Require Import NArith ZArith Arith List Lia Bool.
From Pq Require Import Base.Bytes Base.ListX Proofs.BytesProofs Proofs.ListXProofs Proofs.CodecProofs Codec.Varint Codec.Bitpack Codec.Hybrid
  Thrift.Compact Proofs.CompactProofs Format.Phys Format.Meta Format.Page Impl.WLevels Impl.RPages Impl.RSelf Proofs.WLevelsProofs Proofs.RPagesProofs Proofs.WChunkProofs.
Import ListNotations.
Open Scope N_scope.

(* hyb_dec on one bit-packed run, header given by what uleb_dec returns (any encoding of the header, not only the shortest) *)
Lemma hyb_dec_bp_single_dec w n g body inp :
  0 < n -> n <= 8 * g -> uleb_dec body = Some (2 * g + 1, inp) -> bp_nbytes w n <= lenN inp ->
  hyb_dec false w n body = Some (bp_dec w n (takeN (g * w) inp), dropN (g * w) inp).
Proof.
  intros Hn Hg HU Hl. unfold hyb_dec. cbn [hyb_dec_f].
  destruct (N.eqb_spec n 0) as [E|_]; [lia|].
  rewrite HU.
  replace ((2 * g + 1) mod 2) with 1 by (rewrite N.add_comm, N.mul_comm, N.mod_add by lia; reflexivity).
  cbn [N.eqb].
  replace ((2 * g + 1) / 2) with g by (rewrite N.add_comm, N.mul_comm, N.div_add by lia; reflexivity).
  replace (N.min (8 * g) n) with n by lia.
  assert (T : (lenN inp <? bp_nbytes w n) = false) by (apply N.ltb_ge; exact Hl).
  rewrite T, N.sub_diag, hyb_dec_f_done.
  rewrite !rev_append_rev, !app_nil_r, rev_involutive. reflexivity.
Qed.

(* every string of k*n bytes is the k-byte little-endian writing of n integers below 256^k *)
Lemma le_enc_le2n l : bytes_ok l -> le_enc (length l) (le2n l) = l.
Proof.
  induction 1 as [|b l Hb Hl IH]; [reflexivity|].
  cbn [length le_enc le2n].
  replace ((b + 256 * le2n l) mod 256) with b by (rewrite N.mul_comm, N.mod_add, N.mod_small; lia).
  replace ((b + 256 * le2n l) / 256) with (le2n l) by (rewrite N.mul_comm, N.div_add, N.div_small; lia).
  now rewrite IH.
Qed.

Lemma le2n_bound l : bytes_ok l -> le2n l < 256 ^ N.of_nat (length l).
Proof.
  induction 1 as [|b l Hb Hl IH]; [cbn; lia|].
  cbn [length le2n]. rewrite Nat2N.inj_succ, N.pow_succ_r'. lia.
Qed.

Fixpoint chunks_le (k n : nat) (b : bytes) : list N :=
  match n with O => [] | S m => le2n (firstn k b) :: chunks_le k m (skipn k b) end.

Lemma bytes_as_codes k : forall n b, bytes_ok b -> (k * n <= length b)%nat ->
  firstn (k * n) b = wr_codes k (chunks_le k n b) /\
  Forall (fun c => c < 256 ^ N.of_nat k) (chunks_le k n b) /\ length (chunks_le k n b) = n.
Proof.
  induction n as [|n IH]; intros b OK L.
  - rewrite Nat.mul_0_r. cbn. repeat split. constructor.
  - assert (LK : length (firstn k b) = k) by (rewrite firstn_length; lia).
    assert (OKS : bytes_ok (skipn k b)).
    { unfold bytes_ok in *. rewrite <- (firstn_skipn k b) in OK. apply Forall_app in OK. tauto. }
    assert (OKF' : bytes_ok (firstn k b)).
    { unfold bytes_ok in *. rewrite <- (firstn_skipn k b) in OK. apply Forall_app in OK. tauto. }
    destruct (IH (skipn k b) OKS) as (E & F & LN); [rewrite skipn_length; lia|].
    cbn [chunks_le]. unfold wr_codes. cbn [map concat length]. fold (wr_codes k (chunks_le k n (skipn k b))).
    repeat split.
    + replace (k * S n)%nat with (k + k * n)%nat by lia.
      rewrite <- (firstn_skipn k b) at 1. rewrite firstn_app, LK.
      rewrite firstn_all2 by lia.
      replace (k + k * n - k)%nat with (k * n)%nat by lia. rewrite E.
      f_equal. pose proof (le_enc_le2n _ OKF') as Q. rewrite LK in Q. symmetry. exact Q.
    + constructor; [|exact F]. pose proof (le2n_bound _ OKF') as Q. rewrite LK in Q. exact Q.
    + now rewrite LN.
Qed.

Lemma wr_codes_app k a b : wr_codes k (a ++ b) = wr_codes k a ++ wr_codes k b.
Proof. unfold wr_codes. now rewrite map_app, concat_app. Qed.

(* THE STATEMENT: guard true, run present in full => raw reading = specification decoder *)
Theorem guard_idx_sound k nval body hd inp :
  k_ok k -> 0 < nval -> uleb_dec body = Some (hd, inp) -> guard_idx nval body = true ->
  bytes_ok inp -> (hd / 2) * 8 * N.of_nat k <= lenN inp ->
  exists ix rest,
    hyb_dec false (8 * N.of_nat k) nval body = Some (ix, rest) /\
    rd_codes_raw (N.of_nat k) ((hd / 2) * 8) nval inp = ROk ix.
Proof.
  intros K Hn HU G OK LEN. unfold guard_idx in G. rewrite HU in G.
  apply andb_true_iff in G. destruct G as [ODD COVER]. apply N.leb_le in COVER.
  set (g := hd / 2) in *.
  assert (HD : hd = 2 * g + 1).
  { unfold g. rewrite (N.div_mod hd 2) at 1 by lia. f_equal.
    rewrite <- N.bit0_mod, N.bit0_odd, ODD. reflexivity. }
  assert (KP : 0 < N.of_nat k) by (destruct K as [-> | [-> | ->]]; cbn; lia).
  set (w := 8 * N.of_nat k).
  (* the 8g codes of the run *)
  destruct (bytes_as_codes k (N.to_nat (g * 8)) inp OK) as (E & F & LN).
  { rewrite lenN_ok in LEN. lia. }
  set (cs := chunks_le k (N.to_nat (g * 8)) inp) in *.
  assert (TAKE : takeN (g * w) inp = wr_codes k cs).
  { rewrite takeN_ok, <- E. f_equal. unfold w. lia. }
  assert (NV : (N.to_nat nval <= length cs)%nat) by (rewrite LN; lia).
  exists (firstn (N.to_nat nval) cs), (dropN (g * w) inp). split.
  - rewrite HD in HU.
    rewrite (hyb_dec_bp_single_dec w nval g body inp Hn ltac:(lia) HU).
    + f_equal. f_equal. rewrite TAKE.
      rewrite (bp_dec_prefix w nval (N.of_nat (length cs))) by lia.
      rewrite (wr_codes_is_bitpacked k cs F). fold w.
      rewrite <- (app_nil_r (bp_enc w cs)).
      rewrite bp_roundtrip; [reflexivity|].
      eapply Forall_impl; [|exact F]. cbn beta. intros a Ha. unfold w. now rewrite <- pow256.
    + unfold bp_nbytes, w.
      replace (nval * (8 * N.of_nat k) + 7) with (7 + (nval * N.of_nat k) * 8) by lia.
      rewrite N.div_add by lia. change (7 / 8) with 0. nia.
  - unfold rd_codes_raw.
    replace (g * 8 * N.of_nat k) with (g * w) by (unfold w; lia).
    rewrite TAKE.
    assert (LW : lenN (wr_codes k cs) = N.of_nat k * (g * 8)) by (rewrite lenN_ok, wr_codes_length, LN; lia).
    rewrite LW.
    assert (KNZ : (N.of_nat k =? 0) = false) by (apply N.eqb_neq; lia).
    rewrite KNZ. cbn [orb].
    rewrite N.mul_comm, N.mod_mul by lia. cbn [N.eqb negb].
    rewrite N.div_mul by lia. rewrite N.min_l by lia.
    rewrite <- (firstn_skipn (N.to_nat nval) cs) at 1. rewrite wr_codes_app.
    assert (LF : length (firstn (N.to_nat nval) cs) = N.to_nat nval) by (rewrite firstn_length; lia).
    rewrite <- LF at 1.
    rewrite raw_codes_wr.
    + reflexivity.
    + pose proof F as F2. rewrite <- (firstn_skipn (N.to_nat nval) cs) in F2. apply Forall_app in F2. tauto.
Qed.

(* PAGE level: with the layout check in place the `selfmade` flag cannot change what read_data_page returns for a v1 page -
   on ANY bytes: either the check fails (the general decoder runs) or it passes and the run is present in full (then the raw
   reading IS the general decoder's result, guard_idx_sound).  `n`, `defi`, `nn`, `rest` name what the first steps of the
   function compute; the hypothesis about the run only has to hold when the check passes. *)
Theorem rd_data_page_selfmade_irrelevant skip cd h raw n defi nn bw body :
  z2n "negative num_values"%string (d_nvals h) = ROk n ->
  rd_def_sm skip (cd_maxdef cd) n raw = ROk (defi, nn, bw :: body) ->
  (guard_idx (n - nn) body = true ->
     exists hd inp, uleb_dec body = Some (hd, inp) /\ 0 < n - nn /\ bytes_ok inp /\ (hd / 2) * 8 * (bw / 8) <= lenN inp) ->
  rd_data_page_sm true skip cd h raw = rd_data_page_sm false skip cd h raw.
Proof.
  intros HN HD HR. unfold rd_data_page_sm. rewrite HN. cbn [rbind]. rewrite HD. cbn [rbind].
  destruct (d_enc h =? E_PLAIN)%Z; [reflexivity|].
  destruct ((d_enc h =? E_PLAIN_DICT) || (d_enc h =? E_RLE_DICT))%Z; [|reflexivity].
  destruct ((bw =? 8) || (bw =? 16) || (bw =? 32)) eqn:BW; cbn [andb]; [|reflexivity].
  destruct (guard_idx (n - nn) body) eqn:G; [|reflexivity].
  destruct (HR eq_refl) as (hd & inp & HU & NP & OK & LEN).
  assert (KK : exists k, k_ok k /\ bw = 8 * N.of_nat k /\ bw / 8 = N.of_nat k).
  { apply orb_prop in BW. destruct BW as [BW|BW]; [apply orb_prop in BW; destruct BW as [BW|BW]|]; apply N.eqb_eq in BW; subst bw.
    - exists 1%nat. repeat split. now left.
    - exists 2%nat. repeat split. right. now left.
    - exists 4%nat. repeat split. right. now right. }
  destruct KK as (k & K & BWK & BK).
  rewrite BK in *.
  destruct (guard_idx_sound k (n - nn) body hd inp K NP HU G OK LEN) as (ix & rest' & HY & RAW).
  rewrite HU, RAW. cbn [rbind].
  assert (BZ : negb (bw =? 0) = true) by (subst bw; destruct K as [-> | [-> | ->]]; reflexivity).
  rewrite BZ. rewrite BWK. rewrite HY. reflexivity.
Qed.

(* ---- definition levels: guard_def true => stepping over the block = decoding it ----------------------------------- *)
Lemma uleb_dec_split : forall r v rest, uleb_dec r = Some (v, rest) ->
  exists pre, r = pre ++ rest /\ forall x, uleb_dec (pre ++ x) = Some (v, x).
Proof.
  induction r as [|b r IH]; intros v rest H; [discriminate|].
  cbn [uleb_dec] in H. destruct (b <? 128) eqn:B.
  - injection H as <- <-. exists [b]. split; [reflexivity|]. intro x. cbn [app uleb_dec]. now rewrite B.
  - destruct (uleb_dec r) as [[v' r']|] eqn:U; [|discriminate]. injection H as <- <-.
    destruct (IH v' r' eq_refl) as (pre & E & P). exists (b :: pre). split; [cbn [app]; now rewrite <- E|].
    intro x. cbn [app uleb_dec]. now rewrite B, P.
Qed.

Lemma hyb_dec_rle_single_dec strict w n v pre r :
  0 < n -> 0 < w <= 8 -> v < 256 -> (forall x, uleb_dec (pre ++ x) = Some (2 * n, x)) ->
  hyb_dec strict w n (pre ++ v :: r) = Some (repeat v (N.to_nat n), r).
Proof.
  intros Hn Hw Hv HU. unfold hyb_dec. cbn [hyb_dec_f].
  destruct (N.eqb_spec n 0) as [E|_]; [lia|].
  rewrite HU.
  replace ((2 * n) mod 2) with 0 by (rewrite N.mul_comm, N.mod_mul by lia; reflexivity).
  cbn [N.eqb].
  replace (2 * n / 2) with n by (rewrite N.mul_comm, N.div_mul by lia; reflexivity).
  assert (V : N.to_nat (vbytes w) = 1%nat).
  { unfold vbytes. assert (Q : (w + 7) / 8 = 1) by (symmetry; apply (N.div_unique (w + 7) 8 1 (w - 1)); lia). rewrite Q. reflexivity. }
  rewrite V. unfold le_dec. cbn [length Nat.leb firstn skipn le2n].
  rewrite N.min_id, N.sub_diag, hyb_dec_f_done.
  rewrite repN_ok, app_nil_r, rev_append_rev, app_nil_r.
  replace (v + 256 * 0) with v by lia. f_equal. f_equal.
  clear. induction (N.to_nat n) as [|k IH]; [reflexivity|].
  cbn [repeat rev]. rewrite IH. clear IH. induction k as [|k IH]; [reflexivity|]. cbn [repeat app]. now rewrite IH.
Qed.

Theorem guard_def_sound n raw : 0 < n -> bytes_ok raw -> guard_def 1 n raw = true ->
  rd_def 1 n raw = ROk (None, 0, dropN (skip_hand n) raw).
Proof.
  intros Hn OK G. unfold guard_def in G.
  destruct (le_dec 4 raw) as [[len r]|] eqn:LD; [|discriminate].
  destruct (uleb_dec r) as [[hd [|lvl r3]]|] eqn:U; try discriminate.
  apply andb_true_iff in G. destruct G as [G SK]. apply andb_true_iff in G. destruct G as [G LEN].
  apply andb_true_iff in G. destruct G as [HD LV].
  apply N.eqb_eq in SK, LEN, HD, LV. subst hd lvl.
  destruct (uleb_dec_split r (2 * n) (1 :: r3) U) as (pre & ER & PU).
  pose proof LD as LD0.
  unfold le_dec in LD. destruct (Nat.leb 4 (length raw)) eqn:L4; [|discriminate]. injection LD as LEN4 RR.
  assert (RAW : raw = firstn 4 raw ++ r) by (rewrite <- RR; symmetry; apply firstn_skipn).
  apply Nat.leb_le in L4.
  assert (F4 : length (firstn 4 raw) = 4%nat) by (rewrite firstn_length; lia).
  assert (LR : lenN r = N.of_nat (length pre) + 1 + lenN r3) by (rewrite ER, !lenN_ok, app_length; cbn [length]; lia).
  assert (LENV : len = N.of_nat (length pre) + 1) by lia.
  unfold rd_def. cbn [N.eqb]. change (N.size 1) with 1.
  unfold hyb_dec_len. rewrite LD0.
  destruct (N.ltb_spec (lenN r) len) as [X|_]; [lia|].
  assert (TK : takeN len r = pre ++ [1]).
  { rewrite takeN_ok, ER, LENV. replace (N.to_nat (N.of_nat (length pre) + 1)) with (length pre + 1)%nat by lia.
    rewrite firstn_app. rewrite firstn_all2 by lia. replace (length pre + 1 - length pre)%nat with 1%nat by lia. reflexivity. }
  assert (DR : dropN len r = r3).
  { rewrite dropN_ok, ER, LENV. replace (N.to_nat (N.of_nat (length pre) + 1)) with (length pre + 1)%nat by lia.
    rewrite skipn_app. rewrite skipn_all2 by lia. replace (length pre + 1 - length pre)%nat with 1%nat by lia. reflexivity. }
  rewrite TK, DR.
  rewrite (hyb_dec_rle_single_dec false 1 n 1 pre [] Hn ltac:(lia) ltac:(lia) PU).
  rewrite count_def_repeat, N2Nat.id, N.sub_diag. cbn [N.eqb].
  f_equal. f_equal.
  rewrite dropN_ok, SK.
  assert (LRAW : lenN raw = 4 + lenN r) by (rewrite RAW at 1; rewrite !lenN_ok, app_length, F4; lia).
  replace (N.to_nat (lenN raw - lenN r3)) with (4 + (length pre + 1))%nat by (rewrite LRAW, LR; lia).
  remember (firstn 4 raw) as f4 eqn:EF4.
  rewrite RAW, ER.
  rewrite skipn_app. rewrite skipn_all2 by lia.
  replace (4 + (length pre + 1) - length f4)%nat with (length pre + 1)%nat by lia.
  cbn [app]. rewrite skipn_app. rewrite skipn_all2 by lia.
  replace (length pre + 1 - length pre)%nat with 1%nat by lia. reflexivity.
Qed.

Lemma guards_hold_on_writer n rest nval g x :
  n < 2 ^ 31 -> nval <= 8 * g ->
  guard_def 1 n (wr_defs_nonull_v1 n ++ rest) = true /\ guard_idx nval (uleb_enc (2 * g + 1) ++ x) = true.
Proof. intros H1 H2. split; [exact (guard_def_writer n rest H1)|exact (guard_idx_uleb nval g x H2)]. Qed.

(* ---- the v2 categorical fast path (Impl/RCat.v cat_tail, core.read_data_page_v2 with use_cat) on arbitrary bytes ----------- *)
From Pq Require Import Impl.RCat.

Lemma guard_idx_sound_ix k nval body hd inp :
  k_ok k -> 0 < nval -> uleb_dec body = Some (hd, inp) -> guard_idx nval body = true ->
  bytes_ok inp -> (hd / 2) * 8 * N.of_nat k <= lenN inp ->
  let cs := chunks_le k (N.to_nat ((hd / 2) * 8)) inp in
  (exists rest, hyb_dec false (8 * N.of_nat k) nval body = Some (firstn (N.to_nat nval) cs, rest)) /\
  firstn (k * N.to_nat ((hd / 2) * 8)) inp = wr_codes k cs /\ Forall (fun c => c < 256 ^ N.of_nat k) cs /\
  length cs = N.to_nat ((hd / 2) * 8) /\ nval <= (hd / 2) * 8.
Proof.
  intros K Hn HU G OK LEN. unfold guard_idx in G. rewrite HU in G.
  apply andb_true_iff in G. destruct G as [ODD COVER]. apply N.leb_le in COVER.
  set (g := hd / 2) in *.
  assert (HD : hd = 2 * g + 1).
  { unfold g. rewrite (N.div_mod hd 2) at 1 by lia. f_equal.
    rewrite <- N.bit0_mod, N.bit0_odd, ODD. reflexivity. }
  assert (KP : 0 < N.of_nat k) by (destruct K as [-> | [-> | ->]]; cbn; lia).
  set (w := 8 * N.of_nat k).
  destruct (bytes_as_codes k (N.to_nat (g * 8)) inp OK) as (E & F & LN).
  { rewrite lenN_ok in LEN. lia. }
  cbn zeta. set (cs := chunks_le k (N.to_nat (g * 8)) inp) in *.
  assert (TAKE : takeN (g * w) inp = wr_codes k cs).
  { rewrite takeN_ok, <- E. f_equal. unfold w. lia. }
  split; [|repeat split; assumption].
  exists (dropN (g * w) inp).
  rewrite HD in HU.
  rewrite (hyb_dec_bp_single_dec w nval g body inp Hn ltac:(lia) HU).
  - f_equal. f_equal. rewrite TAKE.
    rewrite (bp_dec_prefix w nval (N.of_nat (length cs))) by lia.
    rewrite (wr_codes_is_bitpacked k cs F). fold w.
    rewrite <- (app_nil_r (bp_enc w cs)).
    rewrite bp_roundtrip; [reflexivity|].
    eapply Forall_impl; [|exact F]. cbn beta. intros a Ha. unfold w. now rewrite <- pow256.
  - unfold bp_nbytes, w.
    replace (nval * (8 * N.of_nat k) + 7) with (7 + (nval * N.of_nat k) * 8) by lia.
    rewrite N.div_add by lia. change (7 / 8) with 0. nia.
Qed.

Lemma wr_codes_firstn k m cs : firstn (k * m) (wr_codes k cs) = wr_codes k (firstn m cs).
Proof.
  revert cs. induction m as [|m IH]; intros cs.
  - rewrite Nat.mul_0_r. reflexivity.
  - destruct cs as [|c cs]; [cbn [firstn]; unfold wr_codes; cbn; now rewrite firstn_nil|].
    unfold wr_codes. cbn [map concat firstn]. fold (wr_codes k cs). fold (wr_codes k (firstn m cs)).
    replace (k * S m)%nat with (k + k * m)%nat by lia.
    rewrite firstn_app, le_enc_length. rewrite firstn_all2 by (rewrite le_enc_length; lia).
    replace (k + k * m - k)%nat with (k * m)%nat by lia. now rewrite IH.
Qed.

Theorem cat_tail_selfmade_irrelevant ak maxdef n nn lv bw r :
  nn <= n ->
  (guard_idx (n - nn) r = true ->
     exists hd out, uleb_dec r = Some (hd, out) /\ 0 < n - nn /\ bytes_ok out /\ (hd / 2) * 8 * (bw / 8) <= lenN out) ->
  cat_tail true ak maxdef (n, nn, lv, bw, r) = cat_tail false ak maxdef (n, nn, lv, bw, r).
Proof.
  intros NN HR. unfold cat_tail.
  destruct ((bw =? 8) || (bw =? 16) || (bw =? 32)) eqn:BW; cbn [andb]; [|reflexivity].
  destruct (guard_idx (n - nn) r) eqn:G; [|reflexivity].
  destruct (HR eq_refl) as (hd & out & HU & NP & OK & LEN).
  assert (KK : exists k, k_ok k /\ bw = 8 * N.of_nat k /\ bw / 8 = N.of_nat k).
  { apply orb_prop in BW. destruct BW as [BW|BW]; [apply orb_prop in BW; destruct BW as [BW|BW]|]; apply N.eqb_eq in BW; subst bw.
    - exists 1%nat. repeat split. now left.
    - exists 2%nat. repeat split. right. now left.
    - exists 4%nat. repeat split. right. now right. }
  destruct KK as (k & K & BWK & BK). rewrite BK in *.
  assert (KP : 0 < N.of_nat k) by (destruct K as [-> | [-> | ->]]; cbn; lia).
  destruct (guard_idx_sound_ix k (n - nn) r hd out K NP HU G OK LEN) as ((rest & HY) & E & F & LN & COVER).
  set (g8 := hd / 2 * 8) in *. set (cs := chunks_le k (N.to_nat g8) out) in *.
  set (nv := n - nn) in *.
  assert (BZ : negb (bw =? 0) = true) by (subst bw; destruct K as [-> | [-> | ->]]; reflexivity).
  assert (NZ : negb (nv =? 0) = true) by (apply negb_true_iff, N.eqb_neq; lia).
  rewrite BZ, NZ. cbn [andb]. rewrite BWK in *. rewrite HY. cbn [rbind].
  rewrite HU.
  (* the first nv codes out of the bytes *)
  assert (PRE : firstn (k * N.to_nat nv) out = wr_codes k (firstn (N.to_nat nv) cs)).
  { rewrite <- wr_codes_firstn, <- E. rewrite firstn_firstn. f_equal. nia. }
  assert (LF : length (firstn (N.to_nat nv) cs) = N.to_nat nv) by (rewrite firstn_length; lia).
  assert (FF : Forall (fun c => c < 256 ^ N.of_nat k) (firstn (N.to_nat nv) cs)).
  { pose proof F as F2. rewrite <- (firstn_skipn (N.to_nat nv) cs) in F2. apply Forall_app in F2. tauto. }
  destruct ((lenN out =? n * ak) && (8 * N.of_nat k =? 8 * ak) && (nn =? 0)) eqn:COPY.
  - (* the bytes are the codes array: no NULL, same item size, exactly n codes *)
    apply andb_true_iff in COPY. destruct COPY as [COPY N0]. apply andb_true_iff in COPY. destruct COPY as [LO AK].
    apply N.eqb_eq in LO, AK, N0. assert (AKK : ak = N.of_nat k) by lia. subst ak nn.
    assert (NV : nv = n) by (unfold nv; lia).
    assert (KZ : (N.of_nat k =? 0) = false) by (apply N.eqb_neq; lia). rewrite KZ.
    assert (G8 : g8 = n) by (rewrite lenN_ok in *; nia).
    assert (ALL : out = wr_codes k cs).
    { rewrite <- E. symmetry. apply firstn_all2. rewrite lenN_ok in LO. nia. }
    rewrite NV in *. rewrite firstn_all2 by lia.
    rewrite ALL at 1. rewrite <- (app_nil_r (wr_codes k cs)).
    replace (N.to_nat n) with (length cs) by lia.
    rewrite raw_codes_wr by exact F. cbn [rev app].
    unfold put_codes. cbn [N.eqb]. rewrite lenN_ok, LN, G8, N2Nat.id, N.eqb_refl. reflexivity.
  - (* codes of bw bits, as many as the page has values *)
    assert (TK : takeN (nv * N.of_nat k) out = wr_codes k (firstn (N.to_nat nv) cs)).
    { rewrite takeN_ok, <- PRE. f_equal. lia. }
    rewrite TK.
    assert (LW : lenN (wr_codes k (firstn (N.to_nat nv) cs)) = N.of_nat k * nv) by (rewrite lenN_ok, wr_codes_length, LF; lia).
    rewrite LW. rewrite N.mul_comm, N.mod_mul by lia. cbn [N.eqb negb].
    rewrite N.div_mul by lia.
    rewrite <- (app_nil_r (wr_codes k (firstn (N.to_nat nv) cs))).
    rewrite <- LF at 1. rewrite raw_codes_wr by exact FF. cbn [rev app]. reflexivity.
Qed.

(* PAGE level (v2, read as a categorical): with the layout check the `selfmade` flag cannot change the codes returned *)
Theorem rd_page_v2_cat_selfmade_irrelevant decompress ak cd codec h usize csize payload n nn lv bw r :
  cat_prefix decompress cd codec h usize csize payload = ROk (n, nn, lv, bw, r) -> nn <= n ->
  (guard_idx (n - nn) r = true ->
     exists hd out, uleb_dec r = Some (hd, out) /\ 0 < n - nn /\ bytes_ok out /\ (hd / 2) * 8 * (bw / 8) <= lenN out) ->
  rd_page_v2_cat decompress true ak cd codec h usize csize payload = rd_page_v2_cat decompress false ak cd codec h usize csize payload.
Proof.
  intros P NN HR. unfold rd_page_v2_cat. rewrite P. cbn [rbind]. apply cat_tail_selfmade_irrelevant; assumption.
Qed.
